(* Ring homomorphisms between [cring]s and how the matrix operations commute with them: whatever is
   computed by the (parametric) models in an executable ring transports to any ring it maps into. *)
Require Import Coq.Arith.Arith Coq.Lists.List.
Require Import OQ.Base.Ring OQ.Base.Sums OQ.Base.Mat.
Import ListNotations.

Record cring_hom (A B : cring) (f : A -> B) : Prop := {
  hom_0 : f c0 = c0; hom_1 : f c1 = c1;
  hom_add : forall x y, f (cadd x y) = cadd (f x) (f y);
  hom_mul : forall x y, f (cmul x y) = cmul (f x) (f y);
  hom_opp : forall x, f (copp x) = copp (f x);
  hom_sub : forall x y, f (csub x y) = csub (f x) (f y);
  hom_conj : forall x, f (cconj x) = cconj (f x);
  hom_i : f ci = ci
}.

Section Hom.
  Variables A B : cring.
  Variable f : A -> B.
  Hypothesis Hf : cring_hom A B f.

  Definition mmap (M : Mat A) : Mat B := fun i j => f (M i j).
  Definition vmap (v : Vec A) : Vec B := fun i => f (v i).

  Lemma rsum_hom n (g : nat -> A) : f (rsum n g) = rsum n (fun k => f (g k)).
  Proof. induction n as [|n IH]; cbn [rsum]; [apply (hom_0 _ _ _ Hf)|]. rewrite (hom_add _ _ _ Hf), IH. reflexivity. Qed.

  Lemma lsum_hom {T} (l : list T) (g : T -> A) : f (lsum l g) = lsum l (fun x => f (g x)).
  Proof. induction l as [|x l IH]; cbn [lsum]; [apply (hom_0 _ _ _ Hf)|]. rewrite (hom_add _ _ _ Hf), IH. reflexivity. Qed.

  Lemma lprod_hom {T} (l : list T) (g : T -> A) : f (lprod l g) = lprod l (fun x => f (g x)).
  Proof. induction l as [|x l IH]; cbn [lprod]; [apply (hom_1 _ _ _ Hf)|]. rewrite (hom_mul _ _ _ Hf), IH. reflexivity. Qed.

  Lemma mmul_hom d (M N : Mat A) i j : mmap (mmul d M N) i j = mmul d (mmap M) (mmap N) i j.
  Proof. unfold mmap, mmul. rewrite rsum_hom. apply rsum_ext. intros k _. apply (hom_mul _ _ _ Hf). Qed.

  Lemma mvec_hom d (M : Mat A) (v : Vec A) i : vmap (mvec d M v) i = mvec d (mmap M) (vmap v) i.
  Proof. unfold vmap, mmap, mvec. rewrite rsum_hom. apply rsum_ext. intros k _. apply (hom_mul _ _ _ Hf). Qed.

  Lemma eye_hom i j : mmap eye i j = eye i j.
  Proof. unfold mmap, eye. destruct (Nat.eqb i j); [apply (hom_1 _ _ _ Hf)|apply (hom_0 _ _ _ Hf)]. Qed.

  Lemma adj_hom (M : Mat A) i j : mmap (adj M) i j = adj (mmap M) i j.
  Proof. unfold mmap, adj. apply (hom_conj _ _ _ Hf). Qed.

  Lemma kron_hom rb (M N : Mat A) i j : mmap (kron rb M N) i j = kron rb (mmap M) (mmap N) i j.
  Proof. unfold mmap, kron. apply (hom_mul _ _ _ Hf). Qed.

  Lemma madd_hom (M N : Mat A) i j : mmap (madd M N) i j = madd (mmap M) (mmap N) i j.
  Proof. unfold mmap, madd. apply (hom_add _ _ _ Hf). Qed.

  Lemma mscale_hom c (M : Mat A) i j : mmap (mscale c M) i j = mscale (f c) (mmap M) i j.
  Proof. unfold mmap, mscale. apply (hom_mul _ _ _ Hf). Qed.

  Lemma mat_eq_hom d (M N : Mat A) : mat_eq d M N -> mat_eq d (mmap M) (mmap N).
  Proof. intros H i j Hi Hj. unfold mmap. rewrite H by assumption. reflexivity. Qed.

  Lemma memo_hom d (M : Mat A) : mat_eq d (mmap (memo d M)) (mmap M).
  Proof. apply mat_eq_hom. apply memo_eq. Qed.

  Lemma of_Z_hom z : f (of_Z z) = of_Z z.
  Proof.
    assert (P : forall p, f (of_pos A p) = of_pos B p).
    { induction p as [p IH|p IH|]; cbn [of_pos]; rewrite ?(hom_add _ _ _ Hf), ?IH, ?(hom_1 _ _ _ Hf); reflexivity. }
    destruct z as [|p|p]; cbn [of_Z]; [apply (hom_0 _ _ _ Hf)|apply P|]. rewrite (hom_opp _ _ _ Hf), P. reflexivity.
  Qed.
End Hom.

Arguments mmap {A B}. Arguments vmap {A B}.
