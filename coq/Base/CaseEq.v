(* Boolean comparisons used by the generated correspondence case files. *)
Require Import Coq.ZArith.ZArith Coq.Lists.List Coq.Strings.String Coq.QArith.QArith Coq.Bool.Bool.
Import ListNotations.

Fixpoint leqb {A} (e : A -> A -> bool) (l1 l2 : list A) : bool :=
  match l1, l2 with
  | [], [] => true
  | x :: r1, y :: r2 => e x y && leqb e r1 r2
  | _, _ => false
  end.
Definition oeqb {A} (e : A -> A -> bool) (a b : option A) : bool :=
  match a, b with Some x, Some y => e x y | None, None => true | _, _ => false end.
Definition peqb {A B} (ea : A -> A -> bool) (eb : B -> B -> bool) (a b : A * B) : bool :=
  ea (fst a) (fst b) && eb (snd a) (snd b).
Definition lzeqb := leqb Z.eqb.
Definition llzeqb := leqb lzeqb.
Definition lneqb := leqb Nat.eqb.
Definition lseqb := leqb String.eqb.
Definition qeqb (a b : Q) : bool := Qeq_bool a b.
Definition lqeqb := leqb qeqb.
Definition gqeqb (a b : Q * Q) : bool := peqb qeqb qeqb a b.
Definition beqb (a b : bool) : bool := Bool.eqb a b.

Lemma leqb_true {A} (e : A -> A -> bool) : (forall x y, e x y = true -> x = y) ->
  forall l1 l2, leqb e l1 l2 = true -> l1 = l2.
Proof.
  intros He l1. induction l1 as [|x r IH]; intros [|y r2] H; simpl in H; try reflexivity; try discriminate.
  apply andb_true_iff in H. destruct H as [H1 H2]. f_equal; [apply He; exact H1|apply IH; exact H2].
Qed.
