(* Matrices as functions on indices, over a commutative ring with conjugation. *)
Require Import Coq.setoid_ring.Ring Coq.Arith.Arith Coq.micromega.Lia Coq.Lists.List.
Require Import OQ.Base.Ring OQ.Base.Sums.
Import ListNotations.

Section Mat.
  Variable K : cring.
  Add Ring Kring : (c_ring K).
  Local Open Scope cr_scope.

  Definition Mat := nat -> nat -> K.
  Definition Vec := nat -> K.

  Definition mat_eq (d : nat) (A B : Mat) : Prop := forall i j, i < d -> j < d -> A i j = B i j.
  Definition vec_eq (d : nat) (u v : Vec) : Prop := forall i, i < d -> u i = v i.

  Definition mmul (d : nat) (A B : Mat) : Mat := fun i j => rsum d (fun k => A i k * B k j).
  Definition mvec (d : nat) (A : Mat) (v : Vec) : Vec := fun i => rsum d (fun k => A i k * v k).
  Definition eye : Mat := fun i j => if Nat.eqb i j then c1 else c0.
  Definition mzero : Mat := fun _ _ => c0.
  Definition madd (A B : Mat) : Mat := fun i j => A i j + B i j.
  Definition msub (A B : Mat) : Mat := fun i j => A i j - B i j.
  Definition mscale (c : K) (A : Mat) : Mat := fun i j => c * A i j.
  Definition transp (A : Mat) : Mat := fun i j => A j i.
  Definition adj (A : Mat) : Mat := fun i j => cconj (A j i).
  (* Kronecker product with a square right factor of dimension rb (numpy.kron's index convention) *)
  Definition kron (rb : nat) (A B : Mat) : Mat :=
    fun i j => A (i / rb)%nat (j / rb)%nat * B (i mod rb)%nat (j mod rb)%nat.

  Lemma mat_eq_refl d A : mat_eq d A A.
  Proof. intros i j _ _. reflexivity. Qed.
  Lemma mat_eq_sym d A B : mat_eq d A B -> mat_eq d B A.
  Proof. intros H i j Hi Hj. symmetry. apply H; assumption. Qed.
  Lemma mat_eq_trans d A B C : mat_eq d A B -> mat_eq d B C -> mat_eq d A C.
  Proof. intros H1 H2 i j Hi Hj. rewrite H1, H2 by assumption. reflexivity. Qed.

  Lemma mmul_compat d A A' B B' : mat_eq d A A' -> mat_eq d B B' -> mat_eq d (mmul d A B) (mmul d A' B').
  Proof.
    intros HA HB i j Hi Hj. unfold mmul. apply rsum_ext. intros k Hk.
    rewrite HA, HB by assumption. reflexivity.
  Qed.

  Lemma mvec_compat d A A' v v' : mat_eq d A A' -> vec_eq d v v' -> vec_eq d (mvec d A v) (mvec d A' v').
  Proof.
    intros HA Hv i Hi. unfold mvec. apply rsum_ext. intros k Hk. rewrite HA, Hv by assumption. reflexivity.
  Qed.

  Lemma mmul_assoc d A B C i j : mmul d (mmul d A B) C i j = mmul d A (mmul d B C) i j.
  Proof.
    unfold mmul.
    rewrite (rsum_ext K d _ (fun k => rsum d (fun l => A i l * B l k * C k j)))
      by (intros k _; rewrite <- rsum_scale_r; reflexivity).
    rewrite rsum_swap. apply rsum_ext. intros l _.
    rewrite <- rsum_scale_l. apply rsum_ext. intros k _. ring.
  Qed.

  Lemma mvec_mmul d A B v i : mvec d (mmul d A B) v i = mvec d A (mvec d B v) i.
  Proof.
    unfold mvec, mmul.
    rewrite (rsum_ext K d _ (fun k => rsum d (fun l => A i l * B l k * v k)))
      by (intros k _; rewrite <- rsum_scale_r; reflexivity).
    rewrite rsum_swap. apply rsum_ext. intros l _.
    rewrite <- rsum_scale_l. apply rsum_ext. intros k _. ring.
  Qed.

  Lemma mmul_eye_l d A i j : i < d -> mmul d eye A i j = A i j.
  Proof.
    intro Hi. unfold mmul, eye.
    rewrite (rsum_ext K d _ (fun k => if Nat.eqb k i then A k j else c0)).
    - apply (rsum_delta K d i (fun k => A k j) Hi).
    - intros k _. rewrite Nat.eqb_sym. destruct (Nat.eqb_spec k i) as [->|]; ring.
  Qed.

  Lemma mmul_eye_r d A i j : j < d -> mmul d A eye i j = A i j.
  Proof.
    intro Hj. unfold mmul, eye.
    rewrite (rsum_ext K d _ (fun k => if Nat.eqb k j then A i k else c0)).
    - apply (rsum_delta K d j (fun k => A i k) Hj).
    - intros k _. destruct (Nat.eqb_spec k j) as [->|]; ring.
  Qed.

  Lemma mvec_eye d v i : i < d -> mvec d eye v i = v i.
  Proof.
    intro Hi. unfold mvec, eye.
    rewrite (rsum_ext K d _ (fun k => if Nat.eqb k i then v k else c0)).
    - apply (rsum_delta K d i v Hi).
    - intros k _. rewrite Nat.eqb_sym. destruct (Nat.eqb_spec k i) as [->|]; ring.
  Qed.

  Lemma adj_mmul d A B i j : adj (mmul d A B) i j = mmul d (adj B) (adj A) i j.
  Proof.
    unfold adj, mmul. rewrite rsum_conj. apply rsum_ext. intros k _. rewrite conj_mul. ring.
  Qed.

  Lemma adj_adj A i j : adj (adj A) i j = A i j.
  Proof. unfold adj. apply conj_invol. Qed.

  Lemma adj_eye i j : adj eye i j = eye i j.
  Proof.
    unfold adj, eye. rewrite Nat.eqb_sym. destruct (Nat.eqb i j); [apply conj_1|apply conj_0].
  Qed.

  Lemma adj_compat d A B : mat_eq d A B -> mat_eq d (adj A) (adj B).
  Proof. intros H i j Hi Hj. unfold adj. rewrite H by assumption. reflexivity. Qed.

  (* mixed-product property of the Kronecker product *)
  Lemma kron_mmul a b A A' B B' i j : 0 < b ->
    mmul (a * b) (kron b A B) (kron b A' B') i j = kron b (mmul a A A') (mmul b B B') i j.
  Proof.
    intro Hb. unfold mmul, kron. rewrite rsum_prod.
    rewrite (rsum_ext K a _ (fun k1 => A (i / b)%nat k1 * A' k1 (j / b)%nat *
                                     rsum b (fun k2 => B (i mod b)%nat k2 * B' k2 (j mod b)%nat))).
    - rewrite rsum_scale_r. reflexivity.
    - intros k1 _. rewrite <- rsum_scale_l. apply rsum_ext. intros k2 Hk2.
      rewrite Nat.div_add_l by lia. rewrite (Nat.div_small k2 b Hk2), Nat.add_0_r.
      rewrite Nat.add_comm, Nat.mod_add by lia. rewrite (Nat.mod_small k2 b Hk2). ring.
  Qed.

  Lemma kron_eye b i j : 0 < b -> kron b eye eye i j = eye i j.
  Proof.
    intro Hb. unfold kron, eye.
    destruct (Nat.eqb_spec i j) as [->|Hne].
    - rewrite !Nat.eqb_refl. ring.
    - destruct (Nat.eqb_spec (i / b) (j / b)) as [E1|E1]; [|ring].
      destruct (Nat.eqb_spec (i mod b) (j mod b)) as [E2|E2]; [|ring].
      exfalso. apply Hne. rewrite (Nat.div_mod i b), (Nat.div_mod j b) by lia. rewrite E1, E2. reflexivity.
  Qed.

  Lemma kron_compat a b A A' B B' : 0 < b -> mat_eq a A A' -> mat_eq b B B' ->
    mat_eq (a * b) (kron b A B) (kron b A' B').
  Proof.
    intros Hb HA HB i j Hi Hj. unfold kron.
    rewrite HA, HB; try (apply Nat.mod_upper_bound; lia); try (apply Nat.div_lt_upper_bound; lia). reflexivity.
  Qed.

  Lemma adj_kron b A B i j : adj (kron b A B) i j = kron b (adj A) (adj B) i j.
  Proof. unfold adj, kron. apply conj_mul. Qed.

  (* integer powers *)
  Fixpoint mpow (d : nat) (A : Mat) (k : nat) : Mat :=
    match k with
    | O => eye
    | S k' => mmul d A (mpow d A k')
    end.

  (* ------------------------------------------------------------ tabulation (for evaluation by vm_compute) *)
  Definition to_list (d : nat) (A : Mat) : list (list K) :=
    map (fun i => map (fun j => A i j) (seq 0 d)) (seq 0 d).
  Definition of_list (L : list (list K)) : Mat := fun i j => nth j (nth i L []) c0.
  Definition memo (d : nat) (A : Mat) : Mat := let L := to_list d A in of_list L.
  Definition vto_list (d : nat) (v : Vec) : list K := map v (seq 0 d).
  Definition vof_list (l : list K) : Vec := fun i => nth i l c0.
  Definition vmemo (d : nat) (v : Vec) : Vec := let l := vto_list d v in vof_list l.

  Lemma of_to_list d A : mat_eq d (of_list (to_list d A)) A.
  Proof.
    intros i j Hi Hj. unfold of_list, to_list.
    rewrite (nth_indep _ [] ((fun i => map (fun j => A i j) (seq 0 d)) 0)) by (rewrite map_length, seq_length; exact Hi).
    rewrite (map_nth (fun i => map (fun j => A i j) (seq 0 d))), seq_nth by exact Hi.
    rewrite (nth_indep _ c0 ((fun j => A (0 + i)%nat j) 0)) by (rewrite map_length, seq_length; exact Hj).
    rewrite (map_nth (fun j => A (0 + i)%nat j)), seq_nth by exact Hj. reflexivity.
  Qed.

  Lemma memo_eq d A : mat_eq d (memo d A) A.
  Proof. apply of_to_list. Qed.

  Lemma vmemo_eq d v : vec_eq d (vmemo d v) v.
  Proof.
    intros i Hi. unfold vmemo, vof_list, vto_list.
    rewrite (nth_indep _ c0 (v 0)) by (rewrite map_length, seq_length; exact Hi).
    rewrite map_nth, seq_nth by exact Hi. reflexivity.
  Qed.
End Mat.

Arguments mat_eq {K}. Arguments vec_eq {K}. Arguments mmul {K}. Arguments mvec {K}. Arguments eye {K}.
Arguments mzero {K}. Arguments madd {K}. Arguments msub {K}. Arguments mscale {K}. Arguments transp {K}.
Arguments adj {K}. Arguments kron {K}. Arguments mpow {K}. Arguments to_list {K}. Arguments of_list {K}.
Arguments memo {K}. Arguments vto_list {K}. Arguments vof_list {K}. Arguments vmemo {K}.
