(* Commutative rings with conjugation and an imaginary unit (Leibniz equality), the scalar domain of
   every matrix-valued model.  Instances: GQ (Gaussian rationals over canonical Qc; executable, used by
   the correspondence checks) and, in Gates/CInst.v, Coquelicot's complex numbers. *)
Require Import Coq.setoid_ring.Ring Coq.QArith.QArith Coq.QArith.Qcanon Coq.ZArith.ZArith Coq.Lists.List.
Import ListNotations.

Record cring : Type := mk_cring {
  car :> Type;
  c0 : car; c1 : car;
  cadd : car -> car -> car; cmul : car -> car -> car; csub : car -> car -> car; copp : car -> car;
  cconj : car -> car; ci : car;
  c_ring : ring_theory c0 c1 cadd cmul csub copp (@eq car);
  conj_add : forall a b, cconj (cadd a b) = cadd (cconj a) (cconj b);
  conj_mul : forall a b, cconj (cmul a b) = cmul (cconj a) (cconj b);
  conj_invol : forall a, cconj (cconj a) = a;
  conj_1 : cconj c1 = c1;
  conj_i : cconj ci = copp ci;
  i_sq : cmul ci ci = copp c1
}.

Arguments c0 {_}. Arguments c1 {_}. Arguments cadd {_}. Arguments cmul {_}. Arguments csub {_}.
Arguments copp {_}. Arguments cconj {_}. Arguments ci {_}.

Declare Scope cr_scope.
Delimit Scope cr_scope with cr.
Infix "+" := cadd : cr_scope.
Infix "*" := cmul : cr_scope.
Infix "-" := csub : cr_scope.
Notation "- x" := (copp x) : cr_scope.

Section Laws.
  Variable K : cring.
  Add Ring Kring : (c_ring K).
  Local Open Scope cr_scope.

  Lemma conj_0 : cconj (@c0 K) = c0.
  Proof.
    assert (H : cconj (@c0 K) + cconj c0 = cconj c0) by (rewrite <- conj_add; f_equal; ring).
    transitivity (cconj (@c0 K) + cconj c0 - cconj c0); [ring|]. rewrite H. ring.
  Qed.

  Lemma conj_opp (a : K) : cconj (- a) = - cconj a.
  Proof.
    assert (H : cconj (- a) + cconj a = c0) by (rewrite <- conj_add; replace (- a + a) with (@c0 K) by ring; apply conj_0).
    transitivity (cconj (- a) + cconj a - cconj a); [ring|]. rewrite H. ring.
  Qed.

  Lemma conj_sub (a b : K) : cconj (a - b) = cconj a - cconj b.
  Proof. replace (a - b) with (a + - b) by ring. rewrite conj_add, conj_opp. ring. Qed.

  (* scalars from integers, used for literals *)
  Fixpoint of_pos (p : positive) : K :=
    match p with
    | xH => c1
    | xO q => let r := of_pos q in r + r
    | xI q => let r := of_pos q in r + r + c1
    end.
  Definition of_Z (z : Z) : K :=
    match z with Z0 => c0 | Zpos p => of_pos p | Zneg p => - of_pos p end.
End Laws.

Arguments of_Z {K}.

(* ------------------------------------------------------------------ Gaussian rationals *)
Definition GQ : Type := (Qc * Qc)%type.
Local Open Scope Qc_scope.
Definition gq0 : GQ := (0, 0).
Definition gq1 : GQ := (1, 0).
Definition gqi : GQ := (0, 1).
Definition gqadd (a b : GQ) : GQ := (fst a + fst b, snd a + snd b).
Definition gqmul (a b : GQ) : GQ := (fst a * fst b - snd a * snd b, fst a * snd b + snd a * fst b).
Definition gqopp (a : GQ) : GQ := (- fst a, - snd a).
Definition gqsub (a b : GQ) : GQ := (fst a - fst b, snd a - snd b).
Definition gqconj (a : GQ) : GQ := (fst a, - snd a).

Lemma gq_ring : ring_theory gq0 gq1 gqadd gqmul gqsub gqopp (@eq GQ).
Proof.
  constructor; intros; repeat match goal with x : GQ |- _ => destruct x end;
    unfold gqadd, gqmul, gqsub, gqopp, gq0, gq1; cbn [fst snd]; f_equal; ring.
Qed.

Definition GQring : cring.
Proof.
  refine (@mk_cring GQ gq0 gq1 gqadd gqmul gqsub gqopp gqconj gqi gq_ring _ _ _ _ _ _);
    intros; repeat match goal with x : GQ |- _ => destruct x end;
    unfold gqadd, gqmul, gqsub, gqopp, gqconj, gq0, gq1, gqi; cbn [fst snd]; f_equal; ring.
Defined.

Definition gq_eqb (a b : GQ) : bool := Qc_eq_bool (fst a) (fst b) && Qc_eq_bool (snd a) (snd b).
Lemma gq_eqb_eq a b : gq_eqb a b = true -> a = b.
Proof.
  destruct a, b. unfold gq_eqb. cbn [fst snd]. intro H. apply andb_prop in H. destruct H as [H1 H2].
  apply Qc_eq_bool_correct in H1, H2. subst. reflexivity.
Qed.
(* literal from a pair of rationals (numerator/denominator given as Z and positive) *)
Definition gq_lit (re im : Q) : GQ := (Q2Qc re, Q2Qc im).
