(* Bit strings (most significant bit first, i.e. qubit 0 first) and basis-state indices. *)
Require Import Coq.Arith.Arith Coq.micromega.Lia Coq.Lists.List Coq.Bool.Bool.
Import ListNotations.

Definition b2n (b : bool) : nat := if b then 1 else 0.

Fixpoint val (l : list bool) : nat :=
  match l with
  | [] => 0
  | b :: r => b2n b * 2 ^ (length r) + val r
  end.

Definition bit_at (m i : nat) : bool := Nat.eqb ((i / 2 ^ m) mod 2) 1.

(* bits n i = [bit n-1; ...; bit 0] of i *)
Fixpoint bits (n i : nat) : list bool :=
  match n with
  | O => []
  | S m => bit_at m i :: bits m i
  end.

Lemma pow2_pos n : 0 < 2 ^ n.
Proof. induction n; simpl; lia. Qed.

Lemma bits_length n i : length (bits n i) = n.
Proof. induction n as [|n IH]; simpl; [reflexivity|]. rewrite IH. reflexivity. Qed.

Lemma b2n_bit_at m i : b2n (bit_at m i) = (i / 2 ^ m) mod 2.
Proof.
  unfold bit_at. pose proof (Nat.mod_upper_bound (i / 2 ^ m) 2 ltac:(lia)) as H.
  destruct (Nat.eqb_spec ((i / 2 ^ m) mod 2) 1) as [E|E]; cbn [b2n]; lia.
Qed.

Lemma val_bits n i : val (bits n i) = i mod 2 ^ n.
Proof.
  induction n as [|n IH]; [simpl; reflexivity|].
  cbn [bits val]. rewrite bits_length, IH, b2n_bit_at.
  replace (2 ^ S n) with (2 ^ n * 2) by (simpl; lia).
  pose proof (pow2_pos n). rewrite Nat.mod_mul_r by lia. lia.
Qed.

Lemma val_bits_lt n i : i < 2 ^ n -> val (bits n i) = i.
Proof. intro H. rewrite val_bits. apply Nat.mod_small. exact H. Qed.

Lemma val_lt l : val l < 2 ^ length l.
Proof.
  induction l as [|b r IH]; [simpl; lia|]. cbn [val length]. pose proof (pow2_pos (length r)).
  replace (2 ^ S (length r)) with (2 * 2 ^ length r) by (simpl; lia).
  destruct b; simpl; lia.
Qed.

Lemma val_app a b : val (a ++ b) = val a * 2 ^ length b + val b.
Proof.
  induction a as [|x a IH]; [simpl; reflexivity|].
  cbn [app val]. rewrite IH, app_length, Nat.pow_add_r. lia.
Qed.

Lemma bit_at_add_high m x r k : r < 2 ^ k -> m < k -> bit_at m (x * 2 ^ k + r) = bit_at m r.
Proof.
  intros Hr Hm. unfold bit_at. f_equal.
  replace k with (m + S (k - S m)) by lia. rewrite Nat.pow_add_r.
  pose proof (pow2_pos m) as Hp.
  replace (x * (2 ^ m * 2 ^ S (k - S m)) + r) with (r + (x * 2 ^ (k - S m)) * 2 * 2 ^ m) by (simpl; lia).
  rewrite Nat.div_add by lia. rewrite Nat.add_mod by lia.
  rewrite Nat.mod_mul by lia. rewrite Nat.add_0_r, Nat.mod_mod by lia. reflexivity.
Qed.

Lemma bits_add_high n x r : r < 2 ^ n -> bits n (x * 2 ^ n + r) = bits n r.
Proof.
  intro Hr. assert (G : forall m, m <= n -> bits m (x * 2 ^ n + r) = bits m r).
  { induction m as [|m IH]; intro Hm; [reflexivity|]. cbn [bits]. rewrite IH by lia.
    rewrite bit_at_add_high by lia. reflexivity. }
  apply G. lia.
Qed.

Lemma bit_at_low m i : i < 2 ^ m -> bit_at m i = false.
Proof. intro H. unfold bit_at. rewrite Nat.div_small by exact H. reflexivity. Qed.

Lemma bits_val l : bits (length l) (val l) = l.
Proof.
  induction l as [|b r IH]; [reflexivity|].
  cbn [length bits val]. pose proof (val_lt r) as Hr. f_equal.
  - unfold bit_at. rewrite Nat.div_add_l by (pose proof (pow2_pos (length r)); lia).
    rewrite (Nat.div_small (val r)) by exact Hr. rewrite Nat.add_0_r.
    destruct b; reflexivity.
  - rewrite bits_add_high by exact Hr. exact IH.
Qed.

Lemma val_inj a b : length a = length b -> val a = val b -> a = b.
Proof. intros Hl Hv. rewrite <- (bits_val a), <- (bits_val b), Hl, Hv. reflexivity. Qed.

Lemma bits_inj n i j : i < 2 ^ n -> j < 2 ^ n -> bits n i = bits n j -> i = j.
Proof. intros Hi Hj H. rewrite <- (val_bits_lt n i Hi), <- (val_bits_lt n j Hj), H. reflexivity. Qed.

(* splitting an index of a+b bits into its high a bits and low b bits *)
Lemma bit_at_div m k i : bit_at m (i / 2 ^ k) = bit_at (m + k) i.
Proof.
  unfold bit_at. rewrite Nat.div_div by (pose proof (pow2_pos k); pose proof (pow2_pos m); lia).
  rewrite (Nat.add_comm m k), Nat.pow_add_r. reflexivity.
Qed.

Lemma bits_app a b i : bits (a + b) i = bits a (i / 2 ^ b) ++ bits b i.
Proof.
  induction a as [|a IH]; [reflexivity|].
  cbn [Nat.add bits app]. rewrite IH, bit_at_div. reflexivity.
Qed.

Lemma val_div l k : k <= length l -> val l / 2 ^ k = val (firstn (length l - k) l).
Proof.
  intro Hk. rewrite <- (firstn_skipn (length l - k) l) at 1. rewrite val_app.
  assert (Hs : length (skipn (length l - k) l) = k) by (rewrite skipn_length; lia).
  rewrite Hs. pose proof (val_lt (skipn (length l - k) l)) as Hlt. rewrite Hs in Hlt.
  rewrite Nat.div_add_l by (pose proof (pow2_pos k); lia). rewrite Nat.div_small by exact Hlt. lia.
Qed.

Lemma val_mod l k : k <= length l -> val l mod 2 ^ k = val (skipn (length l - k) l).
Proof.
  intro Hk. rewrite <- (firstn_skipn (length l - k) l) at 1. rewrite val_app.
  assert (Hs : length (skipn (length l - k) l) = k) by (rewrite skipn_length; lia).
  rewrite Hs. pose proof (val_lt (skipn (length l - k) l)) as Hlt. rewrite Hs in Hlt.
  rewrite Nat.add_comm, Nat.mod_add by (pose proof (pow2_pos k); lia). apply Nat.mod_small. exact Hlt.
Qed.

Definition all_bits (n : nat) : list (list bool) := map (bits n) (seq 0 (2 ^ n)).

Lemma all_bits_nth n i : i < 2 ^ n -> nth i (all_bits n) [] = bits n i.
Proof.
  intro H. unfold all_bits. rewrite (nth_indep _ [] (bits n 0)) by (rewrite map_length, seq_length; exact H).
  rewrite map_nth, seq_nth by exact H. reflexivity.
Qed.

(* selecting the bits at given positions (qubit indices) *)
Definition select (qs : list nat) (x : list bool) : list bool := map (fun q => nth q x false) qs.

Lemma select_length qs x : length (select qs x) = length qs.
Proof. apply map_length. Qed.

(* bit reversal *)
Lemma val_rev_bound l : val (rev l) < 2 ^ length l.
Proof. rewrite <- rev_length. apply val_lt. Qed.
