(* Finite sums over index ranges in a commutative ring. *)
Require Import Coq.setoid_ring.Ring Coq.Arith.Arith Coq.micromega.Lia Coq.Lists.List.
Require Import OQ.Base.Ring.
Import ListNotations.

Section Sums.
  Variable K : cring.
  Add Ring Kring : (c_ring K).
  Local Open Scope cr_scope.

  Fixpoint rsum (n : nat) (f : nat -> K) : K :=
    match n with
    | O => c0
    | S m => rsum m f + f m
    end.

  Lemma rsum_ext n f g : (forall i, i < n -> f i = g i) -> rsum n f = rsum n g.
  Proof.
    induction n as [|n IH]; intro H; cbn [rsum]; [reflexivity|].
    rewrite IH by (intros; apply H; lia). rewrite H by lia. reflexivity.
  Qed.

  Lemma rsum_zero n : rsum n (fun _ => c0) = c0.
  Proof. induction n as [|n IH]; cbn [rsum]; [reflexivity|]. rewrite IH. ring. Qed.

  Lemma rsum_zero_ext n f : (forall i, i < n -> f i = c0) -> rsum n f = c0.
  Proof. intro H. rewrite (rsum_ext n f (fun _ => c0)) by exact H. apply rsum_zero. Qed.

  Lemma rsum_add n f g : rsum n (fun i => f i + g i) = rsum n f + rsum n g.
  Proof. induction n as [|n IH]; cbn [rsum]; [ring|]. rewrite IH. ring. Qed.

  Lemma rsum_opp n f : rsum n (fun i => - f i) = - rsum n f.
  Proof. induction n as [|n IH]; cbn [rsum]; [ring|]. rewrite IH. ring. Qed.

  Lemma rsum_sub n f g : rsum n (fun i => f i - g i) = rsum n f - rsum n g.
  Proof. induction n as [|n IH]; cbn [rsum]; [ring|]. rewrite IH. ring. Qed.

  Lemma rsum_scale_l n c f : rsum n (fun i => c * f i) = c * rsum n f.
  Proof. induction n as [|n IH]; cbn [rsum]; [ring|]. rewrite IH. ring. Qed.

  Lemma rsum_scale_r n c f : rsum n (fun i => f i * c) = rsum n f * c.
  Proof. induction n as [|n IH]; cbn [rsum]; [ring|]. rewrite IH. ring. Qed.

  Lemma rsum_conj n f : cconj (rsum n f) = rsum n (fun i => cconj (f i)).
  Proof. induction n as [|n IH]; cbn [rsum]; [apply conj_0|]. rewrite conj_add, IH. reflexivity. Qed.

  (* Fubini *)
  Lemma rsum_swap n m (f : nat -> nat -> K) :
    rsum n (fun i => rsum m (fun j => f i j)) = rsum m (fun j => rsum n (fun i => f i j)).
  Proof.
    induction n as [|n IH]; cbn [rsum].
    - symmetry. apply rsum_zero.
    - rewrite IH. rewrite <- rsum_add. reflexivity.
  Qed.

  Lemma rsum_split a b f : rsum (a + b)%nat f = rsum a f + rsum b (fun k => f (a + k)%nat).
  Proof.
    induction b as [|b IH]; cbn [rsum].
    - rewrite Nat.add_0_r. ring.
    - rewrite Nat.add_succ_r. cbn [rsum]. rewrite IH. ring.
  Qed.

  (* a sum over a product range as an iterated sum: index = i * b + j *)
  Lemma rsum_prod a b f : rsum (a * b)%nat f = rsum a (fun i => rsum b (fun j => f (i * b + j)%nat)).
  Proof.
    induction a as [|a IH]; cbn [rsum Nat.mul]; [reflexivity|].
    rewrite Nat.add_comm, rsum_split, IH. reflexivity.
  Qed.

  (* Kronecker-delta collapse *)
  Lemma rsum_delta n j (g : nat -> K) : j < n ->
    rsum n (fun k => if Nat.eqb k j then g k else c0) = g j.
  Proof.
    induction n as [|n IH]; intro Hj; [lia|]. cbn [rsum].
    destruct (Nat.eq_dec j n) as [->|Hne].
    - rewrite Nat.eqb_refl. rewrite rsum_zero_ext; [ring|].
      intros i Hi. destruct (Nat.eqb_spec i n); [lia|reflexivity].
    - rewrite IH by lia. destruct (Nat.eqb_spec n j); [lia|ring].
  Qed.

  Lemma rsum_delta_out n j (g : nat -> K) : n <= j ->
    rsum n (fun k => if Nat.eqb k j then g k else c0) = c0.
  Proof. intro H. apply rsum_zero_ext. intros i Hi. destruct (Nat.eqb_spec i j); [lia|reflexivity]. Qed.

  (* a sum with one possible non-zero term *)
  Lemma rsum_single n j f : j < n -> (forall k, k < n -> k <> j -> f k = c0) -> rsum n f = f j.
  Proof.
    intros Hj H. rewrite <- (rsum_delta n j f Hj). apply rsum_ext. intros i Hi.
    destruct (Nat.eqb_spec i j); [reflexivity|]. apply H; assumption.
  Qed.

  (* sums over lists *)
  Fixpoint lsum {A} (l : list A) (f : A -> K) : K :=
    match l with
    | [] => c0
    | x :: r => f x + lsum r f
    end.

  Lemma lsum_app {A} (l1 l2 : list A) f : lsum (l1 ++ l2) f = lsum l1 f + lsum l2 f.
  Proof. induction l1 as [|x l1 IH]; cbn [lsum app]; [ring|]. rewrite IH. ring. Qed.

  Lemma lsum_ext {A} (l : list A) f g : (forall x, In x l -> f x = g x) -> lsum l f = lsum l g.
  Proof.
    induction l as [|x l IH]; intro H; cbn [lsum]; [reflexivity|].
    rewrite H by (left; reflexivity). rewrite IH by (intros; apply H; right; assumption). reflexivity.
  Qed.

  Lemma lsum_add {A} (l : list A) f g : lsum l (fun x => f x + g x) = lsum l f + lsum l g.
  Proof. induction l as [|x l IH]; cbn [lsum]; [ring|]. rewrite IH. ring. Qed.

  Lemma lsum_scale_l {A} (l : list A) c f : lsum l (fun x => c * f x) = c * lsum l f.
  Proof. induction l as [|x l IH]; cbn [lsum]; [ring|]. rewrite IH. ring. Qed.

  Lemma lsum_scale_r {A} (l : list A) c f : lsum l (fun x => f x * c) = lsum l f * c.
  Proof. induction l as [|x l IH]; cbn [lsum]; [ring|]. rewrite IH. ring. Qed.

  Lemma lsum_zero {A} (l : list A) : lsum l (fun _ => c0) = c0.
  Proof. induction l as [|x l IH]; cbn [lsum]; [reflexivity|]. rewrite IH. ring. Qed.

  Lemma lsum_map {A B} (h : A -> B) (l : list A) f : lsum (map h l) f = lsum l (fun x => f (h x)).
  Proof. induction l as [|x l IH]; cbn [lsum map]; [reflexivity|]. rewrite IH. reflexivity. Qed.

  Lemma lsum_rsum_swap {A} (l : list A) n (f : A -> nat -> K) :
    lsum l (fun x => rsum n (fun k => f x k)) = rsum n (fun k => lsum l (fun x => f x k)).
  Proof.
    induction l as [|x l IH]; cbn [lsum]; [symmetry; apply rsum_zero|].
    rewrite IH, <- rsum_add. reflexivity.
  Qed.

  Lemma rsum_seq n f : rsum n f = lsum (seq 0 n) f.
  Proof.
    induction n as [|n IH]; cbn [rsum]; [reflexivity|].
    rewrite seq_S, lsum_app, IH. cbn [lsum Nat.add]. ring.
  Qed.

  (* products over lists *)
  Fixpoint lprod {A} (l : list A) (f : A -> K) : K :=
    match l with
    | [] => c1
    | x :: r => f x * lprod r f
    end.

  Lemma lprod_app {A} (l1 l2 : list A) f : lprod (l1 ++ l2) f = lprod l1 f * lprod l2 f.
  Proof. induction l1 as [|x l1 IH]; cbn [lprod app]; [ring|]. rewrite IH. ring. Qed.

  Lemma lprod_ext {A} (l : list A) f g : (forall x, In x l -> f x = g x) -> lprod l f = lprod l g.
  Proof.
    induction l as [|x l IH]; intro H; cbn [lprod]; [reflexivity|].
    rewrite H by (left; reflexivity). rewrite IH by (intros; apply H; right; assumption). reflexivity.
  Qed.

  Lemma lprod_mul {A} (l : list A) f g : lprod l (fun x => f x * g x) = lprod l f * lprod l g.
  Proof. induction l as [|x l IH]; cbn [lprod]; [ring|]. rewrite IH. ring. Qed.

  Lemma lprod_one {A} (l : list A) : lprod l (fun _ => c1) = c1.
  Proof. induction l as [|x l IH]; cbn [lprod]; [reflexivity|]. rewrite IH. ring. Qed.
End Sums.

Arguments rsum {K}. Arguments lsum {K A}. Arguments lprod {K A}.
