(* Concrete matrices as lists of rows over a commutative ring: used for the (small, literal) gate matrices. *)
Require Import Coq.Lists.List Coq.Arith.Arith.
Require Import OQ.Base.Ring OQ.Base.Sums OQ.Base.Mat.
Import ListNotations.

Section LMat.
  Variable K : cring.
  Local Open Scope cr_scope.
  Definition lmat := list (list K).

  Fixpoint dot (r c : list K) : K :=
    match r, c with
    | x :: r', y :: c' => x * y + dot r' c'
    | _, _ => c0
    end.
  Definition col (j : nat) (M : lmat) : list K := map (fun r => nth j r c0) M.
  Definition ncols (M : lmat) : nat := match M with [] => 0 | r :: _ => length r end.
  Definition ltransp (M : lmat) : lmat := map (fun j => col j M) (seq 0 (ncols M)).
  Definition lmmul (A B : lmat) : lmat := map (fun r => map (fun j => dot r (col j B)) (seq 0 (ncols B))) A.
  Definition ladj (M : lmat) : lmat := map (map cconj) (ltransp M).
  Definition leye (n : nat) : lmat := map (fun i => map (fun j => if Nat.eqb i j then c1 else c0) (seq 0 n)) (seq 0 n).
  Definition lscale (c : K) (M : lmat) : lmat := map (map (fun x => c * x)) M.
  Definition ladd (A B : lmat) : lmat := map (fun rr => map (fun xy => fst xy + snd xy) (combine (fst rr) (snd rr))) (combine A B).
  Definition lsquare (n : nat) (M : lmat) : bool := andb (Nat.eqb (length M) n) (forallb (fun r => Nat.eqb (length r) n) M).
  Definition lkron (A B : lmat) : lmat :=
    flat_map (fun ra => map (fun rb => flat_map (fun a => map (fun b => a * b) rb) ra) B) A.
  (* block-diagonal diag(I_k, M) *)
  Definition ldiag_id (k : nat) (M : lmat) : lmat :=
    let n := length M in
    map (fun i => map (fun j => if orb (Nat.ltb i k) (Nat.ltb j k) then (if Nat.eqb i j then c1 else c0)
                                else nth (j - k) (nth (i - k) M []) c0) (seq 0 (k + n))) (seq 0 (k + n)).
  Definition lent (M : lmat) (i j : nat) : K := nth j (nth i M []) c0.
End LMat.

Arguments dot {K}. Arguments col {K}. Arguments ncols {K}. Arguments ltransp {K}. Arguments lmmul {K}.
Arguments ladj {K}. Arguments leye {K}. Arguments lscale {K}. Arguments ladd {K}. Arguments lsquare {K}.
Arguments lkron {K}. Arguments ldiag_id {K}. Arguments lent {K}.
