(* Linearity of the matrix product. *)
Require Import Coq.setoid_ring.Ring Coq.Arith.Arith Coq.Lists.List.
Require Import OQ.Base.Ring OQ.Base.Sums OQ.Base.Mat.

Section MatLin.
  Variable K : cring.
  Add Ring Kring : (c_ring K).
  Local Open Scope cr_scope.

  Lemma mmul_madd_r d (A B C : Mat K) i j : mmul d A (madd B C) i j = madd (mmul d A B) (mmul d A C) i j.
  Proof. unfold mmul, madd. rewrite <- rsum_add. apply rsum_ext. intros k _. ring. Qed.

  Lemma mmul_madd_l d (A B C : Mat K) i j : mmul d (madd A B) C i j = madd (mmul d A C) (mmul d B C) i j.
  Proof. unfold mmul, madd. rewrite <- rsum_add. apply rsum_ext. intros k _. ring. Qed.

  Lemma mmul_mscale_r d c (A B : Mat K) i j : mmul d A (mscale c B) i j = mscale c (mmul d A B) i j.
  Proof. unfold mmul, mscale. rewrite <- rsum_scale_l. apply rsum_ext. intros k _. ring. Qed.

  Lemma mmul_mscale_l d c (A B : Mat K) i j : mmul d (mscale c A) B i j = mscale c (mmul d A B) i j.
  Proof. unfold mmul, mscale. rewrite <- rsum_scale_l. apply rsum_ext. intros k _. ring. Qed.

  Lemma madd_compat d (A A' B B' : Mat K) : mat_eq d A A' -> mat_eq d B B' -> mat_eq d (madd A B) (madd A' B').
  Proof. intros HA HB i j Hi Hj. unfold madd. rewrite HA, HB by assumption. reflexivity. Qed.

  Lemma mscale_compat d c (A A' : Mat K) : mat_eq d A A' -> mat_eq d (mscale c A) (mscale c A').
  Proof. intros HA i j Hi Hj. unfold mscale. rewrite HA by assumption. reflexivity. Qed.
End MatLin.
