(* C14 - Runners validate requests, deliver enough shots and count their work correctly.
   Property theorems only; every proof is [exact <lemma>].  Model: State/Runner.v (a runner is its
   configuration plus its state; [step] performs one public call and returns the new runner, the
   outcome and the trace of what the innermost runner executed).  All statements are for every runner
   (base-class runner with any surplus, simulator with ANY native-support predicate, trackers nested
   to any depth), every circuit and every call history. *)
Require Import Coq.ZArith.ZArith Coq.Lists.List Coq.Bool.Bool Coq.micromega.Lia.
Require Import OQ.State.Runner OQ.State.RunnerProofs.
Import ListNotations.
Open Scope Z_scope.

(* ---- invalid arguments: ValueError before anything is executed.
   invalid_args: a count <= 0 (single run, batch with an integer, distribution), a per-circuit list of
   the wrong length or with an entry <= 0.  Nothing is executed (empty trace); the innermost runner, every
   tracker file and every tracker's pending raw_data are unchanged; a base-class runner or simulator is unchanged altogether, and so
   is a tracker for single and distribution calls (its batch call bumps its own counters first). *)
Theorem reject_before_execution : forall r k, invalid_args k ->
  st_outcome (step r k) = OErr ValueError /\ st_trace (step r k) = [] /\
  leaf_of (st_runner (step r k)) = leaf_of r /\ files (st_runner (step r k)) = files r /\
  pendings (st_runner (step r k)) = pendings r /\
  (is_leaf r = true -> st_runner (step r k) = r) /\
  match k with Batch _ _ => True | _ => st_runner (step r k) = r end.
Proof. exact reject_first. Qed.
Print Assumptions reject_before_execution.

(* the validation accepts exactly the complement, and then the per-circuit counts are the broadcast
   integer or the list itself *)
Theorem validation_exact : forall k s,
  (bad_spec k s -> validate k s = None) /\
  (forall ns, validate k s = Some ns ->
     ~ bad_spec k s /\ List.length ns = k /\ Forall (fun n => 0 < n) ns /\
     match s with One n => ns = repeat n k | Many l => ns = l end).
Proof. exact validation_spec. Qed.
Print Assumptions validation_exact.

(* a runner whose innermost runner is a plain base-class runner cannot give an exact distribution *)
Theorem reject_exact_distribution_on_base : forall r c,
  (exists over nc nj, leaf_of r = RBase over nc nj) -> dist r c None = (r, OErr ValueError, []).
Proof. exact dist_none_base. Qed.
Print Assumptions reject_exact_distribution_on_base.

(* a simulator (under any stack of trackers) refuses to sample a circuit with unbound symbols, before
   executing anything and without changing any state *)
Theorem reject_unbound_symbols : forall r c n, leaf_base r = false -> cfree c = true ->
  step r (Run c n) = (r, OErr ValueError, []).
Proof. exact reject_unbound_step. Qed.
Print Assumptions reject_unbound_symbols.

Example invalid_premises_met :
  invalid_args (Batch [mkC 2 [0; 4] false true; mkC 0 [] false true] (Many [3; 0])) /\
  invalid_args (Batch [] (One (-2))) /\
  step (RSim (fun k => k =? 0) 5 7) (Batch [mkC 2 [0; 4] false true; mkC 0 [] false true] (Many [3; 0]))
  = (RSim (fun k => k =? 0) 5 7, OErr ValueError, []).
Proof. split; [right; right; constructor; cbn; lia|]. split; [cbn; lia|reflexivity]. Qed.

(* ---- counters never decrease: between any two points of any history, at every level (the runner the
   calls are made on, every wrapped tracker, the innermost runner) *)
Theorem counters_monotone : forall r ks1 ks2,
  cle (all_counters (final r ks1)) (all_counters (final r (ks1 ++ ks2))).
Proof. exact counters_monotone_along. Qed.
Print Assumptions counters_monotone.

Theorem counters_monotone_own : forall r ks1 ks2,
  n_circuits (final r ks1) <= n_circuits (final r (ks1 ++ ks2)) /\
  n_jobs (final r ks1) <= n_jobs (final r (ks1 ++ ks2)).
Proof. exact counters_monotone_top. Qed.
Print Assumptions counters_monotone_own.

(* ---- counters grow by exactly the work done: for a base-class runner or simulator (is_leaf), after any
   history - including calls that failed half-way through a batch - the counters have grown by the number
   of circuits / jobs in the trace (one circuit and one job per _run_and_measure call; for a simulator one
   job per groupby segment and one circuit per native segment) *)
Theorem counters_exact : forall r ks, is_leaf r = true ->
  n_circuits (final r ks) = n_circuits r + circuits_in (history_trace r ks) /\
  n_jobs (final r ks) = n_jobs r + jobs_in (history_trace r ks).
Proof. exact counters_exact_leaf. Qed.
Print Assumptions counters_exact.

(* the same for the innermost runner under any stack of trackers *)
Theorem counters_exact_wrapped : forall r ks,
  n_circuits (leaf_of (final r ks)) = n_circuits (leaf_of r) + circuits_in (history_trace r ks) /\
  n_jobs (leaf_of (final r ks)) = n_jobs (leaf_of r) + jobs_in (history_trace r ks).
Proof. exact counters_exact_history. Qed.
Print Assumptions counters_exact_wrapped.

(* what a simulator's get_wavefunction counts and logs, for any predicate: the segments partition the
   operations in order, are non-empty, uniform in the predicate value and alternate *)
Theorem simulator_work : forall p nc nj c,
  get_wavefunction p nc nj c
  = (nc + Z.of_nat (List.length (filter fst (segments p (cops c)))),
     nj + Z.of_nat (List.length (segments p (cops c))),
     EWf c :: map seg_event (segments p (cops c))) /\
  List.concat (map snd (segments p (cops c))) = cops c /\
  Forall (fun s => snd s <> [] /\ Forall (fun o => p o = fst s) (snd s)) (segments p (cops c)) /\
  alternating (map fst (segments p (cops c))).
Proof. exact simulator_work_spec. Qed.
Print Assumptions simulator_work.

Example history_premises_met :
  let r := RSim (fun k => k <? 4) 0 0 in
  let ks := [Run (mkC 2 [0; 1; 7; 7; 2] false false) 3; Run (mkC 2 [0] false true) 0; Batch [mkC 0 [] false true; mkC 1 [7] false false] (Many [2; 5])] in
  counters (final r ks) = (2, 4) /\ circuits_in (history_trace r ks) = 2 /\ jobs_in (history_trace r ks) = 4.
Proof. vm_compute. repeat split. Qed.

(* ---- successful calls: one result per circuit, in order, each with at least the requested number of shots
   and bitstrings of the delivered width.  [honest r]: the subclass's _run_and_measure honours its contract
   (n + over shots with 0 <= over).  [served r (c, n) m] = n <= shots m /\ width m = delivered_width r c. *)
Theorem batch_results_in_order : forall r cs s r' ms tr, honest r ->
  step r (Batch cs s) = (r', OBatch ms, tr) ->
  exists ns, validate (List.length cs) s = Some ns /\ List.length ns = List.length cs /\
             List.length ms = List.length cs /\ Forall2 (served r) (combine cs ns) ms.
Proof. exact batch_results_shape. Qed.
Print Assumptions batch_results_in_order.

Theorem single_result_enough : forall r c n r' m tr, honest r ->
  step r (Run c n) = (r', OMeas m, tr) -> 0 < n /\ n <= fst m /\ snd m = delivered_width r c.
Proof. exact run_results_shape. Qed.
Print Assumptions single_result_enough.

(* the shape theorems are not vacuous: every valid request succeeds (runnable: the innermost runner is a plain
   base-class runner or the circuit has no unbound symbols, and under a tracker the circuit has gate operations only) *)
Theorem valid_batch_request_succeeds : forall r cs s, ~ bad_spec (List.length cs) s -> Forall (runnable r) cs ->
  exists r' ms tr, step r (Batch cs s) = (r', OBatch ms, tr).
Proof. exact valid_batch_succeeds. Qed.
Print Assumptions valid_batch_request_succeeds.

Theorem valid_single_request_succeeds : forall r c n, 0 < n -> runnable r c ->
  exists r' m tr, step r (Run c n) = (r', OMeas m, tr).
Proof. exact valid_run_succeeds. Qed.
Print Assumptions valid_single_request_succeeds.

Theorem distribution_result_width : forall r c n r' w tr,
  step r (Dist c (Some n)) = (r', ODist w, tr) -> 0 < n /\ w = delivered_width r c.
Proof. exact dist_results_shape. Qed.
Print Assumptions distribution_result_width.

(* the delivered width is the circuit's register for every non-empty register and for every base-class runner *)
Theorem width_is_register : forall r c,
  0 < cw c \/ (exists over nc nj, leaf_of r = RBase over nc nj) -> delivered_width r c = cw c.
Proof. exact delivered_width_register. Qed.
Print Assumptions width_is_register.

(* full statement that does NOT hold: forall honest r, step r (Run c n) = (r', OMeas m, tr) -> snd m = cw c.
   Refuted by the faithful model (finding F6): a simulator returns bitstrings of length 1 for the empty register. *)
Theorem width_is_register_refuted :
  exists r c n r' m tr, honest r /\ step r (Run c n) = (r', OMeas m, tr) /\ snd m <> cw c.
Proof. exact zero_width_refuted. Qed.
Print Assumptions width_is_register_refuted.

(* a base-class runner's batch: exactly the requested (circuit, count) pairs are executed, in order, and the
   results are theirs, in order *)
Theorem base_batch_in_order : forall over nc nj cs s ns, validate (List.length cs) s = Some ns ->
  step (RBase over nc nj) (Batch cs s)
  = (RBase over (nc + Z.of_nat (List.length cs)) (nj + Z.of_nat (List.length cs)),
     OBatch (map (fun cn => (snd cn + over, cw (fst cn))) (combine cs ns)),
     map (fun cn => ERun (fst cn) (snd cn)) (combine cs ns)).
Proof. exact base_batch. Qed.
Print Assumptions base_batch_in_order.

Example shape_premises_met :
  honest (RTrack 0 0 [] [] (RBase 2 0 0)) /\
  step (RTrack 0 0 [] [] (RBase 2 0 0)) (Batch [mkC 3 [0] false true; mkC 0 [] false true] (Many [4; 1]))
  = (RTrack 2 1 [RecM (mkC 3 [0] false true) (6, 3); RecM (mkC 0 [] false true) (3, 0)] [] (RBase 2 2 2),
     OBatch [(6, 3); (3, 0)], [ERun (mkC 3 [0] false true) 4; ERun (mkC 0 [] false true) 1]).
Proof. split; [cbn; lia|reflexivity]. Qed.

(* ---- the tracking wrapper: for single, batch and distribution calls on circuits it can serialise (gate
   operations only) it returns exactly the outcome of the wrapped runner's call (same trace, wrapped runner advanced
   exactly as by its own call); after a success its file is [file_after]: whatever was pending in raw_data, then one
   record per returned result naming the circuit, the shot number and key length of that result (for a distribution:
   circuit and requested count), and raw_data is empty; when the call raised, file and raw_data are unchanged.  Its own
   counters: +1/+1 after a successful single run, +len/+1 BEFORE delegating a batch (even a rejected one), unchanged
   for distributions. *)
Theorem tracker_returns_inner_result : forall nc nj file pend inner k, tracked_call k -> serialisable k ->
  step (RTrack nc nj file pend inner) k
  = (RTrack (nc + fst (own_count k (st_outcome (step inner k)))) (nj + snd (own_count k (st_outcome (step inner k))))
            (file_after k (st_outcome (step inner k)) file pend) (pending_after k (st_outcome (step inner k)) pend)
            (st_runner (step inner k)),
     st_outcome (step inner k), st_trace (step inner k)).
Proof. exact tracker_passthrough. Qed.
Print Assumptions tracker_returns_inner_result.

(* every successful tracked batch (no hypothesis on the circuits: success implies they were serialisable) *)
Theorem tracker_batch_records_match : forall nc nj file pend inner cs s r' ms tr,
  step (RTrack nc nj file pend inner) (Batch cs s) = (r', OBatch ms, tr) ->
  st_outcome (step inner (Batch cs s)) = OBatch ms /\
  files r' = (pend ++ map (fun cm => RecM (fst cm) (snd cm)) (combine cs ms)) :: files (st_runner (step inner (Batch cs s))) /\
  pendings r' = [] :: pendings (st_runner (step inner (Batch cs s))).
Proof. exact tracker_batch_records. Qed.
Print Assumptions tracker_batch_records_match.

(* full statement that does NOT hold: tracker_returns_inner_result without [serialisable k].  Refuted by the
   faithful model (finding F28): over a circuit containing a non-gate operation (MultiPhaseOperation) the wrapped
   runner executes and returns measurements, then the tracker raises AttributeError (to_dict cannot serialise it) *)
Theorem tracker_nongate_refuted :
  exists nc nj file pend inner k m, tracked_call k /\
    st_outcome (step inner k) = OMeas m /\ st_trace (step (RTrack nc nj file pend inner) k) <> [] /\
    n_jobs (st_runner (step inner k)) <> n_jobs inner /\
    st_outcome (step (RTrack nc nj file pend inner) k) = OErr AttrError.
Proof. exact tracker_nongate_counterexample. Qed.
Print Assumptions tracker_nongate_refuted.

(* F28, second half: the records appended before the failing circuit of a batch stay in raw_data and appear in the
   file written by the next successful call - two different records for one returned result *)
Theorem tracker_stale_records_refuted :
  exists r k1 k2 m rec1 rec2,
    st_outcome (step r k1) = OErr AttrError /\
    st_outcome (step (st_runner (step r k1)) k2) = OMeas m /\
    files (st_runner (step (st_runner (step r k1)) k2)) = [[rec1; rec2]] /\ rec1 <> rec2.
Proof. exact tracker_stale_counterexample. Qed.
Print Assumptions tracker_stale_records_refuted.

(* ======================================================================================================================
   The model is the code.  The methods of BaseCircuitRunner (api/circuit_runner.py), BaseWavefunctionSimulator
   (api/wavefunction_simulator.py) and MeasurementTrackingBackend (runners/trackers.py) are TRANSLATED from their source
   on every run by tr/tr_runner.py into Gen/RunnerGen.v (state-passing Gallina: state of self in, state of self and
   returned value or raised exception out; dynamic dispatch resolved per class by generated tables); the meaning of the
   emitted building blocks is State/RunnerTrSupport.v.  The theorems below (proofs: State/RunnerGenProofs.v) state that
   the generated methods compute exactly what the model functions of State/Runner.v compute - the functions all theorems
   above are about.  [obj nc nj sd lg]: an initialised object with its two counters, the attribute seed and, as the
   subclass's own state, the execution log (newest first).  [base_hooks over] / [sim_hooks ov]: the subclasses the model
   describes (the instrumented ones of the correspondence harness), as values of the generated hook records.
   [after x sd lg]: the model's result x = (runner, outcome, trace) read as (object, result) with the trace logged. *)
Require Import Coq.Strings.String.
Require Import OQ.State.RunnerTrSupport OQ.Gen.RunnerGen OQ.State.RunnerGenProofs.

(* ---- BaseCircuitRunner *)
Theorem generated_base_init_is_model : forall lg : list event,
  BaseCircuitRunner___init___gen (runner_attrs_new lg) = (obj 0 0 None lg, Ok tt).
Proof. exact base_init_spec. Qed.
Print Assumptions generated_base_init_is_model.

Theorem generated_counter_properties_are_model : forall H r sd lg,
  BaseCircuitRunner_R_n_circuits_executed H (obj_of r sd lg) = (obj_of r sd lg, Ok (n_circuits r)) /\
  BaseCircuitRunner_R_n_jobs_executed H (obj_of r sd lg) = (obj_of r sd lg, Ok (n_jobs r)).
Proof. exact base_counters_spec. Qed.
Print Assumptions generated_counter_properties_are_model.

Theorem generated_run_and_measure_is_model : forall over nc nj sd lg c n,
  BaseCircuitRunner_R_run_and_measure (base_hooks over) c n (obj nc nj sd lg)
  = after (run_single (RBase over nc nj) c n) sd lg.
Proof. exact base_run_spec. Qed.
Print Assumptions generated_run_and_measure_is_model.

(* the validation of run_batch_and_measure is the model's [validate], whatever _run_batch_and_measure the subclass has *)
Theorem generated_batch_validation_is_model :
  forall (I X : Type) (h : list circuit -> list Z -> M (runner_attrs I X) (list res)) cs s,
  BaseCircuitRunner_run_batch_and_measure_gen h cs s
  = match validate (List.length cs) (spec_of s) with
    | None => raise E_ValueError
    | Some ns => h cs ns
    end.
Proof. exact @batch_validation_spec. Qed.
Print Assumptions generated_batch_validation_is_model.

Theorem generated_default_batch_loop_is_model : forall over nc nj sd lg cs ns,
  BaseCircuitRunner_R__run_batch_and_measure (base_hooks over) cs ns (obj nc nj sd lg)
  = after (loop (RBase over nc nj) (combine cs ns)) sd lg.
Proof. exact base_loop_spec. Qed.
Print Assumptions generated_default_batch_loop_is_model.

Theorem generated_run_batch_is_model : forall over nc nj sd lg cs s,
  BaseCircuitRunner_R_run_batch_and_measure (base_hooks over) cs s (obj nc nj sd lg)
  = after (run_batch (RBase over nc nj) cs (spec_of s)) sd lg.
Proof. exact base_batch_spec. Qed.
Print Assumptions generated_run_batch_is_model.

Theorem generated_distribution_is_model : forall over nc nj sd lg c on,
  BaseCircuitRunner_R_get_measurement_outcome_distribution (base_hooks over) c on (obj nc nj sd lg)
  = (let '(r, o, tr) := dist (RBase over nc nj) c on in (obj_of r sd (rev tr ++ lg), dist_res_of o)).
Proof. exact base_dist_spec. Qed.
Print Assumptions generated_distribution_is_model.

(* ---- BaseWavefunctionSimulator: any native-support predicate ([sim_pred ov]: the inherited one transformed by the
   subclass), circuits on a non-negative register, an object whose __init__ has run (seed assigned) *)
Theorem generated_simulator_init_is_model : forall seed (lg : list event),
  BaseWavefunctionSimulator___init___gen seed (runner_attrs_new lg) = (obj 0 0 (Some seed) lg, Ok tt).
Proof. exact sim_init_spec. Qed.
Print Assumptions generated_simulator_init_is_model.

Theorem generated_get_wavefunction_is_model : forall ov nc nj sd lg c, 0 <= cw c ->
  BaseWavefunctionSimulator_R_get_wavefunction (sim_hooks ov) c None (obj nc nj sd lg)
  = (let '(nc', nj', tr) := get_wavefunction (sim_pred ov) nc nj c in (obj nc' nj' sd (rev tr ++ lg), Ok (cw c))).
Proof. exact sim_wavefunction_spec. Qed.
Print Assumptions generated_get_wavefunction_is_model.

Theorem generated_simulator_run_is_model : forall ov nc nj seed lg c n, 0 <= cw c ->
  BaseWavefunctionSimulator_R_run_and_measure (sim_hooks ov) c n (obj nc nj (Some seed) lg)
  = after (run_single (RSim (sim_pred ov) nc nj) c n) (Some seed) lg.
Proof. exact sim_run_spec. Qed.
Print Assumptions generated_simulator_run_is_model.

Theorem generated_simulator_batch_is_model : forall ov nc nj seed lg cs s, Forall (fun c => 0 <= cw c) cs ->
  BaseWavefunctionSimulator_R_run_batch_and_measure (sim_hooks ov) cs s (obj nc nj (Some seed) lg)
  = after (run_batch (RSim (sim_pred ov) nc nj) cs (spec_of s)) (Some seed) lg.
Proof. exact sim_batch_spec. Qed.
Print Assumptions generated_simulator_batch_is_model.

(* sampled distributions, and the exact distribution of a circuit without free symbols *)
Theorem generated_simulator_distribution_is_model : forall ov nc nj seed lg c on,
  0 <= cw c -> (on = None -> cfree c = false) ->
  BaseWavefunctionSimulator_R_get_measurement_outcome_distribution (sim_hooks ov) c on (obj nc nj (Some seed) lg)
  = (let '(r, o, tr) := dist (RSim (sim_pred ov) nc nj) c on in (obj_of r (Some seed) (rev tr ++ lg), dist_res_of o)).
Proof. exact sim_dist_spec. Qed.
Print Assumptions generated_simulator_distribution_is_model.

(* the remaining inputs: the exact distribution of a circuit with free symbols.  Counters and log are the model's; the
   model's outcome (TypeError from float() of a symbolic probability) is outside the shape abstraction of the support
   file, where the generated method returns the key length *)
Theorem generated_simulator_symbolic_distribution_outside_abstraction : forall ov nc nj seed lg c,
  0 <= cw c -> cfree c = true ->
  BaseWavefunctionSimulator_R_get_measurement_outcome_distribution (sim_hooks ov) c None (obj nc nj (Some seed) lg)
  = (let '(r, o, tr) := dist (RSim (sim_pred ov) nc nj) c None in (obj_of r (Some seed) (rev tr ++ lg), Ok (cw c))) /\
  snd (fst (dist (RSim (sim_pred ov) nc nj) c None)) = OErr TypeErr.
Proof. exact sim_dist_symbolic_spec. Qed.
Print Assumptions generated_simulator_symbolic_distribution_outside_abstraction.

(* the public get_wavefunction call of [step] *)
Theorem generated_wavefunction_step_is_model : forall ov nc nj sd lg c, 0 <= cw c ->
  BaseWavefunctionSimulator_R_get_wavefunction (sim_hooks ov) c None (obj nc nj sd lg)
  = (let '(r, o, tr) := step (RSim (sim_pred ov) nc nj) (Wavefn c) in
     (obj_of r sd (rev tr ++ lg), match o with OWf w => Ok w | _ => Raise E_TypeError end)).
Proof. exact sim_wavefn_step_spec. Qed.
Print Assumptions generated_wavefunction_step_is_model.

(* the inherited is_natively_supported: gate operations are native *)
Theorem generated_default_predicate_is_model : sim_pred (fun q => q) = op_is_GateOperation.
Proof. exact default_predicate_spec. Qed.
Print Assumptions generated_default_predicate_is_model.

(* ---- MeasurementTrackingBackend: simulation relative to the wrapped object.  [sim R lg m f conv]: whenever an object s
   stands for the model runner r (R s r), running the generated method m on s gives an object that stands for the runner
   the model function f returns, the same outcome (through conv) and the model's trace appended to the log lg.
   [tracks I RI s r]: s is a tracker object whose counters, pending raw_data, file content (read back as the harness reads
   it: rec_abs) and wrapped object stand for r = RTrack nc nj file pend ri.  Trackers nest: [tracks] is itself an R. *)
Theorem generated_tracker_run_is_model :
  forall (I : Type) (RI : I -> runner -> Prop) (lgI : I -> list event) inner_run inner_batch inner_dist c n,
  sim RI lgI (inner_run c n) (fun r => run_single r c n) res_of ->
  sim (tracks I RI) (lgT I lgI)
      (MeasurementTrackingBackend_R_run_and_measure (tracker_hooks I inner_run inner_batch inner_dist) c n)
      (fun r => run_single r c n) res_of.
Proof. exact tracker_run_sim. Qed.
Print Assumptions generated_tracker_run_is_model.

Theorem generated_tracker_batch_is_model :
  forall (I : Type) (RI : I -> runner -> Prop) (lgI : I -> list event) inner_run inner_batch inner_dist cs s,
  sim RI lgI (inner_batch cs s) (fun r => run_batch r cs (spec_of s)) res_of ->
  sim (tracks I RI) (lgT I lgI)
      (MeasurementTrackingBackend_R_run_batch_and_measure (tracker_hooks I inner_run inner_batch inner_dist) cs s)
      (fun r => run_batch r cs (spec_of s)) res_of.
Proof. exact tracker_batch_sim. Qed.
Print Assumptions generated_tracker_batch_is_model.

Theorem generated_tracker_distribution_is_model :
  forall (I : Type) (RI : I -> runner -> Prop) (lgI : I -> list event) inner_run inner_batch inner_dist c on,
  sim RI lgI (inner_dist c on) (fun r => dist r c on) dist_res_of ->
  sim (tracks I RI) (lgT I lgI)
      (MeasurementTrackingBackend_R_get_measurement_outcome_distribution (tracker_hooks I inner_run inner_batch inner_dist) c on)
      (fun r => dist r c on) dist_res_of.
Proof. exact tracker_dist_sim. Qed.
Print Assumptions generated_tracker_distribution_is_model.

(* the hypotheses are met by the generated methods of the model's base-class runner: a tracker around it *)
Theorem generated_tracker_over_base_is_model : forall over c n cs s on,
  let H := tracker_hooks leaf (BaseCircuitRunner_R_run_and_measure (base_hooks over))
                         (BaseCircuitRunner_R_run_batch_and_measure (base_hooks over))
                         (BaseCircuitRunner_R_get_measurement_outcome_distribution (base_hooks over)) in
  let T := tracks leaf (stands_base over) in
  let L := lgT leaf a_ext in
  sim T L (MeasurementTrackingBackend_R_run_and_measure H c n) (fun r => run_single r c n) res_of /\
  sim T L (MeasurementTrackingBackend_R_run_batch_and_measure H cs s) (fun r => run_batch r cs (spec_of s)) res_of /\
  sim T L (MeasurementTrackingBackend_R_get_measurement_outcome_distribution H c on) (fun r => dist r c on) dist_res_of.
Proof. exact tracked_base_sim. Qed.
Print Assumptions generated_tracker_over_base_is_model.

(* the generated methods run: a simulator whose native kinds are 0..3, a batch of two circuits with per-circuit counts
   (3 native segments and 4 jobs: the counters; the log is newest first) *)
Example generated_simulator_batch_runs :
  BaseWavefunctionSimulator_R_run_batch_and_measure (sim_hooks (fun _ k => k <? 4))
    [mkC 2 [0; 1; 7; 7; 2] false false; mkC 1 [7] false false] (inr [3; 5]) (obj 0 0 (Some None) [])
  = (obj 2 4 (Some None)
         [ESeg false [7]; EWf (mkC 1 [7] false false);
          ESeg true [2]; ESeg false [7; 7]; ESeg true [0; 1]; EWf (mkC 2 [0; 1; 7; 7; 2] false false)],
     Ok [(3, 2); (5, 1)]).
Proof. vm_compute. reflexivity. Qed.

(* ... and a tracker around a base-class runner (surplus 2) on a batch whose second circuit holds a non-gate operation:
   all three circuits were executed by the wrapped runner, the tracker raises, one record stays in raw_data (F28) *)
Example generated_tracker_batch_runs :
  let H := tracker_hooks leaf (BaseCircuitRunner_R_run_and_measure (base_hooks 2))
                         (BaseCircuitRunner_R_run_batch_and_measure (base_hooks 2))
                         (BaseCircuitRunner_R_get_measurement_outcome_distribution (base_hooks 2)) in
  MeasurementTrackingBackend_R_run_batch_and_measure H
    [mkC 3 [0] false true; mkC 1 [7] false false; mkC 0 [] false true] (inl 4)
    (tobj leaf 0 0 None (Some false) (obj 0 0 None []) [] "RecBase" "raw.json" [])
  = (tobj leaf 3 1 None (Some false)
       (obj 3 3 None [ERun (mkC 0 [] false true) 4; ERun (mkC 1 [7] false false) 4; ERun (mkC 3 [0] false true) 4])
       [jmeasurement "RecBase" (Some false) (mkC 3 [0] false true) (6, 3)] "RecBase" "raw.json" [],
     Raise E_AttributeError).
Proof. vm_compute. reflexivity. Qed.
