(* C14 - Runners validate requests, deliver enough shots and count their work correctly.
   Property theorems only; every proof is [exact <lemma>].  Model: State/Runner.v (a runner is its
   configuration plus its state; [step] performs one public call and returns the new runner, the
   outcome and the trace of what the innermost runner executed).  All statements are for every runner
   (base-class runner with any surplus, simulator with ANY native-support predicate, trackers nested
   to any depth), every circuit and every call history. *)
Require Import Coq.ZArith.ZArith Coq.Lists.List Coq.Bool.Bool Coq.micromega.Lia.
Require Import OQ.State.Runner OQ.State.RunnerProofs.
Import ListNotations.
Open Scope Z_scope.

(* ---- invalid arguments: ValueError before anything is executed.
   invalid_args: a count <= 0 (single run, batch with an integer, distribution), a per-circuit list of
   the wrong length or with an entry <= 0.  Nothing is executed (empty trace); the innermost runner, every
   tracker file and every tracker's pending raw_data are unchanged; a base-class runner or simulator is unchanged altogether, and so
   is a tracker for single and distribution calls (its batch call bumps its own counters first). *)
Theorem reject_before_execution : forall r k, invalid_args k ->
  st_outcome (step r k) = OErr ValueError /\ st_trace (step r k) = [] /\
  leaf_of (st_runner (step r k)) = leaf_of r /\ files (st_runner (step r k)) = files r /\
  pendings (st_runner (step r k)) = pendings r /\
  (is_leaf r = true -> st_runner (step r k) = r) /\
  match k with Batch _ _ => True | _ => st_runner (step r k) = r end.
Proof. exact reject_first. Qed.
Print Assumptions reject_before_execution.

(* the validation accepts exactly the complement, and then the per-circuit counts are the broadcast
   integer or the list itself *)
Theorem validation_exact : forall k s,
  (bad_spec k s -> validate k s = None) /\
  (forall ns, validate k s = Some ns ->
     ~ bad_spec k s /\ List.length ns = k /\ Forall (fun n => 0 < n) ns /\
     match s with One n => ns = repeat n k | Many l => ns = l end).
Proof. exact validation_spec. Qed.
Print Assumptions validation_exact.

(* a runner whose innermost runner is a plain base-class runner cannot give an exact distribution *)
Theorem reject_exact_distribution_on_base : forall r c,
  (exists over nc nj, leaf_of r = RBase over nc nj) -> dist r c None = (r, OErr ValueError, []).
Proof. exact dist_none_base. Qed.
Print Assumptions reject_exact_distribution_on_base.

(* a simulator (under any stack of trackers) refuses to sample a circuit with unbound symbols, before
   executing anything and without changing any state *)
Theorem reject_unbound_symbols : forall r c n, leaf_base r = false -> cfree c = true ->
  step r (Run c n) = (r, OErr ValueError, []).
Proof. exact reject_unbound_step. Qed.
Print Assumptions reject_unbound_symbols.

Example invalid_premises_met :
  invalid_args (Batch [mkC 2 [0; 4] false true; mkC 0 [] false true] (Many [3; 0])) /\
  invalid_args (Batch [] (One (-2))) /\
  step (RSim (fun k => k =? 0) 5 7) (Batch [mkC 2 [0; 4] false true; mkC 0 [] false true] (Many [3; 0]))
  = (RSim (fun k => k =? 0) 5 7, OErr ValueError, []).
Proof. split; [right; right; constructor; cbn; lia|]. split; [cbn; lia|reflexivity]. Qed.

(* ---- counters never decrease: between any two points of any history, at every level (the runner the
   calls are made on, every wrapped tracker, the innermost runner) *)
Theorem counters_monotone : forall r ks1 ks2,
  cle (all_counters (final r ks1)) (all_counters (final r (ks1 ++ ks2))).
Proof. exact counters_monotone_along. Qed.
Print Assumptions counters_monotone.

Theorem counters_monotone_own : forall r ks1 ks2,
  n_circuits (final r ks1) <= n_circuits (final r (ks1 ++ ks2)) /\
  n_jobs (final r ks1) <= n_jobs (final r (ks1 ++ ks2)).
Proof. exact counters_monotone_top. Qed.
Print Assumptions counters_monotone_own.

(* ---- counters grow by exactly the work done: for a base-class runner or simulator (is_leaf), after any
   history - including calls that failed half-way through a batch - the counters have grown by the number
   of circuits / jobs in the trace (one circuit and one job per _run_and_measure call; for a simulator one
   job per groupby segment and one circuit per native segment) *)
Theorem counters_exact : forall r ks, is_leaf r = true ->
  n_circuits (final r ks) = n_circuits r + circuits_in (history_trace r ks) /\
  n_jobs (final r ks) = n_jobs r + jobs_in (history_trace r ks).
Proof. exact counters_exact_leaf. Qed.
Print Assumptions counters_exact.

(* the same for the innermost runner under any stack of trackers *)
Theorem counters_exact_wrapped : forall r ks,
  n_circuits (leaf_of (final r ks)) = n_circuits (leaf_of r) + circuits_in (history_trace r ks) /\
  n_jobs (leaf_of (final r ks)) = n_jobs (leaf_of r) + jobs_in (history_trace r ks).
Proof. exact counters_exact_history. Qed.
Print Assumptions counters_exact_wrapped.

(* what a simulator's get_wavefunction counts and logs, for any predicate: the segments partition the
   operations in order, are non-empty, uniform in the predicate value and alternate *)
Theorem simulator_work : forall p nc nj c,
  get_wavefunction p nc nj c
  = (nc + Z.of_nat (List.length (filter fst (segments p (cops c)))),
     nj + Z.of_nat (List.length (segments p (cops c))),
     EWf c :: map seg_event (segments p (cops c))) /\
  List.concat (map snd (segments p (cops c))) = cops c /\
  Forall (fun s => snd s <> [] /\ Forall (fun o => p o = fst s) (snd s)) (segments p (cops c)) /\
  alternating (map fst (segments p (cops c))).
Proof. exact simulator_work_spec. Qed.
Print Assumptions simulator_work.

Example history_premises_met :
  let r := RSim (fun k => k <? 4) 0 0 in
  let ks := [Run (mkC 2 [0; 1; 7; 7; 2] false false) 3; Run (mkC 2 [0] false true) 0; Batch [mkC 0 [] false true; mkC 1 [7] false false] (Many [2; 5])] in
  counters (final r ks) = (2, 4) /\ circuits_in (history_trace r ks) = 2 /\ jobs_in (history_trace r ks) = 4.
Proof. vm_compute. repeat split. Qed.

(* ---- successful calls: one result per circuit, in order, each with at least the requested number of shots
   and bitstrings of the delivered width.  [honest r]: the subclass's _run_and_measure honours its contract
   (n + over shots with 0 <= over).  [served r (c, n) m] = n <= shots m /\ width m = delivered_width r c. *)
Theorem batch_results_in_order : forall r cs s r' ms tr, honest r ->
  step r (Batch cs s) = (r', OBatch ms, tr) ->
  exists ns, validate (List.length cs) s = Some ns /\ List.length ns = List.length cs /\
             List.length ms = List.length cs /\ Forall2 (served r) (combine cs ns) ms.
Proof. exact batch_results_shape. Qed.
Print Assumptions batch_results_in_order.

Theorem single_result_enough : forall r c n r' m tr, honest r ->
  step r (Run c n) = (r', OMeas m, tr) -> 0 < n /\ n <= fst m /\ snd m = delivered_width r c.
Proof. exact run_results_shape. Qed.
Print Assumptions single_result_enough.

(* the shape theorems are not vacuous: every valid request succeeds (runnable: the innermost runner is a plain
   base-class runner or the circuit has no unbound symbols, and under a tracker the circuit has gate operations only) *)
Theorem valid_batch_request_succeeds : forall r cs s, ~ bad_spec (List.length cs) s -> Forall (runnable r) cs ->
  exists r' ms tr, step r (Batch cs s) = (r', OBatch ms, tr).
Proof. exact valid_batch_succeeds. Qed.
Print Assumptions valid_batch_request_succeeds.

Theorem valid_single_request_succeeds : forall r c n, 0 < n -> runnable r c ->
  exists r' m tr, step r (Run c n) = (r', OMeas m, tr).
Proof. exact valid_run_succeeds. Qed.
Print Assumptions valid_single_request_succeeds.

Theorem distribution_result_width : forall r c n r' w tr,
  step r (Dist c (Some n)) = (r', ODist w, tr) -> 0 < n /\ w = delivered_width r c.
Proof. exact dist_results_shape. Qed.
Print Assumptions distribution_result_width.

(* the delivered width is the circuit's register for every non-empty register and for every base-class runner *)
Theorem width_is_register : forall r c,
  0 < cw c \/ (exists over nc nj, leaf_of r = RBase over nc nj) -> delivered_width r c = cw c.
Proof. exact delivered_width_register. Qed.
Print Assumptions width_is_register.

(* full statement that does NOT hold: forall honest r, step r (Run c n) = (r', OMeas m, tr) -> snd m = cw c.
   Refuted by the faithful model (finding F6): a simulator returns bitstrings of length 1 for the empty register. *)
Theorem width_is_register_refuted :
  exists r c n r' m tr, honest r /\ step r (Run c n) = (r', OMeas m, tr) /\ snd m <> cw c.
Proof. exact zero_width_refuted. Qed.
Print Assumptions width_is_register_refuted.

(* a base-class runner's batch: exactly the requested (circuit, count) pairs are executed, in order, and the
   results are theirs, in order *)
Theorem base_batch_in_order : forall over nc nj cs s ns, validate (List.length cs) s = Some ns ->
  step (RBase over nc nj) (Batch cs s)
  = (RBase over (nc + Z.of_nat (List.length cs)) (nj + Z.of_nat (List.length cs)),
     OBatch (map (fun cn => (snd cn + over, cw (fst cn))) (combine cs ns)),
     map (fun cn => ERun (fst cn) (snd cn)) (combine cs ns)).
Proof. exact base_batch. Qed.
Print Assumptions base_batch_in_order.

Example shape_premises_met :
  honest (RTrack 0 0 [] [] (RBase 2 0 0)) /\
  step (RTrack 0 0 [] [] (RBase 2 0 0)) (Batch [mkC 3 [0] false true; mkC 0 [] false true] (Many [4; 1]))
  = (RTrack 2 1 [RecM (mkC 3 [0] false true) (6, 3); RecM (mkC 0 [] false true) (3, 0)] [] (RBase 2 2 2),
     OBatch [(6, 3); (3, 0)], [ERun (mkC 3 [0] false true) 4; ERun (mkC 0 [] false true) 1]).
Proof. split; [cbn; lia|reflexivity]. Qed.

(* ---- the tracking wrapper: for single, batch and distribution calls on circuits it can serialise (gate
   operations only) it returns exactly the outcome of the wrapped runner's call (same trace, wrapped runner advanced
   exactly as by its own call); after a success its file is [file_after]: whatever was pending in raw_data, then one
   record per returned result naming the circuit, the shot number and key length of that result (for a distribution:
   circuit and requested count), and raw_data is empty; when the call raised, file and raw_data are unchanged.  Its own
   counters: +1/+1 after a successful single run, +len/+1 BEFORE delegating a batch (even a rejected one), unchanged
   for distributions. *)
Theorem tracker_returns_inner_result : forall nc nj file pend inner k, tracked_call k -> serialisable k ->
  step (RTrack nc nj file pend inner) k
  = (RTrack (nc + fst (own_count k (st_outcome (step inner k)))) (nj + snd (own_count k (st_outcome (step inner k))))
            (file_after k (st_outcome (step inner k)) file pend) (pending_after k (st_outcome (step inner k)) pend)
            (st_runner (step inner k)),
     st_outcome (step inner k), st_trace (step inner k)).
Proof. exact tracker_passthrough. Qed.
Print Assumptions tracker_returns_inner_result.

(* every successful tracked batch (no hypothesis on the circuits: success implies they were serialisable) *)
Theorem tracker_batch_records_match : forall nc nj file pend inner cs s r' ms tr,
  step (RTrack nc nj file pend inner) (Batch cs s) = (r', OBatch ms, tr) ->
  st_outcome (step inner (Batch cs s)) = OBatch ms /\
  files r' = (pend ++ map (fun cm => RecM (fst cm) (snd cm)) (combine cs ms)) :: files (st_runner (step inner (Batch cs s))) /\
  pendings r' = [] :: pendings (st_runner (step inner (Batch cs s))).
Proof. exact tracker_batch_records. Qed.
Print Assumptions tracker_batch_records_match.

(* full statement that does NOT hold: tracker_returns_inner_result without [serialisable k].  Refuted by the
   faithful model (finding F28): over a circuit containing a non-gate operation (MultiPhaseOperation) the wrapped
   runner executes and returns measurements, then the tracker raises AttributeError (to_dict cannot serialise it) *)
Theorem tracker_nongate_refuted :
  exists nc nj file pend inner k m, tracked_call k /\
    st_outcome (step inner k) = OMeas m /\ st_trace (step (RTrack nc nj file pend inner) k) <> [] /\
    n_jobs (st_runner (step inner k)) <> n_jobs inner /\
    st_outcome (step (RTrack nc nj file pend inner) k) = OErr AttrError.
Proof. exact tracker_nongate_counterexample. Qed.
Print Assumptions tracker_nongate_refuted.

(* F28, second half: the records appended before the failing circuit of a batch stay in raw_data and appear in the
   file written by the next successful call - two different records for one returned result *)
Theorem tracker_stale_records_refuted :
  exists r k1 k2 m rec1 rec2,
    st_outcome (step r k1) = OErr AttrError /\
    st_outcome (step (st_runner (step r k1)) k2) = OMeas m /\
    files (st_runner (step (st_runner (step r k1)) k2)) = [[rec1; rec2]] /\ rec1 <> rec2.
Proof. exact tracker_stale_counterexample. Qed.
Print Assumptions tracker_stale_records_refuted.
