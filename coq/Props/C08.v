(* C08 - Circuit-level constructions: inverse, controlled, gate layers, ancillas.
   Property theorems only; every proof is [exact <lemma>] (Circ/ConstructionsProofs.v).  The model
   (Circ/Constructions.v) mirrors Circuit.inverse / Circuit.controlled / __add__ and create_layer_of_gates /
   apply_gate_to_qubits / add_ancilla_register on operations = (gate expression of C07, qubit tuple); the
   unitary of a circuit is C01's to_unitary over C07's gate matrices.  Statements are for all circuits, widths,
   control positions, qubit collections and set orders (structural induction, no bounds).

   Vocabulary: [gc_wf c] every operation has as many distinct in-range qubits as its gate has;
   [dag_ok] / [ctl_ok] the object .dagger / .controlled(1) returns has the adjoint / diag(I, U) matrix - the
   gate-level facts of C07, discharged below by [dagger_safe] (integer powers only - finding F8 -, sound
   is_hermitian flags, laws of sympy's exp and inv) and by [nf] (gates built by method calls from base gates);
   [cform k n A] the controlled form of A: entry (x, y) is A at the indices with bit k removed when bit k is
   set in x and y, and the identity entry otherwise ([xbit], [xdel]; qubit 0 = most significant bit). *)
Require Import Coq.Arith.Arith Coq.Lists.List Coq.Strings.String Coq.Bool.Bool Coq.Sorting.Permutation.
Require Import OQ.Base.Ring OQ.Base.Bits OQ.Base.Mat OQ.Circ.Lift OQ.Circ.Circuit OQ.Circ.GateAst.
Require Import OQ.Circ.GateAstInstProofs OQ.Circ.Constructions OQ.Circ.ConstructionsProofs.
Import ListNotations.

(* ================================================================== inverse *)
(* shape: the original operations in reverse order, each on its own qubit tuple, each gate the one .dagger
   returned; the width is kept *)
Theorem inverse_shape : forall (P : Type) (pfree : P -> bool) (c c' : gcirc P), inverse pfree c = Some c' ->
  Forall2 (fun op' op => snd op' = snd op /\ dagger pfree (fst op) = Some (fst op')) (gc_ops c') (rev (gc_ops c)) /\
  (gc_wf c -> gc_n c' = gc_n c).
Proof. exact inverse_structure. Qed.
Print Assumptions inverse_shape.

(* inverse() never raises on gates that passed the constructors' checks *)
Theorem inverse_defined : forall (P : Type) (pfree : P -> bool) (c : gcirc P),
  Forall (fun op => wf pfree (fst op) = true) (gc_ops c) -> exists c', inverse pfree c = Some c'.
Proof. exact inverse_total. Qed.
Print Assumptions inverse_defined.

(* the inverse's matrix is the conjugate transpose of the circuit's, whenever every gate's dagger means the adjoint *)
Theorem inverse_adjoint : forall (K : cring) (P : Type) (pfree : P -> bool) (o : oracles K P) (c c' : gcirc P),
  gc_wf c -> Forall (dag_ok K P pfree o) (gc_ops c) -> inverse pfree c = Some c' ->
  mat_eq (2 ^ gc_n c) (gc_unitary o c') (adj (gc_unitary o c)).
Proof. exact ConstructionsProofs.inverse_adjoint. Qed.
Print Assumptions inverse_adjoint.

(* ... which holds for every nesting of controlled / dagger / exp / integer powers over base gates with sound flags *)
Theorem inverse_adjoint_integer_powers : forall (K : cring) (P : Type) (pfree : P -> bool) (o : oracles K P) (c c' : gcirc P),
  exp_laws o -> inv_laws o -> gc_wf c -> Forall (dagger_safe K P o) (gc_ops c) -> inverse pfree c = Some c' ->
  mat_eq (2 ^ gc_n c) (gc_unitary o c') (adj (gc_unitary o c)).
Proof. exact inverse_adjoint_safe. Qed.
Print Assumptions inverse_adjoint_integer_powers.

(* appending the inverse gives the identity on the whole register (gates unitary) *)
Theorem inverse_cancels : forall (K : cring) (P : Type) (pfree : P -> bool) (o : oracles K P) (c c' : gcirc P),
  gc_wf c -> Forall (dag_ok K P pfree o) (gc_ops c) -> Forall (unitary_op K P o) (gc_ops c) ->
  inverse pfree c = Some c' ->
  gc_n (gc_add c c') = gc_n c /\ mat_eq (2 ^ gc_n c) (gc_unitary o (gc_add c c')) eye.
Proof. exact ConstructionsProofs.inverse_cancels. Qed.
Print Assumptions inverse_cancels.

Theorem inverse_cancels_integer_powers : forall (K : cring) (P : Type) (pfree : P -> bool) (o : oracles K P) (c c' : gcirc P),
  exp_laws o -> inv_laws o -> gc_wf c -> Forall (dagger_safe K P o) (gc_ops c) -> Forall (unitary_op K P o) (gc_ops c) ->
  inverse pfree c = Some c' ->
  gc_n (gc_add c c') = gc_n c /\ mat_eq (2 ^ gc_n c) (gc_unitary o (gc_add c c')) eye.
Proof. exact inverse_cancels_safe. Qed.
Print Assumptions inverse_cancels_integer_powers.

(* inverting twice returns a circuit with the original action *)
Theorem inverse_twice_action : forall (K : cring) (P : Type) (pfree : P -> bool) (o : oracles K P) (c c' c'' : gcirc P),
  gc_wf c -> Forall (dag_ok K P pfree o) (gc_ops c) -> Forall (dag_ok K P pfree o) (gc_ops c') ->
  inverse pfree c = Some c' -> inverse pfree c' = Some c'' ->
  gc_n c'' = gc_n c /\ mat_eq (2 ^ gc_n c) (gc_unitary o c'') (gc_unitary o c).
Proof. exact ConstructionsProofs.inverse_twice_action. Qed.
Print Assumptions inverse_twice_action.

Theorem inverse_twice_integer_powers : forall (K : cring) (P : Type) (pfree : P -> bool) (o : oracles K P) (c c' c'' : gcirc P),
  exp_laws o -> inv_laws o -> gc_wf c -> Forall (dagger_safe K P o) (gc_ops c) ->
  inverse pfree c = Some c' -> inverse pfree c' = Some c'' ->
  gc_n c'' = gc_n c /\ mat_eq (2 ^ gc_n c) (gc_unitary o c'') (gc_unitary o c).
Proof. exact inverse_twice_safe. Qed.
Print Assumptions inverse_twice_integer_powers.

(* the restriction to integer powers is needed: finding F8 at the level of circuits.  With sympy's value
   diag(1, i) for Z ** 0.5 (f8_oracles), Circuit([Z.power(0.5)(0)]) is well formed and unitary, inverse() returns
   a circuit, and its matrix is not the conjugate transpose. *)
Theorem inverse_fractional_refuted :
  gc_wf f8_circuit /\ Forall (unitary_op GQring unit f8_oracles) (gc_ops f8_circuit) /\
  exists c', inverse nofree f8_circuit = Some c' /\
             ~ mat_eq (2 ^ gc_n f8_circuit) (gc_unitary f8_oracles c') (adj (gc_unitary f8_oracles f8_circuit)).
Proof. exact inverse_fractional_refuted_gen. Qed.
Print Assumptions inverse_fractional_refuted.

(* the premises are satisfiable together on a circuit with a non-self-adjoint gate, a controlled gate with an
   unordered tuple and an idle qubit *)
Example inverse_premises_met :
  exp_laws demo_oracles /\ inv_laws demo_oracles /\ gc_wf demo_circuit /\
  Forall (dagger_safe GQring unit demo_oracles) (gc_ops demo_circuit) /\
  Forall (unitary_op GQring unit demo_oracles) (gc_ops demo_circuit) /\
  inverse nofree demo_circuit = Some (mk_gc 3 [(xg, [0]); (Ctrl xg 1, [2; 0]); (Dag sg, [1])]).
Proof. exact (conj demo_exp_laws (conj demo_inv_laws (conj demo_wf (conj demo_dagger_safe (conj demo_unitary demo_inverse))))). Qed.

(* ================================================================== controlled *)
(* shape: one more control on every gate, the control index first in the tuple, original indices at or above k
   moved up by one, width max(n, k) + 1 (after the repair of F5) *)
Theorem controlled_shape : forall (P : Type) (pfree : P -> bool) k (c c' : gcirc P), controlled_circuit pfree k c = Some c' ->
  gc_n c' = S (Nat.max (gc_n c) k) /\
  Forall2 (fun op' op => snd op' = k :: map (shift_idx k) (snd op) /\ controlled pfree 1 (fst op) = Some (fst op'))
          (gc_ops c') (gc_ops c).
Proof. exact controlled_structure. Qed.
Print Assumptions controlled_shape.

Theorem controlled_well_formed : forall (P : Type) (pfree : P -> bool) k (c c' : gcirc P),
  gc_wf c -> controlled_circuit pfree k c = Some c' -> gc_wf c'.
Proof. exact controlled_wf. Qed.
Print Assumptions controlled_well_formed.

(* meaning, for every control position 0..n: identity unless qubit k is 1 (on both sides), then the original
   circuit on the remaining qubits *)
Theorem controlled_circuit_sem : forall (K : cring) (P : Type) (pfree : P -> bool) (o : oracles K P) k (c c' : gcirc P),
  gc_wf c -> Forall (ctl_ok K P pfree o) (gc_ops c) -> k <= gc_n c -> controlled_circuit pfree k c = Some c' ->
  gc_n c' = S (gc_n c) /\
  forall x y, x < 2 ^ S (gc_n c) -> y < 2 ^ S (gc_n c) ->
    gc_unitary o c' x y = if xbit k (gc_n c) x && xbit k (gc_n c) y
                          then gc_unitary o c (xdel k (gc_n c) x) (xdel k (gc_n c) y)
                          else eye x y.
Proof. exact ConstructionsProofs.controlled_circuit_sem. Qed.
Print Assumptions controlled_circuit_sem.

(* any control position, also beyond the register: the original circuit widened to max(n, k) qubits *)
Theorem controlled_circuit_sem_any_position : forall (K : cring) (P : Type) (pfree : P -> bool) (o : oracles K P) k (c c' : gcirc P),
  gc_wf c -> Forall (ctl_ok K P pfree o) (gc_ops c) -> controlled_circuit pfree k c = Some c' ->
  let n' := Nat.max (gc_n c) k in
  gc_n c' = S n' /\
  mat_eq (2 ^ S n') (gc_unitary o c') (cform k n' (to_unitary n' (map (denote o) (gc_ops c)))).
Proof. exact controlled_circuit_sem_gen. Qed.
Print Assumptions controlled_circuit_sem_any_position.

(* for circuits whose gates were built by method calls from base gates: no assumption about sympy at all *)
Theorem controlled_circuit_sem_reachable : forall (K : cring) (P : Type) (pfree : P -> bool) (o : oracles K P) k (c c' : gcirc P),
  gc_wf c -> Forall (fun op => nf pfree (fst op) = true) (gc_ops c) -> k <= gc_n c -> controlled_circuit pfree k c = Some c' ->
  gc_n c' = S (gc_n c) /\
  forall x y, x < 2 ^ S (gc_n c) -> y < 2 ^ S (gc_n c) ->
    gc_unitary o c' x y = if xbit k (gc_n c) x && xbit k (gc_n c) y
                          then gc_unitary o c (xdel k (gc_n c) x) (xdel k (gc_n c) y)
                          else eye x y.
Proof. exact controlled_circuit_sem_nf. Qed.
Print Assumptions controlled_circuit_sem_reachable.

(* every gate expression under the sympy laws *)
Theorem controlled_gate_premise_from_laws : forall (K : cring) (P : Type) (pfree : P -> bool) (o : oracles K P) n (op : gop P),
  exp_laws o -> inv_laws o -> frac_laws o -> op_wf n op -> ctrl_ok o (fst op) -> ctl_ok K P pfree o op.
Proof. exact ctl_ok_laws. Qed.
Print Assumptions controlled_gate_premise_from_laws.

Example controlled_premises_met :
  gc_wf demo_circuit /\ Forall (fun op => nf nofree (fst op) = true) (gc_ops demo_circuit) /\
  controlled_circuit nofree 1 demo_circuit
  = Some (mk_gc 4 [(Ctrl sg 1, [1; 2]); (Ctrl xg 2, [1; 3; 0]); (Ctrl xg 1, [1; 0])]).
Proof. exact (conj demo_wf (conj demo_nf demo_controlled)). Qed.

(* ================================================================== layers and apply_gate_to_qubits *)
(* a layer over n qubits holds exactly one gate per qubit 0..n-1, the i-th parameter row on qubit i *)
Theorem layer_shape : forall (P : Type) n (fac : list P -> gate P) rows (c : gcirc P),
  create_layer n fac (Some rows) = Some c ->
  List.length rows = n /\ gc_n c = n /\ gc_ops c = map (fun i => (fac (nth i rows []), [i])) (seq 0 n).
Proof. exact ConstructionsProofs.layer_shape. Qed.
Print Assumptions layer_shape.

Theorem layer_shape_no_parameters : forall (P : Type) n (fac : list P -> gate P) (c : gcirc P),
  create_layer n fac None = Some c -> gc_n c = n /\ gc_ops c = map (fun i => (fac [], [i])) (seq 0 n).
Proof. exact layer_shape_noparams. Qed.
Print Assumptions layer_shape_no_parameters.

Theorem layer_wrong_row_count_rejected : forall (P : Type) n (fac : list P -> gate P) rows,
  List.length rows <> n -> create_layer n fac (Some rows) = None.
Proof. exact layer_rejects. Qed.
Print Assumptions layer_wrong_row_count_rejected.

(* apply_gate_to_qubits, for every collection qs and every order in which the set of its elements is iterated:
   existing operations stay in place as a prefix; exactly one single-qubit operation per distinct listed qubit;
   the gates are the factory applied to the rows in order, each row once (or the given gate); width *)
Theorem apply_shape : forall (P : Type) (c c' : gcirc P) qs order fac rows,
  set_order_ok qs order = true -> apply_gate_to_qubits c order fac rows = Some c' ->
  exists new,
    gc_ops c' = gc_ops c ++ new /\
    map snd new = map (fun q => [q]) order /\
    Permutation order (nodup Nat.eq_dec qs) /\
    List.length new = List.length (nodup Nat.eq_dec qs) /\
    map fst new = match rows with Some rs => map fac rs | None => map (fun _ => fac []) order end /\
    gc_n c' = Nat.max (gc_n c) (list_max (map S order)).
Proof. exact ConstructionsProofs.apply_shape. Qed.
Print Assumptions apply_shape.

Theorem apply_wrong_row_count_rejected : forall (P : Type) (c : gcirc P) order fac rs,
  List.length rs <> List.length order -> apply_gate_to_qubits c order fac (Some rs) = None.
Proof. exact apply_rejects. Qed.
Print Assumptions apply_wrong_row_count_rejected.

(* the resulting width and action depend only on which gate goes to which qubit, not on the order of appending *)
Theorem appended_gates_order_independent : forall (K : cring) (P : Type) (o : oracles K P) (c : gcirc P)
    (pairs1 pairs2 : list (nat * gate P)),
  Permutation pairs1 pairs2 -> NoDup (map fst pairs1) ->
  gc_n (place c pairs1) = gc_n (place c pairs2) /\
  mat_eq (2 ^ gc_n (place c pairs1)) (gc_unitary o (place c pairs1)) (gc_unitary o (place c pairs2)).
Proof. exact place_order_independent. Qed.
Print Assumptions appended_gates_order_independent.

(* without parameter rows: the same action for every admissible set order *)
Theorem apply_action_order_independent : forall (K : cring) (P : Type) (o : oracles K P) (c c1 c2 : gcirc P) qs order1 order2 fac,
  set_order_ok qs order1 = true -> set_order_ok qs order2 = true ->
  apply_gate_to_qubits c order1 fac None = Some c1 -> apply_gate_to_qubits c order2 fac None = Some c2 ->
  gc_n c1 = gc_n c2 /\ mat_eq (2 ^ gc_n c1) (gc_unitary o c1) (gc_unitary o c2).
Proof. exact apply_order_independent. Qed.
Print Assumptions apply_action_order_independent.

Example apply_premises_met :
  set_order_ok [5; 1; 3; 3] [1; 3; 5] = true /\
  apply_gate_to_qubits (mk_gc 2 [(xg, [1])]) [1; 3; 5] (fun ps : list unit => Base "RX" ps 1 false) (Some [[tt]; []; [tt; tt]])
  = Some (mk_gc 6 [(xg, [1]); (Base "RX" [tt] 1 false, [1]); (Base "RX" [] 1 false, [3]); (Base "RX" [tt; tt] 1 false, [5])]).
Proof. split; vm_compute; reflexivity. Qed.

(* ================================================================== ancillas *)
Theorem ancilla_shape : forall (P : Type) (c : gcirc P) a,
  gc_n (add_ancilla c a) = gc_n c + a /\
  gc_ops (add_ancilla c a) = gc_ops c ++ map (fun i => (igate, [gc_n c + i])) (seq 0 a).
Proof. exact ConstructionsProofs.ancilla_shape. Qed.
Print Assumptions ancilla_shape.

(* the register grows by exactly a qubits and the action is the original on the first n, identity on the ancillas *)
Theorem ancilla_sem : forall (K : cring) (P : Type) (o : oracles K P) (c : gcirc P) a,
  gc_wf c -> mat_eq 2 (sem o igate) eye ->
  gc_n (add_ancilla c a) = gc_n c + a /\
  mat_eq (2 ^ (gc_n c + a)) (gc_unitary o (add_ancilla c a)) (kron (2 ^ a) (gc_unitary o c) eye).
Proof. exact ConstructionsProofs.ancilla_sem. Qed.
Print Assumptions ancilla_sem.

Example ancilla_premises_met : gc_wf demo_circuit /\ mat_eq 2 (sem demo_oracles (@igate unit)) eye.
Proof. exact (conj demo_wf demo_identity). Qed.

(* ================================================================== the model is the code *)
(* Circuit.__init__ / __add__ / inverse / controlled, _circuit_size_by_operations, the singledispatch function
   _append_to_circuit with _append_operation and _append_circuit (circuits/_circuit.py), create_layer_of_gates,
   apply_gate_to_qubits, add_ancilla_register (circuits/_generators.py) and the constant I (circuits/_builtin_gates.py)
   are TRANSLATED from their source on every run (tr/tr_circuit.py -> Gen/CircuitGen.v; the meaning of the Python
   building blocks is Circ/CircuitTrSupport.v) and proved equal to the model functions of Circ/Constructions.v used
   above (Circ/CircuitGenProofs.v).  The generated functions abstract over the world below circuits (record pyenv);
   [menv P pfree ord] is the model's: operations = (gate expression of C07, tuple of Python ints), .dagger /
   .controlled(k) = GateAst's methods (None = the constructor's ValueError), set iteration order = an arbitrary
   function ord (an input).  [inj_c] writes a model circuit with Python ints; [lift_c e] writes the model's None as
   the exception e.  Guards: [ops_guard] / [mk_guard] exclude a non-empty operation list without any qubit index,
   where the code raises (max() of an empty sequence) and the model computes width 1 - a deviation of the model
   outside gc_wf, stated below as generated_size_without_qubits_deviates. *)
Require Import Coq.ZArith.ZArith.
Require Import OQ.Circ.CircuitTrSupport OQ.Gen.CircuitGen OQ.Circ.CircuitGenProofs.

Theorem generated_size_is_model : forall (P : Type) (pfree : P -> bool) (ord : list Z -> list Z) (ops : list (gop P)),
  ops_guard P ops ->
  circuit_size_by_operations_gen (menv P pfree ord) (map (inj_op P) ops) = Ok (Z.of_nat (size_ops ops)).
Proof. exact size_gen_is_model. Qed.
Print Assumptions generated_size_is_model.

Theorem generated_size_without_qubits_deviates : forall (P : Type) (pfree : P -> bool) (ord : list Z -> list Z) (ops : list (gop P)),
  ops <> [] -> flat_map snd ops = [] ->
  circuit_size_by_operations_gen (menv P pfree ord) (map (inj_op P) ops) = Raise ValueError /\ size_ops ops = 1.
Proof. exact size_gen_no_qubits. Qed.
Print Assumptions generated_size_without_qubits_deviates.

Theorem generated_init_is_model : forall (P : Type) (pfree : P -> bool) (ord : list Z -> list Z) (ops : list (gop P)) (n : nat),
  mk_guard P ops n ->
  Circuit_init_gen (menv P pfree ord) (Some (map (inj_op P) ops)) (Some (Z.of_nat n)) = Ok (inj_c P pfree ord (mk_gcirc ops n)).
Proof. exact init_gen_is_model. Qed.
Print Assumptions generated_init_is_model.

(* for every environment: a negative n_qubits is refused (the model has no negative widths) *)
Theorem generated_init_negative_width : forall (E : pyenv) (ops : option (list (Op E))) (n : Z),
  (n < 0)%Z -> Circuit_init_gen E ops (Some n) = Raise ValueError.
Proof. exact init_gen_negative. Qed.
Print Assumptions generated_init_negative_width.

Theorem generated_add_operation_is_model : forall (P : Type) (pfree : P -> bool) (ord : list Z -> list Z) (c : gcirc P) (op : gop P),
  snd op <> [] ->
  Circuit_add_gen (menv P pfree ord) (inj_c P pfree ord c) (inr (inj_op P op)) = Ok (inj_c P pfree ord (gc_append c op)).
Proof. exact add_operation_gen_is_model. Qed.
Print Assumptions generated_add_operation_is_model.

Theorem generated_add_circuit_is_model : forall (P : Type) (pfree : P -> bool) (ord : list Z -> list Z) (c1 c2 : gcirc P),
  mk_guard P (gc_ops c1 ++ gc_ops c2) (Nat.max (gc_n c1) (gc_n c2)) ->
  Circuit_add_gen (menv P pfree ord) (inj_c P pfree ord c1) (inl (inj_c P pfree ord c2)) = Ok (inj_c P pfree ord (gc_add c1 c2)).
Proof. exact add_circuit_gen_is_model. Qed.
Print Assumptions generated_add_circuit_is_model.

(* an operation that is not a GateOperation: nothing is registered with the singledispatch function *)
Theorem generated_add_other_operation : forall (E : pyenv) (c : Circuit_obj E) (o : Op E),
  op_is_GateOperation E o = false -> Circuit_add_gen E c (inr o) = Raise NotImplementedError.
Proof. exact add_gen_other_operation. Qed.
Print Assumptions generated_add_other_operation.

Theorem generated_inverse_is_model : forall (P : Type) (pfree : P -> bool) (ord : list Z -> list Z) (c : gcirc P),
  mk_guard P (gc_ops c) (gc_n c) ->
  Circuit_inverse_gen (menv P pfree ord) (inj_c P pfree ord c) = lift_c P pfree ord ValueError (inverse pfree c).
Proof. exact inverse_gen_is_model. Qed.
Print Assumptions generated_inverse_is_model.

(* in the vocabulary of the theorems above: every operation has a qubit (part of gc_wf) *)
Theorem generated_inverse_is_model_on_well_formed : forall (P : Type) (pfree : P -> bool) (ord : list Z -> list Z) (c : gcirc P),
  gc_wf c ->
  Circuit_inverse_gen (menv P pfree ord) (inj_c P pfree ord c) = lift_c P pfree ord ValueError (inverse pfree c).
Proof.
  intros P pfree ord c H. apply inverse_gen_is_model_wf.
  exact (Forall_impl _ (fun op (W : op_wf (gc_n c) op) => proj1 (proj2 W)) H).
Qed.
Print Assumptions generated_inverse_is_model_on_well_formed.

Theorem generated_controlled_is_model : forall (P : Type) (pfree : P -> bool) (ord : list Z -> list Z) (c : gcirc P) (k : nat),
  Circuit_controlled_gen (menv P pfree ord) (inj_c P pfree ord c) (Z.of_nat k)
  = lift_c P pfree ord ValueError (controlled_circuit pfree k c).
Proof. exact controlled_gen_is_model. Qed.
Print Assumptions generated_controlled_is_model.

(* apply_gate_to_qubits: [order] (the model's input) is what the environment's set order gives for the collection *)
Theorem generated_apply_with_rows_is_model : forall (P : Type) (pfree : P -> bool) (ord : list Z -> list Z) (c : gcirc P)
    (qs order : list nat) (pf : list P -> result (gate P)) (fac : list P -> gate P) (rows : list (list P)),
  ord (map Z.of_nat qs) = map Z.of_nat order -> (forall ps, pf ps = Ok (fac ps)) ->
  apply_gate_to_qubits_gen (menv P pfree ord) (inj_c P pfree ord c) (map Z.of_nat qs) (inl pf) (Some rows)
  = lift_c P pfree ord AssertionError (apply_gate_to_qubits c order fac (Some rows)).
Proof. exact apply_gen_rows_is_model. Qed.
Print Assumptions generated_apply_with_rows_is_model.

Theorem generated_apply_with_gate_is_model : forall (P : Type) (pfree : P -> bool) (ord : list Z -> list Z) (c : gcirc P)
    (qs order : list nat) (g : gate P) (fac : list P -> gate P),
  ord (map Z.of_nat qs) = map Z.of_nat order -> fac [] = g ->
  apply_gate_to_qubits_gen (menv P pfree ord) (inj_c P pfree ord c) (map Z.of_nat qs) (inr g) None
  = lift_c P pfree ord AssertionError (apply_gate_to_qubits c order fac None).
Proof. exact apply_gen_gate_is_model. Qed.
Print Assumptions generated_apply_with_gate_is_model.

(* the other argument combinations, for every environment *)
Theorem generated_apply_wrong_row_count : forall (E : pyenv) (c : Circuit_obj E) (qs : list Z)
    (fac : (pyproto E + Gate E)%type) (rows : list (list (Param E))),
  List.length rows <> List.length (set_order E qs) -> apply_gate_to_qubits_gen E c qs fac (Some rows) = Raise AssertionError.
Proof. exact apply_gen_wrong_row_count. Qed.
Print Assumptions generated_apply_wrong_row_count.

Theorem generated_apply_gate_with_rows_not_modelled : forall (E : pyenv) (c : Circuit_obj E) (qs : list Z) (g : Gate E)
    (rows : list (list (Param E))),
  List.length rows = List.length (set_order E qs) -> apply_gate_to_qubits_gen E c qs (inr g) (Some rows) = Raise NotModelled.
Proof. exact apply_gen_gate_with_rows. Qed.
Print Assumptions generated_apply_gate_with_rows_not_modelled.

Theorem generated_apply_prototype_without_rows_not_modelled : forall (E : pyenv) (c : Circuit_obj E) (qs : list Z) (pf : pyproto E),
  apply_gate_to_qubits_gen E c qs (inl pf) None = Raise NotModelled.
Proof. exact apply_gen_prototype_without_rows. Qed.
Print Assumptions generated_apply_prototype_without_rows_not_modelled.

(* create_layer_of_gates: the model iterates set(range(n)) upwards; that is the guard *)
Theorem generated_layer_with_rows_is_model : forall (P : Type) (pfree : P -> bool) (ord : list Z -> list Z) (n : nat)
    (pf : list P -> result (gate P)) (fac : list P -> gate P) (rows : list (list P)),
  ord (py_range (Z.of_nat n)) = py_range (Z.of_nat n) -> (forall ps, pf ps = Ok (fac ps)) ->
  create_layer_of_gates_gen (menv P pfree ord) (Z.of_nat n) (inl pf) (Some rows)
  = lift_c P pfree ord AssertionError (create_layer n fac (Some rows)).
Proof. exact create_layer_gen_rows_is_model. Qed.
Print Assumptions generated_layer_with_rows_is_model.

Theorem generated_layer_with_gate_is_model : forall (P : Type) (pfree : P -> bool) (ord : list Z -> list Z) (n : nat)
    (g : gate P) (fac : list P -> gate P),
  ord (py_range (Z.of_nat n)) = py_range (Z.of_nat n) -> fac [] = g ->
  create_layer_of_gates_gen (menv P pfree ord) (Z.of_nat n) (inr g) None
  = lift_c P pfree ord AssertionError (create_layer n fac None).
Proof. exact create_layer_gen_gate_is_model. Qed.
Print Assumptions generated_layer_with_gate_is_model.

Theorem generated_identity_gate_is_model : forall (P : Type) (pfree : P -> bool) (ord : list Z -> list Z),
  I_gen (menv P pfree ord) = igate.
Proof. exact I_gen_is_model. Qed.
Print Assumptions generated_identity_gate_is_model.

Theorem generated_ancilla_is_model : forall (P : Type) (pfree : P -> bool) (ord : list Z -> list Z) (c : gcirc P) (a : nat),
  add_ancilla_register_gen (menv P pfree ord) (inj_c P pfree ord c) (Z.of_nat a) = Ok (inj_c P pfree ord (add_ancilla c a)).
Proof. exact ancilla_gen_is_model. Qed.
Print Assumptions generated_ancilla_is_model.

(* the generated functions run: Circuit.controlled(1) and Circuit.inverse() of the demonstration circuit, and
   apply_gate_to_qubits on the collection [5; 1; 3; 3] with the set iterated as 1, 3, 5 *)
Example generated_controlled_runs :
  Circuit_controlled_gen (menv unit nofree (fun xs => xs)) (inj_c unit nofree (fun xs => xs) demo_circuit) 1%Z
  = Ok (mk_Circuit (menv unit nofree (fun xs => xs))
          [(Ctrl sg 1, [1; 2]%Z); (Ctrl xg 2, [1; 3; 0]%Z); (Ctrl xg 1, [1; 0]%Z)] 4%Z).
Proof. vm_compute. reflexivity. Qed.

Example generated_inverse_runs :
  Circuit_inverse_gen (menv unit nofree (fun xs => xs)) (inj_c unit nofree (fun xs => xs) demo_circuit)
  = Ok (mk_Circuit (menv unit nofree (fun xs => xs)) [(xg, [0]%Z); (Ctrl xg 1, [2; 0]%Z); (Dag sg, [1]%Z)] 3%Z).
Proof. vm_compute. reflexivity. Qed.

Example generated_apply_runs :
  apply_gate_to_qubits_gen (menv unit nofree (fun _ => [1; 3; 5]%Z))
    (mk_Circuit (menv unit nofree (fun _ => [1; 3; 5]%Z)) [(xg, [1]%Z)] 2%Z) [5; 1; 3; 3]%Z
    (inl (fun ps : list unit => Ok (Base "RX" ps 1 false))) (Some [[tt]; []; [tt; tt]])
  = Ok (mk_Circuit (menv unit nofree (fun _ => [1; 3; 5]%Z))
          [(xg, [1]%Z); (Base "RX" [tt] 1 false, [1]%Z); (Base "RX" [] 1 false, [3]%Z); (Base "RX" [tt; tt] 1 false, [5]%Z)] 6%Z).
Proof. vm_compute. reflexivity. Qed.

(* Circuit.free_symbols and Circuit.bind are translated too.  Circ/Constructions.v has no counterpart for them; what the
   generated functions compute is stated for EVERY environment ([first_seen]: each symbol at its first appearance;
   [bind_all]: operation.bind on every operation in order, the first exception wins, then the constructor with the old
   width), and for the environment [benv] of property C06's model (Circ/Bind.v) they are its circuit_free / circuit_bind. *)
Require OQ.Circ.Bind.
Require Import OQ.Circ.CircuitGenBindProofs.

Theorem generated_init_positive_width : forall (E : pyenv) (ops : list (Op E)) (n : Z),
  (0 < n)%Z -> Circuit_init_gen E (Some ops) (Some n) = Ok (mk_Circuit E ops n).
Proof. exact init_gen_positive. Qed.
Print Assumptions generated_init_positive_width.

Theorem generated_free_symbols_first_appearance : forall (E : pyenv) (c : Circuit_obj E),
  Circuit_free_symbols_gen E c = Ok (first_seen E [] (flat_map (op_free_symbols E) (Circuit__operations E c))).
Proof. exact free_symbols_gen_spec. Qed.
Print Assumptions generated_free_symbols_first_appearance.

Theorem generated_bind_binds_each_operation : forall (E : pyenv) (c : Circuit_obj E) (m : SymMap E),
  Circuit_bind_gen E c m
  = bind (bind_all E m (Circuit__operations E c)) (fun ops' => Circuit_init_gen E (Some ops') (Some (Circuit__n_qubits E c))).
Proof. exact bind_gen_spec. Qed.
Print Assumptions generated_bind_binds_each_operation.

Theorem generated_free_symbols_is_C06_model : forall c : Bind.circuit,
  Circuit_free_symbols_gen benv (binj c) = Ok (Bind.circuit_free c).
Proof. exact free_symbols_gen_is_C06_model. Qed.
Print Assumptions generated_free_symbols_is_C06_model.

Theorem generated_bind_is_C06_model : forall (c : Bind.circuit) (m : Bind.smap),
  Bind.width c <> 0 ->
  Circuit_bind_gen benv (binj c) m
  = match Bind.circuit_bind m c with Bind.Ok c' => Ok (binj c') | Bind.Err e => Raise (of_err e) end.
Proof. exact bind_gen_is_C06_model. Qed.
Print Assumptions generated_bind_is_C06_model.
