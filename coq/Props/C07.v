(* C07 - Gate modifiers (dagger, controlled, power, exp) mean what they say.
   Property theorems only; every proof is [exact <lemma>].  Model: Circ/GateAst.v (hand-written mirror of the
   method bodies of circuits/_gates.py, tied to the running code by the correspondence cases of harness/c07.py).
   sympy's Matrix.exp(), inv() and fractional ** are fields of an [oracles] record; what is assumed about
   them appears as a premise ([exp_laws], [inv_laws], [frac_laws], or a premise at one matrix) of the theorem
   that needs it.  Proofs: Circ/GateAstProofs.v, GateAstSemProofs.v, GateAstInstProofs.v. *)
Require Import Coq.Arith.Arith Coq.ZArith.ZArith Coq.Lists.List Coq.Strings.String Coq.Bool.Bool.
Require Import OQ.Base.Ring OQ.Base.Sums OQ.Base.Mat.
Require Import OQ.Circ.GateAst OQ.Circ.GateAstProofs OQ.Circ.GateAstSemProofs OQ.Circ.GateAstCases
  OQ.Circ.GateAstInstProofs.
Import ListNotations.

(* ------------------------------------------------------------------ reported qubit count and parameters *)
(* any chain of calls, any depth and order, from any gate: qubits = receiver's + sum of the control counts *)
Theorem num_qubits_chain : forall (P : Type) (pfree : P -> bool) (ms : list modifier) (g r : gate P),
  apply_chain pfree ms g = Some r ->
  num_qubits r = num_qubits g + ctrl_total ms /\ params r = params g.
Proof. exact chain_shape. Qed.
Print Assumptions num_qubits_chain.

Theorem params_chain : forall (P : Type) (pfree : P -> bool) (ms : list modifier) (g r : gate P),
  apply_chain pfree ms g = Some r -> params r = params g.
Proof. intros P pfree ms g r H. exact (proj2 (chain_shape P pfree ms g r H)). Qed.
Print Assumptions params_chain.

Example chain_premises_met :
  apply_chain (fun _ : nat => false) [MDag; MCtrl 2; MPow (ERoot 2); MCtrl 1; MDag] (Base "S" [] 1 false)
  = Some (Ctrl (Pow (Base "S" [] 1 false) (ERoot 2)) 3).
Proof. vm_compute. reflexivity. Qed.

(* calls that raise: a power or exponential of a gate with free symbols, zero controls on an uncontrolled gate *)
Theorem free_symbols_are_rejected : forall (P : Type) (pfree : P -> bool) (e : exponent) (g : gate P),
  has_free pfree g = true -> power pfree e g = None /\ gexp pfree g = None.
Proof. exact free_symbols_rejected. Qed.
Print Assumptions free_symbols_are_rejected.

Theorem zero_controls_are_rejected : forall (P : Type) (pfree : P -> bool) (g : gate P),
  nf pfree g = true -> is_ctrl g = false -> controlled pfree 0 g = None.
Proof. exact zero_controls_rejected. Qed.
Print Assumptions zero_controls_are_rejected.

(* ------------------------------------------------------------------ shape of reachable gates *)
(* every gate obtained from a base gate by method calls is in normal form: a Dagger node only directly on a
   base gate not flagged self-adjoint, controls merged into one node, powers pushed under the controls *)
Theorem reachable_normal_form : forall (P : Type) (pfree : P -> bool) (g : gate P),
  reachable P pfree g -> nf pfree g = true.
Proof. exact reachable_nf. Qed.
Print Assumptions reachable_normal_form.

Theorem normal_form_preserved : forall (P : Type) (pfree : P -> bool) (m : modifier) (g r : gate P),
  nf pfree g = true -> apply_mod pfree m g = Some r -> nf pfree r = true.
Proof. exact nf_apply_mod. Qed.
Print Assumptions normal_form_preserved.

(* on reachable gates the dagger is an involution on the structure *)
Theorem dagger_twice_is_identity : forall (P : Type) (pfree : P -> bool) (g : gate P),
  nf pfree g = true -> obind (dagger pfree g) (dagger pfree) = Some g.
Proof. exact dag_dag_nf. Qed.
Print Assumptions dagger_twice_is_identity.

(* ------------------------------------------------------------------ replace_params *)
(* replacing the parameters of a modified gate = modifying the gate built with the new parameters, for every
   constructible gate expression [wf], every modifier, and every chain (structural equality, errors included) *)
Theorem replace_params_commutes : forall (P : Type) (pfree : P -> bool) (ps : list P) (m : modifier) (g g1 : gate P),
  wf pfree g = true -> apply_mod pfree m g = Some g1 ->
  replace_params pfree ps g1 = obind (replace_params pfree ps g) (apply_mod pfree m).
Proof. exact replace_params_mod. Qed.
Print Assumptions replace_params_commutes.

Theorem replace_params_commutes_chain : forall (P : Type) (pfree : P -> bool) (ps : list P) (ms : list modifier)
  (g g1 : gate P),
  wf pfree g = true -> apply_chain pfree ms g = Some g1 ->
  replace_params pfree ps g1 = obind (replace_params pfree ps g) (apply_chain pfree ms).
Proof. exact replace_params_chain. Qed.
Print Assumptions replace_params_commutes_chain.

Theorem replace_params_reports : forall (P : Type) (pfree : P -> bool) (ps : list P) (g r : gate P),
  replace_params pfree ps g = Some r -> params r = ps /\ num_qubits r = num_qubits g.
Proof. exact replace_params_params. Qed.
Print Assumptions replace_params_reports.

Example replace_premises_met :
  wf cfree (Base "RX" [CNum (QArith_base.Qmake 1 1)] 1 false) = true /\
  apply_chain cfree [MDag; MCtrl 1; MPow (EInt 2)] (Base "RX" [CNum (QArith_base.Qmake 1 1)] 1 false)
  = Some (Ctrl (Pow (Dag (Base "RX" [CNum (QArith_base.Qmake 1 1)] 1 false)) (EInt 2)) 1) /\
  replace_params cfree [CSym "t"] (Ctrl (Pow (Dag (Base "RX" [CNum (QArith_base.Qmake 1 1)] 1 false)) (EInt 2)) 1) = None /\
  replace_params cfree [CNum (QArith_base.Qmake 2 1)] (Ctrl (Pow (Dag (Base "RX" [CNum (QArith_base.Qmake 1 1)] 1 false)) (EInt 2)) 1)
  = Some (Ctrl (Pow (Dag (Base "RX" [CNum (QArith_base.Qmake 2 1)] 1 false)) (EInt 2)) 1).
Proof. vm_compute. repeat split. Qed.

(* ------------------------------------------------------------------ block-diagonal algebra of diag(I, U) *)
Theorem diag_id_product : forall (K : cring) (a d : nat) (U V : Mat K),
  mat_eq (a + d) (mmul (a + d) (diag_id a U) (diag_id a V)) (diag_id a (mmul d U V)).
Proof. exact diag_id_mmul. Qed.
Print Assumptions diag_id_product.

Theorem diag_id_adjoint : forall (K : cring) (a : nat) (U : Mat K) (i j : nat),
  adj (diag_id a U) i j = diag_id a (adj U) i j.
Proof. exact diag_id_adj. Qed.
Print Assumptions diag_id_adjoint.

Theorem diag_id_identity : forall (K : cring) (a i j : nat), diag_id a (@eye K) i j = eye i j.
Proof. exact diag_id_eye. Qed.
Print Assumptions diag_id_identity.

Theorem diag_id_nested : forall (K : cring) (a b : nat) (U : Mat K) (i j : nat),
  diag_id a (diag_id b U) i j = diag_id (a + b) U i j.
Proof. exact diag_id_nest. Qed.
Print Assumptions diag_id_nested.

Theorem diag_id_power : forall (K : cring) (a d : nat) (U : Mat K) (n : nat),
  mat_eq (a + d) (mpow (a + d) (diag_id a U) n) (diag_id a (mpow d U n)).
Proof. exact diag_id_mpow. Qed.
Print Assumptions diag_id_power.

(* controls come first: with the target register in the low-order part of the index, the block-diagonal
   matrix is U when every control bit is 1 and the identity otherwise *)
Theorem controlled_acts_when_all_controls_set : forall (K : cring) (n k : nat) (U : Mat K) (i j : nat),
  i < 2 ^ (n + k) -> j < 2 ^ (n + k) ->
  diag_id (2 ^ (n + k) - 2 ^ n) U i j =
  if Nat.eqb (i / 2 ^ n) (2 ^ k - 1) && Nat.eqb (j / 2 ^ n) (2 ^ k - 1)
  then U (i mod 2 ^ n) (j mod 2 ^ n) else eye i j.
Proof. exact diag_id_controlled_entries. Qed.
Print Assumptions controlled_acts_when_all_controls_set.

(* ------------------------------------------------------------------ controlled *)
(* every reachable gate, every exponent kind, no assumption about sympy: matrix of g.controlled(k) is
   diag(I_{2^(n+k) - 2^n}, matrix of g), merged counts included *)
Theorem controlled_sem_reachable : forall (K : cring) (P : Type) (pfree : P -> bool) (o : oracles K P)
  (k : nat) (g g' : gate P),
  nf pfree g = true -> controlled pfree k g = Some g' ->
  mat_eq (2 ^ (num_qubits g + k)) (sem o g') (diag_id (2 ^ (num_qubits g + k) - 2 ^ num_qubits g) (sem o g)).
Proof. exact controlled_sem_nf. Qed.
Print Assumptions controlled_sem_reachable.

(* every gate expression, including directly constructed ones where Dagger.controlled / Power.controlled
   re-associate (uses the sympy laws; under a Dagger node the side condition of dagger_sem) *)
Theorem controlled_sem_all : forall (K : cring) (P : Type) (pfree : P -> bool) (o : oracles K P)
  (k : nat) (g g' : gate P),
  exp_laws o -> inv_laws o -> frac_laws o ->
  controlled pfree k g = Some g' -> ctrl_ok o g ->
  mat_eq (2 ^ (num_qubits g + k)) (sem o g') (diag_id (2 ^ (num_qubits g + k) - 2 ^ num_qubits g) (sem o g)).
Proof. exact controlled_sem. Qed.
Print Assumptions controlled_sem_all.

(* ------------------------------------------------------------------ dagger *)
Theorem dagger_sem_all : forall (K : cring) (P : Type) (pfree : P -> bool) (o : oracles K P) (g g' : gate P),
  exp_laws o -> inv_laws o ->
  dagger pfree g = Some g' -> herm_flags_sound o g -> int_powers_only g = true ->
  mat_eq (dim g) (sem o g') (adj (sem o g)).
Proof. exact dagger_sem. Qed.
Print Assumptions dagger_sem_all.

Theorem exp_dagger : forall (K : cring) (P : Type) (pfree : P -> bool) (o : oracles K P) (g e1 e2 : gate P),
  exp_laws o -> inv_laws o ->
  gexp pfree g = Some e1 -> dagger pfree e1 = Some e2 -> herm_flags_sound o g -> int_powers_only g = true ->
  (exists dg, dagger pfree g = Some dg /\ e2 = Exp dg) /\
  mat_eq (dim g) (sem o e2) (adj (o_exp o (dim g) (sem o g))).
Proof. exact exp_dagger_sem. Qed.
Print Assumptions exp_dagger.

(* exp.  Full statement wanted: "the matrix of g.exp is the matrix exponential sum_n M^n / n! of the matrix of g".
   The series (a limit) is not formalised over the abstract ring; proved: the matrix is sympy's Matrix.exp() of the
   wrapped matrix, with qubits and parameters unchanged.  That Matrix.exp() is the exponential is checked on the
   implementation by the scipy.linalg.expm oracle only. *)
Theorem exp_matrix_partial : forall (K : cring) (P : Type) (pfree : P -> bool) (o : oracles K P) (g g' : gate P),
  gexp pfree g = Some g' ->
  sem o g' = o_exp o (dim g) (sem o g) /\ num_qubits g' = num_qubits g /\ params g' = params g.
Proof. exact exp_sem. Qed.
Print Assumptions exp_matrix_partial.

(* Power.dagger = wrapped.dagger.power(e) is NOT the adjoint for fractional e (finding F8): with sympy's value
   diag(1, i) for Z ** 0.5 - a genuine square root - the matrix of Z.power(0.5).dagger is not the adjoint of the
   matrix of Z.power(0.5).  [dagger_sem_all] therefore cannot drop [int_powers_only]. *)
Theorem power_dagger_refuted : forall (P : Type) (pfree : P -> bool) (o : oracles GQring P),
  mat_eq 2 (o_factory o "Z" []) zmat ->
  mat_eq 2 (o_root o 2 2 (o_factory o "Z" [])) sqrt_zmat ->
  exists g1 g2 : gate P,
    power pfree (ERoot 2) zgate = Some g1 /\ dagger pfree g1 = Some g2 /\
    herm_flags_sound o g1 /\
    mat_eq (dim g1) (mpow (dim g1) (sem o g1) 2) (sem o zgate) /\
    ~ mat_eq (dim g1) (sem o g2) (adj (sem o g1)).
Proof. exact power_dagger_refuted_gen. Qed.
Print Assumptions power_dagger_refuted.

Example power_dagger_refuted_premises_met :
  mat_eq 2 (o_factory f8_oracles "Z" []) zmat /\
  mat_eq 2 (o_root f8_oracles 2 2 (o_factory f8_oracles "Z" [])) sqrt_zmat.
Proof. exact f8_oracles_premises. Qed.

(* ------------------------------------------------------------------ power *)
(* non-negative integer: the repeated product, also through ControlledGate.power (no assumption about sympy) *)
Theorem power_int_nonneg : forall (K : cring) (P : Type) (pfree : P -> bool) (o : oracles K P) (z : Z) (g g' : gate P),
  (0 <= z)%Z -> power pfree (EInt z) g = Some g' ->
  mat_eq (dim g) (sem o g') (mpow (dim g) (sem o g) (Z.to_nat z)).
Proof. exact power_nonneg_sem. Qed.
Print Assumptions power_int_nonneg.

(* negative integer: result times the |z|-th power of the original is the identity, provided sympy's inv()
   returned a left inverse of the matrix under the controls *)
Theorem power_int_negative : forall (K : cring) (P : Type) (pfree : P -> bool) (o : oracles K P) (z : Z) (g g' : gate P),
  (z < 0)%Z -> power pfree (EInt z) g = Some g' ->
  (let s := strip_ctrl g in mat_eq (dim s) (mmul (dim s) (o_inv o (dim s) (sem o s)) (sem o s)) eye) ->
  mat_eq (dim g) (mmul (dim g) (sem o g') (mpow (dim g) (sem o g) (Z.to_nat (- z)))) eye.
Proof. exact power_neg_sem. Qed.
Print Assumptions power_int_negative.

(* unit fraction 1/q: the q-th power of the result is the original, provided sympy's M ** (1/q) returned a
   q-th root of the matrix under the controls *)
Theorem power_root : forall (K : cring) (P : Type) (pfree : P -> bool) (o : oracles K P) (q : positive) (g g' : gate P),
  power pfree (ERoot q) g = Some g' ->
  (let s := strip_ctrl g in mat_eq (dim s) (mpow (dim s) (o_root o q (dim s) (sem o s)) (Pos.to_nat q)) (sem o s)) ->
  mat_eq (dim g) (mpow (dim g) (sem o g') (Pos.to_nat q)) (sem o g).
Proof. exact power_root_sem. Qed.
Print Assumptions power_root.

(* any exponent: the matrix of g.power(e) is (matrix of g) ** e although ControlledGate.power pushes inside *)
Theorem power_sem_all : forall (K : cring) (P : Type) (pfree : P -> bool) (o : oracles K P) (e : exponent) (g g' : gate P),
  inv_laws o -> frac_laws o -> power pfree e g = Some g' ->
  mat_eq (dim g) (sem o g') (mpowz o (dim g) (sem o g) e).
Proof. exact power_sem. Qed.
Print Assumptions power_sem_all.

(* the law records and the premises above are satisfiable together (toy instance: exp M = I + M, inv M = M on
   the involution X, roots M on idempotents) *)
Example laws_satisfiable : exp_laws toy_oracles /\ inv_laws toy_oracles /\ frac_laws toy_oracles.
Proof. exact (conj toy_exp_laws (conj toy_inv_laws toy_frac_laws)). Qed.

Example power_int_negative_premises_met :
  let s : gate unit := strip_ctrl (Ctrl (Base "X" [] 1 true) 1) in
  mat_eq (dim s) (mmul (dim s) (o_inv toy_oracles (dim s) (sem toy_oracles s)) (sem toy_oracles s)) eye.
Proof. exact toy_inv_premise. Qed.

(* ------------------------------------------------------------------ evaluation used by the correspondence cases *)
Theorem case_evaluation_is_sem : forall (o : oracles GQring cparam) (g : gate cparam),
  oracle_free g = true -> mat_eq (dim g) (sem_memo o g) (sem o g).
Proof. exact sem_memo_eq. Qed.
Print Assumptions case_evaluation_is_sem.

(* ======================================================================================================================
   The model is the code.  The gate classes of circuits/_gates.py (Gate, MatrixFactoryGate, ControlledGate, Dagger,
   Exponential, Power, GateOperation, CustomGateDefinition.__call__) are TRANSLATED from their source on every run by
   tr/tr_gates.py into Gen/GateModsGen.v: one inductive type [pygate W] with a constructor per dataclass, one definition
   [Gate_<m>_gen] per method / property (dynamic dispatch = the match on the constructor, each branch the expression-by-
   expression translation of the class's method body), [<C>_new] = constructor call + __post_init__.  The meaning of the
   emitted building blocks is Circ/GatesTrSupport.v.  The theorems below (proofs: Circ/GatesGenProofs.v) state that the
   generated definitions compute exactly what the model functions of Circ/GateAst.v compute - the functions all theorems
   above are about.  [R : reading K P] says how the model reads what the code leaves open (has-free-symbols predicate,
   str of a float, the matrix oracles, sub_symbols, get_free_symbols); [reading_ok R]: get_free_symbols returns a
   non-empty collection exactly when some parameter has free symbols.  [emb R g]: the Python object a model gate stands
   for (counts as Python ints; a sympy matrix is (dimension, entries)); [res R x]: the model's option as a result,
   None = ValueError. *)
Require Import OQ.Circ.GatesTrSupport OQ.Gen.GateModsGen OQ.Circ.GatesGenProofs.

(* ---- what a gate reports *)
Theorem generated_params_is_model : forall (K : cring) (P : Type) (R : reading K P) (g : gate P),
  Gate_params_gen (emb R g) = params g.
Proof. exact params_gen_is_model. Qed.
Print Assumptions generated_params_is_model.

Theorem generated_num_qubits_is_model : forall (K : cring) (P : Type) (R : reading K P) (g : gate P),
  Gate_num_qubits_gen (emb R g) = Z.of_nat (num_qubits g).
Proof. exact num_qubits_gen_is_model. Qed.
Print Assumptions generated_num_qubits_is_model.

Theorem generated_name_is_model : forall (K : cring) (P : Type) (R : reading K P) (g : gate P),
  Gate_name_gen (emb R g) = name (rd_root_str R) g.
Proof. exact name_gen_is_model. Qed.
Print Assumptions generated_name_is_model.

(* len(g.free_symbols) > 0 - the test of Exponential / Power.__post_init__ - is the model's has_free *)
Theorem generated_free_symbols_is_model : forall (K : cring) (P : Type) (R : reading K P), reading_ok R ->
  forall g : gate P, (0 <? py_len (Gate_free_symbols_gen (emb R g)))%Z = has_free (rd_pfree R) g.
Proof. exact free_symbols_gen_is_model. Qed.
Print Assumptions generated_free_symbols_is_model.

(* ---- constructor calls: dataclass __init__ followed by __post_init__ = the model's checked constructors *)
Theorem generated_constructors_are_model : forall (K : cring) (P : Type) (R : reading K P), reading_ok R ->
  forall (g : gate P) (k : nat) (e : exponent),
  ControlledGate_new (emb R g) (Z.of_nat k) = res R (mk_ctrl g k) /\
  Exponential_new (emb R g) = res R (mk_exp (rd_pfree R) g) /\
  @Power_new (model_world R) (emb R g) e = res R (mk_pow (rd_pfree R) g e).
Proof.
  intros K P R H g k e.
  exact (conj (ControlledGate_new_is_model K P R g k)
              (conj (Exponential_new_is_model K P R H g) (Power_new_is_model K P R H g e))).
Qed.
Print Assumptions generated_constructors_are_model.

(* ---- the modifiers *)
Theorem generated_exp_is_model : forall (K : cring) (P : Type) (R : reading K P), reading_ok R ->
  forall g : gate P, Gate_exp_gen (emb R g) = res R (gexp (rd_pfree R) g).
Proof. exact exp_gen_is_model. Qed.
Print Assumptions generated_exp_is_model.

Theorem generated_power_is_model : forall (K : cring) (P : Type) (R : reading K P), reading_ok R ->
  forall (g : gate P) (e : exponent), @Gate_power_gen (model_world R) (emb R g) e = res R (power (rd_pfree R) e g).
Proof. exact power_gen_is_model. Qed.
Print Assumptions generated_power_is_model.

Theorem generated_dagger_is_model : forall (K : cring) (P : Type) (R : reading K P), reading_ok R ->
  forall g : gate P, Gate_dagger_gen (emb R g) = res R (dagger (rd_pfree R) g).
Proof. exact dagger_gen_is_model. Qed.
Print Assumptions generated_dagger_is_model.

Theorem generated_controlled_is_model : forall (K : cring) (P : Type) (R : reading K P), reading_ok R ->
  forall (g : gate P) (k : nat), Gate_controlled_gen (emb R g) (Z.of_nat k) = res R (controlled (rd_pfree R) k g).
Proof. exact controlled_gen_is_model. Qed.
Print Assumptions generated_controlled_is_model.

(* the code takes any Python int, the model natural numbers: [controlledZ] (Circ/GatesGenProofs.v) describes the generated
   method on every int, and agrees with the model's [controlled] on the naturals; for a negative count a ControlledGate
   loses controls (no exception while one is left) - outside the property's quantifier "control counts >= 1" *)
Theorem generated_controlled_on_any_int : forall (K : cring) (P : Type) (R : reading K P), reading_ok R ->
  forall (g : gate P) (z : Z),
  Gate_controlled_gen (emb R g) z = res R (controlledZ R z g) /\
  (forall k : nat, controlledZ R (Z.of_nat k) g = controlled (rd_pfree R) k g).
Proof. intros K P R H g z. exact (conj (controlled_gen_any_int K P R H g z) (controlledZ_nat K P R g)). Qed.
Print Assumptions generated_controlled_on_any_int.

Theorem generated_controlled_negative_count_merges : forall (K : cring) (P : Type) (R : reading K P), reading_ok R ->
  forall (w : gate P) (k0 : nat) (z : Z), (1 <= Z.of_nat k0 + z)%Z ->
  Gate_controlled_gen (emb R (Ctrl w k0)) z = Ok (emb R (Ctrl w (Z.to_nat (Z.of_nat k0 + z)))).
Proof. exact controlled_gen_negative_merges. Qed.
Print Assumptions generated_controlled_negative_count_merges.

Theorem generated_replace_params_is_model : forall (K : cring) (P : Type) (R : reading K P), reading_ok R ->
  forall (g : gate P) (ps : list P),
  @Gate_replace_params_gen (model_world R) (emb R g) ps = res R (replace_params (rd_pfree R) ps g).
Proof. exact replace_params_gen_is_model. Qed.
Print Assumptions generated_replace_params_is_model.

(* ---- the matrix property: sympy's adjoint / exp / ** / diag(eye(n), .) read as the model's oracles *)
Theorem generated_matrix_is_model : forall (K : cring) (P : Type) (R : reading K P) (g : gate P),
  Gate_matrix_gen (emb R g) = Ok (dim g, sem (rd_oracles R) g).
Proof. exact matrix_gen_is_model. Qed.
Print Assumptions generated_matrix_is_model.

(* ---- bind (GateAst.v has no bind): replace_params with the substituted parameters; NotImplementedError as soon as a
   Power / Exponential node is met on the way down *)
Theorem generated_bind_is_replace_params : forall (K : cring) (P : Type) (R : reading K P), reading_ok R ->
  forall (g : gate P) (m : rd_symmap R),
  @Gate_bind_gen (model_world R) (emb R g) m =
  if bindable g then res R (replace_params (rd_pfree R) (map (fun p => rd_sub R p m) (params g)) g)
  else Raise E_NotImplementedError.
Proof. exact bind_gen_spec. Qed.
Print Assumptions generated_bind_is_replace_params.

(* ---- Gate.__call__ and GateOperation: the gate methods with qubit_indices kept *)
Theorem generated_gate_operation_is_model : forall (K : cring) (P : Type) (R : reading K P), reading_ok R ->
  forall (g : gate P) (idx : list Z) (ps : list P) (m : rd_symmap R),
  Gate_call_gen (emb R g) idx = GateOperation (emb R g) idx /\
  GateOperation_params_gen (GateOperation (emb R g) idx) = params g /\
  @GateOperation_replace_params_gen (model_world R) (GateOperation (emb R g) idx) ps =
    match replace_params (rd_pfree R) ps g with
    | Some r => Ok (GateOperation (emb R r) idx)
    | None => Raise E_ValueError
    end /\
  @GateOperation_bind_gen (model_world R) (GateOperation (emb R g) idx) m =
    bind (gbind R m g) (fun r => Ok (GateOperation r idx)).
Proof.
  intros K P R H g idx ps m.
  exact (conj (call_gen_spec K P R g idx)
        (conj (proj1 (gateop_params_spec K P R g idx))
        (conj (gateop_replace_params_spec K P R H g idx ps) (gateop_bind_spec K P R H g idx m)))).
Qed.
Print Assumptions generated_gate_operation_is_model.

(* ---- CustomGateDefinition.__call__: a custom gate is the model's Base gate, never flagged hermitian *)
Theorem generated_custom_gate_is_base : forall (K : cring) (P : Type) (R : reading K P)
  (n : string) (M : nat * Mat K) (so : list (rd_symbol R)) (q : nat) (ps : list P),
  @CustomGateDefinition_call_gen (model_world R) (custom_factory R)
    (@CustomGateDefinition (model_world R) n M so (Z.of_nat q)) ps =
  emb R (Base n ps q false).
Proof. exact custom_call_gen_is_model. Qed.
Print Assumptions generated_custom_gate_is_base.

(* ---- the generated code runs: Dagger(Power(S, 0.5)).controlled(2) re-associates, RZ(theta).power(2) raises, a negative
   count removes controls, and the premise [reading_ok] is satisfiable *)
Definition gen_example_reading : reading GQring cparam :=
  mk_reading cfree root_str (case_oracles []) (list (string * cparam)) (fun p _ => p) cparam (filter cfree).

Example generated_reading_ok : reading_ok gen_example_reading.
Proof. exact (filter_reading_ok cfree). Qed.

Example generated_methods_run :
  shown gen_example_reading (Gate_controlled_gen (emb gen_example_reading (Dag (Pow (Base "S" [] 1 false) (ERoot 2)))) 2)
  = inl (Ctrl (Pow (Dag (Base "S" [] 1 false)) (ERoot 2)) 2) /\
  Gate_name_gen (emb gen_example_reading (Ctrl (Pow (Dag (Base "S" [] 1 false)) (ERoot 2)) 2)) = "Control"%string /\
  Gate_name_gen (emb gen_example_reading (Pow (Dag (Base "S" [] 1 false)) (ERoot 2))) = "S_Dagger^0.5"%string /\
  shown gen_example_reading
    (@Gate_power_gen (model_world gen_example_reading) (emb gen_example_reading (Base "RZ" [CSym "theta"] 1 false)) (EInt 2))
  = inr E_ValueError /\
  shown gen_example_reading (Gate_controlled_gen (emb gen_example_reading (Ctrl (Base "X" [] 1 true) 3)) (-1))
  = inl (Ctrl (Base "X" [] 1 true) 2) /\
  shown gen_example_reading
    (@Gate_bind_gen (model_world gen_example_reading) (emb gen_example_reading (Exp (Base "X" [] 1 true))) [])
  = inr E_NotImplementedError.
Proof. vm_compute. repeat split. Qed.
