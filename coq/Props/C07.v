(* C07 - Gate modifiers (dagger, controlled, power, exp) mean what they say.  (work in progress) *)
Require Import Coq.Arith.Arith Coq.Lists.List Coq.Strings.String.
Require Import OQ.Circ.GateAst.
Import ListNotations.

Theorem placeholder_exp_wraps : forall (P : Type) (pfree : P -> bool) (g g' : gate P),
  gexp pfree g = Some g' -> g' = Exp g.
Proof. intros P pfree g g'. unfold gexp, mk_exp. destruct (has_free pfree g); congruence. Qed.
Print Assumptions placeholder_exp_wraps.
