(* C19 - Translating symbolic expressions preserves their value.
   Property theorems only; every proof is [exact <lemma>].
   Models: Serde/SymTranslate.v (expression_from_sympy, translate_expression, SYMPY_DIALECT),
   Serde/NatKey.v (natural_key, natural_key_revlex); both are compared with the running code on every check. *)
Require Import Coq.ZArith.ZArith Coq.QArith.QArith Coq.NArith.NArith Coq.Lists.List Coq.Strings.String.
Require Import OQ.Serde.SymTranslate OQ.Serde.SymTranslateProofs OQ.Serde.NatKey OQ.Serde.NatKeyProofs.
Import ListNotations.
Open Scope string_scope.

(* Round trip.  For EVERY tree over the supported grammar (any depth, any argument lists and orders - a
   superset of sympy's canonical forms), in every structure O satisfying the laws [Laws O] (sympy's own
   definitions of -, / and sqrt and the monoid laws of + and * ), for every rounding function rnd:
   the converter succeeds, and translating its result with the sympy dialect yields, for every assignment
   env of the symbols, exactly the value of the original.
   Hypotheses: [neg_ok] - what is trusted about sympy's expr*(-1) used by the subtraction special case;
   [rationals_exact] - Rational constants are exactly doubles (float(Rational) rounds otherwise). *)
Theorem roundtrip_value : forall (O : Ops), Laws O -> forall (rnd : Q -> Q) (e : sexpr),
  supported e = true -> neg_ok O e -> rationals_exact rnd e ->
  exists t, from_sympy rnd e = Ok t /\
            forall env : string -> V O, translate_sympy O env t = Ok (ev O env e).
Proof. exact roundtrip_value_proved. Qed.
Print Assumptions roundtrip_value.

(* the hypotheses are satisfiable: exact rationals, x - y as sympy stores it *)
Example laws_satisfiable : Laws QcOps.
Proof. exact QcLaws. Qed.
Example roundtrip_premises_met :
  supported example_sub = true /\ neg_ok QcOps example_sub /\ rationals_exact round53 example_sub /\
  from_sympy round53 example_sub = Ok (NCall "sub" [NSym "x"; NSym "y"]).
Proof. split; [reflexivity|]. split; [exact example_sub_neg_ok|]. split; [cbn; tauto|reflexivity]. Qed.
(* special cases as the converter takes them *)
Example special_cases :
  from_sympy round53 (SMul [SSym "x"; SPow (SSym "y") (SInt (-1))] None) = Ok (NCall "div" [NSym "x"; NSym "y"]) /\
  from_sympy round53 (SMul [SPow (SSym "y") (SInt (-1)); SSym "x"] None)
    = Ok (NCall "mul" [NCall "div" [NNum (NInt 1); NSym "y"]; NSym "x"]) /\
  from_sympy round53 (SPow (SSym "x") (SRat 1 2)) = Ok (NCall "sqrt" [NSym "x"]) /\
  from_sympy round53 (SPow (SSym "x") (SFloat (-1))) = Ok (NCall "div" [NNum (NInt 1); NSym "x"]) /\
  from_sympy round53 (SAdd [SMul [SInt (-1); SSym "y"] None; SSym "x"])
    = Ok (NCall "add" [NCall "mul" [NNum (NInt (-1)); NSym "y"]; NSym "x"]).
Proof. repeat split; reflexivity. Qed.
(* a Rational that is not a double is converted to the nearest double: the round trip is then only approximate *)
Example inexact_rational :
  from_sympy round53 (SRat 1 3) = Ok (NNum (NFloat (6004799503160661 # 18014398509481984))) /\
  ~ (round53 (1 # 3) == 1 # 3)%Q.
Proof. split; [reflexivity|]. vm_compute. discriminate. Qed.

(* Refusal.  A tree containing a node type without a dispatch entry, or a function whose name is not in the
   dialect table, is refused: the converter raises, or the translation of its result raises for every assignment. *)
Theorem unsupported_refused : forall (O : Ops) (rnd : Q -> Q) (e : sexpr),
  unsupported_inside e = true -> neg_keeps e ->
  (exists x, from_sympy rnd e = Err x) \/
  (exists t, from_sympy rnd e = Ok t /\ forall env : string -> V O, exists x, translate_sympy O env t = Err x).
Proof. exact unsupported_refused_proved. Qed.
Print Assumptions unsupported_refused.

Example refusal_premises_met :
  unsupported_inside (SAdd [SSym "x"; SFunc "log" [SSym "y"]]) = true /\
  neg_keeps (SAdd [SSym "x"; SFunc "log" [SSym "y"]]) /\
  from_sympy round53 (SAdd [SSym "x"; SOther "Pi" []]) = Err ENotImpl.
Proof. split; [reflexivity|]. split; [cbn; tauto|reflexivity]. Qed.

(* The refusal clause does NOT extend to functions outside the grammar whose name happens to be an entry of
   the dialect table: an applied undefined function called "cos" is translated to the cosine (finding F30). *)
Theorem unsupported_refused_name_collision_refuted :
  exists e, supported e = false /\
    exists t, from_sympy round53 e = Ok t /\
      forall (O : Ops) (env : string -> V O), translate_sympy O env t = Ok (fnv O "cos" [env "x"]).
Proof. exact name_collision_translated. Qed.
Print Assumptions unsupported_refused_name_collision_refuted.

(* Natural keys.  Names that differ only in a final digit group are ordered by the numbers the groups
   denote (any prefix not ending in a digit, including prefixes with digit groups inside; leading zeros allowed). *)
Theorem natural_key_numeric : forall (p : string) (a b : N),
  ends_with_digit p = false -> (a < b)%N ->
  key_cmp (natural_key (p ++ dec a)) (natural_key (p ++ dec b)) = Some Lt.
Proof. exact natural_key_numeric_proved. Qed.
Print Assumptions natural_key_numeric.

Theorem natural_key_numeric_any_digits : forall (p da db : string),
  ends_with_digit p = false -> isdigit da = true -> isdigit db = true -> (to_int da < to_int db)%N ->
  key_cmp (natural_key (p ++ da)) (natural_key (p ++ db)) = Some Lt.
Proof. exact natural_key_numeric_digits. Qed.
Print Assumptions natural_key_numeric_any_digits.

Example beta_2_before_beta_10 :
  key_cmp (natural_key "beta_2") (natural_key "beta_10") = Some Lt /\ "beta_2" = "beta_" ++ dec 2 /\
  String.compare "beta_2" "beta_10" = Gt.
Proof. repeat split; reflexivity. Qed.

(* comparing two keys never compares an int with a str (no TypeError), for all names *)
Theorem natural_key_comparable : forall s t : string, key_cmp (natural_key s) (natural_key t) <> None.
Proof. exact natural_key_comparable_proved. Qed.
Print Assumptions natural_key_comparable.

Theorem natural_key_revlex_comparable : forall s t : string,
  key_cmp (natural_key_revlex s) (natural_key_revlex t) <> None.
Proof. exact natural_key_revlex_comparable_proved. Qed.
Print Assumptions natural_key_revlex_comparable.

(* reversed keys: the final number decides first, then the name *)
Theorem revlex_number_first : forall (p q : string) (a b : N),
  no_digits p = true -> no_digits q = true -> (a < b)%N ->
  key_cmp (natural_key_revlex (p ++ dec a)) (natural_key_revlex (q ++ dec b)) = Some Lt.
Proof. exact revlex_number_first_proved. Qed.
Print Assumptions revlex_number_first.

Theorem revlex_then_name : forall (p q : string) (a : N),
  no_digits p = true -> no_digits q = true ->
  key_cmp (natural_key_revlex (p ++ dec a)) (natural_key_revlex (q ++ dec a)) = Some (String.compare p q).
Proof. exact revlex_then_name_proved. Qed.
Print Assumptions revlex_then_name.

Example revlex_example :
  sort_by natural_key_revlex ["theta_2"; "beta_2"; "theta_1"; "beta_1"] = ["beta_1"; "theta_1"; "beta_2"; "theta_2"].
Proof. reflexivity. Qed.

(* ------------------------------------------------------------------------------------------------------------
   Generated code.  tr/tr_symbolic.py translates, on every run, the Python source of _sorting.py, translations.py,
   sympy_expressions.py and the classes / reduction of expressions.py construct by construct into Gen/SymbolicGen.v
   (meaning of the Python building blocks: Serde/SymbolicTrSupport.v).  The theorems below state that the generated
   definitions ARE the model functions the theorems above are about, for all inputs, so that those theorems are
   statements about the code as translated and not only about a hand-written model. *)
Require Coq.QArith.Qcanon.
Require Import OQ.Serde.SymbolicTrSupport OQ.Gen.SymbolicGen OQ.Serde.SymbolicGenProofs.

(* re.split(r"(\d+)", s), _convert_string_to_int_if_possible, natural_key, natural_key_revlex *)
Theorem generated_re_split_is_model : forall s : string, py_re_split_digit_runs s = split_digits s.
Proof. exact re_split_is_model. Qed.
Print Assumptions generated_re_split_is_model.

Theorem generated_convert_is_model : forall text : string,
  convert_string_to_int_if_possible_gen text = Ok (conv text).
Proof. exact convert_gen_is_model. Qed.
Print Assumptions generated_convert_is_model.

Theorem generated_natural_key_is_model : forall symbol : py_named,
  natural_key_gen symbol = Ok (natural_key (attr_name symbol)).
Proof. exact natural_key_gen_is_model. Qed.
Print Assumptions generated_natural_key_is_model.

Theorem generated_natural_key_revlex_is_model : forall symbol : py_named,
  natural_key_revlex_gen symbol = Ok (natural_key_revlex (attr_name symbol)).
Proof. exact natural_key_revlex_gen_is_model. Qed.
Print Assumptions generated_natural_key_revlex_is_model.

(* expression_from_sympy: the singledispatch over the ten registered implementations, with the reciprocal / negation /
   sqrt special cases and every exception, on every observed sympy tree and every rounding function *)
Theorem generated_expression_from_sympy_is_model : forall (rnd : Q -> Q) (e : sexpr),
  expression_from_sympy_gen rnd e = from_sympy rnd e.
Proof. exact expression_from_sympy_gen_is_model. Qed.
Print Assumptions generated_expression_from_sympy_is_model.

(* translate_expression / translate_tuple for every dialect object and every tree *)
Theorem generated_translate_expression_is_model : forall (T : Type) (d : ExpressionDialect_obj T) (t : nexpr),
  translate_expression_gen t d =
  translate (fun s => ExpressionDialect_symbol_factory d (Symbol_new s)) (ExpressionDialect_number_factory d)
            (ExpressionDialect_known_functions d) t.
Proof. exact (@translate_expression_gen_is_model). Qed.
Print Assumptions generated_translate_expression_is_model.

(* SYMPY_DIALECT (with reduction from expressions.py): its table is the model's, entry by entry, and translating
   with it is translate_sympy *)
Theorem generated_sympy_dialect_table_is_model : forall (O : Ops) (env : string -> V O) (name : string),
  ExpressionDialect_known_functions (SYMPY_DIALECT_gen O env) name = sympy_known O name.
Proof. exact sympy_dialect_gen_known. Qed.
Print Assumptions generated_sympy_dialect_table_is_model.

Theorem generated_translate_sympy_is_model : forall (O : Ops) (env : string -> V O) (t : nexpr),
  translate_expression_gen t (SYMPY_DIALECT_gen O env) = translate_sympy O env t.
Proof. exact translate_with_sympy_dialect_gen_is_model. Qed.
Print Assumptions generated_translate_sympy_is_model.

(* the two clauses of the property, restated about the generated definitions only *)
Theorem generated_roundtrip_value : forall (O : Ops), Laws O -> forall (rnd : Q -> Q) (e : sexpr),
  supported e = true -> neg_ok O e -> rationals_exact rnd e ->
  exists t, expression_from_sympy_gen rnd e = Ok t /\
            forall env : string -> V O, translate_expression_gen t (SYMPY_DIALECT_gen O env) = Ok (ev O env e).
Proof. exact generated_roundtrip. Qed.
Print Assumptions generated_roundtrip_value.

Theorem generated_unsupported_refused : forall (O : Ops) (rnd : Q -> Q) (e : sexpr),
  unsupported_inside e = true -> neg_keeps e ->
  (exists x, expression_from_sympy_gen rnd e = Err x) \/
  (exists t, expression_from_sympy_gen rnd e = Ok t /\
             forall env : string -> V O, exists x, translate_expression_gen t (SYMPY_DIALECT_gen O env) = Err x).
Proof. exact generated_refusal. Qed.
Print Assumptions generated_unsupported_refused.

(* the generated functions run: x - 2*y as sympy stores it, converted and translated back over exact rationals;
   natural keys of a name with two digit groups *)
Example generated_functions_run :
  expression_from_sympy_gen round53
    (SAdd [SSym "x"; SMul [SInt (-1); SInt 2; SSym "y"] (Some (SMul [SInt 2; SSym "y"] None))])
  = Ok (NCall "sub" [NSym "x"; NCall "mul" [NNum (NInt 2); NSym "y"]]) /\
  match translate_expression_gen (NCall "sub" [NSym "x"; NCall "mul" [NNum (NInt 2); NSym "y"]])
          (SYMPY_DIALECT_gen QcOps (fun s => if String.eqb s "x" then Qcanon.Q2Qc 5 else Qcanon.Q2Qc (1 # 2)))
  with Ok v => Qeq_bool (Qcanon.this v) 4 | Err _ => false end = true /\
  natural_key_gen (Named "beta_10x007") = Ok [KS "beta_"; KI 10; KS "x"; KI 7; KS ""] /\
  expression_from_sympy_gen round53 (SAdd [SSym "x"; SOther "Pi" []]) = Err ENotImpl.
Proof. vm_compute. repeat split; reflexivity. Qed.
