(* C03 - Pauli operator arithmetic is faithful to matrix arithmetic.
   Property theorems only; every proof is [exact <lemma>].

   Reading guide.  [K] is any commutative ring with conjugation and an imaginary unit (Base/Ring.v).
   [oden n a] is the 2^n x 2^n matrix an operand denotes (Pauli/Den.v): a term is its coefficient times the
   tensor product of its 2x2 letters, qubit 0 leftmost; a sum is the sum of its terms; a plain number c is
   c * I.  [py_add], [py_sub], [py_mul], [py_div], [py_pow], [py_simplify], [py_eq] (Pauli/Algebra.v) mirror
   the operators of PauliTerm / PauliSum on every mix of operand kinds, [None] = the operator raises.
   [operand_ok n a]: qubit indices < n, each term's dictionary sorted by qubit (the representation
   invariant of the model).  [is_zero], [keqb], [kinv] stand for np.isclose(c, 0), np.allclose(a, b) and
   1.0 / c; the exact theorems assume that they are exact, as they are on the dyadic coefficients of the
   correspondence check (examples at the end).  The tables OPERATOR_MAP / COEFF_MAP are regenerated from
   operators/_pauli_operators.py on every run (Gen/PauliTablesGen.v). *)
Require Import Coq.ZArith.ZArith Coq.Lists.List Coq.Strings.String Coq.Sorting.Permutation Coq.micromega.Lia.
Require Import OQ.Base.Ring OQ.Base.Sums OQ.Base.Bits OQ.Base.Mat OQ.Gen.PauliTablesGen OQ.Pauli.Algebra
  OQ.Pauli.Den OQ.Pauli.TablesProofs OQ.Pauli.DenProofs OQ.Pauli.SumProofs OQ.Pauli.OpsProofs
  OQ.Pauli.EqCompleteProofs OQ.Pauli.AlgebraCases.
Import ListNotations.

(* ---- the tables in the source are the multiplication table of the 2x2 Pauli matrices --------------- *)
Theorem tables_match_matrices : forall (K : cring) (a b : letter),
  (a <> b -> mat_eq 2 (mmul 2 (smat (Some a)) (smat (Some b)))
                      (mscale (coeff_tab K a b) (smat (Some (op_tab a b))))) /\
  mat_eq 2 (mmul 2 (smat (Some a)) (smat (Some a))) (@smat K None).
Proof. intros K a b. split; [apply tables_distinct|apply tables_square]. Qed.
Print Assumptions tables_match_matrices.

(* _multiply_by_operator never raises KeyError: both tables have every ordered pair of distinct letters *)
Theorem tables_have_every_pair : forall (K : cring) (a b : letter), a <> b ->
  exists l c, op_lookup a b = Some l /\ coeff_lookup K a b = Some c.
Proof. exact tables_total. Qed.
Print Assumptions tables_have_every_pair.

(* ---- the denotation is the Kronecker chain sigma_{t 0} (x) sigma_{t 1} (x) ... (x) sigma_{t (n-1)} ----- *)
Theorem den_is_kronecker_chain : forall (K : cring) (n : nat) (l : ops),
  mat_eq (2 ^ n) (@pprod K n l) (dmat (dense n l)).
Proof. exact pprod_dmat. Qed.
Print Assumptions den_is_kronecker_chain.

(* ---- PauliTerm * PauliTerm, every width, every pair of strings ------------------------------------- *)
Theorem term_product_faithful : forall (K : cring) (n : nat) (t1 t2 : term K),
  NoDup (keys (tops t2)) -> term_fits n t2 ->
  mat_eq (2 ^ n) (den n (term_mul t1 t2)) (mmul (2 ^ n) (den n t1) (den n t2)).
Proof. exact term_mul_den. Qed.
Print Assumptions term_product_faithful.

(* ---- simplify: the matrix changes exactly by the dropped terms, whose coefficients test as zero ---- *)
Theorem simplify_changes_by_dropped_terms : forall (K : cring) (is_zero : K -> bool) (n : nat) (s : psum K),
  (forall i j, sden n s i j = cadd (sden n (simplify is_zero s) i j) (sden n (dropped is_zero s) i j)) /\
  Forall (fun t => is_zero (coef t) = true) (dropped is_zero s).
Proof. intros K z n s. split; [intros i j; apply simplify_den|apply dropped_zero]. Qed.
Print Assumptions simplify_changes_by_dropped_terms.

Theorem simplify_never_changes_matrix : forall (K : cring) (is_zero : K -> bool),
  (forall c, is_zero c = true -> c = c0) ->
  forall (n : nat) (a r : operand K), py_simplify is_zero a = Some r -> mat_eq (2 ^ n) (oden n r) (oden n a).
Proof. exact py_simplify_den. Qed.
Print Assumptions simplify_never_changes_matrix.

(* the result of simplify is simplified (distinct operator sets, no zero-testing coefficient) and is a fixed point *)
Theorem simplify_result_simplified : forall (K : cring) (is_zero : K -> bool) (s : psum K),
  distinct_ops (simplify is_zero s) /\ Forall (fun t => is_zero (coef t) = false) (simplify is_zero s).
Proof. exact simplify_simplified. Qed.
Print Assumptions simplify_result_simplified.

Theorem simplify_is_idempotent : forall (K : cring) (is_zero : K -> bool) (s : psum K),
  simplify is_zero (simplify is_zero s) = simplify is_zero s.
Proof. exact simplify_idempotent. Qed.
Print Assumptions simplify_is_idempotent.

(* ---- + and - on every mix of term / sum / number, either side -------------------------------------- *)
Theorem add_faithful : forall (K : cring) (is_zero : K -> bool), (forall c, is_zero c = true -> c = c0) ->
  forall (n : nat) (a b r : operand K), py_add is_zero a b = Some r ->
  mat_eq (2 ^ n) (oden n r) (madd (oden n a) (oden n b)).
Proof. exact py_add_den. Qed.
Print Assumptions add_faithful.

Theorem sub_faithful : forall (K : cring) (is_zero : K -> bool), (forall c, is_zero c = true -> c = c0) ->
  forall (n : nat) (a b r : operand K), py_sub is_zero a b = Some r ->
  mat_eq (2 ^ n) (oden n r) (msub (oden n a) (oden n b)).
Proof. exact py_sub_den. Qed.
Print Assumptions sub_faithful.

(* ---- * in either order, scalar multiplication included ---------------------------------------------- *)
Theorem mul_faithful : forall (K : cring) (is_zero : K -> bool), (forall c, is_zero c = true -> c = c0) ->
  forall (n : nat) (a b r : operand K), operand_ok n b -> py_mul is_zero a b = Some r ->
  mat_eq (2 ^ n) (oden n r) (mmul (2 ^ n) (oden n a) (oden n b)).
Proof. exact py_mul_den. Qed.
Print Assumptions mul_faithful.

(* ---- / : only by a number; the quotient times the divisor is the dividend -------------------------- *)
Theorem div_faithful : forall (K : cring) (is_zero : K -> bool), (forall c, is_zero c = true -> c = c0) ->
  forall kinv : K -> option K, (forall c r, kinv c = Some r -> cmul r c = c1) ->
  forall (n : nat) (a b r : operand K), py_div is_zero kinv a b = Some r ->
  exists c, b = ON c /\ mat_eq (2 ^ n) (mscale c (oden n r)) (oden n a).
Proof. exact py_div_den. Qed.
Print Assumptions div_faithful.

(* ---- ** : every non-negative exponent (square-and-multiply = repeated matrix product) -------------- *)
Theorem pow_faithful : forall (K : cring) (is_zero : K -> bool), (forall c, is_zero c = true -> c = c0) ->
  forall (n : nat) (a r : operand K) (k : Z), operand_ok n a -> py_pow is_zero a k = Some r ->
  (0 <= k)%Z /\ operand_ok n r /\ mat_eq (2 ^ n) (oden n r) (mpow (2 ^ n) (oden n a) (Z.to_nat k)).
Proof. exact py_pow_den. Qed.
Print Assumptions pow_faithful.

Theorem pow_defined_for_every_exponent : forall (K : cring) (is_zero : K -> bool) (a : operand K) (k : nat),
  (forall c, a <> ON c) -> exists r, py_pow is_zero a (Z.of_nat k) = Some r.
Proof. exact py_pow_defined. Qed.
Print Assumptions pow_defined_for_every_exponent.

(* ---- results stay inside the representation invariant, so the theorems compose --------------------- *)
Theorem results_well_formed : forall (K : cring) (is_zero : K -> bool) (kinv : K -> option K) (n : nat)
  (a b r : operand K), operand_ok n a -> operand_ok n b ->
  (py_add is_zero a b = Some r -> operand_ok n r) /\ (py_sub is_zero a b = Some r -> operand_ok n r) /\
  (py_mul is_zero a b = Some r -> operand_ok n r) /\ (py_div is_zero kinv a b = Some r -> operand_ok n r) /\
  (py_simplify is_zero a = Some r -> operand_ok n r).
Proof.
  intros K z kinv n a b r Ha Hb.
  repeat split; [apply py_add_ok|apply py_sub_ok|apply py_mul_ok|apply py_div_ok|apply py_simplify_ok]; assumption.
Qed.
Print Assumptions results_well_formed.

(* ---- == between simplified operands: equal implies equal matrices, whatever the order of the terms -- *)
Theorem eq_sound : forall (K : cring) (is_zero : K -> bool) (keqb : K -> K -> bool),
  (forall c, is_zero c = true -> c = c0) -> (forall a b, keqb a b = true -> a = b) ->
  forall (n : nat) (a b : operand K), simplified_operand K a -> simplified_operand K b ->
  py_eq is_zero keqb a b = true -> mat_eq (2 ^ n) (oden n a) (oden n b).
Proof. exact py_eq_sound. Qed.
Print Assumptions eq_sound.

Theorem eq_ignores_term_order : forall (K : cring) (keqb : K -> K -> bool), (forall a, keqb a a = true) ->
  forall s1 s2 : psum K, Permutation s1 s2 -> sum_eqb keqb s1 s2 = true.
Proof. exact sum_eqb_order_irrelevant. Qed.
Print Assumptions eq_ignores_term_order.

(* completeness on simplified sums (pairwise different operator sets, no zero coefficient): sums that denote
   the same matrix compare equal.  This is the linear independence of the 4^n Pauli strings, proved by
   trace orthogonality; the ring must allow cancelling 2 (true of the Gaussian rationals and of C). *)
Theorem eq_complete_on_simplified_sums : forall (K : cring), (forall c : K, cadd c c = c0 -> c = c0) ->
  forall keqb : K -> K -> bool, (forall a, keqb a a = true) ->
  forall (n : nat) (s1 s2 : psum K), sum_ok n s1 -> sum_ok n s2 -> distinct_ops s1 -> distinct_ops s2 ->
  Forall (fun t => coef t <> c0) s1 -> Forall (fun t => coef t <> c0) s2 ->
  mat_eq (2 ^ n) (sden n s1) (sden n s2) -> sum_eqb keqb s1 s2 = true.
Proof. exact sum_eqb_complete. Qed.
Print Assumptions eq_complete_on_simplified_sums.

(* a limit of == that the faithful model shows: without simplification == is not sound - equal length and equal
   *sets* of terms is all it checks *)
Theorem eq_unsound_on_unsimplified_sums_refuted :
  exists s1 s2 : psum GQring,
    @sum_eqb GQring gq_eqb s1 s2 = true /\ ~ mat_eq 2 (sden 1 s1) (sden 1 s2).
Proof. exact eq_unsimplified_counterexample. Qed.
Print Assumptions eq_unsound_on_unsimplified_sums_refuted.

(* finding F33 (fixed in /repo): a sum against a plain number now goes through the PauliTerm branch, so the
   empty sum equals the number c exactly when c tests as zero ... *)
Theorem eq_empty_sum_vs_number : forall (K : cring) (is_zero : K -> bool) (keqb : K -> K -> bool) (c : K),
  py_eq is_zero keqb (OS []) (ON c) = is_zero c /\ py_eq is_zero keqb (ON c) (OS []) = is_zero c.
Proof. exact eq_empty_sum_number. Qed.
Print Assumptions eq_empty_sum_vs_number.

(* ... and == is complete with a number on either side as well (soundness is part of eq_sound): a simplified
   sum that denotes c * I compares equal to the number c *)
Theorem eq_complete_sum_vs_number : forall (K : cring), (forall c : K, cadd c c = c0 -> c = c0) ->
  forall keqb : K -> K -> bool, (forall a, keqb a a = true) ->
  forall is_zero : K -> bool, is_zero c0 = true ->
  forall (n : nat) (s : psum K) (c : K), sum_ok n s -> distinct_ops s -> Forall (fun t => coef t <> c0) s ->
  mat_eq (2 ^ n) (sden n s) (nden c) ->
  py_eq is_zero keqb (OS s) (ON c) = true /\ py_eq is_zero keqb (ON c) (OS s) = true.
Proof. exact sum_number_eq_complete. Qed.
Print Assumptions eq_complete_sum_vs_number.

(* ---- the hypotheses are met by the instance the correspondence check runs on ----------------------- *)
Example instance_meets_hypotheses :
  (forall c : GQring, gq_is_zero c = true -> c = c0) /\ (forall a b : GQ, gq_eqb a b = true -> a = b) /\
  (forall a : GQ, gq_eqb a a = true) /\ (forall c r : GQring, gq_inv c = Some r -> cmul r c = c1) /\
  (forall c : GQring, cadd c c = c0 -> c = c0) /\ gq_is_zero (@c0 GQring) = true.
Proof.
  repeat split; [exact gq_is_zero_exact|exact gq_eqb_eq|exact gq_eqb_refl|exact gq_inv_spec|exact gq_two_cancel].
Qed.

(* (2 X0) * (i Z0) = 2 Y0 : X Z = -i Y *)
Example product_example :
  bin_eqb 2 (oterm (tm 2 0 0 [(0%nat, PX)])) (oterm (tm 0 1 0 [(0%nat, PZ)])) (Some (oterm (tm 2 0 0 [(0%nat, PY)]))) = true.
Proof. vm_compute. reflexivity. Qed.

(* a well-formed operand on 3 qubits, and a simplified sum *)
Example operand_ok_example : operand_ok 3 (osum [tm 1 0 0 [(0%nat, PX); (2%nat, PZ)]; tm 0 3 1 [(1%nat, PY)]]).
Proof.
  unfold osum, operand_ok, sum_ok. repeat apply Forall_cons; try apply Forall_nil;
    (split; [cbn; intuition lia|intros q Hq; cbn in Hq; intuition lia]).
Qed.

Example simplified_example : simplified_operand GQring (osum [tm 1 0 0 [(0%nat, PX)]; tm 0 3 1 [(1%nat, PY)]]).
Proof. repeat constructor; cbn; intros H; repeat (destruct H as [H|H]; try discriminate H); exact H. Qed.

(* ==== the arithmetic methods TRANSLATED from the source agree with the model ===========================================
   Gen/PauliOpsGen.v is regenerated from operators/_pauli_operators.py on every run by tr/tr_pauli_ops.py (statement by
   statement; the meaning of the Python building blocks is Pauli/PauliOpsTrSupport.v).  [P : pyenv] is an arbitrary
   environment of a run: a commutative ring of numbers, the closeness test np.isclose / np.allclose, an arbitrary
   iteration order for dicts / sets / frozensets ([order_ok P]: it enumerates the elements) and a recursion limit.
   [emb_term] / [emb_sum] / [emb_operand] embed the model's terms, sums and operands into the generated records (qubit q
   as the Python int q, a letter as its one-character string); [is_zero P c] is np.isclose(c, 0).  The guard is the
   model's representation invariant ([ops_sorted]; implied by [operand_ok n]).  ([res_of]: the model writes "two plain
   numbers: not the library's business" as None, the generated dispatcher as the exception NotTranslated.) *)
Require Import Coq.Sorting.Sorted.
Require Import OQ.Pauli.Matrix OQ.Pauli.PauliOpsTrSupport OQ.Gen.PauliOpsGen OQ.Pauli.PauliOpsGenProofs.

(* PauliTerm.__init__ on a dictionary (validation passes, "I" entries are dropped), PauliTerm("I0", c), identity(), copy *)
Theorem generated_constructor_is_model : forall P : pyenv, order_ok P ->
  (forall (l : ops) (c : py_ring P), ops_sorted l ->
     PauliTerm_init_dict_num_gen P (emb_ops l) c = Ok (emb_term P (mk_term c l))) /\
  (forall c : py_ring P,
     PauliTerm_init_dict_num_gen P (py_dict_of_items [(0%Z, "I"%string)]) c = Ok (emb_term P (const c))) /\
  PauliTerm_identity_gen P = Ok (emb_term P identity) /\
  (forall t : term (py_ring P), ops_sorted (tops t) -> PauliTerm_copy_none_gen P (emb_term P t) tt = Ok (emb_term P t)) /\
  (forall (t : term (py_ring P)) (c : py_ring P), ops_sorted (tops t) ->
     PauliTerm_copy_num_gen P (emb_term P t) c = Ok (emb_term P (mk_term c (tops t)))).
Proof.
  intros P HO. repeat split;
    [exact (init_gen P HO)|exact (init_I0_gen P HO)|exact (identity_gen P HO)|exact (copy_none_gen P HO)|exact (copy_num_gen P HO)].
Qed.
Print Assumptions generated_constructor_is_model.

(* qubits, operations, is_constant, n_qubits, __getitem__ of a term *)
Theorem generated_term_views_are_model : forall P : pyenv, order_ok P -> forall t : term (py_ring P), ops_sorted (tops t) ->
  PauliTerm_qubits_gen P (emb_term P t) = Ok (map Z.of_nat (keys (tops t))) /\
  PauliTerm_operations_gen P (emb_term P t) = Ok (emb_ops (tops t)) /\
  PauliTerm_is_constant_gen P (emb_term P t) = Ok (match tops t with [] => true | _ => false end) /\
  PauliTerm_n_qubits_gen P (emb_term P t) = Ok (Z.of_nat (term_width t)) /\
  (forall q : nat, PauliTerm_getitem_int_gen P (emb_term P t) (Z.of_nat q) = Ok (letter_or_I (lookup q (tops t)))).
Proof.
  intros P HO t Hs. repeat split;
    [exact (qubits_gen P HO t Hs)|exact (operations_gen P HO t Hs)|exact (is_constant_gen P t)|exact (n_qubits_gen P HO t Hs)
    |exact (getitem_gen P t)].
Qed.
Print Assumptions generated_term_views_are_model.

(* is_constant, qubits, n_qubits of a sum (the width model of Pauli/Matrix.v used by C09) *)
Theorem generated_sum_views_are_model : forall P : pyenv, order_ok P -> forall s : psum (py_ring P), sorted_sum P s ->
  PauliSum_is_constant_gen P (emb_sum P s) = Ok (forallb (const_term P) s) /\
  PauliSum_n_qubits_gen P (emb_sum P s) = Ok (Z.of_nat (sum_width s)) /\
  exists S : pyset, PauliSum_qubits_gen P (emb_sum P s) = Ok S /\ StronglySorted Z.lt S /\
                    (forall y : Z, In y S <-> sum_has_qubit P s y).
Proof.
  intros P HO s Hs. repeat split; [exact (sum_is_constant_gen P s)|exact (sum_n_qubits_gen P HO s Hs)|exact (sum_qubits_gen P HO s Hs)].
Qed.
Print Assumptions generated_sum_views_are_model.

(* PauliTerm._multiply_by_operator, reading the generated tables *)
Theorem generated_multiply_by_operator_is_model : forall P : pyenv, order_ok P ->
  forall (t : term (py_ring P)) (b : letter) (q : nat), ops_sorted (tops t) ->
  PauliTerm_multiply_by_operator_str_int_gen P (emb_term P t) (letter_str b) (Z.of_nat q) = Ok (emb_term P (mul_by_op t b q)).
Proof. exact multiply_by_operator_gen. Qed.
Print Assumptions generated_multiply_by_operator_is_model.

(* PauliTerm.__mul__(PauliTerm): whatever the order in which `for op, index in other` produces the qubits of other *)
Theorem generated_term_product_is_model : forall P : pyenv, order_ok P ->
  forall t1 t2 : term (py_ring P), ops_sorted (tops t1) -> ops_sorted (tops t2) ->
  PauliTerm_mul_term_gen P (emb_term P t1) (emb_term P t2) = Ok (emb_term P (term_mul t1 t2)).
Proof. exact mul_term_gen. Qed.
Print Assumptions generated_term_product_is_model.

(* PauliTerm * number and number * PauliTerm *)
Theorem generated_term_scaling_is_model : forall P : pyenv, order_ok P ->
  forall (t : term (py_ring P)) (c : py_ring P), ops_sorted (tops t) ->
  PauliTerm_mul_num_gen P (emb_term P t) c = Ok (emb_term P (term_scale t c)) /\
  PauliTerm_rmul_num_gen P (emb_term P t) c = Ok (emb_term P (term_scale t c)).
Proof. intros P HO t c Hs. split; [exact (mul_num_gen P HO t c Hs)|exact (rmul_num_gen P HO t c Hs)]. Qed.
Print Assumptions generated_term_scaling_is_model.

(* PauliSum.simplify: the OrderedDict of like terms, the two loops, the zero tests *)
Theorem generated_simplify_is_model : forall P : pyenv, order_ok P -> forall s : psum (py_ring P), sorted_sum P s ->
  PauliSum_simplify_gen P (emb_sum P s) = Ok (emb_sum P (simplify (is_zero P) s)).
Proof. exact simplify_gen. Qed.
Print Assumptions generated_simplify_is_model.

(* + - * on every pair of operand kinds, through the dispatch of Python's binary operator protocol
   (__add__ / __radd__ / __sub__ / __rsub__ / __mul__ / __rmul__ of both classes) *)
Theorem generated_add_is_model : forall P : pyenv, order_ok P ->
  forall a b : operand (py_ring P), operand_sorted P a -> operand_sorted P b ->
  binop_add_gen P (emb_operand P a) (emb_operand P b) = res_of P (py_add (is_zero P) a b).
Proof. exact binop_add_agrees. Qed.
Print Assumptions generated_add_is_model.

Theorem generated_sub_is_model : forall P : pyenv, order_ok P ->
  forall a b : operand (py_ring P), operand_sorted P a -> operand_sorted P b ->
  binop_sub_gen P (emb_operand P a) (emb_operand P b) = res_of P (py_sub (is_zero P) a b).
Proof. exact binop_sub_agrees. Qed.
Print Assumptions generated_sub_is_model.

Theorem generated_mul_is_model : forall P : pyenv, order_ok P ->
  forall a b : operand (py_ring P), operand_sorted P a -> operand_sorted P b ->
  binop_mul_gen P (emb_operand P a) (emb_operand P b) = res_of P (py_mul (is_zero P) a b).
Proof. exact binop_mul_agrees. Qed.
Print Assumptions generated_mul_is_model.

(* ** : __pow__ and the recursion of _efficient_exponentiation, for every exponent the recursion limit allows
   ([pow_fuel k] frames; at most twice the number of binary digits of k) *)
Theorem generated_pow_is_model : forall P : pyenv, order_ok P ->
  forall (a : operand (py_ring P)) (k : Z), operand_sorted P a -> (0 <= k)%Z -> (pow_fuel k <= rec_limit P)%nat ->
  binop_pow_gen P (emb_operand P a) k = res_of P (py_pow (is_zero P) a k).
Proof. exact binop_pow_agrees. Qed.
Print Assumptions generated_pow_is_model.

Theorem generated_pow_negative_raises : forall (P : pyenv) (a : operand (py_ring P)) (k : Z),
  (k < 0)%Z -> (forall c : py_ring P, a <> ON c) ->
  binop_pow_gen P (emb_operand P a) k = Raise ValueError /\ py_pow (is_zero P) a k = None.
Proof.
  intros P a k Hk Hn. split; [exact (pow_negative_gen P a k Hk Hn)|].
  unfold py_pow. destruct (Z.ltb_spec k 0) as [_|H]; [reflexivity|exfalso; apply (Z.lt_irrefl k); apply (Z.lt_le_trans _ 0); assumption].
Qed.
Print Assumptions generated_pow_negative_raises.

Theorem generated_pow_recursion_depth : forall p : positive, (pow_depth p <= 2 * Pos.size_nat p)%nat.
Proof. exact pow_depth_bound. Qed.
Print Assumptions generated_pow_recursion_depth.

(* PauliTerm.__eq__ against a term and against a number *)
Theorem generated_term_eq_is_model : forall P : pyenv, order_ok P ->
  forall t1 t2 : term (py_ring P), ops_sorted (tops t1) -> ops_sorted (tops t2) ->
  PauliTerm_eq_term_gen P (emb_term P t1) (emb_term P t2) = Ok (term_eqb (is_zero P) (np_close P) t1 t2) /\
  forall c : py_ring P, PauliTerm_eq_num_gen P (emb_term P t1) c = Ok (term_eqb (is_zero P) (np_close P) t1 (const c)).
Proof. intros P HO t1 t2 H1 H2. split; [exact (eq_term_gen P HO t1 t2 H1 H2)|intro c; exact (eq_num_gen P HO t1 c H1)]. Qed.
Print Assumptions generated_term_eq_is_model.

(* the guard is the representation invariant of the property theorems above *)
Theorem generated_guard_is_operand_ok : forall (P : pyenv) (n : nat) (a : operand (py_ring P)),
  operand_ok n a -> operand_sorted P a.
Proof. exact operand_ok_sorted. Qed.
Print Assumptions generated_guard_is_operand_ok.

(* an executable environment: Gaussian rationals, exact closeness test, every unordered collection iterated in REVERSE
   order of its representation, 64 frames *)
Definition gq_env : pyenv := mk_pyenv GQring gq_eqb (fun _ A l => rev l) 64.
Example gq_env_order_ok : order_ok gq_env.
Proof. intros site A l. apply Permutation_sym. apply Permutation_rev. Qed.

(* the generated __mul__ run on (2 X0 Z2) * (i Z0 Y1) = 2 Y0 Y1 Z2 : X Z = -i Y *)
Example generated_product_runs :
  match binop_mul_gen gq_env (VT gq_env (mk_PauliTerm gq_env [(0%Z, "X"%string); (2%Z, "Z"%string)] (dy 2 0 0)))
                             (VT gq_env (mk_PauliTerm gq_env [(0%Z, "Z"%string); (1%Z, "Y"%string)] (dy 0 1 0))) with
  | Ok (VT _ r) => andb (py_dict_eqb (PauliTerm__ops gq_env r) [(0%Z, "Y"%string); (1%Z, "Y"%string); (2%Z, "Z"%string)])
                        (gq_eqb (PauliTerm_coefficient gq_env r) (dy 2 0 0))
  | _ => false
  end = true.
Proof. vm_compute. reflexivity. Qed.

(* the generated ** run on (X0 + Z0) ** 2 = 2 I *)
Example generated_power_runs :
  match binop_pow_gen gq_env (VS gq_env (mk_PauliSum gq_env [mk_PauliTerm gq_env [(0%Z, "X"%string)] (dy 1 0 0);
                                                             mk_PauliTerm gq_env [(0%Z, "Z"%string)] (dy 1 0 0)])) 2 with
  | Ok (VS _ r) => match PauliSum_terms gq_env r with
                   | [t] => andb (py_dict_eqb (PauliTerm__ops gq_env t) []) (gq_eqb (PauliTerm_coefficient gq_env t) (dy 2 0 0))
                   | _ => false
                   end
  | _ => false
  end = true.
Proof. vm_compute. reflexivity. Qed.
