(* C03 - Pauli operator arithmetic is faithful to matrix arithmetic.
   Property theorems only; every proof is [exact <lemma>].

   Reading guide.  [K] is any commutative ring with conjugation and an imaginary unit (Base/Ring.v).
   [oden n a] is the 2^n x 2^n matrix an operand denotes (Pauli/Den.v): a term is its coefficient times the
   tensor product of its 2x2 letters, qubit 0 leftmost; a sum is the sum of its terms; a plain number c is
   c * I.  [py_add], [py_sub], [py_mul], [py_div], [py_pow], [py_simplify], [py_eq] (Pauli/Algebra.v) mirror
   the operators of PauliTerm / PauliSum on every mix of operand kinds, [None] = the operator raises.
   [operand_ok n a]: qubit indices < n, each term's dictionary sorted by qubit (the representation
   invariant of the model).  [is_zero], [keqb], [kinv] stand for np.isclose(c, 0), np.allclose(a, b) and
   1.0 / c; the exact theorems assume that they are exact, as they are on the dyadic coefficients of the
   correspondence check (examples at the end).  The tables OPERATOR_MAP / COEFF_MAP are regenerated from
   operators/_pauli_operators.py on every run (Gen/PauliTablesGen.v). *)
Require Import Coq.ZArith.ZArith Coq.Lists.List Coq.Strings.String Coq.Sorting.Permutation Coq.micromega.Lia.
Require Import OQ.Base.Ring OQ.Base.Sums OQ.Base.Bits OQ.Base.Mat OQ.Gen.PauliTablesGen OQ.Pauli.Algebra
  OQ.Pauli.Den OQ.Pauli.TablesProofs OQ.Pauli.DenProofs OQ.Pauli.SumProofs OQ.Pauli.OpsProofs
  OQ.Pauli.EqCompleteProofs OQ.Pauli.AlgebraCases.
Import ListNotations.

(* ---- the tables in the source are the multiplication table of the 2x2 Pauli matrices --------------- *)
Theorem tables_match_matrices : forall (K : cring) (a b : letter),
  (a <> b -> mat_eq 2 (mmul 2 (smat (Some a)) (smat (Some b)))
                      (mscale (coeff_tab K a b) (smat (Some (op_tab a b))))) /\
  mat_eq 2 (mmul 2 (smat (Some a)) (smat (Some a))) (@smat K None).
Proof. intros K a b. split; [apply tables_distinct|apply tables_square]. Qed.
Print Assumptions tables_match_matrices.

(* _multiply_by_operator never raises KeyError: both tables have every ordered pair of distinct letters *)
Theorem tables_have_every_pair : forall (K : cring) (a b : letter), a <> b ->
  exists l c, op_lookup a b = Some l /\ coeff_lookup K a b = Some c.
Proof. exact tables_total. Qed.
Print Assumptions tables_have_every_pair.

(* ---- the denotation is the Kronecker chain sigma_{t 0} (x) sigma_{t 1} (x) ... (x) sigma_{t (n-1)} ----- *)
Theorem den_is_kronecker_chain : forall (K : cring) (n : nat) (l : ops),
  mat_eq (2 ^ n) (@pprod K n l) (dmat (dense n l)).
Proof. exact pprod_dmat. Qed.
Print Assumptions den_is_kronecker_chain.

(* ---- PauliTerm * PauliTerm, every width, every pair of strings ------------------------------------- *)
Theorem term_product_faithful : forall (K : cring) (n : nat) (t1 t2 : term K),
  NoDup (keys (tops t2)) -> term_fits n t2 ->
  mat_eq (2 ^ n) (den n (term_mul t1 t2)) (mmul (2 ^ n) (den n t1) (den n t2)).
Proof. exact term_mul_den. Qed.
Print Assumptions term_product_faithful.

(* ---- simplify: the matrix changes exactly by the dropped terms, whose coefficients test as zero ---- *)
Theorem simplify_changes_by_dropped_terms : forall (K : cring) (is_zero : K -> bool) (n : nat) (s : psum K),
  (forall i j, sden n s i j = cadd (sden n (simplify is_zero s) i j) (sden n (dropped is_zero s) i j)) /\
  Forall (fun t => is_zero (coef t) = true) (dropped is_zero s).
Proof. intros K z n s. split; [intros i j; apply simplify_den|apply dropped_zero]. Qed.
Print Assumptions simplify_changes_by_dropped_terms.

Theorem simplify_never_changes_matrix : forall (K : cring) (is_zero : K -> bool),
  (forall c, is_zero c = true -> c = c0) ->
  forall (n : nat) (a r : operand K), py_simplify is_zero a = Some r -> mat_eq (2 ^ n) (oden n r) (oden n a).
Proof. exact py_simplify_den. Qed.
Print Assumptions simplify_never_changes_matrix.

(* the result of simplify is simplified (distinct operator sets, no zero-testing coefficient) and is a fixed point *)
Theorem simplify_result_simplified : forall (K : cring) (is_zero : K -> bool) (s : psum K),
  distinct_ops (simplify is_zero s) /\ Forall (fun t => is_zero (coef t) = false) (simplify is_zero s).
Proof. exact simplify_simplified. Qed.
Print Assumptions simplify_result_simplified.

Theorem simplify_is_idempotent : forall (K : cring) (is_zero : K -> bool) (s : psum K),
  simplify is_zero (simplify is_zero s) = simplify is_zero s.
Proof. exact simplify_idempotent. Qed.
Print Assumptions simplify_is_idempotent.

(* ---- + and - on every mix of term / sum / number, either side -------------------------------------- *)
Theorem add_faithful : forall (K : cring) (is_zero : K -> bool), (forall c, is_zero c = true -> c = c0) ->
  forall (n : nat) (a b r : operand K), py_add is_zero a b = Some r ->
  mat_eq (2 ^ n) (oden n r) (madd (oden n a) (oden n b)).
Proof. exact py_add_den. Qed.
Print Assumptions add_faithful.

Theorem sub_faithful : forall (K : cring) (is_zero : K -> bool), (forall c, is_zero c = true -> c = c0) ->
  forall (n : nat) (a b r : operand K), py_sub is_zero a b = Some r ->
  mat_eq (2 ^ n) (oden n r) (msub (oden n a) (oden n b)).
Proof. exact py_sub_den. Qed.
Print Assumptions sub_faithful.

(* ---- * in either order, scalar multiplication included ---------------------------------------------- *)
Theorem mul_faithful : forall (K : cring) (is_zero : K -> bool), (forall c, is_zero c = true -> c = c0) ->
  forall (n : nat) (a b r : operand K), operand_ok n b -> py_mul is_zero a b = Some r ->
  mat_eq (2 ^ n) (oden n r) (mmul (2 ^ n) (oden n a) (oden n b)).
Proof. exact py_mul_den. Qed.
Print Assumptions mul_faithful.

(* ---- / : only by a number; the quotient times the divisor is the dividend -------------------------- *)
Theorem div_faithful : forall (K : cring) (is_zero : K -> bool), (forall c, is_zero c = true -> c = c0) ->
  forall kinv : K -> option K, (forall c r, kinv c = Some r -> cmul r c = c1) ->
  forall (n : nat) (a b r : operand K), py_div is_zero kinv a b = Some r ->
  exists c, b = ON c /\ mat_eq (2 ^ n) (mscale c (oden n r)) (oden n a).
Proof. exact py_div_den. Qed.
Print Assumptions div_faithful.

(* ---- ** : every non-negative exponent (square-and-multiply = repeated matrix product) -------------- *)
Theorem pow_faithful : forall (K : cring) (is_zero : K -> bool), (forall c, is_zero c = true -> c = c0) ->
  forall (n : nat) (a r : operand K) (k : Z), operand_ok n a -> py_pow is_zero a k = Some r ->
  (0 <= k)%Z /\ operand_ok n r /\ mat_eq (2 ^ n) (oden n r) (mpow (2 ^ n) (oden n a) (Z.to_nat k)).
Proof. exact py_pow_den. Qed.
Print Assumptions pow_faithful.

Theorem pow_defined_for_every_exponent : forall (K : cring) (is_zero : K -> bool) (a : operand K) (k : nat),
  (forall c, a <> ON c) -> exists r, py_pow is_zero a (Z.of_nat k) = Some r.
Proof. exact py_pow_defined. Qed.
Print Assumptions pow_defined_for_every_exponent.

(* ---- results stay inside the representation invariant, so the theorems compose --------------------- *)
Theorem results_well_formed : forall (K : cring) (is_zero : K -> bool) (kinv : K -> option K) (n : nat)
  (a b r : operand K), operand_ok n a -> operand_ok n b ->
  (py_add is_zero a b = Some r -> operand_ok n r) /\ (py_sub is_zero a b = Some r -> operand_ok n r) /\
  (py_mul is_zero a b = Some r -> operand_ok n r) /\ (py_div is_zero kinv a b = Some r -> operand_ok n r) /\
  (py_simplify is_zero a = Some r -> operand_ok n r).
Proof.
  intros K z kinv n a b r Ha Hb.
  repeat split; [apply py_add_ok|apply py_sub_ok|apply py_mul_ok|apply py_div_ok|apply py_simplify_ok]; assumption.
Qed.
Print Assumptions results_well_formed.

(* ---- == between simplified operands: equal implies equal matrices, whatever the order of the terms -- *)
Theorem eq_sound : forall (K : cring) (is_zero : K -> bool) (keqb : K -> K -> bool),
  (forall c, is_zero c = true -> c = c0) -> (forall a b, keqb a b = true -> a = b) ->
  forall (n : nat) (a b : operand K), simplified_operand K a -> simplified_operand K b ->
  py_eq is_zero keqb a b = true -> mat_eq (2 ^ n) (oden n a) (oden n b).
Proof. exact py_eq_sound. Qed.
Print Assumptions eq_sound.

Theorem eq_ignores_term_order : forall (K : cring) (keqb : K -> K -> bool), (forall a, keqb a a = true) ->
  forall s1 s2 : psum K, Permutation s1 s2 -> sum_eqb keqb s1 s2 = true.
Proof. exact sum_eqb_order_irrelevant. Qed.
Print Assumptions eq_ignores_term_order.

(* completeness on simplified sums (pairwise different operator sets, no zero coefficient): sums that denote
   the same matrix compare equal.  This is the linear independence of the 4^n Pauli strings, proved by
   trace orthogonality; the ring must allow cancelling 2 (true of the Gaussian rationals and of C). *)
Theorem eq_complete_on_simplified_sums : forall (K : cring), (forall c : K, cadd c c = c0 -> c = c0) ->
  forall keqb : K -> K -> bool, (forall a, keqb a a = true) ->
  forall (n : nat) (s1 s2 : psum K), sum_ok n s1 -> sum_ok n s2 -> distinct_ops s1 -> distinct_ops s2 ->
  Forall (fun t => coef t <> c0) s1 -> Forall (fun t => coef t <> c0) s2 ->
  mat_eq (2 ^ n) (sden n s1) (sden n s2) -> sum_eqb keqb s1 s2 = true.
Proof. exact sum_eqb_complete. Qed.
Print Assumptions eq_complete_on_simplified_sums.

(* a limit of == that the faithful model shows: without simplification == is not sound - equal length and equal
   *sets* of terms is all it checks *)
Theorem eq_unsound_on_unsimplified_sums_refuted :
  exists s1 s2 : psum GQring,
    @sum_eqb GQring gq_eqb s1 s2 = true /\ ~ mat_eq 2 (sden 1 s1) (sden 1 s2).
Proof. exact eq_unsimplified_counterexample. Qed.
Print Assumptions eq_unsound_on_unsimplified_sums_refuted.

(* finding F33 (fixed in /repo): a sum against a plain number now goes through the PauliTerm branch, so the
   empty sum equals the number c exactly when c tests as zero ... *)
Theorem eq_empty_sum_vs_number : forall (K : cring) (is_zero : K -> bool) (keqb : K -> K -> bool) (c : K),
  py_eq is_zero keqb (OS []) (ON c) = is_zero c /\ py_eq is_zero keqb (ON c) (OS []) = is_zero c.
Proof. exact eq_empty_sum_number. Qed.
Print Assumptions eq_empty_sum_vs_number.

(* ... and == is complete with a number on either side as well (soundness is part of eq_sound): a simplified
   sum that denotes c * I compares equal to the number c *)
Theorem eq_complete_sum_vs_number : forall (K : cring), (forall c : K, cadd c c = c0 -> c = c0) ->
  forall keqb : K -> K -> bool, (forall a, keqb a a = true) ->
  forall is_zero : K -> bool, is_zero c0 = true ->
  forall (n : nat) (s : psum K) (c : K), sum_ok n s -> distinct_ops s -> Forall (fun t => coef t <> c0) s ->
  mat_eq (2 ^ n) (sden n s) (nden c) ->
  py_eq is_zero keqb (OS s) (ON c) = true /\ py_eq is_zero keqb (ON c) (OS s) = true.
Proof. exact sum_number_eq_complete. Qed.
Print Assumptions eq_complete_sum_vs_number.

(* ---- the hypotheses are met by the instance the correspondence check runs on ----------------------- *)
Example instance_meets_hypotheses :
  (forall c : GQring, gq_is_zero c = true -> c = c0) /\ (forall a b : GQ, gq_eqb a b = true -> a = b) /\
  (forall a : GQ, gq_eqb a a = true) /\ (forall c r : GQring, gq_inv c = Some r -> cmul r c = c1) /\
  (forall c : GQring, cadd c c = c0 -> c = c0) /\ gq_is_zero (@c0 GQring) = true.
Proof.
  repeat split; [exact gq_is_zero_exact|exact gq_eqb_eq|exact gq_eqb_refl|exact gq_inv_spec|exact gq_two_cancel].
Qed.

(* (2 X0) * (i Z0) = 2 Y0 : X Z = -i Y *)
Example product_example :
  bin_eqb 2 (oterm (tm 2 0 0 [(0%nat, PX)])) (oterm (tm 0 1 0 [(0%nat, PZ)])) (Some (oterm (tm 2 0 0 [(0%nat, PY)]))) = true.
Proof. vm_compute. reflexivity. Qed.

(* a well-formed operand on 3 qubits, and a simplified sum *)
Example operand_ok_example : operand_ok 3 (osum [tm 1 0 0 [(0%nat, PX); (2%nat, PZ)]; tm 0 3 1 [(1%nat, PY)]]).
Proof.
  unfold osum, operand_ok, sum_ok. repeat apply Forall_cons; try apply Forall_nil;
    (split; [cbn; intuition lia|intros q Hq; cbn in Hq; intuition lia]).
Qed.

Example simplified_example : simplified_operand GQring (osum [tm 1 0 0 [(0%nat, PX)]; tm 0 3 1 [(1%nat, PY)]]).
Proof. repeat constructor; cbn; intros H; repeat (destruct H as [H|H]; try discriminate H); exact H. Qed.
