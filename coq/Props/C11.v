(* C11 - Operators and result artefacts survive dict, file and text round trips.
   Property theorems only; every proof is [exact <lemma>].
   Part 1: the result artefacts (Serde/Artefacts.v).  The theorems hold for every type [R] of JSON numbers
   and every truthiness test on it; the correspondence cases instantiate R with the numbers as written
   in the JSON text.
   Part 2: operators through their dictionary form; Part 3: operators through their printed text
   (Serde/OpSerde.v on top of Pauli/Algebra.v and Pauli/Den.v). *)
Require Import Coq.ZArith.ZArith Coq.Lists.List Coq.Strings.String Coq.Bool.Bool Coq.Sorting.Permutation
  Coq.QArith.QArith Coq.QArith.Qcanon Coq.micromega.Lia.
Require Import OQ.Base.Ring OQ.Pauli.Algebra OQ.Pauli.Den.
Require Import OQ.Serde.Json OQ.Serde.Artefacts OQ.Serde.ArtefactsProofs OQ.Serde.OpSerde OQ.Serde.OpSerdeProofs.
Require Import OQ.Base.CaseEq OQ.Serde.C11Cases.
Import ListNotations.
Open Scope string_scope.

(* ---------------------------------------------------------------- arrays *)
(* convert_dict_to_array (convert_array_to_dict a) for every real or complex array of every rank: the array
   itself, except that a complex array whose imaginary part is an empty list or a zero scalar comes back as
   the real array of its real parts *)
Theorem array_roundtrip : forall (R : Type) (r_truthy : R -> bool) (a : arr R), arr_regular a = true ->
  dict_to_arr r_truthy (arr_to_dict a) = Some (arr_norm r_truthy a).
Proof. exact array_roundtrip_gen. Qed.
Print Assumptions array_roundtrip.

(* real arrays, and complex arrays with a non-empty imaginary part (a non-zero one for a 0-d array), come back exactly *)
Theorem array_roundtrip_exact : forall (R : Type) (r_truthy : R -> bool) (a : arr R),
  arr_canon R r_truthy a = true -> arr_norm r_truthy a = a.
Proof. exact arr_norm_canon. Qed.
Print Assumptions array_roundtrip_exact.

(* and in the remaining case nothing but zero (falsy) imaginary entries is lost *)
Theorem array_roundtrip_values : forall (R : Type) (r_truthy : R -> bool) (a : arr R),
  arr_norm r_truthy a = a \/
  exists d, a = ACplx d /\ arr_norm r_truthy a = AReal (nd_map fst d) /\
            nd_all (fun ab => negb (r_truthy (snd ab))) d = true.
Proof. exact arr_norm_same_values. Qed.
Print Assumptions array_roundtrip_values.

Example array_premises_met :
  dict_to_arr num_truthy (arr_to_dict (ACplx (NNode [NNode [NLeaf (NFloat "1e-05", NFloat "-0.0"); NLeaf (NFloat "2.5", NFloat "1.0")]])))
  = Some (ACplx (NNode [NNode [NLeaf (NFloat "1e-05", NFloat "-0.0"); NLeaf (NFloat "2.5", NFloat "1.0")]])).
Proof. vm_compute. reflexivity. Qed.

Example array_complex_scalar_zero_imag_comes_back_real :
  dict_to_arr num_truthy (arr_to_dict (ACplx (NLeaf (NFloat "1.0", NFloat "0.0")))) = Some (AReal (NLeaf (NFloat "1.0"))).
Proof. vm_compute. reflexivity. Qed.

(* ---------------------------------------------------------------- Measurements *)
(* load_from_file after save: the same tuples of the same bit values, for every list of bitstrings (also empty) *)
Theorem measurements_roundtrip : forall (R : Type) (of_Z : Z -> R) (bs : list (list Z)),
  meas_from_dict (meas_to_dict of_Z bs) = Some (map (map (zt of_Z)) bs).
Proof. exact meas_roundtrip_gen. Qed.
Print Assumptions measurements_roundtrip.

(* the histogram written next to them accounts for every shot *)
Theorem measurements_counts_total : forall bs : list (list Z),
  fold_right Z.add 0%Z (map snd (get_counts bs)) = Z.of_nat (List.length bs).
Proof. exact counts_total. Qed.
Print Assumptions measurements_counts_total.

(* ---------------------------------------------------------------- ExpectationValues *)
(* from_dict (to_dict e): values and every correlation / covariance frame as arrays above; a frame list that is
   None or [] is not written and comes back as None *)
Theorem expectation_values_roundtrip : forall (R : Type) (r_truthy : R -> bool) (e : expvals R), ev_regular e = true ->
  ev_from_dict r_truthy (ev_to_dict e) = Some (ev_norm r_truthy e).
Proof. exact ev_roundtrip_gen. Qed.
Print Assumptions expectation_values_roundtrip.

Theorem expectation_values_roundtrip_exact : forall (R : Type) (r_truthy : R -> bool) (e : expvals R),
  ev_canon R r_truthy e = true -> ev_norm r_truthy e = e.
Proof. exact ev_norm_canon. Qed.
Print Assumptions expectation_values_roundtrip_exact.

(* what came back once comes back exactly from then on *)
Theorem expectation_values_roundtrip_stable : forall (R : Type) (r_truthy : R -> bool) (e : expvals R),
  ev_canon R r_truthy (ev_norm r_truthy e) = true.
Proof. exact ev_norm_is_canon. Qed.
Print Assumptions expectation_values_roundtrip_stable.

(* "absent": None, [] and a missing key are one and the same *)
Theorem frames_absent : forall (R : Type) (r_truthy : R -> bool),
  frames_norm r_truthy (Some []) = None /\ frames_norm r_truthy None = None /\
  @frames_field R "correlations" (Some []) = frames_field "correlations" None.
Proof. exact frames_absent_equiv. Qed.
Print Assumptions frames_absent.

Example expectation_values_premises_met :
  let e := mk_ev (AReal (NNode [NLeaf (NFloat "0.5"); NLeaf (NFloat "-0.25")]))
                 (Some [ACplx (NNode [NNode [NLeaf (NFloat "1.0", NFloat "2.0")]])]) (Some []) in
  ev_regular e = true /\
  ev_from_dict num_truthy (ev_to_dict e)
  = Some (mk_ev (AReal (NNode [NLeaf (NFloat "0.5"); NLeaf (NFloat "-0.25")]))
                (Some [ACplx (NNode [NNode [NLeaf (NFloat "1.0", NFloat "2.0")]])]) None).
Proof. vm_compute. split; reflexivity. Qed.

(* ---------------------------------------------------------------- Parities *)
Theorem parities_roundtrip : forall (R : Type) (r_truthy : R -> bool) (p : parities R), par_regular p = true ->
  par_from_dict r_truthy (par_to_dict p) = Some (par_norm r_truthy p).
Proof. exact par_roundtrip_gen. Qed.
Print Assumptions parities_roundtrip.

(* ---------------------------------------------------------------- ValueEstimate *)
(* every value (a float: float(v) = v) with every precision, None included, comes back exactly; None stays None *)
Theorem value_estimate_roundtrip : forall (R : Type) (to_float : R -> R) (v : vest R),
  to_float (ve_value v) = ve_value v -> ve_from_dict to_float (ve_to_dict v) = Some v.
Proof. exact ve_roundtrip_gen. Qed.
Print Assumptions value_estimate_roundtrip.

Example value_estimate_premises_met :
  ve_from_dict num_to_float (ve_to_dict (mk_ve (NFloat "1e-05") None)) = Some (mk_ve (NFloat "1e-05") None) /\
  ve_from_dict num_to_float (ve_to_dict (mk_ve (NFloat "2.5") (Some (NInt 0)))) = Some (mk_ve (NFloat "2.5") (Some (NInt 0))).
Proof. vm_compute. split; reflexivity. Qed.

(* ---------------------------------------------------------------- plain lists, circuit orderings *)
Theorem list_roundtrip : forall (R : Type) (key : string) (l : list (jt R)),
  keyed_from_dict key (keyed_to_dict key l) = Some (TArr l).
Proof. exact keyed_roundtrip_gen. Qed.
Print Assumptions list_roundtrip.

(* ---------------------------------------------------------------- circuit layers and connectivity *)
Theorem layers_roundtrip : forall (R : Type) (of_Z : Z -> R) (ls : list (list (list Z))),
  layers_from_dict (layers_to_dict of_Z ls) = Some (map (map (map (zt of_Z))) ls).
Proof. exact layers_roundtrip_gen. Qed.
Print Assumptions layers_roundtrip.

Theorem connectivity_roundtrip : forall (R : Type) (of_Z : Z -> R) (ts : list (list Z)),
  conn_from_dict (conn_to_dict of_Z ts) = Some (map (map (zt of_Z)) ts).
Proof. exact conn_roundtrip_gen. Qed.
Print Assumptions connectivity_roundtrip.

(* ---------------------------------------------------------------- measurement-count estimate *)
(* with and without frame_meas *)
Theorem nmeas_roundtrip : forall (R : Type) (r_truthy : R -> bool) (k n : R) (fm : option (arr R)),
  match fm with Some a => arr_regular a = true | None => True end ->
  nmeas_from_dict r_truthy (nmeas_to_dict k n fm) = Some (TNum k, TNum n, option_map (arr_norm r_truthy) fm).
Proof. exact nmeas_roundtrip_gen. Qed.
Print Assumptions nmeas_roundtrip.

(* F11 (fixed in /repo): the loader as it was rejected every file saved without frame_meas *)
Theorem nmeas_loader_before_fix_refuted : forall (R : Type) (r_truthy : R -> bool) (k n : R),
  nmeas_from_dict_old r_truthy (nmeas_to_dict k n None) = None.
Proof. exact nmeas_old_rejects. Qed.
Print Assumptions nmeas_loader_before_fix_refuted.

(* ---------------------------------------------------------------- numbers as JSON text *)
(* if writing and reading one number is the identity (float.__repr__/float, int.__str__/int: an assumption about
   Python), then so is writing and reading every number of a whole document *)
Theorem json_numbers_roundtrip : forall (V T : Type) (show : V -> T) (read : T -> option V),
  (forall v, read (show v) = Some v) -> forall j : jt V, jt_mapM read (jt_map show j) = Some j.
Proof. exact @jt_text_roundtrip. Qed.
Print Assumptions json_numbers_roundtrip.

(* ================================================================ Part 2: operators as dictionaries *)
(* Throughout: [s] is an operator as a list of terms (Python-typed coefficient, operators sorted by qubit), [s']
   the same terms with their operators in whatever order the serialiser iterated the frozenset; [inj] gives the
   value of a JSON number in the scalar ring, numbers that are falsy in Python have value zero. *)

(* the order in which a term's operators are written does not matter *)
Theorem dict_iteration_order_irrelevant : forall (l : ops) (l' : list (nat * letter)),
  ops_sorted l -> Permutation l' l -> canon l' = l.
Proof. exact canon_perm. Qed.
Print Assumptions dict_iteration_order_irrelevant.

(* what is read back before the terms are added up: every term, in order, with its operators, its qubit indices and
   both parts of its coefficient exactly as they were (a complex coefficient whose imaginary part is zero is read as
   the int/float of its real part) *)
Theorem dict_terms_exact : forall (R : Type) (r_truthy : R -> bool) (of_nat : nat -> R) (to_nat : R -> option nat),
  (forall n, to_nat (of_nat n) = Some n) ->
  forall s s' : list (sterm R), sorted_terms R s -> Forall2 (iter_of R) s' s ->
  dict_to_terms r_truthy to_nat (op_to_dict of_nat s') = Some (map (fun t => (norm_c r_truthy (fst t), snd t)) s).
Proof. exact dict_terms_roundtrip. Qed.
Print Assumptions dict_terms_exact.

(* simplified operators (pairwise different operator sets, no coefficient that tests as zero) come back exactly *)
Theorem dict_roundtrip_exact : forall (K : cring) (is_zero : K -> bool) (R : Type) (r_truthy : R -> bool) (inj : R -> K)
  (of_nat : nat -> R) (to_nat : R -> option nat),
  (forall n, to_nat (of_nat n) = Some n) -> (forall r, r_truthy r = false -> inj r = c0) ->
  forall s s' : list (sterm R), sorted_terms R s -> Forall2 (iter_of R) s' s ->
  distinct_ops (map (kterm inj) s) -> Forall (fun t => is_zero (coef t) = false) (map (kterm inj) s) ->
  dict_to_op is_zero r_truthy inj to_nat (op_to_dict of_nat s') = Some (map (kterm inj) s).
Proof. exact dict_roundtrip_exact_gen. Qed.
Print Assumptions dict_roundtrip_exact.

(* every operator comes back denoting the same matrix up to terms whose coefficients pass the library's zero test *)
Theorem dict_roundtrip_den_tolerance : forall (K : cring) (is_zero : K -> bool) (R : Type) (r_truthy : R -> bool) (inj : R -> K)
  (of_nat : nat -> R) (to_nat : R -> option nat),
  (forall n, to_nat (of_nat n) = Some n) -> (forall r, r_truthy r = false -> inj r = c0) ->
  forall (s s' : list (sterm R)) (n : nat), sorted_terms R s -> Forall2 (iter_of R) s' s ->
  exists (r : psum K) (D : list (term K)),
    dict_to_op is_zero r_truthy inj to_nat (op_to_dict of_nat s') = Some r /\
    Forall (fun t => is_zero (coef t) = true) D /\
    forall i j, sden n (map (kterm inj) s) i j = cadd (sden n r i j) (sden n D i j).
Proof. exact dict_roundtrip_den_tol. Qed.
Print Assumptions dict_roundtrip_den_tolerance.

(* with an exact zero test: exactly the same matrix, which is also the matrix of the simplified operator *)
Theorem dict_roundtrip_den : forall (K : cring) (is_zero : K -> bool) (R : Type) (r_truthy : R -> bool) (inj : R -> K)
  (of_nat : nat -> R) (to_nat : R -> option nat),
  (forall n, to_nat (of_nat n) = Some n) -> (forall r, r_truthy r = false -> inj r = c0) ->
  forall (s s' : list (sterm R)) (n : nat), (forall c : K, is_zero c = true -> c = c0) ->
  sorted_terms R s -> Forall2 (iter_of R) s' s ->
  exists r : psum K,
    dict_to_op is_zero r_truthy inj to_nat (op_to_dict of_nat s') = Some r /\
    forall i j, sden n r i j = sden n (map (kterm inj) s) i j /\
                sden n r i j = sden n (simplify is_zero (map (kterm inj) s)) i j.
Proof. exact dict_roundtrip_den_gen. Qed.
Print Assumptions dict_roundtrip_den.

(* operator lists: save_operator_set / load_operator_set *)
Theorem operator_set_roundtrip : forall (K : cring) (is_zero : K -> bool) (R : Type) (r_truthy : R -> bool) (inj : R -> K)
  (of_nat : nat -> R) (to_nat : R -> option nat),
  (forall n, to_nat (of_nat n) = Some n) -> (forall r, r_truthy r = false -> inj r = c0) ->
  forall l l' : list (list (sterm R)),
  Forall2 (fun s' s => sorted_terms R s /\ Forall2 (iter_of R) s' s) l' l ->
  dict_to_opset is_zero r_truthy inj to_nat (opset_to_dict of_nat l')
  = Some (map (fun s => add_all is_zero (map (kterm inj) s)) l).
Proof. exact opset_roundtrip_gen. Qed.
Print Assumptions operator_set_roundtrip.

(* the hypotheses are met by integers as JSON numbers in the Gaussian rationals, and the functions run *)
Definition z_truthy (z : Z) : bool := negb (Z.eqb z 0).
Definition z_inj (z : Z) : GQring := gq_lit (inject_Z z) 0.
Definition z_to_nat (z : Z) : option nat := if Z.leb 0 z then Some (Z.to_nat z) else None.
Example dict_premises_met :
  (forall n, z_to_nat (Z.of_nat n) = Some n) /\ (forall z, z_truthy z = false -> z_inj z = c0) /\
  let s' : list (sterm Z) := [(PCplx 2%Z 3%Z, [(12%nat, PZ); (0%nat, PX)]); (PReal 5%Z, [])] in
  let s : list (sterm Z) := [(PCplx 2%Z 3%Z, [(0%nat, PX); (12%nat, PZ)]); (PReal 5%Z, [])] in
  sorted_terms Z s /\ Forall2 (iter_of Z) s' s /\
  oeqb gsum_eqb (dict_to_op (K := GQring) (fun c => gq_eqb c gq0) z_truthy z_inj z_to_nat (op_to_dict Z.of_nat s'))
                (Some (map (kterm z_inj) s)) = true.
Proof.
  split; [|split].
  - intro n. unfold z_to_nat. destruct (Z.leb_spec 0 (Z.of_nat n)) as [_|H]; [rewrite Nat2Z.id; reflexivity|].
    pose proof (Nat2Z.is_nonneg n). exfalso. apply (Z.lt_irrefl 0). eapply Z.le_lt_trans; eassumption.
  - intros z H. unfold z_truthy in H. apply negb_false_iff, Z.eqb_eq in H. subst z. reflexivity.
  - cbv zeta. split.
    { unfold sorted_terms. constructor; [|constructor; [exact I|constructor]].
      cbn [snd ops_sorted map fst In]. split; [intros k [<-|[]]; lia|]. split; [intros k []|exact I]. }
    split.
    + constructor; [split; [reflexivity|apply perm_swap]|]. constructor; [split; [reflexivity|apply Permutation_refl]|constructor].
    + vm_compute. reflexivity.
Qed.

(* ================================================================ Part 3: operators as printed text *)
(* The text of a coefficient is abstract: [show_c] = str, [read_c] = _parse_complex, [cplx c] = complex(c).  [dom]
   is the set of coefficients the statement is about (magnitude below 1e15): for those the printed number reads back
   ([read_show]) and contains no '*', no space and no '+' outside parentheses ([coef_text_ok]; false from 1e16 on,
   where Python prints "1e+16").  The harness checks both on every coefficient it prints. *)

(* PauliTerm(str(t)) for every term, constants (printed "c*I") included: the same operators on the same qubits in the
   same order, the coefficient read back *)
Theorem parse_repr_term : forall (C : Type) (show_c : C -> string) (read_c : string -> option C) (c_one : C) (cplx : C -> C)
  (dom : C -> Prop),
  (forall c, dom c -> read_c (show_c c) = Some (cplx c)) -> (forall c, dom c -> coef_text_ok (show_c c) = true) ->
  forall t : tterm C, tdom C dom t -> parse_term read_c c_one (repr_term show_c t) = Some (cplx (fst t), snd t).
Proof. exact parse_repr_term_gen. Qed.
Print Assumptions parse_repr_term.

(* PauliSum(str(s)) for every sum; the empty sum is printed "0*I" and read as the single term 0*I *)
Theorem parse_repr_sum : forall (C : Type) (show_c : C -> string) (read_c : string -> option C) (c_one c_zero : C) (cplx : C -> C)
  (dom : C -> Prop),
  (forall c, dom c -> read_c (show_c c) = Some (cplx c)) -> (forall c, dom c -> coef_text_ok (show_c c) = true) ->
  dom c_zero ->
  forall s : list (tterm C), Forall (tdom C dom) s ->
  parse_sum read_c c_one (repr_sum show_c c_zero s)
  = Some (match s with [] => [(cplx c_zero, [])] | _ => map (fun t => (cplx (fst t), snd t)) s end).
Proof. exact parse_repr_sum_gen. Qed.
Print Assumptions parse_repr_sum.

(* hence the same matrix, for every scalar ring and every valuation of coefficients that complex() preserves *)
Theorem text_term_same_matrix : forall (C : Type) (show_c : C -> string) (read_c : string -> option C) (c_one : C) (cplx : C -> C)
  (dom : C -> Prop),
  (forall c, dom c -> read_c (show_c c) = Some (cplx c)) -> (forall c, dom c -> coef_text_ok (show_c c) = true) ->
  forall (K : cring) (val : C -> K), (forall c, val (cplx c) = val c) ->
  forall (t : tterm C) (n : nat), tdom C dom t ->
  exists t', parse_term read_c c_one (repr_term show_c t) = Some t' /\
             forall i j, den n (tk C K val t') i j = den n (tk C K val t) i j.
Proof. exact text_term_den. Qed.
Print Assumptions text_term_same_matrix.

Theorem text_sum_same_matrix : forall (C : Type) (show_c : C -> string) (read_c : string -> option C) (c_one c_zero : C)
  (cplx : C -> C) (dom : C -> Prop),
  (forall c, dom c -> read_c (show_c c) = Some (cplx c)) -> (forall c, dom c -> coef_text_ok (show_c c) = true) ->
  dom c_zero ->
  forall (K : cring) (val : C -> K), (forall c, val (cplx c) = val c) -> val c_zero = c0 ->
  forall (s : list (tterm C)) (n : nat), Forall (tdom C dom) s ->
  exists s', parse_sum read_c c_one (repr_sum show_c c_zero s) = Some s' /\
             forall i j, sden n (map (tk C K val) s') i j = sden n (map (tk C K val) s) i j.
Proof. exact text_sum_den. Qed.
Print Assumptions text_sum_same_matrix.

(* F10 (fixed in /repo): the parser without the skip of a bare "I" rejected every printed constant *)
Theorem parser_before_fix_refuted : forall (C : Type) (show_c : C -> string) (read_c : string -> option C) (c_one : C)
  (cplx : C -> C) (dom : C -> Prop),
  (forall c, dom c -> read_c (show_c c) = Some (cplx c)) -> (forall c, dom c -> coef_text_ok (show_c c) = true) ->
  forall c, dom c -> parse_term_old read_c c_one (repr_term show_c (c, [])) = None.
Proof. exact @parse_old_rejects_constant. Qed.
Print Assumptions parser_before_fix_refuted.

(* the hypotheses are met by coefficients that are their own text, and the functions run: several-digit indices, a
   parenthesised complex number with a '+' inside, a negative exponent, a constant term, the empty sum *)
Definition txt_read (s : string) : option string := if coef_text_ok s then Some s else None.
Example text_premises_met :
  (forall c : string, coef_text_ok c = true -> txt_read c = Some c) /\
  coef_text_ok "(1e-20+5j)" = true /\ coef_text_ok "1e-05" = true /\ coef_text_ok "1e+16" = false /\
  repr_sum (fun c : string => c) "0" [("(1e-20+5j)", [(123, PZ); (0, PX)]); ("1e-05", []); ("-2.0", [(4999, PY)])]
  = "(1e-20+5j)*Z123*X0 + 1e-05*I + -2.0*Y4999" /\
  parse_sum txt_read "1.0" "(1e-20+5j)*Z123*X0 + 1e-05*I + -2.0*Y4999"
  = Some [("(1e-20+5j)", [(123, PZ); (0, PX)]); ("1e-05", []); ("-2.0", [(4999, PY)])] /\
  parse_sum txt_read "1.0" (repr_sum (fun c : string => c) "0" []) = Some [("0", [])].
Proof.
  split; [intros c H; unfold txt_read; rewrite H; reflexivity|]. vm_compute. repeat split; reflexivity.
Qed.

(* ================================================================ Part 4: the models are the code
   The (de)serialisation functions are TRANSLATED from their Python source on every run (tr/tr_artefacts.py ->
   Gen/ArtefactsGen.v; meaning of the Python building blocks: Serde/ArtefactsTrSupport.v) and the generated
   definitions are proved equal to the model functions the theorems above are about (Serde/ArtefactsGenProofs.v).
   [res_opt] forgets which exception was raised, as the models do; [saved] / [load_via] are the file system and the
   abstract JSON codec around a dictionary-level function. *)
Require Import OQ.Serde.ArtefactsTrSupport OQ.Gen.ArtefactsGen OQ.Serde.ArtefactsGenProofs.

(* ---------------------------------------------------------------- utils.py *)
Theorem generated_convert_dict_to_array_is_model : forall (R : Type) (r_truthy : R -> bool) (j : jt R),
  res_opt (convert_dict_to_array_gen R r_truthy j) = dict_to_arr r_truthy j.
Proof. exact convert_dict_to_array_gen_eq. Qed.
Print Assumptions generated_convert_dict_to_array_is_model.

Theorem generated_convert_array_to_dict_is_model : forall (R : Type) (a : arr R),
  convert_array_to_dict_gen R a = Val (arr_to_dict a).
Proof. exact convert_array_to_dict_gen_eq. Qed.
Print Assumptions generated_convert_array_to_dict_is_model.

Theorem generated_load_list_is_model : forall (R : Type) (loads : string -> option (jt R)) (file : loadsrc) (fs : pyfs),
  res_opt (load_list_gen R loads file fs) = load_via loads fs file (keyed_from_dict "list").
Proof. exact load_list_gen_eq. Qed.
Print Assumptions generated_load_list_is_model.

Theorem generated_save_list_is_model : forall (R : Type) (dumps : jt R -> string) (l : list (jt R)) (p : string) (fs : pyfs),
  saved fs p (dumps (keyed_to_dict "list" l)) (save_list_gen R dumps l p fs).
Proof. exact save_list_gen_eq. Qed.
Print Assumptions generated_save_list_is_model.

Theorem generated_save_nmeas_estimate_is_model : forall (R : Type) (dumps : jt R -> string) (k n : R) (p : string)
  (fm : option (arr R)) (fs : pyfs),
  saved fs p (dumps (nmeas_to_dict k n fm)) (save_nmeas_estimate_gen R dumps k n p fm fs).
Proof. exact save_nmeas_estimate_gen_eq. Qed.
Print Assumptions generated_save_nmeas_estimate_is_model.

Theorem generated_load_nmeas_estimate_is_model : forall (R : Type) (r_truthy : R -> bool) (loads : string -> option (jt R))
  (p : string) (fs : pyfs),
  res_opt (load_nmeas_estimate_gen R r_truthy loads p fs) = load_via loads fs (SrcPath p) (nmeas_from_dict r_truthy).
Proof. exact load_nmeas_estimate_gen_eq. Qed.
Print Assumptions generated_load_nmeas_estimate_is_model.

(* from the generated code alone: load_list(save_list(l, p)) = l for every codec that reads back what it wrote *)
Theorem generated_list_file_roundtrip : forall (R : Type) (dumps : jt R -> string) (loads : string -> option (jt R)),
  (forall j, loads (dumps j) = Some j) ->
  forall (l : list (jt R)) (p : string) (fs : pyfs),
  exists fs', save_list_gen R dumps l p fs = Val fs' /\
              res_opt (load_list_gen R loads (SrcPath p) fs') = Some (TArr l).
Proof. exact list_file_roundtrip. Qed.
Print Assumptions generated_list_file_roundtrip.

(* ---------------------------------------------------------------- measurements/expectation_values.py *)
Theorem generated_expectation_values_to_dict_is_model : forall (R : Type) (e : expvals R),
  ExpectationValues_to_dict_gen R e = Val (ev_to_dict e).
Proof. exact ExpectationValues_to_dict_gen_eq. Qed.
Print Assumptions generated_expectation_values_to_dict_is_model.

Theorem generated_expectation_values_from_dict_is_model : forall (R : Type) (r_truthy : R -> bool) (j : jt R),
  res_opt (ExpectationValues_from_dict_gen R r_truthy j) = ev_from_dict r_truthy j.
Proof. exact ExpectationValues_from_dict_gen_eq. Qed.
Print Assumptions generated_expectation_values_from_dict_is_model.

(* ---------------------------------------------------------------- operators/_io.py *)
Theorem generated_convert_op_to_dict_is_model : forall (R : Type) (of_nat : nat -> R) (s : list (sterm R)),
  convert_op_to_dict_gen R of_nat s = Val (op_to_dict of_nat s).
Proof. exact convert_op_to_dict_gen_eq. Qed.
Print Assumptions generated_convert_op_to_dict_is_model.

Theorem generated_convert_dict_to_op_is_model : forall (R : Type) (r_truthy : R -> bool) (to_nat : R -> option nat)
  (K : cring) (is_zero : K -> bool) (inj : R -> K) (j : jt R),
  res_opt (convert_dict_to_op_gen R r_truthy to_nat K is_zero inj j) = dict_to_op is_zero r_truthy inj to_nat j.
Proof. exact convert_dict_to_op_gen_eq. Qed.
Print Assumptions generated_convert_dict_to_op_is_model.

Theorem generated_save_operator_is_model : forall (R : Type) (of_nat : nat -> R) (dumps : jt R -> string)
  (s : list (sterm R)) (p : string) (fs : pyfs),
  saved fs p (dumps (op_to_dict of_nat s)) (save_operator_gen R of_nat dumps s p fs).
Proof. exact save_operator_gen_eq. Qed.
Print Assumptions generated_save_operator_is_model.

Theorem generated_load_operator_is_model : forall (R : Type) (r_truthy : R -> bool) (to_nat : R -> option nat)
  (K : cring) (is_zero : K -> bool) (inj : R -> K) (loads : string -> option (jt R)) (file : loadsrc) (fs : pyfs),
  res_opt (load_operator_gen R r_truthy to_nat K is_zero inj loads file fs)
  = load_via loads fs file (dict_to_op is_zero r_truthy inj to_nat).
Proof. exact load_operator_gen_eq. Qed.
Print Assumptions generated_load_operator_is_model.

Theorem generated_save_operator_set_is_model : forall (R : Type) (of_nat : nat -> R) (dumps : jt R -> string)
  (l : list (list (sterm R))) (p : string) (fs : pyfs),
  saved fs p (dumps (opset_to_dict of_nat l)) (save_operator_set_gen R of_nat dumps l p fs).
Proof. exact save_operator_set_gen_eq. Qed.
Print Assumptions generated_save_operator_set_is_model.

Theorem generated_load_operator_set_is_model : forall (R : Type) (r_truthy : R -> bool) (to_nat : R -> option nat)
  (K : cring) (is_zero : K -> bool) (inj : R -> K) (loads : string -> option (jt R)) (file : loadsrc) (fs : pyfs),
  res_opt (load_operator_set_gen R r_truthy to_nat K is_zero inj loads file fs)
  = load_via loads fs file (dict_to_opset is_zero r_truthy inj to_nat).
Proof. exact load_operator_set_gen_eq. Qed.
Print Assumptions generated_load_operator_set_is_model.

(* ---------------------------------------------------------------- operators/_pauli_operators.py, the text side *)
(* __repr__ reads the letter of an index through the dict _ops: on a dict (distinct keys) it is the model *)
Theorem generated_term_repr_is_model : forall (C : Type) (show_c : C -> string) (t : tterm C),
  NoDup (map fst (snd t)) -> PauliTerm_repr_gen C show_c t = Val (repr_term show_c t).
Proof. exact PauliTerm_repr_gen_eq. Qed.
Print Assumptions generated_term_repr_is_model.

(* and on every list of pairs: the first entry of an index gives the letter *)
Theorem generated_term_repr_on_all_inputs : forall (C : Type) (show_c : C -> string) (t : tterm C),
  PauliTerm_repr_gen C show_c t
  = Val ((show_c (fst t) ++ "*" ++ String.concat "*"
           (match snd t with
            | [] => ["I"]
            | l => map (fun ql => (py_ops_get l (fst ql) "I" ++ NatKey.dec (N.of_nat (fst ql)))%string) l
            end))%string).
Proof. exact PauliTerm_repr_gen_spec. Qed.
Print Assumptions generated_term_repr_on_all_inputs.

Theorem generated_sum_repr_is_model : forall (C : Type) (show_c : C -> string) (c_zero : C) (s : list (tterm C)),
  Forall (fun t => NoDup (map fst (snd t))) s ->
  PauliSum_repr_gen C show_c c_zero s = Val (repr_sum show_c c_zero s).
Proof. exact PauliSum_repr_gen_eq. Qed.
Print Assumptions generated_sum_repr_is_model.

(* _parse_operator: index and upper-cased letter of the model's parse_op *)
Theorem generated_parse_operator_is_model : forall s : string,
  res_opt (parse_operator_gen s) = option_map (fun qa => (fst qa, oletter_str (snd qa))) (parse_op s).
Proof. exact parse_operator_gen_eq. Qed.
Print Assumptions generated_parse_operator_is_model.

(* PauliTerm(str) of the model = the translated _parse_operators_and_coefficient, then what __init__ does with its
   result (init_from_parsed, hand-written: letters checked, identities dropped, default coefficient) *)
Theorem generated_parse_term_is_model : forall (C : Type) (read_c : string -> option C) (c_one : C) (s : string),
  parse_term read_c c_one s
  = match res_opt (parse_operators_and_coefficient_gen C read_c s) with
    | Some r => init_from_parsed c_one r
    | None => None
    end.
Proof. exact parse_operators_and_coefficient_gen_eq. Qed.
Print Assumptions generated_parse_term_is_model.

(* the generated functions run: a dictionary through the translated loader and writer, a term through the translated
   parser and printer *)
Example generated_functions_run :
  (let e := mk_ev (AReal (NNode [NLeaf (NFloat "0.5"); NLeaf (NFloat "-0.25")]))
                  (Some [ACplx (NNode [NNode [NLeaf (NFloat "1.0", NFloat "2.0")]])]) (Some []) in
   bind (ExpectationValues_to_dict_gen num e) (ExpectationValues_from_dict_gen num num_truthy)
   = Val (mk_ev (AReal (NNode [NLeaf (NFloat "0.5"); NLeaf (NFloat "-0.25")]))
                (Some [ACplx (NNode [NNode [NLeaf (NFloat "1.0", NFloat "2.0")]])]) None)) /\
  convert_op_to_dict_gen Z Z.of_nat [(PCplx 2%Z 3%Z, [(12%nat, PZ); (0%nat, PX)])]
  = Val (TObj [("terms", TArr [TObj [("pauli_ops", TArr [TObj [("qubit", TNum 12%Z); ("op", TStr "Z")];
                                                          TObj [("qubit", TNum 0%Z); ("op", TStr "X")]]);
                                     ("coefficient", TObj [("real", TNum 2%Z); ("imag", TNum 3%Z)])]])]) /\
  parse_operators_and_coefficient_gen string txt_read "(1e-20+5j) * z123*X0 * I"
  = Val (Some "(1e-20+5j)", [(123%nat, "Z"); (0%nat, "X")]) /\
  parse_operators_and_coefficient_gen string txt_read "2*X1*Y1" = Raise ValueError /\
  PauliSum_repr_gen string (fun c => c) "0" [("(1e-20+5j)", [(123%nat, PZ); (0%nat, PX)]); ("1e-05", [])]
  = Val "(1e-20+5j)*Z123*X0 + 1e-05*I".
Proof. vm_compute. repeat split; reflexivity. Qed.
