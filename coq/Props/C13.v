(* C13 - Splitting, batching and recombining shots never loses or invents a shot.
   Property theorems only; every proof is [exact <lemma>].  The function expand_sample_size is
   generated from circuits/_itertools.py on every run (Gen/ExpandGen.v). *)
Require Import Coq.ZArith.ZArith Coq.Lists.List Coq.Strings.String.
Require Import OQ.Gen.ExpandGen OQ.Stats.Shots OQ.Stats.ShotsProofs.
Import ListNotations.
Open Scope Z_scope.

(* one circuit: copies each between 1 and the maximum, summing exactly to the request; multiplicity = number of copies *)
Theorem expand_one_exact : forall n m, 0 < n -> 0 < m ->
  zsum (fst (expand_sample_size n m)) = n /\
  Forall (fun c => 1 <= c <= m) (fst (expand_sample_size n m)) /\
  Z.of_nat (List.length (fst (expand_sample_size n m))) = snd (expand_sample_size n m) /\
  0 < snd (expand_sample_size n m).
Proof. exact expand_one_spec. Qed.
Print Assumptions expand_one_exact.

Example expand_one_premises_met : expand_sample_size 10 4 = ([4; 4; 2], 3).
Proof. vm_compute. reflexivity. Qed.

(* all circuits: every new sample count within range *)
Theorem expand_all_in_range : forall (A : Type) (cs : list A) ns m, pos_list ns -> 0 < m ->
  Forall (fun c => 1 <= c <= m) (snd (fst (expand_sample_sizes cs ns m))).
Proof. exact @expand_sizes_range. Qed.
Print Assumptions expand_all_in_range.

(* regrouping the new sample counts by the returned multiplicities gives, per original circuit in order, its request *)
Theorem expand_all_totals : forall (A : Type) (cs : list A) ns m, pos_list ns -> 0 < m ->
  map zsum (regroup (snd (fst (expand_sample_sizes cs ns m))) (map Z.to_nat (snd (expand_sample_sizes cs ns m)))) = ns.
Proof. exact @expand_sizes_totals. Qed.
Print Assumptions expand_all_totals.

(* the new circuit list is each original circuit, in order, repeated multiplicity times, aligned with the new counts *)
Theorem expand_all_circuits : forall (A : Type) (cs : list A) ns m, List.length cs = List.length ns ->
  fst (fst (expand_sample_sizes cs ns m))
  = flat_map (fun cn => repeat (fst cn) (Z.to_nat (snd (expand_sample_size (snd cn) m)))) (combine cs ns).
Proof. exact @expand_sizes_circuits. Qed.
Print Assumptions expand_all_circuits.

Theorem expand_all_aligned : forall (A : Type) (cs : list A) ns m, pos_list ns -> 0 < m -> List.length cs = List.length ns ->
  List.length (fst (fst (expand_sample_sizes cs ns m))) = List.length (snd (fst (expand_sample_sizes cs ns m))).
Proof. exact @expand_sizes_same_length. Qed.
Print Assumptions expand_all_aligned.

(* combining per-copy results: a partition of the inputs in order - nothing lost, nothing invented; a result is only
   returned for non-negative multiplicities (islice raises ValueError on a negative count) *)
Theorem combine_is_partition : forall (A : Type) (all : list (list A)) mults groups,
  combine_bitstrings all mults = Some groups ->
  Forall (fun k => 0 <= k) mults /\
  exists parts, List.concat parts = all /\ map (@List.length _) parts = map Z.to_nat mults /\
                groups = map (@List.concat A) parts.
Proof. exact @combine_bitstrings_partition. Qed.
Print Assumptions combine_is_partition.

Theorem combine_rejects_mismatch : forall (A : Type) (all : list (list A)) mults,
  Z.of_nat (List.length all) <> zsum mults -> combine_bitstrings all mults = None.
Proof. exact @combine_bitstrings_rejects. Qed.
Print Assumptions combine_rejects_mismatch.

Theorem combine_rejects_negative : forall (A : Type) (all : list (list A)) mults,
  (exists k, In k mults /\ k < 0) -> combine_bitstrings all mults = None.
Proof. exact @combine_bitstrings_rejects_negative. Qed.
Print Assumptions combine_rejects_negative.

(* combined counts dictionaries: per-outcome counts and totals are the sums over the group *)
Theorem combine_counts_exact : forall g r, combine_group g = Some r ->
  (forall k, count_of k r = zsum (map (count_of k) g)) /\ total r = zsum (map total g).
Proof. exact combine_group_counts. Qed.
Print Assumptions combine_counts_exact.

(* expand, run every copy for exactly its count, combine with the returned multiplicities: per-circuit totals = requests *)
Theorem expand_run_combine_exact : forall (A : Type) (cs : list A) (B : Type) ns m (res : list (list B)),
  pos_list ns -> 0 < m ->
  map (@List.length B) res = map Z.to_nat (snd (fst (expand_sample_sizes cs ns m))) ->
  exists groups, combine_bitstrings res (snd (expand_sample_sizes cs ns m)) = Some groups /\
                 map (@List.length B) groups = map Z.to_nat ns.
Proof. exact @expand_run_combine. Qed.
Print Assumptions expand_run_combine_exact.

(* batches: cover every circuit once in order, bounded size, enough samples for every member *)
Theorem batches_cover_all : forall (A : Type) (cs : list A) ns k bs, split_into_batches cs ns k = Some bs ->
  List.concat (map fst bs) = cs /\
  Forall (fun c => (1 <= List.length c <= Z.to_nat k)%nat) (map fst bs) /\
  exists nss, List.concat nss = ns /\ map (@List.length Z) nss = map (@List.length A) (map fst bs) /\
              map snd bs = map zmax_list nss /\
              Forall (fun nsb => forall n, In n nsb -> n <= zmax_list nsb) nss.
Proof. exact @batches_cover. Qed.
Print Assumptions batches_cover_all.

Theorem batches_reject_bad_input : forall (A : Type) (cs : list A) ns k,
  List.length cs <> List.length ns \/ k <= 0 -> split_into_batches cs ns k = None.
Proof. exact @batches_reject. Qed.
Print Assumptions batches_reject_bad_input.

Example batches_premises_met :
  split_into_batches [1; 2; 3; 4; 5] [10; 30; 20; 7; 9] 2 = Some [([1; 2], 30); ([3; 4], 20); ([5], 9)].
Proof. vm_compute. reflexivity. Qed.

(* scaling weights to an integer total *)
Theorem scale_sums_to_total : forall ws T order, 0 < zsum ws -> 0 <= T ->
  NoDup order -> Forall (fun i => (i < List.length ws)%nat) order ->
  (Z.to_nat (T - zsum (map (fun w => (w * T) / zsum ws) ws))%Z <= List.length order)%nat ->
  zsum (scale_and_discretize ws T order) = T.
Proof. exact scale_sum. Qed.
Print Assumptions scale_sums_to_total.

Theorem scale_topups_fit : forall ws T, 0 < zsum ws -> 0 <= T ->
  let k := T - zsum (map (fun w => (w * T) / zsum ws) ws) in
  0 <= k /\ (k < Z.of_nat (List.length ws) \/ k = 0).
Proof. exact topups_range. Qed.
Print Assumptions scale_topups_fit.

Theorem scale_within_one_of_share : forall ws T order i, 0 < zsum ws ->
  (i < List.length ws)%nat ->
  let r := nth i (scale_and_discretize ws T order) 0 in
  let w := nth i ws 0 in
  let k := Z.to_nat (T - zsum (map (fun w => (w * T) / zsum ws) ws)) in
  - zsum ws < zsum ws * r - w * T <= zsum ws /\
  ((bump order k i = 1 -> 0 < (w * T) mod zsum ws) -> zsum ws * r - w * T < zsum ws).
Proof. exact scale_within_one_gen. Qed.
Print Assumptions scale_within_one_of_share.

Example scale_premises_met : scale_and_discretize [1; 1; 2] 10 [1%nat; 0%nat; 2%nat] = [2; 3; 5].
Proof. vm_compute. reflexivity. Qed.

(* ---------------------------------------------------------------- measurements that represent a distribution
   (Measurements.get_measurements_representing_distribution with _check_sample_elimination).  Probabilities are
   w_k / sum(w); the random sampler is an input (the Counters it returned, in order); [run_ok] is what is assumed
   of it: each call returns the requested number of outcomes, over keys of positive leftover weight.  The harness
   records the real sampler's results on every case and Coq checks [run_okb] on them. *)
Require Import OQ.Stats.Represent OQ.Stats.RepresentProofs.

Theorem represent_returns_requested_number_of_shots : forall ws N draws res,
  weights_ok ws -> 0 <= N -> run_ok ws N draws -> represent ws N draws = Some res -> zsum res = N.
Proof. exact represent_count_ok. Qed.
Print Assumptions represent_returns_requested_number_of_shots.

Theorem represent_shots_on_support : forall ws N draws res,
  weights_ok ws -> 0 <= N -> run_ok ws N draws -> represent ws N draws = Some res ->
  forall k, 0 < nth k res 0 -> 0 < nth k ws 0.
Proof. exact represent_support. Qed.
Print Assumptions represent_shots_on_support.

(* the removal loop never removes an outcome more often than it is present *)
Theorem represent_never_removes_absent_shots : forall ws N draws res,
  weights_ok ws -> 0 <= N -> run_ok ws N draws -> represent ws N draws = Some res -> Forall (fun c => 0 <= c) res.
Proof. exact represent_nonnegative. Qed.
Print Assumptions represent_never_removes_absent_shots.

Theorem recorded_draws_checker_sound : forall ws N draws, run_okb ws N draws = true -> run_ok ws N draws.
Proof. exact run_okb_sound. Qed.
Print Assumptions recorded_draws_checker_sound.

Example represent_premises_met :
  represent [1; 1; 1; 1; 1] 3 [[(0%nat, 1); (3%nat, 1)]; [(2%nat, 1)]] = Some [0; 1; 1; 0; 1]
  /\ run_okb [1; 1; 1; 1; 1] 3 [[(0%nat, 1); (3%nat, 1)]; [(2%nat, 1)]] = true.
Proof. vm_compute. split; reflexivity. Qed.

(* ---------------------------------------------------------------- why the elimination loop ends and can always resample
   (RepresentTermination.v: the loop with the zeroing of probabilities explicit; RepresentFeasibility.v: capacity
   argument).  [run_req] is [run_ok] without "the loop ends within the fuel"; [run_avoid] says that a sampler result
   only has keys of positive leftover weight that were not zeroed in an earlier round.  The harness checks
   [run_avoidb] on the recorded sampler results of every represent case. *)
Require Import OQ.Stats.RepresentTermination OQ.Stats.RepresentFeasibility.

Theorem elimination_with_zeroing_agrees : forall lw counts fuel zs correct draws,
  draws_avoid lw counts zs correct draws -> eliminate_z lw counts fuel zs correct draws = eliminate fuel counts correct draws.
Proof. exact eliminate_z_eq. Qed.
Print Assumptions elimination_with_zeroing_agrees.

Theorem elimination_loop_terminates : forall ws N d ds fuel,
  weights_ok ws -> 0 <= N -> N < zsum (rounded ws N) ->
  run_req ws N (d :: ds) -> run_avoid ws N (d :: ds) ->
  (List.length (pos_keys (List.length ws) (lwt ws N)) <= fuel)%nat ->
  (List.length (pos_keys (List.length ws) (lwt ws N)) <= List.length ds)%nat ->
  (exists e, eliminate fuel (cnt ws N) d ds = Some e /\ ctotal e = zsum (rounded ws N) - N /\
             forall k, 0 <= cget k e <= cnt ws N k) /\
  draws_fit_range (List.length ws) fuel (cnt ws N) d ds.
Proof. exact eliminate_terminates. Qed.
Print Assumptions elimination_loop_terminates.

Theorem represent_terminates_and_meets_clause : forall ws N draws,
  weights_ok ws -> 0 <= N -> run_req ws N draws -> run_avoid ws N draws ->
  (List.length ws < List.length draws)%nat ->
  exists res, represent ws N draws = Some res /\ zsum res = N /\ (forall k, 0 < nth k res 0 -> 0 < nth k ws 0) /\
              Forall (fun c => 0 <= c) res.
Proof. exact represent_total. Qed.
Print Assumptions represent_terminates_and_meets_clause.

Theorem represent_run_ok_without_termination_assumption : forall ws N draws,
  weights_ok ws -> 0 <= N -> run_req ws N draws -> run_avoid ws N draws ->
  (List.length (pos_keys (List.length ws) (lwt ws N)) < List.length draws)%nat ->
  run_ok ws N draws /\ exists res, represent ws N draws = Some res.
Proof. exact represent_terminates. Qed.
Print Assumptions represent_run_ok_without_termination_assumption.

Theorem rounding_surplus_needs_twice_as_many_keys : forall ws N,
  weights_ok ws -> 0 <= N -> 2 * (zsum (rounded ws N) - N) <= nup ws N.
Proof. exact surplus_capacity. Qed.
Print Assumptions rounding_surplus_needs_twice_as_many_keys.

Theorem rounding_surplus_below_capacity : forall ws N,
  weights_ok ws -> 0 <= N -> N < zsum (rounded ws N) -> zsum (rounded ws N) - N < cap ws N.
Proof. exact surplus_lt_cap. Qed.
Print Assumptions rounding_surplus_below_capacity.

Theorem first_sampling_always_possible : forall ws N, weights_ok ws -> zsum (rounded ws N) <> N ->
  exists j, (j < List.length ws)%nat /\ 0 < lwt ws N j.
Proof. exact initial_sampling_possible. Qed.
Print Assumptions first_sampling_always_possible.

Theorem elimination_resampling_always_possible : forall ws N d ds,
  weights_ok ws -> 0 <= N -> N < zsum (rounded ws N) ->
  run_req ws N (d :: ds) -> run_avoid ws N (d :: ds) ->
  feasible_run (List.length ws) (lwt ws N) (cnt ws N) [] d ds.
Proof. exact resampling_always_possible. Qed.
Print Assumptions elimination_resampling_always_possible.

Theorem elimination_loop_total_for_any_sampler : forall ws N (sampler : list nat -> Z -> counter) d,
  weights_ok ws -> 0 <= N -> N < zsum (rounded ws N) ->
  (forall zs amount, 0 < amount -> (exists j, (j < List.length ws)%nat /\ avail (lwt ws N) zs j = true) ->
     ctotal (sampler zs amount) = amount /\ cnonneg (sampler zs amount) /\ in_range (List.length ws) (sampler zs amount) /\
     draw_avoid (lwt ws N) zs (sampler zs amount)) ->
  ctotal d = zsum (rounded ws N) - N -> cnonneg d -> NoDup (ckeys d) -> in_range (List.length ws) d -> first_ok ws N d ->
  exists e, run_loop (cnt ws N) sampler (List.length ws) [] d = Some e /\
            eliminate (List.length ws) (cnt ws N) d (run_trace (cnt ws N) sampler (List.length ws) [] d) = Some e /\
            ctotal e = zsum (rounded ws N) - N /\ forall k, 0 <= cget k e <= cnt ws N k.
Proof. exact elimination_loop_total. Qed.
Print Assumptions elimination_loop_total_for_any_sampler.

Theorem recorded_zeroing_checker_sound : forall ws N draws,
  andb (run_okb ws N draws) (run_avoidb ws N draws) = true -> run_req ws N draws /\ run_avoid ws N draws.
Proof. exact recorded_run_sound. Qed.
Print Assumptions recorded_zeroing_checker_sound.

Example termination_premises_met :
  let ws := [1; 1; 1; 1; 1; 1; 1] in
  let draws := [[(0%nat, 3)]; [(1%nat, 2)]; [(2%nat, 1)]; []; []; []; []; []] in
  andb (run_okb ws 4 draws) (run_avoidb ws 4 draws) = true /\ (List.length ws < List.length draws)%nat /\
  represent ws 4 draws = Some [0; 0; 0; 1; 1; 1; 1].
Proof. vm_compute. split; [reflexivity|]. split; [repeat constructor|reflexivity]. Qed.

(* ---------------------------------------------------------------- the model functions above ARE the code: expand_sample_sizes,
   _combine_measurements, combine_measurement_counts, combine_bitstrings, _iterate_in_batches and split_into_batches are
   translated from circuits/_itertools.py on every run (tr/tr_itertools.py -> Gen/ItertoolsGen.v, construct by construct;
   meaning of the emitted constants: Stats/ItertoolsTrSupport.v) and proved equal to the model functions used above. *)
Require Import OQ.Gen.ItertoolsGen OQ.Stats.ItertoolsTrSupport OQ.Stats.ItertoolsGenProofs.

Theorem generated_expand_is_model : forall (A : Type) (cs : list A) ns m,
  expand_sample_sizes_gen cs ns m = expand_sample_sizes cs ns m.
Proof. exact expand_sample_sizes_gen_eq. Qed.
Print Assumptions generated_expand_is_model.

Theorem generated_combine_measurements_is_model : forall a b, combine_measurements_gen a b = combine2 a b.
Proof. exact combine_measurements_gen_eq. Qed.
Print Assumptions generated_combine_measurements_is_model.

Theorem generated_combine_counts_is_model : forall all mults,
  combine_measurement_counts_gen all mults = combine_measurement_counts all mults.
Proof. exact combine_measurement_counts_gen_eq. Qed.
Print Assumptions generated_combine_counts_is_model.

Theorem generated_combine_bitstrings_is_model : forall (all : list (list string)) mults,
  combine_bitstrings_gen all mults = combine_bitstrings all mults.
Proof. exact combine_bitstrings_gen_eq. Qed.
Print Assumptions generated_combine_bitstrings_is_model.

(* islice raises on a negative count, whatever the length guard says *)
Theorem generated_combine_bitstrings_negative_raises : forall (all : list (list string)) mults,
  (exists k, In k mults /\ k < 0) -> combine_bitstrings_gen all mults = None.
Proof. exact combine_bitstrings_gen_negative. Qed.
Print Assumptions generated_combine_bitstrings_negative_raises.

Theorem generated_iterate_in_batches_is_model : forall (A : Type) (xs : list A) k, 0 < k ->
  iterate_in_batches_gen xs k = Some (chunks (List.length xs) (Z.to_nat k) xs).
Proof. exact iterate_in_batches_gen_eq. Qed.
Print Assumptions generated_iterate_in_batches_is_model.

Theorem generated_batches_is_model : forall (A : Type) (cs : list A) ns k,
  split_into_batches_gen cs ns k = split_into_batches cs ns k.
Proof. exact split_into_batches_gen_eq. Qed.
Print Assumptions generated_batches_is_model.

Theorem generated_combine_is_partition : forall (all : list (list string)) mults groups,
  combine_bitstrings_gen all mults = Some groups ->
  Forall (fun k => 0 <= k) mults /\
  exists parts, List.concat parts = all /\ map (@List.length _) parts = map Z.to_nat mults /\
                groups = map (@List.concat string) parts.
Proof. exact gen_combine_is_partition. Qed.
Print Assumptions generated_combine_is_partition.

Theorem generated_expand_run_combine_exact : forall (A : Type) (cs : list A) ns m (res : list (list string)),
  pos_list ns -> 0 < m ->
  map (@List.length string) res = map Z.to_nat (snd (fst (expand_sample_sizes_gen cs ns m))) ->
  exists groups, combine_bitstrings_gen res (snd (expand_sample_sizes_gen cs ns m)) = Some groups /\
                 map (@List.length string) groups = map Z.to_nat ns.
Proof. exact gen_expand_run_combine. Qed.
Print Assumptions generated_expand_run_combine_exact.

Example generated_premises_met :
  expand_sample_sizes_gen ["a"; "b"]%string [10; 3] 4 = (["a"; "a"; "a"; "b"]%string, [4; 4; 2; 3], [3; 1]) /\
  combine_bitstrings_gen [["00"; "01"]; ["1"]; ["0"]]%string [1; 2] = Some [["00"; "01"]; ["1"; "0"]]%string /\
  combine_measurement_counts_gen [[("0", 1); ("1", 2)]; [("2", 1); ("0", 5)]]%string [2] = Some [[("0", 6); ("1", 2); ("2", 1)]]%string /\
  split_into_batches_gen [1; 2; 3; 4; 5] [10; 30; 20; 7; 9] 2 = Some [([1; 2], 30); ([3; 4], 20); ([5], 9)].
Proof. vm_compute. repeat split; reflexivity. Qed.
