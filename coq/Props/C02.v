(* C02 - Every built-in gate is a valid unitary that keeps its textbook identities.
   All statements are about Gen/GatesGen.v, regenerated from circuits/_matrices.py and
   circuits/_builtin_gates.py on every run; parameters range over all real numbers. *)
Require Import Coq.Reals.Reals Coq.Lists.List Coq.Strings.String.
Require Import OQ.Base.Ring OQ.Base.LMat OQ.Gates.CR OQ.Gen.GatesGen OQ.Gates.Builtin.
Import ListNotations.
Open Scope R_scope.

(* the table holds exactly the 27 gates of the property *)
Theorem table_is_the_27_gates : map g_name gate_table = builtin_names /\ List.length gate_table = 27%nat.
Proof. split; [exact table_names|reflexivity]. Qed.
Print Assumptions table_is_the_27_gates.

(* every gate, every real parameter list of the declared length: the matrix exists, is square of
   dimension 2^num_qubits, and is unitary *)
Theorem every_builtin_gate_is_unitary : forall e ps, In e gate_table -> List.length ps = g_nparams e ->
  exists M, gate_matrix (g_name e) ps = Some M /\
            lsquare (K:=CRring) (2 ^ g_qubits e) M = true /\
            lmmul (K:=CRring) (ladj (K:=CRring) M) M = leye (K:=CRring) (2 ^ g_qubits e).
Proof. exact table_unitary. Qed.
Print Assumptions every_builtin_gate_is_unitary.

(* a gate flagged self-adjoint equals its own conjugate transpose, at every parameter *)
Theorem hermitian_flag_sound : forall e ps M, In e gate_table -> g_hermitian e = true ->
  gate_matrix (g_name e) ps = Some M -> ladj (K:=CRring) M = M.
Proof. exact table_hermitian. Qed.
Print Assumptions hermitian_flag_sound.

Example flagged_gates_exist : exists e, In e gate_table /\ g_hermitian e = true /\ g_nparams e = 1%nat.
Proof. exists {| g_name := "GPi"; g_factory := "gpi_matrix"; g_nparams := 1; g_qubits := 1; g_hermitian := true |}.
       split; [cbv [gate_table In]; tauto|split; reflexivity]. Qed.

(* additive one-parameter groups: angle a followed by angle b is angle a+b; angle 0 is the identity *)
Theorem rotation_gates_compose_additively : forall a b,
  mm (rx_matrix a) (rx_matrix b) = rx_matrix (a + b) /\ mm (ry_matrix a) (ry_matrix b) = ry_matrix (a + b) /\
  mm (rz_matrix a) (rz_matrix b) = rz_matrix (a + b) /\ mm (rh_matrix a) (rh_matrix b) = rh_matrix (a + b) /\
  mm (phase_matrix a) (phase_matrix b) = phase_matrix (a + b) /\
  mm (cphase_matrix a) (cphase_matrix b) = cphase_matrix (a + b) /\
  mm (xx_matrix a) (xx_matrix b) = xx_matrix (a + b) /\ mm (yy_matrix a) (yy_matrix b) = yy_matrix (a + b) /\
  mm (zz_matrix a) (zz_matrix b) = zz_matrix (a + b) /\ mm (xy_matrix a) (xy_matrix b) = xy_matrix (a + b).
Proof.
  exact (fun a b => conj (group_rx a b) (conj (group_ry a b) (conj (group_rz a b) (conj (group_rh a b)
        (conj (group_phase a b) (conj (group_cphase a b) (conj (group_xx a b) (conj (group_yy a b)
        (conj (group_zz a b) (group_xy a b)))))))))).
Qed.
Print Assumptions rotation_gates_compose_additively.

Theorem rotation_gates_at_zero_are_identity :
  rx_matrix 0 = Id 2 /\ ry_matrix 0 = Id 2 /\ rz_matrix 0 = Id 2 /\ rh_matrix 0 = Id 2 /\ phase_matrix 0 = Id 2 /\
  cphase_matrix 0 = Id 4 /\ xx_matrix 0 = Id 4 /\ yy_matrix 0 = Id 4 /\ zz_matrix 0 = Id 4 /\ xy_matrix 0 = Id 4.
Proof.
  exact (conj zero_rx (conj zero_ry (conj zero_rz (conj zero_rh (conj zero_phase (conj zero_cphase
        (conj zero_xx (conj zero_yy (conj zero_zz zero_xy))))))))).
Qed.
Print Assumptions rotation_gates_at_zero_are_identity.

(* defining relations of the fixed gates *)
Theorem fixed_gate_relations :
  mm s_matrix s_matrix = z_matrix /\ mm t_matrix t_matrix = s_matrix /\ mm sx_matrix sx_matrix = x_matrix /\
  mm h_matrix (mm z_matrix h_matrix) = x_matrix /\
  cnot_matrix = ldiag_id (K:=CRring) 2 x_matrix /\ cz_matrix = ldiag_id (K:=CRring) 2 z_matrix /\
  (forall a b c d : bool,
     lent (K:=CRring) swap_matrix (2 * (if a then 1 else 0) + (if b then 1 else 0)) (2 * (if c then 1 else 0) + (if d then 1 else 0))
     = if andb (Bool.eqb a d) (Bool.eqb b c) then cr1 else cr0) /\
  (forall d, delay_matrix d = Id 2).
Proof.
  exact (conj s_s_z (conj t_t_s (conj sx_sx_x (conj h_z_h_x (conj cnot_controlled_x (conj cz_controlled_z
        (conj swap_exchanges delay_identity))))))).
Qed.
Print Assumptions fixed_gate_relations.
