(* C17 - Outcome distributions stay normalised; marginals and distances obey their laws.
   Property theorems only; every proof is [exact <lemma>].  Model: Stats/Dist.v (rationals, dictionaries as
   association lists in insertion order), Stats/DistReal.v (distances over the reals). *)
Require Import Coq.ZArith.ZArith Coq.QArith.QArith Coq.QArith.Qabs Coq.Lists.List Coq.Strings.String.
Require Import Coq.Reals.Reals Coq.Sorting.Permutation.
Require Import OQ.Stats.Dist OQ.Stats.DistProofs OQ.Stats.DistReal OQ.Stats.GaussPSD.
Import ListNotations.
Open Scope Q_scope.

(* ------------------------------------------------------------------ the constructor, normalisation on *)

(* what "is_normalized" accepts: the total is within 1e-9 of 1 (relative to max(1, total)) *)
Theorem normalised_means : forall s,
  close1 s = true <-> (Qabs (s - 1) <= 1 # 1000000000 \/ Qabs (s - 1) <= (1 # 1000000000) * Qabs s).
Proof. exact close1_spec. Qed.
Print Assumptions normalised_means.

(* An object built with normalisation on: same outcomes in the same order, non-negative probabilities, a total
   that is_normalized accepts - exactly 1 whenever the input total was not already accepted, the input itself
   otherwise - and the same proportions as the input (p_k / total p = w_k / total w, cross-multiplied). *)
Theorem make_normalised : forall d p, make d true = Ok p ->
  map fst p = map fst d /\ nonneg p /\ close1 (mass p) = true /\
  (close1 (mass d) = false -> mass p == 1) /\
  (close1 (mass d) = true -> p = d) /\
  0 < mass d /\
  Forall2 (fun a b => fst a = fst b /\ snd a * mass d == snd b * mass p) p d.
Proof. exact make_normalised_lemma. Qed.
Print Assumptions make_normalised.

(* every valid dictionary with a positive total that is not below sys.float_info.min = 2^-1022 is accepted (the code
   refuses to divide by a total in (0, float_min): "too small values"); with normalisation off it is kept as it is *)
Theorem tiny_means : forall s, tiny s = true <-> 0 < s /\ s < 1 # (2 ^ 1022).
Proof. exact tiny_iff. Qed.
Print Assumptions tiny_means.

Theorem make_accepts_valid : forall d, valid d = true -> 0 < mass d -> tiny (mass d) = false ->
  exists p, make d true = Ok p.
Proof. exact make_accepts. Qed.
Print Assumptions make_accepts_valid.

Theorem make_rejects_tiny_total : forall d, valid d = true -> tiny (mass d) = true -> make d true = Err ValueErr.
Proof. exact make_tiny_mass. Qed.
Print Assumptions make_rejects_tiny_total.

Theorem make_normalised_total_not_tiny : forall d p, make d true = Ok p -> tiny (mass d) = false.
Proof. exact make_true_not_tiny. Qed.
Print Assumptions make_normalised_total_not_tiny.

Theorem make_without_normalisation : forall d, valid d = true -> make d false = Ok d.
Proof. exact make_false. Qed.
Print Assumptions make_without_normalisation.

Theorem valid_means : forall d, valid d = true <->
  d <> [] /\ nonneg d /\ Forall (fun kv => List.length (fst kv) = nsub d) d.
Proof. exact valid_iff. Qed.
Print Assumptions valid_means.

(* rejection: empty input, a negative value, two keys of unequal length (RuntimeError, whatever [normalize] is);
   all-zero weights cannot be normalised (ValueError) *)
Theorem make_rejects : forall d n,
  d = [] \/ (exists k v, In (k, v) d /\ v < 0) \/
  (exists k v k' v', In (k, v) d /\ In (k', v') d /\ List.length k <> List.length k') ->
  make d n = Err RuntimeErr.
Proof. exact make_rejects_cases. Qed.
Print Assumptions make_rejects.

Theorem make_rejects_zero_total : forall d, valid d = true -> mass d == 0 -> make d true = Err ValueErr.
Proof. exact make_zero_mass. Qed.
Print Assumptions make_rejects_zero_total.

(* raw dictionaries: tuple keys (distinct, as in a Python dict) are taken as they are; string keys are read with
   key_read; an unreadable string key is an error *)
Theorem raw_tuple_keys : forall d n, NoDup (map fst d) ->
  make_raw (map (fun kv => (KTup (fst kv), snd kv)) d) n = make d n.
Proof. exact make_raw_tuples. Qed.
Print Assumptions raw_tuple_keys.

Theorem raw_keys_read : forall r d,
  map (fun kv => rawkey_read (fst kv)) r = map (fun kv => Some (fst kv)) d ->
  map snd r = map snd d -> NoDup (map fst d) -> preprocess r = Ok d.
Proof. exact preprocess_ok. Qed.
Print Assumptions raw_keys_read.

Theorem raw_unreadable_key : forall r s v, In (KStr s, v) r -> key_read s = None -> preprocess r = Err ValueErr.
Proof. exact preprocess_unparsable. Qed.
Print Assumptions raw_unreadable_key.

Example make_premises_met :
  match make_raw [(KStr "10,2", 1 # 2); (KTup [0; 3]%nat, 3 # 2)] true with
  | Ok [(k1, v1); (k2, v2)] => k1 = [10; 2]%nat /\ k2 = [0; 3]%nat /\ v1 == 1 # 4 /\ v2 == 3 # 4
  | _ => False
  end /\ valid [([10; 2]%nat, 1 # 2); ([0; 3]%nat, 3 # 2)] = true.
Proof. vm_compute. repeat split; reflexivity. Qed.

(* ------------------------------------------------------------------ marginals *)

(* For every valid source and every non-empty duplicate-free in-range qubit list, in any order, subdistribution
   returns an object m and the source unchanged; m's outcomes are exactly the projections (qubits in the listed
   order) of the source outcomes, each once, each carrying the sum of the probabilities of its fibre; the masses
   agree. *)
Theorem marginal_is_fibre_sum : forall qs d, valid d = true ->
  qs <> [] -> NoDup qs -> Forall (fun q => (q < nsub d)%nat) qs ->
  exists m, subdistribution qs d = (Ok m, d) /\
    (forall k, getd k m == fibre qs k d) /\
    (forall k, In k (map fst m) <-> exists kv, In kv d /\ proj qs (fst kv) = k) /\
    NoDup (map fst m) /\ mass m == mass d /\ nonneg m /\
    Forall (fun kv => List.length (fst kv) = List.length qs) m.
Proof. exact marginal_law. Qed.
Print Assumptions marginal_is_fibre_sum.

Theorem marginal_rejects_bad_qubits : forall qs d, valid d = true ->
  qs = [] \/ ~ NoDup qs \/ (exists q, In q qs /\ (nsub d <= q)%nat) ->
  subdistribution qs d = (Err ValueErr, d).
Proof. exact subdistribution_rejects. Qed.
Print Assumptions marginal_rejects_bad_qubits.

(* the source dictionary after the call is the source dictionary before it, whatever happens *)
Theorem marginal_source_intact : forall qs d, snd (subdistribution qs d) = d.
Proof. exact subdistribution_source. Qed.
Print Assumptions marginal_source_intact.

Example marginal_premises_met :
  match subdistribution [2; 0]%nat [([10; 1; 0]%nat, 1 # 2); ([2; 3; 0]%nat, 1 # 4); ([10; 7; 0]%nat, 1 # 4)] with
  | (Ok [(k1, v1); (k2, v2)], src) =>
      k1 = [0; 10]%nat /\ k2 = [0; 2]%nat /\ v1 == 3 # 4 /\ v2 == 1 # 4 /\
      src = [([10; 1; 0]%nat, 1 # 2); ([2; 3; 0]%nat, 1 # 4); ([10; 7; 0]%nat, 1 # 4)]
  | _ => False
  end.
Proof. vm_compute. repeat split; reflexivity. Qed.

(* ------------------------------------------------------------------ the text form of keys; save then load *)

(* the Python codec (",".join(map(str, key)) / digits-or-comma-separated reader) returns every key except a
   single outcome of two or more digits *)
Theorem key_codec : forall k, codec_safe k -> key_read (key_show k) = Some k.
Proof. exact key_codec_safe. Qed.
Print Assumptions key_codec.

(* binary / digit strings such as "0110" are read one character per subsystem *)
Theorem key_read_digit_string : forall k, Forall (fun n => (n < 10)%nat) k -> key_read (digits_show k) = Some k.
Proof. exact key_read_digits. Qed.
Print Assumptions key_read_digit_string.

(* full statement [forall k, key_read (key_show k) = Some k] is refuted by the model of the Python codec (F26) *)
Theorem key_codec_python_refuted : exists k, key_read (key_show k) <> Some k.
Proof. exact key_codec_refuted. Qed.
Print Assumptions key_codec_python_refuted.

(* saving then loading a normalised distribution returns the same keys and probabilities *)
Theorem save_load_normalised : forall d, valid d = true -> close1 (mass d) = true -> NoDup (map fst d) ->
  Forall (fun kv => codec_safe (fst kv)) d -> load (save d) = Ok d.
Proof. exact save_load. Qed.
Print Assumptions save_load_normalised.

Theorem save_load_dist : forall d0 d, NoDup (map fst d0) -> make d0 true = Ok d ->
  (nsub d0 <> 1%nat \/ Forall (fun kv => Forall (fun n => (n < 10)%nat) (fst kv)) d0) ->
  load (save d) = Ok d.
Proof. exact save_load_made. Qed.
Print Assumptions save_load_dist.

Example save_load_premises_met :
  load (save [([10; 2]%nat, 1 # 4); ([0; 13]%nat, 3 # 4)]) = Ok [([10; 2]%nat, 1 # 4); ([0; 13]%nat, 3 # 4)]
  /\ load (save [([10]%nat, 1 # 2); ([2]%nat, 1 # 2)]) = Err RuntimeErr.
Proof. split; vm_compute; reflexivity. Qed.

(* ------------------------------------------------------------------ distances (over the reals) *)
Open Scope R_scope.

(* squared MMD: symmetric and zero on identical arguments for ANY kernel function and key enumeration;
   independent of the order of the enumeration *)
Theorem mmd_sym : forall (A : Type) (kern : A -> A -> R) ks p q, mmd kern ks p q = mmd kern ks q p.
Proof. exact @mmd_sym_lemma. Qed.
Print Assumptions mmd_sym.

Theorem mmd_self_zero : forall (A : Type) (kern : A -> A -> R) ks p, mmd kern ks p p = 0.
Proof. exact @mmd_self_lemma. Qed.
Print Assumptions mmd_self_zero.

Theorem mmd_order_irrelevant : forall (A : Type) (kern : A -> A -> R) ks ks' p q,
  Permutation ks ks' -> mmd kern ks p q = mmd kern ks' p q.
Proof. exact @mmd_perm_lemma. Qed.
Print Assumptions mmd_order_irrelevant.

(* any kernel: non-negative whenever the kernel matrix is positive semidefinite on ks *)
Theorem mmd_nonneg_any_psd_kernel : forall (A : Type) (kern : A -> A -> R) ks p q, psd kern ks -> 0 <= mmd kern ks p q.
Proof. exact @mmd_nonneg_lemma. Qed.
Print Assumptions mmd_nonneg_any_psd_kernel.

(* ---- positive semidefiniteness of the Gaussian kernels of mmd.py (Stats/GaussPSD.v: exp as the limit of its
   Taylor sums, every partial quadratic form a sum of scaled squares), hence the full clause *)
Theorem gauss_kernel_psd : forall (A : Type) (g : R) (x : A -> R) (ks : list A),
  0 <= g -> psd (fun i j => exp (- g * (x i - x j) ^ 2)) ks.
Proof. exact @gauss_gamma_psd. Qed.
Print Assumptions gauss_kernel_psd.

Theorem rbf_kernel_psd : forall sigma ks, 0 < sigma -> psd (gauss sigma) ks.
Proof. exact gauss_psd. Qed.
Print Assumptions rbf_kernel_psd.

Theorem multi_rbf_kernel_psd : forall sigmas ks,
  sigmas <> [] -> Forall (fun s => 0 < s) sigmas -> psd (gauss_multi sigmas) ks.
Proof. exact gauss_multi_psd. Qed.
Print Assumptions multi_rbf_kernel_psd.

(* the MMD of compute_mmd is non-negative for every positive kernel width / non-empty list of positive widths,
   every key enumeration and all real vectors p, q (in particular all pairs of distributions).  The code divides by
   2*sigma and by len(sigmas): sigma = 0 raises and an empty list gives nan, hence the guards. *)
Theorem mmd_nonneg_single : forall sigma ks p q, 0 < sigma -> 0 <= mmd (gauss sigma) ks p q.
Proof. exact mmd_gauss_nonneg. Qed.
Print Assumptions mmd_nonneg_single.

Theorem mmd_nonneg : forall sigmas ks p q,
  sigmas <> [] -> Forall (fun s => 0 < s) sigmas -> 0 <= mmd (gauss_multi sigmas) ks p q.
Proof. exact mmd_gauss_multi_nonneg. Qed.
Print Assumptions mmd_nonneg.

(* the sign guard is needed: a negative width gives a negative "distance" between two genuine distributions *)
Theorem mmd_negative_width_refuted :
  exists sigma ks p q, sigma < 0 /\ (forall k, In k ks -> 0 <= p k /\ 0 <= q k) /\
    rsum (map p ks) = 1 /\ rsum (map q ks) = 1 /\ mmd (gauss sigma) ks p q < 0.
Proof. exact mmd_gauss_negative_sigma_refuted. Qed.
Print Assumptions mmd_negative_width_refuted.

Example mmd_nonneg_premises_met :
  0 <= mmd (gauss_multi [1 / 4; 2]) [[0; 1]; [1; 0]; [1; 1]]%nat
           (fun k => match basis k with 1%Z => 1 / 2 | 2%Z => 1 / 2 | _ => 0 end)
           (fun k => match basis k with 3%Z => 3 / 4 | 2%Z => 1 / 4 | _ => 0 end).
Proof. exact mmd_gauss_multi_nonneg_example. Qed.

Example psd_premise_met : forall (f : key -> R) ks, psd (fun i j => f i * f j) ks.
Proof. exact (@psd_rank_one key). Qed.

(* clipped negative log-likelihood of a target p under a model q: at least the entropy of p, up to the clipping
   constant  ln(1 + |ks| eps) *)
Theorem nll_ge_entropy : forall (A : Type) eps (ks : list A) p q,
  0 < eps ->
  (forall k, In k ks -> 0 <= p k) -> (forall k, In k ks -> 0 <= q k) ->
  rsum (map p ks) = 1 -> rsum (map q ks) <= 1 ->
  entropy ks p - ln (1 + INR (List.length ks) * eps) <= nll eps ks p q.
Proof. exact @nll_ge_entropy_lemma. Qed.
Print Assumptions nll_ge_entropy.

Theorem nll_order_irrelevant : forall (A : Type) eps (ks ks' : list A) p q,
  Permutation ks ks' -> nll eps ks p q = nll eps ks' p q.
Proof. exact @nll_perm_lemma. Qed.
Print Assumptions nll_order_irrelevant.

(* the symmetrised divergence is symmetric *)
Theorem js_sym : forall (A : Type) eps (ks : list A) p q, js eps ks p q = js eps ks q p.
Proof. exact @js_sym_lemma. Qed.
Print Assumptions js_sym.

(* ------------------------------------------------------------------ the code, translated on every run, is the model *)
(* Gen/DistributionsGen.v is regenerated from distributions/_measurement_outcome_distribution.py by
   tr/tr_distributions.py on every run (construct by construct; meaning of the Python building blocks:
   Stats/DistTrSupport.v).  The theorems below state that the generated definitions, over the exact number
   structure num_Q, ARE the model functions of Stats/Dist.v that the theorems above are about, on the model's
   values embedded into the Python values (eraw / edist / eres, Stats/DistGenProofs.v).  [req] is equality of
   results up to == on the values (Python's sum() adds from the left, the model from the right). *)
Require Import OQ.Stats.DistTrSupport OQ.Gen.DistributionsGen OQ.Stats.DistGenProofs.
Close Scope R_scope.
Open Scope Q_scope.

Theorem generated_preprocess_is_model : forall r,
  preprocess_distibution_dict_gen num_Q (eraw r) = eres (preprocess r).
Proof. exact preprocess_gen_eq. Qed.
Print Assumptions generated_preprocess_is_model.

(* a key that is neither str nor tuple (here: an int) after a readable prefix: RuntimeError *)
Theorem generated_preprocess_rejects_other_keys : forall r z v rest,
  preprocess_distibution_dict_gen num_Q (eraw r ++ (PKInt z, v) :: rest) =
  match preprocess r with Ok _ => Raise RuntimeError | Err e => Raise (eerr e) end.
Proof. exact preprocess_gen_other_key. Qed.
Print Assumptions generated_preprocess_rejects_other_keys.

Theorem generated_is_non_negative_is_model : forall d,
  is_non_negative_gen num_Q (edist d) = Ret (forallb (fun kv => Qle_bool 0 (snd kv)) d).
Proof. exact is_non_negative_gen_eq. Qed.
Print Assumptions generated_is_non_negative_is_model.

Theorem generated_is_key_length_fixed_is_model : forall d,
  is_key_length_fixed_gen num_Q (edist d) =
  match d with
  | [] => Raise IndexError
  | (k0, _) :: _ => Ret (forallb (fun kv => Nat.eqb (List.length (fst kv)) (List.length k0)) d)
  end.
Proof. exact is_key_length_fixed_gen_eq. Qed.
Print Assumptions generated_is_key_length_fixed_is_model.

(* the model's keys are naturals: the third check always holds on them; on tuples of arbitrary entries it is
   "every entry is an int >= 0" *)
Theorem generated_are_keys_is_model : forall d,
  are_keys_non_negative_integer_tuples_gen num_Q (edist d) = Ret true.
Proof. exact are_keys_gen_eq. Qed.
Print Assumptions generated_are_keys_is_model.

Theorem generated_are_keys_on_tuples : forall ts,
  are_keys_non_negative_integer_tuples_gen num_Q (tupdict ts) = Ret (forallb (fun tv => forallb elt_ok (fst tv)) ts).
Proof. exact are_keys_gen_tuples. Qed.
Print Assumptions generated_are_keys_on_tuples.

Theorem generated_is_distribution_is_model : forall d,
  is_measurement_outcome_distribution_gen num_Q (edist d) = Ret (valid d).
Proof. exact is_mod_gen_eq. Qed.
Print Assumptions generated_is_distribution_is_model.

(* outside the model: a negative or non-int tuple entry makes the check False *)
Theorem generated_is_distribution_bad_entry : forall ts,
  forallb (fun tv => forallb elt_ok (fst tv)) ts = false ->
  is_measurement_outcome_distribution_gen num_Q (tupdict ts) = Ret false.
Proof. exact is_mod_gen_bad_entry. Qed.
Print Assumptions generated_is_distribution_bad_entry.

Theorem generated_is_normalized_is_model : forall d,
  is_normalized_gen num_Q (edist d) = Ret (close1 (mass d)).
Proof. exact is_normalized_gen_eq. Qed.
Print Assumptions generated_is_normalized_is_model.

(* distinct keys is the representation invariant of a dict *)
Theorem generated_normalize_is_model : forall d, NoDup (map fst d) ->
  req (normalize_measurement_outcome_distribution_gen num_Q (edist d)) (eres (normalize_dict d)).
Proof. exact normalize_gen_eq. Qed.
Print Assumptions generated_normalize_is_model.

Theorem generated_init_is_model : forall r n,
  req (MeasurementOutcomeDistribution_init_gen num_Q (eraw r) n) (eres (make_raw r n)).
Proof. exact init_gen_eq. Qed.
Print Assumptions generated_init_is_model.

Theorem generated_init_preprocessed_is_model : forall d n, NoDup (map fst d) ->
  req (MeasurementOutcomeDistribution_init_gen num_Q (edist d) n) (eres (make d n)).
Proof. exact init_gen_make_eq. Qed.
Print Assumptions generated_init_preprocessed_is_model.

Theorem generated_save_keys_is_model : forall d, NoDup (map fst d) ->
  change_tuple_dict_keys_to_comma_separated_integers_gen num_Q (edist d) = Ret (eraw (save d)).
Proof. exact save_gen_eq. Qed.
Print Assumptions generated_save_keys_is_model.

(* the hypothesis - keys of one length - is the class invariant: self.distribution_dict is only ever set by __init__,
   which accepts nothing else (valid_means); without it the model reads an entry beyond the end of a shorter key
   as 0 where the code raises IndexError *)
Theorem generated_subdistribution_is_model : forall qs d,
  Forall (fun kv => List.length (fst kv) = nsub d) d ->
  req (MeasurementOutcomeDistribution_subdistribution_gen num_Q (edist d) (map Z.of_nat qs))
      (eres (fst (subdistribution qs d))).
Proof. exact sub_gen_eq. Qed.
Print Assumptions generated_subdistribution_is_model.

Example generated_init_runs :
  match MeasurementOutcomeDistribution_init_gen num_Q
          [(PKStr "10,2", 1 # 2); (PKTup [PEInt 0; PEInt 3], 3 # 2)] true with
  | Ret [(PKTup [PEInt 10; PEInt 2], v1); (PKTup [PEInt 0; PEInt 3], v2)] => v1 == 1 # 4 /\ v2 == 3 # 4
  | _ => False
  end /\
  MeasurementOutcomeDistribution_init_gen num_Q [(PKTup [PEInt 0], 1 # (2 ^ 1030)); (PKTup [PEInt 1], 1 # (2 ^ 1030))] true
    = Raise ValueError /\
  make [([0]%nat, 1 # (2 ^ 1030)); ([1]%nat, 1 # (2 ^ 1030))] true = Err ValueErr.
Proof. vm_compute. repeat split; reflexivity. Qed.

Example generated_subdistribution_runs :
  match MeasurementOutcomeDistribution_subdistribution_gen num_Q
          (edist [([10; 1; 0]%nat, 1 # 2); ([2; 3; 0]%nat, 1 # 4); ([10; 7; 0]%nat, 1 # 4)]) [2; 0]%Z with
  | Ret [(PKTup [PEInt 0; PEInt 10], v1); (PKTup [PEInt 0; PEInt 2], v2)] => v1 == 3 # 4 /\ v2 == 1 # 4
  | _ => False
  end /\
  MeasurementOutcomeDistribution_subdistribution_gen num_Q (edist [([1; 0]%nat, 1)]) [0; -1]%Z
    = MeasurementOutcomeDistribution_subdistribution_gen num_Q (edist [([1; 0]%nat, 1)]) [0; 1]%Z /\
  MeasurementOutcomeDistribution_init_gen num_Q [(PKTup [PEInt 1; PEInt (-1)], 1)] true = Raise RuntimeError.
Proof. vm_compute. repeat split; reflexivity. Qed.
