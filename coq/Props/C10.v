(* C10 - Statistics computed from measurements are the exact sample statistics.
   Property theorems only; every proof is [exact <lemma>].  Model: Stats/Measure.v (mirrors
   measurements.py / parities.py over exact rationals).  The specification side is defined at the top of
   Stats/MeasureProofs.v, independently of the code path:
     eigenvalue S s   = product over q in S of (-1)^(s_q)           (value of Z_S on the shot s)
     even_parity S s  = (eigenvalue S s = 1)
     term_value op i s = c_i * eigenvalue S_i s
     mean f shots     = (sum of f over the shots) / number of shots (f integer valued)
     qmean f shots    = the same for rational valued f
     count_if p shots = number of shots satisfying p
   Shots are arbitrary lists of bit lists (any number, any width, repetitions); operators are arbitrary lists
   of (rational coefficient, list of qubits); the clauses on products of two terms need each term's qubit list
   to be duplicate free ([nodup_supports]; PauliTerm.qubits is a Python set). *)
Require Import Coq.ZArith.ZArith Coq.QArith.QArith Coq.Lists.List Coq.Bool.Bool Coq.Sorting.Permutation.
Require Import OQ.Stats.Measure OQ.Stats.MeasureProofs.
Import ListNotations.

(* ---------------------------------------------------------------- counts *)

(* Counter regrouping: a sum of count * f(key) over the counts dictionary is the sum of f over the shots *)
Theorem grouped_sum_eq_shot_sum : forall (f : bits -> Z) (shots : list bits),
  msum (map (fun kc => (snd kc * f (fst kc))%Z) (get_counts shots)) = msum (map f shots).
Proof. exact grouped_sum. Qed.
Print Assumptions grouped_sum_eq_shot_sum.

(* counts sum to the number of shots *)
Theorem counts_total : forall shots : list bits,
  total (get_counts shots) = Z.of_nat (List.length shots).
Proof. exact counts_total_lemma. Qed.
Print Assumptions counts_total.

(* each recorded count is the number of occurrences of its key; keys are distinct, counts positive,
   and the keys are exactly the bitstrings that were seen *)
Theorem counts_are_occurrences : forall shots k c,
  In (k, c) (get_counts shots) -> c = count_if (bits_eqb k) shots.
Proof. exact counts_entries. Qed.
Print Assumptions counts_are_occurrences.

Theorem counts_well_formed : forall shots,
  NoDup (keys (get_counts shots)) /\ pos_counts (get_counts shots).
Proof. exact counts_wf. Qed.
Print Assumptions counts_well_formed.

Theorem counts_keys_are_seen : forall shots k, In k (keys (get_counts shots)) <-> In k shots.
Proof. exact counts_keys. Qed.
Print Assumptions counts_keys_are_seen.

(* building from counts and reading counts back are inverse: same multiset of shots one way,
   the same dictionary (including key order) the other way *)
Theorem from_counts_counts : forall shots, Permutation (from_counts (get_counts shots)) shots.
Proof. exact from_counts_counts_lemma. Qed.
Print Assumptions from_counts_counts.

Theorem counts_from_counts : forall d, NoDup (keys d) -> pos_counts d -> get_counts (from_counts d) = d.
Proof. exact counts_from_counts_lemma. Qed.
Print Assumptions counts_from_counts.

Example counts_premises_met :
  get_counts [[false; true]; [true; true]; [false; true]] = [([false; true], 2%Z); ([true; true], 1%Z)]
  /\ from_counts [([false; true], 2%Z); ([true; true], 1%Z)] = [[false; true]; [false; true]; [true; true]].
Proof. vm_compute. split; reflexivity. Qed.

(* the empirical distribution is counts / number of shots (and sums to one); no shots: rejected *)
Theorem distribution_is_freq : forall shots, shots <> [] ->
  exists dist, get_distribution shots = Ok dist /\
    map fst dist = keys (get_counts shots) /\
    (forall k p, In (k, p) dist ->
       p == inject_Z (count_if (bits_eqb k) shots) / inject_Z (Z.of_nat (List.length shots))) /\
    qsum (map snd dist) == 1.
Proof. exact distribution_lemma. Qed.
Print Assumptions distribution_is_freq.

Theorem distribution_of_nothing_rejected : get_distribution [] = Err RuntimeError.
Proof. exact distribution_empty_lemma. Qed.
Print Assumptions distribution_of_nothing_rejected.

(* ---------------------------------------------------------------- expectation values *)

(* (sum of marked bits + 1) mod 2, doubled minus one, is the eigenvalue; check_parity is even_parity *)
Theorem parity_is_eigenvalue : forall S r,
  (((msum (map (fun q => b2z (bit r q)) S) + 1) mod 2) * 2 - 1)%Z = eigenvalue S r
  /\ check_parity r S = even_parity S r.
Proof. exact (fun S r => conj (par01_eigenvalue S r) (check_parity_even r S)). Qed.
Print Assumptions parity_is_eigenvalue.

(* get_expectation_value_from_frequencies on the counts of the shots = per-shot sample mean *)
Theorem efreq_is_sample_mean : forall S shots,
  efreq_val S (get_counts shots) == mean (eigenvalue S) shots.
Proof. exact efreq_val_mean. Qed.
Print Assumptions efreq_is_sample_mean.

(* Z_S * Z_T = Z on the symmetric difference (what the correlations rely on) *)
Theorem eps_symdiff : forall S T r, NoDup S -> NoDup T ->
  eigenvalue (symdiff S T) r = (eigenvalue S r * eigenvalue T r)%Z.
Proof. exact eigenvalue_symdiff. Qed.
Print Assumptions eps_symdiff.

(* the value reported for term i is its coefficient times the sample mean of its eigenvalue *)
Theorem expval_mean : forall shots op bessel r i,
  expectation_values_ising shots op bessel = Ok r -> (i < List.length op)%nat ->
  nth i (ev_values r) 0 ==
    coef op i * (inject_Z (msum (map (eigenvalue (supp op i)) shots)) / inject_Z (Z.of_nat (List.length shots))).
Proof. exact expval_mean_lemma. Qed.
Print Assumptions expval_mean.

(* a constant term contributes exactly its coefficient *)
Theorem constant_term_exact : forall shots op bessel r i,
  expectation_values_ising shots op bessel = Ok r -> (i < List.length op)%nat ->
  supp op i = [] -> nth i (ev_values r) 0 == coef op i.
Proof. exact constant_term_lemma. Qed.
Print Assumptions constant_term_exact.

(* the reported correlation of terms i and j (diagonal included) is the sample mean of the product of their values *)
Theorem corr_mean_of_products : forall shots op bessel r i j,
  expectation_values_ising shots op bessel = Ok r -> nodup_supports op ->
  (i < List.length op)%nat -> (j < List.length op)%nat ->
  nth j (nth i (ev_corr r) []) 0 == qmean (fun s => term_value op i s * term_value op j s) shots.
Proof. exact corr_mean_lemma. Qed.
Print Assumptions corr_mean_of_products.

(* estimator covariances: (correlation - product of the reported values) / N, or / (N - 1) with Bessel's
   correction; the denominator must be non-zero (N = 1 with Bessel is the excluded case, see below) *)
Theorem cov_formula : forall shots op bessel r,
  expectation_values_ising shots op bessel = Ok r ->
  let denom := (if bessel then Z.of_nat (List.length shots) - 1 else Z.of_nat (List.length shots))%Z in
  denom <> 0%Z ->
  exists cov, ev_cov r = Some cov /\ List.length cov = List.length op /\
    forall i j, (i < List.length op)%nat -> (j < List.length op)%nat ->
      nth j (nth i cov []) 0 ==
      (nth j (nth i (ev_corr r) []) 0 - nth i (ev_values r) 0 * nth j (ev_values r) 0) / inject_Z denom.
Proof. exact cov_lemma. Qed.
Print Assumptions cov_formula.

(* the same, entirely in terms of the shots: (mean of products - product of means) / denominator *)
Theorem cov_is_sample_covariance : forall shots op bessel r,
  expectation_values_ising shots op bessel = Ok r -> nodup_supports op ->
  let denom := (if bessel then Z.of_nat (List.length shots) - 1 else Z.of_nat (List.length shots))%Z in
  denom <> 0%Z ->
  exists cov, ev_cov r = Some cov /\
    forall i j, (i < List.length op)%nat -> (j < List.length op)%nat ->
      nth j (nth i cov []) 0 ==
      (qmean (fun s => term_value op i s * term_value op j s) shots
       - qmean (term_value op i) shots * qmean (term_value op j) shots) / inject_Z denom.
Proof. exact cov_sample_lemma. Qed.
Print Assumptions cov_is_sample_covariance.

(* one shot with Bessel's correction: the code divides by zero (nan entries); the model reports no covariances *)
Theorem cov_bessel_single_shot_undefined : forall shots op r,
  expectation_values_ising shots op true = Ok r -> List.length shots = 1%nat -> op <> [] -> ev_cov r = None.
Proof. exact cov_none_lemma. Qed.
Print Assumptions cov_bessel_single_shot_undefined.

(* when statistics are returned at all: a non-empty operator needs a first shot of positive width that
   covers every marked qubit; operators that are not Ising are rejected with TypeError *)
Theorem expval_defined_iff : forall shots op bessel, op <> [] ->
  ((exists r, expectation_values_ising shots op bessel = Ok r) <->
   (exists s0 rest, shots = s0 :: rest /\ (0 < List.length s0)%nat /\
      Forall (fun t => Forall (fun q => (q < List.length s0)%nat) (snd t)) op)).
Proof. exact ev_ok_iff. Qed.
Print Assumptions expval_defined_iff.

Theorem non_ising_operator_rejected : forall shots op bessel, is_ising op = false ->
  get_expectation_values shots op bessel = Err TypeError /\ get_parities shots op = Err TypeError.
Proof. exact non_ising_rejected. Qed.
Print Assumptions non_ising_operator_rejected.

(* an operator whose letters are all Z is handled as the Ising operator (coefficient, qubits) per term *)
Theorem ising_operator_accepted : forall shots op bessel, is_ising op = true ->
  get_expectation_values shots op bessel = expectation_values_ising shots (to_ising op) bessel /\
  get_parities shots op = parities_ising shots (to_ising op).
Proof. exact ising_accepted. Qed.
Print Assumptions ising_operator_accepted.

Example nodup_supports_met : nodup_supports [(1 # 2, [0; 1]%nat); (2 # 1, []); (-3 # 2, [1; 2]%nat)].
Proof. repeat constructor; simpl; intuition discriminate. Qed.

Example expval_premises_met :
  let shots := [[false; true; true]; [true; true; false]; [false; true; true]; [true; false; false]] in
  let op := [(1 # 2, [0; 1]%nat); (2 # 1, []); (-3 # 2, [2%nat]); (1 # 4, [1; 2; 0]%nat)] in
  exists r, expectation_values_ising shots op true = Ok r /\
    map Qred (ev_values r) = [-1 # 4; 2 # 1; 0 # 1; 1 # 8] /\
    option_map (fun c => Qred (nth 2 (nth 0 c []) 0)) (ev_cov r) = Some (-1 # 8).
Proof. vm_compute. eexists. repeat split. Qed.

(* ---------------------------------------------------------------- parity tallies *)

(* per term: even tally = number of shots with even parity on its qubits, odd tally = the others,
   together the number of shots *)
Theorem parity_tallies : forall shots op p i,
  parities_ising shots op = Ok p -> (i < List.length op)%nat ->
  nth i (par_values p) (0, 0)%Z = (count_if (even_parity (supp op i)) shots,
                                   count_if (fun s => negb (even_parity (supp op i) s)) shots)
  /\ (fst (nth i (par_values p) (0, 0)) + snd (nth i (par_values p) (0, 0)))%Z = Z.of_nat (List.length shots).
Proof. exact parity_values_lemma. Qed.
Print Assumptions parity_tallies.

(* per ordered pair of terms: numbers of shots on which the two parities agree / disagree *)
Theorem parity_pair_tallies : forall shots op p i j,
  parities_ising shots op = Ok p -> (i < List.length op)%nat -> (j < List.length op)%nat ->
  nth j (nth i (par_corr p) []) (0, 0)%Z =
    (count_if (fun s => Bool.eqb (even_parity (supp op i) s) (even_parity (supp op j) s)) shots,
     count_if (fun s => negb (Bool.eqb (even_parity (supp op i) s) (even_parity (supp op j) s))) shots).
Proof. exact parity_pairs_lemma. Qed.
Print Assumptions parity_pair_tallies.

Example parities_premises_met :
  let shots := [[false; true; true]; [true; true; false]; [false; true; true]; [true; false; false]] in
  exists p, parities_ising shots [(1 # 2, [0; 1]%nat); (2 # 1, [])] = Ok p /\
    par_values p = [(1, 3); (4, 0)]%Z.
Proof. vm_compute. eexists. split; reflexivity. Qed.

(* ---------------------------------------------------------------- generated code = model
   The functions below are TRANSLATED from the Python source on every run (tr/tr_measurements.py ->
   Gen/MeasurementsGen.v; the meaning of the Python building blocks is Stats/MeasureTrSupport.v, which re-uses
   Stats/DistTrSupport.v) and PROVED equal to the model functions that the theorems above are about
   (Stats/MeasureGenProofs.v).  Embeddings: tup r = the tuple of the ints 0/1 of a shot, str r = the str of its
   characters, eshots = the value of self.bitstrings, ecounts = the Dict[str, int] with those keys in that order,
   zs = qubit indices as Python ints; floats are read as exact rationals (num_Q).  Left hand-modelled (numpy / operator
   objects): Measurements.get_expectation_values and get_parities_from_measurements; every entry they report is
   obtained through the functions translated here (see generated_efreq_of_counts_is_model). *)
Require Import Coq.Strings.String.
Require Import OQ.Stats.DistTrSupport OQ.Stats.MeasureTrSupport OQ.Gen.MeasurementsGen OQ.Stats.MeasureGenProofs.

Theorem generated_tuple_to_bitstring_is_model : forall N r, tuple_to_bitstring_gen N (tup r) = Ret (str r).
Proof. exact tuple_to_bitstring_gen_is_model. Qed.
Print Assumptions generated_tuple_to_bitstring_is_model.

Theorem generated_convert_tuples_to_bitstrings_is_model : forall N l,
  convert_tuples_to_bitstrings_gen N (eshots l) = Ret (map str l).
Proof. exact convert_tuples_to_bitstrings_gen_is_model. Qed.
Print Assumptions generated_convert_tuples_to_bitstrings_is_model.

(* Measurements.get_counts, for every list of shots *)
Theorem generated_get_counts_is_model : forall N shots,
  Measurements_get_counts_gen N (eshots shots) = Ret (ecounts (get_counts shots)).
Proof. exact get_counts_gen_is_model. Qed.
Print Assumptions generated_get_counts_is_model.

(* Measurements.__init__: no argument / None gives no shots, a list is kept *)
Theorem generated_init_is_model : forall N,
  Measurements_init_gen N None = Ret [] /\ forall l, Measurements_init_gen N (Some l) = Ret l.
Proof. exact (fun N => conj (init_gen_none N) (init_gen_some N)). Qed.
Print Assumptions generated_init_is_model.

(* Measurements.add_counts / from_counts, for every dictionary (keys pairwise different) *)
Theorem generated_add_counts_is_model : forall N shots d, NoDup (keys d) ->
  Measurements_add_counts_gen N (eshots shots) (ecounts d) = Ret (eshots (add_counts shots d)).
Proof. exact add_counts_gen_is_model. Qed.
Print Assumptions generated_add_counts_is_model.

Theorem generated_from_counts_is_model : forall N d, NoDup (keys d) ->
  Measurements_from_counts_gen N (ecounts d) = Ret (eshots (from_counts d)).
Proof. exact from_counts_gen_is_model. Qed.
Print Assumptions generated_from_counts_is_model.

(* Measurements.get_distribution, the MeasurementOutcomeDistribution constructor included (the constructor is the
   definition generated by tr/tr_distributions.py): for shots of one width the result is the model's, keys as tuples,
   values equal as rationals; shots of two different widths are rejected by the constructor (outside the model) *)
Theorem generated_get_distribution_is_model : forall shots w, (forall s, In s shots -> List.length s = w) ->
  DG.req (Measurements_get_distribution_gen num_Q (eshots shots)) (eres_dist (get_distribution shots)).
Proof. exact get_distribution_gen_is_model. Qed.
Print Assumptions generated_get_distribution_is_model.

Theorem generated_get_distribution_ragged_rejected : forall shots s1 s2,
  In s1 shots -> In s2 shots -> List.length s1 <> List.length s2 ->
  Measurements_get_distribution_gen num_Q (eshots shots) = Raise DistTrSupport.RuntimeError.
Proof. exact get_distribution_gen_ragged. Qed.
Print Assumptions generated_get_distribution_ragged_rejected.

(* check_parity on a tuple of ints and on a str, marked qubits in range; out of range the code raises IndexError
   (the model function reads a missing bit as 0: it is used within the range only) *)
Theorem generated_check_parity_is_model : forall N r marked, marked_ok (List.length r) marked = true ->
  check_parity_gen N (py_key_of_ints (tup r)) (zs marked) = Ret (check_parity r marked) /\
  check_parity_gen N (py_key_of_str (str r)) (zs marked) = Ret (check_parity r marked).
Proof. exact (fun N r m H => conj (check_parity_gen_tuple_is_model N r m H) (check_parity_gen_str_is_model N r m H)). Qed.
Print Assumptions generated_check_parity_is_model.

Theorem generated_check_parity_out_of_range : forall N r marked, marked_ok (List.length r) marked = false ->
  check_parity_gen N (py_key_of_ints (tup r)) (zs marked) = Raise DistTrSupport.IndexError /\
  check_parity_gen N (py_key_of_str (str r)) (zs marked) = Raise DistTrSupport.IndexError.
Proof. exact check_parity_gen_out_of_range. Qed.
Print Assumptions generated_check_parity_out_of_range.

(* _convert_bitstrings_to_vector on keys of one width, and check_parity_of_vector on its result *)
Theorem generated_convert_bitstrings_to_vector_is_model : forall N (ks : list bits) w,
  Forall (fun k => List.length k = w) ks ->
  convert_bitstrings_to_vector_gen N (map str ks) =
  match ks with
  | [] => Raise DistTrSupport.IndexError
  | _ => if Nat.eqb w 0 then Raise DistTrSupport.ValueError else Ret (Z.of_nat w, map tup ks)
  end.
Proof. exact convert_bitstrings_to_vector_gen_spec. Qed.
Print Assumptions generated_convert_bitstrings_to_vector_is_model.

Theorem generated_check_parity_of_vector_is_model : forall N ks w marked,
  check_parity_of_vector_gen N (Z.of_nat w, map tup ks) (zs marked) =
  if marked_ok w marked then Ret (map (n_int N) (check_parity_of_vector ks marked)) else Raise DistTrSupport.IndexError.
Proof. exact check_parity_of_vector_gen_spec. Qed.
Print Assumptions generated_check_parity_of_vector_is_model.

(* get_expectation_value_from_frequencies = efreq (value and every error branch), for keys of one width; when nothing
   raises the total count must not be 0 (then numpy returns nan with a warning, the model function 0) *)
Theorem generated_efreq_is_model : forall marked (freq : counts) w,
  Forall (fun kc => List.length (fst kc) = w) freq ->
  (efreq_chk marked freq = None -> total freq <> 0%Z) ->
  rq (get_expectation_value_from_frequencies_gen num_Q (zs marked) (ecounts freq)) (efreq marked freq).
Proof. exact efreq_gen_is_model. Qed.
Print Assumptions generated_efreq_is_model.

Theorem generated_efreq_zero_total_is_not_finite : forall marked (freq : counts) w,
  Forall (fun kc => List.length (fst kc) = w) freq -> efreq_chk marked freq = None -> total freq = 0%Z ->
  get_expectation_value_from_frequencies_gen num_Q (zs marked) (ecounts freq) = Raise DistTrSupport.ZeroDivisionError.
Proof. exact efreq_gen_zero_total. Qed.
Print Assumptions generated_efreq_zero_total_is_not_finite.

(* what get_expectation_values evaluates for every entry: the frequencies function on the object's own counts *)
Theorem generated_efreq_of_counts_is_model : forall marked shots w, (forall s, In s shots -> List.length s = w) ->
  rq (bind (Measurements_get_counts_gen num_Q (eshots shots))
           (fun c => get_expectation_value_from_frequencies_gen num_Q (zs marked) c))
     (efreq marked (get_counts shots)).
Proof. exact efreq_of_counts_gen_is_model. Qed.
Print Assumptions generated_efreq_of_counts_is_model.

(* convert_bitstring_to_int has no model function: on bits it is the little-endian value, () is a ValueError *)
Theorem generated_convert_bitstring_to_int_value : forall N r,
  convert_bitstring_to_int_gen N (tup r) = match r with [] => Raise DistTrSupport.ValueError | _ => Ret (le_val r) end.
Proof. exact convert_bitstring_to_int_gen_spec. Qed.
Print Assumptions generated_convert_bitstring_to_int_value.

(* the generated functions run: from_counts({"01": 2, "11": 0, "10": 1}), its counts, its distribution, <Z_0 Z_1> *)
Example generated_functions_run :
  let d := [("01", 2); ("11", 0); ("10", 1)]%string%Z in
  Measurements_from_counts_gen num_Q d = Ret [[0; 1]; [0; 1]; [1; 0]]%Z /\
  bind (Measurements_from_counts_gen num_Q d) (Measurements_get_counts_gen num_Q) = Ret [("01", 2); ("10", 1)]%string%Z /\
  bind (Measurements_from_counts_gen num_Q d) (Measurements_get_distribution_gen num_Q)
    = Ret [(py_key_of_ints [0; 1]%Z, inject_Z 2 / inject_Z 3); (py_key_of_ints [1; 0]%Z, inject_Z 1 / inject_Z 3)] /\
  match get_expectation_value_from_frequencies_gen num_Q [0; 1]%Z [("01", 3); ("11", 1)]%string%Z with
  | Ret x => Qeq_bool x (-1 # 2) = true
  | Raise _ => False
  end /\
  convert_bitstring_to_int_gen num_Q [1; 1; 0]%Z = Ret 3%Z.
Proof. vm_compute. repeat split; reflexivity. Qed.
