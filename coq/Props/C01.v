(* C01 - A circuit acts as the ordered product of its gates on the named qubits.
   Property theorems only; every proof is [exact <lemma>].  K is any commutative ring with conjugation
   (Base/Ring.v): the statements hold for complex numbers, symbolic entries, Gaussian rationals alike.
   Matrices are functions on indices; [mat_eq (2^n)] / [vec_eq (2^n)] is equality of all entries inside
   the register.  Models: Circ/Lift.v (mirror of circuits/_unitary_tools.py), Circ/Circuit.v (mirror of
   _circuit.py, _gates.py GateOperation, MultiPhaseOperation.apply, BaseWavefunctionSimulator.get_wavefunction,
   SymbolicSimulator); tied to the running code by harness/c01.py. *)
Require Import Coq.Arith.Arith Coq.Lists.List Coq.Bool.Bool.
Require Import OQ.Base.Ring OQ.Base.Sums OQ.Base.Bits OQ.Base.Mat.
Require Import OQ.Circ.Lift OQ.Circ.LiftProofs OQ.Circ.Circuit OQ.Circ.CircuitProofs OQ.Circ.CircuitCases.
Import ListNotations.

(* ---------------------------------------------------------------- what the specification says *)
(* lift_spec G qs n  i j = G[bits of i at qs][bits of j at qs] * [i and j agree on every other bit]   (by definition;
   bits n i lists qubit 0 = most significant bit first).  "Agree on every other bit" means exactly: *)
Theorem agree_off_meaning : forall qs x y,
  agree_off qs x y = true <->
  length x = length y /\ forall k, k < length x -> ~ In k qs -> nth k x false = nth k y false.
Proof. exact agree_off_spec. Qed.
Print Assumptions agree_off_meaning.

(* ---------------------------------------------------------------- lifting *)
(* _lift_matrix (window min..max, permutation making the qubits adjacent, permutation matrix built column by
   column, kron(matrix, eye), P^T @ inner @ P, outer krons) places the gate on exactly the named qubits:
   any width, any arity, any order of the indices, any gaps, idle qubits below, between and above. *)
Theorem lift_impl_correct : forall (K : cring) n (G : Mat K) qs,
  qs <> [] -> NoDup qs -> Forall (fun q => q < n) qs ->
  mat_eq (2 ^ n) (lift_impl G qs n) (lift_spec G qs n).
Proof. exact LiftProofs.lift_impl_correct. Qed.
Print Assumptions lift_impl_correct.

(* the code raises exactly on the other index tuples (none, repeated, outside the register) *)
Theorem lift_accepts_valid_tuples : forall (K : cring) n (G : Mat K) qs,
  qs <> [] -> NoDup qs -> Forall (fun q => q < n) qs -> lift_code G qs n = Some (lift_impl G qs n).
Proof. exact lift_code_some. Qed.
Print Assumptions lift_accepts_valid_tuples.

Theorem lift_rejects_invalid_tuples : forall (K : cring) n (G : Mat K) qs M,
  lift_code G qs n = Some M -> qs <> [] /\ NoDup qs /\ Forall (fun q => q < n) qs /\ M = lift_impl G qs n.
Proof. exact lift_code_valid. Qed.
Print Assumptions lift_rejects_invalid_tuples.

(* a wider register: identity on the added qubits *)
Theorem widen : forall (K : cring) (G : Mat K) qs n e, Forall (fun q => q < n) qs ->
  mat_eq (2 ^ (n + e)) (lift_spec G qs (n + e)) (kron (2 ^ e) (lift_spec G qs n) eye).
Proof. exact lift_spec_widen. Qed.
Print Assumptions widen.

Theorem shift : forall (K : cring) (G : Mat K) qs w s, Forall (fun q => q < w) qs ->
  mat_eq (2 ^ (s + w)) (kron (2 ^ w) eye (lift_spec G qs w)) (lift_spec G (map (Nat.add s) qs) (s + w)).
Proof. exact lift_spec_shift. Qed.
Print Assumptions shift.

(* certified computation, independent of the proof above: a gate with pairwise distinct entries, every
   duplicate-free tuple of arity 1..3 on 1..4 qubits (60 tuples), all entries compared *)
Theorem lift_impl_eq_spec_upto_4_qubits : lift_cert 4 3 = true /\ lift_cert_count 4 3 = 60.
Proof. exact lift_cert_4_3. Qed.
Print Assumptions lift_impl_eq_spec_upto_4_qubits.

Example lift_premises_met : wf_gate 6 (mk_gateapp generic_gate [4; 0; 2]).
Proof.
  split; [discriminate|]. split.
  - repeat constructor; cbn; intuition discriminate.
  - repeat constructor.
Qed.

(* ---------------------------------------------------------------- the circuit's matrix *)
(* prog_prod d [M1; ...; Mm] = Mm * ... * M1;  gate_spec n g = lift_spec (matrix of g) (qubits of g) n *)
Theorem to_unitary_program_order : forall (K : cring) n (gs : list (gateapp K)), Forall (wf_gate n) gs ->
  mat_eq (2 ^ n) (to_unitary n gs) (prog_prod (2 ^ n) (map (gate_spec n) gs)).
Proof. exact CircuitProofs.to_unitary_program_order. Qed.
Print Assumptions to_unitary_program_order.

Theorem to_unitary_empty_is_identity : forall (K : cring) n, to_unitary n (@nil (gateapp K)) = eye.
Proof. exact to_unitary_empty. Qed.
Print Assumptions to_unitary_empty_is_identity.

Theorem to_unitary_of_gate_operations : forall (K : cring) n (gs : list (gateapp K)),
  to_unitary_c n (map OGate gs) = Some (to_unitary n gs).
Proof. exact to_unitary_c_gates. Qed.
Print Assumptions to_unitary_of_gate_operations.

Theorem to_unitary_rejects_non_gates : forall (K : cring) n (ops : list (op K)),
  to_unitary_c n ops = None <-> exists d, In (OPhase d) ops.
Proof. exact to_unitary_c_raises. Qed.
Print Assumptions to_unitary_rejects_non_gates.

(* ---------------------------------------------------------------- one operation at a time *)
Theorem run_eq_unitary : forall (K : cring) n (gs : list (gateapp K)) (v : Vec K),
  vec_eq (2 ^ n) (run n (map OGate gs) v) (mvec (2 ^ n) (to_unitary n gs) v).
Proof. exact CircuitProofs.run_eq_unitary. Qed.
Print Assumptions run_eq_unitary.

(* with phase-only operations interleaved: op_spec n (OPhase d) = diag d *)
Theorem run_eq_product : forall (K : cring) n (ops : list (op K)) (v : Vec K), Forall (wf_op n) ops ->
  vec_eq (2 ^ n) (run n ops v) (mvec (2 ^ n) (prog_prod (2 ^ n) (map (op_spec n) ops)) v).
Proof. exact CircuitProofs.run_eq_product. Qed.
Print Assumptions run_eq_product.

(* ---------------------------------------------------------------- splitting by a predicate *)
Theorem groupby_concat : forall (A : Type) (key : A -> bool) l, concat (map snd (groupby key l)) = l.
Proof. exact @CircuitProofs.groupby_concat. Qed.
Print Assumptions groupby_concat.

Theorem groupby_constant : forall (A : Type) (key : A -> bool) l,
  Forall (fun bg => snd bg <> [] /\ Forall (fun x => key x = fst bg) (snd bg)) (groupby key l).
Proof. exact @CircuitProofs.groupby_constant. Qed.
Print Assumptions groupby_constant.

Theorem groupby_alternates : forall (A : Type) (key : A -> bool) l, alternates (map fst (groupby key l)).
Proof. exact @CircuitProofs.groupby_alternates. Qed.
Print Assumptions groupby_alternates.

(* ---------------------------------------------------------------- simulators built on the base class *)
(* whatever the native predicate returned for each operation (kops pairs operation and returned value; this
   covers predicates depending on position or state), provided the subclass's native method agrees with
   in-order application on the chunks it is handed *)
Theorem sim_any_predicate_values : forall (K : cring) n (native_run : list (op K) -> Vec K -> Vec K)
    (kops : list (bool * op K)) (v0 : Vec K),
  (forall seg v, Forall (fun ko => In ko kops /\ fst ko = true) seg ->
                 vec_eq (2 ^ n) (native_run (map snd seg) v) (run n (map snd seg) v)) ->
  vec_eq (2 ^ n) (sim_keys native_run n kops v0) (run n (map snd kops) v0).
Proof. exact sim_keys_correct. Qed.
Print Assumptions sim_any_predicate_values.

Theorem sim_predicate_independent : forall (K : cring) n (p : op K -> bool)
    (native_run : list (op K) -> Vec K -> Vec K) ops (v0 : Vec K),
  (forall seg v, Forall (fun o => p o = true) seg -> vec_eq (2 ^ n) (native_run seg v) (run n seg v)) ->
  vec_eq (2 ^ n) (sim p native_run n ops v0) (run n ops v0).
Proof. exact CircuitProofs.sim_predicate_independent. Qed.
Print Assumptions sim_predicate_independent.

(* the bundled simulator satisfies the contract outright *)
Theorem symbolic_simulator_correct : forall (K : cring) n ops (v0 : Vec K),
  vec_eq (2 ^ n) (symbolic_sim n ops v0) (run n ops v0).
Proof. exact symbolic_sim_correct. Qed.
Print Assumptions symbolic_simulator_correct.

(* end to end: the final state of any such simulator is the ordered product of the operations' matrices
   (gates on their named qubits, diagonals for phase-only operations) applied to the initial state *)
Theorem sim_eq_product : forall (K : cring) n (p : op K -> bool) (native_run : list (op K) -> Vec K -> Vec K)
    (ops : list (op K)) (v0 : Vec K),
  Forall (wf_op n) ops ->
  (forall seg v, Forall (fun o => p o = true) seg -> vec_eq (2 ^ n) (native_run seg v) (run n seg v)) ->
  vec_eq (2 ^ n) (sim p native_run n ops v0) (mvec (2 ^ n) (prog_prod (2 ^ n) (map (op_spec n) ops)) v0).
Proof. exact CircuitProofs.sim_eq_product. Qed.
Print Assumptions sim_eq_product.

Theorem sim_eq_unitary : forall (K : cring) n (p : op K -> bool) (native_run : list (op K) -> Vec K -> Vec K)
    (gs : list (gateapp K)) (v0 : Vec K),
  (forall seg v, Forall (fun o => p o = true) seg -> vec_eq (2 ^ n) (native_run seg v) (run n seg v)) ->
  vec_eq (2 ^ n) (sim p native_run n (map OGate gs) v0) (mvec (2 ^ n) (to_unitary n gs) v0).
Proof. exact CircuitProofs.sim_eq_unitary. Qed.
Print Assumptions sim_eq_unitary.

(* ---------------------------------------------------------------- concatenation *)
Theorem concat_composes : forall (K : cring) n (gs1 gs2 : list (gateapp K)),
  mat_eq (2 ^ n) (to_unitary n (gs1 ++ gs2)) (mmul (2 ^ n) (to_unitary n gs2) (to_unitary n gs1)).
Proof. exact CircuitProofs.concat_composes. Qed.
Print Assumptions concat_composes.

Theorem concat_width : forall (K : cring) (c1 c2 : circuit K), circ_wf c1 -> circ_wf c2 ->
  c_n (cadd c1 c2) = Nat.max (c_n c1) (c_n c2) /\ c_ops (cadd c1 c2) = c_ops c1 ++ c_ops c2.
Proof. exact CircuitProofs.concat_width. Qed.
Print Assumptions concat_width.

Theorem to_unitary_widen : forall (K : cring) n e (gs : list (gateapp K)), Forall (wf_gate n) gs ->
  mat_eq (2 ^ (n + e)) (to_unitary (n + e) gs) (kron (2 ^ e) (to_unitary n gs) eye).
Proof. exact CircuitProofs.to_unitary_widen. Qed.
Print Assumptions to_unitary_widen.

(* c1 + c2 acts as c1, then c2, each extended by identities to the larger of the two registers *)
Theorem concat_unitary : forall (K : cring) (c1 c2 : circuit K), circ_wf c1 -> circ_wf c2 ->
  let N := Nat.max (c_n c1) (c_n c2) in
  mat_eq (2 ^ N) (c_unitary (cadd c1 c2))
         (mmul (2 ^ N) (kron (2 ^ (N - c_n c2)) (c_unitary c2) eye) (kron (2 ^ (N - c_n c1)) (c_unitary c1) eye)).
Proof. exact CircuitProofs.concat_unitary. Qed.
Print Assumptions concat_unitary.

Theorem append_width : forall (K : cring) (c : circuit K) (g : gateapp K),
  c_n (cappend c g) = Nat.max (c_n c) (S (list_max (g_qs g))) /\ c_ops (cappend c g) = c_ops c ++ [g].
Proof. exact CircuitProofs.append_width. Qed.
Print Assumptions append_width.

Example circuit_premises_met :
  circ_wf (mk_circuit [mk_gateapp generic_gate [4; 0; 2]; mk_gateapp generic_gate [1]] (Some 6)).
Proof.
  repeat constructor; cbn; try discriminate; intuition discriminate.
Qed.
