(* C20 - Value-returning operations never modify their arguments.
   Property theorems only; every proof is [exact <lemma>].  The model (State/Store.v) is a CHECKER of recorded
   call histories over an explicit store of snapshotted objects: these theorems fix which calls are claimed
   pure, what a history is, and what a passing history guarantees.  That the Python implementation produces
   passing histories is explored by differential history testing (harness/c20.py), not proved. *)
Require Import Coq.ZArith.ZArith Coq.Lists.List Coq.Strings.String Coq.Bool.Bool.
Require Import OQ.State.Store OQ.State.StoreProofs.
Import ListNotations.
Open Scope list_scope.

(* "identical snapshot" is Leibniz equality of snapshot trees *)
Theorem snapshot_comparison_exact : forall a b, snap_eqb a b = true <-> a = b.
Proof. exact snap_eqb_eq. Qed.
Print Assumptions snapshot_comparison_exact.

(* a passing history is exactly: distinct names, every single step passes from the store it started in, and
   repeated pure questions got equal answers - so one bad step is localised *)
Theorem history_ok_is_conjunction_of_steps : forall s0 h, history_ok s0 h = true <->
  names_fresh s0 = true /\
  (forall k p, nth_error (trace s0 h) k = Some p -> step_ok (fst p) (snd p) = true) /\
  results_consistent (trace s0 h) = true.
Proof. exact history_ok_iff. Qed.
Print Assumptions history_ok_is_conjunction_of_steps.

Theorem first_bad_step_is_none_iff_all_pass : forall h s, first_bad s h = None <-> steps_ok s h = true.
Proof. exact first_bad_none. Qed.
Print Assumptions first_bad_step_is_none_iff_all_pass.

Theorem first_bad_step_localises : forall h s k, first_bad s h = Some k ->
  exists p, nth_error (trace s h) k = Some p /\ step_ok (fst p) (snd p) = false /\
            (forall k' p', (k' < k)%nat -> nth_error (trace s h) k' = Some p' -> step_ok (fst p') (snd p') = true).
Proof. exact first_bad_some. Qed.
Print Assumptions first_bad_step_localises.

(* all calls pure: the final store is the initial store (names, identities, snapshots, in order) followed by
   the bound results; in particular every initial object is found unchanged *)
Theorem pure_calls_preserve_store : forall s0 h, history_ok s0 h = true ->
  Forall (fun st => classify (cop (scall st)) = Some Pure) h ->
  (exists results, cores (final s0 h) = cores s0 ++ cores results) /\
  (forall n e, lookup n s0 = Some e ->
     exists e', lookup n (final s0 h) = Some e' /\ eoid e' = eoid e /\ esnap e' = esnap e).
Proof. exact pure_calls_preserve_store_lemma. Qed.
Print Assumptions pure_calls_preserve_store.

(* any passing step, whatever its class: an object whose identity is not the receiver's is unchanged
   (for a pure call the side condition is vacuous: nothing changes) *)
Theorem mutator_frame : forall pre st, step_ok pre st = true ->
  forall n e, lookup n pre = Some e ->
  (forall i, (classify (cop (scall st)) = Some (Mutator i) \/ classify (cop (scall st)) = Some (MutatorAtomic i)) ->
             recv_oid pre (cargs (scall st)) i <> Some (eoid e)) ->
  exists e', lookup n (spost st) = Some e' /\ eoid e' = eoid e /\ esnap e' = esnap e.
Proof. exact mutator_frame_lemma. Qed.
Print Assumptions mutator_frame.

(* an atomic in-place update that raised left every object with the value it had (the receiver's private
   containers may have been replaced by equal copies; by [mutator_frame] all other objects are untouched) *)
Theorem rejected_atomic_update_changes_nothing : forall pre st i, step_ok pre st = true ->
  classify (cop (scall st)) = Some (MutatorAtomic i) -> sraised st = true ->
  exists extra, vcores (spost st) = vcores pre ++ vcores extra.
Proof. exact atomic_raise_lemma. Qed.
Print Assumptions rejected_atomic_update_changes_nothing.

(* two identical pure calls that saw identical argument snapshots returned identical results *)
Theorem repeat_same_result : forall s0 h, history_ok s0 h = true ->
  forall i j pre_i st_i pre_j st_j, (i < j)%nat ->
  nth_error (trace s0 h) i = Some (pre_i, st_i) -> nth_error (trace s0 h) j = Some (pre_j, st_j) ->
  is_pure (cop (scall st_i)) = true -> cop (scall st_i) = cop (scall st_j) -> cargs (scall st_i) = cargs (scall st_j) ->
  map (arg_snap pre_i) (cargs (scall st_i)) = map (arg_snap pre_j) (cargs (scall st_j)) ->
  sres st_i = sres st_j /\ sraised st_i = sraised st_j.
Proof. exact repeat_same_result_lemma. Qed.
Print Assumptions repeat_same_result.

(* ... and when all calls of the history are pure the arguments cannot have changed in between *)
Theorem repeat_same_result_all_pure : forall s0 h, history_ok s0 h = true ->
  Forall (fun st => classify (cop (scall st)) = Some Pure) h ->
  forall i j pre_i st_i pre_j st_j, (i < j)%nat ->
  nth_error (trace s0 h) i = Some (pre_i, st_i) -> nth_error (trace s0 h) j = Some (pre_j, st_j) ->
  cop (scall st_i) = cop (scall st_j) -> cargs (scall st_i) = cargs (scall st_j) ->
  sres st_i = sres st_j /\ sraised st_i = sraised st_j.
Proof. exact repeat_same_result_pure_lemma. Qed.
Print Assumptions repeat_same_result_all_pure.

Theorem checked_names_are_distinct : forall s, names_fresh s = true -> NoDup (map ename s).
Proof. exact names_fresh_nodup. Qed.
Print Assumptions checked_names_are_distinct.

(* ---------------------------------------------------------------- the classification, on examples *)
Open Scope string_scope.
Example marginal_is_claimed_pure : classify "dist_sub" = Some Pure.
Proof. reflexivity. Qed.
Example simplify_is_claimed_pure : classify "op_simplify" = Some Pure.
Proof. reflexivity. Qed.
Example circuit_sum_is_claimed_pure : classify "circ_add" = Some Pure /\ classify "circ_iadd" = Some Pure.
Proof. split; reflexivity. Qed.
Example amplitude_assignment_is_a_mutator : classify "wf_setitem" = Some (MutatorAtomic 0).
Proof. reflexivity. Qed.
Example add_counts_is_a_mutator : classify "meas_add_counts" = Some (Mutator 0).
Proof. reflexivity. Qed.
Example unknown_operations_are_rejected : classify "launch_rocket" = None.
Proof. reflexivity. Qed.

(* ---------------------------------------------------------------- hypotheses are satisfiable / a bad step is caught *)
Definition ex_dist := ST "Dist" [SRef 7; SL [ST "kv" [SL [SInt 0; SInt 0]; SStr "0.5"]; ST "kv" [SL [SInt 1; SInt 1]; SStr "0.5"]]].
Definition ex_dist_emptied := ST "Dist" [SRef 7; SL []].
Definition ex_list := ST "list" [SRef 8; SL [SInt 0]].
Definition ex_sub := ST "Dist" [SRef 9; SL [ST "kv" [SL [SInt 0]; SStr "0.5"]; ST "kv" [SL [SInt 1]; SStr "0.5"]]].
Definition ex_meas := ST "Meas" [SRef 10; SL [SL [SInt 0; SInt 1]]].
Definition ex_meas' := ST "Meas" [SRef 10; SL [SL [SInt 0; SInt 1]; SL [SInt 1; SInt 1]]].
Definition ex_counts := ST "dict" [SRef 11; SL [ST "kv" [SStr "11"; SInt 1]]].
Definition ex_s0 : store := [E "d0" 1 ex_dist []; E "l0" 2 ex_list []; E "m0" 3 ex_meas []; E "k0" 4 ex_counts []].
Definition ex_s1 : store := (ex_s0 ++ [E "x0" 5 ex_sub []])%list.
Definition ex_s2 : store := [E "d0" 1 ex_dist []; E "l0" 2 ex_list []; E "m0" 3 ex_meas' []; E "k0" 4 ex_counts []; E "x0" 5 ex_sub []].
Definition ex_marginal := Call "dist_sub" [AObj "d0"; AObj "l0"] (Some "x0").
Definition ex_marginal_again := Call "dist_sub" [AObj "d0"; AObj "l0"] None.
Definition ex_good : list step :=
  [ Step ex_marginal false ex_sub ex_s1;
    Step ex_marginal_again false ex_sub ex_s1;
    Step (Call "meas_add_counts" [AObj "m0"; AObj "k0"] None) false (ST "None" []) ex_s2;
    Step ex_marginal_again false ex_sub ex_s2 ].

Example good_history_passes : history_ok ex_s0 ex_good = true.
Proof. vm_compute. reflexivity. Qed.

(* the shape of the fixed defect F1: the marginal emptied its source *)
Definition ex_bad : list step :=
  [ Step ex_marginal_again false ex_sub ex_s0;
    Step ex_marginal_again false ex_sub [E "d0" 1 ex_dist_emptied []; E "l0" 2 ex_list []; E "m0" 3 ex_meas []; E "k0" 4 ex_counts []] ].
Example emptied_source_is_caught : history_ok ex_s0 ex_bad = false /\ first_bad ex_s0 ex_bad = Some 1%nat.
Proof. vm_compute. split; reflexivity. Qed.

(* a mutator that also touches an object other than its receiver is caught *)
Example mutator_outside_its_frame_is_caught :
  step_ok ex_s0 (Step (Call "meas_add_counts" [AObj "m0"; AObj "k0"] None) false (ST "None" [])
                      [E "d0" 1 ex_dist []; E "l0" 2 ex_list []; E "m0" 3 ex_meas' []; E "k0" 4 (ST "dict" [SRef 11; SL []]) []]) = false.
Proof. vm_compute. reflexivity. Qed.

(* a rejected amplitude assignment may renew the private vector but not its entries *)
Definition ex_wf (r : Z) (a : string) := ST "WF" [SRef r; SL [SStr a; SStr "0"]].
Example rejected_assignment_must_restore_values :
  let set := Call "wf_setitem" [AObj "w"; ALit (SInt 0); ALit (SStr "2.0")] None in
  step_ok [E "w" 1 (ex_wf 5 "1") []] (Step set true (ST "raised" []) [E "w" 1 (ex_wf 6 "1") []]) = true /\
  step_ok [E "w" 1 (ex_wf 5 "1") []] (Step set true (ST "raised" []) [E "w" 1 (ex_wf 5 "2.0") []]) = false /\
  step_ok [E "w" 1 (ex_wf 5 "1") []] (Step set false (ST "None" []) [E "w" 1 (ex_wf 5 "0") []]) = true.
Proof. vm_compute. repeat split; reflexivity. Qed.

(* a repeated pure call with a different answer is caught although every frame check passes *)
Example different_answer_is_caught :
  history_ok ex_s0 [Step ex_marginal_again false ex_sub ex_s0; Step ex_marginal_again false ex_dist ex_s0] = false /\
  steps_ok ex_s0 [Step ex_marginal_again false ex_sub ex_s0; Step ex_marginal_again false ex_dist ex_s0] = true.
Proof. vm_compute. split; reflexivity. Qed.
