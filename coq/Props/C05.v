(* C05 - Circuits survive JSON serialisation unchanged in structure and meaning.
   Property theorems only; every proof is [exact <lemma>].  The table of module-level names of
   circuits/_builtin_gates.py and the wrapper markers of _gates.py are generated from the source on
   every run (Gen/NamesGen.v); the theorems are re-proved against the regenerated table.
   The text of gate arguments is abstract: [print] = sympy str, [sympify m text] = sympy.sympify with the
   locals [m] that the model of _make_symbols_map builds from the recorded names, [free] = names of an
   expression's free symbols; their round trip on usable names is the premise. *)
Require Import Coq.ZArith.ZArith Coq.Lists.List Coq.Strings.String.
Require Import OQ.Gen.NamesGen OQ.Serde.Json OQ.Serde.CircuitSerde OQ.Serde.CircuitSerdeProofs OQ.Serde.CircuitSerdeCases.
Import ListNotations.
Open Scope string_scope.

(* the reader chosen from a gate's name is the one for the gate's kind: built-in names are found in the
   module's globals, "Control", "..._Dagger", "Exponential", "...^e" select the wrapper readers in the order
   the code tests them, anything else is looked up among the custom definitions *)
Theorem dispatch_unambiguous : forall (expr : Type) (g : gate expr),
  names_wf expr g -> classify (name_of expr g) = kind_of expr g.
Proof. exact CircuitSerdeProofs.dispatch_unambiguous. Qed.
Print Assumptions dispatch_unambiguous.

(* every int exponent is acceptable (float exponents: their repr must not end in the marker's last letter) *)
Theorem int_exponents_ok : forall z, num_ok (NInt z) = true.
Proof. exact num_ok_int. Qed.
Print Assumptions int_exponents_ok.

(* one gate, any nesting depth of controlled / dagger / power / exponential around a built-in or custom
   gate, any control count >= 1, any exponent, given the definitions written next to it *)
Theorem gate_survives_json :
  forall (expr : Type) (print : expr -> string) (parse : list string -> string -> option expr)
         (free : expr -> list string) (syms_ok : list string -> bool),
  (forall syms e, syms_ok syms = true -> incl (free e) syms -> parse syms (print e) = Some e) ->
  forall defs g, gate_ok expr free syms_ok defs g ->
  forall fuel, (gate_depth expr g < fuel)%nat ->
  gate_from_json expr parse free fuel defs (gate_to_json expr print free g) = Ok g.
Proof. exact gate_round_trip. Qed.
Print Assumptions gate_survives_json.

(* collect_custom_gate_definitions: one definition per name, exactly the ones in use (also under
   wrappers), and a used definition is found again under its name *)
Theorem definitions_collected :
  forall (expr : Type) (expr_eqb : expr -> expr -> bool), (forall a b, expr_eqb a b = true -> a = b) ->
  forall ops defs, collect_custom_defs expr expr_eqb ops = Some defs ->
  NoDup (map (dname expr) defs) /\
  (forall d, In d (op_defs expr ops) -> find_def expr (dname expr d) defs = Some d) /\
  (forall d, In d defs -> In d (op_defs expr ops)).
Proof. exact collect_spec. Qed.
Print Assumptions definitions_collected.

(* whole circuits, abstract parser: width, operations in order with their qubit indices, custom
   definitions; empty circuits and idle qubits included *)
Theorem circuit_survives_json_abstract :
  forall (expr : Type) (print : expr -> string) (parse : list string -> string -> option expr)
         (free : expr -> list string) (expr_eqb : expr -> expr -> bool) (syms_ok : list string -> bool),
  (forall syms e, syms_ok syms = true -> incl (free e) syms -> parse syms (print e) = Some e) ->
  (forall a b, expr_eqb a b = true -> a = b) ->
  forall c j, circuit_wf expr free syms_ok c ->
  circuit_to_json expr print free expr_eqb c = Some j ->
  circuit_from_json expr parse free j = Ok c.
Proof. exact circuit_round_trip_wf. Qed.
Print Assumptions circuit_survives_json_abstract.

(* whole circuits with deserialize_expr = sympify under the modelled _make_symbols_map *)
Theorem circuit_survives_json :
  forall (expr : Type) (print : expr -> string) (sympify : symmap -> string -> option expr)
         (free : expr -> list string) (idents_ok : list string -> bool),
  (forall syms m e, make_symbols_map syms = Some m -> forallb (resolves m) syms = true ->
                    idents_ok syms = true -> incl (free e) syms -> sympify m (print e) = Some e) ->
  forall (expr_eqb : expr -> expr -> bool), (forall a b, expr_eqb a b = true -> a = b) ->
  forall c j, circuit_wf expr free (syms_usable idents_ok) c ->
  circuit_to_json expr print free expr_eqb c = Some j ->
  circuit_from_json expr (parse_via_map sympify) free j = Ok c.
Proof. exact circuit_round_trip_sympify. Qed.
Print Assumptions circuit_survives_json.

(* lists of circuits *)
Theorem circuitset_survives_json :
  forall (expr : Type) (print : expr -> string) (sympify : symmap -> string -> option expr)
         (free : expr -> list string) (idents_ok : list string -> bool),
  (forall syms m e, make_symbols_map syms = Some m -> forallb (resolves m) syms = true ->
                    idents_ok syms = true -> incl (free e) syms -> sympify m (print e) = Some e) ->
  forall (expr_eqb : expr -> expr -> bool), (forall a b, expr_eqb a b = true -> a = b) ->
  forall cs j, Forall (circuit_wf expr free (syms_usable idents_ok)) cs ->
  circuitset_to_json expr print free expr_eqb cs = Some j ->
  circuitset_from_json expr (parse_via_map sympify) free j = Ok cs.
Proof. exact circuitset_round_trip_sympify. Qed.
Print Assumptions circuitset_survives_json.

(* hence anything computed from the circuit - its free symbols, its matrix under any assignment of
   them - is the same for the circuit read back *)
Theorem meaning_survives_json :
  forall (expr : Type) (print : expr -> string) (sympify : symmap -> string -> option expr)
         (free : expr -> list string) (idents_ok : list string -> bool),
  (forall syms m e, make_symbols_map syms = Some m -> forallb (resolves m) syms = true ->
                    idents_ok syms = true -> incl (free e) syms -> sympify m (print e) = Some e) ->
  forall (expr_eqb : expr -> expr -> bool), (forall a b, expr_eqb a b = true -> a = b) ->
  forall (Obs : Type) (obs : circuit expr -> Obs) c j c2,
  circuit_wf expr free (syms_usable idents_ok) c ->
  circuit_to_json expr print free expr_eqb c = Some j ->
  circuit_from_json expr (parse_via_map sympify) free j = Ok c2 -> obs c2 = obs c.
Proof. exact observables_preserved. Qed.
Print Assumptions meaning_survives_json.

(* F16 (known finding): a gate whose arguments use both x and x[3] is written but cannot be read back,
   whatever sympify does - the symbols map cannot be built *)
Theorem x_with_indexed_x_unreadable :
  forall (expr : Type) (print : expr -> string) (sympify : symmap -> string -> option expr)
         (free : expr -> list string) (e : expr) (expr_eqb : expr -> expr -> bool),
  free e = ["x"; "x[3]"] ->
  exists j, circuit_to_json expr print free expr_eqb (mk_circuit expr [(Builtin expr "RX" [e], [0%Z])] 1) = Some j /\
            circuit_from_json expr (parse_via_map sympify) free j = EErr.
Proof. exact f16_unreadable. Qed.
Print Assumptions x_with_indexed_x_unreadable.

(* the premises are satisfiable: an instance where every argument is a bare symbol, and a circuit with a
   custom gate (indexed formal name) under controlled+dagger and under power, nested wrappers on a
   built-in gate, a three-argument gate, an idle qubit *)
Example sympify_premise_met : forall syms m e, make_symbols_map syms = Some m -> forallb (resolves m) syms = true ->
  toy_idents syms = true -> incl (toy_free e) syms -> toy_sympify m (toy_print e) = Some e.
Proof. exact toy_sympify_print. Qed.
Example wf_premise_met : circuit_wf string toy_free (syms_usable toy_idents) toy_circuit.
Proof. exact toy_circuit_wf. Qed.
Example toy_circuit_survives :
  match circuit_to_json string toy_print toy_free String.eqb toy_circuit with
  | Some j => circuit_from_json string (parse_via_map toy_sympify) toy_free j = Ok toy_circuit
  | None => False
  end.
Proof. vm_compute. reflexivity. Qed.
Example names_premise_met : names_wf string (Power string (Dagger string (Custom string toy_def [])) (NFloat "0.5")).
Proof. vm_compute. reflexivity. Qed.

(* ---------------------------------------------------------------------------------------------------------------
   The model functions above are what the code does: circuits/_serde.py (with Circuit.collect_custom_gate_definitions,
   _innermost_gate, _operation_uses_custom_gate of _circuit.py and gate_is_parametric of _gates.py) is translated to
   Gallina on every run (tr/tr_serde.py -> Gen/SerdeGen.v, over the gate dataclasses generated by tr/tr_gates.py in
   Gen/GateModsGen.v; meaning of the Python building blocks in Serde/SerdeTrSupport.v) and the generated definitions
   are proved to agree with the model (Serde/SerdeGenProofs.v).  [MS] / [ME] turn the model's abstract expressions,
   print, sympify, free and expr_eqb into a world for the generated code; [emb_*] embed model objects into the generated
   object types.  Serialiser: equality for all inputs (fuel = recursion depth available, enough for the nesting).
   Deserialiser: [agrees]: wherever the model makes a claim (a value, KeyError, another Python exception) the
   generated function returns exactly that; nothing is claimed where the model says EUnmodelled. *)
Require Import OQ.Serde.SerdeTrSupport OQ.Gen.SerdeGen OQ.Serde.SerdeGenProofs.

Theorem generated_gate_name_is_model : forall (expr : Type) print sympify free (g : gate expr),
  OQ.Gen.GateModsGen.Gate_name_gen (emb_gate expr print sympify free g) = name_of expr g.
Proof. exact name_gen_is_model. Qed.
Print Assumptions generated_gate_name_is_model.

Theorem generated_gate_free_symbols_is_model : forall (expr : Type) print sympify free (g : gate expr),
  OQ.Gen.GateModsGen.Gate_free_symbols_gen (emb_gate expr print sympify free g) = gate_free expr free g.
Proof. exact free_symbols_gen_is_model. Qed.
Print Assumptions generated_gate_free_symbols_is_model.

Theorem generated_to_dict_gate_is_model : forall (expr : Type) print sympify free expr_eqb (g : gate expr) fuel,
  (gate_depth expr g < fuel)%nat ->
  to_dict_gen (MS expr print sympify free) (ME expr print sympify free expr_eqb) fuel (Obj_Gate (emb_gate expr print sympify free g))
  = Val (gate_to_json expr print free g).
Proof. exact to_dict_gate_gen_is_model. Qed.
Print Assumptions generated_to_dict_gate_is_model.

Theorem generated_to_dict_operation_is_model : forall (expr : Type) print sympify free expr_eqb (op : operation expr) fuel,
  (gate_depth expr (fst op) + 1 < fuel)%nat ->
  to_dict_gen (MS expr print sympify free) (ME expr print sympify free expr_eqb) fuel (Obj_Operation (emb_pyop expr print sympify free op))
  = Val (op_to_json expr print free op).
Proof. exact to_dict_operation_gen_is_model. Qed.
Print Assumptions generated_to_dict_operation_is_model.

Theorem generated_to_dict_definition_is_model : forall (expr : Type) print sympify free expr_eqb (d : gdef expr) fuel,
  (0 < fuel)%nat ->
  to_dict_gen (MS expr print sympify free) (ME expr print sympify free expr_eqb) fuel
              (Obj_CustomGateDefinition (emb_def expr print sympify free d))
  = Val (def_to_json expr print d).
Proof. exact to_dict_definition_gen_is_model. Qed.
Print Assumptions generated_to_dict_definition_is_model.

(* Circuit.collect_custom_gate_definitions: the conflict of two definitions under one name is the ValueError *)
Theorem generated_collect_definitions_is_model : forall (expr : Type) print sympify free expr_eqb (c : circuit expr) fuel,
  Forall (fun op => gate_depth expr (fst op) < fuel)%nat (c_ops expr c) ->
  Circuit_collect_custom_gate_definitions_gen (MS expr print sympify free) (ME expr print sympify free expr_eqb) fuel
    (emb_circ expr print sympify free c)
  = match collect_custom_defs expr expr_eqb (c_ops expr c) with
    | Some defs => Val (map (emb_def expr print sympify free) defs)
    | None => Exn ValueError
    end.
Proof. exact collect_gen_is_model. Qed.
Print Assumptions generated_collect_definitions_is_model.

Theorem generated_to_dict_circuit_is_model : forall (expr : Type) print sympify free expr_eqb (c : circuit expr) fuel,
  (ops_depth expr (c_ops expr c) + 2 < fuel)%nat ->
  to_dict_gen (MS expr print sympify free) (ME expr print sympify free expr_eqb) fuel (Obj_Circuit (emb_circ expr print sympify free c))
  = match circuit_to_json expr print free expr_eqb c with Some j => Val j | None => Exn ValueError end.
Proof. exact to_dict_circuit_gen_is_model. Qed.
Print Assumptions generated_to_dict_circuit_is_model.

Theorem generated_to_dict_circuitset_is_model : forall (expr : Type) print sympify free expr_eqb (cs : list (circuit expr)) fuel,
  (set_depth expr cs + 2 < fuel)%nat ->
  to_dict_gen (MS expr print sympify free) (ME expr print sympify free expr_eqb) fuel
              (Obj_list (map (emb_circ expr print sympify free) cs))
  = match circuitset_to_json expr print free expr_eqb cs with Some j => Val j | None => Exn ValueError end.
Proof. exact to_dict_circuitset_gen_is_model. Qed.
Print Assumptions generated_to_dict_circuitset_is_model.

(* _make_symbols_map on a list of names (the TypeError: a name and an indexed name with the same base, F16) and
   deserialize_expr = sympify with that map *)
Theorem generated_make_symbols_map_is_model : forall (expr : Type) print sympify free (names : list string),
  make_symbols_map_gen (MS expr print sympify free) (JArr (map JStr names))
  = match make_symbols_map names with Some m => Val (emb_symmap m) | None => Exn TypeError end.
Proof. exact make_symbols_map_gen_is_model. Qed.
Print Assumptions generated_make_symbols_map_is_model.

Theorem generated_deserialize_expr_is_model : forall (expr : Type) print (sympify : symmap -> string -> option expr) free s syms,
  deserialize_expr_gen (MS expr print sympify free) (JStr s) (JArr (map JStr syms))
  = match make_symbols_map syms with
    | Some m => match sympify m s with Some e => Val e | None => Exn SympyError end
    | None => Exn TypeError
    end.
Proof. exact deserialize_expr_gen_is_model. Qed.
Print Assumptions generated_deserialize_expr_is_model.

Theorem generated_builtin_gate_from_dict_is_model : forall (expr : Type) print sympify free j,
  agrees (emb_gate expr print sympify free) (builtin_gate_from_dict_gen (MS expr print sympify free) j)
         (builtin_from_json expr (parse_via_map sympify) j).
Proof. exact builtin_gate_from_dict_gen_agrees. Qed.
Print Assumptions generated_builtin_gate_from_dict_is_model.

Theorem generated_special_gate_from_dict_is_model : forall (expr : Type) print sympify free rec_g rec_m j defs,
  (forall wj, agrees (emb_gate expr print sympify free) (rec_g wj (map (emb_def expr print sympify free) defs)) (rec_m wj)) ->
  agrees (emb_gate expr print sympify free)
         (special_gate_from_dict_gen (MS expr print sympify free) rec_g j (map (emb_def expr print sympify free) defs))
         (special_from_json expr free rec_m j).
Proof. exact special_gate_from_dict_gen_agrees. Qed.
Print Assumptions generated_special_gate_from_dict_is_model.

Theorem generated_custom_gate_instance_from_dict_is_model : forall (expr : Type) print sympify free j defs,
  agrees (emb_gate expr print sympify free)
         (custom_gate_instance_from_dict_gen (MS expr print sympify free) j (map (emb_def expr print sympify free) defs))
         (custom_from_json expr (parse_via_map sympify) defs j).
Proof. exact custom_gate_instance_from_dict_gen_agrees. Qed.
Print Assumptions generated_custom_gate_instance_from_dict_is_model.

(* _gate_from_dict with its KeyError fall-through, same fuel on both sides *)
Theorem generated_gate_from_dict_is_model : forall (expr : Type) print sympify free fuel j defs,
  agrees (emb_gate expr print sympify free)
         (gate_from_dict_gen (MS expr print sympify free) fuel j (map (emb_def expr print sympify free) defs))
         (gate_from_json expr (parse_via_map sympify) free fuel defs j).
Proof. exact gate_from_dict_gen_agrees. Qed.
Print Assumptions generated_gate_from_dict_is_model.

Theorem generated_gate_operation_from_dict_is_model : forall (expr : Type) print sympify free fuel j defs,
  agrees (emb_op expr print sympify free)
         (gate_operation_from_dict_gen (MS expr print sympify free) fuel j (map (emb_def expr print sympify free) defs))
         (op_from_json expr (parse_via_map sympify) free fuel defs j).
Proof. exact gate_operation_from_dict_gen_agrees. Qed.
Print Assumptions generated_gate_operation_from_dict_is_model.

Theorem generated_custom_gate_def_from_dict_is_model : forall (expr : Type) print sympify free j,
  agrees (emb_def expr print sympify free) (custom_gate_def_from_dict_gen (MS expr print sympify free) j)
         (def_from_json expr (parse_via_map sympify) j).
Proof. exact custom_gate_def_from_dict_gen_agrees. Qed.
Print Assumptions generated_custom_gate_def_from_dict_is_model.

(* any fuel from the depth of the dictionary on (the model takes exactly that depth) *)
Theorem generated_circuit_from_dict_is_model : forall (expr : Type) print sympify free expr_eqb fuel j,
  (jdepth j <= fuel)%nat ->
  agrees (emb_circ expr print sympify free)
         (circuit_from_dict_gen (MS expr print sympify free) (ME expr print sympify free expr_eqb) fuel j)
         (circuit_from_json expr (parse_via_map sympify) free j).
Proof. exact circuit_from_dict_gen_agrees. Qed.
Print Assumptions generated_circuit_from_dict_is_model.

Theorem generated_circuitset_from_dict_is_model : forall (expr : Type) print sympify free expr_eqb fuel j,
  (jdepth j <= fuel)%nat ->
  agrees (map (emb_circ expr print sympify free))
         (circuitset_from_dict_gen (MS expr print sympify free) (ME expr print sympify free expr_eqb) fuel j)
         (circuitset_from_json expr (parse_via_map sympify) free j).
Proof. exact circuitset_from_dict_gen_agrees. Qed.
Print Assumptions generated_circuitset_from_dict_is_model.

(* hence the property about the generated code itself: what the generated to_dict writes for a well-formed circuit,
   the generated circuit_from_dict reads back as the same circuit object *)
Theorem generated_code_round_trips :
  forall (expr : Type) (print : expr -> string) (sympify : symmap -> string -> option expr)
         (free : expr -> list string) (idents_ok : list string -> bool),
  (forall syms m e, make_symbols_map syms = Some m -> forallb (resolves m) syms = true ->
                    idents_ok syms = true -> incl (free e) syms -> sympify m (print e) = Some e) ->
  forall (expr_eqb : expr -> expr -> bool), (forall a b, expr_eqb a b = true -> a = b) ->
  forall c j fuel fuel', circuit_wf expr free (syms_usable idents_ok) c ->
  (ops_depth expr (c_ops expr c) + 2 < fuel)%nat -> (jdepth j <= fuel')%nat ->
  to_dict_gen (MS expr print sympify free) (ME expr print sympify free expr_eqb) fuel
              (Obj_Circuit (emb_circ expr print sympify free c)) = Val j ->
  circuit_from_dict_gen (MS expr print sympify free) (ME expr print sympify free expr_eqb) fuel' j
  = Val (emb_circ expr print sympify free c).
Proof. exact generated_round_trip. Qed.
Print Assumptions generated_code_round_trips.

(* the generated functions run: the toy circuit is written by the generated to_dict exactly as by the model and read
   back by the generated circuit_from_dict (shown through unemb_circ, the inverse of emb_circ) *)
Example generated_functions_run :
  match to_dict_gen (MS string toy_print toy_sympify toy_free) (ME string toy_print toy_sympify toy_free String.eqb) 6
                    (Obj_Circuit (emb_circ string toy_print toy_sympify toy_free toy_circuit)) with
  | Val j =>
      circuit_to_json string toy_print toy_free String.eqb toy_circuit = Some j /\
      match circuit_from_dict_gen (MS string toy_print toy_sympify toy_free)
                                  (ME string toy_print toy_sympify toy_free String.eqb) (jdepth j) j with
      | Val c => unemb_circ string toy_print toy_sympify toy_free c = toy_circuit
      | Exn _ => False
      end
  | Exn _ => False
  end.
Proof. vm_compute. split; reflexivity. Qed.
