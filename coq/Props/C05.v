(* C05 - Circuits survive JSON serialisation unchanged in structure and meaning.
   Property theorems only; every proof is [exact <lemma>].  The table of module-level names of
   circuits/_builtin_gates.py and the wrapper markers of _gates.py are generated from the source on
   every run (Gen/NamesGen.v); the theorems are re-proved against the regenerated table.
   The text of gate arguments is abstract: [print] = sympy str, [sympify m text] = sympy.sympify with the
   locals [m] that the model of _make_symbols_map builds from the recorded names, [free] = names of an
   expression's free symbols; their round trip on usable names is the premise. *)
Require Import Coq.ZArith.ZArith Coq.Lists.List Coq.Strings.String.
Require Import OQ.Gen.NamesGen OQ.Serde.Json OQ.Serde.CircuitSerde OQ.Serde.CircuitSerdeProofs OQ.Serde.CircuitSerdeCases.
Import ListNotations.
Open Scope string_scope.

(* the reader chosen from a gate's name is the one for the gate's kind: built-in names are found in the
   module's globals, "Control", "..._Dagger", "Exponential", "...^e" select the wrapper readers in the order
   the code tests them, anything else is looked up among the custom definitions *)
Theorem dispatch_unambiguous : forall (expr : Type) (g : gate expr),
  names_wf expr g -> classify (name_of expr g) = kind_of expr g.
Proof. exact CircuitSerdeProofs.dispatch_unambiguous. Qed.
Print Assumptions dispatch_unambiguous.

(* every int exponent is acceptable (float exponents: their repr must not end in the marker's last letter) *)
Theorem int_exponents_ok : forall z, num_ok (NInt z) = true.
Proof. exact num_ok_int. Qed.
Print Assumptions int_exponents_ok.

(* one gate, any nesting depth of controlled / dagger / power / exponential around a built-in or custom
   gate, any control count >= 1, any exponent, given the definitions written next to it *)
Theorem gate_survives_json :
  forall (expr : Type) (print : expr -> string) (parse : list string -> string -> option expr)
         (free : expr -> list string) (syms_ok : list string -> bool),
  (forall syms e, syms_ok syms = true -> incl (free e) syms -> parse syms (print e) = Some e) ->
  forall defs g, gate_ok expr free syms_ok defs g ->
  forall fuel, (gate_depth expr g < fuel)%nat ->
  gate_from_json expr parse free fuel defs (gate_to_json expr print free g) = Ok g.
Proof. exact gate_round_trip. Qed.
Print Assumptions gate_survives_json.

(* collect_custom_gate_definitions: one definition per name, exactly the ones in use (also under
   wrappers), and a used definition is found again under its name *)
Theorem definitions_collected :
  forall (expr : Type) (expr_eqb : expr -> expr -> bool), (forall a b, expr_eqb a b = true -> a = b) ->
  forall ops defs, collect_custom_defs expr expr_eqb ops = Some defs ->
  NoDup (map (dname expr) defs) /\
  (forall d, In d (op_defs expr ops) -> find_def expr (dname expr d) defs = Some d) /\
  (forall d, In d defs -> In d (op_defs expr ops)).
Proof. exact collect_spec. Qed.
Print Assumptions definitions_collected.

(* whole circuits, abstract parser: width, operations in order with their qubit indices, custom
   definitions; empty circuits and idle qubits included *)
Theorem circuit_survives_json_abstract :
  forall (expr : Type) (print : expr -> string) (parse : list string -> string -> option expr)
         (free : expr -> list string) (expr_eqb : expr -> expr -> bool) (syms_ok : list string -> bool),
  (forall syms e, syms_ok syms = true -> incl (free e) syms -> parse syms (print e) = Some e) ->
  (forall a b, expr_eqb a b = true -> a = b) ->
  forall c j, circuit_wf expr free syms_ok c ->
  circuit_to_json expr print free expr_eqb c = Some j ->
  circuit_from_json expr parse free j = Ok c.
Proof. exact circuit_round_trip_wf. Qed.
Print Assumptions circuit_survives_json_abstract.

(* whole circuits with deserialize_expr = sympify under the modelled _make_symbols_map *)
Theorem circuit_survives_json :
  forall (expr : Type) (print : expr -> string) (sympify : symmap -> string -> option expr)
         (free : expr -> list string) (idents_ok : list string -> bool),
  (forall syms m e, make_symbols_map syms = Some m -> forallb (resolves m) syms = true ->
                    idents_ok syms = true -> incl (free e) syms -> sympify m (print e) = Some e) ->
  forall (expr_eqb : expr -> expr -> bool), (forall a b, expr_eqb a b = true -> a = b) ->
  forall c j, circuit_wf expr free (syms_usable idents_ok) c ->
  circuit_to_json expr print free expr_eqb c = Some j ->
  circuit_from_json expr (parse_via_map sympify) free j = Ok c.
Proof. exact circuit_round_trip_sympify. Qed.
Print Assumptions circuit_survives_json.

(* lists of circuits *)
Theorem circuitset_survives_json :
  forall (expr : Type) (print : expr -> string) (sympify : symmap -> string -> option expr)
         (free : expr -> list string) (idents_ok : list string -> bool),
  (forall syms m e, make_symbols_map syms = Some m -> forallb (resolves m) syms = true ->
                    idents_ok syms = true -> incl (free e) syms -> sympify m (print e) = Some e) ->
  forall (expr_eqb : expr -> expr -> bool), (forall a b, expr_eqb a b = true -> a = b) ->
  forall cs j, Forall (circuit_wf expr free (syms_usable idents_ok)) cs ->
  circuitset_to_json expr print free expr_eqb cs = Some j ->
  circuitset_from_json expr (parse_via_map sympify) free j = Ok cs.
Proof. exact circuitset_round_trip_sympify. Qed.
Print Assumptions circuitset_survives_json.

(* hence anything computed from the circuit - its free symbols, its matrix under any assignment of
   them - is the same for the circuit read back *)
Theorem meaning_survives_json :
  forall (expr : Type) (print : expr -> string) (sympify : symmap -> string -> option expr)
         (free : expr -> list string) (idents_ok : list string -> bool),
  (forall syms m e, make_symbols_map syms = Some m -> forallb (resolves m) syms = true ->
                    idents_ok syms = true -> incl (free e) syms -> sympify m (print e) = Some e) ->
  forall (expr_eqb : expr -> expr -> bool), (forall a b, expr_eqb a b = true -> a = b) ->
  forall (Obs : Type) (obs : circuit expr -> Obs) c j c2,
  circuit_wf expr free (syms_usable idents_ok) c ->
  circuit_to_json expr print free expr_eqb c = Some j ->
  circuit_from_json expr (parse_via_map sympify) free j = Ok c2 -> obs c2 = obs c.
Proof. exact observables_preserved. Qed.
Print Assumptions meaning_survives_json.

(* F16 (known finding): a gate whose arguments use both x and x[3] is written but cannot be read back,
   whatever sympify does - the symbols map cannot be built *)
Theorem x_with_indexed_x_unreadable :
  forall (expr : Type) (print : expr -> string) (sympify : symmap -> string -> option expr)
         (free : expr -> list string) (e : expr) (expr_eqb : expr -> expr -> bool),
  free e = ["x"; "x[3]"] ->
  exists j, circuit_to_json expr print free expr_eqb (mk_circuit expr [(Builtin expr "RX" [e], [0%Z])] 1) = Some j /\
            circuit_from_json expr (parse_via_map sympify) free j = EErr.
Proof. exact f16_unreadable. Qed.
Print Assumptions x_with_indexed_x_unreadable.

(* the premises are satisfiable: an instance where every argument is a bare symbol, and a circuit with a
   custom gate (indexed formal name) under controlled+dagger and under power, nested wrappers on a
   built-in gate, a three-argument gate, an idle qubit *)
Example sympify_premise_met : forall syms m e, make_symbols_map syms = Some m -> forallb (resolves m) syms = true ->
  toy_idents syms = true -> incl (toy_free e) syms -> toy_sympify m (toy_print e) = Some e.
Proof. exact toy_sympify_print. Qed.
Example wf_premise_met : circuit_wf string toy_free (syms_usable toy_idents) toy_circuit.
Proof. exact toy_circuit_wf. Qed.
Example toy_circuit_survives :
  match circuit_to_json string toy_print toy_free String.eqb toy_circuit with
  | Some j => circuit_from_json string (parse_via_map toy_sympify) toy_free j = Ok toy_circuit
  | None => False
  end.
Proof. vm_compute. reflexivity. Qed.
Example names_premise_met : names_wf string (Power string (Dagger string (Custom string toy_def [])) (NFloat "0.5")).
Proof. vm_compute. reflexivity. Qed.
