(* C15 - Estimation returns one correctly weighted result per task, in task order.
   Property theorems only; every proof is [exact <lemma>] (proofs in Stats/EstimationProofs.v).
   Model: Stats/Estimation.v (estimate_expectation_values_by_averaging and the functions it calls, the shot
   validation of BaseCircuitRunner.run_batch_and_measure, Measurements.get_expectation_values,
   evaluate_estimation_circuits), tied to the implementation by harness/c15.py on every run.
   [rank i ts] = number of measured tasks before position i = position of task i in the runner's batch. *)
Require Import Coq.ZArith.ZArith Coq.QArith.QArith Coq.Lists.List Coq.Sorting.Permutation Coq.Sorting.Sorted.
Require Import OQ.Base.Ring OQ.Base.Sums OQ.Base.Mat OQ.Pauli.Algebra OQ.Pauli.Den OQ.Pauli.Matrix.
Require OQ.Base.Bits.
Require Import OQ.Stats.Estimation OQ.Stats.EstimationProofs OQ.Stats.EstimationCases.
Import ListNotations.
Local Open Scope nat_scope.

(* the two index lists partition 0..len-1, each increasing, aligned with the two task lists, and every index
   points at a task of the class of its list *)
Theorem split_indices_partition : forall (C : Type) (ts : list (task C)) tm tn im inm,
  split ts = (tm, tn, im, inm) ->
  Permutation (im ++ inm) (seq 0 (List.length ts)) /\
  StronglySorted lt im /\ StronglySorted lt inm /\
  List.length tm = List.length im /\ List.length tn = List.length inm /\
  (forall j i, nth_error im j = Some i ->
       exists t, nth_error ts i = Some t /\ nth_error tm j = Some t /\ not_measured t = false) /\
  (forall j i, nth_error inm j = Some i ->
       exists t, nth_error ts i = Some t /\ nth_error tn j = Some t /\ not_measured t = true).
Proof. exact @split_spec. Qed.
Print Assumptions split_indices_partition.

(* exactly one slot per task, whatever the mixture of kinds and whatever the runner returns *)
Theorem estimate_length : forall (C : Type) (run : list (C * Z) -> list meas) (ts : list (task C)) res,
  estimate run ts = Ok res -> List.length res = List.length ts.
Proof. exact @estimate_length_lem. Qed.
Print Assumptions estimate_length.

(* a constant operator yields exactly its constant (sum of its constant coefficients, code after F18),
   at its own position, for every list and every runner *)
Theorem estimate_constant_exact : forall (C : Type) (run : list (C * Z) -> list meas) (ts : list (task C)) res i t,
  estimate run ts = Ok res -> nth_error ts i = Some t -> kind_of t = KConst ->
  nth_error res i = Some (Some (const_ev (constant_value (top t)))).
Proof. exact @estimate_const_at. Qed.
Print Assumptions estimate_constant_exact.

(* a non-constant zero-shot task yields zero, at its own position *)
Theorem estimate_zero_shot_zero : forall (C : Type) (run : list (C * Z) -> list meas) (ts : list (task C)) res i t,
  estimate run ts = Ok res -> nth_error ts i = Some t -> kind_of t = KZeroShot ->
  nth_error res i = Some (Some (const_ev 0)).
Proof. exact @estimate_zeroshot_at. Qed.
Print Assumptions estimate_zero_shot_zero.

(* a measured task: the runner was asked, at batch position rank i, for this task's circuit with this task's
   (positive) shots, and slot i holds the expectation values of this task's operator on the measurements the
   runner returned at that position (runner: one result per batch entry) *)
Theorem estimate_measured_in_order : forall (C : Type) (run : list (C * Z) -> list meas) (ts : list (task C)) res i t,
  (forall b, List.length (run b) = List.length b) ->
  estimate run ts = Ok res -> nth_error ts i = Some t -> kind_of t = KMeasure ->
  exists b n m e, batch_of ts = Some (Ok b) /\ tshots t = Some n /\ (0 < n)%Z /\
    nth_error b (rank i ts) = Some (tcirc t, n) /\
    nth_error (run b) (rank i ts) = Some m /\
    get_expectation_values (top t) m = Ok e /\ nth_error res i = Some (Some e).
Proof. exact @estimate_measured_full. Qed.
Print Assumptions estimate_measured_in_order.

(* what the code does with a runner that returns too few results: the slot silently stays None *)
Theorem estimate_missing_result_is_none : forall (C : Type) (run : list (C * Z) -> list meas) (ts : list (task C)) res i t,
  estimate run ts = Ok res -> nth_error ts i = Some t -> kind_of t = KMeasure ->
  exists b, batch_of ts = Some (Ok b) /\
    (nth_error (run b) (rank i ts) = None -> nth_error res i = Some None).
Proof. exact @estimate_missing_result. Qed.
Print Assumptions estimate_missing_result_is_none.

(* each measured result includes the coefficients: one value per term, coefficient times the sample mean of the
   term's +/-1 eigenvalue; square correlation and covariance matrices *)
Theorem measured_values_weighted : forall o m e, get_expectation_values o m = Ok e ->
  ev_values e = map (fun t => (coef t * mean_eps (qubits t) m)%Q) o /\
  List.length (ev_corr e) = List.length o /\ List.length (ev_cov e) = List.length o.
Proof. exact values_weighted. Qed.
Print Assumptions measured_values_weighted.

(* the code averages over the histogram of distinct outcomes (get_counts, count * parity / total); that is exactly
   the per-shot sample mean used in the statements above *)
Theorem counts_grouping_is_exact : forall S m, (mean_eps_counts S m == mean_eps S m)%Q.
Proof. exact mean_eps_counts_eq. Qed.
Print Assumptions counts_grouping_is_exact.

(* valid task lists never fail: measured tasks with positive shots and Ising operators, results within range *)
Theorem estimate_valid_tasks_succeed : forall (C : Type) (run : list (C * Z) -> list meas) (ts : list (task C)),
  (forall t, In t ts -> not_measured t = false ->
     (exists n, tshots t = Some n /\ (0 < n)%Z) /\ is_ising (top t) = true) ->
  (forall ns, batch_ns ts = Ok ns ->
     forall om, In om (combine (map top (filter measuredb ts)) (run (batch_for ts ns))) -> in_range (fst om) (snd om) = true) ->
  exists res, estimate run ts = Ok res.
Proof. exact @estimate_succeeds. Qed.
Print Assumptions estimate_valid_tasks_succeed.

(* basis-state exactness: if all N >= 1 shots equal b, the value of term (c, S) is c * eps_S(b) whatever N is,
   the correlations are the products of the values and every estimator covariance is zero *)
Theorem basis_state_exact : forall o b n e, (0 < n)%nat ->
  Forall (fun t => NoDup (qubits t)) o ->
  get_expectation_values o (repeat b n) = Ok e ->
  Forall2 Qeq (ev_values e) (map (fun t => (coef t * inject_Z (eps (qubits t) b))%Q) o) /\
  qmat_eq (ev_corr e) (basis_corr o b) /\
  qmat_eq (ev_cov e) (zero_matrix o).
Proof. exact get_expectation_values_basis. Qed.
Print Assumptions basis_state_exact.

(* the same through the whole estimation, with a runner that returns the requested number of shots of the
   bitstring each circuit prepares: slot i of a measured task holds c * eigenvalue for its own circuit *)
Theorem estimate_on_basis_states : forall (C : Type) (state : C -> bits) (ts : list (task C)) res i t,
  estimate (basis_runner state) ts = Ok res -> nth_error ts i = Some t -> kind_of t = KMeasure ->
  Forall (fun tm => NoDup (qubits tm)) (top t) ->
  exists e, nth_error res i = Some (Some e) /\
    Forall2 Qeq (ev_values e) (basis_values (top t) (state (tcirc t))) /\
    qmat_eq (ev_corr e) (basis_corr (top t) (state (tcirc t))) /\
    qmat_eq (ev_cov e) (zero_matrix (top t)).
Proof. exact @estimate_basis_at. Qed.
Print Assumptions estimate_on_basis_states.

(* ---------------------------------------------------------------- exact expectation values *)
(* calculate_exact_expectation_values / get_exact_expectation_values, modelled on top of property C09's
   get_expectation (Pauli/Matrix.v) over any commutative ring K with conjugation; [wavefunction c] = number of qubits
   and amplitudes the simulator computes for circuit c, [re] = ".real", [nzb] = the exact test "data != 0".
   [quadratic_form K n s v] = sum_i conj(v_i) * sum_k (sden n s)[i][k] * v_k, with [sden n s] the matrix the operator
   denotes on n qubits (Pauli/Den.v).
   For every list of tasks, every simulator, every state (normalised or not) and every well-formed operator that fits
   its task's state: one result per task, in task order, each the real part of the quadratic form of the state its
   own circuit prepares with its own operator *)
Theorem exact_is_quadratic_form : forall (K : cring) (nzb is_zero : K -> bool),
  (forall x, nzb x = false -> x = c0) -> nzb c0 = false ->
  forall (re : K -> K) (C : Type) (wavefunction : C -> nat * Vec K) (ts : list (xtask K C)),
  (forall t, In t ts -> sum_ok (fst (wavefunction (xcirc t))) (xop t)) ->
  calculate_exact nzb is_zero re wavefunction ts
  = Some (map (fun t => [re (quadratic_form K (fst (wavefunction (xcirc t))) (xop t) (snd (wavefunction (xcirc t))))]) ts).
Proof. exact calculate_exact_form. Qed.
Print Assumptions exact_is_quadratic_form.

(* an operator acting beyond the width of its task's state makes the whole call fail *)
Theorem exact_rejects_wide_operator : forall (K : cring) (nzb is_zero : K -> bool) (re : K -> K) (C : Type)
  (wavefunction : C -> nat * Vec K) (ts : list (xtask K C)) t, In t ts ->
  fst (wavefunction (xcirc t)) < sum_width (xop t) ->
  calculate_exact nzb is_zero re wavefunction ts = None.
Proof. exact calculate_exact_rejects. Qed.
Print Assumptions exact_rejects_wide_operator.

(* basis-state corollary: in the computational basis state x of n qubits the quadratic form of an Ising operator is
   sum_k c_k * eps_k(bits of x), the same eigenvalue [eps] as in the averaging theorems above ... *)
Theorem exact_on_basis_state : forall (K : cring) n (s : psum K) x, x < 2 ^ n -> sum_ok n s -> Forall (ising_term K) s ->
  quadratic_form K n s (basis_vec K x)
  = lsum s (fun t => cmul (Algebra.coef t) (of_Z (eps (keys (Algebra.tops t)) (Bits.bits n x)))).
Proof. exact quadratic_form_basis_ising. Qed.
Print Assumptions exact_on_basis_state.

(* ... and that sum equals the sum of the values estimated by averaging on the same basis state (rational model) *)
Theorem exact_on_basis_is_sum_of_estimates : forall o b vals,
  Forall2 Qeq vals (basis_values o b) -> (qsum vals == exact_on_basis o b)%Q.
Proof. exact qsum_basis_values. Qed.
Print Assumptions exact_on_basis_is_sum_of_estimates.

(* binding symbol maps: task i gets its own map i, operator and shots untouched, nothing else is produced *)
Theorem bind_tasks_pointwise : forall (C M : Type) (bind : C -> M -> C) (ts : list (task C)) (maps : list M) i t',
  nth_error (bind_tasks bind ts maps) i = Some t' <->
  exists t m, nth_error ts i = Some t /\ nth_error maps i = Some m /\
              t' = mkTask (top t) (bind (tcirc t) m) (tshots t).
Proof. exact @bind_tasks_at. Qed.
Print Assumptions bind_tasks_pointwise.

Theorem bind_tasks_length : forall (C M : Type) (bind : C -> M -> C) (ts : list (task C)) (maps : list M),
  List.length (bind_tasks bind ts maps) = Nat.min (List.length ts) (List.length maps).
Proof. exact @bind_tasks_length_lem. Qed.
Print Assumptions bind_tasks_length.

(* ---------------------------------------------------------------- hypotheses are satisfiable *)
Local Open Scope Q_scope.
Definition z (c : Q) (qs : list nat) : term := mkTerm c (map (fun q => (q, PZ)) qs).
Definition demo : list (task xcircuit) :=
  [ mkTask [z 2 []; z 3 []] (2%nat, [0%nat]) (Some 10%Z);                          (* constant, unsimplified *)
    mkTask [z (1#2) [0%nat]; z (-3#2) [1%nat; 0%nat]; z 2 []] (3%nat, [0%nat; 2%nat]) (Some 7%Z);  (* measured *)
    mkTask [z 5 [1%nat]] (2%nat, [1%nat]) (Some 0%Z);                              (* zero shots *)
    mkTask [] (1%nat, []) None;                                                     (* empty sum *)
    mkTask [z 4 [1%nat]] (2%nat, [1%nat; 1%nat; 0%nat]) (Some 3%Z) ].              (* measured *)

Example demo_kinds : map kind_of demo = [KConst; KMeasure; KZeroShot; KConst; KMeasure].
Proof. vm_compute. reflexivity. Qed.
Example demo_split : snd (fst (split demo)) = [1%nat; 4%nat] /\ snd (split demo) = [0%nat; 2%nat; 3%nat].
Proof. vm_compute. split; reflexivity. Qed.
Example demo_batch : batch_of demo = Some (Ok [((3%nat, [0%nat; 2%nat]), 7%Z); ((2%nat, [1%nat; 1%nat; 0%nat]), 3%Z)]).
Proof. vm_compute. reflexivity. Qed.
Example demo_premises_met : exists res, estimate (basis_runner basis_of) demo = Ok res /\ List.length res = 5%nat.
Proof. eexists. split; [vm_compute; reflexivity|reflexivity]. Qed.
Example demo_constant_is_five : (constant_value [z 2 []; z 3 []] == 5)%Q.
Proof. vm_compute. reflexivity. Qed.
Example demo_basis_premises_met :
  exists e, get_expectation_values [z (1#2) [0%nat]; z (-3#2) [1%nat; 0%nat]; z 2 []] (repeat [true; false; true] 7) = Ok e.
Proof. eexists. vm_compute. reflexivity. Qed.

(* exact values over the Gaussian rationals: state |10> and the state (|00> + |01> + |10> + i|11>)/2, one task each *)
Example exact_premises_met :
  exactm_eqb [(2%nat, [xnum 0 0 0; xnum 0 0 0; xnum 1 0 0; xnum 0 0 0]);
              (2%nat, [xnum 1 0 1; xnum 1 0 1; xnum 1 0 1; xnum 0 1 1])]
             [([xterm 3 0 0 [(0%nat, PZ)]; xterm 1 0 1 [(0%nat, PZ); (1%nat, PZ)]; xterm 5 0 0 []], 0%nat);
              ([xterm 1 2 1 [(0%nat, PY); (1%nat, PZ)]; xterm 3 0 0 [(1%nat, PX)]], 1%nat)]
             (Some [[xnum 3 0 1]; [xnum 5 0 2]]) = true.
Proof. vm_compute. reflexivity. Qed.

(* ---------------------------------------------------------------- the code, translated, is the model *)
(* On every run tr/tr_estimation.py translates the functions of estimation/_estimation.py, statement by statement,
   into Gen/EstimationGen.v (the meaning of the Python building blocks: Stats/EstimationTrSupport.v).  The generated
   definitions take a [pyworld] - operators, circuits, symbol maps, runners, simulators and measurements with the
   attributes and methods the functions use - and are proved equal (Stats/EstimationGenProofs.v) to the model
   functions the theorems above are about, in the model's world [model_world]: operators are lists of terms,
   runner.run_batch_and_measure is BaseCircuitRunner's shot validation followed by an arbitrary function [run],
   measurements.get_expectation_values is the model's, Circuit.bind is an arbitrary function, expectation_values_to_real
   an arbitrary function [toreal].  [py_of_task],
   [py_of_ev], [res_of_model] embed the model's values into the Python values (injectively), indices become ints. *)
Require Import OQ.Stats.EstimationTrSupport OQ.Gen.EstimationGen OQ.Stats.EstimationGenProofs.

Theorem generated_evaluate_estimation_circuits_is_model :
  forall (C M : Type) (cbind : C -> M -> C) (run : list (C * Z) -> list meas) (toreal : py_ev Q -> py_ev Q) (Sim : Type)
         (exact : Sim -> C -> operator -> pyres Q) (ts : list (task C)) (maps : list M),
  evaluate_estimation_circuits_gen (model_world C M cbind run toreal Sim exact) (map py_of_task ts) maps
  = Val (map py_of_task (bind_tasks cbind ts maps)).
Proof. exact evaluate_estimation_circuits_gen_eq. Qed.
Print Assumptions generated_evaluate_estimation_circuits_is_model.

Theorem generated_split_is_model :
  forall (C M : Type) (cbind : C -> M -> C) (run : list (C * Z) -> list meas) (toreal : py_ev Q -> py_ev Q) (Sim : Type)
         (exact : Sim -> C -> operator -> pyres Q) (ts : list (task C)),
  split_estimation_tasks_to_measure_gen (model_world C M cbind run toreal Sim exact) (map py_of_task ts)
  = Val (let '(tm, tn, im, inm) := split ts in
         (map py_of_task tm, map py_of_task tn, map Z.of_nat im, map Z.of_nat inm)).
Proof. exact split_estimation_tasks_to_measure_gen_eq. Qed.
Print Assumptions generated_split_is_model.

Theorem generated_evaluate_non_measured_is_model :
  forall (C M : Type) (cbind : C -> M -> C) (run : list (C * Z) -> list meas) (toreal : py_ev Q -> py_ev Q) (Sim : Type)
         (exact : Sim -> C -> operator -> pyres Q) (ts : list (task C)),
  evaluate_non_measured_estimation_tasks_gen (model_world C M cbind run toreal Sim exact) (map py_of_task ts)
  = res_of_model (map py_of_ev) (evaluate_non_measured ts).
Proof. exact evaluate_non_measured_estimation_tasks_gen_eq. Qed.
Print Assumptions generated_evaluate_non_measured_is_model.

(* the whole of estimate_expectation_values_by_averaging: splitting, what is handed to the runner, the expectation
   values of the returned measurements, and the re-insertion of both kinds of results by index (the item assignments
   are shown never to raise IndexError) - for every task list and every runner function; expectation_values_to_real
   is any function that leaves the model's real expectation values unchanged (the model has no complex values) *)
Theorem generated_estimate_is_model :
  forall (C M : Type) (cbind : C -> M -> C) (run : list (C * Z) -> list meas) (toreal : py_ev Q -> py_ev Q),
  (forall e : ev, toreal (py_of_ev e) = py_of_ev e) ->
  forall (Sim : Type) (exact : Sim -> C -> operator -> pyres Q) (runner : unit) (ts : list (task C)),
  estimate_expectation_values_by_averaging_gen (model_world C M cbind run toreal Sim exact) runner (map py_of_task ts)
  = res_of_model (map (option_map py_of_ev)) (estimate run ts).
Proof. exact estimate_expectation_values_by_averaging_gen_eq. Qed.
Print Assumptions generated_estimate_is_model.

(* calculate_exact_expectation_values in the world of the exact-value model: any commutative ring with conjugation,
   the simulator's get_exact_expectation_values is the model's (raising [exn] where the model has None); whatever the
   function does not use is arbitrary *)
Theorem generated_calculate_exact_is_model :
  forall (K : cring) (nzb is_zero : K -> bool) (re : K -> K) (C : Type) (wavefunction : C -> nat * Vec K) (exn : pyexn)
         (nint : Z -> K) (nlit : Q -> K) (nadd : K -> K -> K) (Term M Meas Runner : Type)
         (isconst : psum K -> bool) (terms : psum K -> list Term) (coefficient : Term -> K) (cbind : C -> M -> C)
         (runb : Runner -> list C -> list (option Z) -> pyres (list Meas)) (getev : Meas -> psum K -> pyres (py_ev K))
         (toreal : py_ev K -> py_ev K) (sim : unit) (shots : xtask K C -> option Z) (ts : list (xtask K C)),
  calculate_exact_expectation_values_gen
    (exact_world K nzb is_zero re C wavefunction exn nint nlit nadd Term M Meas Runner isconst terms coefficient cbind
                 runb getev toreal) sim (map (py_of_xtask K C shots) ts)
  = match calculate_exact nzb is_zero re wavefunction ts with
    | Some vs => Val (map (fun v => mk_py_ev v None None) vs)
    | None => Raise exn
    end.
Proof. exact calculate_exact_expectation_values_gen_eq. Qed.
Print Assumptions generated_calculate_exact_is_model.

(* the embeddings lose nothing *)
Theorem generated_embeddings_injective :
  (forall a b : ev, py_of_ev a = py_of_ev b -> a = b) /\
  (forall (C : Type) (a b : task C), py_of_task a = py_of_task b -> a = b) /\
  (forall (A B : Type) (f : A -> B), (forall a b, f a = f b -> a = b) ->
     forall r s : result A, res_of_model f r = res_of_model f s -> r = s).
Proof. exact (conj py_of_ev_inj (conj (@py_of_task_inj) (@res_of_model_inj))). Qed.
Print Assumptions generated_embeddings_injective.

(* the generated functions run: the demo list with a runner that returns the requested shots of each circuit's
   basis state *)
Definition demo_world : pyworld :=
  model_world xcircuit unit (fun c _ => c) (basis_runner basis_of) (fun e => e) unit (fun _ _ _ => Raise RuntimeError).
Example generated_split_runs :
  match split_estimation_tasks_to_measure_gen demo_world (map py_of_task demo) with
  | Val (tm, tn, im, inm) => Val (List.length tm, List.length tn, im, inm)
  | Raise e => Raise e
  end = Val (2%nat, 3%nat, [1%Z; 4%Z], [0%Z; 2%Z; 3%Z]).
Proof. vm_compute. reflexivity. Qed.
Example generated_estimate_runs :
  match estimate_expectation_values_by_averaging_gen demo_world tt (map py_of_task demo) with
  | Val l => Val (map (option_map (fun e => map Qred (e_values e))) l)
  | Raise e => Raise e
  end = Val [Some [5]; Some [-1 # 2; 3 # 2; 2]; Some [0]; Some [0]; Some [4]]%Q.
Proof. vm_compute. reflexivity. Qed.
(* a measured task without a shot count: the runner's validation raises TypeError, through the generated code *)
Example generated_estimate_raises :
  estimate_expectation_values_by_averaging_gen demo_world tt [mk_py_task [z 1%Q [0%nat]] (1%nat, []) None]
  = Raise TypeError.
Proof. vm_compute. reflexivity. Qed.
