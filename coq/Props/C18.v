(* C18 - Decomposing a circuit never changes what it does.
   Gate matrices are the definitions generated from circuits/_matrices.py (Gen/GatesGen.v); the rule
   application machinery mirrors decompositions/_decomposition.py (Circ/Decompose.v) and the U3 rule mirrors
   decompositions/_orquestra_decompositions.py (Circ/U3Rule.v). *)
Require Import Coq.Reals.Reals Coq.Lists.List Coq.Bool.Bool Coq.micromega.Lia.
Require Import OQ.Base.Ring OQ.Base.Mat OQ.Base.LMat OQ.Gates.CR OQ.Gen.GatesGen OQ.Gates.Builtin OQ.Gates.U3
        OQ.Circ.Decompose OQ.Circ.U3Rule OQ.Circ.U3RuleProofs.
Import ListNotations.
Open Scope R_scope.

(* with an empty rule list the circuit (operations and width) is returned unchanged *)
Theorem empty_rule_list_is_identity : forall (P : Type) (c : list (dop P) * nat), decompose_circuit [] c = c.
Proof. exact decompose_circuit_nil. Qed.
Print Assumptions empty_rule_list_is_identity.

Theorem width_is_kept : forall (P : Type) rules (c : list (dop P) * nat), snd (decompose_circuit rules c) = snd c.
Proof. exact decompose_circuit_width. Qed.
Print Assumptions width_is_kept.

(* rules are applied in the order given, each to the output of the previous rule (any operation type, any rules) *)
Theorem rules_apply_in_order : forall (op : Type) (r : rule op) (rs : list (rule op)) ops,
  decompose_operations op (r :: rs) ops = decompose_operations op rs (decompose_operations op [r] ops).
Proof. exact decompose_chain. Qed.
Print Assumptions rules_apply_in_order.

(* operations no rule applies to are kept unchanged and in order; decomposition acts operation by operation *)
Theorem unmatched_operations_kept : forall (op : Type) (rules : list (rule op)) o,
  forallb (fun r => negb (pred op r o)) rules = true -> decompose_operation op rules o = [o].
Proof. exact decompose_unmatched. Qed.
Print Assumptions unmatched_operations_kept.

Theorem decomposition_is_per_operation : forall (op : Type) (rules : list (rule op)) ops1 ops2,
  decompose_operations op rules (ops1 ++ ops2) = decompose_operations op rules ops1 ++ decompose_operations op rules ops2.
Proof. exact decompose_app. Qed.
Print Assumptions decomposition_is_per_operation.

(* any rule list whose productions preserve a congruence on meanings preserves the meaning of every circuit *)
Theorem sound_rules_preserve_meaning :
  forall (op M : Type) (mone : M) (mdot : M -> M -> M) (equiv : M -> M -> Prop),
  (forall a, equiv a a) -> (forall a b c, equiv a b -> equiv b c -> equiv a c) ->
  (forall a a' b b', equiv a a' -> equiv b b' -> equiv (mdot a b) (mdot a' b')) ->
  (forall a, equiv (mdot a mone) a) ->
  forall (sem1 : op -> M),
  (forall a b, equiv (sem op M mone mdot sem1 (a ++ b)) (mdot (sem op M mone mdot sem1 a) (sem op M mone mdot sem1 b))) ->
  forall rules ops,
  (forall r o, In r rules -> pred op r o = true -> equiv (sem op M mone mdot sem1 (prod op r o)) (sem op M mone mdot sem1 [o])) ->
  equiv (sem op M mone mdot sem1 (decompose_operations op rules ops)) (sem op M mone mdot sem1 ops).
Proof. exact decompose_preserves. Qed.
Print Assumptions sound_rules_preserve_meaning.

(* the U3 rule: replaced by RZ(lambda); RY(theta); RZ(phi) in application order, with the same controls, same qubits *)
Theorem u3_rule_production : forall (P : Type) k (theta phi lambda_ : P) qs,
  u3_prod (mk_dop (GU3 k theta phi lambda_) qs)
  = [mk_dop (GRZ k lambda_) qs; mk_dop (GRY k theta) qs; mk_dop (GRZ k phi) qs].
Proof. exact u3_prod_order. Qed.
Print Assumptions u3_rule_production.

(* all real angles: RZ(phi).RY(theta).RZ(lambda) = exp(-i(phi+lambda)/2) U3(theta,phi,lambda), |phase| = 1 *)
Theorem u3_matrix_identity : forall theta phi lambda_,
  mm (rz_matrix phi) (mm (ry_matrix theta) (rz_matrix lambda_))
  = lscale (K:=CRring) (phase_of (- ((phi + lambda_) / 2))) (u3_matrix theta phi lambda_)
  /\ crnorm2 (phase_of (- ((phi + lambda_) / 2))) = 1.
Proof. exact (fun t p l => conj (u3_plain t p l) (phase_of_unit _)). Qed.
Print Assumptions u3_matrix_identity.

(* every circuit on any register whose U3 gates are not controlled, any qubit placement, any other gates, the rule
   listed once or several times: same unitary up to one global phase *)
Theorem u3_decomposition_preserves_action :
  forall (other : nat -> CRm) (ctrl : nat -> CRm -> CRm) n ops m,
  Forall (wf_dop n) ops -> all_plain ops ->
  phase_equiv n (csem other ctrl n (decompose_operations (dop R) (repeat u3_rule (S m)) ops)) (csem other ctrl n ops).
Proof. exact u3_rule_preserves. Qed.
Print Assumptions u3_decomposition_preserves_action.

Example plain_premises_met :
  Forall (wf_dop 3) [mk_dop (GU3 0 1 2 3) [2%nat]; mk_dop (GOther 7) [0%nat; 2%nat]]
  /\ all_plain [mk_dop (GU3 0 1 2 3) [2%nat]; mk_dop (GOther 7) [0%nat; 2%nat]].
Proof.
  split; repeat constructor; cbn; try lia; intuition (try discriminate; try lia).
Qed.

(* controlled U3: the three controlled rotations multiply to the controlled PRODUCT, so the phase becomes relative:
   the clause "same action up to one global phase" is REFUTED for controlled U3 (finding F3) ... *)
Theorem u3_controlled_rule_refuted :
  exists theta phi lambda_, forall z : CR,
    ctrl1 (u3_matrix theta phi lambda_)
    <> lscale (K:=CRring) z (mm (ctrl1 (rz_matrix phi)) (mm (ctrl1 (ry_matrix theta)) (ctrl1 (rz_matrix lambda_)))).
Proof. exact u3_controlled_refuted. Qed.
Print Assumptions u3_controlled_rule_refuted.

(* ... and holds exactly where the phase is trivial *)
Theorem u3_controlled_rule_when_phase_trivial : forall theta phi lambda_,
  cos ((phi + lambda_) / 2) = 1 -> sin ((phi + lambda_) / 2) = 0 ->
  mm (ctrl1 (rz_matrix phi)) (mm (ctrl1 (ry_matrix theta)) (ctrl1 (rz_matrix lambda_)))
  = ctrl1 (u3_matrix theta phi lambda_).
Proof. exact u3_controlled_when. Qed.
Print Assumptions u3_controlled_rule_when_phase_trivial.
