(* C18 - Decomposing a circuit never changes what it does.
   Gate matrices are the definitions generated from circuits/_matrices.py (Gen/GatesGen.v); the rule
   application machinery mirrors decompositions/_decomposition.py (Circ/Decompose.v) and the U3 rule mirrors
   decompositions/_orquestra_decompositions.py (Circ/U3Rule.v). *)
Require Import Coq.Reals.Reals Coq.Lists.List Coq.Bool.Bool Coq.micromega.Lia.
Require Import OQ.Base.Ring OQ.Base.Mat OQ.Base.LMat OQ.Gates.CR OQ.Gen.GatesGen OQ.Gates.Builtin OQ.Gates.U3
        OQ.Circ.Decompose OQ.Circ.U3Rule OQ.Circ.U3RuleProofs.
Import ListNotations.
Open Scope R_scope.

(* with an empty rule list the circuit (operations and width) is returned unchanged *)
Theorem empty_rule_list_is_identity : forall (P : Type) (c : list (dop P) * nat), decompose_circuit [] c = c.
Proof. exact decompose_circuit_nil. Qed.
Print Assumptions empty_rule_list_is_identity.

Theorem width_is_kept : forall (P : Type) rules (c : list (dop P) * nat), snd (decompose_circuit rules c) = snd c.
Proof. exact decompose_circuit_width. Qed.
Print Assumptions width_is_kept.

(* rules are applied in the order given, each to the output of the previous rule (any operation type, any rules) *)
Theorem rules_apply_in_order : forall (op : Type) (r : rule op) (rs : list (rule op)) ops,
  decompose_operations op (r :: rs) ops = decompose_operations op rs (decompose_operations op [r] ops).
Proof. exact decompose_chain. Qed.
Print Assumptions rules_apply_in_order.

(* operations no rule applies to are kept unchanged and in order; decomposition acts operation by operation *)
Theorem unmatched_operations_kept : forall (op : Type) (rules : list (rule op)) o,
  forallb (fun r => negb (pred op r o)) rules = true -> decompose_operation op rules o = [o].
Proof. exact decompose_unmatched. Qed.
Print Assumptions unmatched_operations_kept.

Theorem decomposition_is_per_operation : forall (op : Type) (rules : list (rule op)) ops1 ops2,
  decompose_operations op rules (ops1 ++ ops2) = decompose_operations op rules ops1 ++ decompose_operations op rules ops2.
Proof. exact decompose_app. Qed.
Print Assumptions decomposition_is_per_operation.

(* any rule list whose productions preserve a congruence on meanings preserves the meaning of every circuit *)
Theorem sound_rules_preserve_meaning :
  forall (op M : Type) (mone : M) (mdot : M -> M -> M) (equiv : M -> M -> Prop),
  (forall a, equiv a a) -> (forall a b c, equiv a b -> equiv b c -> equiv a c) ->
  (forall a a' b b', equiv a a' -> equiv b b' -> equiv (mdot a b) (mdot a' b')) ->
  (forall a, equiv (mdot a mone) a) ->
  forall (sem1 : op -> M),
  (forall a b, equiv (sem op M mone mdot sem1 (a ++ b)) (mdot (sem op M mone mdot sem1 a) (sem op M mone mdot sem1 b))) ->
  forall rules ops,
  (forall r o, In r rules -> pred op r o = true -> equiv (sem op M mone mdot sem1 (prod op r o)) (sem op M mone mdot sem1 [o])) ->
  equiv (sem op M mone mdot sem1 (decompose_operations op rules ops)) (sem op M mone mdot sem1 ops).
Proof. exact decompose_preserves. Qed.
Print Assumptions sound_rules_preserve_meaning.

(* the U3 rule: replaced by RZ(lambda); RY(theta); RZ(phi) in application order, with the same controls, same qubits *)
Theorem u3_rule_production : forall (P : Type) k (theta phi lambda_ : P) qs,
  u3_prod (mk_dop (GU3 k theta phi lambda_) qs)
  = [mk_dop (GRZ k lambda_) qs; mk_dop (GRY k theta) qs; mk_dop (GRZ k phi) qs].
Proof. exact u3_prod_order. Qed.
Print Assumptions u3_rule_production.

(* all real angles: RZ(phi).RY(theta).RZ(lambda) = exp(-i(phi+lambda)/2) U3(theta,phi,lambda), |phase| = 1 *)
Theorem u3_matrix_identity : forall theta phi lambda_,
  mm (rz_matrix phi) (mm (ry_matrix theta) (rz_matrix lambda_))
  = lscale (K:=CRring) (phase_of (- ((phi + lambda_) / 2))) (u3_matrix theta phi lambda_)
  /\ crnorm2 (phase_of (- ((phi + lambda_) / 2))) = 1.
Proof. exact (fun t p l => conj (u3_plain t p l) (phase_of_unit _)). Qed.
Print Assumptions u3_matrix_identity.

(* every circuit on any register whose U3 gates are not controlled, any qubit placement, any other gates, the rule
   listed once or several times: same unitary up to one global phase *)
Theorem u3_decomposition_preserves_action :
  forall (other : nat -> CRm) (ctrl : nat -> CRm -> CRm) n ops m,
  Forall (wf_dop n) ops -> all_plain ops ->
  phase_equiv n (csem other ctrl n (decompose_operations (dop R) (repeat u3_rule (S m)) ops)) (csem other ctrl n ops).
Proof. exact u3_rule_preserves. Qed.
Print Assumptions u3_decomposition_preserves_action.

Example plain_premises_met :
  Forall (wf_dop 3) [mk_dop (GU3 0 1 2 3) [2%nat]; mk_dop (GOther 7) [0%nat; 2%nat]]
  /\ all_plain [mk_dop (GU3 0 1 2 3) [2%nat]; mk_dop (GOther 7) [0%nat; 2%nat]].
Proof.
  split; repeat constructor; cbn; try lia; intuition (try discriminate; try lia).
Qed.

(* controlled U3: the three controlled rotations multiply to the controlled PRODUCT, so the phase becomes relative:
   the clause "same action up to one global phase" is REFUTED for controlled U3 (finding F3) ... *)
Theorem u3_controlled_rule_refuted :
  exists theta phi lambda_, forall z : CR,
    ctrl1 (u3_matrix theta phi lambda_)
    <> lscale (K:=CRring) z (mm (ctrl1 (rz_matrix phi)) (mm (ctrl1 (ry_matrix theta)) (ctrl1 (rz_matrix lambda_)))).
Proof. exact u3_controlled_refuted. Qed.
Print Assumptions u3_controlled_rule_refuted.

(* ... and holds exactly where the phase is trivial *)
Theorem u3_controlled_rule_when_phase_trivial : forall theta phi lambda_,
  cos ((phi + lambda_) / 2) = 1 -> sin ((phi + lambda_) / 2) = 0 ->
  mm (ctrl1 (rz_matrix phi)) (mm (ctrl1 (ry_matrix theta)) (ctrl1 (rz_matrix lambda_)))
  = ctrl1 (u3_matrix theta phi lambda_).
Proof. exact u3_controlled_when. Qed.
Print Assumptions u3_controlled_rule_when_phase_trivial.

(* ------------------------------------------------------------------------------------------------------------------
   The code itself.  Gen/DecomposeGen.v is regenerated on every run by tr/tr_decompose.py from
   decompositions/_decomposition.py, decompositions/_orquestra_decompositions.py and circuits/_builtin_gates.py
   (construct by construct; meaning of the Python building blocks: Circ/DecomposeTrSupport.v).  The theorems below
   state that the generated functions ARE the model functions the theorems above are about. *)
Require Import Coq.Strings.String.
Require Import OQ.Circ.DecomposeTrSupport OQ.Gen.DecomposeGen OQ.Circ.DecomposeGenProofs.

(* decompose_operation / decompose_operations, any operation type, any rule list whose methods return normally *)
Theorem generated_decompose_operation_is_model : forall (Op : Type) (rules : list (rule Op)) (o : Op),
  decompose_operation_gen o (map rule_py rules) = Ok (decompose_operation Op rules o).
Proof. exact decompose_operation_gen_eq. Qed.
Print Assumptions generated_decompose_operation_is_model.

Theorem generated_decompose_operations_is_model : forall (Op : Type) (rules : list (rule Op)) (ops : list Op),
  decompose_operations_gen ops (map rule_py rules) = Ok (decompose_operations Op rules ops).
Proof. exact decompose_operations_gen_eq. Qed.
Print Assumptions generated_decompose_operations_is_model.

(* ... and through any description of Python-side operations by model-side operations under which every Python rule
   (whose methods may raise elsewhere) simulates a model rule on the operations satisfying an invariant *)
Theorem generated_decompose_operations_simulates_model :
  forall (POp MOp : Type) (abs : POp -> MOp) (Inv : POp -> Prop) Rs rs,
  Forall2 (simulates abs Inv) Rs rs -> forall ops, Forall Inv ops ->
  exists out, decompose_operations_gen ops Rs = Ok out
              /\ map abs out = decompose_operations MOp rs (map abs ops) /\ Forall Inv out.
Proof. exact decompose_operations_gen_sim. Qed.
Print Assumptions generated_decompose_operations_simulates_model.

(* the gate prototypes bound in circuits/_builtin_gates.py are the gates the model's description means by U3, RZ, RY *)
Theorem generated_prototypes_are_described : forall (P : Type) (other_id : pygate P -> nat) k (t p l a : P),
  desc_gate other_id (ctl k (U3_gen [t; p; l])) = GU3 k t p l
  /\ desc_gate other_id (ctl k (RZ_gen [a])) = GRZ k a
  /\ desc_gate other_id (ctl k (RY_gen [a])) = GRY k a.
Proof. exact (fun P oid k t p l a => conj (desc_gate_U3 P oid k t p l) (conj (desc_gate_RZ P oid k a) (desc_gate_RY P oid k a))). Qed.
Print Assumptions generated_prototypes_are_described.

(* U3GateToRotation.predicate: on every gate operation it compares names only; it is the model's predicate on every
   operation in which the name U3 is carried by the built-in gate only *)
Theorem generated_u3_predicate_on_all_operations : forall (P : Type) (o : pyop P),
  U3GateToRotation_predicate_gen o = Ok (matches_by_name o).
Proof. exact predicate_gen_all. Qed.
Print Assumptions generated_u3_predicate_on_all_operations.

Theorem generated_u3_predicate_is_model : forall (P : Type) (other_id : pygate P -> nat) (o : pyop P),
  describable o -> U3GateToRotation_predicate_gen o = Ok (u3_pred (desc other_id o)).
Proof. exact predicate_gen_eq. Qed.
Print Assumptions generated_u3_predicate_is_model.

(* U3GateToRotation.production: on every gate operation - ValueError unless there are exactly three parameters (or for a
   ControlledGate object without controls), otherwise RZ(lambda), RY(theta), RZ(phi), controlled like the original, on
   the original qubits; on every describable matched operation its output is described by the model's production *)
Theorem generated_u3_production_on_all_operations : forall (P : Type) (o : pyop P),
  U3GateToRotation_production_gen o =
  match op_params o with
  | [t; p; l] =>
      match op_gate o with
      | ControlledGate _ k =>
          if Nat.ltb k 1 then Raise ValueError
          else Ok (rotations (fun g => ControlledGate g k) t p l (op_qubit_indices o))
      | _ => Ok (rotations (fun g => g) t p l (op_qubit_indices o))
      end
  | _ => Raise ValueError
  end.
Proof. exact production_gen_all. Qed.
Print Assumptions generated_u3_production_on_all_operations.

Theorem generated_u3_production_is_model : forall (P : Type) (other_id : pygate P -> nat) (o : pyop P),
  describable o -> u3_pred (desc other_id o) = true ->
  exists l, U3GateToRotation_production_gen o = Ok l /\ map (desc other_id) l = u3_prod (desc other_id o)
            /\ Forall describable l.
Proof. exact production_gen_eq. Qed.
Print Assumptions generated_u3_production_is_model.

Theorem generated_u3_rule_simulates_model : forall (P : Type) (other_id : pygate P -> nat),
  simulates (desc other_id) describable U3GateToRotation_gen u3_rule.
Proof. exact u3_rule_gen_simulates. Qed.
Print Assumptions generated_u3_rule_simulates_model.

(* decompose_orquestra_circuit: the model's decompose_circuit on the description, for every circuit whose recorded
   width is positive (or that is empty) ... *)
Theorem generated_decompose_orquestra_circuit_is_model :
  forall (P : Type) (other_id : pygate P -> nat) Rs rs (c : pycircuit P),
  Forall2 (simulates (desc other_id) describable) Rs rs ->
  Forall describable (c_operations c) ->
  (c_n_qubits c = 0%nat -> c_operations c = []) ->
  exists c', decompose_orquestra_circuit_gen c Rs = Ok c'
             /\ (map (desc other_id) (c_operations c'), c_n_qubits c')
                = decompose_circuit rs (map (desc other_id) (c_operations c), c_n_qubits c)
             /\ Forall describable (c_operations c').
Proof. exact decompose_orquestra_circuit_gen_eq. Qed.
Print Assumptions generated_decompose_orquestra_circuit_is_model.

(* ... in particular with the bundled rule listed any number of times ... *)
Theorem generated_u3_circuit_decomposition_is_model :
  forall (P : Type) (other_id : pygate P -> nat) m (c : pycircuit P),
  Forall describable (c_operations c) -> (c_n_qubits c = 0%nat -> c_operations c = []) ->
  exists c', decompose_orquestra_circuit_gen c (repeat U3GateToRotation_gen m) = Ok c'
             /\ (map (desc other_id) (c_operations c'), c_n_qubits c')
                = decompose_circuit (repeat u3_rule m) (map (desc other_id) (c_operations c), c_n_qubits c)
             /\ Forall describable (c_operations c').
Proof. exact decompose_orquestra_circuit_gen_u3. Qed.
Print Assumptions generated_u3_circuit_decomposition_is_model.

(* ... and with any rules that return normally, on the gate operations themselves *)
Theorem generated_decompose_orquestra_circuit_pure_rules :
  forall (P : Type) (rules : list (rule (pyop P))) (c : pycircuit P), c_n_qubits c <> 0%nat ->
  decompose_orquestra_circuit_gen c (map rule_py rules)
  = Ok (mk_pycircuit (decompose_operations (pyop P) rules (c_operations c)) (c_n_qubits c)).
Proof. exact decompose_orquestra_circuit_gen_pure. Qed.
Print Assumptions generated_decompose_orquestra_circuit_pure_rules.

(* a recorded width of 0 (possible only for a circuit without qubits) is recomputed from the decomposed operations *)
Theorem generated_decompose_orquestra_circuit_width0 :
  forall (P : Type) Rs (c : pycircuit P), c_n_qubits c = 0%nat ->
  decompose_orquestra_circuit_gen c Rs =
  bind (decompose_operations_gen (c_operations c) Rs) (fun out =>
  bind (circuit_size_by_operations out) (fun s => Ok (mk_pycircuit out s))).
Proof. exact decompose_orquestra_circuit_gen_width0. Qed.
Print Assumptions generated_decompose_orquestra_circuit_width0.

(* the generated functions run: a doubly controlled U3 and an X gate on 5 qubits, the rule listed twice *)
Example generated_decomposition_runs :
  decompose_orquestra_circuit_gen
    (mk_pycircuit [GateOperation (ControlledGate (U3_gen [1%nat; 2%nat; 3%nat]) 2) [4%nat; 0%nat; 2%nat];
                   GateOperation (MatrixFactoryGate "X" "x_matrix" [] 1 true) [1%nat]] 5)
    [U3GateToRotation_gen; U3GateToRotation_gen]
  = Ok (mk_pycircuit [GateOperation (ControlledGate (RZ_gen [3%nat]) 2) [4%nat; 0%nat; 2%nat];
                      GateOperation (ControlledGate (RY_gen [1%nat]) 2) [4%nat; 0%nat; 2%nat];
                      GateOperation (ControlledGate (RZ_gen [2%nat]) 2) [4%nat; 0%nat; 2%nat];
                      GateOperation (MatrixFactoryGate "X" "x_matrix" [] 1 true) [1%nat]] 5).
Proof. vm_compute. reflexivity. Qed.

Example generated_premises_met :
  describable (GateOperation (ControlledGate (U3_gen [1%nat; 2%nat; 3%nat]) 2) [4%nat; 0%nat; 2%nat])
  /\ describable (GateOperation (MatrixFactoryGate "X" "x_matrix" ([] : list nat) 1 true) [1%nat]).
Proof.
  split; (split; [cbn; intro E; try discriminate E; eauto | cbn; intros w k E; try discriminate E; injection E as _ <-; repeat constructor]).
Qed.
