(* C09 - Operator-to-matrix conversions agree with the operator's definition.
   Property theorems only; every proof is [exact <lemma>] or a direct combination of lemmas.

   K is any commutative ring with conjugation and i (Base/Ring.v); [sden n s] / [den n t] (Pauli/Den.v) is the
   2^n x 2^n matrix a sum / term denotes: sum over terms of coefficient * prod over qubits q < n of the 2x2
   Pauli entry on the bits of qubit q in the row and column index, qubit 0 = most significant bit.
   Operators are well-formed ([sum_ok n s]: dictionaries sorted by qubit, indices below n), equivalently
   [sum_sorted s /\ sum_width s <= n] (sum_ok_is_sorted_and_width).
   The model's zero test / equality test / non-zero test stand for np.isclose / np.allclose / data != 0 and are
   assumed exact. *)
Require Import Coq.ZArith.ZArith Coq.Lists.List Coq.Arith.Arith Coq.Bool.Bool Coq.micromega.Lia.
Require Import OQ.Base.Ring OQ.Base.Sums OQ.Base.Bits OQ.Base.Mat OQ.Pauli.Algebra OQ.Pauli.Den OQ.Pauli.Matrix
  OQ.Pauli.OpsProofs OQ.Pauli.MatrixProofs OQ.Pauli.MatrixCooProofs OQ.Pauli.MatrixOpsProofs OQ.Pauli.MatrixExpandProofs OQ.Pauli.MatrixIndepProofs OQ.Pauli.MatrixCases.
Import ListNotations.

(* ------------------------------------------------------------------ what the denotation is *)
(* the tensor-product definition: coefficient times the Kronecker chain sigma_0 (x) sigma_1 (x) ... (x) sigma_{n-1},
   qubit 0 the leftmost factor, identity where the dictionary has no entry *)
Theorem den_is_tensor_product : forall (K : cring) n (t : term K),
  mat_eq (2 ^ n) (den n t) (mscale (coef t) (dmat (dense n (tops t)))).
Proof. exact den_tensor_product. Qed.
Print Assumptions den_is_tensor_product.

Theorem sum_ok_is_sorted_and_width : forall (K : cring) n (s : psum K),
  sum_ok n s <-> sum_sorted s /\ sum_width s <= n.
Proof. exact sum_ok_width. Qed.
Print Assumptions sum_ok_is_sorted_and_width.

(* ------------------------------------------------------------------ get_sparse_operator *)
(* [nzb] is the exact test "data != 0" used by scipy's nonzero() in the COO assembly.
   For every register width n >= the operator's own width: the assembled matrix (Kronecker chains per term, then
   the COO assembly with its exchanged row/column arrays) is the denotation on n qubits - gaps between acted-on
   qubits, constants, complex coefficients, identity padding above the width *)
Theorem sparse_is_den : forall (K : cring) (nzb : K -> bool), (forall x, nzb x = false -> x = c0) -> nzb c0 = false ->
  forall n (s : psum K), sum_sorted s -> sum_width s <= n ->
  exists A, get_sparse nzb s n = Some A /\ mat_eq (2 ^ n) A (sden n s).
Proof. exact get_sparse_den. Qed.
Print Assumptions sparse_is_den.

(* one term: the Kronecker chain built by the loop is coefficient * tensor product *)
Theorem sparse_chain_is_den : forall (K : cring) n (t : term K), ops_sorted (tops t) -> term_width t <= n ->
  mat_eq (2 ^ n) (sparse_chain t n) (den n t).
Proof. exact sparse_chain_den. Qed.
Print Assumptions sparse_chain_is_den.

(* the COO assembly alone: whenever the per-term matrices have symmetric support, pairing column-major values with
   transposed row-major positions and summing duplicates yields the entry-wise sum of the per-term matrices *)
Theorem coo_assembly_is_entrywise_sum : forall (K : cring) (nzb : K -> bool), (forall x, nzb x = false -> x = c0) ->
  forall n (s : psum K), (forall t, In t s -> sym_support nzb (2 ^ n) (sparse_chain t n)) ->
  exists A, sparse_op nzb s n = Some A /\ mat_eq (2 ^ n) A (sparse_sum s n).
Proof. exact sparse_op_sum. Qed.
Print Assumptions coo_assembly_is_entrywise_sum.

(* the zero operator (finding F9, fixed): the sum without terms gives the zero matrix, for every n *)
Theorem sparse_empty_is_zero : forall (K : cring) (nzb : K -> bool) n,
  exists A, get_sparse nzb (@nil (term K)) n = Some A /\ forall i j, A i j = c0.
Proof. exact sparse_empty_zero. Qed.
Print Assumptions sparse_empty_is_zero.

Theorem sparse_rejects_small_register : forall (K : cring) (nzb : K -> bool) n (s : psum K),
  n < sum_width s -> get_sparse nzb s n = None.
Proof. exact get_sparse_rejects. Qed.
Print Assumptions sparse_rejects_small_register.

(* ------------------------------------------------------------------ hermitian_conjugated / is_hermitian *)
Theorem herm_conj_den : forall (K : cring) (is_zero : K -> bool), (forall c, is_zero c = true -> c = c0) ->
  forall n (a b : operand K), herm_conj_op is_zero a = Some b -> forall i j, oden n b i j = adj (oden n a) i j.
Proof. exact herm_conj_op_den. Qed.
Print Assumptions herm_conj_den.

Theorem herm_conj_well_formed : forall (K : cring) (is_zero : K -> bool) n (s : psum K),
  sum_ok n s -> sum_ok n (herm_conj is_zero s) /\ distinct_ops (herm_conj is_zero s).
Proof. intros K z n s H. split; [apply herm_conj_ok; exact H|apply herm_conj_simplified]. Qed.
Print Assumptions herm_conj_well_formed.

(* if the test says yes, the matrix equals its conjugate transpose - for every operand, simplified or not *)
Theorem is_hermitian_sound : forall (K : cring) (is_zero : K -> bool),
  (forall c, is_zero c = true -> c = c0) -> forall keqb : K -> K -> bool, (forall a b, keqb a b = true -> a = b) ->
  forall n (a : operand K),
  is_hermitian is_zero keqb a = Some true -> mat_eq (2 ^ n) (oden n a) (adj (oden n a)).
Proof. exact is_hermitian_sound_any. Qed.
Print Assumptions is_hermitian_sound.

(* the test agrees with the matrix for simplified operators ([simplified_ok]: a well-formed term, or a well-formed
   sum with pairwise different operator sets and no coefficient that tests as zero - what simplify returns), over a
   ring with 1/2 *)
Theorem is_hermitian_agrees_with_matrix : forall (K : cring) (half : K), cadd half half = c1 ->
  forall is_zero : K -> bool, (forall c, is_zero c = true -> c = c0) ->
  forall keqb : K -> K -> bool, (forall a, keqb a a = true) -> (forall a b, keqb a b = true -> a = b) ->
  forall n (a : operand K), simplified_ok K is_zero n a ->
  (is_hermitian is_zero keqb a = Some true <-> mat_eq (2 ^ n) (oden n a) (adj (oden n a))).
Proof. exact is_hermitian_iff. Qed.
Print Assumptions is_hermitian_agrees_with_matrix.

(* behind it: the normalised trace against the string of a term returns the term's coefficient, so the Pauli
   strings are linearly independent *)
Theorem trace_extracts_coefficient : forall (K : cring) (half : K), cadd half half = c1 ->
  forall n (s : psum K) t, sum_ok n s -> distinct_ops s -> In t s ->
  trace_product half n (sden n s) (dense n (tops t)) = coef t.
Proof. exact coefficient_extraction. Qed.
Print Assumptions trace_extracts_coefficient.

Theorem pauli_strings_are_independent : forall (K : cring) (half : K), cadd half half = c1 ->
  forall n (s : psum K), sum_ok n s -> distinct_ops s ->
  mat_eq (2 ^ n) (sden n s) mzero -> Forall (fun t => coef t = c0) s.
Proof. exact pauli_strings_independent. Qed.
Print Assumptions pauli_strings_are_independent.

(* ------------------------------------------------------------------ Pauli expansion *)
(* for every n, every matrix M and every ring with 1/2: the operator returned for M denotes M on n qubits ... *)
Theorem expansion_roundtrip : forall (K : cring) (is_zero : K -> bool), (forall c, is_zero c = true -> c = c0) ->
  forall half : K, cadd half half = c1 ->
  forall n (M : Mat K), mat_eq (2 ^ n) (sden n (from_matrix is_zero half n M)) M.
Proof. exact MatrixExpandProofs.expansion_roundtrip. Qed.
Print Assumptions expansion_roundtrip.

(* ... it is well-formed and simplified, and get_sparse_operator converts it back to M *)
Theorem expansion_then_sparse_roundtrip : forall (K : cring) (is_zero : K -> bool), (forall c, is_zero c = true -> c = c0) ->
  forall half : K, cadd half half = c1 ->
  forall nzb : K -> bool, (forall x, nzb x = false -> x = c0) -> nzb c0 = false ->
  forall n (M : Mat K), exists A, get_sparse nzb (from_matrix is_zero half n M) n = Some A /\ mat_eq (2 ^ n) A M.
Proof. exact expansion_roundtrip_sparse. Qed.
Print Assumptions expansion_then_sparse_roundtrip.

Theorem expansion_well_formed : forall (K : cring) (is_zero : K -> bool) (half : K) n (M : Mat K),
  sum_ok n (from_matrix is_zero half n M) /\ distinct_ops (from_matrix is_zero half n M).
Proof. intros K z h n M. split; [apply from_matrix_ok|apply from_matrix_simplified]. Qed.
Print Assumptions expansion_well_formed.

(* ------------------------------------------------------------------ reverse_qubit_order *)
(* once: the bit-reversal permutation of rows and columns ([brev n x] = the index whose n bits are those of x reversed) *)
Theorem reverse_bitreversal : forall (K : cring) (is_zero : K -> bool), (forall c, is_zero c = true -> c = c0) ->
  forall n (s : psum K) x y, sum_ok n s ->
  sden n (reverse_terms is_zero n s) x y = sden n s (brev n x) (brev n y).
Proof. exact reverse_terms_bitreversal. Qed.
Print Assumptions reverse_bitreversal.

(* twice: the matrix is back *)
Theorem reverse_involutive : forall (K : cring) (is_zero : K -> bool), (forall c, is_zero c = true -> c = c0) ->
  forall n (s : psum K), sum_ok n s ->
  mat_eq (2 ^ n) (sden n (reverse_terms is_zero n (reverse_terms is_zero n s))) (sden n s).
Proof. exact reverse_terms_involutive. Qed.
Print Assumptions reverse_involutive.

(* on a simplified operator (pairwise different operator sets, no coefficient that tests as zero) reversing twice
   returns the very same list of terms *)
Theorem reverse_twice_is_identity : forall (K : cring) (is_zero : K -> bool) n (s : psum K),
  sum_ok n s -> distinct_ops s -> nonzero_coefs K is_zero s ->
  reverse_terms is_zero n (reverse_terms is_zero n s) = s.
Proof. exact reverse_twice_identity. Qed.
Print Assumptions reverse_twice_is_identity.

Theorem reverse_defined_and_well_formed : forall (K : cring) (is_zero : K -> bool) n (s : psum K), sum_ok n s ->
  reverse is_zero n s = Some (reverse_terms is_zero n s) /\ sum_ok n (reverse_terms is_zero n s).
Proof.
  intros K z n s H. split; [apply reverse_defined; apply (sum_ok_width K n s); exact H|apply reverse_terms_ok; exact H].
Qed.
Print Assumptions reverse_defined_and_well_formed.

Theorem reverse_rejects_small_register : forall (K : cring) (is_zero : K -> bool) n (s : psum K),
  n < sum_width s -> reverse is_zero n s = None.
Proof. exact reverse_rejects. Qed.
Print Assumptions reverse_rejects_small_register.

Theorem bit_reversal_is_an_involution : forall n x, x < 2 ^ n -> brev n x < 2 ^ n /\ brev n (brev n x) = x.
Proof. intros n x H. split; [apply brev_lt|apply brev_invol; exact H]. Qed.
Print Assumptions bit_reversal_is_an_involution.

(* ------------------------------------------------------------------ get_expectation_value *)
(* [expectation d A v] = sum_i conj(v_i) * (sum_k A[i][k] * v_k): the quadratic form of the state with the matrix;
   the value computed through the sparse matrix is the quadratic form with the denoted matrix, for every state
   vector (normalised or not) *)
Theorem expectation_quadratic_form : forall (K : cring) (is_zero : K -> bool) (nzb : K -> bool),
  (forall x, nzb x = false -> x = c0) -> nzb c0 = false ->
  forall n (s : psum K) (v : Vec K), sum_ok n s ->
  get_expectation nzb is_zero n s v false = Some (rsum (2 ^ n) (fun i => cmul (cconj (v i)) (rsum (2 ^ n) (fun k => cmul (sden n s i k) (v k))))).
Proof. exact expectation_form. Qed.
Print Assumptions expectation_quadratic_form.

(* with reverse_operator=True: the same with the bit-reversed matrix *)
Theorem expectation_quadratic_form_reversed : forall (K : cring) (is_zero : K -> bool), (forall c, is_zero c = true -> c = c0) ->
  forall nzb : K -> bool, (forall x, nzb x = false -> x = c0) -> nzb c0 = false ->
  forall n (s : psum K) (v : Vec K), sum_ok n s ->
  get_expectation nzb is_zero n s v true
  = Some (rsum (2 ^ n) (fun i => cmul (cconj (v i)) (rsum (2 ^ n) (fun k => cmul (sden n s (brev n i) (brev n k)) (v k))))).
Proof. exact expectation_form_reversed. Qed.
Print Assumptions expectation_quadratic_form_reversed.

Theorem expectation_rejects_small_state : forall (K : cring) (is_zero : K -> bool) (nzb : K -> bool) n (s : psum K) (v : Vec K) b,
  n < sum_width s -> get_expectation nzb is_zero n s v b = None.
Proof. exact expectation_rejects. Qed.
Print Assumptions expectation_rejects_small_state.

(* ------------------------------------------------------------------ the hypotheses are satisfiable *)
(* the executable instance (Gaussian rationals) has an exact zero test, an exact equality test and 1/2 *)
Example instance_meets_hypotheses :
  (forall c : GQring, gq_is_zero c = true -> c = c0) /\ (forall a b : GQring, gq_eqb a b = true -> a = b) /\
  (forall a : GQring, gq_eqb a a = true) /\ @cadd GQring gq_half gq_half = c1 /\
  (forall x : GQring, gq_nonzero x = false -> x = c0) /\ gq_nonzero (@c0 GQring) = false.
Proof.
  split; [exact gq_is_zero_exact|]. split; [exact gq_eqb_eq|]. split; [exact gq_eqb_refl|].
  split; [apply gq_eqb_eq; vm_compute; reflexivity|]. split; [|vm_compute; reflexivity].
  intros x H. apply gq_eqb_eq. unfold gq_nonzero in H. apply negb_false_iff in H. exact H.
Qed.

(* a non-trivial well-formed operator: (1/2 + i) Y0 Z2 + 3 X1 on 3 qubits (a gap, a Y, a complex coefficient);
   results are compared with the boolean equalities of Pauli/MatrixCases.v (canonical rationals carry proofs) *)
Definition ex_op : psum GQring := [tm 1%Z 2%Z 1 [(0, PY); (2, PZ)]; tm 3%Z 0%Z 0 [(1, PX)]].
Example ex_op_ok : sum_ok 3 ex_op /\ sum_width ex_op = 3 /\ distinct_ops ex_op.
Proof.
  split; [|split; [reflexivity|]].
  - apply Forall_cons; [|apply Forall_cons; [|apply Forall_nil]];
      (split; [cbn; intuition lia|intros q Hq; cbn in Hq; intuition lia]).
  - apply NoDup_cons; [|apply NoDup_cons; [intros []|apply NoDup_nil]].
    intros [H|[]]. discriminate H.
Qed.
Example ex_reverse : reverse_eqb (OS ex_op) 3 (Some [tm 1%Z 2%Z 1 [(0, PZ); (2, PY)]; tm 3%Z 0%Z 0 [(1, PX)]]) = true.
Proof. vm_compute. reflexivity. Qed.
Example ex_simplified_ok : simplified_ok GQring gq_is_zero 3 (OS ex_op).
Proof. split; [apply ex_op_ok|]. split; [apply ex_op_ok|]. repeat constructor. Qed.
Example ex_hermitian :
  isherm_eqb (OS [tm 3%Z 0%Z 0 [(1, PX)]; tm 1%Z 0%Z 1 [(0, PY); (2, PZ)]]) (Some true) = true /\ isherm_eqb (OS ex_op) (Some false) = true.
Proof. split; vm_compute; reflexivity. Qed.
(* from_matrix on the matrix of ex_op gives ex_op back (terms in the order of the enumeration of strings) *)
Example ex_expansion :
  frommat_eqb (to_list 8 (sden 3 ex_op)) (Some [tm 3%Z 0%Z 0 [(1, PX)]; tm 1%Z 2%Z 1 [(0, PY); (2, PZ)]]) = true.
Proof. vm_compute. reflexivity. Qed.
