(* C06 - Binding parameters commutes with evaluating the circuit.
   Property theorems only; every proof is [exact <lemma>].  Model: Serde/Expr.v (expressions), Circ/Bind.v
   (sub_symbols, gates and their re-wrapping methods, bind, operations, circuits, meaning). *)
Require Import Coq.QArith.QArith Coq.Lists.List Coq.Strings.String Coq.Bool.Bool Coq.Sorting.Sorted.
Require Import OQ.Serde.Expr OQ.Serde.ExprProofs OQ.Circ.Bind OQ.Circ.BindProofs OQ.Circ.BindCases.
Import ListNotations.
Open Scope nat_scope.

(* ---- 1. substitution commutes with evaluation: every expression, map, carrier, interpretation of functions *)
Theorem subst_ev : forall (R : Type) (ofQ : Q -> R) (radd rmul rpow : R -> R -> R) (rzero rone : R)
    (rfun : string -> list R -> R) (en : env R) (m : sub) (e : expr),
  ev R ofQ radd rmul rpow rzero rone rfun en (subst m e)
  = ev R ofQ radd rmul rpow rzero rone rfun (env_comp R ofQ radd rmul rpow rzero rone rfun en m) e.
Proof. exact ExprProofs.subst_ev. Qed.
Print Assumptions subst_ev.

(* sub_symbols (number / bare symbol / expression dispatch) then evaluate = evaluate in the composed environment *)
Theorem param_bind_ev : forall (R : Type) (ofQ : Q -> R) (radd rmul rpow : R -> R -> R) (rzero rone : R)
    (rfun : string -> list R -> R) (en : env R) (m : smap) (p : param),
  pev R ofQ radd rmul rpow rzero rone rfun en (sub_symbols m p)
  = pev R ofQ radd rmul rpow rzero rone rfun (menv R ofQ radd rmul rpow rzero rone rfun en m) p.
Proof. exact pev_sub_symbols. Qed.
Print Assumptions param_bind_ev.

(* ---- 2. bind then evaluate = evaluate then substitute: built-in, custom, Controlled, Dagger, any nesting.
   Premises: leaves flagged hermitian have self-adjoint matrices at the environment (the flag is what
   MatrixFactoryGate.dagger trusts); custom definitions mention only formals that receive an argument. *)
Theorem bind_sem_commute : forall (R : Type) (ofQ : Q -> R) (radd rmul rpow : R -> R -> R) (rzero rone : R)
    (rfun : string -> list R -> R) (A : matalg R) (factory : string -> list R -> mat R A)
    (en : env R) (m : smap) (g g' : gate),
  bind m g = Ok g' ->
  herm_sound R ofQ radd rmul rpow rzero rone rfun A factory (menv R ofQ radd rmul rpow rzero rone rfun en m) g ->
  defs_closed g ->
  meq R A (sem R ofQ radd rmul rpow rzero rone rfun A factory en g')
          (sem R ofQ radd rmul rpow rzero rone rfun A factory (menv R ofQ radd rmul rpow rzero rone rfun en m) g)
  /\ herm_sound R ofQ radd rmul rpow rzero rone rfun A factory en g'.
Proof. exact bind_sem. Qed.
Print Assumptions bind_sem_commute.

(* circuits: same width, operation by operation the same qubits and equal meanings (gates, MultiPhaseOperation, reset) *)
Theorem circuit_bind_sem_commute : forall (R : Type) (ofQ : Q -> R) (radd rmul rpow : R -> R -> R) (rzero rone : R)
    (rfun : string -> list R -> R) (A : matalg R) (factory : string -> list R -> mat R A)
    (en : env R) (m : smap) (c c' : circuit),
  circuit_bind m c = Ok c' ->
  (forall o, In o (ops c) ->
     op_ok R ofQ radd rmul rpow rzero rone rfun A factory (menv R ofQ radd rmul rpow rzero rone rfun en m) o) ->
  width c' = width c /\
  Forall2 (opsem_eq R A) (circuit_sem R ofQ radd rmul rpow rzero rone rfun A factory en c')
          (circuit_sem R ofQ radd rmul rpow rzero rone rfun A factory (menv R ofQ radd rmul rpow rzero rone rfun en m) c).
Proof. exact circuit_bind_sem. Qed.
Print Assumptions circuit_bind_sem_commute.

(* the circuit matrix: any function of the width and the operations' meanings that respects matrix equality *)
Theorem circuit_bind_unitary_commute : forall (R : Type) (ofQ : Q -> R) (radd rmul rpow : R -> R -> R) (rzero rone : R)
    (rfun : string -> list R -> R) (A : matalg R) (factory : string -> list R -> mat R A)
    (U : Type) (ueq : U -> U -> Prop) (unitary : nat -> list (opsem R A) -> U)
    (en : env R) (m : smap) (c c' : circuit),
  (forall w l l', Forall2 (opsem_eq R A) l l' -> ueq (unitary w l) (unitary w l')) ->
  circuit_bind m c = Ok c' ->
  (forall o, In o (ops c) ->
     op_ok R ofQ radd rmul rpow rzero rone rfun A factory (menv R ofQ radd rmul rpow rzero rone rfun en m) o) ->
  ueq (unitary (width c') (circuit_sem R ofQ radd rmul rpow rzero rone rfun A factory en c'))
      (unitary (width c) (circuit_sem R ofQ radd rmul rpow rzero rone rfun A factory
                                      (menv R ofQ radd rmul rpow rzero rone rfun en m) c)).
Proof. exact circuit_bind_unitary. Qed.
Print Assumptions circuit_bind_unitary_commute.

(* custom gates: the i-th formal stands for the value of the i-th argument, whatever the argument mentions (F17) *)
Theorem custom_factory_by_position : forall (R : Type) (ofQ : Q -> R) (radd rmul rpow : R -> R -> R) (rzero rone : R)
    (rfun : string -> list R -> R) (en : env R) (d : cdef) (ps : list param) (i : nat) (s : string) (p : param),
  NoDup (cformals d) -> nth_error (cformals d) i = Some s -> nth_error ps i = Some p ->
  custom_env R ofQ radd rmul rpow rzero rone rfun en d ps s = pev R ofQ radd rmul rpow rzero rone rfun en p.
Proof. exact custom_env_position. Qed.
Print Assumptions custom_factory_by_position.

(* the matrix operations assumed above exist: entry-function matrices with conjugate transpose and the
   identity-block construction of ControlledGate.matrix satisfy every law of [matalg] *)
Example matalg_inhabited : matalg Q.
Proof. exact (funmat_alg Q 0%Q 1%Q (fun x => x) eq_refl eq_refl (fun x => eq_refl) (fun _ M => M) (fun M => M)). Qed.

(* the premises of bind_sem_commute are met by a concrete gate: a custom gate whose arguments mention the
   definition's own formals, under Dagger and Controlled, next to a leaf flagged hermitian *)
Definition ex_def : cdef :=
  {| cname := "mix2"; cformals := ["p"; "q"]%string;
     crows := [[Sym "p"; Sym "q"]; [Expr.Add [Sym "q"; Mul [Num (-1); Sym "p"]]; Expr.Add [Mul [Sym "p"; Sym "q"]; Num 1]]];
     cnq := 1 |}.
Definition ex_alg : matalg Q :=
  funmat_alg Q 0%Q 1%Q (fun x => x) eq_refl eq_refl (fun x => eq_refl) (fun _ M => M) (fun M => M).
Definition ex_factory (name : string) (vs : list Q) : mat Q ex_alg :=
  frows Q 0%Q 1 [[0%Q; 1%Q]; [1%Q; 0%Q]].
Example sem_premises_met :
  let g := Controlled 1 (Dagger (Custom ex_def [PExp (Expr.Add [Sym "q"; Num 1]); PSym "p"])) in
  let x := Dagger (Builtin "X" true 1 []) in
  let m := [("q"%string, VNum 2); ("p"%string, VExp (Sym "t"))] in
  let en := aenv [("t"%string, 3%Q)] in
  defs_closed g /\ defs_closed x /\
  herm_sound Q (fun q => q) qadd qmul qpow 0%Q 1%Q qfun ex_alg ex_factory (menv Q (fun q => q) qadd qmul qpow 0%Q 1%Q qfun en m) x /\
  bind m g = Ok (Controlled 1 (Dagger (Custom ex_def [PExp (Expr.Add [Num 2; Num 1]); PSym "t"]))) /\
  bind m x = Ok (Builtin "X" true 1 []) /\
  custom_entries Q (fun q => q) qadd qmul qpow 0%Q 1%Q qfun en ex_def [PExp (Expr.Add [Num 2; Num 1]); PSym "t"]
  = [[3%Q; 3%Q]; [0%Q; 10%Q]].
Proof.
  cbv zeta. split; [apply cdef_closedb_sound; vm_compute; reflexivity|]. split; [exact I|].
  split; [|split; [vm_compute; reflexivity|split; [vm_compute; reflexivity|vm_compute; reflexivity]]].
  intros _. split; [reflexivity|]. intros i j.
  destruct i as [|[|[|i]]]; destruct j as [|[|[|j]]]; reflexivity.
Qed.

(* F17 in the model: formals (a, b), matrix [[a, b], [b, a]], arguments (b + 1, 5), at b = 7 *)
Example custom_by_position_example :
  custom_entries Q (fun q => q) qadd qmul qpow 0%Q 1%Q qfun (aenv [("b"%string, 7%Q)])
    {| cname := "w17"; cformals := ["a"; "b"]%string; crows := [[Sym "a"; Sym "b"]; [Sym "b"; Sym "a"]]; cnq := 1 |}
    [PExp (Expr.Add [Sym "b"; Num 1]); PNum 5]
  = [[8%Q; 5%Q]; [5%Q; 8%Q]].
Proof. vm_compute. reflexivity. Qed.

(* ---- 3. binding in several partial steps = binding once (first map first), when no value of the first
   map mentions a key of the second *)
Theorem bind_partial_then_total : forall (m1 m2 : smap) (c c1 : circuit),
  values_avoid m1 m2 -> circuit_bind m1 c = Ok c1 -> circuit_bind m2 c1 = circuit_bind (m1 ++ m2) c.
Proof. exact circuit_bind_twice. Qed.
Print Assumptions bind_partial_then_total.

Theorem gate_bind_partial_then_total : forall (m1 m2 : smap) (g g1 : gate),
  values_avoid m1 m2 -> bind m1 g = Ok g1 -> bind m2 g1 = bind (m1 ++ m2) g.
Proof. exact bind_twice. Qed.
Print Assumptions gate_bind_partial_then_total.

Example partial_then_total_premises_met :
  let m1 := [("x"%string, VExp (Expr.Add [Sym "y"; Num 1]))] in
  let m2 := [("t"%string, VNum 2); ("z"%string, VExp (Sym "w"))] in
  let g := Controlled 1 (Dagger (Controlled 2 (Builtin "RX" false 1 [PExp (Mul [Sym "x"; Sym "t"])]))) in
  bind m1 g = Ok (Controlled 3 (Dagger (Builtin "RX" false 1 [PExp (Mul [Expr.Add [Sym "y"; Num 1]; Sym "t"])]))) /\
  bind (m1 ++ m2) g = Ok (Controlled 3 (Dagger (Builtin "RX" false 1 [PExp (Mul [Expr.Add [Sym "y"; Num 1]; Num 2])]))).
Proof. vm_compute. split; reflexivity. Qed.

(* ---- 4. what binding leaves alone *)
Theorem bind_irrelevant_numeric : forall (m : smap) (q : Q), sub_symbols m (PNum q) = PNum q.
Proof. exact sub_symbols_num. Qed.
Print Assumptions bind_irrelevant_numeric.

Theorem bind_irrelevant_absent : forall (m : smap) (p : param),
  (forall s, In s (pfree p) -> alookup s m = None) -> sub_symbols m p = p.
Proof. exact sub_symbols_absent. Qed.
Print Assumptions bind_irrelevant_absent.

(* extra keys are ignored: two maps that agree on the circuit's free symbols bind it identically *)
Theorem bind_irrelevant_extra_keys : forall (m m' : smap) (c : circuit),
  (forall s, In s (circuit_free c) -> alookup s m = alookup s m') -> circuit_bind m c = circuit_bind m' c.
Proof. exact circuit_bind_ext. Qed.
Print Assumptions bind_irrelevant_extra_keys.

(* a map with no key among the circuit's free symbols returns the circuit itself (gates in the shapes the
   methods .controlled / .dagger build; other nestings are first rebuilt into those shapes) *)
Theorem bind_irrelevant_map : forall (m : smap) (c : circuit), forallb op_nf (ops c) = true ->
  (forall s, In s (circuit_free c) -> alookup s m = None) -> circuit_bind m c = Ok c.
Proof. exact circuit_bind_absent. Qed.
Print Assumptions bind_irrelevant_map.

(* the bound gate has the same number of parameters, each the substituted original, in the same order *)
Theorem bind_keeps_params : forall (m : smap) (g g' : gate),
  bind m g = Ok g' -> gate_params g' = map (sub_symbols m) (gate_params g).
Proof. exact bind_params. Qed.
Print Assumptions bind_keeps_params.

(* bind is replace_params with the substituted parameters, through every Controlled / Dagger wrapper *)
Theorem bind_is_replace_params : forall (m : smap) (g : gate), has_pe g = false ->
  bind m g = replace_params (map (sub_symbols m) (gate_params g)) g.
Proof. exact bind_replace_params. Qed.
Print Assumptions bind_is_replace_params.

(* and the wrappers of a gate built through the methods are kept as they are *)
Theorem bind_in_place : forall (m : smap) (g : gate), nfb g = true -> bind m g = Ok (gmap (sub_symbols m) g).
Proof. exact bind_nf. Qed.
Print Assumptions bind_in_place.

(* ---- 5. free symbols *)
Theorem free_symbols_exact : forall (g : gate) (s : string),
  In s (gate_free g) <-> exists p, In p (gate_params g) /\ In s (pfree p).
Proof. intros g. exact (get_free_symbols_In (gate_params g)). Qed.
Print Assumptions free_symbols_exact.

Theorem op_free_symbols_exact : forall (o : op),
  (forall s, In s (op_free o) <-> exists p, In p (op_params o) /\ In s (pfree p)) /\
  NoDup (op_free o) /\ Sorted sle (op_free o).
Proof.
  intros o. exact (conj (get_free_symbols_In (op_params o))
                        (conj (get_free_symbols_NoDup (op_params o)) (get_free_symbols_sorted (op_params o)))).
Qed.
Print Assumptions op_free_symbols_exact.

(* after binding: the untouched symbols and the symbols of the values put in *)
Theorem bound_param_free_symbols : forall (m : smap) (p : param) (t : string),
  In t (pfree (sub_symbols m p)) <->
  exists s, In s (pfree p) /\
            ((alookup s m = None /\ t = s) \/ (exists v, alookup s m = Some v /\ In t (free (val_expr v)))).
Proof. exact pfree_sub_symbols. Qed.
Print Assumptions bound_param_free_symbols.

Theorem circuit_free_symbols_exact : forall (c : circuit),
  (forall s, In s (circuit_free c) <-> exists o p, In o (ops c) /\ In p (op_params o) /\ In s (pfree p)) /\
  NoDup (circuit_free c).
Proof. intros c. exact (conj (circuit_free_In c) (circuit_free_NoDup c)). Qed.
Print Assumptions circuit_free_symbols_exact.

Theorem circuit_closed_iff : forall (c : circuit),
  circuit_free c = [] <-> forall p, In p (circuit_params c) -> pfree p = [].
Proof. exact circuit_free_nil. Qed.
Print Assumptions circuit_closed_iff.

(* first-appearance order: one operation contributes its own sorted list; appending a circuit appends the
   symbols it adds, in its own order *)
Theorem circuit_free_order : forall (c1 c2 : circuit) (o : op) (w : nat),
  circuit_free {| ops := [o]; width := w |} = op_free o /\
  circuit_free (circuit_app c1 c2)
  = circuit_free c1 ++ filter (fun s => negb (mem s (circuit_free c1))) (circuit_free c2).
Proof. intros c1 c2 o w. exact (conj (circuit_free_single o w) (circuit_free_app c1 c2)). Qed.
Print Assumptions circuit_free_order.

Example free_order_example :
  circuit_free {| ops := [GateOp (Builtin "U3" false 1 [PSym "z"; PExp (Expr.Add [Sym "s9"; Sym "s10"]); PNum 1]) [0];
                          MultiPhase [PSym "t"; PExp (Mul [Sym "z"; Sym "a"])]]; width := 2 |}
  = ["s10"; "s9"; "z"; "a"; "t"]%string.
Proof. vm_compute. reflexivity. Qed.

(* ---- 6. Power and Exponential refuse, at any depth under Controlled / Dagger; nothing else does *)
Theorem power_exp_refuse : forall (m : smap) (g : gate), has_pe g = true -> bind m g = Err ENotImplemented.
Proof. exact bind_refuse. Qed.
Print Assumptions power_exp_refuse.

Theorem circuit_power_exp_refuse : forall (m : smap) (c : circuit), forallb op_wf (ops c) = true ->
  existsb op_has_pe (ops c) = true -> circuit_bind m c = Err ENotImplemented.
Proof. exact circuit_bind_refuse. Qed.
Print Assumptions circuit_power_exp_refuse.

Theorem bind_succeeds_otherwise : forall (m : smap) (c : circuit), forallb op_wf (ops c) = true ->
  existsb op_has_pe (ops c) = false -> exists c', circuit_bind m c = Ok c'.
Proof. exact circuit_bind_ok. Qed.
Print Assumptions bind_succeeds_otherwise.

Example refuse_example :
  bind [("x"%string, VNum 1)] (Controlled 2 (Dagger (Dagger (Controlled 1 (Power (Builtin "RX" false 1 [PNum 1]) (1 # 2))))))
  = Err ENotImplemented.
Proof. vm_compute. reflexivity. Qed.
