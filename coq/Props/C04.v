(* C04 - Every view of a simulated state agrees on which qubit is which.
   Property theorems only; every proof is [exact <lemma>] (State/ViewsProofs.v).  The model of the conversions is
   State/Views.v; gates are placed by C01's [lift_spec] / [run] (Circ/Lift.v, Circ/Circuit.v), operators are
   denoted by C03's [den] (Pauli/Den.v).  Conventions: amplitude index i of an n-qubit register has the bits
   [bits n i], most significant first; qubit q of a gate acts on position q of that list. *)
Require Import Coq.Arith.Arith Coq.ZArith.ZArith Coq.QArith.QArith Coq.Lists.List Coq.Strings.String Coq.Strings.Ascii
  Coq.micromega.Lia.
Require Import OQ.Base.Ring OQ.Base.Sums OQ.Base.Bits OQ.Base.Mat OQ.Pauli.Algebra OQ.Pauli.Den
  OQ.Circ.Lift OQ.Circ.Circuit OQ.State.Views OQ.State.ViewsProofs.
Import ListNotations.
Close Scope Q_scope.
Open Scope nat_scope.

(* ---- index <-> outcome string <-> tuple *)
(* the key get_outcome_probs gives amplitude index i is the bits of i, LEAST significant first (the [::-1]) ... *)
Theorem outcome_key_is_reversed_bits : forall n i, 1 <= n -> i < 2 ^ n -> outcome_key n i = str_of_bits (rev (bits n i)).
Proof. exact outcome_key_bits. Qed.
Print Assumptions outcome_key_is_reversed_bits.

(* ... and bitstring_to_tuple reverses again: position q of the tuple is bit q of the index, qubit 0 first *)
Theorem key_roundtrip : forall n i, 1 <= n -> i < 2 ^ n -> bitstring_to_tuple (outcome_key n i) = bits n i.
Proof. exact key_roundtrip_lemma. Qed.
Print Assumptions key_roundtrip.

(* itertools.product([0, 1], repeat=n) enumerates the tuples in index order, so the exact distribution pairs
   probability i with the bits of i *)
Theorem product_order : forall n i, i < 2 ^ n -> nth i (product_bits n) [] = bits n i.
Proof. exact product_order_lemma. Qed.
Print Assumptions product_order.

Theorem exact_dist_entries : forall (A : Type) n (p : nat -> A),
  exact_dist n p = map (fun i => (bits n i, p i)) (seq 0 (2 ^ n)).
Proof. exact @exact_dist_map. Qed.
Print Assumptions exact_dist_entries.

(* end to end: the key of the exact distribution at position i is the tuple that sampling index i yields *)
Theorem dist_key_is_sampled_tuple : forall n i, 1 <= n -> i < 2 ^ n ->
  nth i (product_bits n) [] = bitstring_to_tuple (outcome_key n i).
Proof. exact dist_key_is_sample_tuple. Qed.
Print Assumptions dist_key_is_sampled_tuple.

(* tuple -> count string keeps positions: character p of the string is element p of the tuple, and the row the
   parity computation reads back from the string is the tuple *)
Theorem count_string_positions : forall t p, p < List.length t ->
  String.get p (tuple_to_bitstring t) = Some (bchar (nth p t false)) /\ row_of_key (tuple_to_bitstring t) = t.
Proof. exact count_string_positions_lemma. Qed.
Print Assumptions count_string_positions.

(* ---- lengths *)
Theorem length_views : forall n i, 1 <= n -> i < 2 ^ n ->
  String.length (outcome_key n i) = n /\
  List.length (bitstring_to_tuple (outcome_key n i)) = n /\
  List.length (nth i (product_bits n) []) = n /\
  String.length (tuple_to_bitstring (bitstring_to_tuple (outcome_key n i))) = n.
Proof. exact length_views_lemma. Qed.
Print Assumptions length_views.

Theorem exact_dist_key_lengths : forall n, Forall (fun t => List.length t = n) (product_bits n).
Proof. exact product_bits_lengths. Qed.
Print Assumptions exact_dist_key_lengths.

(* known finding F6: on a zero-qubit register the faithful model, like the code, samples tuples of length 1 *)
Theorem length_views_zero_width_refuted :
  exists n_samples chosen shots, run_and_measure 0 n_samples chosen = Some shots /\
                                 exists t, In t shots /\ List.length t <> 0.
Proof. exact zero_width_sample_length. Qed.
Print Assumptions length_views_zero_width_refuted.

(* ---- sampling: both internal branches, for any list of positions the generator chose *)
Theorem branches_agree : forall n chosen, 1 <= n -> Forall (fun k => k < 2 ^ n) chosen ->
  sample_many n chosen = sample_few n chosen /\ sample_few n chosen = map (fun k => Tup (bits n k)) chosen.
Proof. exact branches_agree_lemma. Qed.
Print Assumptions branches_agree.

(* whether few or many samples are requested *)
Theorem sampling_regime_irrelevant : forall n n_samples chosen, 1 <= n -> (1 <= n_samples)%Z ->
  Forall (fun k => k < 2 ^ n) chosen ->
  sample_from_wavefunction n n_samples chosen = Some (map (fun k => Tup (bits n k)) chosen) /\
  run_and_measure n n_samples chosen = Some (map (bits n) chosen).
Proof. exact sampling_regime_lemma. Qed.
Print Assumptions sampling_regime_irrelevant.

Theorem sampling_rejects_nonpositive : forall n n_samples chosen, (n_samples < 1)%Z ->
  sample_from_wavefunction n n_samples chosen = None.
Proof. exact sample_rejects. Qed.
Print Assumptions sampling_rejects_nonpositive.

(* oracle hypothesis, explicit: the generator only returns positions of positive weight in the array it was given
   ([wext]: the weights w of the 2^n outcomes, then weight 0 for the extra element of the first branch).  Then every
   sample is a tuple of the register's width whose index has positive weight. *)
Theorem sample_support : forall n (w : nat -> Q) n_samples chosen l, 1 <= n ->
  Forall (fun k => k <= 2 ^ n /\ (0 < wext n w k)%Q) chosen ->
  sample_from_wavefunction n n_samples chosen = Some l ->
  l = map (fun k => Tup (bits n k)) chosen /\
  Forall (fun s => exists t, s = Tup t /\ List.length t = n /\ val t < 2 ^ n /\ (0 < w (val t))%Q) l.
Proof. exact sample_support_lemma. Qed.
Print Assumptions sample_support.

Example sample_support_premises_met :
  Forall (fun k => k <= 2 ^ 2 /\ (0 < wext 2 (fun i => if Nat.eqb i 1 then 1 else if Nat.eqb i 2 then 1 else 0) k)%Q) [1; 2; 2] /\
  sample_from_wavefunction 2 3 [1; 2; 2] = Some [Tup [false; true]; Tup [true; false]; Tup [true; false]] /\
  sample_from_wavefunction 2 9 [1; 2; 2] = Some [Tup [false; true]; Tup [true; false]; Tup [true; false]].
Proof.
  split; [|split; vm_compute; reflexivity].
  repeat constructor; vm_compute; try reflexivity; intro H; discriminate H.
Qed.

(* ---- expectation values from measurements use position q of the tuple for qubit q *)
Theorem counts_expectation_positions : forall n marked shots, 1 <= n -> shots <> [] ->
  Forall (fun t => List.length t = n) shots -> Forall (fun q => q < n) marked ->
  efreq_num marked (get_counts shots) = zsum (map (tuple_sign marked) shots) /\
  efreq_den (get_counts shots) = Z.of_nat (List.length shots) /\
  efreq marked (get_counts shots)
  = Some (Qdiv (inject_Z (zsum (map (tuple_sign marked) shots))) (inject_Z (Z.of_nat (List.length shots)))).
Proof. exact counts_expectation_positions_lemma. Qed.
Print Assumptions counts_expectation_positions.

Theorem measured_values_use_positions : forall n shots (op : zop Q), 1 <= n -> shots <> [] ->
  Forall (fun t => List.length t = n) shots -> Forall (fun t => Forall (fun q => q < n) (snd t)) op ->
  measured_values shots op
  = Some (map (fun t => Qmult (fst t) (Qdiv (inject_Z (zsum (map (tuple_sign (snd t)) shots)))
                                            (inject_Z (Z.of_nat (List.length shots))))) op).
Proof. exact measured_values_positions. Qed.
Print Assumptions measured_values_use_positions.

(* ---- exact expectation values: the matrix of c * Z_S is diagonal in the index, the eigenvalue at index i is
   read at positions S of the bits of i *)
Theorem z_expectation_eigen_avg : forall (K : cring) n (c : K) S (psi : Vec K),
  NoDup S -> Forall (fun q => q < n) S ->
  expectation (2 ^ n) (den n (zterm c S)) psi
  = rsum (2 ^ n) (fun i => cmul (norm2 (psi i)) (eigenvalue c S (bits n i))).
Proof. exact z_expectation_eigen_avg_lemma. Qed.
Print Assumptions z_expectation_eigen_avg.

(* whole Z-type operators, and as the average of the eigenvalues under the exact outcome distribution:
   position q of the distribution's key for qubit q of the operator *)
Theorem z_expectation_dist_avg : forall (K : cring) n (op : zop K) (psi : Vec K), zop_fits K n op ->
  exact_expectation n op psi
  = Some (rsum (2 ^ n) (fun i => cmul (norm2 (psi i)) (lsum op (fun t => eigenvalue (fst t) (snd t) (bits n i))))) /\
  exact_expectation n op psi
  = Some (lsum (exact_dist n (probabilities psi))
               (fun kp => cmul (snd kp) (lsum op (fun t => eigenvalue (fst t) (snd t) (fst kp))))).
Proof. exact z_expectation_dist_avg_both. Qed.
Print Assumptions z_expectation_dist_avg.

Theorem exact_expectation_rejects_wide_operator : forall (K : cring) n (op : zop K) (psi : Vec K),
  n < zop_width op -> exact_expectation n op psi = None.
Proof. exact rejects_wide_operator. Qed.
Print Assumptions exact_expectation_rejects_wide_operator.

(* ---- the chain: gate index = amplitude index = tuple position = count-string position = operator index.
   X on qubit q of |0...0> (through the code mirror of GateOperation.apply) is the basis vector 2^(n-1-q); its
   outcome string converts to the tuple with a single 1 at position q, which is also the key of the exact
   distribution at that index and what run_and_measure returns in either regime; its count string has the character
   1 at position q only; <Z_q> = -1 and <Z_p> = +1 for every other qubit, exactly and from the measurements. *)
Theorem x_gate_marks_position : forall (K : cring) n q, q < n ->
  let psi := run n [xgate K q] zero_state in
  let j := 2 ^ (n - 1 - q) in
  vec_eq (2 ^ n) psi (basis_vec j) /\
  bitstring_to_tuple (outcome_key n j) = onehot n q /\
  nth j (product_bits n) [] = onehot n q /\
  (forall n_samples, (1 <= n_samples)%Z ->
     run_and_measure n n_samples (repeat j (Z.to_nat n_samples)) = Some (repeat (onehot n q) (Z.to_nat n_samples))) /\
  (forall p, p < n ->
     nth p (onehot n q) false = Nat.eqb p q /\
     String.get p (tuple_to_bitstring (onehot n q)) = Some (if Nat.eqb p q then "1"%char else "0"%char) /\
     expectation (2 ^ n) (den n (zterm c1 [p])) psi = (if Nat.eqb p q then copp c1 else c1) /\
     efreq [p] (get_counts [onehot n q]) = Some (Qdiv (inject_Z (if Nat.eqb p q then (-1)%Z else 1%Z)) (inject_Z 1))).
Proof. exact x_gate_marks_position_lemma. Qed.
Print Assumptions x_gate_marks_position.

(* the same chain for X on any set of distinct qubits (what the correspondence generator starts every circuit with):
   the state is the basis vector whose index has exactly those bits set, and every view shows a 1 exactly at those
   positions: tuple, distribution key, samples in either regime, count string, sign of <Z_p> exact and measured *)
Theorem x_gates_mark_positions : forall (K : cring) n qs, 1 <= n -> NoDup qs -> Forall (fun q => q < n) qs ->
  let psi := run n (map (xgate K) qs) zero_state in
  let t := marks n qs in
  let j := val t in
  vec_eq (2 ^ n) psi (basis_vec j) /\
  bitstring_to_tuple (outcome_key n j) = t /\
  nth j (product_bits n) [] = t /\
  (forall n_samples, (1 <= n_samples)%Z ->
     run_and_measure n n_samples (repeat j (Z.to_nat n_samples)) = Some (repeat t (Z.to_nat n_samples))) /\
  (forall p, p < n ->
     nth p t false = existsb (Nat.eqb p) qs /\
     String.get p (tuple_to_bitstring t) = Some (bchar (existsb (Nat.eqb p) qs)) /\
     expectation (2 ^ n) (den n (zterm c1 [p])) psi = ksgn (existsb (Nat.eqb p) qs) /\
     efreq [p] (get_counts [t]) = Some (Qdiv (inject_Z (zsgn (existsb (Nat.eqb p) qs))) (inject_Z 1))).
Proof. exact x_gates_mark_positions_lemma. Qed.
Print Assumptions x_gates_mark_positions.

(* ... and for circuits of "classical" gates (one entry per column of the gate's matrix: X, CNOT, SWAP, their
   controlled versions, S, Z, CZ, permutation gates) of ANY arity on ANY duplicate-free qubit order, on registers of
   any width: the state is a phase times the basis vector of the tuple obtained by reading the gate's qubits off the
   tuple in the gate's order, applying the gate's map, and writing the result back to the same positions ([brun]);
   that tuple is the outcome tuple, the distribution key, every sample in either regime, and the exact expectation of
   c Z_S is |phase|^2 times the eigenvalue read at positions S of it.  (The wide-register correspondence cases
   evaluate exactly this path.) *)
Theorem classical_circuit_views : forall (K : cring) n (gs : list (cgate K)), 1 <= n -> Forall (cgate_ok n) gs ->
  let st := brun gs (repeat false n, c1) in
  let psi := run n (map cg_op gs) zero_state in
  let t := fst st in
  let j := val t in
  vec_eq (2 ^ n) psi (sbasis (snd st) j) /\ List.length t = n /\
  bitstring_to_tuple (outcome_key n j) = t /\
  nth j (product_bits n) [] = t /\
  (forall n_samples, (1 <= n_samples)%Z ->
     run_and_measure n n_samples (repeat j (Z.to_nat n_samples)) = Some (repeat t (Z.to_nat n_samples))) /\
  (forall (c : K) S, NoDup S -> Forall (fun q => q < n) S ->
     expectation (2 ^ n) (den n (zterm c S)) psi = cmul (norm2 (snd st)) (eigenvalue c S t)).
Proof. exact classical_circuit_views_lemma. Qed.
Print Assumptions classical_circuit_views.

Theorem table_gates_are_classical : forall (K : cring) n qs perm exps, qs <> [] -> NoDup qs -> Forall (fun q => q < n) qs ->
  cgate_ok n (table_gate (K:=K) qs perm exps).
Proof. exact table_gate_ok. Qed.
Print Assumptions table_gates_are_classical.

(* the distribution computed from measurements: every key is one of the measured tuples, position by position *)
Theorem measured_distribution_keys : forall shots dist k p,
  get_distribution shots = Some dist -> In (k, p) dist -> In k shots.
Proof. exact get_distribution_keys. Qed.
Print Assumptions measured_distribution_keys.

(* the statement is not vacuous: over the Gaussian rationals, X on qubit 1 of 3 *)
Example x_gate_instance :
  @vto_list GQring 8 (run 3 [xgate GQring 1] zero_state) = [gq0; gq0; gq1; gq0; gq0; gq0; gq0; gq0] /\
  onehot 3 1 = [false; true; false] /\ outcome_key 3 2 = "010"%string /\
  get_counts [onehot 3 1; onehot 3 1] = [("010"%string, 2%Z)] /\
  marks 4 [3; 0] = [true; false; false; true] /\ val (marks 4 [3; 0]) = 9 /\
  @vto_list GQring 16 (run 4 (map (xgate GQring) [3; 0]) zero_state)
  = [gq0; gq0; gq0; gq0; gq0; gq0; gq0; gq0; gq0; gq1; gq0; gq0; gq0; gq0; gq0; gq0].
Proof. repeat split; vm_compute; reflexivity. Qed.

Example zop_fits_instance : zop_fits GQring 3 [(gq1, [0; 2]); (gqi, [])].
Proof. repeat constructor; simpl; intuition lia. Qed.

Example views_instance :
  outcome_key 3 6 = "011"%string /\ bitstring_to_tuple "011" = [true; true; false] /\ bits 3 6 = [true; true; false] /\
  nth 6 (product_bits 3) [] = [true; true; false] /\
  get_counts [[true; true; false]; [false; true; false]; [true; true; false]] = [("110"%string, 2%Z); ("010"%string, 1%Z)] /\
  efreq_num [0; 2] (get_counts [[true; true; false]; [false; true; false]; [true; true; false]]) = (-1)%Z /\
  zsum (map (tuple_sign [0; 2]) [[true; true; false]; [false; true; false]; [true; true; false]]) = (-1)%Z.
Proof. repeat split; vm_compute; reflexivity. Qed.

(* CNOT with control 3 and target 0, then SWAP(0, 2), on X(3)|0000>, followed on the tuple and through the code mirror *)
Example classical_instance :
  let gs := [table_gate (K:=GQring) [3] [1; 0] [0; 0]; table_gate [3; 0] [0; 1; 3; 2] [0; 0; 0; 0];
             table_gate [0; 2] [0; 2; 1; 3] [0; 0; 0; 0]] in
  fst (brun gs (repeat false 4, gq1)) = [false; false; true; true] /\
  @vto_list GQring 16 (run 4 (map cg_op gs) zero_state)
  = [gq0; gq0; gq0; gq1; gq0; gq0; gq0; gq0; gq0; gq0; gq0; gq0; gq0; gq0; gq0; gq0].
Proof. split; vm_compute; reflexivity. Qed.
