(* C12 - A wavefunction object is normalised after every operation on it.
   Property theorems only; every proof is [exact <lemma>].  The model is State/Wavefunction.v; the Gosper step and
   the most-significant-bit function used by the Dicke constructor are generated from wavefunction.py on every
   run (Gen/GosperGen.v).  [tol] is the tolerance of the normalisation test (the code: np_tol). *)
Require Import Coq.ZArith.ZArith Coq.QArith.QArith Coq.QArith.Qabs Coq.Lists.List Coq.Bool.Bool Coq.Sorting.Sorted.
Require Import OQ.Gen.GosperGen OQ.State.Wavefunction OQ.State.WavefunctionProofs.
Import ListNotations.
Local Open Scope nat_scope.

(* ---- creation: only power-of-two lengths that pass the normalisation test; nothing else is rejected *)
Theorem create_establishes_invariant : forall tol col v s,
  create tol col v = Some s -> Inv tol s /\ amps s = v.
Proof. exact create_some. Qed.
Print Assumptions create_establishes_invariant.

Theorem create_rejects_exactly : forall tol col v,
  create tol col v = None <-> pow2b (length v) = false \/ check tol v = false.
Proof. exact create_none. Qed.
Print Assumptions create_rejects_exactly.

Theorem power_of_two_lengths : forall n, pow2b n = true <-> exists k : nat, n = Nat.pow 2 k.
Proof. exact pow2b_spec. Qed.
Print Assumptions power_of_two_lengths.

(* ---- one operation (element assignment, list-at-index assignment, slice assignment, binding), no exclusion:
        the invariant is kept, and on ANY error (ValueError, TypeError, IndexError) nothing changed *)
Theorem step_keeps_invariant_or_leaves_unchanged : forall tol s o s' r,
  Inv tol s -> step tol s o = (s', r) -> Inv tol s' /\ (r <> Ok -> s' = s).
Proof. exact step_spec. Qed.
Print Assumptions step_keeps_invariant_or_leaves_unchanged.

(* the shape of (fixed) finding F37: a slice assignment carrying a symbol into flat numpy storage raises TypeError and
   the object is as before, whatever numpy had already stored *)
Theorem symbol_in_numpy_slice_rejected_unchanged : forall tol s lo hi vs, bk s = NpFlat -> has_symb vs = true ->
  set_slice tol s lo hi vs = (s, ErrType).
Proof. exact symbol_into_numpy_slice. Qed.
Print Assumptions symbol_in_numpy_slice_rejected_unchanged.

(* an in-range element assignment is accepted exactly when the resulting vector passes the test *)
Theorem element_assignment_effect : forall tol s i v s' r, Inv tol s ->
  (0 <= i < Z.of_nat (length (amps s)))%Z -> (bk s <> Mat -> is_symb v = false) ->
  set_item tol s i v = (s', r) ->
  (check tol (write (amps s) (Z.to_nat i) [v]) = true -> r = Ok /\ s' = (bk s, write (amps s) (Z.to_nat i) [v])) /\
  (check tol (write (amps s) (Z.to_nat i) [v]) = false -> r = ErrValue /\ s' = s).
Proof. exact set_item_effect. Qed.
Print Assumptions element_assignment_effect.

(* a list assigned at an integer index of a sympy-backed object spills over the following entries (what sympy does);
   the whole spill is stored when the result passes the test and otherwise the object is exactly as before (F29) *)
Theorem list_assignment_spills_or_leaves_unchanged : forall tol s i vs s' r, Inv tol s -> bk s = Mat ->
  (0 <= i < Z.of_nat (length (amps s)))%Z -> Z.to_nat i + length vs <= length (amps s) ->
  set_item_list tol s i vs = (s', r) ->
  (check tol (write (amps s) (Z.to_nat i) vs) = true -> r = Ok /\ s' = (Mat, write (amps s) (Z.to_nat i) vs)) /\
  (check tol (write (amps s) (Z.to_nat i) vs) = false -> r = ErrValue /\ s' = s).
Proof. exact set_item_list_effect. Qed.
Print Assumptions list_assignment_spills_or_leaves_unchanged.

(* ---- every reachable object: any created object, any sequence of operations, accepted or rejected *)
Theorem reachable_states_normalised : forall tol col v s0 ops,
  create tol col v = Some s0 -> Inv tol (run tol s0 ops).
Proof. exact run_inv_created. Qed.
Print Assumptions reachable_states_normalised.

Theorem every_snapshot_normalised : forall tol ops s, Inv tol s ->
  Forall (fun rs => Inv tol (snd rs)) (trace tol s ops).
Proof. exact trace_inv. Qed.
Print Assumptions every_snapshot_normalised.

Theorem every_rejected_step_leaves_snapshot : forall tol ops s, Inv tol s ->
  unchanged_on_error s (trace tol s ops).
Proof. exact trace_unchanged. Qed.
Print Assumptions every_rejected_step_leaves_snapshot.

(* a history mixing accepted and rejected steps on a mixed numeric/symbolic vector *)
Example history_premises_met :
  let v := [Symb 1; Num (1#2) 0; Symb 2; Num 0 (1#2)] in
  exists s0, create np_tol false v = Some s0 /\
  map fst (trace np_tol s0 [SetItem 0 (Num 1 0); SetItem 0 (Num (1#2) 0); SetSlice 0 2 [Num 0 0; Num 0 0];
                            Bind [(2%positive, Num 1 0)]; Bind [(2%positive, Num (-1#2) 0)]; SetItem (-1) (Num 1 0);
                            SetSlice 1 3 [Num 0 (-1#2)]; SetItem 9 (Num 0 0); SetItem 1 (Symb 3)])
  = [ErrValue; Ok; ErrValue; ErrValue; Ok; ErrValue; Ok; ErrIndex; ErrType] /\
  map fst (trace np_tol s0 [SetItemList 1 [Num 1 0; Num 1 0]; SetItemList 0 [Num (1#2) 0; Num 0 (1#2)]; SetItemList 3 [Num 0 0; Num 0 0]])
  = [ErrValue; Ok; ErrValue] /\
  trace np_tol (NpFlat, [Num 1 0; Num 0 0]) [SetSlice 0 2 [Num (1#2) 0; Symb 1]]
  = [(ErrType, (NpFlat, [Num 1 0; Num 0 0]))].
Proof. eexists. split; [vm_compute; reflexivity|repeat split; vm_compute; reflexivity]. Qed.

(* ---- bind: returns the receiver itself exactly when there is nothing to bind; otherwise a new object created
        from the substituted vector (so it satisfies the invariant) or an error; the receiver's state never changes
        (in this functional model the receiver is [s]; that the Python receiver is not mutated is compared by the
        harness after every bind) *)
Theorem bind_returns_new_valid_object : forall tol s m s' r al, Inv tol s -> bind tol s m = (s', r, al) ->
  Inv tol s' /\ (r <> Ok -> s' = s) /\
  (al = true <-> has_symb (amps s) = false) /\ (al = true -> s' = s /\ r = Ok) /\
  (r = Ok -> al = false -> amps s' = map (subst m) (amps s)) /\ (r = Ok \/ r = ErrValue).
Proof. exact bind_spec. Qed.
Print Assumptions bind_returns_new_valid_object.

(* ---- probabilities: squared magnitudes, one per amplitude, summing to 1 within the tolerance of the test
        (exactly 1 when the tolerance is 0) *)
Theorem probabilities_sum_to_one_within_tol : forall tol s, Inv tol s -> has_symb (amps s) = false ->
  length (probs (amps s)) = length (amps s) /\ (Qabs (qsum (probs (amps s)) - 1) <= tol)%Q.
Proof. exact probs_sum_tol_len. Qed.
Print Assumptions probabilities_sum_to_one_within_tol.

Theorem probabilities_sum_to_one_exactly : forall s, Inv 0%Q s -> has_symb (amps s) = false ->
  (qsum (probs (amps s)) == 1)%Q.
Proof. exact probs_sum_exact. Qed.
Print Assumptions probabilities_sum_to_one_exactly.

(* ---- reversing the qubit order: the bit-reversal permutation of the amplitudes, its own inverse *)
Theorem flip_is_bit_reversal_and_involution : forall (A : Type) (d : A) (l : list A) n, length l = Nat.pow 2 n ->
  length (flip_amplitudes l) = length l /\
  (forall i, i < Nat.pow 2 n -> nth i (flip_amplitudes l) d = nth (bitrev n i) l d) /\
  flip_amplitudes (flip_amplitudes l) = l /\
  Permutation.Permutation (flip_amplitudes l) l.
Proof. exact @flip_amplitudes_spec. Qed.
Print Assumptions flip_is_bit_reversal_and_involution.

(* [bitrev n] really reverses the n index bits, maps [0,2^n) into itself and is an involution there *)
Theorem bitrev_reverses_bits : forall n i j, j < n -> Nat.testbit (bitrev n i) j = Nat.testbit i (n - 1 - j).
Proof. exact bitrev_testbit. Qed.
Print Assumptions bitrev_reverses_bits.

Theorem bitrev_in_range : forall n i, bitrev n i < Nat.pow 2 n.
Proof. exact bitrev_lt. Qed.
Print Assumptions bitrev_in_range.

Theorem bitrev_is_involution : forall n i, i < Nat.pow 2 n -> bitrev n (bitrev n i) = i.
Proof. exact bitrev_involutive. Qed.
Print Assumptions bitrev_is_involution.

(* flip_wavefunction always succeeds on a valid object and yields a valid object holding the permuted amplitudes *)
Theorem flip_wavefunction_valid : forall tol s, Inv tol s ->
  exists s', flip_wavefunction tol s = Some s' /\ Inv tol s' /\ amps s' = flip_amplitudes (amps s) /\
             Permutation.Permutation (amps s') (amps s).
Proof. exact flip_wavefunction_spec. Qed.
Print Assumptions flip_wavefunction_valid.

Example flip_premises_met :
  flip_amplitudes [0; 1; 2; 3; 4; 5; 6; 7] = [0; 4; 2; 6; 1; 5; 3; 7] /\ map (bitrev 3) (seq 0 8) = [0; 4; 2; 6; 1; 5; 3; 7].
Proof. split; vm_compute; reflexivity. Qed.

(* ---- saving and loading returns the same object (numpy-backed objects; symbolic ones cannot be saved) *)
Theorem save_then_load_is_identity : forall tol s, Inv tol s -> bk s <> Mat ->
  exists d, save s = Some d /\ load tol d = Some s.
Proof. exact save_load. Qed.
Print Assumptions save_then_load_is_identity.

Theorem symbolic_objects_cannot_be_saved : forall s, bk s = Mat \/ has_symb (amps s) = true -> save s = None.
Proof. exact save_symbolic_fails. Qed.
Print Assumptions symbolic_objects_cannot_be_saved.

(* ---- Dicke states, all n <= 16 and k <= n (certified computation over the generated Gosper step; the bound is in
        the statement): the constructor's index list is exactly the set of basis states of Hamming weight k, without
        repetition, each gets probability 1/count, every other state probability 0, and the probabilities sum to 1 *)
Theorem dicke_support_and_probabilities_upto_16 : forall n k, (1 <= n <= 16)%Z -> (0 <= k <= n)%Z ->
  exists idx, dicke_indices n k = DIdx idx /\
    (forall i, In i idx <-> (0 <= i < 2 ^ n)%Z /\ popcount i = k) /\ NoDup idx /\
    (qsum (dicke_probs n idx) == 1)%Q /\
    (forall i, (0 <= i < 2 ^ n)%Z ->
       nth (Z.to_nat i) (dicke_probs n idx) 0%Q
       = if Z.eqb (popcount i) k then (1 # Pos.of_nat (length idx))%Q else 0%Q).
Proof. exact dicke_bounded_spec. Qed.
Print Assumptions dicke_support_and_probabilities_upto_16.

(* same content as an equation: the list the loop builds is the ascending list of weight-k indices *)
Theorem dicke_indices_upto_16 : forall n k, (1 <= n <= 16)%Z -> (0 <= k <= n)%Z ->
  dicke_indices n k = DIdx (weight_k_indices n k) /\ weight_k_indices n k <> [].
Proof. exact dicke_bounded. Qed.
Print Assumptions dicke_indices_upto_16.

(* for every n: whatever index list comes out, if it is duplicate-free, in range and non-empty the probabilities sum to 1 *)
Theorem dicke_probabilities_sum_to_one : forall n idx, NoDup idx -> (forall i, In i idx -> (0 <= i < 2 ^ n)%Z) ->
  idx <> [] -> (qsum (dicke_probs n idx) == 1)%Q.
Proof. exact dicke_probs_sum. Qed.
Print Assumptions dicke_probabilities_sum_to_one.

Theorem dicke_rejects_exactly : forall n k, dicke_indices n k = DErr <-> (n <= 0 \/ k < 0 \/ n < k)%Z.
Proof. exact dicke_rejects. Qed.
Print Assumptions dicke_rejects_exactly.

(* ---- the Gosper step (generated from the source), for EVERY positive input: closed form on the block decomposition,
        and: the result is larger, has the same number of ones, and nothing strictly in between has *)
Theorem gosper_step_closed_form : forall A c j, (0 <= A)%Z -> (1 <= c)%Z -> (0 <= j)%Z ->
  get_next_number_with_same_hamming_weight (A * 2 ^ (j + c + 1) + (2 ^ c - 1) * 2 ^ j)%Z
  = (A * 2 ^ (j + c + 1) + 2 ^ (j + c) + (2 ^ (c - 1) - 1))%Z.
Proof. exact gosper_closed_form. Qed.
Print Assumptions gosper_step_closed_form.

Theorem gosper_step_is_next_with_same_weight : forall v, (0 < v)%Z ->
  let w := get_next_number_with_same_hamming_weight v in
  (v < w)%Z /\ popcount w = popcount v /\ (forall u, (v < u < w)%Z -> popcount u <> popcount v).
Proof. exact gosper_next_spec. Qed.
Print Assumptions gosper_step_is_next_with_same_weight.

(* ---- Dicke states for EVERY number of qubits and every admissible weight (no bound): the loop terminates within its
        fuel, its index list is strictly increasing and contains exactly the basis states of Hamming weight k; each of
        them gets probability 1/count, every other state 0, and the probabilities sum to 1 *)
Theorem dicke_support_and_probabilities : forall n k, (1 <= n)%Z -> (0 <= k <= n)%Z ->
  exists idx, dicke_indices n k = DIdx idx /\
    (forall i, In i idx <-> (0 <= i < 2 ^ n)%Z /\ popcount i = k) /\ StronglySorted Z.lt idx /\ NoDup idx /\
    (qsum (dicke_probs n idx) == 1)%Q /\
    (forall i, (0 <= i < 2 ^ n)%Z ->
       nth (Z.to_nat i) (dicke_probs n idx) 0%Q
       = if Z.eqb (popcount i) k then (1 # Pos.of_nat (length idx))%Q else 0%Q).
Proof. exact dicke_all_spec. Qed.
Print Assumptions dicke_support_and_probabilities.

Example dicke_premises_met : dicke_indices 4 2 = DIdx [3; 5; 6; 9; 10; 12]%Z /\ map popcount [3; 5; 6; 9; 10; 12]%Z = [2; 2; 2; 2; 2; 2]%Z.
Proof. split; vm_compute; reflexivity. Qed.

Example save_load_premises_met :
  let s := (NpFlat, [Num (1#2) 0; Num 0 (1#2); Num (-1#2) 0; Num 0 (-1#2)]) in
  create np_tol false (amps s) = Some s /\
  save s = Some (false, [1#2; 0; -1#2; 0]%Q, [0; 1#2; 0; -1#2]%Q) /\
  load np_tol (false, [1#2; 0; -1#2; 0]%Q, [0; 1#2; 0; -1#2]%Q) = Some s.
Proof. repeat split; vm_compute; reflexivity. Qed.
