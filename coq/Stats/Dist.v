(* Model of MeasurementOutcomeDistribution (property C17):
   distributions/_measurement_outcome_distribution.py.
   Keys are tuples of naturals, weights are rationals (floats idealised), a dictionary is an
   association list in insertion order.  Errors are values.  Negative tuple entries and keys that are
   neither str nor tuple are outside the model. *)
Require Import Coq.ZArith.ZArith Coq.QArith.QArith Coq.QArith.Qabs Coq.QArith.Qminmax.
Require Import Coq.Lists.List Coq.Strings.String Coq.Strings.Ascii Coq.Bool.Bool.
Require Import Coq.Init.Decimal Coq.Numbers.DecimalString Coq.Numbers.DecimalNat.
Import ListNotations.
Open Scope Q_scope.

Inductive err := RuntimeErr | ValueErr | IndexErr.
Inductive res (A : Type) := Ok (a : A) | Err (e : err).
Arguments Ok {A} a.
Arguments Err {A} e.

Definition key := list nat.
Definition dist := list (key * Q).

Fixpoint key_eqb (a b : key) : bool :=
  match a, b with
  | [], [] => true
  | x :: a', y :: b' => Nat.eqb x y && key_eqb a' b'
  | _, _ => false
  end.

(* dict.get / dict.__setitem__ (an existing key keeps its position) *)
Fixpoint dget (k : key) (d : dist) : option Q :=
  match d with
  | [] => None
  | (k', v) :: r => if key_eqb k k' then Some v else dget k r
  end.
Definition getd (k : key) (d : dist) : Q := match dget k d with Some v => v | None => 0 end.
Fixpoint dset (k : key) (v : Q) (d : dist) : dist :=
  match d with
  | [] => [(k, v)]
  | (k', v') :: r => if key_eqb k k' then (k', v) :: r else (k', v') :: dset k v r
  end.

Fixpoint qsum (l : list Q) : Q := match l with [] => 0 | x :: r => x + qsum r end.
Definition mass (d : dist) : Q := qsum (map snd d).

(* is_normalized: math.isclose(sum, 1)  (rel_tol 1e-9, abs_tol 0) *)
Definition rel_tol : Q := 1 # 1000000000.
(* CPython: diff <= |rel_tol * b| or diff <= |rel_tol * a| or diff <= abs_tol, with b = 1 and abs_tol = 0 *)
Definition close1 (s : Q) : bool :=
  Qle_bool (Qabs (s - 1)) rel_tol || Qle_bool (Qabs (s - 1)) (rel_tol * Qabs s).

(* is_measurement_outcome_distribution: not empty, values >= 0, every key as long as the first *)
Definition valid (d : dist) : bool :=
  match d with
  | [] => false
  | (k0, _) :: _ =>
      forallb (fun kv => Qle_bool 0 (snd kv)) d &&
      forallb (fun kv => Nat.eqb (List.length (fst kv)) (List.length k0)) d
  end.

Definition scale (c : Q) (d : dist) : dist := map (fun kv => (fst kv, snd kv * c)) d.

(* sys.float_info.min, the smallest positive normal double 2^-1022, and the test 0 < s < sys.float_info.min *)
Definition float_min : Q := 1 # (2 ^ 1022).
Definition tiny (s : Q) : bool := negb (Qle_bool s 0) && negb (Qle_bool float_min s).

(* normalize_measurement_outcome_distribution *)
Definition normalize_dict (d : dist) : res dist :=
  let norm := mass d in
  if Qeq_bool norm 0 then Err ValueErr
  else if tiny norm then Err ValueErr                 (* "too small values" *)
  else if Qeq_bool norm 1 then Ok d
  else Ok (scale (1 / norm) d).

(* MeasurementOutcomeDistribution.__init__ on an already preprocessed dictionary *)
Definition make (d : dist) (normalize : bool) : res dist :=
  if negb (valid d) then Err RuntimeErr
  else if close1 (mass d) then Ok d
  else if normalize then normalize_dict d
  else Ok d.                                       (* warning only *)

(* ---- string keys: preprocess_distibution_dict *)
Definition show_nat (n : nat) : string := NilEmpty.string_of_uint (Nat.to_uint n).
Definition read_nat (s : string) : option nat :=            (* int(s) on digit strings; None = ValueError *)
  match s with
  | EmptyString => None
  | _ => option_map Nat.of_uint (NilEmpty.uint_of_string s)
  end.
Definition is_comma (c : ascii) : bool := Ascii.eqb c ","%char.
Fixpoint has_comma (s : string) : bool :=
  match s with EmptyString => false | String c r => is_comma c || has_comma r end.
Fixpoint split (s : string) : list string :=                 (* s.split(",") *)
  match s with
  | EmptyString => [EmptyString]
  | String c r =>
      if is_comma c then EmptyString :: split r
      else match split r with
           | [] => [String c EmptyString]
           | f :: fs => String c f :: fs
           end
  end.
Fixpoint chars (s : string) : list string :=
  match s with EmptyString => [] | String c r => String c EmptyString :: chars r end.
Fixpoint all_some {A} (l : list (option A)) : option (list A) :=
  match l with
  | [] => Some []
  | None :: _ => None
  | Some x :: r => match all_some r with Some xs => Some (x :: xs) | None => None end
  end.
(* tuple(map(int, key if "," not in key else key.split(","))) *)
Definition key_read (s : string) : option key :=
  all_some (map read_nat (if has_comma s then split s else chars s)).

Inductive rawkey := KStr (s : string) | KTup (k : key).
Definition raw := list (rawkey * Q).
Definition rawkey_read (k : rawkey) : option key :=
  match k with KTup k => Some k | KStr s => key_read s end.
Definition pre_step (acc : res dist) (kv : rawkey * Q) : res dist :=
  match acc with
  | Err e => Err e
  | Ok d => match rawkey_read (fst kv) with
            | Some k => Ok (dset k (snd kv) d)
            | None => Err ValueErr
            end
  end.
Definition preprocess (r : raw) : res dist := fold_left pre_step r (Ok []).
Definition make_raw (r : raw) (normalize : bool) : res dist :=
  match preprocess r with Err e => Err e | Ok d => make d normalize end.

(* ---- subdistribution: returns the new object AND the source dictionary afterwards *)
Definition proj (qs : list nat) (k : key) : key := map (fun i => nth i k 0%nat) qs.
Definition marg_counts (qs : list nat) (d : dist) : dist :=
  fold_left (fun acc kv => let nk := proj qs (fst kv) in dset nk (snd kv + getd nk acc) acc) d [].
Definition nsub (d : dist) : nat := match d with [] => 0%nat | (k, _) :: _ => List.length k end.
Fixpoint has_dup (l : list nat) : bool :=
  match l with [] => false | x :: r => existsb (Nat.eqb x) r || has_dup r end.
Definition subdistribution (qs : list nat) (d : dist) : res dist * dist :=
  match qs with
  | [] => (Err ValueErr, d)                                   (* max() of an empty sequence *)
  | q0 :: qr =>
      match d with
      | [] => (Err IndexErr, d)
      | _ =>
          if Nat.ltb (nsub d) (fold_left Nat.max qr q0 + 1) then (Err ValueErr, d)
          else if has_dup qs then (Err ValueErr, d)
          else (make (marg_counts qs d) (close1 (mass d)), d)
      end
  end.

(* ---- save / load: change_tuple_dict_keys_to_comma_separated_integers, then __init__ on string keys *)
Fixpoint join (l : list string) : string :=
  match l with
  | [] => EmptyString
  | x :: r => match r with [] => x | _ => x ++ String ","%char (join r) end
  end.
Definition key_show (k : key) : string := join (map show_nat k).
Definition save (d : dist) : raw := map (fun kv => (KStr (key_show (fst kv)), snd kv)) d.
Definition load (r : raw) : res dist := make_raw r true.
