(* Hand-written support for the GENERATED file Gen/DistributionsGen.v (translator tr/tr_distributions.py,
   property C17).

   The translator maps every Python construct of the measurement-outcome-distribution functions
   (distributions/_measurement_outcome_distribution.py) to a piece of Gallina built from the definitions below;
   what each definition stands for in Python is written next to it.  This file is the trusted reading of the
   Python constructs.  Nothing here mentions the hand-written model Stats/Dist.v; the agreement with it is
   PROVED in Stats/DistGenProofs.v about the generated text.

   Values.
     result A     outcome of evaluating something: a value, or a raised exception
     pynum        the floats: a carrier with the operations the source uses (instantiated by Q: exact)
     pyelt        an element of a tuple key: an int (or numpy integer), or a str
     pykey        a dictionary key: a str, a tuple of elements, or an int (the representative of "neither
                  str nor tuple")
     pydict N     a dict with float values: association list in insertion order, keys pairwise different
                  (every operation below keeps the keys pairwise different)
   Dictionaries are VALUES here.  That this is a sound reading of Python's mutable dicts is the business of the
   translator: it accepts a source only if every dict object is reachable through one live name (see the
   ownership rules in tr/tr_distributions.py). *)
Require Import Coq.ZArith.ZArith Coq.QArith.QArith Coq.QArith.Qabs Coq.Lists.List Coq.Strings.String
        Coq.Strings.Ascii Coq.Bool.Bool.
Require Import Coq.Init.Decimal Coq.Numbers.DecimalString Coq.Numbers.DecimalNat.
Import ListNotations.

(* ------------------------------------------------------------------ exceptions and sequencing *)
Inductive pyexn := RuntimeError | ValueError | IndexError | TypeError | KeyError | ZeroDivisionError.

Inductive result (A : Type) : Type :=
| Ret (a : A)
| Raise (e : pyexn).
Arguments Ret {A}. Arguments Raise {A}.

(* evaluate r, then continue with its value; an exception propagates *)
Definition bind {A B} (r : result A) (f : A -> result B) : result B :=
  match r with Ret a => f a | Raise e => Raise e end.

(* for x in xs: body     (st holds the locals that the body re-binds; xs is the sequence of items that the
   iteration produces, fixed when the loop starts) *)
Fixpoint py_for {A S} (xs : list A) (st : S) (body : A -> S -> result S) : result S :=
  match xs with
  | [] => Ret st
  | x :: r => bind (body x st) (fun st' => py_for r st' body)
  end.

(* [e for x in xs] / tuple(e for x in xs) / map(f, xs) consumed at once, where evaluating e can raise:
   elements are evaluated left to right, the first exception aborts *)
Fixpoint py_map_res {A B} (f : A -> result B) (l : list A) : result (list B) :=
  match l with
  | [] => Ret []
  | a :: r => bind (f a) (fun b => bind (py_map_res f r) (fun bs => Ret (b :: bs)))
  end.

(* all(e for x in xs) where evaluating e can raise: stops at the first false element (later elements are not
   evaluated), an exception before that propagates.  When e cannot raise the translator emits [forallb]. *)
Fixpoint py_all_res {A} (f : A -> result bool) (l : list A) : result bool :=
  match l with
  | [] => Ret true
  | a :: r => bind (f a) (fun b => if b then py_all_res f r else Ret false)
  end.

(* ------------------------------------------------------------------ numbers (the floats, read exactly) *)
Record pynum : Type := mk_pynum {
  num : Type;
  n_int : Z -> num;                  (* an int used where a float is expected *)
  n_lit : Q -> num;                  (* a float literal / constant, read as its exact value *)
  n_add : num -> num -> num;         (* a + b *)
  n_sub : num -> num -> num;         (* a - b *)
  n_mul : num -> num -> num;         (* a * b *)
  n_div : num -> num -> num;         (* a / b for b != 0 *)
  n_abs : num -> num;                (* abs(a) / fabs(a) *)
  n_leb : num -> num -> bool;        (* a <= b *)
  n_ltb : num -> num -> bool;        (* a < b *)
  n_eqb : num -> num -> bool         (* a == b *)
}.

(* exact rationals: how the correspondence cases and Stats/Dist.v read the floats *)
Definition num_Q : pynum :=
  mk_pynum Q inject_Z (fun q => q) Qplus Qminus Qmult Qdiv Qabs Qle_bool
           (fun a b => negb (Qle_bool b a)) Qeq_bool.

(* a / b *)
Definition py_truediv (N : pynum) (a b : num N) : result (num N) :=
  if n_eqb N b (n_int N 0%Z) then Raise ZeroDivisionError else Ret (n_div N a b).

(* sum(xs): 0 + x1 + x2 + ... from the left, starting from the int 0 *)
Definition py_sum (N : pynum) (l : list (num N)) : num N := fold_left (n_add N) l (n_int N 0%Z).

(* math.isclose(a, b) with the default rel_tol=1e-09, abs_tol=0.0 (CPython mathmodule.c, finite arguments):
     a == b  or  diff <= fabs(rel_tol * b)  or  diff <= fabs(rel_tol * a)  or  diff <= abs_tol,  diff = fabs(b - a) *)
Definition py_rel_tol : Q := (1 # 1000000000)%Q.
Definition py_isclose (N : pynum) (a b : num N) : bool :=
  let diff := n_abs N (n_sub N b a) in
  n_eqb N a b
  || n_leb N diff (n_abs N (n_mul N (n_lit N py_rel_tol) b))
  || n_leb N diff (n_abs N (n_mul N (n_lit N py_rel_tol) a))
  || n_leb N diff (n_lit N 0%Q).

(* sys.float_info.min: the smallest positive normal IEEE double, 2^-1022 *)
Definition py_float_min : Q := (1 # (2 ^ 1022))%Q.

(* ------------------------------------------------------------------ integers, sequences *)
(* len(xs) *)
Definition py_len {A} (l : list A) : Z := Z.of_nat (List.length l).

(* xs[z] for a list / tuple: negative indices count from the end, anything else out of range is an IndexError *)
Definition py_index {A} (l : list A) (z : Z) : result A :=
  let n := py_len l in
  let k := if Z.ltb z 0 then Z.add n z else z in
  if Z.ltb k 0 then Raise IndexError
  else match nth_error l (Z.to_nat k) with Some a => Ret a | None => Raise IndexError end.

(* max(xs) on ints: ValueError on an empty argument *)
Definition py_max (l : list Z) : result Z :=
  match l with [] => Raise ValueError | x :: r => Ret (fold_left Z.max r x) end.

(* set(xs) on ints: one representative per value (the translator lets only len() look at a set, so the order
   is irrelevant) *)
Fixpoint py_set (l : list Z) : list Z :=
  match l with
  | [] => []
  | x :: r => if existsb (Z.eqb x) r then py_set r else x :: py_set r
  end.

(* ------------------------------------------------------------------ strings *)
(* iterating over a str: its characters as one-character strs *)
Fixpoint py_str_chars (s : string) : list string :=
  match s with EmptyString => [] | String c r => String c EmptyString :: py_str_chars r end.

(* c in s   for a one-character str c *)
Fixpoint py_str_contains (s : string) (c : ascii) : bool :=
  match s with EmptyString => false | String a r => Ascii.eqb a c || py_str_contains r c end.

(* s.split(c) for a one-character separator c: never empty; "" gives [""] *)
Fixpoint py_split (s : string) (c : ascii) : list string :=
  match s with
  | EmptyString => [EmptyString]
  | String a r =>
      if Ascii.eqb a c then EmptyString :: py_split r c
      else match py_split r c with
           | [] => [String a EmptyString]
           | f :: fs => String a f :: fs
           end
  end.

(* sep.join(xs) *)
Fixpoint py_join (sep : string) (l : list string) : string :=
  match l with
  | [] => EmptyString
  | x :: r => match r with [] => x | _ => (x ++ sep ++ py_join sep r)%string end
  end.

(* int(s) for a str s.  READ ONLY ON STRINGS MADE OF ASCII DIGITS AND COMMAS (what the outcome keys of this
   library consist of): a non-empty digit string is its decimal value, anything else a ValueError.
   Python's int() additionally accepts surrounding whitespace, a sign, underscores between digits and
   non-ASCII digits; such strings are outside this reading. *)
Definition py_int_of_str (s : string) : result Z :=
  match s with
  | EmptyString => Raise ValueError
  | _ => match NilEmpty.uint_of_string s with
         | Some u => Ret (Z.of_nat (Nat.of_uint u))
         | None => Raise ValueError
         end
  end.

(* str(z) for an int z: decimal digits, "-" in front of a negative number *)
Definition py_str_of_nat (n : nat) : string := NilEmpty.string_of_uint (Nat.to_uint n).
Definition py_str_of_int (z : Z) : string :=
  if Z.ltb z 0 then String "-"%char (py_str_of_nat (Z.to_nat (Z.opp z))) else py_str_of_nat (Z.to_nat z).

(* ------------------------------------------------------------------ keys *)
Inductive pyelt := PEInt (z : Z) | PEStr (s : string).
Inductive pykey := PKStr (s : string) | PKTup (t : list pyelt) | PKInt (z : Z).

(* a == b on these values (an int never equals a str, a tuple equals a tuple of the same length with equal
   elements); dict lookup is by hash and ==, i.e. by == *)
Definition pyelt_eqb (a b : pyelt) : bool :=
  match a, b with
  | PEInt x, PEInt y => Z.eqb x y
  | PEStr x, PEStr y => String.eqb x y
  | _, _ => false
  end.
Fixpoint pytup_eqb (a b : list pyelt) : bool :=
  match a, b with
  | [], [] => true
  | x :: a', y :: b' => pyelt_eqb x y && pytup_eqb a' b'
  | _, _ => false
  end.
Definition pykey_eqb (a b : pykey) : bool :=
  match a, b with
  | PKStr x, PKStr y => String.eqb x y
  | PKTup x, PKTup y => pytup_eqb x y
  | PKInt x, PKInt y => Z.eqb x y
  | _, _ => false
  end.

(* tuple(xs) for a sequence of ints, used as a key *)
Definition py_tuple_of_ints (l : list Z) : list pyelt := map PEInt l.

(* len(k) for a key: characters of a str, elements of a tuple, TypeError for an int *)
Definition py_len_key (k : pykey) : result Z :=
  match k with
  | PKStr s => Ret (py_len (py_str_chars s))
  | PKTup t => Ret (py_len t)
  | PKInt _ => Raise TypeError
  end.

(* for sub in k: the characters of a str, the elements of a tuple, TypeError for an int *)
Definition py_iter_key (k : pykey) : result (list pyelt) :=
  match k with
  | PKStr s => Ret (map PEStr (py_str_chars s))
  | PKTup t => Ret t
  | PKInt _ => Raise TypeError
  end.

(* k[i] for a key *)
Definition py_key_index (k : pykey) (i : Z) : result pyelt :=
  match k with
  | PKStr s => py_index (map PEStr (py_str_chars s)) i
  | PKTup t => py_index t i
  | PKInt _ => Raise TypeError
  end.

(* str(sub) for a tuple element *)
Definition py_str_of_elt (e : pyelt) : string :=
  match e with PEInt z => py_str_of_int z | PEStr s => s end.

(* ------------------------------------------------------------------ dictionaries *)
Definition pydict (N : pynum) : Type := list (pykey * num N).

(* {} *)
Definition py_dict_empty (N : pynum) : pydict N := [].
(* d == {} *)
Definition py_dict_is_empty {N} (d : pydict N) : bool := match d with [] => true | _ => false end.
(* d.items(), d.keys() (also: iterating over d), d.values(): insertion order *)
Definition py_items {N} (d : pydict N) : list (pykey * num N) := d.
Definition py_keys {N} (d : pydict N) : list pykey := map fst d.
Definition py_values {N} (d : pydict N) : list (num N) := map snd d.

(* d[k] = v: a present key keeps its position (and the key object first inserted), a new key is appended *)
Fixpoint py_dict_set {N} (d : pydict N) (k : pykey) (v : num N) : pydict N :=
  match d with
  | [] => [(k, v)]
  | (k1, v1) :: r => if pykey_eqb k1 k then (k1, v) :: r else (k1, v1) :: py_dict_set r k v
  end.

Fixpoint py_dict_lookup {N} (d : pydict N) (k : pykey) : option (num N) :=
  match d with
  | [] => None
  | (k1, v1) :: r => if pykey_eqb k1 k then Some v1 else py_dict_lookup r k
  end.
(* d[k] *)
Definition py_dict_getitem {N} (d : pydict N) (k : pykey) : result (num N) :=
  match py_dict_lookup d k with Some v => Ret v | None => Raise KeyError end.
(* d.get(k, default) *)
Definition py_dict_get {N} (d : pydict N) (k : pykey) (dflt : num N) : num N :=
  match py_dict_lookup d k with Some v => v | None => dflt end.
