(* Hand-written support for the GENERATED file Gen/EstimationGen.v (translator tr/tr_estimation.py, property C15).

   The translator maps every Python construct of the functions of estimation/_estimation.py to a piece of Gallina
   built from the definitions below; what each definition stands for in Python is written next to it.  This file
   is the trusted reading of the Python constructs.  It mentions nothing of the hand-written model
   Stats/Estimation.v; the agreement with that model is PROVED in Stats/EstimationGenProofs.v about the generated
   text, on every run.

   Values.
     pyres A        outcome of evaluating something: a value, or a raised exception
     Z               a Python int;  option T : an Optional[T] (None / a value);  bool : a Python bool
     list T          a list, a tuple used as a sequence, or any other finite iterable: its elements in iteration order
     A * B, A * B * C   a tuple of fixed length
     pynum           the numbers the functions compute with (coefficients, expectation values)
     py_task         an EstimationTask;  py_ev : an ExpectationValues object
     pyworld         everything the functions only use through attributes and method calls: operators, terms,
                     circuits, symbol maps, runners, simulators, measurements.  The generated definitions take a
                     pyworld as their first argument, i.e. they are stated for every behaviour of those objects.
   Lists that the source mutates in place (x.append(e), x[i] = e) are read as values: the translator accepts such a
   mutation only on a local that was bound to a freshly built list and that is never copied to another name, stored
   in another object or handed to a call, so that no second reference to the mutated list can exist. *)
Require Import Coq.ZArith.ZArith Coq.QArith.QArith Coq.Lists.List Coq.Bool.Bool.
Import ListNotations.

(* ------------------------------------------------------------------ exceptions and sequencing *)
Inductive pyexn := ValueError | TypeError | IndexError | RuntimeError | UnboundLocalError.

Inductive pyres (A : Type) : Type :=
| Val (a : A)
| Raise (e : pyexn).
Arguments Val {A}. Arguments Raise {A}.

(* evaluate r, then continue with its value; an exception propagates *)
Definition bind {A B} (r : pyres A) (f : A -> pyres B) : pyres B :=
  match r with Val a => f a | Raise e => Raise e end.

(* for x in xs: body      (the state st holds the locals the body assigns or mutates) *)
Fixpoint py_for {A S} (xs : list A) (st : S) (body : A -> S -> pyres S) : pyres S :=
  match xs with
  | [] => Val st
  | x :: r => bind (body x st) (fun st' => py_for r st' body)
  end.

(* for a, b in xs: body   - unpacking of a two-element tuple target *)
Definition py_unpack2 {A B C} (f : A -> B -> C) (p : A * B) : C := f (fst p) (snd p).

(* reading a local that is only assigned inside a loop or a branch: UnboundLocalError when it has no value yet *)
Definition py_local {A} (o : option A) : pyres A :=
  match o with Some a => Val a | None => Raise UnboundLocalError end.

(* [elt for x in xs] where evaluating elt can raise: elements are evaluated left to right, the first exception
   aborts the comprehension *)
Fixpoint py_comp {A B} (f : A -> pyres B) (l : list A) : pyres (list B) :=
  match l with
  | [] => Val []
  | a :: r => bind (f a) (fun b => bind (py_comp f r) (fun bs => Val (b :: bs)))
  end.

(* ------------------------------------------------------------------ integers, Optional[int], lists *)
(* len(xs) *)
Definition py_len {A} (l : list A) : Z := Z.of_nat (List.length l).

(* enumerate(xs): (0, x0), (1, x1), ... *)
Fixpoint py_enumerate_from {A} (k : Z) (l : list A) : list (Z * A) :=
  match l with
  | [] => []
  | x :: r => (k, x) :: py_enumerate_from (k + 1) r
  end.
Definition py_enumerate {A} (l : list A) : list (Z * A) := py_enumerate_from 0 l.

(* range(n): 0 .. n-1, empty for n <= 0 *)
Definition py_range (n : Z) : list Z := map Z.of_nat (seq 0 (Z.to_nat n)).

(* zip(xs, ys): pairs, stops at the shorter one *)
Definition py_zip {A B} (l : list A) (r : list B) : list (A * B) := combine l r.

(* not xs: a list (or tuple) is false iff it is empty *)
Definition py_not_list {A} (l : list A) : bool := match l with [] => true | _ => false end.

(* xs.append(x): the same elements followed by x *)
Definition py_append {A} (l : list A) (x : A) : list A := l ++ [x].

Fixpoint py_set_nth {A} (i : nat) (x : A) (l : list A) : list A :=
  match l, i with
  | [], _ => []
  | _ :: r, O => x :: r
  | y :: r, S j => y :: py_set_nth j x r
  end.
(* xs[z] = x on a list: a negative index counts from the end; an index outside -len .. len-1 is an IndexError *)
Definition py_setitem {A} (l : list A) (z : Z) (x : A) : pyres (list A) :=
  let n := py_len l in
  let k := if Z.ltb z 0 then Z.add n z else z in
  if Z.ltb k 0 || Z.leb n k then Raise IndexError else Val (py_set_nth (Z.to_nat k) x l).

(* a, b, c = zip( *rows ) with rows a list of triples: zip of no argument yields nothing, so unpacking into three
   names fails (ValueError) when rows is empty; otherwise the three columns *)
Definition py_unzip3 {A B C} (rows : list (A * B * C)) : pyres (list A * list B * list C) :=
  match rows with
  | [] => Raise ValueError
  | _ => Val (map (fun r => fst (fst r)) rows, map (fun r => snd (fst r)) rows, map (fun r => snd r) rows)
  end.
(* a, b = zip( *rows ) with rows a list of pairs *)
Definition py_unzip2 {A B} (rows : list (A * B)) : pyres (list A * list B) :=
  match rows with
  | [] => Raise ValueError
  | _ => Val (map fst rows, map snd rows)
  end.

(* o == z for o an Optional[int] and z an int: None == z is False *)
Definition py_optint_eqb (o : option Z) (z : Z) : bool :=
  match o with Some n => Z.eqb n z | None => false end.
(* o != z *)
Definition py_optint_neb (o : option Z) (z : Z) : bool := negb (py_optint_eqb o z).
(* o > z, o >= z, o < z, o <= z for o an Optional[int]: comparing None with an int is a TypeError *)
Definition py_optint_cmp (cmp : Z -> Z -> bool) (o : option Z) (z : Z) : pyres bool :=
  match o with Some n => Val (cmp n z) | None => Raise TypeError end.
Definition py_optint_gt := py_optint_cmp Z.gtb.
Definition py_optint_ge := py_optint_cmp Z.geb.
Definition py_optint_lt := py_optint_cmp Z.ltb.
Definition py_optint_le := py_optint_cmp Z.leb.
(* o is None / o is not None *)
Definition py_is_none {A} (o : option A) : bool := match o with None => true | Some _ => false end.
Definition py_is_not_none {A} (o : option A) : bool := negb (py_is_none o).

(* ------------------------------------------------------------------ numbers *)
Record pynum : Type := mk_pynum {
  num : Type;
  n_int : Z -> num;                  (* an int used where a number is expected *)
  n_lit : Q -> num;                  (* a float literal, read as its decimal value *)
  n_add : num -> num -> num          (* a + b *)
}.

(* sum(xs): 0 + x1 + x2 + ... from the left, starting from the int 0 *)
Definition py_sum (N : pynum) (l : list (num N)) : num N := fold_left (n_add N) l (n_int N 0%Z).

(* np.asarray(nested list of numbers): the array with these entries, written as the nested list itself *)
Definition np_asarray {A} (x : A) : A := x.

(* ------------------------------------------------------------------ the two data classes *)
(* EstimationTask(operator, circuit, number_of_shots): a frozen dataclass; the constructor stores its three
   arguments and the attributes of the same names return them *)
Record py_task (Op Circ : Type) : Type := mk_py_task {
  t_operator : Op;
  t_circuit : Circ;
  t_number_of_shots : option Z
}.
Arguments mk_py_task {Op Circ}. Arguments t_operator {Op Circ}. Arguments t_circuit {Op Circ}.
Arguments t_number_of_shots {Op Circ}.

(* ExpectationValues(values, correlations=None, estimator_covariances=None): the constructor stores its arguments;
   values is a 1-d array, the other two are None or a list of 2-d arrays *)
Record py_ev (T : Type) : Type := mk_py_ev {
  e_values : list T;
  e_correlations : option (list (list (list T)));
  e_estimator_covariances : option (list (list (list T)))
}.
Arguments mk_py_ev {T}. Arguments e_values {T}. Arguments e_correlations {T}. Arguments e_estimator_covariances {T}.

(* ------------------------------------------------------------------ the objects that stay abstract *)
Record pyworld : Type := mk_pyworld {
  w_N : pynum;
  w_op : Type;                       (* PauliSum / PauliTerm objects *)
  w_term : Type;                     (* PauliTerm objects, as elements of operator.terms *)
  w_circ : Type;                     (* Circuit objects *)
  w_symmap : Type;                   (* dictionaries symbol -> value *)
  w_meas : Type;                     (* Measurements objects *)
  w_runner : Type;                   (* CircuitRunner objects *)
  w_sim : Type;                      (* WavefunctionSimulator objects *)
  w_is_constant : w_op -> bool;                                   (* operator.is_constant (a property; a bool) *)
  w_terms : w_op -> list w_term;                                  (* operator.terms *)
  w_coefficient : w_term -> num w_N;                              (* term.coefficient *)
  w_bind : w_circ -> w_symmap -> w_circ;                          (* circuit.bind(symbols_map) *)
  w_run_batch_and_measure :                                       (* runner.run_batch_and_measure(circuits, shots) *)
    w_runner -> list w_circ -> list (option Z) -> pyres (list w_meas);
  w_get_expectation_values :                                      (* measurements.get_expectation_values(operator) *)
    w_meas -> w_op -> pyres (py_ev (num w_N));
  w_expectation_values_to_real : py_ev (num w_N) -> py_ev (num w_N);   (* expectation_values_to_real(ev) *)
  w_get_exact_expectation_values :                                (* simulator.get_exact_expectation_values(circuit, operator) *)
    w_sim -> w_circ -> w_op -> pyres (num w_N)
}.
