(* Proofs about the representation of a distribution by shots (C13, last clause). *)
Require Import Coq.ZArith.ZArith Coq.Lists.List Coq.Bool.Bool Coq.Arith.Arith Coq.micromega.Lia.
Require Import OQ.Stats.Shots OQ.Stats.ShotsProofs OQ.Stats.Represent.
Import ListNotations.
Open Scope Z_scope.

Definition ckeys (c : counter) : list nat := map fst c.
Definition cnonneg (c : counter) : Prop := Forall (fun kv => 0 <= snd kv) c.

Lemma cget_notin k c : ~ In k (ckeys c) -> cget k c = 0.
Proof.
  induction c as [|[k' v] r IH]; intro H; cbn [cget]; [reflexivity|].
  destruct (Nat.eqb_spec k k') as [->|Hne]; [exfalso; apply H; left; reflexivity|].
  apply IH. intro Hin. apply H. right. exact Hin.
Qed.

Lemma cset_keys k v c : ckeys (cset k v c) = if existsb (Nat.eqb k) (ckeys c) then ckeys c else ckeys c ++ [k].
Proof.
  unfold ckeys. induction c as [|[k' v'] r IH]; cbn [cset map existsb fst]; [reflexivity|].
  destruct (Nat.eqb_spec k k') as [->|Hne]; cbn [map fst orb]; [reflexivity|].
  rewrite IH. destruct (existsb (Nat.eqb k) (map fst r)); reflexivity.
Qed.

Lemma existsb_eqb_in k l : existsb (Nat.eqb k) l = true <-> In k l.
Proof.
  rewrite existsb_exists. split.
  - intros [x [Hx E]]. apply Nat.eqb_eq in E. subst. exact Hx.
  - intro H. exists k. split; [exact H|apply Nat.eqb_refl].
Qed.

Lemma nodup_snoc {A} (l : list A) x : NoDup l -> ~ In x l -> NoDup (l ++ [x]).
Proof.
  induction l as [|a l IH]; intros H Hx; cbn [app]; [constructor; [intros []|constructor]|].
  inversion H as [|? ? Ha Hl]; subst. constructor.
  - intro Hin. apply in_app_or in Hin. destruct Hin as [Hin|[E|[]]]; [contradiction|]. subst. apply Hx. left. reflexivity.
  - apply IH; [exact Hl|]. intro Hin. apply Hx. right. exact Hin.
Qed.

Lemma cset_nodup k v c : NoDup (ckeys c) -> NoDup (ckeys (cset k v c)).
Proof.
  intro H. rewrite cset_keys. destruct (existsb (Nat.eqb k) (ckeys c)) eqn:E; [exact H|].
  apply nodup_snoc; [exact H|]. intro Hin. apply existsb_eqb_in in Hin. congruence.
Qed.

Lemma cget_cset k k' v c : cget k (cset k' v c) = if Nat.eqb k k' then v else cget k c.
Proof.
  induction c as [|[k2 v2] r IH]; cbn [cset cget].
  - destruct (Nat.eqb k k'); reflexivity.
  - destruct (Nat.eqb_spec k' k2) as [->|Hne]; cbn [cget].
    + destruct (Nat.eqb k k2); reflexivity.
    + destruct (Nat.eqb_spec k k2) as [->|Hne2].
      * destruct (Nat.eqb_spec k2 k'); [congruence|reflexivity].
      * exact IH.
Qed.

Lemma ctotal_cset k v c : NoDup (ckeys c) -> ctotal (cset k v c) = ctotal c - cget k c + v.
Proof.
  unfold ctotal. induction c as [|[k' v'] r IH]; intro H; cbn [cset cget map zsum fold_right snd]; [lia|].
  inversion H as [|? ? Hk Hr]; subst.
  destruct (Nat.eqb_spec k k') as [->|Hne]; cbn [map zsum fold_right snd]; [lia|].
  fold (zsum (map snd (cset k v r))). fold (zsum (map snd r)). rewrite IH by exact Hr. lia.
Qed.

Lemma cnonneg_cset k v c : 0 <= v -> cnonneg c -> cnonneg (cset k v c).
Proof.
  intros Hv H. induction H as [|[k' v'] r Hkv Hr IH]; cbn [cset]; [repeat constructor; exact Hv|].
  destruct (Nat.eqb k k'); constructor; cbn [snd] in *; assumption.
Qed.

Definition cfilt (k : nat) (b : counter) : Z := zsum (map snd (filter (fun kv => Nat.eqb k (fst kv)) b)).
Lemma cfilt_nil k : cfilt k [] = 0.
Proof. reflexivity. Qed.
Lemma cfilt_cons k0 k v b : cfilt k0 ((k, v) :: b) = (if Nat.eqb k0 k then v else 0) + cfilt k0 b.
Proof. unfold cfilt. cbn [filter fst]. destruct (Nat.eqb k0 k); [reflexivity|symmetry; apply Z.add_0_l]. Qed.

Lemma zsum_cons x l : zsum (x :: l) = x + zsum l.
Proof. reflexivity. Qed.

Lemma ctotal_cons k v c : ctotal ((k, v) :: c) = v + ctotal c.
Proof. reflexivity. Qed.

Lemma cget_nonneg k c : cnonneg c -> 0 <= cget k c.
Proof.
  induction 1 as [|[k' v'] r H Hr IH]; cbn [cget]; [lia|]. cbn [snd] in H. destruct (Nat.eqb k k'); assumption.
Qed.

(* merging a counter in: totals add, keys stay distinct, values stay non-negative *)
Lemma merge_props (b : counter) : forall a, NoDup (ckeys a) -> cnonneg a -> cnonneg b ->
  let m := fold_left (fun acc kv => cset (fst kv) (cget (fst kv) acc + snd kv) acc) b a in
  NoDup (ckeys m) /\ cnonneg m /\ ctotal m = ctotal a + ctotal b /\
  (forall k, cget k m = cget k a + cfilt k b).
Proof.
  induction b as [|[k v] b IH]; intros a Hnd Hna Hnb; cbn [fold_left].
  - split; [exact Hnd|]. split; [exact Hna|]. split; [unfold ctotal; cbn; lia|]. intro k. rewrite cfilt_nil. lia.
  - inversion Hnb as [|? ? Hv Hb]; subst. cbn [fst snd] in *.
    pose proof (cget_nonneg k a Hna) as Hga.
    assert (Hv' : 0 <= v) by exact Hv.
    assert (Hsum : 0 <= cget k a + v) by lia.
    specialize (IH (cset k (cget k a + v) a) (cset_nodup _ _ _ Hnd) (cnonneg_cset _ _ _ Hsum Hna) Hb).
    cbv zeta in IH. destruct IH as (H1 & H2 & H3 & H4). split; [exact H1|]. split; [exact H2|]. split.
    + rewrite H3, ctotal_cset, ctotal_cons by exact Hnd. lia.
    + intro k0. rewrite H4, cget_cset, cfilt_cons. destruct (Nat.eqb_spec k0 k) as [->|Hne]; lia.
Qed.

Lemma ctotal_filter_pos c : cnonneg c -> ctotal (filter (fun kv => 0 <? snd kv) c) = ctotal c.
Proof.
  unfold ctotal. induction 1 as [|[k v] r Hv Hr IH]; cbn [filter map zsum fold_right snd]; [reflexivity|].
  cbn [snd] in Hv. destruct (Z.ltb_spec 0 v); cbn [map zsum fold_right snd]; fold (zsum (map snd r)) in *;
    fold (zsum (map snd (filter (fun kv => 0 <? snd kv) r))) in *; lia.
Qed.

Lemma filter_keys_nodup (f : nat * Z -> bool) c : NoDup (ckeys c) -> NoDup (ckeys (filter f c)).
Proof.
  induction c as [|[k v] r IH]; intro H; cbn [filter ckeys map]; [constructor|].
  inversion H as [|? ? Hk Hr]; subst. destruct (f (k, v)); cbn [map fst]; [|apply IH; exact Hr].
  constructor; [|apply IH; exact Hr]. intro Hin. apply Hk. unfold ckeys in *. apply in_map_iff in Hin.
  destruct Hin as [[k' v'] [E Hin]]. cbn in E. subst k'. apply filter_In in Hin. apply in_map_iff. exists (k, v'). split; [reflexivity|apply Hin].
Qed.

Lemma cget_filter_pos k c : NoDup (ckeys c) -> cnonneg c -> cget k (filter (fun kv => 0 <? snd kv) c) = cget k c.
Proof.
  induction c as [|[k' v] r IH]; intros Hnd Hnn; cbn [filter cget]; [reflexivity|].
  inversion Hnd as [|? ? Hk Hr]; subst. inversion Hnn as [|? ? Hv Hn]; subst. cbn [snd] in *.
  destruct (Z.ltb_spec 0 v); cbn [cget]; destruct (Nat.eqb_spec k k') as [->|Hne]; try (apply IH; assumption); try reflexivity.
  rewrite IH by assumption. rewrite cget_notin by exact Hk. lia.
Qed.

Lemma cadd_props a b : NoDup (ckeys a) -> cnonneg a -> cnonneg b ->
  NoDup (ckeys (cadd a b)) /\ cnonneg (cadd a b) /\ ctotal (cadd a b) = ctotal a + ctotal b /\
  (forall k, cget k (cadd a b) = cget k a + cfilt k b).
Proof.
  intros Hnd Hna Hnb. destruct (merge_props b a Hnd Hna Hnb) as (H1 & H2 & H3 & H4). unfold cadd.
  repeat split.
  - apply filter_keys_nodup. exact H1.
  - apply Forall_forall. intros kv Hin. apply filter_In in Hin. destruct Hin as [_ Hp]. apply Z.ltb_lt in Hp. lia.
  - rewrite ctotal_filter_pos by exact H2. exact H3.
  - intro k. rewrite cget_filter_pos by assumption. apply H4.
Qed.

Lemma first_offender_none counts c : first_offender counts c = None -> forall k v, In (k, v) c -> v <= counts k.
Proof.
  induction c as [|[k' v'] r IH]; intros H k v Hin; [destruct Hin|]. cbn [first_offender] in H.
  destruct (Z.ltb_spec (counts k') v'); [discriminate|]. destruct Hin as [E|Hin]; [inversion E; subst; assumption|].
  apply IH; assumption.
Qed.

Lemma first_offender_some counts c k v : first_offender counts c = Some (k, v) -> In (k, v) c /\ counts k < v.
Proof.
  induction c as [|[k' v'] r IH]; intro H; [discriminate|]. cbn [first_offender] in H.
  destruct (Z.ltb_spec (counts k') v').
  - inversion H; subst. split; [left; reflexivity|assumption].
  - destruct (IH H) as [H1 H2]. split; [right; exact H1|exact H2].
Qed.

Lemma cget_in k v c : NoDup (ckeys c) -> In (k, v) c -> cget k c = v.
Proof.
  induction c as [|[k' v'] r IH]; intros Hnd Hin; [destruct Hin|]. inversion Hnd as [|? ? Hk Hr]; subst.
  cbn [cget]. destruct Hin as [E|Hin].
  - inversion E; subst. rewrite Nat.eqb_refl. reflexivity.
  - destruct (Nat.eqb_spec k k') as [->|Hne]; [|apply IH; assumption].
    exfalso. apply Hk. apply in_map_iff. exists (k', v). split; [reflexivity|exact Hin].
Qed.

(* the recorded draws fit the run: each resampling returned exactly the number of shots it was asked for *)
Fixpoint draws_fit (fuel : nat) (counts : nat -> Z) (correct : counter) (draws : list counter) : Prop :=
  match first_offender counts correct with
  | None => True
  | Some (k, v) =>
    match fuel, draws with
    | S f, d :: ds => ctotal d = v - counts k /\ cnonneg d /\ draws_fit f counts (cadd (cset k (counts k) correct) d) ds
    | _, _ => False
    end
  end.

(* the eliminated shots are exactly as many as asked, and never more of an outcome than is present *)
Lemma eliminate_spec fuel : forall counts correct draws e,
  (forall k, 0 <= counts k) -> NoDup (ckeys correct) -> cnonneg correct ->
  draws_fit fuel counts correct draws -> eliminate fuel counts correct draws = Some e ->
  ctotal e = ctotal correct /\ NoDup (ckeys e) /\ cnonneg e /\ (forall k, 0 <= cget k e <= counts k).
Proof.
  induction fuel as [|f IH]; intros counts correct draws e Hc Hnd Hnn Hfit Hel; cbn [eliminate draws_fit] in *;
    destruct (first_offender counts correct) as [[k v]|] eqn:Eo.
  - destruct Hfit.
  - inversion Hel; subst e. repeat split; try assumption; try reflexivity.
    + apply cget_nonneg. exact Hnn.
    + destruct (in_dec Nat.eq_dec k (ckeys correct)) as [Hin|Hn]; [|rewrite cget_notin by exact Hn; apply Hc].
      apply in_map_iff in Hin. destruct Hin as [[k' v'] [E Hin]]. cbn in E. subst k'.
      rewrite (cget_in k v' correct Hnd Hin). eapply first_offender_none; eassumption.
  - destruct draws as [|d ds]; [destruct Hfit|]. destruct Hfit as (Ht & Hdn & Hfit).
    destruct (first_offender_some _ _ _ _ Eo) as [Hin Hlt].
    pose proof (cset_nodup k (counts k) correct Hnd) as Hnd'.
    pose proof (cnonneg_cset k (counts k) correct (Hc k) Hnn) as Hnn'.
    destruct (cadd_props _ d Hnd' Hnn' Hdn) as (A1 & A2 & A3 & _).
    destruct (IH counts _ ds e Hc A1 A2 Hfit Hel) as (B1 & B2 & B3 & B4).
    repeat split; try assumption; try apply B4.
    rewrite B1, A3, ctotal_cset by exact Hnd. rewrite (cget_in k v correct Hnd Hin). lia.
  - inversion Hel; subst e. repeat split; try assumption; try reflexivity.
    + apply cget_nonneg. exact Hnn.
    + destruct (in_dec Nat.eq_dec k (ckeys correct)) as [Hin|Hn]; [|rewrite cget_notin by exact Hn; apply Hc].
      apply in_map_iff in Hin. destruct Hin as [[k' v'] [E Hin]]. cbn in E. subst k'.
      rewrite (cget_in k v' correct Hnd Hin). eapply first_offender_none; eassumption.
Qed.

(* ------------------------------------------------------------------ keys stay inside the dictionary *)
Definition in_range (n : nat) (c : counter) : Prop := Forall (fun kv => (fst kv < n)%nat) c.

Lemma in_range_cset n k v c : (k < n)%nat -> in_range n c -> in_range n (cset k v c).
Proof.
  intros Hk H. induction H as [|[k' v'] r Hkv Hr IH]; cbn [cset]; [repeat constructor; exact Hk|].
  destruct (Nat.eqb k k'); constructor; cbn [fst] in *; assumption.
Qed.

Lemma in_range_merge n (b : counter) : forall a, in_range n a -> in_range n b ->
  in_range n (fold_left (fun acc kv => cset (fst kv) (cget (fst kv) acc + snd kv) acc) b a).
Proof.
  induction b as [|[k v] b IH]; intros a Ha Hb; cbn [fold_left]; [exact Ha|].
  inversion Hb as [|? ? Hk Hb']; subst. apply IH; [|exact Hb']. apply in_range_cset; [exact Hk|exact Ha].
Qed.

Lemma in_range_cadd n a b : in_range n a -> in_range n b -> in_range n (cadd a b).
Proof.
  intros Ha Hb. unfold cadd. apply Forall_forall. intros kv Hin. apply filter_In in Hin. destruct Hin as [Hin _].
  pose proof (in_range_merge n b a Ha Hb) as H. unfold in_range in H. rewrite Forall_forall in H. apply H. exact Hin.
Qed.

(* sum over all positions of the dictionary = total of the counter *)
Lemma zsum_point_out (f : nat -> Z) k v l : ~ In k l ->
  zsum (map (fun j => if Nat.eqb j k then v else f j) l) = zsum (map f l).
Proof.
  induction l as [|x l IH]; intro H; [reflexivity|]. cbn [map]. rewrite !zsum_cons.
  destruct (Nat.eqb_spec x k) as [->|Hne]; [exfalso; apply H; left; reflexivity|].
  rewrite IH; [reflexivity|]. intro Hin. apply H. right. exact Hin.
Qed.

Lemma zsum_point_list (f : nat -> Z) k v l : NoDup l -> In k l ->
  zsum (map (fun j => if Nat.eqb j k then v else f j) l) = zsum (map f l) - f k + v.
Proof.
  induction l as [|x l IH]; intros Hnd Hin; [destruct Hin|]. inversion Hnd as [|? ? Hx Hl]; subst.
  cbn [map]. rewrite !zsum_cons. destruct (Nat.eqb_spec x k) as [->|Hne].
  - rewrite zsum_point_out by exact Hx. lia.
  - destruct Hin as [E|Hin]; [congruence|]. rewrite IH by assumption. lia.
Qed.

Lemma zsum_point (f : nat -> Z) k v n : (k < n)%nat ->
  zsum (map (fun j => if Nat.eqb j k then v else f j) (seq 0 n)) = zsum (map f (seq 0 n)) - f k + v.
Proof. intro Hk. apply zsum_point_list; [apply seq_NoDup|apply in_seq; lia]. Qed.

Lemma sum_cget_range n c : NoDup (ckeys c) -> in_range n c ->
  zsum (map (fun k => cget k c) (seq 0 n)) = ctotal c.
Proof.
  induction c as [|[k v] r IH]; intros Hnd Hr.
  - cbn [cget]. unfold ctotal. cbn. induction (seq 0 n); cbn; [reflexivity|assumption].
  - inversion Hnd as [|? ? Hk Hnd']; subst. inversion Hr as [|? ? Hkn Hr']; subst. cbn [fst] in Hkn.
    rewrite ctotal_cons. cbn [cget].
    rewrite (zsum_point (fun j => cget j r) k v n Hkn), IH by assumption.
    rewrite (cget_notin k r Hk). lia.
Qed.

(* ------------------------------------------------------------------ rounding *)
Lemma round_zero S : 0 < S -> round_half_even 0 S = 0.
Proof.
  intro H. unfold round_half_even. rewrite Z.div_0_l, Z.mod_0_l by lia. cbn [Z.mul].
  destruct (Z.ltb_spec 0 S); [reflexivity|lia].
Qed.

Lemma round_nonneg x S : 0 < S -> 0 <= x -> 0 <= round_half_even x S.
Proof.
  intros HS Hx. unfold round_half_even. pose proof (Z.div_pos x S Hx HS).
  destruct (2 * (x mod S) <? S); [assumption|]. destruct (S <? 2 * (x mod S)); [lia|]. destruct (Z.even (x / S)); lia.
Qed.

Lemma leftover_pos_weight w N S : 0 < S -> 0 < leftover (w * N) S -> w <> 0.
Proof.
  intros HS H Hw. subst w. unfold leftover in H. rewrite Z.mul_0_l, Z.mod_0_l in H by lia. lia.
Qed.

(* ------------------------------------------------------------------ the recorded draws fit the run *)
Definition weights_ok (ws : list Z) : Prop := Forall (fun w => 0 <= w) ws /\ 0 < zsum ws.

(* what is assumed of the sampler: it returns the requested number of outcomes, as a Counter (distinct keys, positive
   counts are not needed: non-negative suffices) over positions of the dictionary that have positive leftover weight *)
Definition draw_ok (ws : list Z) (N : Z) (amount : Z) (d : counter) : Prop :=
  ctotal d = amount /\ cnonneg d /\ NoDup (ckeys d) /\ in_range (List.length ws) d /\
  Forall (fun kv => 0 < snd kv -> 0 < leftover (nth (fst kv) ws 0 * N) (zsum ws)) d.

Fixpoint draws_fit_range (n : nat) (fuel : nat) (counts : nat -> Z) (correct : counter) (draws : list counter) : Prop :=
  match first_offender counts correct with
  | None => True
  | Some (k, v) =>
    match fuel, draws with
    | S f, d :: ds => ctotal d = v - counts k /\ cnonneg d /\ in_range n d /\
                      draws_fit_range n f counts (cadd (cset k (counts k) correct) d) ds
    | _, _ => False
    end
  end.

Lemma draws_fit_range_fit n fuel : forall counts correct draws,
  draws_fit_range n fuel counts correct draws -> draws_fit fuel counts correct draws.
Proof.
  induction fuel as [|f IH]; intros counts correct draws H; cbn [draws_fit draws_fit_range] in *;
    destruct (first_offender counts correct) as [[k v]|]; try exact H.
  destruct draws as [|d ds]; [exact H|]. destruct H as (H1 & H2 & _ & H4). repeat split; try assumption. apply IH. exact H4.
Qed.

Lemma eliminate_in_range n fuel : forall counts correct draws e,
  in_range n correct -> draws_fit_range n fuel counts correct draws -> eliminate fuel counts correct draws = Some e ->
  in_range n e.
Proof.
  induction fuel as [|f IH]; intros counts correct draws e Hr Hfit Hel; cbn [eliminate draws_fit_range] in *;
    destruct (first_offender counts correct) as [[k v]|] eqn:Eo.
  - destruct Hfit.
  - inversion Hel; subst. exact Hr.
  - destruct draws as [|d ds]; [destruct Hfit|]. destruct Hfit as (_ & _ & Hd & Hfit).
    apply (IH counts (cadd (cset k (counts k) correct) d) ds e); [|exact Hfit|exact Hel]. apply in_range_cadd; [|exact Hd].
    apply in_range_cset; [|exact Hr]. destruct (first_offender_some _ _ _ _ Eo) as [Hin _].
    unfold in_range in Hr. rewrite Forall_forall in Hr. apply (Hr (k, v) Hin).
  - inversion Hel; subst. exact Hr.
Qed.

Lemma zsum_map_combine_seq (f : nat -> Z) (r : list Z) :
  zsum (map (fun kr : nat * Z => snd kr + f (fst kr)) (combine (seq 0 (List.length r)) r))
  = zsum r + zsum (map f (seq 0 (List.length r))).
Proof.
  rewrite (zsum_map_add (fun kr : nat * Z => snd kr) (fun kr : nat * Z => f (fst kr))).
  rewrite map_snd_combine_seq, map_fst_combine_seq. reflexivity.
Qed.

(* exactly the requested number of shots *)
Theorem represent_count ws N draws res : weights_ok ws -> 0 <= N ->
  represent ws N draws = Some res ->
  (match draws with
   | [] => True
   | d :: ds =>
     let r := rounded ws N in
     (zsum r < N -> ctotal d = N - zsum r /\ NoDup (ckeys d) /\ in_range (List.length ws) d) /\
     (N < zsum r -> ctotal d = zsum r - N /\ cnonneg d /\ NoDup (ckeys d) /\ in_range (List.length ws) d /\
                    draws_fit_range (List.length ws) (List.length ws) (fun k => nth k r 0) d ds)
   end) ->
  zsum res = N.
Proof.
  intros [Hw HS] HN Hrep Hd. unfold represent in Hrep. set (r := rounded ws N) in *.
  assert (Hlen : List.length r = List.length ws) by (unfold r, rounded; apply map_length).
  destruct (Z.eqb_spec (zsum r) N) as [E|Hne].
  - inversion Hrep; subst res. exact E.
  - destruct draws as [|d ds]; [discriminate|]. destruct Hd as [Hadd Hrem].
    destruct (Z.ltb_spec (zsum r) N) as [Hlt|Hge].
    + inversion Hrep; subst res. destruct (Hadd Hlt) as (Ht & Hnd & Hr).
      rewrite (zsum_map_combine_seq (fun k => cget k d) r), Hlen, sum_cget_range by assumption. lia.
    + assert (Hgt : N < zsum r) by lia. destruct (Hrem Hgt) as (Ht & Hnn & Hnd & Hr & Hfit).
      destruct (eliminate (List.length ws) (fun k => nth k r 0) d ds) as [e|] eqn:Ee; [|discriminate].
      inversion Hrep; subst res.
      assert (Hc : forall k, 0 <= nth k r 0).
      { intro k. destruct (Nat.lt_ge_cases k (List.length r)) as [Hk|Hk]; [|rewrite nth_overflow by exact Hk; lia].
        unfold r, rounded. rewrite (nth_indep _ 0 (round_half_even (0 * N) (zsum ws))) by (rewrite map_length; rewrite Hlen in Hk; exact Hk).
        rewrite (map_nth (fun w => round_half_even (w * N) (zsum ws))). apply round_nonneg; [exact HS|].
        apply Z.mul_nonneg_nonneg; [|exact HN]. rewrite Hlen in Hk.
        rewrite Forall_forall in Hw. apply Hw. apply nth_In. exact Hk. }
      destruct (eliminate_spec _ _ _ _ e Hc Hnd Hnn (draws_fit_range_fit _ _ _ _ _ Hfit) Ee) as (B1 & B2 & B3 & B4).
      pose proof (eliminate_in_range _ _ _ _ _ e Hr Hfit Ee) as B5.
      replace (map (fun kr : nat * Z => snd kr - cget (fst kr) e) (combine (seq 0 (List.length r)) r))
        with (map (fun kr : nat * Z => snd kr + (fun k => - cget k e) (fst kr)) (combine (seq 0 (List.length r)) r))
        by (apply map_ext; intros [k x]; cbn [fst snd]; lia).
      rewrite (zsum_map_combine_seq (fun k => - cget k e) r), Hlen.
      assert (Eneg : zsum (map (fun k => - cget k e) (seq 0 (List.length ws))) = - ctotal e).
      { rewrite <- (sum_cget_range (List.length ws) e B2 B5). induction (seq 0 (List.length ws)) as [|x l IHl]; cbn [map zsum fold_right]; [reflexivity|].
        fold (zsum (map (fun k => - cget k e) l)). fold (zsum (map (fun k => cget k e) l)). lia. }
      rewrite Eneg, B1, Ht. lia.
Qed.

(* ------------------------------------------------------------------ one hypothesis for both theorems *)
(* what is assumed of the recorded sampler results for this run *)
Definition run_ok (ws : list Z) (N : Z) (draws : list counter) : Prop :=
  match draws with
  | [] => True
  | d :: ds =>
    let r := rounded ws N in
    (zsum r < N -> ctotal d = N - zsum r /\ NoDup (ckeys d) /\ in_range (List.length ws) d /\ cnonneg d /\
                   Forall (fun kv => 0 < snd kv -> 0 < leftover (nth (fst kv) ws 0 * N) (zsum ws)) d) /\
    (N < zsum r -> ctotal d = zsum r - N /\ cnonneg d /\ NoDup (ckeys d) /\ in_range (List.length ws) d /\
                   draws_fit_range (List.length ws) (List.length ws) (fun k => nth k r 0) d ds)
  end.

Theorem represent_count_ok ws N draws res : weights_ok ws -> 0 <= N -> run_ok ws N draws ->
  represent ws N draws = Some res -> zsum res = N.
Proof.
  intros Hw HN Hok Hrep. apply (represent_count ws N draws res Hw HN Hrep).
  destruct draws as [|d ds]; [exact I|]. cbv zeta in *. destruct Hok as [Ha Hr]. split; [|exact Hr].
  intro Hlt. destruct (Ha Hlt) as (H1 & H2 & H3 & _). repeat split; assumption.
Qed.

Lemma rounded_nth ws N k : (k < List.length ws)%nat ->
  nth k (rounded ws N) 0 = round_half_even (nth k ws 0 * N) (zsum ws).
Proof.
  intro Hk. unfold rounded. rewrite (nth_indep _ 0 ((fun w => round_half_even (w * N) (zsum ws)) 0)) by (rewrite map_length; exact Hk).
  apply (map_nth (fun w => round_half_even (w * N) (zsum ws))).
Qed.

Lemma rounded_pos_weight ws N k : weights_ok ws -> 0 < nth k (rounded ws N) 0 -> 0 < nth k ws 0.
Proof.
  intros [Hw HS] H. destruct (Nat.lt_ge_cases k (List.length ws)) as [Hk|Hk].
  - rewrite rounded_nth in H by exact Hk.
    assert (Hn : 0 <= nth k ws 0) by (rewrite Forall_forall in Hw; apply Hw; apply nth_In; exact Hk).
    destruct (Z.eq_dec (nth k ws 0) 0) as [E|E]; [|lia]. rewrite E, Z.mul_0_l, round_zero in H by exact HS. lia.
  - rewrite nth_overflow in H by (unfold rounded; rewrite map_length; exact Hk). lia.
Qed.

Lemma cget_pos_in k c : 0 < cget k c -> exists v, In (k, v) c /\ 0 < v.
Proof.
  induction c as [|[k' v'] r IH]; cbn [cget]; intro H; [lia|].
  destruct (Nat.eqb_spec k k') as [->|Hne]; [exists v'; split; [left; reflexivity|exact H]|].
  destruct (IH H) as [v [Hin Hv]]. exists v. split; [right; exact Hin|exact Hv].
Qed.

(* every shot lies on the support of the distribution *)
Theorem represent_support ws N draws res : weights_ok ws -> 0 <= N -> run_ok ws N draws ->
  represent ws N draws = Some res -> forall k, 0 < nth k res 0 -> 0 < nth k ws 0.
Proof.
  intros Hw HN Hok Hrep k Hk. pose proof Hw as [Hwn HS]. unfold represent in Hrep. set (r := rounded ws N) in *.
  assert (Hlen : List.length r = List.length ws) by (unfold r, rounded; apply map_length).
  destruct (Z.eqb_spec (zsum r) N) as [E|Hne].
  - inversion Hrep; subst res. apply (rounded_pos_weight ws N k Hw Hk).
  - destruct draws as [|d ds]; [discriminate|]. cbv zeta in Hok. fold r in Hok. destruct Hok as [Hadd Hrem].
    destruct (Nat.lt_ge_cases k (List.length r)) as [Hkl|Hkl].
    2:{ exfalso. destruct (Z.ltb_spec (zsum r) N).
        - inversion Hrep; subst res. rewrite nth_overflow in Hk; [lia|]. rewrite map_length, combine_length, seq_length. lia.
        - destruct (eliminate (List.length ws) (fun k0 => nth k0 r 0) d ds); [|discriminate]. inversion Hrep; subst res.
          rewrite nth_overflow in Hk; [lia|]. rewrite map_length, combine_length, seq_length. lia. }
    destruct (Z.ltb_spec (zsum r) N) as [Hlt|Hge].
    + inversion Hrep; subst res. rewrite (nth_map_combine_seq (fun j => cget j d) r 0 k Hkl) in Hk. cbn [Nat.add] in Hk.
      destruct (Z.lt_ge_cases 0 (nth k r 0)) as [Hr|Hr]; [apply (rounded_pos_weight ws N k Hw Hr)|].
      assert (Hc : 0 < cget k d) by lia. destruct (cget_pos_in k d Hc) as [v [Hin Hv]].
      destruct (Hadd Hlt) as (_ & _ & _ & _ & Hleft). rewrite Forall_forall in Hleft. specialize (Hleft (k, v) Hin Hv).
      cbn [fst] in Hleft. pose proof (leftover_pos_weight _ _ _ HS Hleft) as Hnz.
      assert (0 <= nth k ws 0) by (rewrite Forall_forall in Hwn; apply Hwn; apply nth_In; lia). lia.
    + assert (Hgt : N < zsum r) by lia. destruct (Hrem Hgt) as (Ht & Hnn & Hnd & Hr & Hfit).
      destruct (eliminate (List.length ws) (fun k0 => nth k0 r 0) d ds) as [e|] eqn:Ee; [|discriminate].
      inversion Hrep; subst res.
      assert (Hc : forall j, 0 <= nth j r 0).
      { intro j. destruct (Nat.lt_ge_cases j (List.length r)) as [Hj|Hj]; [|rewrite nth_overflow by exact Hj; lia].
        unfold r. rewrite rounded_nth by (rewrite <- Hlen; exact Hj). apply round_nonneg; [exact HS|].
        apply Z.mul_nonneg_nonneg; [|exact HN]. rewrite Forall_forall in Hwn. apply Hwn. apply nth_In. rewrite <- Hlen. exact Hj. }
      destruct (eliminate_spec _ _ _ _ e Hc Hnd Hnn (draws_fit_range_fit _ _ _ _ _ Hfit) Ee) as (_ & _ & _ & B4).
      replace (map (fun kr : nat * Z => snd kr - cget (fst kr) e) (combine (seq 0 (List.length r)) r))
        with (map (fun kr : nat * Z => snd kr + (fun j => - cget j e) (fst kr)) (combine (seq 0 (List.length r)) r)) in Hk
        by (apply map_ext; intros [j x]; cbn [fst snd]; lia).
      rewrite (nth_map_combine_seq (fun j => - cget j e) r 0 k Hkl) in Hk. cbn [Nat.add] in Hk.
      specialize (B4 k). apply (rounded_pos_weight ws N k Hw). fold r. lia.
Qed.

(* no outcome is removed more often than it is present: the removals of the code never fail *)
Theorem represent_nonnegative ws N draws res : weights_ok ws -> 0 <= N -> run_ok ws N draws ->
  represent ws N draws = Some res -> Forall (fun c => 0 <= c) res.
Proof.
  intros Hw HN Hok Hrep. pose proof Hw as [Hwn HS]. unfold represent in Hrep. set (r := rounded ws N) in *.
  assert (Hlen : List.length r = List.length ws) by (unfold r, rounded; apply map_length).
  assert (Hc : forall j, 0 <= nth j r 0).
  { intro j. destruct (Nat.lt_ge_cases j (List.length r)) as [Hj|Hj]; [|rewrite nth_overflow by exact Hj; lia].
    unfold r. rewrite rounded_nth by (rewrite <- Hlen; exact Hj). apply round_nonneg; [exact HS|].
    apply Z.mul_nonneg_nonneg; [|exact HN]. rewrite Forall_forall in Hwn. apply Hwn. apply nth_In. rewrite <- Hlen. exact Hj. }
  assert (Hrn : Forall (fun c => 0 <= c) r).
  { apply Forall_forall. intros c Hin. destruct (In_nth _ _ 0 Hin) as [j [_ <-]]. apply Hc. }
  destruct (Z.eqb_spec (zsum r) N) as [E|Hne]; [inversion Hrep; subst res; exact Hrn|].
  destruct draws as [|d ds]; [discriminate|]. cbv zeta in Hok. fold r in Hok. destruct Hok as [Hadd Hrem].
  apply Forall_forall. intros c Hin. destruct (In_nth _ _ 0 Hin) as [j [Hj <-]].
  destruct (Z.ltb_spec (zsum r) N) as [Hlt|Hge].
  - inversion Hrep; subst res. rewrite map_length, combine_length, seq_length, Nat.min_id in Hj.
    rewrite (nth_map_combine_seq (fun i => cget i d) r 0 j Hj). cbn [Nat.add].
    destruct (Hadd Hlt) as (Ht & Hnd & Hr & Hnn & Hleft).
    pose proof (cget_nonneg j d Hnn). specialize (Hc j). lia.
  - assert (Hgt : N < zsum r) by lia. destruct (Hrem Hgt) as (Ht & Hnn & Hnd & Hr & Hfit).
    destruct (eliminate (List.length ws) (fun k0 => nth k0 r 0) d ds) as [e|] eqn:Ee; [|discriminate].
    inversion Hrep; subst res. rewrite map_length, combine_length, seq_length, Nat.min_id in Hj.
    destruct (eliminate_spec _ _ _ _ e Hc Hnd Hnn (draws_fit_range_fit _ _ _ _ _ Hfit) Ee) as (_ & _ & _ & B4).
    replace (map (fun kr : nat * Z => snd kr - cget (fst kr) e) (combine (seq 0 (List.length r)) r))
      with (map (fun kr : nat * Z => snd kr + (fun i => - cget i e) (fst kr)) (combine (seq 0 (List.length r)) r))
      by (apply map_ext; intros [i x]; cbn [fst snd]; lia).
    rewrite (nth_map_combine_seq (fun i => - cget i e) r 0 j Hj). cbn [Nat.add]. specialize (B4 j). lia.
Qed.

(* ------------------------------------------------------------------ a decidable form of run_ok, evaluated on the recorded draws of every generated case *)
Fixpoint nodupb (l : list nat) : bool :=
  match l with [] => true | x :: r => negb (existsb (Nat.eqb x) r) && nodupb r end.
Lemma nodupb_sound l : nodupb l = true -> NoDup l.
Proof.
  induction l as [|x r IH]; intro H; [constructor|]. cbn [nodupb] in H. apply andb_prop in H. destruct H as [H1 H2].
  constructor; [|apply IH; exact H2]. intro Hin. apply negb_true_iff in H1. apply existsb_eqb_in in Hin. congruence.
Qed.
Definition in_rangeb (n : nat) (c : counter) : bool := forallb (fun kv => Nat.ltb (fst kv) n) c.
Definition cnonnegb (c : counter) : bool := forallb (fun kv => 0 <=? snd kv) c.
Lemma in_rangeb_sound n c : in_rangeb n c = true -> in_range n c.
Proof. intro H. apply Forall_forall. intros kv Hin. unfold in_rangeb in H. rewrite forallb_forall in H. apply Nat.ltb_lt. apply H. exact Hin. Qed.
Lemma cnonnegb_sound c : cnonnegb c = true -> cnonneg c.
Proof. intro H. apply Forall_forall. intros kv Hin. unfold cnonnegb in H. rewrite forallb_forall in H. apply Z.leb_le. apply H. exact Hin. Qed.

Fixpoint draws_fit_rangeb (n : nat) (fuel : nat) (counts : nat -> Z) (correct : counter) (draws : list counter) : bool :=
  match first_offender counts correct with
  | None => true
  | Some (k, v) =>
    match fuel, draws with
    | S f, d :: ds => (ctotal d =? v - counts k) && cnonnegb d && in_rangeb n d &&
                      draws_fit_rangeb n f counts (cadd (cset k (counts k) correct) d) ds
    | _, _ => false
    end
  end.
Lemma draws_fit_rangeb_sound n fuel : forall counts correct draws,
  draws_fit_rangeb n fuel counts correct draws = true -> draws_fit_range n fuel counts correct draws.
Proof.
  induction fuel as [|f IH]; intros counts correct draws H; cbn [draws_fit_rangeb draws_fit_range] in *;
    destruct (first_offender counts correct) as [[k v]|]; try exact I; try discriminate.
  destruct draws as [|d ds]; [discriminate|].
  apply andb_prop in H. destruct H as [H H4]. apply andb_prop in H. destruct H as [H H3]. apply andb_prop in H. destruct H as [H1 H2].
  repeat split; [apply Z.eqb_eq; exact H1|apply cnonnegb_sound; exact H2|apply in_rangeb_sound; exact H3|apply IH; exact H4].
Qed.

Definition run_okb (ws : list Z) (N : Z) (draws : list counter) : bool :=
  match draws with
  | [] => true
  | d :: ds =>
    let r := rounded ws N in
    (if zsum r <? N
     then (ctotal d =? N - zsum r) && nodupb (ckeys d) && in_rangeb (List.length ws) d && cnonnegb d &&
          forallb (fun kv => negb (0 <? snd kv) || (0 <? leftover (nth (fst kv) ws 0 * N) (zsum ws))) d
     else true) &&
    (if N <? zsum r
     then (ctotal d =? zsum r - N) && cnonnegb d && nodupb (ckeys d) && in_rangeb (List.length ws) d &&
          draws_fit_rangeb (List.length ws) (List.length ws) (fun k => nth k r 0) d ds
     else true)
  end.

Lemma run_okb_sound ws N draws : run_okb ws N draws = true -> run_ok ws N draws.
Proof.
  unfold run_okb, run_ok. destruct draws as [|d ds]; [intros; exact I|]. cbv zeta. intro H.
  apply andb_prop in H. destruct H as [Ha Hr]. split.
  - intro Hlt. destruct (Z.ltb_spec (zsum (rounded ws N)) N); [|lia].
    apply andb_prop in Ha. destruct Ha as [Ha H5]. apply andb_prop in Ha. destruct Ha as [Ha H4].
    apply andb_prop in Ha. destruct Ha as [Ha H3]. apply andb_prop in Ha. destruct Ha as [H1 H2].
    repeat split; [apply Z.eqb_eq; exact H1|apply nodupb_sound; exact H2|apply in_rangeb_sound; exact H3|apply cnonnegb_sound; exact H4|].
    apply Forall_forall. intros kv Hin Hv. rewrite forallb_forall in H5. specialize (H5 kv Hin).
    apply orb_prop in H5. destruct H5 as [H5|H5]; [apply negb_true_iff in H5; apply Z.ltb_ge in H5; lia|apply Z.ltb_lt; exact H5].
  - intro Hgt. destruct (Z.ltb_spec N (zsum (rounded ws N))); [|lia].
    apply andb_prop in Hr. destruct Hr as [Hr H5]. apply andb_prop in Hr. destruct Hr as [Hr H4].
    apply andb_prop in Hr. destruct Hr as [Hr H3]. apply andb_prop in Hr. destruct Hr as [H1 H2].
    repeat split; [apply Z.eqb_eq; exact H1|apply cnonnegb_sound; exact H2|apply nodupb_sound; exact H3|apply in_rangeb_sound; exact H4|
                   apply draws_fit_rangeb_sound; exact H5].
Qed.
