(* The definitions GENERATED from circuits/_itertools.py (Gen/ItertoolsGen.v, by tr/tr_itertools.py) equal the
   hand-written model functions of Stats/Shots.v, for all inputs.  This file is re-checked against the freshly
   generated text on every run: a semantic edit of the Python source either is rejected by the translator or
   changes the generated definitions, and then a proof below fails.  Through these equalities every theorem of
   Props/C13.v about the model functions is a theorem about the generated ones.

   All agreements are unconditional except _iterate_in_batches alone (the model [chunks] is meant for a positive
   size; split_into_batches guards it, and the generated function is characterised for sizes <= 0 as well). *)
Require Import Coq.ZArith.ZArith Coq.Lists.List Coq.Bool.Bool Coq.micromega.Lia Coq.Strings.String.
Require Import OQ.Gen.ExpandGen OQ.Gen.ItertoolsGen OQ.Stats.ItertoolsTrSupport OQ.Stats.Shots OQ.Stats.ShotsProofs.
Import ListNotations.
Open Scope Z_scope.

(* ------------------------------------------------------------------ the support constants, characterised *)
Lemma py_sum_Z_zsum l : py_sum_Z l = zsum l.
Proof.
  unfold py_sum_Z, zsum. apply fold_symmetric; intros; lia.
Qed.

Lemma fold_app_concat {X} (l : list (list X)) : forall acc, fold_left (@app X) l acc = acc ++ List.concat l.
Proof.
  induction l as [|x r IH]; intros acc; cbn [fold_left List.concat].
  - now rewrite app_nil_r.
  - rewrite IH. now rewrite app_assoc.
Qed.

Lemma py_sum_lists_concat {X} (l : list (list X)) : py_sum_lists l = List.concat l.
Proof. unfold py_sum_lists. now rewrite fold_app_concat. Qed.

Lemma map_const_seq {X} (c : X) n : forall a, map (fun _ : Z => c) (map Z.of_nat (seq a n)) = repeat c n.
Proof. induction n as [|n IH]; intros a; cbn [seq map repeat]; [reflexivity | now rewrite IH]. Qed.

Lemma map_const_range {X} (c : X) k : map (fun _ : Z => c) (py_range k) = repeat c (Z.to_nat k).
Proof. unfold py_range. apply map_const_seq. Qed.

Lemma of_nat_eqb a b : Z.eqb (Z.of_nat a) (Z.of_nat b) = Nat.eqb a b.
Proof.
  destruct (Nat.eqb_spec a b) as [->|Hne]; [apply Z.eqb_refl | apply Z.eqb_neq; lia].
Qed.

Lemma fold_left_ext {X Y} (f g : X -> Y -> X) (Hfg : forall x y, f x y = g x y) l : forall x, fold_left f l x = fold_left g l x.
Proof. induction l as [|y r IH]; intros x; cbn [fold_left]; [reflexivity | now rewrite Hfg, IH]. Qed.

Lemma py_comp_st_ext {St X Y} (f g : St -> X -> option (Y * St)) (Hfg : forall s a, f s a = g s a) l :
  forall s, py_comp_st f l s = py_comp_st g l s.
Proof.
  induction l as [|a r IH]; intros s; cbn [py_comp_st]; [reflexivity|].
  rewrite Hfg. destruct (g s a) as [[b s1]|]; [now rewrite IH | reflexivity].
Qed.

Lemma py_comp_opt_ext {X Y} (f g : X -> option Y) (Hfg : forall a, f a = g a) l : py_comp_opt f l = py_comp_opt g l.
Proof.
  induction l as [|a r IH]; cbn [py_comp_opt]; [reflexivity|]. now rewrite Hfg, IH.
Qed.

Lemma drop_state {X Y} (o : option (X * Y)) :
  match o with None => None | Some (v, _) => Some v end = option_map fst o.
Proof. now destruct o as [[v s]|]. Qed.

(* ------------------------------------------------------------------ expand_sample_sizes *)
Theorem expand_sample_sizes_gen_eq : forall (A : Type) (cs : list A) ns m,
  expand_sample_sizes_gen cs ns m = expand_sample_sizes cs ns m.
Proof.
  intros A cs ns m. unfold expand_sample_sizes_gen, expand_sample_sizes, py_zip. cbv zeta.
  set (nm := map (fun n => expand_sample_size n m) ns).
  assert (Hm : map (fun '(_, multi) => multi) nm = map snd nm) by (apply map_ext; now intros [l k]).
  rewrite Hm. apply (f_equal2 pair); [apply (f_equal2 pair)|reflexivity].
  - apply flat_map_ext. intros [c k]. apply map_const_range.
  - apply flat_map_ext. intros [l k]. apply map_id.
Qed.

(* ------------------------------------------------------------------ _combine_measurements *)
Lemma counter_iadd_add d k v : py_counter_iadd d k v = add_count k v d.
Proof.
  induction d as [|[k1 v1] r IH]; cbn [py_counter_iadd add_count]; [reflexivity|].
  rewrite String.eqb_sym. destruct (String.eqb k k1); [reflexivity | now rewrite IH].
Qed.

Theorem combine_measurements_gen_eq : forall a b, combine_measurements_gen a b = combine2 a b.
Proof.
  intros a b. unfold combine_measurements_gen, combine2, py_Counter, py_items, py_dict_of. cbv zeta.
  apply fold_left_ext. intros acc [k v]. apply counter_iadd_add.
Qed.

Lemma reduce1_combine_group g : reduce1 combine_measurements_gen g = combine_group g.
Proof.
  destruct g as [|m ms]; cbn [reduce1 combine_group]; [reflexivity|].
  f_equal. apply fold_left_ext. exact combine_measurements_gen_eq.
Qed.

(* ------------------------------------------------------------------ the shared iterator consumed by islice *)
Definition islice_step {X Y} (g : list X -> option Y) (it : list X) (k : Z) : option (Y * list X) :=
  match py_islice it k with
  | None => None
  | Some (c, it1) => match g c with None => None | Some y => Some (y, it1) end
  end.

Lemma comp_st_islice {X Y} (g : list X -> option Y) mults :
  Forall (fun k => 0 <= k) mults \/ g [] = None ->
  forall it, option_map fst (py_comp_st (islice_step g) mults it) = all_some (map g (regroup it (map Z.to_nat mults))).
Proof.
  induction mults as [|k ms IH]; intros Hg it; [reflexivity|].
  assert (Hg' : Forall (fun k => 0 <= k) ms \/ g [] = None).
  { destruct Hg as [Hall|Hn]; [left; now inversion Hall | now right]. }
  cbn [py_comp_st map regroup all_some]. unfold islice_step at 1, py_islice, take_drop.
  destruct (Z.ltb k 0) eqn:Hk.
  - apply Z.ltb_lt in Hk. destruct Hg as [Hall|Hn]; [inversion Hall; lia|].
    replace (Z.to_nat k) with 0%nat by lia. cbn [firstn]. now rewrite Hn.
  - destruct (g (firstn (Z.to_nat k) it)) as [y|]; [|reflexivity].
    rewrite <- (IH Hg' (skipn (Z.to_nat k) it)).
    now destruct (py_comp_st (islice_step g) ms (skipn (Z.to_nat k) it)) as [[bs s2]|].
Qed.

Lemma comp_st_islice_negative {X Y} (g : list X -> option Y) mults :
  (exists k, In k mults /\ k < 0) -> forall it, py_comp_st (islice_step g) mults it = None.
Proof.
  induction mults as [|k ms IH]; intros [k0 [Hin Hneg]] it; [destruct Hin|].
  cbn [py_comp_st]. unfold islice_step at 1, py_islice.
  destruct (Z.ltb k 0) eqn:Hk; [reflexivity|].
  apply Z.ltb_ge in Hk. destruct Hin as [->|Hin]; [lia|].
  destruct (g (fst (take_drop (Z.to_nat k) it))) eqn:Hgc; unfold take_drop in *; cbn [fst] in Hgc; rewrite Hgc; [|reflexivity].
  rewrite IH; [reflexivity | now exists k0].
Qed.

Lemma all_some_map_Some {X Y} (f : X -> Y) l : all_some (map (fun x => Some (f x)) l) = Some (map f l).
Proof. induction l as [|x r IH]; cbn [map all_some]; [reflexivity | now rewrite IH]. Qed.

(* ------------------------------------------------------------------ combine_measurement_counts *)
Theorem combine_measurement_counts_gen_eq : forall all mults,
  combine_measurement_counts_gen all mults = combine_measurement_counts all mults.
Proof.
  intros all mults. unfold combine_measurement_counts_gen, combine_measurement_counts, py_len, py_iter. cbv zeta.
  unfold py_dict, counts in *. rewrite py_sum_Z_zsum. destruct (Z.eqb (Z.of_nat (List.length all)) (zsum mults)); cbn [negb]; [|reflexivity].
  rewrite drop_state.
  rewrite (py_comp_st_ext _ (islice_step (reduce1 combine_measurements_gen))).
  - rewrite comp_st_islice by (right; reflexivity). f_equal. apply map_ext. exact reduce1_combine_group.
  - intros s a. unfold islice_step, py_dict. now destruct (py_islice s a) as [[c s1]|].
Qed.

(* ------------------------------------------------------------------ combine_bitstrings *)
Lemma combine_bitstrings_gen_step (it : list (list string)) k :
  match py_islice it k with None => None | Some (c, it1) => Some (py_sum_lists c, it1) end
  = islice_step (fun c => Some (py_sum_lists c)) it k.
Proof. unfold islice_step. now destruct (py_islice it k) as [[c s1]|]. Qed.

(* islice raises on a negative count: the code never returns a result then *)
Theorem combine_bitstrings_gen_negative : forall (all : list (list string)) mults,
  (exists k, In k mults /\ k < 0) -> combine_bitstrings_gen all mults = None.
Proof.
  intros all mults Hneg. unfold combine_bitstrings_gen, py_iter. cbv zeta.
  destruct (negb _); [reflexivity|].
  rewrite (py_comp_st_ext _ (islice_step (fun c => Some (py_sum_lists c)))) by (intros; apply combine_bitstrings_gen_step).
  now rewrite comp_st_islice_negative.
Qed.

Theorem combine_bitstrings_gen_eq : forall (all : list (list string)) mults,
  combine_bitstrings_gen all mults = combine_bitstrings all mults.
Proof.
  intros all mults. destruct (forallb (fun k => 0 <=? k) mults) eqn:Hnn.
  - apply nonneg_forallb in Hnn. unfold combine_bitstrings_gen, combine_bitstrings, py_len, py_iter. cbv zeta.
    rewrite py_sum_Z_zsum. destruct (Z.eqb (Z.of_nat (List.length all)) (zsum mults)); cbn [negb]; [|reflexivity].
    apply nonneg_forallb in Hnn as Hb. rewrite Hb.
    rewrite drop_state.
    rewrite (py_comp_st_ext _ (islice_step (fun c => Some (py_sum_lists c)))) by (intros; apply combine_bitstrings_gen_step).
    rewrite comp_st_islice by (now left). rewrite all_some_map_Some. f_equal.
    apply map_ext. intros g. apply py_sum_lists_concat.
  - apply nonneg_forallb_false in Hnn.
    rewrite combine_bitstrings_gen_negative by exact Hnn. symmetry. now apply combine_bitstrings_rejects_negative.
Qed.

Theorem combine_bitstrings_gen_rejects : forall (all : list (list string)) mults,
  Z.of_nat (List.length all) <> zsum mults -> combine_bitstrings_gen all mults = None.
Proof. intros all mults Hne. rewrite combine_bitstrings_gen_eq. now apply combine_bitstrings_rejects. Qed.

(* ------------------------------------------------------------------ _iterate_in_batches *)
Lemma chunks_fuel {X} n : (0 < n)%nat -> forall f1 f2 (xs : list X),
  (List.length xs <= f1)%nat -> (List.length xs <= f2)%nat -> chunks f1 n xs = chunks f2 n xs.
Proof.
  intros Hn. induction f1 as [|f1 IH]; intros f2 xs H1 H2.
  - destruct xs; [|cbn in H1; lia]. now destruct f2.
  - destruct xs as [|x r]; [now destruct f2|].
    destruct f2 as [|f2]; [cbn in H2; lia|].
    cbn [chunks]. f_equal. cbn [List.length] in H1, H2.
    destruct n as [|n']; [lia|]. cbn [skipn].
    pose proof (skipn_length n' r) as Hl. apply IH; lia.
Qed.

Lemma py_islice_nonneg {X} (it : list X) k : 0 <= k ->
  py_islice it k = Some (firstn (Z.to_nat k) it, skipn (Z.to_nat k) it).
Proof. intros Hk. unfold py_islice, take_drop. apply Z.ltb_ge in Hk. now rewrite Hk. Qed.

Lemma iter_chunks_islice {X} k : 0 < k -> forall fuel (xs : list X), (List.length xs < fuel)%nat ->
  iter_chunks fuel (fun it => py_islice it k) (fun chunk => chunk) xs = Some (chunks (List.length xs) (Z.to_nat k) xs).
Proof.
  intros Hk. induction fuel as [|f IH]; intros xs Hf; [lia|].
  cbn [iter_chunks]. rewrite py_islice_nonneg by lia.
  destruct (Z.to_nat k) as [|n'] eqn:Hn; [lia|].
  destruct xs as [|x r]; [reflexivity|].
  cbn [firstn skipn List.length chunks]. cbn [List.length] in Hf.
  pose proof (skipn_length n' r) as Hs.
  rewrite IH by lia. rewrite ?Hn. do 2 f_equal.
  apply chunks_fuel; lia.
Qed.

Theorem iterate_in_batches_gen_eq : forall (A : Type) (xs : list A) k, 0 < k ->
  iterate_in_batches_gen xs k = Some (chunks (List.length xs) (Z.to_nat k) xs).
Proof.
  intros A xs k Hk. unfold iterate_in_batches_gen, py_iter. cbv zeta. apply iter_chunks_islice; [exact Hk | lia].
Qed.

(* outside the guard of split_into_batches: an empty first chunk ends the loop at once, a negative size raises *)
Theorem iterate_in_batches_gen_zero : forall (A : Type) (xs : list A), iterate_in_batches_gen xs 0 = Some [].
Proof. intros A xs. unfold iterate_in_batches_gen, py_iter. cbv zeta. cbn [iter_chunks]. reflexivity. Qed.

Theorem iterate_in_batches_gen_negative : forall (A : Type) (xs : list A) k, k < 0 -> iterate_in_batches_gen xs k = None.
Proof.
  intros A xs k Hk. unfold iterate_in_batches_gen, py_iter. cbv zeta. cbn [iter_chunks]. unfold py_islice.
  apply Z.ltb_lt in Hk. now rewrite Hk.
Qed.

(* ------------------------------------------------------------------ split_into_batches *)
Lemma chunks_nonempty {X} n : (0 < n)%nat -> forall fuel (xs : list X), Forall (fun c => c <> []) (chunks fuel n xs).
Proof.
  intros Hn. induction fuel as [|f IH]; intros xs; cbn [chunks]; [constructor|].
  destruct xs as [|x r]; [constructor|]. constructor; [|apply IH].
  destruct n as [|n']; [lia|]. cbn [firstn]. discriminate.
Qed.

Lemma comp_opt_max {X} (N : list (list Z)) : Forall (fun s => s <> []) N -> forall C : list (list X),
  py_comp_opt (fun cs : list X * list Z => match py_max (snd cs) with None => None | Some v => Some (fst cs, v) end) (combine C N)
  = Some (combine C (map zmax_list N)).
Proof.
  induction 1 as [|s N Hs HN IH]; intros C; destruct C as [|c C]; cbn [combine map py_comp_opt]; try reflexivity.
  destruct s as [|z s]; [now destruct Hs|]. cbn [snd fst py_max]. rewrite IH. reflexivity.
Qed.

Theorem split_into_batches_gen_eq : forall (A : Type) (cs : list A) ns k,
  split_into_batches_gen cs ns k = split_into_batches cs ns k.
Proof.
  intros A cs ns k. unfold split_into_batches_gen, split_into_batches, py_len, py_zip.
  rewrite of_nat_eqb. destruct (negb (Nat.eqb (List.length cs) (List.length ns))); [reflexivity|].
  destruct (Z.leb k 0) eqn:Hk; [reflexivity|]. apply Z.leb_gt in Hk.
  rewrite !iterate_in_batches_gen_eq by exact Hk.
  rewrite (py_comp_opt_ext _ (fun cs0 : list A * list Z => match py_max (snd cs0) with None => None | Some v => Some (fst cs0, v) end))
    by (now intros [c s]).
  apply comp_opt_max. apply chunks_nonempty. lia.
Qed.

(* ------------------------------------------------------------------ transfer: the C13 statements hold of the generated functions *)
Corollary gen_expand_totals : forall (A : Type) (cs : list A) ns m, pos_list ns -> 0 < m ->
  map zsum (regroup (snd (fst (expand_sample_sizes_gen cs ns m))) (map Z.to_nat (snd (expand_sample_sizes_gen cs ns m)))) = ns.
Proof. intros. rewrite expand_sample_sizes_gen_eq. now apply expand_sizes_totals. Qed.

Corollary gen_expand_in_range : forall (A : Type) (cs : list A) ns m, pos_list ns -> 0 < m ->
  Forall (fun c => 1 <= c <= m) (snd (fst (expand_sample_sizes_gen cs ns m))).
Proof. intros. rewrite expand_sample_sizes_gen_eq. now apply expand_sizes_range. Qed.

Corollary gen_combine_is_partition : forall (all : list (list string)) mults groups,
  combine_bitstrings_gen all mults = Some groups ->
  Forall (fun k => 0 <= k) mults /\
  exists parts, List.concat parts = all /\ map (@List.length _) parts = map Z.to_nat mults /\
                groups = map (@List.concat string) parts.
Proof. intros all mults groups H. rewrite combine_bitstrings_gen_eq in H. now apply combine_bitstrings_partition. Qed.

Corollary gen_expand_run_combine : forall (A : Type) (cs : list A) ns m (res : list (list string)),
  pos_list ns -> 0 < m ->
  map (@List.length string) res = map Z.to_nat (snd (fst (expand_sample_sizes_gen cs ns m))) ->
  exists groups, combine_bitstrings_gen res (snd (expand_sample_sizes_gen cs ns m)) = Some groups /\
                 map (@List.length string) groups = map Z.to_nat ns.
Proof.
  intros A cs ns m res Hp Hm Hres. rewrite expand_sample_sizes_gen_eq in *. rewrite combine_bitstrings_gen_eq.
  now apply expand_run_combine.
Qed.

Corollary gen_batches_cover : forall (A : Type) (cs : list A) ns k bs, split_into_batches_gen cs ns k = Some bs ->
  List.concat (map fst bs) = cs /\
  Forall (fun c => (1 <= List.length c <= Z.to_nat k)%nat) (map fst bs) /\
  exists nss, List.concat nss = ns /\ map (@List.length Z) nss = map (@List.length A) (map fst bs) /\
              map snd bs = map zmax_list nss /\
              Forall (fun nsb => forall n, In n nsb -> n <= zmax_list nsb) nss.
Proof. intros A cs ns k bs H. rewrite split_into_batches_gen_eq in H. now apply batches_cover. Qed.
