(* Semantics of the Python constructs that tr/tr_itertools.py emits (hand-written, small, total).
   The generated file Gen/ItertoolsGen.v uses only these definitions, the standard list library and
   the already generated expand_sample_size.  Nothing here mentions the hand-written model
   Stats/Shots.v; the agreement with it is proved in Stats/ItertoolsGenProofs.v.

   Conventions of the translation
     - tuples, lists, generators and other finite iterables are lists of their elements in iteration order;
     - an expression that can raise evaluates to [None] (which exception is not recorded);
     - an iterator variable created by [iter(xs)] is the list of the elements not yet consumed; an
       expression that consumes from it evaluates to [option (value * remaining)], and the remaining
       list is threaded left to right through the enclosing comprehension / loop;
     - dict / Counter are association lists in insertion order with pairwise distinct keys. *)
Require Import Coq.ZArith.ZArith Coq.Lists.List Coq.Strings.String Coq.Bool.Bool.
Import ListNotations.
Open Scope Z_scope.

Definition py_dict := list (string * Z).

(* len(xs) *)
Definition py_len {A} (l : list A) : Z := Z.of_nat (List.length l).

(* sum(xs): 0 + x1 + x2 + ... from the left *)
Definition py_sum_Z (l : list Z) : Z := fold_left Z.add l 0.

(* sum(xss, start=[]): [] + xs1 + xs2 + ... from the left *)
Definition py_sum_lists {A} (l : list (list A)) : list A := fold_left (@app A) l [].

(* max(xs) / min(xs) on integers: ValueError on an empty argument *)
Definition py_max (l : list Z) : option Z :=
  match l with [] => None | x :: r => Some (fold_left Z.max r x) end.
Definition py_min (l : list Z) : option Z :=
  match l with [] => None | x :: r => Some (fold_left Z.min r x) end.

(* range(k): 0, 1, ..., k-1; empty for k <= 0 *)
Definition py_range (k : Z) : list Z := map Z.of_nat (seq 0 (Z.to_nat k)).

(* zip(xs, ys): stops at the shorter one *)
Definition py_zip {A B} (l : list A) (r : list B) : list (A * B) := combine l r.

(* it = iter(xs): nothing consumed yet *)
Definition py_iter {A} (l : list A) : list A := l.

(* islice(it, n), fully consumed at once: the next n elements (fewer when the iterator runs out) and the
   iterator state after them; a negative n is a ValueError *)
Definition take_drop {A} (n : nat) (it : list A) : list A * list A := (firstn n it, skipn n it).
Definition py_islice {A} (it : list A) (n : Z) : option (list A * list A) :=
  if Z.ltb n 0 then None else Some (take_drop (Z.to_nat n) it).

(* functools.reduce(f, xs) without initial value: TypeError on an empty argument *)
Definition reduce1 {A} (f : A -> A -> A) (l : list A) : option A :=
  match l with [] => None | x :: r => Some (fold_left f r x) end.

(* [elt for x in xs] where elt can raise: elements are evaluated left to right, the first error aborts *)
Fixpoint py_comp_opt {A B} (f : A -> option B) (l : list A) : option (list B) :=
  match l with
  | [] => Some []
  | a :: r => match f a with
              | None => None
              | Some b => match py_comp_opt f r with None => None | Some bs => Some (b :: bs) end
              end
  end.

(* [elt for x in xs] where elt consumes from an iterator (state St) and can raise *)
Fixpoint py_comp_st {St A B} (f : St -> A -> option (B * St)) (l : list A) (s : St) : option (list B * St) :=
  match l with
  | [] => Some ([], s)
  | a :: r => match f s a with
              | None => None
              | Some (b, s1) => match py_comp_st f r s1 with
                                | None => None
                                | Some (bs, s2) => Some (b :: bs, s2)
                                end
              end
  end.

(* generator body   while chunk := <cond>: yield <body chunk>   where <cond> is a tuple built from the
   iterator state: the list of yielded values.  A tuple is true iff it is not empty.  [fuel] bounds the number
   of evaluations of <cond>; running out of fuel gives the error value, so that a theorem stating that the result
   is [Some _] also states that the loop has ended within the fuel. *)
Fixpoint iter_chunks {St C Y} (fuel : nat) (cond : St -> option (list C * St)) (body : list C -> Y) (s : St)
  : option (list Y) :=
  match fuel with
  | O => None
  | S f =>
      match cond s with
      | None => None
      | Some ([], _) => Some []
      | Some (chunk, s1) => match iter_chunks f cond body s1 with
                            | None => None
                            | Some ys => Some (body chunk :: ys)
                            end
      end
  end.

(* d.items(), Counter(d), dict(c): same pairs in the same order *)
Definition py_items (d : py_dict) : list (string * Z) := d.
Definition py_Counter (d : py_dict) : py_dict := d.
Definition py_dict_of (d : py_dict) : py_dict := d.

(* c[k] += v on a Counter: a present key keeps its position, a missing key counts as 0 and is appended *)
Fixpoint py_counter_iadd (d : py_dict) (k : string) (v : Z) : py_dict :=
  match d with
  | [] => [(k, 0 + v)]
  | (k1, v1) :: r => if String.eqb k1 k then (k1, v1 + v) :: r else (k1, v1) :: py_counter_iadd r k v
  end.
