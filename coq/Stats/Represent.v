(* Model of Measurements.get_measurements_representing_distribution and _check_sample_elimination
   (property C13, last clause).  Probabilities are w_k / S with integer weights (S = sum of the weights);
   the random sampler is an input: the list of Counters it returned, in order ("draws"). *)
Require Import Coq.ZArith.ZArith Coq.Lists.List Coq.Bool.Bool Coq.Arith.Arith.
Require Import OQ.Stats.Shots.
Import ListNotations.
Open Scope Z_scope.

(* Python's round() of the exact value x / S: to nearest, ties to even *)
Definition round_half_even (x S : Z) : Z :=
  let q := x / S in
  let r := x mod S in
  if 2 * r <? S then q
  else if S <? 2 * r then q + 1
  else if Z.even q then q else q + 1.

(* leftover weight 1/2 - |1/2 - frac|, as a numerator over S: min(r, S - r) *)
Definition leftover (x S : Z) : Z := Z.min (x mod S) (S - x mod S).

(* keys are positions in the distribution's dictionary; a Counter is an association list in insertion order *)
Definition counter := list (nat * Z).
Fixpoint cget (k : nat) (c : counter) : Z :=
  match c with [] => 0 | (k', v) :: r => if Nat.eqb k k' then v else cget k r end.
Fixpoint cset (k : nat) (v : Z) (c : counter) : counter :=
  match c with
  | [] => [(k, v)]
  | (k', v') :: r => if Nat.eqb k k' then (k', v) :: r else (k', v') :: cset k v r
  end.
Definition ctotal (c : counter) : Z := zsum (map snd c).
(* Counter.__add__: sums, keeps only positive counts; keys of the left operand first *)
Definition cadd (a b : counter) : counter :=
  let merged := fold_left (fun acc kv => cset (fst kv) (cget (fst kv) acc + snd kv) acc) b a in
  filter (fun kv => 0 <? snd kv) merged.

(* the first key of the counter (in its iteration order) that is asked more often than it is present *)
Fixpoint first_offender (counts : nat -> Z) (c : counter) : option (nat * Z) :=
  match c with
  | [] => None
  | (k, v) :: r => if counts k <? v then Some (k, v) else first_offender counts r
  end.

(* _check_sample_elimination: [draws] are the successive results of the resampling *)
Fixpoint eliminate (fuel : nat) (counts : nat -> Z) (correct : counter) (draws : list counter) : option counter :=
  match first_offender counts correct with
  | None => Some correct
  | Some (k, v) =>
    match fuel, draws with
    | S f, d :: ds => eliminate f counts (cadd (cset k (counts k) correct) d) ds
    | _, _ => None
    end
  end.

(* the whole function: per-key numbers of shots in the result (None = the recorded draws do not fit the run) *)
Definition rounded (ws : list Z) (N : Z) : list Z := map (fun w => round_half_even (w * N) (zsum ws)) ws.

Definition represent (ws : list Z) (N : Z) (draws : list counter) : option (list Z) :=
  let r := rounded ws N in
  let R := zsum r in
  if R =? N then Some r
  else match draws with
       | [] => None
       | d :: ds =>
         if R <? N then Some (map (fun kr => snd kr + cget (fst kr) d) (combine (seq 0 (List.length r)) r))
         else match eliminate (List.length ws) (fun k => nth k r 0) d ds with
              | Some e => Some (map (fun kr => snd kr - cget (fst kr) e) (combine (seq 0 (List.length r)) r))
              | None => None
              end
       end.
