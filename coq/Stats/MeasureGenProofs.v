(* C10: the definitions GENERATED from measurements/measurements.py, measurements/parities.py and utils.py
   (Gen/MeasurementsGen.v, translator tr/tr_measurements.py) agree with the hand-written model Stats/Measure.v that
   the C10 theorems are about.  This file is re-checked against the freshly generated text on every run: a semantic
   edit of the Python source either is rejected by the translator or changes the generated definitions, and then a
   proof below fails.

   The model's values are embedded into the Python values of Stats/MeasureTrSupport.v / Stats/DistTrSupport.v:
     tup r        a shot (list of bits)          ->  the tuple of the ints 0 / 1
     str r        a shot                         ->  the str of the characters 0 / 1   (a key of a counts dictionary)
     eshots       a list of shots                ->  the list of those tuples          (the value of self.bitstrings)
     ecounts      counts (bits -> Z)             ->  the Dict[str, int] with those str keys, same order, same values
     zs           a list of qubit indices        ->  the same indices as Python ints
   Numbers are Q on both sides where floats occur.

     tuple_to_bitstring_gen_is_model, convert_tuples_to_bitstrings_gen_is_model      = str / map str
     get_counts_gen_is_model            Measurements.get_counts          = get_counts              (all shot lists)
     init_gen_none / init_gen_some      Measurements.__init__            = [] / the given list
     add_counts_gen_is_model            Measurements.add_counts          = add_counts              (distinct keys: a dict)
     from_counts_gen_is_model           Measurements.from_counts         = from_counts             (distinct keys)
     get_distribution_gen_is_model      Measurements.get_distribution    ~ get_distribution        (shots of one width)
     get_distribution_gen_ragged        ... shots of two different widths: RuntimeError            (outside the model)
     check_parity_gen_tuple_is_model, check_parity_gen_str_is_model      = check_parity            (marked qubits in range)
     check_parity_gen_out_of_range      ... a marked qubit out of range: IndexError   (the model reads such a bit as 0)
     convert_bitstrings_to_vector_gen_spec, check_parity_of_vector_gen_is_model      = check_parity_of_vector
     efreq_gen_is_model                 get_expectation_value_from_frequencies ~ efreq   (keys of one width, total <> 0)
     efreq_gen_zero_total               ... total count 0: the non-finite marker (the model says 0; numpy says nan)
     convert_bitstring_to_int_gen_spec  convert_bitstring_to_int         = little-endian value     (no model function)

   The proofs refer to the generated definitions only by the names derived from the FUNCTION names; names of Python
   locals do not occur. *)
Require Import Coq.ZArith.ZArith Coq.QArith.QArith Coq.QArith.Qabs Coq.micromega.Lia Coq.micromega.Lqa.
Require Import Coq.Lists.List Coq.Strings.String Coq.Strings.Ascii Coq.Bool.Bool Coq.Setoids.Setoid.
Require Import OQ.Stats.Measure OQ.Stats.MeasureProofs OQ.Stats.DistTrSupport OQ.Stats.MeasureTrSupport
        OQ.Gen.MeasurementsGen.
Import ListNotations.

(* ------------------------------------------------------------------ embeddings *)
Definition tup (r : bits) : list Z := map b2z r.
Definition bchar (b : bool) : ascii := if b then "1"%char else "0"%char.
Fixpoint str (r : bits) : string :=
  match r with [] => EmptyString | b :: r' => String (bchar b) (str r') end.
Definition eshots (l : list bits) : list (list Z) := map tup l.
Definition ecounts (d : counts) : py_sdict := map (fun kc => (str (fst kc), snd kc)) d.
Definition zs (l : list nat) : list Z := map Z.of_nat l.

(* ------------------------------------------------------------------ the support constants, characterised *)
Lemma map_res_ret {A B} (f : A -> result B) (g : A -> B) l :
  (forall a, f a = Ret (g a)) -> py_map_res f l = Ret (map g l).
Proof.
  intro H. induction l as [|a r IH]; [reflexivity|]. cbn [py_map_res map]. rewrite H, IH. reflexivity.
Qed.

Fixpoint sconcat (l : list string) : string :=
  match l with [] => EmptyString | x :: r => (x ++ sconcat r)%string end.

Lemma append_empty_r s : (s ++ "")%string = s.
Proof. induction s as [|c s IH]; [reflexivity|]. cbn [append]. rewrite IH. reflexivity. Qed.

Lemma join_empty_sep l : py_join ""%string l = sconcat l.
Proof.
  induction l as [|x r IH]; [reflexivity|]. cbn [py_join sconcat]. destruct r as [|y r'].
  - cbn [sconcat]. rewrite append_empty_r. reflexivity.
  - rewrite IH. reflexivity.
Qed.

Lemma str_of_bit b : py_str_of_int (b2z b) = String (bchar b) EmptyString.
Proof. destruct b; reflexivity. Qed.

Lemma sconcat_bits r : sconcat (map py_str_of_int (tup r)) = str r.
Proof.
  induction r as [|b r IH]; [reflexivity|]. cbn [tup map sconcat str]. rewrite str_of_bit.
  fold (tup r). rewrite IH. reflexivity.
Qed.

Lemma bchar_eqb a b : Ascii.eqb (bchar a) (bchar b) = Bool.eqb a b.
Proof. destruct a, b; reflexivity. Qed.

Lemma str_eqb a b : String.eqb (str a) (str b) = bits_eqb a b.
Proof.
  revert b. induction a as [|x a IH]; intros [|y b]; try reflexivity.
  cbn [str String.eqb bits_eqb]. rewrite bchar_eqb, IH. destruct (Bool.eqb x y); reflexivity.
Qed.

Lemma str_inj a b : str a = str b -> a = b.
Proof.
  intro H. apply bits_eqb_eq. rewrite <- str_eqb. rewrite H. apply String.eqb_refl.
Qed.

(* ------------------------------------------------------------------ utils.py *)
Theorem tuple_to_bitstring_gen_is_model N r : tuple_to_bitstring_gen N (tup r) = Ret (str r).
Proof. unfold tuple_to_bitstring_gen. rewrite join_empty_sep, sconcat_bits. reflexivity. Qed.

Theorem convert_tuples_to_bitstrings_gen_is_model N l :
  convert_tuples_to_bitstrings_gen N (eshots l) = Ret (map str l).
Proof.
  unfold convert_tuples_to_bitstrings_gen, eshots.
  rewrite (map_res_ret _ (fun t => match tuple_to_bitstring_gen N t with Ret s => s | Raise _ => EmptyString end)).
  - cbn [bind]. rewrite map_map. f_equal. apply map_ext. intro r. rewrite tuple_to_bitstring_gen_is_model. reflexivity.
  - intro t. unfold tuple_to_bitstring_gen. reflexivity.
Qed.

(* ------------------------------------------------------------------ Measurements.get_counts *)
Lemma counter_incr_add d k : py_counter_incr (ecounts d) (str k) = ecounts (add_count k 1%Z d).
Proof.
  induction d as [|[k1 c1] d IH]; [reflexivity|].
  cbn [ecounts map fst snd py_counter_incr add_count]. rewrite str_eqb, bits_eqb_sym.
  destruct (bits_eqb k k1); [reflexivity|]. fold (ecounts d). rewrite IH. reflexivity.
Qed.

Lemma counter_fold l : forall d,
  fold_left py_counter_incr (map str l) (ecounts d) = ecounts (fold_left (fun d s => add_count s 1%Z d) l d).
Proof.
  induction l as [|s l IH]; intro d; [reflexivity|]. cbn [map fold_left]. rewrite counter_incr_add. apply IH.
Qed.

Lemma Counter_counts l : py_Counter (map str l) = ecounts (get_counts l).
Proof. unfold py_Counter, get_counts. exact (counter_fold l []). Qed.

Theorem get_counts_gen_is_model N shots :
  Measurements_get_counts_gen N (eshots shots) = Ret (ecounts (get_counts shots)).
Proof.
  unfold Measurements_get_counts_gen. rewrite convert_tuples_to_bitstrings_gen_is_model. cbn [bind]. cbv zeta.
  unfold py_dict_of_counter. rewrite Counter_counts. reflexivity.
Qed.

(* ------------------------------------------------------------------ Measurements.__init__ *)
Theorem init_gen_none N : Measurements_init_gen N None = Ret [].
Proof. reflexivity. Qed.
Theorem init_gen_some N l : Measurements_init_gen N (Some l) = Ret l.
Proof. reflexivity. Qed.

(* ------------------------------------------------------------------ Measurements.add_counts / from_counts *)
Lemma chars_str r : py_str_chars (str r) = map (fun b => String (bchar b) EmptyString) r.
Proof. induction r as [|b r IH]; [reflexivity|]. cbn [str py_str_chars map]. rewrite IH. reflexivity. Qed.

Lemma int_of_bit b : py_int_of_str (String (bchar b) EmptyString) = Ret (b2z b).
Proof. destruct b; reflexivity. Qed.

Lemma digits_loop (body : string -> list Z -> result (list Z)) :
  (forall c acc, body c acc = bind (py_int_of_str c) (fun x => Ret (py_append acc x))) ->
  forall r acc, py_for (py_str_chars (str r)) acc body = Ret (acc ++ tup r).
Proof.
  intros Hb r. rewrite chars_str. induction r as [|b r IH]; intro acc.
  - cbn [map py_for tup]. rewrite app_nil_r. reflexivity.
  - cbn [map py_for]. rewrite Hb, int_of_bit. cbn [bind]. rewrite IH. unfold py_append.
    rewrite <- app_assoc. reflexivity.
Qed.

Lemma lookup_ecounts d : NoDup (keys d) -> forall k c, In (k, c) d -> py_sdict_lookup (ecounts d) (str k) = Some c.
Proof.
  induction d as [|[k1 c1] d IH]; intros Hnd k c Hin; [destruct Hin|].
  cbn [ecounts map fst snd py_sdict_lookup]. rewrite str_eqb.
  cbn [keys map fst] in Hnd. inversion Hnd as [|? ? Hni Hnd']; subst.
  destruct Hin as [E|Hin].
  - injection E as -> ->. rewrite bits_eqb_refl. reflexivity.
  - destruct (bits_eqb k1 k) eqn:E.
    + apply bits_eqb_eq in E. subst k1. exfalso. apply Hni. change (In (fst (k, c)) (map fst d)). apply in_map. exact Hin.
    + apply IH; assumption.
Qed.

Lemma list_repeat_one {A} (x : A) n : py_list_repeat [x] n = repeat x (Z.to_nat n).
Proof.
  unfold py_list_repeat. induction (Z.to_nat n) as [|m IH]; [reflexivity|]. cbn [repeat List.concat app]. rewrite IH. reflexivity.
Qed.

Lemma map_repeat' {A B} (f : A -> B) x n : map f (repeat x n) = repeat (f x) n.
Proof. induction n as [|n IH]; [reflexivity|]. cbn [repeat map]. rewrite IH. reflexivity. Qed.

Lemma add_counts_loop (D : py_sdict) (body : string -> list (list Z) -> result (list (list Z))) :
  (forall k c acc, py_sdict_lookup D (str k) = Some c ->
     body (str k) acc = Ret (acc ++ repeat (tup k) (Z.to_nat c))) ->
  forall suf acc, (forall k c, In (k, c) suf -> py_sdict_lookup D (str k) = Some c) ->
  py_for (py_sdict_keys (ecounts suf)) acc body
  = Ret (acc ++ eshots (flat_map (fun kc => repeat (fst kc) (Z.to_nat (snd kc))) suf)).
Proof.
  intros Hb suf. induction suf as [|[k c] suf IH]; intros acc Hl.
  - cbn [ecounts map py_sdict_keys py_for flat_map eshots]. rewrite app_nil_r. reflexivity.
  - cbn [ecounts map py_sdict_keys fst snd py_for flat_map]. rewrite (Hb k c) by (apply Hl; left; reflexivity).
    cbn [bind]. fold (ecounts suf). fold (py_sdict_keys (ecounts suf)). rewrite IH by (intros; apply Hl; right; assumption).
    unfold eshots. rewrite map_app, map_repeat', <- app_assoc. reflexivity.
Qed.

Theorem add_counts_gen_is_model N shots d : NoDup (keys d) ->
  Measurements_add_counts_gen N (eshots shots) (ecounts d) = Ret (eshots (add_counts shots d)).
Proof.
  intro Hnd. unfold Measurements_add_counts_gen.
  rewrite (add_counts_loop (ecounts d)).
  - cbn [bind]. unfold add_counts, eshots. rewrite map_app. reflexivity.
  - intros k c acc Hl. cbv zeta. rewrite (digits_loop _ (fun c acc => eq_refl)). cbn [bind app].
    unfold py_sdict_getitem. rewrite Hl. cbn [bind]. unfold py_list_add. rewrite list_repeat_one. reflexivity.
  - intros k c Hin. apply lookup_ecounts; assumption.
Qed.

Theorem from_counts_gen_is_model N d : NoDup (keys d) ->
  Measurements_from_counts_gen N (ecounts d) = Ret (eshots (from_counts d)).
Proof.
  intro Hnd. unfold Measurements_from_counts_gen. rewrite init_gen_none. cbn [bind]. cbv zeta.
  change (@nil (list Z)) with (eshots []). rewrite add_counts_gen_is_model by exact Hnd. reflexivity.
Qed.

(* ------------------------------------------------------------------ Measurements.get_distribution
   The method ends in MeasurementOutcomeDistribution(distribution); that call is the constructor GENERATED from the
   constructor's own source (Gen/DistributionsGen.v).  Stats/DistGenProofs.v relates it to the C17 model Stats/Dist.v,
   through which the result is computed here: the str keys are parsed back into tuples, the dictionary is accepted
   because its keys have one length, its values are non-negative and add up to 1 exactly. *)
Require OQ.Stats.Dist OQ.Stats.DistProofs OQ.Stats.DistGenProofs OQ.Gen.DistributionsGen.
Definition b2n (b : bool) : nat := if b then 1%nat else 0%nat.
Definition nkey (k : bits) : Dist.key := map b2n k.

Lemma read_bit b : Dist.read_nat (String (bchar b) EmptyString) = Some (b2n b).
Proof. destruct b; reflexivity. Qed.
Lemma has_comma_str k : Dist.has_comma (str k) = false.
Proof. induction k as [|b k IH]; [reflexivity|]. cbn [str Dist.has_comma]. rewrite IH. destruct b; reflexivity. Qed.
Lemma dist_chars_str k : Dist.chars (str k) = map (fun b => String (bchar b) EmptyString) k.
Proof. induction k as [|b k IH]; [reflexivity|]. cbn [str Dist.chars map]. rewrite IH. reflexivity. Qed.
Lemma key_read_str k : Dist.key_read (str k) = Some (nkey k).
Proof.
  unfold Dist.key_read. rewrite has_comma_str, dist_chars_str. induction k as [|b k IH]; [reflexivity|].
  cbn [map Dist.all_some nkey]. rewrite read_bit, IH. reflexivity.
Qed.

Module DG := DistGenProofs.

Definition freqs (shots : list bits) : list (bits * Q) :=
  map (fun kc => (fst kc, inject_Z (snd kc) / inject_Z (Z.of_nat (List.length shots)))) (get_counts shots).
Definition ddist (l : list (bits * Q)) : Dist.dist := map (fun kp => (nkey (fst kp), snd kp)) l.
Definition draw (l : list (bits * Q)) : Dist.raw := map (fun kp => (Dist.KStr (str (fst kp)), snd kp)) l.
Definition emod (l : list (bits * Q)) : pydict num_Q := map (fun kp => (py_key_of_ints (tup (fst kp)), snd kp)) l.
Definition eexn (e : Measure.err) : pyexn :=
  match e with
  | Measure.TypeError => TypeError | Measure.IndexError => IndexError
  | Measure.ValueError => ValueError | Measure.RuntimeError => RuntimeError
  end.
Definition eres_dist (r : res (list (bits * Q))) : result (pydict num_Q) :=
  match r with Ok l => Ret (emod l) | Err e => Raise (eexn e) end.

Lemma emod_edist l : emod l = DG.edist (ddist l).
Proof.
  unfold emod, DG.edist, ddist. rewrite map_map. apply map_ext. intros [k p]. cbn [fst snd]. f_equal.
  unfold py_key_of_ints, DG.pkey, DG.ekey, nkey, tup. rewrite !map_map. f_equal. apply map_ext. intros []; reflexivity.
Qed.

Lemma nkey_inj a b : nkey a = nkey b -> a = b.
Proof.
  revert b. induction a as [|x a IH]; intros [|y b] H; try discriminate; [reflexivity|].
  cbn [nkey map] in H. injection H as Hx Hr. f_equal; [destruct x, y; (reflexivity || discriminate)|apply IH; exact Hr].
Qed.

Lemma nodup_map_inj {A B} (f : A -> B) l : (forall a b, f a = f b -> a = b) -> NoDup l -> NoDup (map f l).
Proof.
  intros Hf H. induction H as [|x l Hni Hnd IH]; [constructor|]. cbn [map]. constructor; [|exact IH].
  intro Hin. apply in_map_iff in Hin as [y [E Hy]]. apply Hf in E. subst y. exact (Hni Hy).
Qed.

Lemma preprocess_draw l : NoDup (map fst l) -> Dist.preprocess (draw l) = Dist.Ok (ddist l).
Proof.
  intro Hnd. unfold Dist.preprocess. rewrite (DistProofs.preprocess_gen _ (ddist l) []); [reflexivity| | |].
  - unfold draw, ddist. rewrite !map_map. apply map_ext. intros [k p]. cbn [fst Dist.rawkey_read]. apply key_read_str.
  - unfold draw, ddist. rewrite !map_map. reflexivity.
  - cbn [map app]. unfold ddist. rewrite map_map. cbn [fst].
    rewrite <- (map_map fst nkey). apply nodup_map_inj; [exact nkey_inj|exact Hnd].
Qed.

(* the loop of get_distribution *)
Lemma dist_loop (D : py_sdict) (n : Z) (body : string -> pydict num_Q -> result (pydict num_Q)) :
  n <> 0%Z ->
  (forall k c acc, py_sdict_lookup D (str k) = Some c ->
     body (str k) acc = Ret (py_dict_set acc (PKStr (str k)) (inject_Z c / inject_Z n))) ->
  forall suf acc, (forall k c, In (k, c) suf -> py_sdict_lookup D (str k) = Some c) ->
  NoDup (map fst acc ++ map (fun kc => PKStr (str (fst kc))) suf) ->
  py_for (py_sdict_keys (ecounts suf)) acc body
  = Ret (acc ++ map (fun kc => (PKStr (str (fst kc)), inject_Z (snd kc) / inject_Z n)) suf).
Proof.
  intros Hn Hb suf. induction suf as [|[k c] suf IH]; intros acc Hl Hnd.
  - cbn [ecounts map py_sdict_keys py_for]. rewrite app_nil_r. reflexivity.
  - cbn [ecounts map py_sdict_keys fst snd py_for]. rewrite (Hb k c) by (apply Hl; left; reflexivity).
    cbn [bind]. fold (ecounts suf). fold (py_sdict_keys (ecounts suf)).
    rewrite DG.set_notin.
    + rewrite IH.
      * rewrite <- app_assoc. reflexivity.
      * intros; apply Hl; right; assumption.
      * rewrite map_app, <- app_assoc. exact Hnd.
    + cbn [map fst] in Hnd. apply NoDup_remove_2 in Hnd. intro Hin. apply Hnd. apply in_or_app. left. exact Hin.
Qed.

Lemma dist_qsum l : Dist.qsum l = Measure.qsum l.
Proof. induction l as [|x r IH]; [reflexivity|]. cbn [Dist.qsum Measure.qsum fold_right]. rewrite IH. reflexivity. Qed.

Lemma close1_one s : s == 1 -> Dist.close1 s = true.
Proof.
  intro Hs. unfold Dist.close1. apply orb_true_iff. left. apply Qle_bool_iff.
  setoid_replace (s - 1) with 0 by (rewrite Hs; ring). discriminate.
Qed.

Lemma get_counts_nonempty shots : shots <> [] -> get_counts shots <> [].
Proof.
  intros Hs Hc. destruct shots as [|s r]; [congruence|].
  assert (H : In s (keys (get_counts (s :: r)))) by (apply counts_keys; left; reflexivity).
  rewrite Hc in H. destruct H.
Qed.

Lemma freqs_keys shots : map fst (freqs shots) = keys (get_counts shots).
Proof. unfold freqs, keys. rewrite map_map. reflexivity. Qed.

Lemma valid_freqs shots w : shots <> [] -> (forall s, In s shots -> List.length s = w) ->
  Dist.valid (ddist (freqs shots)) = true.
Proof.
  intros Hne Hw. pose proof (get_counts_nonempty shots Hne) as Hc.
  destruct (counts_wf shots) as [_ Hpos].
  assert (Hn : (0 < Z.of_nat (List.length shots))%Z) by (destruct shots; [congruence|cbn [List.length]; lia]).
  assert (Hall : forall kp, In kp (ddist (freqs shots)) -> 0 <= snd kp /\ List.length (fst kp) = w).
  { intros kp Hin. unfold ddist, freqs in Hin. rewrite map_map in Hin. apply in_map_iff in Hin as [[k c] [E Hin]].
    subst kp. cbn [fst snd]. split.
    - unfold pos_counts in Hpos. rewrite Forall_forall in Hpos. specialize (Hpos _ Hin). cbn [snd] in Hpos.
      apply Qle_shift_div_l; [unfold Qlt; cbn; rewrite Z.mul_1_r; exact Hn|]. unfold Qle; cbn. lia.
    - unfold nkey. rewrite map_length. apply Hw. apply counts_keys. change k with (fst (k, c)). apply in_map. exact Hin. }
  unfold Dist.valid. destruct (ddist (freqs shots)) as [|[k0 v0] d] eqn:E.
  - unfold ddist, freqs in E. destruct (get_counts shots); [congruence|discriminate].
  - apply andb_true_iff. split; apply forallb_forall; intros kp Hin; destruct (Hall kp Hin) as [H1 H2].
    + apply Qle_bool_iff. exact H1.
    + apply Nat.eqb_eq. transitivity w; [exact H2|]. symmetry. exact (proj2 (Hall (k0, v0) (or_introl eq_refl))).
Qed.

Lemma mass_freqs shots : shots <> [] -> Dist.mass (ddist (freqs shots)) == 1.
Proof.
  intro Hne. destruct (distribution_lemma shots Hne) as [dist [Hd [_ [_ Hs]]]].
  unfold get_distribution in Hd. destruct shots as [|s r]; [congruence|]. injection Hd as <-.
  unfold Dist.mass, ddist. rewrite map_map. cbn [snd]. rewrite dist_qsum. exact Hs.
Qed.

Lemma make_freqs shots w : shots <> [] -> (forall s, In s shots -> List.length s = w) ->
  Dist.make_raw (draw (freqs shots)) true = Dist.Ok (ddist (freqs shots)).
Proof.
  intros Hne Hw. unfold Dist.make_raw. rewrite preprocess_draw.
  - unfold Dist.make. rewrite (valid_freqs shots w Hne Hw). cbn [negb]. rewrite close1_one by (apply mass_freqs; exact Hne). reflexivity.
  - rewrite freqs_keys. apply counts_wf.
Qed.

Lemma truediv_counts c n : n <> 0%Z ->
  py_truediv num_Q (n_int num_Q c) (n_int num_Q n) = Ret (inject_Z c / inject_Z n).
Proof.
  intro Hn. unfold py_truediv. cbn [n_eqb n_int n_div num_Q].
  destruct (Qeq_bool (inject_Z n) (inject_Z 0)) eqn:E; [|reflexivity].
  apply Qeq_bool_iff in E. unfold Qeq in E. cbn in E. lia.
Qed.

Lemma get_distribution_gen_loop shots : shots <> [] ->
  Measurements_get_distribution_gen num_Q (eshots shots)
  = DistributionsGen.MeasurementOutcomeDistribution_init_gen num_Q (DG.eraw (draw (freqs shots))) true.
Proof.
  intro Hne. unfold Measurements_get_distribution_gen. rewrite get_counts_gen_is_model. cbn [bind]. cbv zeta.
  assert (Hn : Z.of_nat (List.length shots) <> 0%Z) by (destruct shots; [congruence|cbn [List.length]; lia]).
  destruct (counts_wf shots) as [Hnd _].
  rewrite (dist_loop (ecounts (get_counts shots)) (Z.of_nat (List.length shots))).
  - cbn [bind app]. unfold DG.eraw, draw, freqs. rewrite !map_map. cbn [fst snd DG.erawkey].
    destruct (DistributionsGen.MeasurementOutcomeDistribution_init_gen num_Q _ true); reflexivity.
  - exact Hn.
  - intros k c acc Hl. unfold py_sdict_getitem. rewrite Hl. cbn [bind]. unfold py_len, eshots. rewrite map_length.
    rewrite truediv_counts by exact Hn. reflexivity.
  - intros k c Hin. apply lookup_ecounts; assumption.
  - cbn [map app py_dict_empty]. rewrite <- (map_map fst (fun k => PKStr (str k))).
    apply nodup_map_inj; [|exact Hnd]. intros a b E. injection E as E. apply str_inj. exact E.
Qed.

Theorem get_distribution_gen_is_model shots w : (forall s, In s shots -> List.length s = w) ->
  DG.req (Measurements_get_distribution_gen num_Q (eshots shots)) (eres_dist (get_distribution shots)).
Proof.
  intro Hw. destruct shots as [|s0 r] eqn:Es.
  - vm_compute. reflexivity.
  - rewrite <- Es in *. assert (Hne : shots <> []) by (rewrite Es; discriminate).
    rewrite get_distribution_gen_loop by exact Hne.
    pose proof (DG.init_gen_eq (draw (freqs shots)) true) as H. rewrite (make_freqs shots w Hne Hw) in H.
    replace (get_distribution shots) with (Ok (freqs shots)) by (rewrite Es; reflexivity).
    cbn [eres_dist]. rewrite emod_edist. exact H.
Qed.

Lemma in_ddist_freqs shots s : In s shots -> exists v, In (nkey s, v) (ddist (freqs shots)).
Proof.
  intro Hin. apply counts_keys in Hin. unfold keys in Hin. apply in_map_iff in Hin as [[k c] [E Hin]]. cbn [fst] in E. subst k.
  eexists. unfold ddist, freqs. rewrite map_map. apply in_map_iff. exists (s, c). split; [reflexivity|exact Hin].
Qed.

Theorem get_distribution_gen_ragged shots s1 s2 : In s1 shots -> In s2 shots -> List.length s1 <> List.length s2 ->
  Measurements_get_distribution_gen num_Q (eshots shots) = Raise RuntimeError.
Proof.
  intros H1 H2 Hlen. assert (Hne : shots <> []) by (intro E; subst; destruct H1).
  rewrite get_distribution_gen_loop by exact Hne.
  pose proof (DG.init_gen_eq (draw (freqs shots)) true) as H.
  unfold Dist.make_raw in H. rewrite preprocess_draw in H by (rewrite freqs_keys; apply counts_wf).
  assert (Hv : Dist.valid (ddist (freqs shots)) = false).
  { destruct (in_ddist_freqs shots s1 H1) as [v1 I1]. destruct (in_ddist_freqs shots s2 H2) as [v2 I2].
    unfold Dist.valid. destruct (ddist (freqs shots)) as [|[k0 v0] d]; [reflexivity|].
    destruct (forallb (fun kv => Nat.eqb (List.length (fst kv)) (List.length k0)) ((k0, v0) :: d)) eqn:E;
      [exfalso|apply andb_false_r].
    rewrite forallb_forall in E. pose proof (E _ I1) as E1. pose proof (E _ I2) as E2. cbn [fst] in E1, E2.
    apply Nat.eqb_eq in E1, E2. unfold nkey in E1, E2. rewrite map_length in E1, E2. apply Hlen. congruence. }
  unfold Dist.make in H. rewrite Hv in H. cbn [negb DG.eres DG.eerr] in H.
  destruct (DistributionsGen.MeasurementOutcomeDistribution_init_gen num_Q _ true); cbn [DG.req] in H; [destruct H|congruence].
Qed.

(* ------------------------------------------------------------------ check_parity *)
Lemma index_nat {A} (l : list A) (q : nat) (dflt : A) :
  (q < List.length l)%nat -> py_index l (Z.of_nat q) = Ret (nth q l dflt).
Proof. exact (DG.index_of_nat l q dflt). Qed.

Lemma index_out {A} (l : list A) (q : nat) : (List.length l <= q)%nat -> py_index l (Z.of_nat q) = Raise IndexError.
Proof.
  intro H. unfold py_index. cbv zeta.
  destruct (Z.ltb_spec (Z.of_nat q) 0) as [Hn|_]; [lia|].
  destruct (Z.ltb_spec (Z.of_nat q) 0) as [Hn|_]; [lia|].
  rewrite Nat2Z.id. destruct (nth_error l q) eqn:E; [|reflexivity].
  apply nth_error_None in H. congruence.
Qed.

(* what one step of the loop of check_parity does, for a bitstring whose item q (when in range) tests as b *)
Definition parity_step (acc : bool) (b : bool) : bool := if b then negb acc else acc.

Lemma check_parity_loop (r : bits) (body : Z -> bool -> result bool) :
  (forall q acc, (q < List.length r)%nat -> body (Z.of_nat q) acc = Ret (parity_step acc (bit r q))) ->
  (forall q acc, (List.length r <= q)%nat -> body (Z.of_nat q) acc = Raise IndexError) ->
  forall marked acc,
  py_for (zs marked) acc body =
  if marked_ok (List.length r) marked then Ret (fold_left (fun acc q => if bit r q then negb acc else acc) marked acc)
  else Raise IndexError.
Proof.
  intros Hin Hout marked. induction marked as [|q m IH]; intro acc; [reflexivity|].
  cbn [zs map py_for marked_ok forallb fold_left]. destruct (Nat.ltb_spec q (List.length r)) as [Hq|Hq].
  - rewrite Hin by exact Hq. cbn [bind andb]. fold (zs m). rewrite IH. unfold marked_ok, parity_step. reflexivity.
  - rewrite Hout by exact Hq. reflexivity.
Qed.

Lemma tup_length r : List.length (tup r) = List.length r.
Proof. apply map_length. Qed.

Lemma key_index_tuple r q : (q < List.length r)%nat ->
  py_key_index (py_key_of_ints (tup r)) (Z.of_nat q) = Ret (PEInt (b2z (bit r q))).
Proof.
  intro H. unfold py_key_of_ints. cbn [py_key_index]. rewrite (index_nat _ q (PEInt 0%Z)) by (rewrite map_length, tup_length; exact H).
  change (PEInt 0%Z) with (PEInt (b2z false)). unfold tup. rewrite map_map, (map_nth (fun b => PEInt (b2z b))). reflexivity.
Qed.

Lemma key_index_str r q : (q < List.length r)%nat ->
  py_key_index (py_key_of_str (str r)) (Z.of_nat q) = Ret (PEStr (String (bchar (bit r q)) EmptyString)).
Proof.
  intro H. unfold py_key_of_str. cbn [py_key_index]. rewrite chars_str, map_map.
  rewrite (index_nat _ q (PEStr (String (bchar false) EmptyString))) by (rewrite map_length; exact H).
  rewrite (map_nth (fun b => PEStr (String (bchar b) EmptyString))). reflexivity.
Qed.

Theorem check_parity_gen_tuple N r marked :
  check_parity_gen N (py_key_of_ints (tup r)) (zs marked) =
  if marked_ok (List.length r) marked then Ret (check_parity r marked) else Raise IndexError.
Proof.
  unfold check_parity_gen. cbv zeta. rewrite (check_parity_loop r).
  - unfold check_parity. destruct (marked_ok (List.length r) marked); reflexivity.
  - intros q acc Hq. rewrite !key_index_tuple by exact Hq. cbn [bind]. destruct (bit r q); reflexivity.
  - intros q acc Hq. unfold py_key_of_ints. cbn [py_key_index]. rewrite index_out by (rewrite map_length, tup_length; exact Hq). reflexivity.
Qed.

Theorem check_parity_gen_str N r marked :
  check_parity_gen N (py_key_of_str (str r)) (zs marked) =
  if marked_ok (List.length r) marked then Ret (check_parity r marked) else Raise IndexError.
Proof.
  unfold check_parity_gen. cbv zeta. rewrite (check_parity_loop r).
  - unfold check_parity. destruct (marked_ok (List.length r) marked); reflexivity.
  - intros q acc Hq. rewrite !key_index_str by exact Hq. cbn [bind]. destruct (bit r q); reflexivity.
  - intros q acc Hq. unfold py_key_of_str. cbn [py_key_index]. rewrite chars_str, map_map.
    rewrite index_out by (rewrite map_length; exact Hq). reflexivity.
Qed.

Theorem check_parity_gen_tuple_is_model N r marked : marked_ok (List.length r) marked = true ->
  check_parity_gen N (py_key_of_ints (tup r)) (zs marked) = Ret (check_parity r marked).
Proof. intro H. rewrite check_parity_gen_tuple, H. reflexivity. Qed.
Theorem check_parity_gen_str_is_model N r marked : marked_ok (List.length r) marked = true ->
  check_parity_gen N (py_key_of_str (str r)) (zs marked) = Ret (check_parity r marked).
Proof. intro H. rewrite check_parity_gen_str, H. reflexivity. Qed.
Theorem check_parity_gen_out_of_range N r marked : marked_ok (List.length r) marked = false ->
  check_parity_gen N (py_key_of_ints (tup r)) (zs marked) = Raise IndexError /\
  check_parity_gen N (py_key_of_str (str r)) (zs marked) = Raise IndexError.
Proof. intro H. rewrite check_parity_gen_tuple, check_parity_gen_str, H. split; reflexivity. Qed.

(* ------------------------------------------------------------------ _convert_bitstrings_to_vector *)
Lemma sconcat_app_codes a b : np_frombuffer_u1 (a ++ b)%string = np_frombuffer_u1 a ++ np_frombuffer_u1 b.
Proof.
  unfold np_frombuffer_u1. induction a as [|c a IH]; [reflexivity|].
  cbn [append list_ascii_of_string map app]. rewrite IH. reflexivity.
Qed.

Lemma codes_str r : np_u1_sub (np_frombuffer_u1 (str r)) (py_ord "0"%char) = tup r.
Proof.
  unfold np_u1_sub, np_frombuffer_u1. induction r as [|b r IH]; [reflexivity|].
  cbn [str list_ascii_of_string map tup]. fold (tup r). rewrite IH. f_equal. destruct b; reflexivity.
Qed.

Lemma codes_rows ks :
  np_u1_sub (np_frombuffer_u1 (sconcat (map str ks))) (py_ord "0"%char) = List.concat (map tup ks).
Proof.
  induction ks as [|k ks IH]; [reflexivity|]. cbn [map sconcat List.concat]. rewrite sconcat_app_codes.
  unfold np_u1_sub in *. rewrite map_app. fold (np_u1_sub (np_frombuffer_u1 (str k)) (py_ord "0"%char)).
  rewrite codes_str, IH. reflexivity.
Qed.

Lemma firstn_app_exact {A} (a b : list A) n : List.length a = n -> firstn n (a ++ b) = a.
Proof. intros <-. rewrite firstn_app, Nat.sub_diag, firstn_all. cbn [firstn]. apply app_nil_r. Qed.
Lemma skipn_app_exact {A} (a b : list A) n : List.length a = n -> skipn n (a ++ b) = b.
Proof. intros <-. rewrite skipn_app, Nat.sub_diag, skipn_all. reflexivity. Qed.

Lemma chunks_rows w (rows : list (list Z)) : (0 < w)%nat -> Forall (fun r => List.length r = w) rows ->
  forall fuel, (List.length rows <= fuel)%nat -> np_chunks fuel w (List.concat rows) = rows.
Proof.
  intros Hw Hrows. induction Hrows as [|r rows Hr Hrs IH]; intros fuel Hf.
  - destruct fuel; reflexivity.
  - destruct fuel as [|f]; [cbn [List.length] in Hf; lia|]. cbn [List.concat np_chunks].
    destruct (r ++ List.concat rows) eqn:E.
    + destruct r; [cbn [List.length] in Hr; lia|discriminate].
    + rewrite <- E. rewrite firstn_app_exact, skipn_app_exact by exact Hr. rewrite IH by (cbn [List.length] in Hf; lia). reflexivity.
Qed.

Lemma concat_length_rows w (rows : list (list Z)) : Forall (fun r => List.length r = w) rows ->
  List.length (List.concat rows) = (List.length rows * w)%nat.
Proof.
  induction 1 as [|r rows Hr Hrs IH]; [reflexivity|]. cbn [List.concat List.length]. rewrite app_length, IH, Hr. lia.
Qed.

(* keys of one width w: IndexError without keys, ValueError for width 0, else the rows of bits *)
Theorem convert_bitstrings_to_vector_gen_spec N (ks : list bits) w : Forall (fun k => List.length k = w) ks ->
  convert_bitstrings_to_vector_gen N (map str ks) =
  match ks with
  | [] => Raise IndexError
  | _ => if Nat.eqb w 0 then Raise ValueError else Ret (Z.of_nat w, map tup ks)
  end.
Proof.
  intro Hw. unfold convert_bitstrings_to_vector_gen. destruct ks as [|k0 ks0] eqn:Eks; [reflexivity|].
  rewrite <- Eks in *. assert (Hk0 : List.length k0 = w) by (rewrite Eks in Hw; inversion Hw; assumption).
  replace (py_index (map str ks) 0%Z) with (Ret (A:=string) (str k0)) by (rewrite Eks; reflexivity).
  cbn [bind]. cbv zeta. rewrite join_empty_sep. unfold py_encode_utf8, np_astype_int. rewrite codes_rows.
  rewrite chars_str. unfold py_len at 1. rewrite map_length, Hk0.
  assert (Hrows : Forall (fun r => List.length r = w) (map tup ks)).
  { rewrite Forall_map. eapply Forall_impl; [|exact Hw]. intros k Hk. rewrite tup_length. exact Hk. }
  unfold np_reshape_rows. destruct (Nat.eqb_spec w 0) as [->|Hne]; [reflexivity|].
  destruct (Z.leb_spec (Z.of_nat w) 0) as [Hle|_]; [lia|].
  unfold py_len. rewrite (concat_length_rows w) by exact Hrows.
  rewrite Nat2Z.inj_mul, Z.mod_mul by lia. cbn [Z.eqb bind]. rewrite Nat2Z.id.
  rewrite chunks_rows; [reflexivity|lia|exact Hrows|]. rewrite map_length. nia.
Qed.

(* ------------------------------------------------------------------ check_parity_of_vector *)
Lemma col_indices w marked :
  py_map_res (np_col_index (Z.of_nat w)) (zs marked) = if marked_ok w marked then Ret marked else Raise IndexError.
Proof.
  induction marked as [|q m IH]; [reflexivity|]. cbn [zs map py_map_res marked_ok forallb]. fold (zs m). rewrite IH.
  unfold np_col_index. destruct (Z.ltb_spec (Z.of_nat q) 0) as [Hn|_]; [lia|].
  destruct (Z.ltb_spec (Z.of_nat q) 0) as [Hn|_]; [lia|].
  destruct (Nat.ltb_spec q w) as [Hq|Hq]; destruct (Z.ltb_spec (Z.of_nat q) (Z.of_nat w)) as [Hz|Hz]; try lia.
  - cbn [bind andb]. fold (marked_ok w m). destruct (marked_ok w m); cbn [bind]; [rewrite Nat2Z.id|]; reflexivity.
  - reflexivity.
Qed.

Lemma sum_Z_msum l : py_sum_Z l = msum l.
Proof.
  unfold py_sum_Z. assert (H : forall a, fold_left Z.add l a = (a + msum l)%Z).
  { induction l as [|x r IH]; intro a; cbn [fold_left msum fold_right]; [lia|]. rewrite IH. unfold msum. lia. }
  rewrite H. lia.
Qed.

Lemma repeat_map_const {A B} (c : B) (l : list A) : repeat c (List.length l) = map (fun _ => c) l.
Proof. induction l as [|x r IH]; [reflexivity|]. cbn [List.length repeat map]. rewrite IH. reflexivity. Qed.

Theorem check_parity_of_vector_gen_spec N ks w marked :
  check_parity_of_vector_gen N (Z.of_nat w, map tup ks) (zs marked) =
  if marked_ok w marked then Ret (map (n_int N) (check_parity_of_vector ks marked)) else Raise IndexError.
Proof.
  unfold check_parity_of_vector_gen. destruct marked as [|q m].
  - cbn [zs map py_is_empty marked_ok forallb check_parity_of_vector]. unfold np_ones, np_shape0, py_len. cbn [snd].
    rewrite Nat2Z.id, map_length, repeat_map_const, map_map. reflexivity.
  - change (py_is_empty (zs (q :: m))) with false. cbv iota. unfold np_take_columns, np_fromiter_int. cbn [fst snd].
    rewrite col_indices. destruct (marked_ok w (q :: m)); [|reflexivity]. cbn [bind]. cbv zeta. f_equal.
    rewrite cpv_map. unfold np_sum_axis1. cbn [snd]. rewrite !map_map. apply map_ext. intro r. f_equal.
    rewrite sum_Z_msum. unfold par01. f_equal. f_equal. f_equal. apply map_ext. intro j.
    unfold tup, bit. change 0%Z with (b2z false). apply map_nth.
Qed.

Theorem check_parity_of_vector_gen_is_model N ks w marked : marked_ok w marked = true ->
  check_parity_of_vector_gen N (Z.of_nat w, map tup ks) (zs marked) = Ret (map (n_int N) (check_parity_of_vector ks marked)).
Proof. intro H. rewrite check_parity_of_vector_gen_spec, H. reflexivity. Qed.

(* ------------------------------------------------------------------ get_expectation_value_from_frequencies *)
Definition rq (a : result Q) (b : res Q) : Prop :=
  match a, b with
  | Ret x, Ok y => x == y
  | Raise e, Err f => e = eexn f
  | _, _ => False
  end.

Lemma combine_map_r {A B C} (f : B -> C) (a : list A) (b : list B) :
  combine a (map f b) = map (fun p => (fst p, f (snd p))) (combine a b).
Proof.
  revert b. induction a as [|x a IH]; intros [|y b]; try reflexivity. cbn [map combine fst snd]. rewrite IH. reflexivity.
Qed.

Lemma fold_qsum l : fold_left Qplus l (inject_Z 0) == Measure.qsum l.
Proof. rewrite DG.sum_fold, dist_qsum. unfold inject_Z. ring. Qed.

Lemma keys_ecounts (freq : counts) : py_sdict_keys (ecounts freq) = map str (map fst freq).
Proof. unfold py_sdict_keys, ecounts. rewrite !map_map. reflexivity. Qed.
Lemma values_ecounts (freq : counts) : py_sdict_values (ecounts freq) = map snd freq.
Proof. unfold py_sdict_values, ecounts. rewrite !map_map. reflexivity. Qed.

Lemma efreq_chk_uniform marked (freq : counts) w : Forall (fun kc => List.length (fst kc) = w) freq ->
  efreq_chk marked freq =
  match freq with
  | [] => Some Measure.IndexError
  | _ => if Nat.eqb w 0 then Some Measure.ValueError else if marked_ok w marked then None else Some Measure.IndexError
  end.
Proof. intro H. destruct freq as [|[k0 c0] r]; [reflexivity|]. inversion H as [|? ? Hk _]; subst. cbn [fst] in *. reflexivity. Qed.

(* the value computed when nothing raises: the sum is taken from the left, starting from the int 0 *)
Definition efreq_sum (marked : list nat) (freq : counts) : Q :=
  fold_left Qplus
    (map (fun x => x / inject_Z (msum (map snd freq)))
       (map (fun p => inject_Z (fst p) * snd p)
          (combine (map snd freq)
             (map (fun a => a - inject_Z 1) (map (fun a => a * inject_Z 2)
                (map inject_Z (check_parity_of_vector (map fst freq) marked)))))))
    (inject_Z 0).

Lemma efreq_value marked freq : efreq_sum marked freq == efreq_val marked freq.
Proof.
  unfold efreq_sum. rewrite fold_qsum. unfold efreq_val. cbv zeta. rewrite !map_map, !combine_map_r, !map_map. cbn [fst snd].
  apply qsum_ext. intros [c p]. cbn [fst snd].
  rewrite inject_Z_mult. unfold Z.sub. rewrite inject_Z_plus, inject_Z_mult, inject_Z_opp. unfold Qminus. reflexivity.
Qed.

Lemma efreq_gen_eval marked (freq : counts) w : Forall (fun kc => List.length (fst kc) = w) freq ->
  get_expectation_value_from_frequencies_gen num_Q (zs marked) (ecounts freq) =
  match freq with
  | [] => Raise IndexError
  | _ => if Nat.eqb w 0 then Raise ValueError
         else if marked_ok w marked
              then if Z.eqb (total freq) 0 then Raise ZeroDivisionError else Ret (efreq_sum marked freq)
              else Raise IndexError
  end.
Proof.
  intro Hw. unfold get_expectation_value_from_frequencies_gen. rewrite keys_ecounts.
  rewrite (convert_bitstrings_to_vector_gen_spec num_Q (map fst freq) w) by (rewrite Forall_map; exact Hw).
  destruct freq as [|kc0 fr] eqn:Ef; [reflexivity|]. rewrite <- Ef in *.
  replace (map fst freq) with (fst kc0 :: map fst fr) at 1 by (rewrite Ef; reflexivity). cbv iota.
  destruct (Nat.eqb w 0); [reflexivity|]. cbn [bind].
  rewrite check_parity_of_vector_gen_spec. destruct (marked_ok w marked); [|reflexivity]. cbn [bind]. cbv zeta.
  rewrite values_ecounts, sum_Z_msum. unfold np_fromiter_int.
  unfold np_broadcast2. rewrite !map_length. rewrite cpv_map, !map_length, Nat.eqb_refl. cbn [bind].
  unfold np_div_scalar. cbn [n_eqb n_int n_div n_mul n_sub num_Q].
  unfold efreq_sum. rewrite cpv_map.
  set (L := map _ (combine _ _)).
  assert (HL : L <> []).
  { subst L. rewrite Ef. cbn [map combine]. discriminate. }
  destruct L as [|l0 L'] eqn:EL; [congruence|]. rewrite <- EL. clear HL.
  unfold total. destruct (Z.eqb_spec (msum (map snd freq)) 0) as [Hz|Hz].
  - rewrite Hz. reflexivity.
  - destruct (Qeq_bool (inject_Z (msum (map snd freq))) (inject_Z 0)) eqn:Eq.
    + apply Qeq_bool_iff in Eq. unfold Qeq in Eq. cbn in Eq. lia.
    + cbn [bind]. unfold np_item, np_sum, py_sum. cbn [n_add n_int num_Q]. reflexivity.
Qed.

(* guards of the model: the keys have one width (numpy re-chunks ragged keys), and when nothing raises the total count
   is not 0 *)
Theorem efreq_gen_is_model marked (freq : counts) w : Forall (fun kc => List.length (fst kc) = w) freq ->
  (efreq_chk marked freq = None -> total freq <> 0%Z) ->
  rq (get_expectation_value_from_frequencies_gen num_Q (zs marked) (ecounts freq)) (efreq marked freq).
Proof.
  intros Hw Ht. rewrite (efreq_gen_eval marked freq w Hw). unfold efreq. rewrite (efreq_chk_uniform marked freq w Hw) in *.
  destruct freq as [|kc0 fr]; [reflexivity|]. destruct (Nat.eqb w 0); [reflexivity|].
  destruct (marked_ok w marked); [|reflexivity]. specialize (Ht eq_refl).
  destruct (Z.eqb_spec (total (kc0 :: fr)) 0) as [E|_]; [contradiction|]. cbn [rq]. apply efreq_value.
Qed.

(* total count 0 (possible only with zero / cancelling counts): numpy returns nan (0/0) with a warning; the reading
   marks it; the model function efreq_val would say 0 *)
Theorem efreq_gen_zero_total marked (freq : counts) w : Forall (fun kc => List.length (fst kc) = w) freq ->
  efreq_chk marked freq = None -> total freq = 0%Z ->
  get_expectation_value_from_frequencies_gen num_Q (zs marked) (ecounts freq) = Raise ZeroDivisionError.
Proof.
  intros Hw Hc Ht. rewrite (efreq_gen_eval marked freq w Hw). rewrite (efreq_chk_uniform marked freq w Hw) in Hc.
  destruct freq as [|kc0 fr]; [discriminate|]. destruct (Nat.eqb w 0); [discriminate|].
  destruct (marked_ok w marked); [|discriminate]. rewrite Ht. reflexivity.
Qed.

(* ------------------------------------------------------------------ convert_bitstring_to_int (no model function: characterised) *)
Fixpoint le_val (r : bits) : Z := match r with [] => 0%Z | b :: r' => (b2z b + 2 * le_val r')%Z end.

Lemma bin_digits_str s : forall acc,
  py_bin_digits (str s) acc = Some (fold_left (fun a b => (2 * a + b2z b)%Z) s acc).
Proof.
  induction s as [|b s IH]; intro acc; [reflexivity|]. cbn [str py_bin_digits fold_left].
  destruct b; cbn [bchar b2z]; cbn [Ascii.eqb Bool.eqb]; rewrite IH; f_equal; f_equal; lia.
Qed.

Lemma le_val_rev r : fold_left (fun a b => (2 * a + b2z b)%Z) (rev r) 0%Z = le_val r.
Proof.
  rewrite <- (fold_left_rev_right (fun b a => (2 * a + b2z b)%Z)), rev_involutive.
  induction r as [|b r IH]; [reflexivity|]. cbn [fold_right le_val]. rewrite IH. lia.
Qed.

Theorem convert_bitstring_to_int_gen_spec N r :
  convert_bitstring_to_int_gen N (tup r) = match r with [] => Raise ValueError | _ => Ret (le_val r) end.
Proof.
  unfold convert_bitstring_to_int_gen, py_reversed, tup. rewrite <- map_rev. fold (tup (rev r)).
  change (map (fun x : Z => py_str_of_int x) (tup (rev r))) with (map py_str_of_int (tup (rev r))).
  rewrite join_empty_sep, sconcat_bits.
  destruct r as [|b r]; [reflexivity|].
  assert (Hne : rev (b :: r) <> []) by (cbn [rev]; intro E; apply app_eq_nil in E as [_ E]; discriminate).
  rewrite <- (le_val_rev (b :: r)). destruct (rev (b :: r)) as [|c s]; [congruence|].
  unfold py_int_of_str_base2. cbn [str]. replace (Ascii.eqb (bchar c) "-"%char) with false by (destruct c; reflexivity).
  unfold py_bin_nonneg. change (String (bchar c) (str s)) with (str (c :: s)). cbn [str]. fold (str (c :: s)).
  change (String (bchar c) (str s)) with (str (c :: s)). rewrite bin_digits_str. reflexivity.
Qed.

(* ------------------------------------------------------------------ the composition get_expectation_values relies on
   Measurements.get_expectation_values (numpy code, hand-modelled by Measure.expectation_values_ising) obtains every
   entry it reports from get_expectation_value_from_frequencies(<qubits>, self.get_counts()).  For shots of one width
   that composition of the two GENERATED functions is the model's [efreq] on the model's [get_counts], with no further
   guard (the total count is the number of shots). *)
Theorem efreq_of_counts_gen_is_model marked shots w : (forall s, In s shots -> List.length s = w) ->
  rq (bind (Measurements_get_counts_gen num_Q (eshots shots))
           (fun c => get_expectation_value_from_frequencies_gen num_Q (zs marked) c))
     (efreq marked (get_counts shots)).
Proof.
  intro Hw. rewrite get_counts_gen_is_model. cbn [bind]. apply (efreq_gen_is_model marked (get_counts shots) w).
  - apply Forall_forall. intros [k c] Hin. cbn [fst]. apply Hw. apply counts_keys.
    change k with (fst (k, c)). apply in_map. exact Hin.
  - intros Hc Ht. rewrite counts_total_lemma in Ht. unfold zlen in Ht.
    destruct shots as [|s r]; [discriminate Hc|]. cbn [List.length] in Ht. lia.
Qed.
