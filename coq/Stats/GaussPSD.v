(* Positive semidefiniteness of the Gaussian (RBF) kernels of distributions/mmd.py (property C17, the clause
   "the MMD distance is non-negative").  Model: Stats/DistReal.v (quad, mmd, psd, gauss, gauss_multi).

   Proof.  exp(-g (x-y)^2) = exp(-g x^2) exp(-g y^2) exp(2g x y).  With d_i = v_i exp(-g x_i^2) the quadratic
   form is  sum_ij d_i d_j exp(a x_i x_j),  a = 2g >= 0.  exp is the limit of its Taylor partial sums (the
   standard library's definition of exp), the partial form is
      sum_{k<=N} a^k / k! * (sum_i d_i x_i^k)^2  >= 0,
   a finite linear combination of convergent sequences converges to the combination of the limits, and a limit
   of non-negative reals is non-negative.  Standard library only. *)
Require Import Coq.Reals.Reals Coq.micromega.Lra Coq.Lists.List.
Require Import Coq.ZArith.ZArith.
Require Import OQ.Stats.Dist OQ.Stats.DistReal.
Import ListNotations.
Open Scope R_scope.

(* ---- the quadratic form is linear in the kernel *)
Lemma quad_ext {A} (K1 K2 : A -> A -> R) ks v :
  (forall i j, K1 i j = K2 i j) -> quad K1 ks v = quad K2 ks v.
Proof.
  intro H. unfold quad. apply rsum_ext. intros i _. f_equal. apply rsum_ext. intros j _. rewrite H. reflexivity.
Qed.

Lemma quad_zero {A} (ks : list A) v : quad (fun _ _ => 0) ks v = 0.
Proof.
  assert (Z : forall (f : A -> R), (forall i, f i = 0) -> rsum (map f ks) = 0).
  { intros f Hf. transitivity (rsum (map (fun _ : A => 0) ks)); [|apply rsum_zero].
    apply rsum_ext. intros i _. apply Hf. }
  unfold quad. apply Z. intro i. rewrite Z; [ring|]. intro j. ring.
Qed.

Lemma quad_plus {A} (K1 K2 : A -> A -> R) ks v :
  quad (fun i j => K1 i j + K2 i j) ks v = quad K1 ks v + quad K2 ks v.
Proof.
  unfold quad. rewrite <- rsum_plus. apply rsum_ext. intros i _.
  rewrite <- Rmult_plus_distr_l. f_equal. rewrite <- rsum_plus. apply rsum_ext. intros j _. ring.
Qed.

Lemma quad_scal {A} c (K : A -> A -> R) ks v : quad (fun i j => c * K i j) ks v = c * quad K ks v.
Proof.
  unfold quad. rewrite <- rsum_scal. apply rsum_ext. intros i _.
  replace (rsum (map (fun j => c * K i j * v j) ks)) with (c * rsum (map (fun j => K i j * v j) ks)); [ring|].
  rewrite <- rsum_scal. apply rsum_ext. intros j _. ring.
Qed.

(* diagonal congruence: K'(i,j) = e(i) e(j) K(i,j) is the form of K on the rescaled vector *)
Lemma quad_congr {A} (e : A -> R) (K : A -> A -> R) ks v :
  quad (fun i j => e i * e j * K i j) ks v = quad K ks (fun i => e i * v i).
Proof.
  unfold quad. apply rsum_ext. intros i _.
  replace (rsum (map (fun j => e i * e j * K i j * v j) ks)) with (e i * rsum (map (fun j => K i j * (e j * v j)) ks)); [ring|].
  rewrite <- rsum_scal. apply rsum_ext. intros j _. ring.
Qed.

Lemma quad_sum_f_R0 {A} (T : nat -> A -> A -> R) ks v N :
  quad (fun i j => sum_f_R0 (fun k => T k i j) N) ks v = sum_f_R0 (fun k => quad (T k) ks v) N.
Proof.
  induction N as [|N IH]; [reflexivity|].
  rewrite tech5, <- IH, <- quad_plus. apply quad_ext. intros i j. rewrite tech5. reflexivity.
Qed.

Lemma quad_rsum {A B} (K : B -> A -> A -> R) (l : list B) ks v :
  quad (fun i j => rsum (map (fun s => K s i j) l)) ks v = rsum (map (fun s => quad (K s) ks v) l).
Proof.
  induction l as [|s l IH]; cbn [map rsum]; [apply quad_zero|].
  rewrite <- IH, <- quad_plus. reflexivity.
Qed.

(* ---- finite combinations of convergent sequences *)
Lemma Un_cv_const c : Un_cv (fun _ => c) c.
Proof. intros eps He. exists 0%nat. intros n _. unfold R_dist. replace (c - c) with 0 by ring. rewrite Rabs_R0. exact He. Qed.

Lemma Un_cv_scal c (U : nat -> R) l : Un_cv U l -> Un_cv (fun n => c * U n) (c * l).
Proof. intro H. exact (CV_mult (fun _ => c) U c l (Un_cv_const c) H). Qed.

Lemma Un_cv_rsum {A} (f : A -> nat -> R) (L : A -> R) (l : list A) :
  (forall i, Un_cv (f i) (L i)) -> Un_cv (fun n => rsum (map (fun i => f i n) l)) (rsum (map L l)).
Proof.
  intro H. induction l as [|i l IH]; cbn [map rsum]; [apply Un_cv_const|].
  exact (CV_plus (f i) (fun n => rsum (map (fun i0 => f i0 n) l)) _ _ (H i) IH).
Qed.

Lemma Un_cv_quad {A} (T : nat -> A -> A -> R) (K : A -> A -> R) ks v :
  (forall i j, Un_cv (fun n => T n i j) (K i j)) -> Un_cv (fun n => quad (T n) ks v) (quad K ks v).
Proof.
  intro H. unfold quad.
  apply (Un_cv_rsum (fun i n => v i * rsum (map (fun j => T n i j * v j) ks))
                    (fun i => v i * rsum (map (fun j => K i j * v j) ks))).
  intro i. apply Un_cv_scal.
  apply (Un_cv_rsum (fun j n => T n i j * v j) (fun j => K i j * v j)).
  intro j.
  assert (E : forall n, T n i j * v j = v j * T n i j) by (intro; ring).
  replace (K i j * v j) with (v j * K i j) by ring.
  intros eps He. destruct (Un_cv_scal (v j) _ _ (H i j) eps He) as [N HN].
  exists N. intros n Hn. rewrite E. apply HN. exact Hn.
Qed.

(* ---- exp as the limit of its Taylor sums (this is the standard library's definition of exp) *)
Definition taylor (n : nat) (y : R) : R := sum_f_R0 (fun k => / INR (fact k) * y ^ k) n.

Lemma taylor_cv y : Un_cv (fun n => taylor n y) (exp y).
Proof. unfold exp. destruct (exist_exp y) as [l Hl]. exact Hl. Qed.

(* ---- the exponential of a product kernel:  sum_ij d_i d_j exp(a x_i x_j) >= 0  for a >= 0 *)
Lemma taylor_term_psd {A} (a : R) (x : A -> R) ks k :
  0 <= a -> psd (fun i j => / INR (fact k) * (a * x i * x j) ^ k) ks.
Proof.
  intros Ha v.
  rewrite (quad_ext _ (fun i j => (/ INR (fact k) * a ^ k) * (x i ^ k * x j ^ k))).
  - rewrite quad_scal. apply Rmult_le_pos; [|apply (psd_rank_one (fun i => x i ^ k))].
    apply Rmult_le_pos; [left; apply Rinv_0_lt_compat, INR_fact_lt_0|apply pow_le; exact Ha].
  - intros i j. rewrite !Rpow_mult_distr. ring.
Qed.

Lemma taylor_psd {A} (a : R) (x : A -> R) ks n : 0 <= a -> psd (fun i j => taylor n (a * x i * x j)) ks.
Proof.
  intros Ha v. unfold taylor.
  rewrite (quad_sum_f_R0 (fun k i j => / INR (fact k) * (a * x i * x j) ^ k)).
  apply cond_pos_sum. intro k. apply taylor_term_psd. exact Ha.
Qed.

Lemma exp_prod_psd {A} (a : R) (x : A -> R) ks : 0 <= a -> psd (fun i j => exp (a * x i * x j)) ks.
Proof.
  intros Ha v.
  apply Rle_cv_lim with (Un := fun _ => 0) (Vn := fun n => quad (fun i j => taylor n (a * x i * x j)) ks v).
  - intro n. apply taylor_psd. exact Ha.
  - apply Un_cv_const.
  - apply (Un_cv_quad (fun n i j => taylor n (a * x i * x j))). intros i j. apply taylor_cv.
Qed.

(* ---- (1) the Gaussian kernel on arbitrary real points, gamma >= 0 *)
Lemma gauss_split g x y : exp (- g * (x - y) ^ 2) = exp (- g * x ^ 2) * exp (- g * y ^ 2) * exp (2 * g * x * y).
Proof. rewrite <- !exp_plus. f_equal. ring. Qed.

Theorem gauss_gamma_psd {A} (g : R) (x : A -> R) (ks : list A) :
  0 <= g -> psd (fun i j => exp (- g * (x i - x j) ^ 2)) ks.
Proof.
  intros Hg v.
  rewrite (quad_ext _ (fun i j => exp (- g * x i ^ 2) * exp (- g * x j ^ 2) * exp (2 * g * x i * x j)))
    by (intros i j; apply gauss_split).
  rewrite (quad_congr (fun i => exp (- g * x i ^ 2)) (fun i j => exp (2 * g * x i * x j))).
  apply exp_prod_psd. lra.
Qed.

(* the same statement written as an explicit double sum over a list of real points with coefficients c *)
Corollary gauss_double_sum_nonneg (g : R) (xs : list (R * R)) :
  0 <= g ->
  0 <= rsum (map (fun ci => rsum (map (fun cj => fst ci * fst cj * exp (- g * (snd ci - snd cj) ^ 2)) xs)) xs).
Proof.
  intro Hg. pose proof (gauss_gamma_psd g (@snd R R) xs Hg (@fst R R)) as H. unfold quad in H.
  erewrite rsum_ext; [exact H|]. intros ci _. cbv beta. rewrite <- rsum_scal. apply rsum_ext. intros cj _. ring.
Qed.

(* ---- (2) the kernels of mmd.py *)
Theorem gauss_psd (sigma : R) (ks : list key) : 0 < sigma -> psd (gauss sigma) ks.
Proof.
  intros Hs v. unfold gauss.
  rewrite (quad_ext _ (fun i j => exp (- (1 / (2 * sigma)) * (IZR (basis i) - IZR (basis j)) ^ 2)))
    by (intros i j; rewrite pow2_abs; reflexivity).
  apply (gauss_gamma_psd (1 / (2 * sigma)) (fun k => IZR (basis k))).
  apply Rlt_le, Rdiv_lt_0_compat; lra.
Qed.

(* an average (any non-negative multiple of a finite sum) of positive semidefinite kernels *)
Lemma psd_average {A B} (K : B -> A -> A -> R) (l : list B) ks :
  Forall (fun s => psd (K s) ks) l ->
  psd (fun i j => rsum (map (fun s => K s i j) l) / INR (List.length l)) ks.
Proof.
  intros H v.
  rewrite (quad_ext _ (fun i j => / INR (List.length l) * rsum (map (fun s => K s i j) l)))
    by (intros i j; unfold Rdiv; ring).
  rewrite quad_scal, quad_rsum. apply Rmult_le_pos.
  - destruct l as [|s l']; [cbn [List.length INR]; rewrite Rinv_0; lra|]. left. apply Rinv_0_lt_compat. apply lt_0_INR. simpl. apply Nat.lt_0_succ.
  - rewrite <- (rsum_zero l). apply rsum_le. intros s Hs. rewrite Forall_forall in H. apply (H s Hs).
Qed.

(* The hypothesis [sigmas <> []] is what the CODE needs: for an empty sequence of widths compute_multi_rbf_kernel
   returns zeros / 0 = nan.  The model's value there is 0 / INR 0 = 0 (gauss_multi_nil), so the proof itself does
   not use it. *)
Lemma gauss_multi_nil i j : gauss_multi [] i j = 0.
Proof. unfold gauss_multi. simpl. unfold Rdiv. ring. Qed.

Theorem gauss_multi_psd (sigmas : list R) (ks : list key) :
  sigmas <> [] -> Forall (fun s => 0 < s) sigmas -> psd (gauss_multi sigmas) ks.
Proof.
  intros _ H. unfold gauss_multi. apply (psd_average (fun s => gauss s)).
  apply Forall_impl with (2 := H). intros s Hs. apply gauss_psd. exact Hs.
Qed.

(* ---- (3) the full clause *)
Theorem mmd_gauss_nonneg : forall sigma ks p q, 0 < sigma -> 0 <= mmd (gauss sigma) ks p q.
Proof. intros sigma ks p q Hs. apply mmd_nonneg_lemma. apply gauss_psd. exact Hs. Qed.

Theorem mmd_gauss_multi_nonneg : forall sigmas ks p q,
  sigmas <> [] -> Forall (fun s => 0 < s) sigmas -> 0 <= mmd (gauss_multi sigmas) ks p q.
Proof. intros sigmas ks p q Hne Hs. apply mmd_nonneg_lemma. apply gauss_multi_psd; assumption. Qed.

(* ---- the guard on the sign of sigma is needed: for a negative width the "kernel" exp(+|gamma| (x-y)^2) is not
   positive semidefinite.  sigma = -1/2 (gamma = -1), outcomes (0) and (1), p = delta_(1), q = delta_(0):
   diff = (-1, 1),  MMD = 2 - 2 e < 0. *)
Lemma mmd_gauss_negative_sigma_value :
  mmd (gauss (-1 / 2)) [[0%nat]; [1%nat]] (fun k => IZR (basis k)) (fun k => 1 - IZR (basis k)) = 2 - 2 * exp 1.
Proof.
  unfold mmd, quad, gauss. cbn [map rsum].
  change (basis [0%nat]) with 0%Z. change (basis [1%nat]) with 1%Z.
  replace (- (1 / (2 * (-1 / 2))) * Rabs (0 - 0) ^ 2) with 0 by (rewrite pow2_abs; field).
  replace (- (1 / (2 * (-1 / 2))) * Rabs (0 - 1) ^ 2) with 1 by (rewrite pow2_abs; field).
  replace (- (1 / (2 * (-1 / 2))) * Rabs (1 - 0) ^ 2) with 1 by (rewrite pow2_abs; field).
  replace (- (1 / (2 * (-1 / 2))) * Rabs (1 - 1) ^ 2) with 0 by (rewrite pow2_abs; field).
  rewrite exp_0. ring.
Qed.

(* 1 + 1 + 1/2 <= e: a partial sum of a series of non-negative terms is below its limit (avoids the mean value
   theorem behind the library's exp_ineq1, which needs excluded middle) *)
Lemma exp_1_lower : 5 / 2 <= exp 1.
Proof.
  replace (5 / 2) with (taylor 2 1) by (unfold taylor; simpl; field).
  unfold taylor. apply sum_incr; [exact (taylor_cv 1)|].
  intro n. apply Rmult_le_pos; [left; apply Rinv_0_lt_compat, INR_fact_lt_0|apply pow_le; lra].
Qed.

Theorem mmd_gauss_negative_sigma_refuted :
  exists sigma ks p q, sigma < 0 /\ (forall k, In k ks -> 0 <= p k /\ 0 <= q k) /\
    rsum (map p ks) = 1 /\ rsum (map q ks) = 1 /\ mmd (gauss sigma) ks p q < 0.
Proof.
  exists (-1 / 2), [[0%nat]; [1%nat]], (fun k => IZR (basis k)), (fun k => 1 - IZR (basis k)).
  split; [lra|]. split.
  { intros k [E|[E|[]]]; subst k; [change (basis [0%nat]) with 0%Z|change (basis [1%nat]) with 1%Z]; lra. }
  split; [cbn [map rsum]; change (basis [0%nat]) with 0%Z; change (basis [1%nat]) with 1%Z; lra|].
  split; [cbn [map rsum]; change (basis [0%nat]) with 0%Z; change (basis [1%nat]) with 1%Z; lra|].
  rewrite mmd_gauss_negative_sigma_value. pose proof exp_1_lower. lra.
Qed.

(* ---- non-vacuity: three outcomes on two bits, two widths *)
Example mmd_gauss_multi_nonneg_example :
  0 <= mmd (gauss_multi [1 / 4; 2]) [[0; 1]; [1; 0]; [1; 1]]%nat
           (fun k => match basis k with 1%Z => 1 / 2 | 2%Z => 1 / 2 | _ => 0 end)
           (fun k => match basis k with 3%Z => 3 / 4 | 2%Z => 1 / 4 | _ => 0 end).
Proof. apply mmd_gauss_multi_nonneg; [discriminate|]. repeat constructor; lra. Qed.

Example gauss_psd_example : psd (gauss 1) [[0; 1]; [1; 0]; [1; 1]]%nat.
Proof. apply gauss_psd. lra. Qed.
