(* Proofs about the shot bookkeeping model (property C13). *)
Require Import Coq.ZArith.ZArith Coq.Lists.List Coq.Bool.Bool Coq.micromega.Lia Coq.Strings.String.
Require Import OQ.Gen.ExpandGen OQ.Stats.Shots.
Import ListNotations.
Open Scope Z_scope.
Arguments expand_sample_size : simpl never.

Lemma zsum_app l1 l2 : zsum (l1 ++ l2) = zsum l1 + zsum l2.
Proof. induction l1 as [|x l1 IH]; simpl; lia. Qed.

Lemma zsum_concat ll : zsum (List.concat ll) = zsum (map zsum ll).
Proof. induction ll as [|l ll IH]; simpl; [reflexivity|]. rewrite zsum_app, IH. reflexivity. Qed.

Lemma zsum_flat_map {A} (f : A -> list Z) l : zsum (flat_map f l) = zsum (map (fun x => zsum (f x)) l).
Proof. induction l as [|x l IH]; simpl; [reflexivity|]. rewrite zsum_app, IH. reflexivity. Qed.

Lemma rep_single_sum k x : zsum (rep_tuple k [x]) = x * Z.of_nat (Z.to_nat k).
Proof. unfold rep_tuple. induction (Z.to_nat k) as [|j IH]; [simpl; lia|].
  cbn [repeat List.concat app zsum fold_right] in *. unfold zsum in *. lia. Qed.

Lemma rep_single_length k x : List.length (rep_tuple k [x]) = Z.to_nat k.
Proof. unfold rep_tuple. induction (Z.to_nat k) as [|j IH]; simpl; [reflexivity|]. rewrite IH. reflexivity. Qed.

Lemma rep_single_forall k x (P : Z -> Prop) : P x -> Forall P (rep_tuple k [x]).
Proof. intro H. unfold rep_tuple. induction (Z.to_nat k) as [|j IH]; simpl; constructor; assumption. Qed.

Lemma ceil_div n m : 0 < m ->
  - ((- n) / m) = if (n mod m =? 0) then n / m else n / m + 1.
Proof.
  intro Hm. destruct (n mod m =? 0) eqn:E.
  - apply Z.eqb_eq in E. rewrite Z_div_zero_opp_full by assumption. lia.
  - apply Z.eqb_neq in E. rewrite Z_div_nz_opp_full by (assumption || lia). lia.
Qed.

(* Everything the property says about one circuit's expansion. *)
Lemma expand_one_spec n m : 0 < n -> 0 < m ->
  zsum (fst (expand_sample_size n m)) = n /\
  Forall (fun c => 1 <= c <= m) (fst (expand_sample_size n m)) /\
  Z.of_nat (List.length (fst (expand_sample_size n m))) = snd (expand_sample_size n m) /\
  0 < snd (expand_sample_size n m).
Proof.
  intros Hn Hm. unfold expand_sample_size. cbv zeta. cbn [fst snd].
  rewrite (ceil_div n m Hm).
  pose proof (Z.div_mod n m ltac:(lia)) as Hdm.
  pose proof (Z.mod_pos_bound n m Hm) as Hb.
  assert (Hq : 0 <= n / m) by (apply Z.div_pos; lia).
  destruct (n mod m =? 0) eqn:E.
  - apply Z.eqb_eq in E.
    assert (Hq1 : 0 < n / m) by nia.
    rewrite rep_single_sum, rep_single_length, Z2Nat.id by lia.
    repeat split; try lia. apply rep_single_forall. lia.
  - apply Z.eqb_neq in E.
    replace (n / m + 1 - 1) with (n / m) by lia.
    rewrite zsum_app, rep_single_sum, app_length, rep_single_length, Z2Nat.id by lia.
    cbn [zsum fold_right List.length]. repeat split; try lia.
    apply Forall_app. split; [apply rep_single_forall; lia|]. constructor; [lia|constructor].
Qed.

(* ---- expand_sample_sizes over a whole list *)
Definition pos_list (l : list Z) := Forall (fun n => 0 < n) l.

Lemma expand_sizes_new_n {A} (cs : list A) ns m :
  snd (fst (expand_sample_sizes cs ns m)) = flat_map (fun n => fst (expand_sample_size n m)) ns.
Proof. unfold expand_sample_sizes. cbn [fst snd]. induction ns as [|n ns IH]; simpl; [reflexivity|]. rewrite IH. reflexivity. Qed.

Lemma expand_sizes_mults {A} (cs : list A) ns m :
  snd (expand_sample_sizes cs ns m) = map (fun n => snd (expand_sample_size n m)) ns.
Proof. unfold expand_sample_sizes. cbn [fst snd]. rewrite map_map. reflexivity. Qed.

Lemma expand_sizes_range {A} (cs : list A) ns m : pos_list ns -> 0 < m ->
  Forall (fun c => 1 <= c <= m) (snd (fst (expand_sample_sizes cs ns m))).
Proof.
  intros Hns Hm. rewrite expand_sizes_new_n. induction Hns as [|n ns Hn _ IH]; simpl; [constructor|].
  apply Forall_app. split; [apply (expand_one_spec n m Hn Hm)|exact IH].
Qed.

(* regrouping the expanded sample sizes by the multiplicities gives back, per circuit, chunks summing to the request *)
Lemma regroup_flat_map {A B} (f : A -> list B) (l : list A) :
  regroup (flat_map f l) (map (fun x => List.length (f x)) l) = map f l.
Proof.
  induction l as [|x l IH]; simpl; [reflexivity|].
  rewrite firstn_app, Nat.sub_diag, firstn_all, firstn_O, app_nil_r.
  rewrite skipn_app, Nat.sub_diag, skipn_all, skipn_O. simpl. rewrite IH. reflexivity.
Qed.

Lemma expand_sizes_regroup {A} (cs : list A) ns m : pos_list ns -> 0 < m ->
  regroup (snd (fst (expand_sample_sizes cs ns m))) (map Z.to_nat (snd (expand_sample_sizes cs ns m)))
  = map (fun n => fst (expand_sample_size n m)) ns.
Proof.
  intros Hns Hm. rewrite expand_sizes_new_n, expand_sizes_mults, map_map.
  rewrite <- (regroup_flat_map (fun n => fst (expand_sample_size n m)) ns). f_equal.
  apply map_ext_in. intros n Hin.
  assert (Hn : 0 < n) by (eapply Forall_forall in Hns; eauto).
  destruct (expand_one_spec n m Hn Hm) as (_ & _ & Hl & _). rewrite <- Hl. apply Nat2Z.id.
Qed.

Lemma expand_sizes_totals {A} (cs : list A) ns m : pos_list ns -> 0 < m ->
  map zsum (regroup (snd (fst (expand_sample_sizes cs ns m))) (map Z.to_nat (snd (expand_sample_sizes cs ns m)))) = ns.
Proof.
  intros Hns Hm. rewrite expand_sizes_regroup by assumption. rewrite map_map.
  rewrite <- (map_id ns) at 2. apply map_ext_in. intros n Hin.
  assert (Hn : 0 < n) by (eapply Forall_forall in Hns; eauto).
  apply (expand_one_spec n m Hn Hm).
Qed.

Lemma expand_sizes_circuits {A} (cs : list A) ns m : List.length cs = List.length ns ->
  fst (fst (expand_sample_sizes cs ns m))
  = flat_map (fun cn => repeat (fst cn) (Z.to_nat (snd (expand_sample_size (snd cn) m)))) (combine cs ns).
Proof.
  intro Hl. unfold expand_sample_sizes. cbn [fst snd]. rewrite map_map.
  revert ns Hl. induction cs as [|c cs IH]; intros [|n ns] Hl; simpl in *; try reflexivity; try discriminate.
  f_equal. apply IH. lia.
Qed.

Lemma expand_sizes_same_length {A} (cs : list A) ns m : pos_list ns -> 0 < m -> List.length cs = List.length ns ->
  List.length (fst (fst (expand_sample_sizes cs ns m))) = List.length (snd (fst (expand_sample_sizes cs ns m))).
Proof.
  intros Hns Hm Hl. rewrite expand_sizes_circuits by assumption. rewrite expand_sizes_new_n.
  revert cs Hl. induction Hns as [|n ns Hn _ IH]; intros [|c cs] Hl; cbn [flat_map combine List.length fst snd] in *; try reflexivity; try discriminate.
  rewrite !app_length, repeat_length. rewrite IH by lia. f_equal.
  destruct (expand_one_spec n m Hn Hm) as (_ & _ & Hlen & _). rewrite <- Hlen. apply Nat2Z.id.
Qed.

(* ---- regroup / combine: nothing lost, nothing invented *)
Lemma regroup_concat {A} (xs : list A) mults :
  List.length xs = fold_right Nat.add 0%nat mults -> List.concat (regroup xs mults) = xs.
Proof.
  revert xs. induction mults as [|k ms IH]; intros xs H; simpl in *.
  - destruct xs; [reflexivity|discriminate].
  - rewrite IH; [apply firstn_skipn|]. rewrite skipn_length. lia.
Qed.

Lemma regroup_lengths {A} (xs : list A) mults :
  List.length xs = fold_right Nat.add 0%nat mults -> map (@List.length A) (regroup xs mults) = mults.
Proof.
  revert xs. induction mults as [|k ms IH]; intros xs H; simpl in *; [reflexivity|].
  rewrite firstn_length, IH; [f_equal; lia|]. rewrite skipn_length. lia.
Qed.

Lemma zsum_to_nat mults : Forall (fun k => 0 <= k) mults ->
  Z.to_nat (zsum mults) = fold_right Nat.add 0%nat (map Z.to_nat mults).
Proof.
  induction 1 as [|k ms Hk Hms IH]; simpl; [reflexivity|].
  assert (0 <= zsum ms) by (clear IH; induction Hms; simpl; lia).
  rewrite Z2Nat.inj_add by assumption. rewrite IH. reflexivity.
Qed.

Lemma nonneg_forallb mults : forallb (fun k => 0 <=? k) mults = true <-> Forall (fun k => 0 <= k) mults.
Proof.
  rewrite forallb_forall, Forall_forall. split; intros H k Hin; [apply Z.leb_le|apply Z.leb_le]; now apply H.
Qed.

Lemma nonneg_forallb_false mults : forallb (fun k => 0 <=? k) mults = false <-> exists k, In k mults /\ k < 0.
Proof.
  split.
  - induction mults as [|k ms IH]; cbn [forallb]; [discriminate|].
    destruct (0 <=? k) eqn:Hk; cbn [andb].
    + intros H. destruct (IH H) as [k0 [Hin Hneg]]. exists k0. split; [now right|exact Hneg].
    + intros _. exists k. split; [now left|]. now apply Z.leb_gt.
  - intros [k [Hin Hneg]]. destruct (forallb (fun k => 0 <=? k) mults) eqn:E; [|reflexivity].
    apply nonneg_forallb in E. rewrite Forall_forall in E. specialize (E k Hin). lia.
Qed.

Lemma combine_bitstrings_partition {A} (all : list (list A)) mults groups :
  combine_bitstrings all mults = Some groups ->
  Forall (fun k => 0 <= k) mults /\
  exists parts, List.concat parts = all /\ map (@List.length _) parts = map Z.to_nat mults /\ groups = map (@List.concat A) parts.
Proof.
  intros H. unfold combine_bitstrings in H. destruct (Z.eqb_spec (Z.of_nat (List.length all)) (zsum mults)) as [E|E]; [|discriminate].
  destruct (forallb (fun k => 0 <=? k) mults) eqn:Hm; [|discriminate]. apply nonneg_forallb in Hm.
  split; [exact Hm|].
  inversion H; subst groups; clear H. exists (regroup all (map Z.to_nat mults)).
  assert (Hl : List.length all = fold_right Nat.add 0%nat (map Z.to_nat mults)).
  { rewrite <- zsum_to_nat by assumption. rewrite <- E. symmetry. apply Nat2Z.id. }
  repeat split; [apply regroup_concat|apply regroup_lengths]; assumption.
Qed.

Lemma combine_bitstrings_rejects {A} (all : list (list A)) mults :
  Z.of_nat (List.length all) <> zsum mults -> combine_bitstrings all mults = None.
Proof. intro H. unfold combine_bitstrings. destruct (Z.eqb_spec (Z.of_nat (List.length all)) (zsum mults)); [contradiction|reflexivity]. Qed.

Lemma combine_bitstrings_rejects_negative {A} (all : list (list A)) mults :
  (exists k, In k mults /\ k < 0) -> combine_bitstrings all mults = None.
Proof.
  intro H. apply nonneg_forallb_false in H. unfold combine_bitstrings. rewrite H.
  now destruct (Z.eqb (Z.of_nat (List.length all)) (zsum mults)).
Qed.

(* counts: per-key counts and totals add up *)
Lemma count_of_add k k' c d : count_of k (add_count k' c d) = count_of k d + (if String.eqb k k' then c else 0).
Proof.
  unfold count_of. induction d as [|[k2 c2] d IH]; simpl.
  - destruct (String.eqb k k'); simpl; lia.
  - destruct (String.eqb_spec k' k2) as [E|E]; simpl.
    + subst k2. destruct (String.eqb k k'); simpl; lia.
    + destruct (String.eqb k k2); simpl; rewrite IH; lia.
Qed.

Lemma count_of_nil k : count_of k [] = 0.
Proof. reflexivity. Qed.

Lemma count_of_cons k k2 c2 b : count_of k ((k2, c2) :: b) = (if String.eqb k k2 then c2 else 0) + count_of k b.
Proof. unfold count_of. simpl. destruct (String.eqb k k2); simpl; lia. Qed.

Lemma count_of_combine2 k a b : count_of k (combine2 a b) = count_of k a + count_of k b.
Proof.
  unfold combine2. revert a. induction b as [|[k2 c2] b IH]; intro a; cbn [fold_left fst snd].
  - rewrite count_of_nil. lia.
  - rewrite IH, count_of_add, count_of_cons. lia.
Qed.

Lemma total_add k c d : total (add_count k c d) = total d + c.
Proof. unfold total. induction d as [|[k2 c2] d IH]; simpl; [lia|]. destruct (String.eqb k k2); simpl; lia. Qed.

Lemma total_combine2 a b : total (combine2 a b) = total a + total b.
Proof.
  unfold combine2. revert a. induction b as [|[k2 c2] b IH]; intro a; simpl; [unfold total; simpl; lia|].
  rewrite IH, total_add. unfold total. simpl. lia.
Qed.

Lemma combine_group_counts g r : combine_group g = Some r ->
  (forall k, count_of k r = zsum (map (count_of k) g)) /\ total r = zsum (map total g).
Proof.
  destruct g as [|m ms]; simpl; [discriminate|]. intro H; inversion H; subst r; clear H.
  revert m. induction ms as [|m2 ms IH]; intro m; simpl.
  - split; [intro k|]; lia.
  - destruct (IH (combine2 m m2)) as [H1 H2]. split.
    + intro k. rewrite H1, count_of_combine2. simpl. lia.
    + rewrite H2, total_combine2. simpl. lia.
Qed.

(* ---- batches *)
Lemma chunks_concat {A} fuel k (xs : list A) : (0 < k)%nat -> (List.length xs <= fuel)%nat ->
  List.concat (chunks fuel k xs) = xs.
Proof.
  intro Hk. revert xs. induction fuel as [|f IH]; intros xs Hl; simpl.
  - destruct xs; [reflexivity|simpl in Hl; lia].
  - destruct xs as [|x xs']; [reflexivity|]. set (l := x :: xs') in *.
    simpl. rewrite IH; [apply firstn_skipn|]. rewrite skipn_length. subst l. cbn [List.length] in *. lia.
Qed.

Lemma chunks_bounded {A} fuel k (xs : list A) : (0 < k)%nat ->
  Forall (fun c => (1 <= List.length c <= k)%nat) (chunks fuel k xs).
Proof.
  intro Hk. revert xs. induction fuel as [|f IH]; intros xs; simpl; [constructor|].
  destruct xs as [|x xs']; [constructor|]. constructor; [|apply IH].
  rewrite firstn_length. simpl. lia.
Qed.

Lemma chunks_lengths_agree {A B} fuel k (xs : list A) (ys : list B) :
  List.length xs = List.length ys ->
  map (@List.length A) (chunks fuel k xs) = map (@List.length B) (chunks fuel k ys).
Proof.
  revert xs ys. induction fuel as [|f IH]; intros xs ys Hl; simpl; [reflexivity|].
  destruct xs as [|x xs'], ys as [|y ys']; try discriminate; [reflexivity|].
  cbn [map]. rewrite !firstn_length. f_equal; [simpl in *; lia|].
  apply IH. rewrite !skipn_length. lia.
Qed.

Lemma fold_max_ge r : forall x y, In y (x :: r) -> y <= fold_left Z.max r x.
Proof.
  induction r as [|z r IH]; intros x y Hin; simpl in *.
  - destruct Hin as [E|[]]. lia.
  - pose proof (IH (Z.max x z) (Z.max x z) (or_introl eq_refl)) as Hm.
    destruct Hin as [E|[E|Hin]]; [lia|lia|].
    apply IH. right. exact Hin.
Qed.

Lemma zmax_list_ge l y : In y l -> y <= zmax_list l.
Proof. destruct l as [|x r]; [intros []|]. apply fold_max_ge. Qed.

Lemma fold_max_in r : forall x, In (fold_left Z.max r x) (x :: r).
Proof.
  induction r as [|z r IH]; intro x; cbn [fold_left]; [left; reflexivity|].
  destruct (IH (Z.max x z)) as [H|H].
  - rewrite <- H. destruct (Z.max_spec x z) as [[_ E]|[_ E]]; rewrite E; [right; left|left]; reflexivity.
  - right. right. exact H.
Qed.

Lemma zmax_list_in l : l <> [] -> In (zmax_list l) l.
Proof. destruct l as [|x r]; [congruence|]. intros _. apply fold_max_in. Qed.

(* ---- scale_and_discretize *)
Lemma zsum_map_add {A} (f g : A -> Z) l : zsum (map (fun x => f x + g x) l) = zsum (map f l) + zsum (map g l).
Proof. induction l as [|x l IH]; simpl; lia. Qed.

Lemma zsum_map_mul c l : zsum (map (fun w => w * c) l) = zsum l * c.
Proof. induction l as [|x l IH]; simpl; lia. Qed.

Lemma floors_remainders ws T : 0 < zsum ws ->
  zsum ws * zsum (map (fun w => (w * T) / zsum ws) ws) + zsum (remainders ws T) = zsum ws * T.
Proof.
  intro HS. unfold remainders. set (S := zsum ws) in *.
  assert (H : forall l, S * zsum (map (fun w => w * T / S) l) + zsum (map (fun w => (w * T) mod S) l) = zsum l * T).
  { induction l as [|w l IH]; simpl; [lia|]. pose proof (Z.div_mod (w * T) S ltac:(lia)). lia. }
  rewrite H. subst S. lia.
Qed.

Lemma remainders_bound ws T : 0 < zsum ws ->
  0 <= zsum (remainders ws T) /\ (ws <> [] -> zsum (remainders ws T) < zsum ws * Z.of_nat (List.length ws)).
Proof.
  intro HS. unfold remainders. set (S := zsum ws) in *. clearbody S.
  induction ws as [|w ws IH]; simpl.
  - split; [lia|congruence].
  - pose proof (Z.mod_pos_bound (w * T) S HS). destruct IH as [IH1 IH2]. split; [lia|]. intros _.
    destruct ws as [|w2 ws]; [simpl in *; lia|]. specialize (IH2 ltac:(congruence)). lia.
Qed.

(* number of top-ups: 0 <= k < length *)
Lemma topups_range ws T : 0 < zsum ws -> 0 <= T ->
  let k := T - zsum (map (fun w => (w * T) / zsum ws) ws) in
  0 <= k /\ (k < Z.of_nat (List.length ws) \/ k = 0).
Proof.
  intros HS HT k. pose proof (floors_remainders ws T HS) as H.
  destruct (remainders_bound ws T HS) as [H0 H1].
  assert (Hk : zsum ws * k = zsum (remainders ws T)) by (subst k; lia).
  split; [nia|]. destruct ws as [|w ws]; [simpl in HS; lia|]. left. specialize (H1 ltac:(congruence)). nia.
Qed.

Lemma In_firstn {A} (x : A) k l : In x (firstn k l) -> In x l.
Proof. intro H. rewrite <- (firstn_skipn k l). apply in_or_app. left. exact H. Qed.

Lemma NoDup_firstn {A} k (l : list A) : NoDup l -> NoDup (firstn k l).
Proof.
  intro H. revert k. induction H as [|x l Hx Hl IH]; intro k; destruct k; simpl; try constructor.
  - intro Hin. apply Hx. eapply In_firstn. exact Hin.
  - apply IH.
Qed.

Definition ind (l : list nat) (i : nat) : Z := if existsb (Nat.eqb i) l then 1 else 0.

Lemma existsb_eqb_false j l : ~ In j l -> existsb (Nat.eqb j) l = false.
Proof.
  intro H. apply not_true_is_false. intro Hx. apply existsb_exists in Hx.
  destruct Hx as [x [Hx1 Hx2]]. apply Nat.eqb_eq in Hx2. subst x. contradiction.
Qed.

Lemma ind_cons j l i : ~ In j l -> ind (j :: l) i = ind l i + (if Nat.eqb i j then 1 else 0).
Proof.
  intro H. unfold ind. cbn [existsb]. destruct (Nat.eqb_spec i j) as [E|N]; cbn [orb].
  - subst i. rewrite (existsb_eqb_false j l H). lia.
  - destruct (existsb (Nat.eqb i) l); lia.
Qed.

Lemma single_count_zero j n : forall a, (j < a)%nat ->
  zsum (map (fun i => if Nat.eqb i j then 1 else 0) (seq a n)) = 0.
Proof.
  induction n as [|n IH]; intros a Ha; cbn [seq map zsum fold_right]; [reflexivity|].
  fold (zsum (map (fun i => if Nat.eqb i j then 1 else 0) (seq (S a) n))). rewrite IH by lia.
  destruct (Nat.eqb_spec a j); lia.
Qed.

Lemma single_count j n : forall a, (a <= j < a + n)%nat ->
  zsum (map (fun i => if Nat.eqb i j then 1 else 0) (seq a n)) = 1.
Proof.
  induction n as [|n IH]; intros a Ha; [lia|]. cbn [seq map zsum fold_right].
  fold (zsum (map (fun i => if Nat.eqb i j then 1 else 0) (seq (S a) n))).
  destruct (Nat.eqb_spec a j) as [E|N].
  - rewrite single_count_zero by lia. lia.
  - rewrite IH by lia. lia.
Qed.

Lemma ind_sum l n : NoDup l -> Forall (fun i => (i < n)%nat) l ->
  zsum (map (ind l) (seq 0 n)) = Z.of_nat (List.length l).
Proof.
  induction l as [|j l IH]; intros Hnd Hr.
  - unfold ind. cbn [existsb List.length]. induction (seq 0 n) as [|x s IHs]; cbn [map zsum fold_right]; [reflexivity|].
    fold (zsum (map (fun _ : nat => 0) s)). rewrite IHs. reflexivity.
  - inversion Hnd as [|? ? Hni Hnd']; subst. inversion Hr as [|? ? Hj Hr']; subst.
    rewrite (map_ext _ (fun i => ind l i + (if Nat.eqb i j then 1 else 0))) by (intro i; apply ind_cons; assumption).
    rewrite zsum_map_add, IH by assumption. rewrite single_count by lia. cbn [List.length]. lia.
Qed.

Lemma bump_sum order k n : NoDup order -> Forall (fun i => (i < n)%nat) order -> (k <= List.length order)%nat ->
  zsum (map (bump order k) (seq 0 n)) = Z.of_nat k.
Proof.
  intros Hnd Hr Hk. change (bump order k) with (ind (firstn k order)). rewrite ind_sum.
  - rewrite firstn_length. lia.
  - apply NoDup_firstn. exact Hnd.
  - apply Forall_forall. intros x Hx. eapply Forall_forall in Hr; [exact Hr|]. eapply In_firstn. exact Hx.
Qed.

Lemma map_snd_combine_seq (l : list Z) : forall a, map (fun iw : nat * Z => snd iw) (combine (seq a (List.length l)) l) = l.
Proof. induction l as [|x l IH]; intro a; cbn [List.length seq combine map snd]; [reflexivity|]. rewrite IH. reflexivity. Qed.

Lemma map_fst_combine_seq (f : nat -> Z) (l : list Z) : forall a,
  map (fun iw : nat * Z => f (fst iw)) (combine (seq a (List.length l)) l) = map f (seq a (List.length l)).
Proof. induction l as [|x l IH]; intro a; cbn [List.length seq combine map fst]; [reflexivity|]. rewrite IH. reflexivity. Qed.

(* The result sums to the requested total, for every duplicate-free in-range top-up order that is long enough. *)
Lemma scale_sum ws T order : 0 < zsum ws -> 0 <= T ->
  NoDup order -> Forall (fun i => (i < List.length ws)%nat) order ->
  (Z.to_nat (T - zsum (map (fun w => (w * T) / zsum ws) ws))%Z <= List.length order)%nat ->
  zsum (scale_and_discretize ws T order) = T.
Proof.
  intros HS HT Hnd Hr Hk. unfold scale_and_discretize.
  set (floors := map (fun w => w * T / zsum ws) ws) in *.
  set (k := Z.to_nat (T - zsum floors)) in *.
  rewrite (zsum_map_add (fun iw : nat * Z => snd iw) (fun iw : nat * Z => bump order k (fst iw))).
  assert (Hlen : List.length floors = List.length ws) by (subst floors; apply map_length).
  assert (E1 : map (fun iw : nat * Z => snd iw) (combine (seq 0 (List.length ws)) floors) = floors).
  { rewrite <- Hlen. apply map_snd_combine_seq. }
  assert (E2 : map (fun iw : nat * Z => bump order k (fst iw)) (combine (seq 0 (List.length ws)) floors)
               = map (bump order k) (seq 0 (List.length ws))).
  { rewrite <- Hlen. apply map_fst_combine_seq. }
  rewrite E1, E2, bump_sum by assumption.
  destruct (topups_range ws T HS HT) as [H0 _]. fold floors in H0. subst k. rewrite Z2Nat.id by lia. lia.
Qed.

Lemma nth_map_combine_seq (f : nat -> Z) (l : list Z) : forall a i, (i < List.length l)%nat ->
  nth i (map (fun iw : nat * Z => snd iw + f (fst iw)) (combine (seq a (List.length l)) l)) 0 = nth i l 0 + f (a + i)%nat.
Proof.
  induction l as [|x l IH]; intros a i Hi; cbn [List.length] in Hi; [lia|].
  cbn [List.length seq combine map fst snd]. destruct i as [|i]; cbn [nth].
  - rewrite Nat.add_0_r. reflexivity.
  - rewrite IH by lia. f_equal. f_equal. lia.
Qed.

(* Each entry is within one of its proportional share  w*T/S  (stated without division).
   For an arbitrary top-up order the bound is  -S < S*r - w*T <= S ; it is strict on both sides as soon as
   top-ups only land on entries with a non-zero remainder (what sorting by remainder achieves). *)
Lemma scale_within_one_gen ws T order i : 0 < zsum ws ->
  (i < List.length ws)%nat ->
  let r := nth i (scale_and_discretize ws T order) 0 in
  let w := nth i ws 0 in
  let k := Z.to_nat (T - zsum (map (fun w => (w * T) / zsum ws) ws)) in
  - zsum ws < zsum ws * r - w * T <= zsum ws /\
  ((bump order k i = 1 -> 0 < (w * T) mod zsum ws) -> zsum ws * r - w * T < zsum ws).
Proof.
  intros HS Hi r w k0. subst r k0. unfold scale_and_discretize.
  set (S := zsum ws) in *. set (floors := map (fun w => w * T / S) ws).
  set (k := Z.to_nat (T - zsum floors)). clearbody k.
  assert (Hlen : List.length floors = List.length ws) by (subst floors; apply map_length).
  rewrite <- Hlen. rewrite nth_map_combine_seq by lia. cbn [Nat.add].
  assert (En : nth i floors 0 = w * T / S).
  { subst w floors. rewrite <- (map_nth (fun w => w * T / S) ws 0 i). apply nth_indep. rewrite map_length. lia. }
  rewrite En.
  pose proof (Z.div_mod (w * T) S ltac:(lia)) as Hdm. pose proof (Z.mod_pos_bound (w * T) S HS) as Hb.
  set (q := w * T / S) in *. set (m := (w * T) mod S) in *. clearbody q m.
  clear En Hlen. clearbody w S.
  unfold bump. destruct (existsb (Nat.eqb i) (firstn k order)); (split; [lia|intro H]); [specialize (H eq_refl)|]; lia.
Qed.

(* ---- assembling: expand, run each copy for exactly its chunk size, combine *)
Lemma regroup_map {A B} (f : A -> B) (xs : list A) ks : regroup (map f xs) ks = map (map f) (regroup xs ks).
Proof.
  revert xs. induction ks as [|k ks IH]; intro xs; cbn [regroup map]; [reflexivity|].
  rewrite firstn_map, skipn_map, IH. reflexivity.
Qed.

Lemma length_concat {A} (g : list (list A)) : List.length (List.concat g) = fold_right Nat.add 0%nat (map (@List.length A) g).
Proof. induction g as [|x g IH]; simpl; [reflexivity|]. rewrite app_length, IH. reflexivity. Qed.

Lemma nat_sum_to_nat l : Forall (fun c => 0 <= c) l -> fold_right Nat.add 0%nat (map Z.to_nat l) = Z.to_nat (zsum l).
Proof. intro H. symmetry. apply zsum_to_nat. exact H. Qed.

Lemma expand_mults_sum {A} (cs : list A) ns m : pos_list ns -> 0 < m ->
  zsum (snd (expand_sample_sizes cs ns m)) = Z.of_nat (List.length (snd (fst (expand_sample_sizes cs ns m)))).
Proof.
  intros Hns Hm. rewrite expand_sizes_mults, expand_sizes_new_n.
  induction Hns as [|n ns Hn _ IH]; cbn [map flat_map zsum fold_right List.length]; [reflexivity|].
  fold (zsum (map (fun n => snd (expand_sample_size n m)) ns)). rewrite IH, app_length, Nat2Z.inj_add.
  destruct (expand_one_spec n m Hn Hm) as (_ & _ & Hl & _). lia.
Qed.

Lemma expand_mults_pos {A} (cs : list A) ns m : pos_list ns -> 0 < m ->
  Forall (fun k => 0 < k) (snd (expand_sample_sizes cs ns m)).
Proof.
  intros Hns Hm. rewrite expand_sizes_mults. induction Hns as [|n ns Hn _ IH]; cbn [map]; constructor; [|exact IH].
  apply (expand_one_spec n m Hn Hm).
Qed.

Lemma expand_run_combine {A} (cs : list A) (B : Type) ns m (res : list (list B)) :
  pos_list ns -> 0 < m ->
  map (@List.length B) res = map Z.to_nat (snd (fst (expand_sample_sizes cs ns m))) ->
  exists groups, combine_bitstrings res (snd (expand_sample_sizes cs ns m)) = Some groups /\
                 map (@List.length B) groups = map Z.to_nat ns.
Proof.
  intros Hns Hm Hres. unfold combine_bitstrings.
  assert (Hlen : List.length res = List.length (snd (fst (expand_sample_sizes cs ns m)))).
  { rewrite <- (map_length (@List.length B) res), Hres, map_length. reflexivity. }
  rewrite (expand_mults_sum cs ns m Hns Hm), Hlen, Z.eqb_refl.
  assert (Hnn : forallb (fun k => 0 <=? k) (snd (expand_sample_sizes cs ns m)) = true).
  { apply nonneg_forallb. eapply Forall_impl; [|apply (expand_mults_pos cs ns m Hns Hm)]. intros k Hk. cbn beta in Hk. lia. }
  rewrite Hnn. eexists. split; [reflexivity|].
  rewrite map_map.
  rewrite (map_ext _ (fun g => fold_right Nat.add 0%nat (map (@List.length B) g))) by (intro g; apply length_concat).
  rewrite <- (map_map (map (@List.length B)) (fold_right Nat.add 0%nat)).
  rewrite <- regroup_map, Hres, regroup_map, map_map.
  rewrite (expand_sizes_regroup cs ns m Hns Hm), map_map.
  apply map_ext_in. intros n Hin.
  assert (Hn : 0 < n) by (eapply Forall_forall in Hns; eauto).
  destruct (expand_one_spec n m Hn Hm) as (Hs & Hr & _ & _).
  rewrite nat_sum_to_nat; [rewrite Hs; reflexivity|].
  eapply Forall_impl; [|exact Hr]. intros c Hc. simpl in Hc. lia.
Qed.

(* ---- split_into_batches *)
Lemma map_fst_combine {A B} (l : list A) (r : list B) : List.length l = List.length r -> map fst (combine l r) = l.
Proof. revert r. induction l as [|x l IH]; intros [|y r] H; simpl in *; try reflexivity; try discriminate. f_equal. apply IH. lia. Qed.
Lemma map_snd_combine {A B} (l : list A) (r : list B) : List.length l = List.length r -> map snd (combine l r) = r.
Proof. revert r. induction l as [|x l IH]; intros [|y r] H; simpl in *; try reflexivity; try discriminate. f_equal. apply IH. lia. Qed.

Lemma batches_spec {A} (cs : list A) ns k bs : split_into_batches cs ns k = Some bs ->
  0 < k /\ List.length cs = List.length ns /\
  map fst bs = chunks (List.length cs) (Z.to_nat k) cs /\
  map snd bs = map zmax_list (chunks (List.length ns) (Z.to_nat k) ns).
Proof.
  unfold split_into_batches. destruct (Nat.eqb_spec (List.length cs) (List.length ns)) as [El|El]; cbn [negb]; [|discriminate].
  destruct (Z.leb_spec k 0) as [Hk|Hk]; [discriminate|]. intro H; inversion H; subst bs; clear H.
  assert (Hc : List.length (chunks (List.length cs) (Z.to_nat k) cs)
               = List.length (map zmax_list (chunks (List.length ns) (Z.to_nat k) ns))).
  { rewrite map_length, <- El. rewrite <- (map_length (@List.length A)), <- (map_length (@List.length Z) (chunks _ _ ns)).
    f_equal. apply chunks_lengths_agree. exact El. }
  repeat split; try assumption; [apply map_fst_combine|apply map_snd_combine]; assumption.
Qed.

Lemma batches_cover {A} (cs : list A) ns k bs : split_into_batches cs ns k = Some bs ->
  List.concat (map fst bs) = cs /\
  Forall (fun c => (1 <= List.length c <= Z.to_nat k)%nat) (map fst bs) /\
  exists nss, List.concat nss = ns /\ map (@List.length Z) nss = map (@List.length A) (map fst bs) /\
              map snd bs = map zmax_list nss /\
              Forall (fun nsb => forall n, In n nsb -> n <= zmax_list nsb) nss.
Proof.
  intro H. destruct (batches_spec cs ns k bs H) as (Hk & El & Hf & Hs).
  assert (Hk' : (0 < Z.to_nat k)%nat) by lia.
  rewrite Hf. split; [apply chunks_concat; [assumption|lia]|]. split; [apply chunks_bounded; assumption|].
  exists (chunks (List.length ns) (Z.to_nat k) ns). repeat split.
  - apply chunks_concat; [assumption|lia].
  - rewrite <- El. symmetry. apply chunks_lengths_agree. exact El.
  - exact Hs.
  - apply Forall_forall. intros nsb _ n Hn. apply zmax_list_ge. exact Hn.
Qed.

Lemma batches_reject {A} (cs : list A) ns k :
  List.length cs <> List.length ns \/ k <= 0 -> split_into_batches cs ns k = None.
Proof.
  unfold split_into_batches. intros [H|H].
  - destruct (Nat.eqb_spec (List.length cs) (List.length ns)); [contradiction|reflexivity].
  - destruct (negb _); [reflexivity|]. destruct (Z.leb_spec k 0); [reflexivity|lia].
Qed.
