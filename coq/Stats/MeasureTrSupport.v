(* Hand-written support for the GENERATED file Gen/MeasurementsGen.v (translator tr/tr_measurements.py,
   property C10).

   The translator maps every Python construct of the translated functions of measurements/measurements.py,
   measurements/parities.py and utils.py to a piece of Gallina built from the definitions below and from those
   of Stats/DistTrSupport.v (result / Ret / Raise / bind, py_for, py_map_res, pynum, py_truediv, py_sum, py_len,
   py_index, py_str_chars, py_join, py_int_of_str, py_str_of_int, pyelt / pykey, pydict and its operations), which
   this file re-uses so that one Python construct has one reading in the whole development.  What each definition
   stands for in Python is written next to it.  This file is the trusted reading of the Python constructs; nothing
   here mentions the hand-written model Stats/Measure.v: the agreement with it is PROVED in Stats/MeasureGenProofs.v
   about the generated text.

   Values.
     int                      Z (unbounded; numpy's int64 wrap-around is outside the reading)
     float                    num N for a number structure N (instantiated by Q: exact arithmetic, no rounding, no
                              inf / nan)
     str                      string, read as a sequence of ASCII characters
     tuple / list of T        list T (elements in order); lists are VALUES: the translator accepts in-place list
                              operations only on a local that no other name refers to, and on self.bitstrings
     Dict[str, int], Counter  py_sdict: association list in insertion order, keys pairwise different
     Union[str, Sequence[int]]  pykey (PKStr s | PKTup elements); its items are pyelt (PEStr c | PEInt z)
     a Measurements object    the value of its only attribute, self.bitstrings : list (list Z)
     a MeasurementOutcomeDistribution object   the value of its only attribute distribution_dict : pydict N
     numpy arrays             1-d int arrays list Z, 1-d float arrays list (num N), 2-d int arrays np_mat
                              (number of columns, rows) *)
Require Import Coq.ZArith.ZArith Coq.QArith.QArith Coq.Lists.List Coq.Strings.String Coq.Strings.Ascii Coq.Bool.Bool.
Require Import OQ.Stats.DistTrSupport.
Import ListNotations.

(* ------------------------------------------------------------------ lists and tuples *)
(* xs + ys, and xs += ys on a list that no other name refers to: the elements of xs, then those of ys *)
Definition py_list_add {A} (xs ys : list A) : list A := xs ++ ys.
(* xs * n for a list xs and an int n: n copies of xs one after the other, nothing for n <= 0 *)
Definition py_list_repeat {A} (xs : list A) (n : Z) : list A := List.concat (repeat xs (Z.to_nat n)).
(* xs.append(v) on a list local that no other name refers to *)
Definition py_append {A} (xs : list A) (v : A) : list A := xs ++ [v].
(* xs[::-1] for a tuple / list: the elements in reverse order *)
Definition py_reversed {A} (xs : list A) : list A := rev xs.
(* not xs / the truth value of a list, tuple or set: false iff it has no element *)
Definition py_is_empty {A} (xs : list A) : bool := match xs with [] => true | _ => false end.
(* sum(xs) for ints: 0 + x1 + x2 + ... from the left *)
Definition py_sum_Z (xs : list Z) : Z := fold_left Z.add xs 0%Z.

(* ------------------------------------------------------------------ strings and ints *)
(* ord(c) for a one-character str *)
Definition py_ord (c : ascii) : Z := Z.of_N (N_of_ascii c).

(* int(s, 2) for a str s.  READ ONLY ON STRINGS MADE OF ASCII DIGITS AND MINUS SIGNS (what "".join(str(i) ...)
   over ints produces): an optional leading "-", then one or more characters 0 / 1, most significant first;
   anything else is a ValueError.  (Python additionally accepts a "+" sign, the prefix 0b, underscores between
   digits and surrounding whitespace; such strings are outside this reading.) *)
Fixpoint py_bin_digits (s : string) (acc : Z) : option Z :=
  match s with
  | EmptyString => Some acc
  | String c r =>
      if Ascii.eqb c "0"%char then py_bin_digits r (2 * acc)%Z
      else if Ascii.eqb c "1"%char then py_bin_digits r (2 * acc + 1)%Z
      else None
  end.
Definition py_bin_nonneg (s : string) : option Z :=
  match s with EmptyString => None | _ => py_bin_digits s 0%Z end.
Definition py_int_of_str_base2 (s : string) : result Z :=
  match s with
  | String c r =>
      if Ascii.eqb c "-"%char
      then match py_bin_nonneg r with Some z => Ret (- z)%Z | None => Raise ValueError end
      else match py_bin_nonneg s with Some z => Ret z | None => Raise ValueError end
  | EmptyString => Raise ValueError
  end.

(* ------------------------------------------------------------------ Dict[str, int] and Counter *)
Definition py_sdict := list (string * Z).
(* d.keys() (also: iterating over d) and d.values(): insertion order *)
Definition py_sdict_keys (d : py_sdict) : list string := map fst d.
Definition py_sdict_values (d : py_sdict) : list Z := map snd d.
(* d[k]: KeyError when k is absent *)
Fixpoint py_sdict_lookup (d : py_sdict) (k : string) : option Z :=
  match d with
  | [] => None
  | (k1, v1) :: r => if String.eqb k1 k then Some v1 else py_sdict_lookup r k
  end.
Definition py_sdict_getitem (d : py_sdict) (k : string) : result Z :=
  match py_sdict_lookup d k with Some v => Ret v | None => Raise KeyError end.
(* Counter(xs) for a sequence of strs: for x in xs: self[x] = self.get(x, 0) + 1 - a present key keeps its
   position, a new key is appended *)
Fixpoint py_counter_incr (d : py_sdict) (k : string) : py_sdict :=
  match d with
  | [] => [(k, (0 + 1)%Z)]
  | (k1, v1) :: r => if String.eqb k1 k then (k1, (v1 + 1)%Z) :: r else (k1, v1) :: py_counter_incr r k
  end.
Definition py_Counter (xs : list string) : py_sdict := fold_left py_counter_incr xs [].
(* dict(c) for a Counter c: the same pairs in the same order *)
Definition py_dict_of_counter (c : py_sdict) : py_sdict := c.

(* ------------------------------------------------------------------ items of a str / tuple, compared with literals *)
(* x == "c" / x == z for an item x of a str or of a tuple of ints: an int never equals a str *)
Definition py_elt_eq_str (x : pyelt) (s : string) : bool := pyelt_eqb x (PEStr s).
Definition py_elt_eq_int (x : pyelt) (z : Z) : bool := pyelt_eqb x (PEInt z).
(* a str / a tuple of ints passed where Union[str, Sequence[int]] is expected *)
Definition py_key_of_str (s : string) : pykey := PKStr s.
Definition py_key_of_ints (t : list Z) : pykey := PKTup (map PEInt t).

(* ------------------------------------------------------------------ numpy, as far as the translated functions use it *)
(* s.encode("utf-8") for an ASCII str, and np.frombuffer(b, "u1"): the character codes, as an array of uint8 *)
Definition py_encode_utf8 (s : string) : string := s.
Definition np_frombuffer_u1 (b : string) : list Z := map py_ord (list_ascii_of_string b).
(* a - k for a uint8 array a and a Python int 0 <= k <= 255 (the translator only accepts ord(<character>) here):
   the result is a uint8 array again, the subtraction wraps around modulo 256 *)
Definition np_u1_sub (a : list Z) (k : Z) : list Z := map (fun x => ((x - k) mod 256)%Z) a.
(* a.astype(int) on a uint8 array: the same values as int64 *)
Definition np_astype_int (a : list Z) : list Z := a.

(* 2-d int array: (number of columns, rows); every row has that many entries *)
Definition np_mat := (Z * list (list Z))%type.
Fixpoint np_chunks (fuel : nat) (n : nat) (a : list Z) : list (list Z) :=
  match fuel with
  | O => []
  | S f => match a with [] => [] | _ => firstn n a :: np_chunks f n (skipn n a) end
  end.
(* a.reshape(-1, n) for a 1-d array a: rows of n consecutive entries; ValueError when n = 0 (the number of rows
   cannot be inferred) or when the size of a is not a multiple of n *)
Definition np_reshape_rows (a : list Z) (n : Z) : result np_mat :=
  if Z.leb n 0 then Raise ValueError
  else if Z.eqb (Z.modulo (py_len a) n) 0 then Ret (n, np_chunks (List.length a) (Z.to_nat n) a)
  else Raise ValueError.
(* m.shape[0] *)
Definition np_shape0 (m : np_mat) : Z := py_len (snd m).
(* np.ones(n) for an int n >= 0: n float ones *)
Definition np_ones (N : pynum) (n : Z) : list (num N) := repeat (n_int N 1%Z) (Z.to_nat n).
(* np.fromiter(xs, dtype=int) for a finite iterable of ints: its elements in iteration order *)
Definition np_fromiter_int (xs : list Z) : list Z := xs.
(* m[:, idx] for a 1-d int array idx: the columns idx[0], idx[1], ... of every row; an index i stands for column
   i (0 <= i < number of columns) or i + number of columns (negative i, from the end); anything else is an
   IndexError, also when m has no rows *)
Definition np_col_index (ncols : Z) (i : Z) : result nat :=
  let k := if Z.ltb i 0 then Z.add ncols i else i in
  if Z.ltb k 0 then Raise IndexError else if Z.ltb k ncols then Ret (Z.to_nat k) else Raise IndexError.
Definition np_take_columns (m : np_mat) (idx : list Z) : result np_mat :=
  bind (py_map_res (np_col_index (fst m)) idx) (fun js =>
  Ret (py_len idx, map (fun row => map (fun j => nth j row 0%Z) js) (snd m))).
(* m.sum(axis=1): the sum of every row *)
Definition np_sum_axis1 (m : np_mat) : list Z := map py_sum_Z (snd m).
(* a op b for two 1-d arrays: element by element when the lengths agree, a one-element array is repeated;
   any other pair of lengths is a ValueError (operands could not be broadcast together) *)
Definition np_broadcast2 {A B C} (f : A -> B -> C) (a : list A) (b : list B) : result (list C) :=
  if Nat.eqb (List.length a) (List.length b) then Ret (map (fun p => f (fst p) (snd p)) (combine a b))
  else match a, b with
       | [x], _ => Ret (map (fun y => f x y) b)
       | _, [y] => Ret (map (fun x => f x y) a)
       | _, _ => Raise ValueError
       end.
(* a / k for a 1-d float array a and a Python number k.  For k != 0: every entry divided by k.  For k = 0 numpy
   does NOT raise: it warns and the entries become inf / nan.  Non-finite floats are outside the number structure,
   so this reading marks that evaluation as failed (with the marker ZeroDivisionError) instead of inventing
   numbers; theorems about the generated functions are stated where the marker does not occur.  An empty array
   divided by anything is the empty array. *)
Definition np_div_scalar (N : pynum) (a : list (num N)) (k : num N) : result (list (num N)) :=
  match a with
  | [] => Ret []
  | _ => if n_eqb N k (n_int N 0%Z) then Raise ZeroDivisionError else Ret (map (fun x => n_div N x k) a)
  end.
(* a.sum() for a 1-d float array: the sum of the entries (numpy adds pairwise; in an exact number structure the
   order is irrelevant), and x.item() for a numpy scalar: the same number as a Python float *)
Definition np_sum (N : pynum) (a : list (num N)) : num N := py_sum N a.
Definition np_item (N : pynum) (x : num N) : num N := x.
