(* Proofs about the distribution model (property C17). *)
Require Import Coq.ZArith.ZArith Coq.QArith.QArith Coq.QArith.Qabs Coq.micromega.Lia Coq.micromega.Lqa.
Require Import Coq.Lists.List Coq.Strings.String Coq.Strings.Ascii Coq.Bool.Bool Coq.Setoids.Setoid.
Require Import Coq.Init.Decimal Coq.Numbers.DecimalString Coq.Numbers.DecimalNat.
Require Import OQ.Stats.Dist.
Import ListNotations.
Open Scope Q_scope.

(* ---- keys and dictionaries *)
Lemma key_eqb_eq a b : key_eqb a b = true <-> a = b.
Proof.
  revert b. induction a as [|x a IH]; intros [|y b]; simpl; split; intro H; try reflexivity; try discriminate.
  - apply andb_true_iff in H. destruct H as [H1 H2]. apply Nat.eqb_eq in H1. apply IH in H2. congruence.
  - inversion H; subst. rewrite Nat.eqb_refl. simpl. apply IH. reflexivity.
Qed.
Lemma key_eqb_refl a : key_eqb a a = true.
Proof. apply key_eqb_eq. reflexivity. Qed.
Lemma key_eqb_neq a b : key_eqb a b = false <-> a <> b.
Proof.
  split; intro H.
  - intro E. apply key_eqb_eq in E. congruence.
  - destruct (key_eqb a b) eqn:E; [|reflexivity]. apply key_eqb_eq in E. contradiction.
Qed.
Lemma key_eqb_sym a b : key_eqb a b = key_eqb b a.
Proof.
  destruct (key_eqb a b) eqn:E1, (key_eqb b a) eqn:E2; try reflexivity.
  - apply key_eqb_eq in E1. subst. rewrite key_eqb_refl in E2. discriminate.
  - apply key_eqb_eq in E2. subst. rewrite key_eqb_refl in E1. discriminate.
Qed.

Lemma dget_dset k k' v d : dget k (dset k' v d) = if key_eqb k k' then Some v else dget k d.
Proof.
  induction d as [|[k2 v2] d IH]; simpl.
  - reflexivity.
  - destruct (key_eqb k' k2) eqn:E; simpl.
    + apply key_eqb_eq in E. subst k2. destruct (key_eqb k k'); reflexivity.
    + destruct (key_eqb k k2) eqn:E2.
      * apply key_eqb_eq in E2. subst k2. rewrite key_eqb_sym, E. reflexivity.
      * exact IH.
Qed.

Lemma dget_none_notin k d : dget k d = None <-> ~ In k (map fst d).
Proof.
  induction d as [|[k2 v2] d IH]; simpl.
  - split; [intros _ []|reflexivity].
  - destruct (key_eqb k k2) eqn:E.
    + apply key_eqb_eq in E. subst. split; [discriminate|]. intro H. exfalso. apply H. left. reflexivity.
    + apply key_eqb_neq in E. rewrite IH. split; intro H; [intros [H1|H1]; [congruence|contradiction]|].
      intro H1. apply H. right. exact H1.
Qed.

Lemma dset_keys k v d :
  map fst (dset k v d) = if existsb (key_eqb k) (map fst d) then map fst d else map fst d ++ [k].
Proof.
  induction d as [|[k2 v2] d IH]; simpl; [reflexivity|].
  destruct (key_eqb k k2) eqn:E; simpl; [reflexivity|]. rewrite IH.
  destruct (existsb (key_eqb k) (map fst d)); reflexivity.
Qed.

Lemma existsb_key k l : existsb (key_eqb k) l = true <-> In k l.
Proof.
  rewrite existsb_exists. split.
  - intros [x [Hx E]]. apply key_eqb_eq in E. subst. exact Hx.
  - intro H. exists k. split; [exact H|apply key_eqb_refl].
Qed.

Lemma NoDup_snoc {A} (l : list A) x : NoDup l -> ~ In x l -> NoDup (l ++ [x]).
Proof.
  intros H Hx. induction H as [|y l Hy Hl IH]; simpl.
  - constructor; [intros []|constructor].
  - constructor.
    + intro Hin. apply in_app_or in Hin. destruct Hin as [Hin|[E|[]]]; [contradiction|]. subst. apply Hx. left. reflexivity.
    + apply IH. intro Hin. apply Hx. right. exact Hin.
Qed.

Lemma dset_nodup k v d : NoDup (map fst d) -> NoDup (map fst (dset k v d)).
Proof.
  intro H. rewrite dset_keys. destruct (existsb (key_eqb k) (map fst d)) eqn:E; [exact H|].
  apply NoDup_snoc; [exact H|]. intro Hin. apply existsb_key in Hin. congruence.
Qed.

Lemma dset_not_nil k v d : dset k v d <> [].
Proof. destruct d as [|[k2 v2] d]; simpl; [discriminate|]. destruct (key_eqb k k2); discriminate. Qed.

Lemma dset_forall (P : key * Q -> Prop) k v d :
  Forall P d -> (forall k', P (k', v) ) -> Forall P (dset k v d).
Proof.
  intros H Hk. induction H as [|[k2 v2] d H2 Hd IH]; simpl.
  - constructor; [apply Hk|constructor].
  - destruct (key_eqb k k2); constructor; try assumption. apply Hk.
Qed.

Lemma dset_forall_key (P : key -> Prop) k v d :
  Forall (fun kv => P (fst kv)) d -> P k -> Forall (fun kv => P (fst kv)) (dset k v d).
Proof.
  intros H Hk. induction H as [|[k2 v2] d H2 Hd IH]; simpl.
  - constructor; [exact Hk|constructor].
  - destruct (key_eqb k k2); constructor; assumption.
Qed.

(* ---- sums *)
Lemma qsum_app l1 l2 : qsum (l1 ++ l2) == qsum l1 + qsum l2.
Proof. induction l1 as [|x l1 IH]; simpl; [ring|]. rewrite IH. ring. Qed.

Lemma qsum_nonneg l : Forall (fun x => 0 <= x) l -> 0 <= qsum l.
Proof. induction 1 as [|x l Hx Hl IH]; simpl; [apply Qle_refl|]. lra. Qed.

Lemma qsum_scale c l : qsum (map (fun x => x * c) l) == qsum l * c.
Proof. induction l as [|x l IH]; simpl; [ring|]. rewrite IH. ring. Qed.

Definition nonneg (d : dist) : Prop := Forall (fun kv => 0 <= snd kv) d.

Lemma mass_nonneg d : nonneg d -> 0 <= mass d.
Proof. intro H. apply qsum_nonneg. apply Forall_map. exact H. Qed.

Lemma mass_scale c d : mass (scale c d) == mass d * c.
Proof. unfold mass, scale. rewrite map_map. cbn [snd]. rewrite <- qsum_scale, map_map. reflexivity. Qed.

Lemma mass_dset k v d : mass (dset k v d) == mass d - getd k d + v.
Proof.
  unfold mass, getd. induction d as [|[k2 v2] d IH]; simpl; [ring|].
  destruct (key_eqb k k2); simpl; [ring|]. rewrite IH. ring.
Qed.

Lemma getd_nonneg k d : nonneg d -> 0 <= getd k d.
Proof.
  unfold getd. induction 1 as [|[k2 v2] d H2 Hd IH]; simpl; [apply Qle_refl|].
  destruct (key_eqb k k2); [exact H2|exact IH].
Qed.

(* ---- is_normalized *)
Lemma close1_wd s t : s == t -> close1 s = close1 t.
Proof.
  intro E. unfold close1.
  assert (H : forall a b a' b', a == a' -> b == b' -> Qle_bool a b = Qle_bool a' b').
  { intros a b a' b' Ea Eb. destruct (Qle_bool a b) eqn:E1, (Qle_bool a' b') eqn:E2; try reflexivity.
    - apply Qle_bool_iff in E1. rewrite Ea, Eb in E1. apply Qle_bool_iff in E1. congruence.
    - apply Qle_bool_iff in E2. rewrite <- Ea, <- Eb in E2. apply Qle_bool_iff in E2. congruence. }
  f_equal; apply H; rewrite ?E; reflexivity.
Qed.
Lemma close1_one s : s == 1 -> close1 s = true.
Proof. intro E. rewrite (close1_wd _ _ E). reflexivity. Qed.
Lemma close1_zero s : s == 0 -> close1 s = false.
Proof. intro E. rewrite (close1_wd _ _ E). reflexivity. Qed.
(* what the test means: within 1e-9 of 1, relative to the larger of 1 and |s| *)
Lemma close1_spec s : close1 s = true <-> (Qabs (s - 1) <= rel_tol \/ Qabs (s - 1) <= rel_tol * Qabs s).
Proof. unfold close1. rewrite orb_true_iff, !Qle_bool_iff. reflexivity. Qed.

(* ---- validity *)
Lemma valid_iff d : valid d = true <->
  d <> [] /\ nonneg d /\ Forall (fun kv => List.length (fst kv) = nsub d) d.
Proof.
  destruct d as [|[k0 v0] d]; [simpl; split; [discriminate|intros [H _]; congruence]|].
  unfold valid, nonneg. cbn [nsub]. rewrite andb_true_iff, !forallb_forall, !Forall_forall.
  split.
  - intros [H1 H2]. split; [discriminate|]. split; intros x Hx.
    + apply Qle_bool_iff. apply H1. exact Hx.
    + apply Nat.eqb_eq. apply H2. exact Hx.
  - intros (_ & H1 & H2). split; intros x Hx.
    + apply Qle_bool_iff. apply H1. exact Hx.
    + apply Nat.eqb_eq. apply H2. exact Hx.
Qed.

Lemma valid_false_cases d :
  d = [] \/ (exists k v, In (k, v) d /\ v < 0) \/
  (exists k v k' v', In (k, v) d /\ In (k', v') d /\ List.length k <> List.length k') ->
  valid d = false.
Proof.
  intro H. destruct (valid d) eqn:E; [|reflexivity]. exfalso.
  apply valid_iff in E. destruct E as (Hne & Hnn & Hlen).
  destruct H as [H|[(k & v & Hin & Hv)|(k & v & k' & v' & Hin & Hin' & Hl)]].
  - contradiction.
  - unfold nonneg in Hnn. rewrite Forall_forall in Hnn. specialize (Hnn _ Hin). simpl in Hnn. lra.
  - rewrite Forall_forall in Hlen. pose proof (Hlen _ Hin) as H1. pose proof (Hlen _ Hin') as H2. simpl in *. congruence.
Qed.

(* ---- totals in (0, float_min) *)
Lemma tiny_wd s t : s == t -> tiny s = tiny t.
Proof.
  intro H. unfold tiny. f_equal; f_equal; apply eq_true_iff_eq; rewrite !Qle_bool_iff; rewrite H; reflexivity.
Qed.

Lemma tiny_iff s : tiny s = true <-> 0 < s /\ s < float_min.
Proof.
  unfold tiny. rewrite andb_true_iff, !negb_true_iff. split.
  - intros [H0 Hm]. split; apply Qnot_le_lt; intro Hle; apply Qle_bool_iff in Hle; congruence.
  - intros [H0 Hm]. split; apply not_true_is_false; intro Hle; apply Qle_bool_iff in Hle; lra.
Qed.

Lemma float_min_small : float_min < 1 # 2.
Proof. unfold float_min, Qlt. cbn [Qnum Qden]. vm_compute. reflexivity. Qed.

Lemma tiny_not_close s : tiny s = true -> close1 s = false.
Proof.
  intro Ht. apply tiny_iff in Ht. destruct Ht as [Hpos Hm]. pose proof float_min_small as Hf.
  destruct (close1 s) eqn:E; [|reflexivity]. exfalso.
  apply close1_spec in E. unfold rel_tol in E.
  assert (Ha : Qabs (s - 1) == 1 - s) by (rewrite Qabs_Qminus; apply Qabs_pos; lra).
  assert (Hb : Qabs s == s) by (apply Qabs_pos; lra).
  rewrite Ha, Hb in E. destruct E as [E|E]; lra.
Qed.

(* ---- the constructor *)
Lemma make_rejects_invalid d n : valid d = false -> make d n = Err RuntimeErr.
Proof. intro H. unfold make. rewrite H. reflexivity. Qed.

Lemma make_accepts_invalid_never d n p : make d n = Ok p -> valid d = true.
Proof. unfold make. destruct (valid d); [reflexivity|discriminate]. Qed.

Lemma make_false d : valid d = true -> make d false = Ok d.
Proof. intro H. unfold make. rewrite H. simpl. destruct (close1 (mass d)); reflexivity. Qed.

Lemma make_true_cases d p : make d true = Ok p ->
  valid d = true /\
  ((close1 (mass d) = true /\ p = d) \/
   (close1 (mass d) = false /\ ~ mass d == 0 /\ p = scale (1 / mass d) d)).
Proof.
  unfold make. destruct (valid d); [|discriminate]. cbn [negb]. intro H. split; [reflexivity|].
  destruct (close1 (mass d)) eqn:Ec; [left; inversion H; auto|right].
  unfold normalize_dict in H.
  destruct (Qeq_bool (mass d) 0) eqn:E0; [discriminate|].
  destruct (tiny (mass d)); [discriminate|].
  destruct (Qeq_bool (mass d) 1) eqn:E1.
  - apply Qeq_bool_iff in E1. rewrite (close1_one _ E1) in Ec. discriminate.
  - split; [reflexivity|]. split; [|inversion H; reflexivity].
    intro E. apply Qeq_bool_iff in E. congruence.
Qed.

Lemma scale_keys c d : map fst (scale c d) = map fst d.
Proof. unfold scale. rewrite map_map. reflexivity. Qed.

Lemma make_normalised_lemma d p : make d true = Ok p ->
  map fst p = map fst d /\ nonneg p /\ close1 (mass p) = true /\
  (close1 (mass d) = false -> mass p == 1) /\
  (close1 (mass d) = true -> p = d) /\
  0 < mass d /\
  Forall2 (fun a b => fst a = fst b /\ snd a * mass d == snd b * mass p) p d.
Proof.
  intro H. destruct (make_true_cases d p H) as [Hv Hc].
  apply valid_iff in Hv. destruct Hv as (Hne & Hnn & _).
  pose proof (mass_nonneg d Hnn) as Hm.
  destruct Hc as [[Hc E]|(Hc & Hz & E)]; subst p.
  - repeat split; try assumption; try congruence.
    + destruct (Qlt_le_dec 0 (mass d)) as [Hp|Hp]; [exact Hp|].
      assert (E0 : mass d == 0) by lra. rewrite (close1_zero _ E0) in Hc. discriminate.
    + generalize (mass d) as m. clear. intro m. induction d as [|kv d IH]; constructor; [split; reflexivity|exact IH].
  - assert (Hpos : 0 < mass d) by (destruct (Qlt_le_dec 0 (mass d)) as [Hp|Hp]; [exact Hp|exfalso; apply Hz; lra]).
    assert (Hone : mass (scale (1 / mass d) d) == 1) by (rewrite mass_scale; field; exact Hz).
    repeat split; try assumption.
    + apply scale_keys.
    + unfold nonneg, scale. apply Forall_map. cbn [snd].
      eapply Forall_impl; [|exact Hnn]. intros kv Hkv. simpl in *.
      assert (0 < 1 / mass d) by (apply Qlt_shift_div_l; lra).
      apply Qmult_le_0_compat; lra.
    + apply close1_one. exact Hone.
    + intros _. exact Hone.
    + congruence.
    + assert (Hf : forall m m', ~ m == 0 -> m' == 1 ->
               Forall2 (fun a b : key * Q => fst a = fst b /\ snd a * m == snd b * m') (scale (1 / m) d) d).
      { intros m m' Hm0 Hm1. unfold scale. clear - Hm0 Hm1. induction d as [|kv d' IH]; [constructor|].
        cbn [map]. constructor; [|exact IH]. cbn [fst snd]. split; [reflexivity|]. rewrite Hm1. field. exact Hm0. }
      apply Hf; assumption.
Qed.

Lemma make_accepts d : valid d = true -> 0 < mass d -> tiny (mass d) = false -> exists p, make d true = Ok p.
Proof.
  intros Hv Hm Ht. unfold make. rewrite Hv. cbn [negb]. destruct (close1 (mass d)); [eexists; reflexivity|].
  unfold normalize_dict. rewrite Ht. destruct (Qeq_bool (mass d) 0) eqn:E0.
  - apply Qeq_bool_iff in E0. lra.
  - destruct (Qeq_bool (mass d) 1); eexists; reflexivity.
Qed.

(* a total in (0, float_min): rejected when normalisation is on ("too small values") *)
Lemma make_tiny_mass d : valid d = true -> tiny (mass d) = true -> make d true = Err ValueErr.
Proof.
  intros Hv Ht. unfold make. rewrite Hv, (tiny_not_close _ Ht). cbn [negb]. unfold normalize_dict.
  rewrite Ht. destruct (Qeq_bool (mass d) 0); reflexivity.
Qed.

(* an object built with normalisation on never has such a total *)
Lemma make_true_not_tiny d p : make d true = Ok p -> tiny (mass d) = false.
Proof.
  unfold make. destruct (valid d); [|discriminate]. cbn [negb].
  destruct (close1 (mass d)) eqn:Ec.
  - intros _. destruct (tiny (mass d)) eqn:Et; [|reflexivity]. rewrite (tiny_not_close _ Et) in Ec. discriminate.
  - unfold normalize_dict. destruct (Qeq_bool (mass d) 0); [discriminate|].
    destruct (tiny (mass d)); [discriminate|reflexivity].
Qed.

Lemma make_zero_mass d : valid d = true -> mass d == 0 -> make d true = Err ValueErr.
Proof.
  intros Hv Hm. unfold make. rewrite Hv, (close1_zero _ Hm). cbn [negb]. unfold normalize_dict.
  apply Qeq_bool_iff in Hm. rewrite Hm. reflexivity.
Qed.

(* ---- preprocess *)
Lemma dset_notin k v d : ~ In k (map fst d) -> dset k v d = d ++ [(k, v)].
Proof.
  induction d as [|[k2 v2] d IH]; simpl; intro H; [reflexivity|].
  destruct (key_eqb k k2) eqn:E.
  - apply key_eqb_eq in E. subst. exfalso. apply H. left. reflexivity.
  - rewrite IH; [reflexivity|]. intro Hin. apply H. right. exact Hin.
Qed.

Lemma preprocess_gen (r : raw) : forall (d acc : dist),
  map (fun kv => rawkey_read (fst kv)) r = map (fun kv => Some (fst kv)) d ->
  map snd r = map snd d ->
  NoDup (map fst acc ++ map fst d) ->
  fold_left pre_step r (Ok acc) = Ok (acc ++ d).
Proof.
  induction r as [|[rk v] r IH]; intros [|[k w] d] acc Hk Hv Hnd; try discriminate.
  - simpl. rewrite app_nil_r. reflexivity.
  - cbn [map fst snd] in Hk, Hv. inversion Hk as [[Hk1 Hk2]]. inversion Hv as [[Hv1 Hv2]]. subst w.
    cbn [fold_left]. unfold pre_step at 2. cbn [fst snd]. rewrite Hk1.
    rewrite dset_notin.
    + rewrite (IH d (acc ++ [(k, v)])); try assumption.
      * rewrite <- app_assoc. reflexivity.
      * rewrite map_app, <- app_assoc. exact Hnd.
    + intro Hin. cbn [map fst] in Hnd. apply NoDup_remove_2 in Hnd. apply Hnd. apply in_or_app. left. exact Hin.
Qed.

Lemma preprocess_tuples d : NoDup (map fst d) ->
  preprocess (map (fun kv => (KTup (fst kv), snd kv)) d) = Ok d.
Proof.
  intro H. unfold preprocess. rewrite (preprocess_gen _ d []); [reflexivity| | |exact H].
  - rewrite map_map. reflexivity.
  - rewrite map_map. reflexivity.
Qed.

Lemma preprocess_save d : NoDup (map fst d) ->
  Forall (fun kv => key_read (key_show (fst kv)) = Some (fst kv)) d ->
  preprocess (save d) = Ok d.
Proof.
  intros H Hc. unfold preprocess, save. rewrite (preprocess_gen _ d []); [reflexivity| | |exact H].
  - rewrite map_map. cbn [fst rawkey_read]. induction Hc as [|kv d' Hkv Hd IH]; [reflexivity|].
    cbn [map]. rewrite Hkv, IH; [reflexivity|]. inversion H; assumption.
  - rewrite map_map. reflexivity.
Qed.

Lemma pre_step_err r e : fold_left pre_step r (Err e) = Err e.
Proof. induction r as [|kv r IH]; simpl; [reflexivity|exact IH]. Qed.

Lemma preprocess_unparsable r s v : In (KStr s, v) r -> key_read s = None -> preprocess r = Err ValueErr.
Proof.
  intros Hin Hs. unfold preprocess. generalize (@nil (key * Q)) as acc.
  induction r as [|kv r IH]; intro acc; [destruct Hin|].
  cbn [fold_left]. destruct Hin as [E|Hin].
  - subst kv. unfold pre_step at 2. cbn [fst rawkey_read]. rewrite Hs. apply pre_step_err.
  - unfold pre_step at 2. destruct (rawkey_read (fst kv)); [apply IH; exact Hin|apply pre_step_err].
Qed.

(* ---- marginals *)
Definition mstep (qs : list nat) (acc : dist) (kv : key * Q) : dist :=
  let nk := proj qs (fst kv) in dset nk (snd kv + getd nk acc) acc.
Definition fibre (qs : list nat) (k : key) (d : dist) : Q :=
  qsum (map snd (filter (fun kv => key_eqb (proj qs (fst kv)) k) d)).

Lemma marg_counts_fold qs d : marg_counts qs d = fold_left (mstep qs) d [].
Proof. reflexivity. Qed.

Lemma getd_mstep qs k acc kv :
  getd k (mstep qs acc kv) == getd k acc + (if key_eqb (proj qs (fst kv)) k then snd kv else 0).
Proof.
  unfold mstep, getd at 1. cbv zeta. rewrite dget_dset, (key_eqb_sym k).
  destruct (key_eqb (proj qs (fst kv)) k) eqn:E.
  - apply key_eqb_eq in E. subst k. ring.
  - fold (getd k acc). ring.
Qed.

Lemma fold_getd qs k d : forall acc,
  getd k (fold_left (mstep qs) d acc) == getd k acc + fibre qs k d.
Proof.
  unfold fibre. induction d as [|kv d IH]; intro acc; cbn [fold_left filter].
  - simpl. ring.
  - rewrite IH, getd_mstep. destruct (key_eqb (proj qs (fst kv)) k); simpl; ring.
Qed.

Lemma in_dset_keys k k' v d : In k (map fst (dset k' v d)) <-> In k (map fst d) \/ k = k'.
Proof.
  rewrite dset_keys. destruct (existsb (key_eqb k') (map fst d)) eqn:E.
  - apply existsb_key in E. split; [auto|]. intros [H|H]; [exact H|subst; exact E].
  - rewrite in_app_iff. simpl. intuition.
Qed.

Lemma fold_keys qs k d : forall acc,
  In k (map fst (fold_left (mstep qs) d acc)) <->
  In k (map fst acc) \/ exists kv, In kv d /\ proj qs (fst kv) = k.
Proof.
  induction d as [|kv d IH]; intro acc; cbn [fold_left].
  - split; [auto|]. intros [H|[kv [[] _]]]. exact H.
  - rewrite IH. unfold mstep. cbv zeta. rewrite in_dset_keys. split.
    + intros [[H|H]|[kv' [H1 H2]]].
      * left. exact H.
      * right. exists kv. split; [left; reflexivity|congruence].
      * right. exists kv'. split; [right; exact H1|exact H2].
    + intros [H|[kv' [[E|H1] H2]]].
      * left. left. exact H.
      * subst kv'. left. right. congruence.
      * right. exists kv'. split; assumption.
Qed.

Lemma fold_mass qs d : forall acc, mass (fold_left (mstep qs) d acc) == mass acc + mass d.
Proof.
  induction d as [|kv d IH]; intro acc; cbn [fold_left].
  - assert (E : mass [] == 0) by reflexivity. rewrite E. ring.
  - assert (E : mass (kv :: d) == snd kv + mass d) by reflexivity.
    rewrite IH, E. unfold mstep. cbv zeta. rewrite mass_dset. ring.
Qed.

Lemma fold_nodup qs d : forall acc, NoDup (map fst acc) -> NoDup (map fst (fold_left (mstep qs) d acc)).
Proof. induction d as [|kv d IH]; intros acc H; cbn [fold_left]; [exact H|]. apply IH. apply dset_nodup. exact H. Qed.

Lemma fold_nonneg qs d : forall acc, nonneg acc -> nonneg d -> nonneg (fold_left (mstep qs) d acc).
Proof.
  induction d as [|kv d IH]; intros acc Ha Hd; cbn [fold_left]; [exact Ha|].
  inversion Hd as [|? ? Hkv Hd']; subst. apply IH; [|exact Hd'].
  unfold mstep. cbv zeta. apply dset_forall; [exact Ha|]. intros k'. cbn [snd].
  pose proof (getd_nonneg (proj qs (fst kv)) acc Ha). lra.
Qed.

Lemma proj_length qs k : List.length (proj qs k) = List.length qs.
Proof. unfold proj. apply map_length. Qed.

Lemma fold_keylen qs d : forall acc,
  Forall (fun kv => List.length (fst kv) = List.length qs) acc ->
  Forall (fun kv => List.length (fst kv) = List.length qs) (fold_left (mstep qs) d acc).
Proof.
  induction d as [|kv d IH]; intros acc H; cbn [fold_left]; [exact H|]. apply IH.
  unfold mstep. cbv zeta. apply (dset_forall_key (fun k => List.length k = List.length qs)); [exact H|apply proj_length].
Qed.

Lemma fold_not_nil qs d : forall acc, acc <> [] \/ d <> [] -> fold_left (mstep qs) d acc <> [].
Proof.
  induction d as [|kv d IH]; intros acc H; cbn [fold_left].
  - destruct H as [H|H]; [exact H|congruence].
  - apply IH. left. apply dset_not_nil.
Qed.

Lemma marg_valid qs d : valid d = true -> valid (marg_counts qs d) = true.
Proof.
  intro Hv. apply valid_iff in Hv. destruct Hv as (Hne & Hnn & _).
  rewrite marg_counts_fold. apply valid_iff.
  assert (Hn : fold_left (mstep qs) d [] <> []) by (apply fold_not_nil; right; exact Hne).
  split; [exact Hn|]. split; [apply fold_nonneg; [constructor|exact Hnn]|].
  assert (Hl : Forall (fun kv : key * Q => List.length (fst kv) = List.length qs) (fold_left (mstep qs) d []))
    by (apply fold_keylen; constructor).
  destruct (fold_left (mstep qs) d []) as [|[k0 v0] m]; [congruence|].
  cbn [nsub]. pose proof (Forall_inv Hl) as H0. cbn [fst] in H0. rewrite H0. exact Hl.
Qed.

Lemma marg_mass qs d : mass (marg_counts qs d) == mass d.
Proof. rewrite marg_counts_fold, fold_mass. unfold mass at 1. simpl. ring. Qed.

Lemma has_dup_false l : has_dup l = false <-> NoDup l.
Proof.
  induction l as [|x l IH]; simpl.
  - split; [constructor|reflexivity].
  - rewrite orb_false_iff, IH. split.
    + intros [H1 H2]. constructor; [|exact H2]. intro Hin.
      assert (existsb (Nat.eqb x) l = true) by (apply existsb_exists; exists x; split; [exact Hin|apply Nat.eqb_refl]). congruence.
    + intro H. inversion H as [|? ? Hx Hl]; subst. split; [|exact Hl].
      apply not_true_is_false. intro He. apply existsb_exists in He. destruct He as [y [Hy E]].
      apply Nat.eqb_eq in E. subst. contradiction.
Qed.

Lemma fold_max_ge l : forall a x, In x (a :: l) -> (x <= fold_left Nat.max l a)%nat.
Proof.
  induction l as [|y l IH]; intros a x H; cbn [fold_left].
  - destruct H as [E|[]]. lia.
  - destruct H as [E|[E|H]].
    + subst. specialize (IH (Nat.max x y) (Nat.max x y) (or_introl eq_refl)). lia.
    + subst. specialize (IH (Nat.max a x) (Nat.max a x) (or_introl eq_refl)). lia.
    + apply IH. right. exact H.
Qed.

Lemma fold_max_lt l : forall a n, (forall x, In x (a :: l) -> (x < n)%nat) -> (fold_left Nat.max l a < n)%nat.
Proof.
  induction l as [|y l IH]; intros a n H; cbn [fold_left].
  - apply H. left. reflexivity.
  - apply IH. intros x [E|Hx].
    + subst. pose proof (H a (or_introl eq_refl)). pose proof (H y (or_intror (or_introl eq_refl))). lia.
    + apply H. right. right. exact Hx.
Qed.

Lemma sub_unfold q0 qr d : d <> [] ->
  subdistribution (q0 :: qr) d =
  if Nat.ltb (nsub d) (fold_left Nat.max qr q0 + 1) then (Err ValueErr, d)
  else if has_dup (q0 :: qr) then (Err ValueErr, d)
  else (make (marg_counts (q0 :: qr) d) (close1 (mass d)), d).
Proof. destruct d; [congruence|reflexivity]. Qed.

Lemma valid_not_nil d : valid d = true -> d <> [].
Proof. intro H. apply valid_iff in H. apply H. Qed.

(* accepted: the new object holds exactly the accumulated counts; the source is returned as it was *)
Lemma subdistribution_ok qs d : valid d = true ->
  qs <> [] -> NoDup qs -> Forall (fun q => (q < nsub d)%nat) qs ->
  subdistribution qs d = (Ok (marg_counts qs d), d).
Proof.
  intros Hv Hne Hnd Hr. destruct qs as [|q0 qr]; [congruence|].
  rewrite (sub_unfold _ _ _ (valid_not_nil _ Hv)).
  assert (Hmax : (fold_left Nat.max qr q0 < nsub d)%nat).
  { apply fold_max_lt. intros x Hx. rewrite Forall_forall in Hr. apply Hr. exact Hx. }
  destruct (Nat.ltb_spec (nsub d) (fold_left Nat.max qr q0 + 1)) as [Hlt|_]; [lia|].
  apply has_dup_false in Hnd. rewrite Hnd. f_equal.
  unfold make. rewrite (marg_valid _ _ Hv). cbn [negb].
  rewrite (close1_wd _ _ (marg_mass (q0 :: qr) d)).
  destruct (close1 (mass d)); reflexivity.
Qed.

Lemma subdistribution_rejects qs d : valid d = true ->
  qs = [] \/ ~ NoDup qs \/ (exists q, In q qs /\ (nsub d <= q)%nat) ->
  subdistribution qs d = (Err ValueErr, d).
Proof.
  intros Hv H. destruct qs as [|q0 qr]; [reflexivity|].
  rewrite (sub_unfold _ _ _ (valid_not_nil _ Hv)).
  destruct (Nat.ltb_spec (nsub d) (fold_left Nat.max qr q0 + 1)) as [Hlt|Hge]; [reflexivity|].
  destruct (has_dup (q0 :: qr)) eqn:Hd; [reflexivity|]. exfalso.
  destruct H as [H|[H|[q [Hq Hn]]]].
  - discriminate.
  - apply H. apply has_dup_false. exact Hd.
  - pose proof (fold_max_ge qr q0 q Hq). lia.
Qed.

Lemma subdistribution_source qs d : snd (subdistribution qs d) = d.
Proof.
  destruct qs as [|q qs], d as [|kv d]; try reflexivity. unfold subdistribution.
  destruct (Nat.ltb _ _); [reflexivity|]. destruct (has_dup _); reflexivity.
Qed.

(* the marginal law, in one statement *)
Lemma marginal_law qs d : valid d = true ->
  qs <> [] -> NoDup qs -> Forall (fun q => (q < nsub d)%nat) qs ->
  exists m, subdistribution qs d = (Ok m, d) /\
    (forall k, getd k m == fibre qs k d) /\
    (forall k, In k (map fst m) <-> exists kv, In kv d /\ proj qs (fst kv) = k) /\
    NoDup (map fst m) /\ mass m == mass d /\ nonneg m /\
    Forall (fun kv => List.length (fst kv) = List.length qs) m.
Proof.
  intros Hv Hne Hnd Hr. exists (marg_counts qs d). split; [apply subdistribution_ok; assumption|].
  rewrite marg_counts_fold. repeat split.
  - intro k. rewrite fold_getd. unfold getd. simpl. ring.
  - intro H. apply fold_keys in H. destruct H as [[]|H]. exact H.
  - intro H. apply fold_keys. right. exact H.
  - apply fold_nodup. constructor.
  - apply marg_mass.
  - apply fold_nonneg; [constructor|]. apply valid_iff in Hv. apply Hv.
  - apply fold_keylen. constructor.
Qed.

(* ---- key codec *)
Lemma uint_string_no_comma u : has_comma (NilEmpty.string_of_uint u) = false.
Proof. induction u; simpl; try reflexivity; exact IHu. Qed.

Lemma show_nat_no_comma n : has_comma (show_nat n) = false.
Proof. apply uint_string_no_comma. Qed.

Lemma to_uint_not_nil n : Nat.to_uint n <> Nil.
Proof.
  intro H. pose proof (Unsigned.of_to n) as E. rewrite H in E. simpl in E. subst n. discriminate.
Qed.

Lemma show_nat_not_empty n : show_nat n <> EmptyString.
Proof.
  unfold show_nat. pose proof (to_uint_not_nil n) as H. destruct (Nat.to_uint n); simpl; try discriminate. congruence.
Qed.

Lemma read_show_nat n : read_nat (show_nat n) = Some n.
Proof.
  unfold read_nat. pose proof (show_nat_not_empty n) as H.
  destruct (show_nat n) eqn:E; [congruence|]. rewrite <- E. unfold show_nat.
  rewrite NilEmpty.usu. simpl. rewrite Unsigned.of_to. reflexivity.
Qed.

Lemma split_no_comma f : has_comma f = false -> split f = [f].
Proof.
  induction f as [|c f IH]; simpl; [reflexivity|]. intro H. apply orb_false_iff in H. destruct H as [H1 H2].
  rewrite H1, (IH H2). reflexivity.
Qed.

Lemma split_app_comma f r : has_comma f = false ->
  split (f ++ String ","%char r)%string = f :: split r.
Proof.
  induction f as [|c f IH]; simpl; [reflexivity|]. intro H. apply orb_false_iff in H. destruct H as [H1 H2].
  rewrite H1, (IH H2). reflexivity.
Qed.

Lemma has_comma_app_comma f r : has_comma (f ++ String ","%char r)%string = true.
Proof. induction f as [|c f IH]; simpl; [reflexivity|]. rewrite IH. apply orb_true_r. Qed.

Lemma split_join fs : fs <> [] -> Forall (fun f => has_comma f = false) fs -> split (join fs) = fs.
Proof.
  intros Hne H. induction H as [|f fs Hf Hfs IH]; [congruence|].
  destruct fs as [|g fs].
  - simpl. apply split_no_comma. exact Hf.
  - change (join (f :: g :: fs)) with (f ++ String ","%char (join (g :: fs)))%string.
    rewrite split_app_comma by exact Hf. rewrite IH by discriminate. reflexivity.
Qed.

Lemma all_some_read_show k : all_some (map read_nat (map show_nat k)) = Some k.
Proof. induction k as [|n k IH]; simpl; [reflexivity|]. rewrite read_show_nat, IH. reflexivity. Qed.

(* keys that survive the text form: anything but a single outcome of two or more digits *)
Definition codec_safe (k : key) : Prop := List.length k <> 1%nat \/ Forall (fun n => (n < 10)%nat) k.

Lemma key_codec_safe k : codec_safe k -> key_read (key_show k) = Some k.
Proof.
  intro H. unfold key_read, key_show. destruct k as [|n [|m k]].
  - reflexivity.
  - destruct H as [H|H]; [simpl in H; congruence|].
    pose proof (Forall_inv H) as Hn. cbn [map join]. rewrite show_nat_no_comma.
    do 10 (destruct n as [|n]; [reflexivity|]). lia.
  - change (join (map show_nat (n :: m :: k))) with (show_nat n ++ String ","%char (join (map show_nat (m :: k))))%string.
    rewrite has_comma_app_comma.
    change (show_nat n ++ String ","%char (join (map show_nat (m :: k))))%string with (join (map show_nat (n :: m :: k))).
    rewrite split_join.
    + apply all_some_read_show.
    + discriminate.
    + apply Forall_map. apply Forall_forall. intros x _. apply show_nat_no_comma.
Qed.

Lemma key_codec_refuted : exists k, key_read (key_show k) <> Some k.
Proof. exists [10%nat]. vm_compute. discriminate. Qed.

(* the text form is one-to-one on keys of equal length >= 2 (no two outcomes share a written key) *)
Lemma key_show_inj k k' : codec_safe k -> codec_safe k' -> key_show k = key_show k' -> k = k'.
Proof.
  intros H H' E. apply key_codec_safe in H. apply key_codec_safe in H'. rewrite E in H. congruence.
Qed.

(* ---- save then load *)
Lemma valid_by_keys p d : map fst p = map fst d -> nonneg p -> valid d = true -> valid p = true.
Proof.
  intros Hk Hnn Hv. apply valid_iff in Hv. destruct Hv as (Hne & _ & Hl). apply valid_iff.
  assert (Hp : p <> []) by (intro E; subst p; destruct d; [congruence|discriminate]).
  split; [exact Hp|]. split; [exact Hnn|].
  assert (Hn : nsub p = nsub d).
  { destruct p as [|[k v] p], d as [|[k' v'] d]; try discriminate; try congruence. simpl in Hk. inversion Hk. reflexivity. }
  rewrite Hn. clear Hn Hp Hnn Hne. generalize dependent (nsub d). intros n Hl.
  revert d Hk Hl. induction p as [|kv p IH]; intros [|kv' d] Hk Hl; try discriminate; constructor.
  - simpl in Hk. inversion Hk as [[H1 H2]]. pose proof (Forall_inv Hl) as H0. exact (eq_trans (f_equal (@List.length nat) H1) H0).
  - simpl in Hk. inversion Hk as [[H1 H2]]. apply (IH d H2). exact (Forall_inv_tail Hl).
Qed.

Lemma make_valid d p : make d true = Ok p -> valid p = true.
Proof.
  intro H. destruct (make_normalised_lemma d p H) as (Hk & Hnn & _).
  eapply valid_by_keys; [exact Hk|exact Hnn|]. eapply make_accepts_invalid_never. exact H.
Qed.

Lemma save_load d : valid d = true -> close1 (mass d) = true -> NoDup (map fst d) ->
  Forall (fun kv => codec_safe (fst kv)) d -> load (save d) = Ok d.
Proof.
  intros Hv Hc Hnd Hs. unfold load, make_raw. rewrite preprocess_save.
  - unfold make. rewrite Hv, Hc. reflexivity.
  - exact Hnd.
  - eapply Forall_impl; [|exact Hs]. intros kv Hkv. apply key_codec_safe. exact Hkv.
Qed.

Lemma save_load_made d0 d : NoDup (map fst d0) -> make d0 true = Ok d ->
  (nsub d0 <> 1%nat \/ Forall (fun kv => Forall (fun n => (n < 10)%nat) (fst kv)) d0) ->
  load (save d) = Ok d.
Proof.
  intros Hnd Hm Hs. destruct (make_normalised_lemma d0 d Hm) as (Hk & Hnn & Hc & _).
  apply save_load; [eapply make_valid; exact Hm|exact Hc|rewrite Hk; exact Hnd|].
  pose proof (make_accepts_invalid_never _ _ _ Hm) as Hv0. apply valid_iff in Hv0. destruct Hv0 as (_ & _ & Hl).
  assert (Hkeys : Forall codec_safe (map fst d0)).
  { apply Forall_map. destruct Hs as [Hs|Hs].
    - eapply Forall_impl; [|exact Hl]. intros kv E. left. intro E1. apply Hs. exact (eq_trans (eq_sym E) E1).
    - eapply Forall_impl; [|exact Hs]. intros kv E. right. exact E. }
  rewrite <- Hk in Hkeys. rewrite Forall_map in Hkeys. exact Hkeys.
Qed.

Lemma preprocess_ok r d :
  map (fun kv => rawkey_read (fst kv)) r = map (fun kv => Some (fst kv)) d ->
  map snd r = map snd d -> NoDup (map fst d) -> preprocess r = Ok d.
Proof. intros H1 H2 H3. unfold preprocess. exact (preprocess_gen r d [] H1 H2 H3). Qed.

Lemma make_rejects_cases d n :
  d = [] \/ (exists k v, In (k, v) d /\ v < 0) \/
  (exists k v k' v', In (k, v) d /\ In (k', v') d /\ List.length k <> List.length k') ->
  make d n = Err RuntimeErr.
Proof. intro H. apply make_rejects_invalid. apply valid_false_cases. exact H. Qed.

Lemma make_raw_tuples d n : NoDup (map fst d) ->
  make_raw (map (fun kv => (KTup (fst kv), snd kv)) d) n = make d n.
Proof. intro H. unfold make_raw. rewrite (preprocess_tuples d H). reflexivity. Qed.
(* digit strings such as "0110": one character per outcome, read back digit-wise *)
Fixpoint digits_show (k : key) : string :=
  match k with [] => EmptyString | n :: r => (show_nat n ++ digits_show r)%string end.

Lemma digit_single n : (n < 10)%nat -> exists c, show_nat n = String c EmptyString /\ is_comma c = false.
Proof. intro H. do 10 (destruct n as [|n]; [eexists; split; reflexivity|]). lia. Qed.

Lemma digits_show_spec k : Forall (fun n => (n < 10)%nat) k ->
  has_comma (digits_show k) = false /\ chars (digits_show k) = map show_nat k.
Proof.
  induction 1 as [|n k Hn Hk [IH1 IH2]]; [split; reflexivity|].
  destruct (digit_single n Hn) as [c [Ec Hc]]. cbn [digits_show map]. rewrite Ec. simpl.
  rewrite Hc, IH1, IH2. split; reflexivity.
Qed.

Lemma key_read_digits k : Forall (fun n => (n < 10)%nat) k -> key_read (digits_show k) = Some k.
Proof.
  intro H. destruct (digits_show_spec k H) as [H1 H2]. unfold key_read. rewrite H1, H2. apply all_some_read_show.
Qed.
