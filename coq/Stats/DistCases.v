(* Comparison helpers for the C17 correspondence cases. *)
Require Import Coq.ZArith.ZArith Coq.QArith.QArith Coq.QArith.Qabs Coq.Lists.List Coq.Strings.String Coq.Bool.Bool.
Require Import OQ.Base.CaseEq OQ.Stats.Dist.
Import ListNotations.

Definition kv_eqb (a b : key * Q) : bool := key_eqb (fst a) (fst b) && Qeq_bool (snd a) (snd b).
Definition dist_eqb : dist -> dist -> bool := leqb kv_eqb.
Definition kv_close (tol : Q) (a b : key * Q) : bool :=
  key_eqb (fst a) (fst b) && Qle_bool (Qabs (snd a - snd b)) tol.
Definition dist_close (tol : Q) : dist -> dist -> bool := leqb (kv_close tol).
Definition err_eqb (a b : err) : bool :=
  match a, b with
  | RuntimeErr, RuntimeErr | ValueErr, ValueErr | IndexErr, IndexErr => true
  | _, _ => false
  end.
Definition res_eqb (e : dist -> dist -> bool) (a b : res dist) : bool :=
  match a, b with
  | Ok x, Ok y => e x y
  | Err x, Err y => err_eqb x y
  | _, _ => false
  end.

(* constructor on the raw dictionary: exact / within tol *)
Definition make_eqb (r : raw) (n : bool) (out : res dist) : bool := res_eqb dist_eqb (make_raw r n) out.
Definition make_close (tol : Q) (r : raw) (n : bool) (out : res dist) : bool :=
  res_eqb (dist_close tol) (make_raw r n) out.
(* subdistribution: result and the source dictionary afterwards *)
Definition sub_eqb (qs : list nat) (d : dist) (out : res dist) (after : dist) : bool :=
  let '(m, s) := subdistribution qs d in res_eqb dist_eqb m out && dist_eqb s after.
Definition sub_close (tol : Q) (qs : list nat) (d : dist) (out : res dist) (after : dist) : bool :=
  let '(m, s) := subdistribution qs d in res_eqb (dist_close tol) m out && dist_eqb s after.
(* save then load: the keys written and the object read back *)
Definition saveload_eqb (d : dist) (written : list string) (out : res dist) : bool :=
  leqb String.eqb (map (fun kv => key_show (fst kv)) d) written && res_eqb dist_eqb (load (save d)) out.
(* [ks] enumerates, without repetition, exactly the outcomes of p or q (set(p).union(q) in some order) *)
Definition mem_key (k : key) (l : list key) : bool := existsb (key_eqb k) l.
Fixpoint nodup_keys (l : list key) : bool :=
  match l with [] => true | k :: r => negb (mem_key k r) && nodup_keys r end.
Definition union_ok (p q : dist) (ks : list key) : bool :=
  nodup_keys ks &&
  forallb (fun k => mem_key k (map fst p) || mem_key k (map fst q)) ks &&
  forallb (fun k => mem_key k ks) (map fst p) && forallb (fun k => mem_key k ks) (map fst q).
