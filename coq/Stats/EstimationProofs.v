(* Proofs about the estimation model (property C15). *)
Require Import Coq.ZArith.ZArith Coq.QArith.QArith Coq.Lists.List Coq.Bool.Bool Coq.Arith.PeanoNat
               Coq.Sorting.Permutation Coq.Sorting.Sorted Coq.micromega.Lia Coq.setoid_ring.Field.
Require Import OQ.Stats.Estimation.
Import ListNotations.
Local Open Scope nat_scope.

(* ------------------------------------------------------------------ mapM *)
Lemma mapM_ok {A B} (f : A -> result B) : forall l ys, mapM f l = Ok ys ->
  List.length ys = List.length l /\
  forall j x, nth_error l j = Some x -> exists y, nth_error ys j = Some y /\ f x = Ok y.
Proof.
  induction l as [|a r IH]; intros ys H; simpl in H.
  - inversion H; subst. split; [reflexivity|]. intros [|j] x Hx; discriminate.
  - destruct (f a) as [y|e] eqn:Hf; [|discriminate].
    destruct (mapM f r) as [ys'|e] eqn:Hr; [|discriminate].
    inversion H; subst. destruct (IH ys' eq_refl) as [Hl Hp].
    split; [simpl; congruence|].
    intros [|j] x Hx; simpl in Hx.
    + inversion Hx; subst. exists y. split; [reflexivity|exact Hf].
    + apply Hp; exact Hx.
Qed.

Lemma mapM_all_ok {A B} (f : A -> result B) : forall l,
  (forall x, In x l -> exists y, f x = Ok y) -> exists ys, mapM f l = Ok ys.
Proof.
  induction l as [|a r IH]; intros H; simpl.
  - eexists; reflexivity.
  - destruct (H a (or_introl eq_refl)) as [y Hy]. rewrite Hy.
    destruct IH as [ys Hys]; [intros x Hx; apply H; right; exact Hx|]. rewrite Hys. eexists; reflexivity.
Qed.

(* ------------------------------------------------------------------ split *)
Section Split.
Context {C : Type}.
Implicit Types (ts : list (task C)) (t : task C).

Definition measuredb t : bool := negb (not_measured t).

Fixpoint im_from (k : nat) ts : list nat :=
  match ts with [] => [] | t :: r => if not_measured t then im_from (S k) r else k :: im_from (S k) r end.
Fixpoint inm_from (k : nat) ts : list nat :=
  match ts with [] => [] | t :: r => if not_measured t then k :: inm_from (S k) r else inm_from (S k) r end.

Lemma split_from_spec : forall ts k,
  split_from k ts = (filter measuredb ts, filter not_measured ts, im_from k ts, inm_from k ts).
Proof.
  induction ts as [|t r IH]; intros k; simpl; [reflexivity|].
  rewrite IH. unfold measuredb. destruct (not_measured t); reflexivity.
Qed.

(* number of measured / not measured tasks before position i *)
Definition rank (i : nat) ts : nat := List.length (filter measuredb (firstn i ts)).
Definition rank_n (i : nat) ts : nat := List.length (filter not_measured (firstn i ts)).

Lemma im_from_bounds : forall ts k j, In j (im_from k ts) -> k <= j < k + List.length ts.
Proof.
  induction ts as [|t r IH]; intros k j H; simpl in *; [contradiction|].
  destruct (not_measured t).
  - apply IH in H. lia.
  - destruct H as [H|H]; [lia|apply IH in H; lia].
Qed.
Lemma inm_from_bounds : forall ts k j, In j (inm_from k ts) -> k <= j < k + List.length ts.
Proof.
  induction ts as [|t r IH]; intros k j H; simpl in *; [contradiction|].
  destruct (not_measured t).
  - destruct H as [H|H]; [lia|apply IH in H; lia].
  - apply IH in H. lia.
Qed.

Lemma split_perm : forall ts k, Permutation (im_from k ts ++ inm_from k ts) (seq k (List.length ts)).
Proof.
  induction ts as [|t r IH]; intros k; simpl; [constructor|].
  destruct (not_measured t).
  - eapply Permutation_trans; [apply Permutation_sym, Permutation_middle|]. constructor. apply IH.
  - simpl. constructor. apply IH.
Qed.

Lemma im_from_sorted : forall ts k, StronglySorted lt (im_from k ts).
Proof.
  induction ts as [|t r IH]; intros k; simpl; [constructor|].
  destruct (not_measured t); [apply IH|].
  constructor; [apply IH|]. apply Forall_forall. intros j Hj. apply im_from_bounds in Hj. lia.
Qed.
Lemma inm_from_sorted : forall ts k, StronglySorted lt (inm_from k ts).
Proof.
  induction ts as [|t r IH]; intros k; simpl; [constructor|].
  destruct (not_measured t); [|apply IH].
  constructor; [apply IH|]. apply Forall_forall. intros j Hj. apply inm_from_bounds in Hj. lia.
Qed.

Lemma im_from_length : forall ts k, List.length (im_from k ts) = List.length (filter measuredb ts).
Proof.
  induction ts as [|t r IH]; intros k; simpl; [reflexivity|]. unfold measuredb at 1.
  destruct (not_measured t); simpl; rewrite IH; reflexivity.
Qed.
Lemma inm_from_length : forall ts k, List.length (inm_from k ts) = List.length (filter not_measured ts).
Proof.
  induction ts as [|t r IH]; intros k; simpl; [reflexivity|].
  destruct (not_measured t); simpl; rewrite IH; reflexivity.
Qed.

Lemma filter_partition_length : forall ts,
  List.length (filter not_measured ts) + List.length (filter measuredb ts) = List.length ts.
Proof.
  induction ts as [|t r IH]; simpl; [reflexivity|]. unfold measuredb at 1.
  destruct (not_measured t); simpl; lia.
Qed.

(* the measured task at position i of the list is number [rank i] among the measured ones *)
Lemma rank_cons : forall t0 r i, rank (S i) (t0 :: r) = (if not_measured t0 then 0 else 1) + rank i r.
Proof. intros. unfold rank. simpl. unfold measuredb at 1. destruct (not_measured t0); reflexivity. Qed.
Lemma rank_n_cons : forall t0 r i, rank_n (S i) (t0 :: r) = (if not_measured t0 then 1 else 0) + rank_n i r.
Proof. intros. unfold rank_n. simpl. destruct (not_measured t0); reflexivity. Qed.
Lemma filter_measuredb_cons : forall t0 r,
  filter measuredb (t0 :: r) = if not_measured t0 then filter measuredb r else t0 :: filter measuredb r.
Proof. intros. simpl. unfold measuredb at 1. destruct (not_measured t0); reflexivity. Qed.

Lemma rank_measured : forall ts k i t, nth_error ts i = Some t -> not_measured t = false ->
  nth_error (im_from k ts) (rank i ts) = Some (k + i) /\
  nth_error (filter measuredb ts) (rank i ts) = Some t.
Proof.
  induction ts as [|t0 r IH]; intros k i t Hi Hm; [destruct i; discriminate|].
  destruct i as [|i]; simpl in Hi.
  - inversion Hi; subst. rewrite filter_measuredb_cons. unfold rank. simpl. rewrite Hm. simpl.
    split; [f_equal; lia|reflexivity].
  - destruct (IH (S k) i t Hi Hm) as [H1 H2].
    rewrite rank_cons, filter_measuredb_cons. simpl im_from. destruct (not_measured t0); simpl.
    + split; [rewrite H1; f_equal; lia|exact H2].
    + split; [rewrite H1; f_equal; lia|exact H2].
Qed.
Lemma rank_not_measured : forall ts k i t, nth_error ts i = Some t -> not_measured t = true ->
  nth_error (inm_from k ts) (rank_n i ts) = Some (k + i) /\
  nth_error (filter not_measured ts) (rank_n i ts) = Some t.
Proof.
  induction ts as [|t0 r IH]; intros k i t Hi Hm; [destruct i; discriminate|].
  destruct i as [|i]; simpl in Hi.
  - inversion Hi; subst. unfold rank_n. simpl. rewrite Hm. simpl.
    split; [f_equal; lia|reflexivity].
  - destruct (IH (S k) i t Hi Hm) as [H1 H2].
    rewrite rank_n_cons. simpl. destruct (not_measured t0); simpl.
    + split; [rewrite H1; f_equal; lia|exact H2].
    + split; [rewrite H1; f_equal; lia|exact H2].
Qed.

(* every listed index points at a task of the right class *)
Lemma im_from_class : forall ts k j, In j (im_from k ts) ->
  exists t, nth_error ts (j - k) = Some t /\ not_measured t = false.
Proof.
  induction ts as [|t0 r IH]; intros k j H; simpl in H; [contradiction|].
  destruct (not_measured t0) eqn:Hm.
  - pose proof (im_from_bounds _ _ _ H) as Hb. destruct (IH _ _ H) as [t [H1 H2]].
    exists t. split; [|exact H2]. replace (j - k) with (S (j - S k)) by lia. exact H1.
  - destruct H as [H|H].
    + subst. exists t0. rewrite Nat.sub_diag. split; [reflexivity|exact Hm].
    + pose proof (im_from_bounds _ _ _ H) as Hb. destruct (IH _ _ H) as [t [H1 H2]].
      exists t. split; [|exact H2]. replace (j - k) with (S (j - S k)) by lia. exact H1.
Qed.
Lemma inm_from_class : forall ts k j, In j (inm_from k ts) ->
  exists t, nth_error ts (j - k) = Some t /\ not_measured t = true.
Proof.
  induction ts as [|t0 r IH]; intros k j H; simpl in H; [contradiction|].
  destruct (not_measured t0) eqn:Hm.
  - destruct H as [H|H].
    + subst. exists t0. rewrite Nat.sub_diag. split; [reflexivity|exact Hm].
    + pose proof (inm_from_bounds _ _ _ H) as Hb. destruct (IH _ _ H) as [t [H1 H2]].
      exists t. split; [|exact H2]. replace (j - k) with (S (j - S k)) by lia. exact H1.
  - pose proof (inm_from_bounds _ _ _ H) as Hb. destruct (IH _ _ H) as [t [H1 H2]].
    exists t. split; [|exact H2]. replace (j - k) with (S (j - S k)) by lia. exact H1.
Qed.

Lemma sorted_lt_nodup : forall l : list nat, StronglySorted lt l -> NoDup l.
Proof.
  induction l as [|x r IH]; intros H; [constructor|].
  inversion H as [|? ? Hs Hf]; subst. constructor; [|apply IH; exact Hs].
  intros Hin. rewrite Forall_forall in Hf. specialize (Hf _ Hin). lia.
Qed.

(* the statement about split itself *)
Lemma split_spec : forall ts tm tn im inm, split ts = (tm, tn, im, inm) ->
  Permutation (im ++ inm) (seq 0 (List.length ts)) /\
  StronglySorted lt im /\ StronglySorted lt inm /\
  List.length tm = List.length im /\ List.length tn = List.length inm /\
  (forall j i, nth_error im j = Some i ->
       exists t, nth_error ts i = Some t /\ nth_error tm j = Some t /\ not_measured t = false) /\
  (forall j i, nth_error inm j = Some i ->
       exists t, nth_error ts i = Some t /\ nth_error tn j = Some t /\ not_measured t = true).
Proof.
  intros ts tm tn im inm H. unfold split in H. rewrite split_from_spec in H. inversion H; subst; clear H.
  split; [apply split_perm|]. split; [apply im_from_sorted|]. split; [apply inm_from_sorted|].
  split; [symmetry; apply im_from_length|]. split; [symmetry; apply inm_from_length|].
  split.
  - intros j i Hj. pose proof (nth_error_In _ _ Hj) as Hin.
    destruct (im_from_class _ _ _ Hin) as [t [Ht Hm]]. rewrite Nat.sub_0_r in Ht.
    exists t. split; [exact Ht|]. split; [|exact Hm].
    destruct (rank_measured ts 0 i t Ht Hm) as [H1 H2]. simpl in H1.
    assert (j = rank i ts) as ->; [|exact H2].
    pose proof (sorted_lt_nodup _ (im_from_sorted ts 0)) as Hnd.
    eapply (proj1 (NoDup_nth_error _) Hnd); [apply nth_error_Some; congruence|congruence].
  - intros j i Hj. pose proof (nth_error_In _ _ Hj) as Hin.
    destruct (inm_from_class _ _ _ Hin) as [t [Ht Hm]]. rewrite Nat.sub_0_r in Ht.
    exists t. split; [exact Ht|]. split; [|exact Hm].
    destruct (rank_not_measured ts 0 i t Ht Hm) as [H1 H2]. simpl in H1.
    assert (j = rank_n i ts) as ->; [|exact H2].
    pose proof (sorted_lt_nodup _ (inm_from_sorted ts 0)) as Hnd.
    eapply (proj1 (NoDup_nth_error _) Hnd); [apply nth_error_Some; congruence|congruence].
Qed.

End Split.

(* ------------------------------------------------------------------ write-back *)
Lemma set_nth_length {A} : forall (l : list A) i x, List.length (set_nth i x l) = List.length l.
Proof. induction l as [|y r IH]; intros [|i] x; simpl; try reflexivity. rewrite IH; reflexivity. Qed.

Lemma nth_error_set_nth_eq {A} : forall (l : list A) i x, i < List.length l -> nth_error (set_nth i x l) i = Some x.
Proof.
  induction l as [|y r IH]; intros [|i] x H; simpl in *; try lia; [reflexivity|]. apply IH. lia.
Qed.
Lemma nth_error_set_nth_neq {A} : forall (l : list A) i j x, i <> j -> nth_error (set_nth i x l) j = nth_error l j.
Proof.
  induction l as [|y r IH]; intros [|i] [|j] x H; simpl; try reflexivity; try lia. apply IH. lia.
Qed.

Lemma assign_cons {A} (full : list (option A)) v vals i idxs :
  assign full (v :: vals) (i :: idxs) = assign (set_nth i (Some v) full) vals idxs.
Proof. reflexivity. Qed.

Lemma assign_length {A} : forall (vals : list A) idxs full, List.length (assign full vals idxs) = List.length full.
Proof.
  induction vals as [|v r IH]; intros [|i idxs] full; try reflexivity.
  rewrite assign_cons, IH, set_nth_length. reflexivity.
Qed.

Lemma assign_notin {A} : forall (vals : list A) idxs full j, ~ In j idxs ->
  nth_error (assign full vals idxs) j = nth_error full j.
Proof.
  induction vals as [|v r IH]; intros [|i idxs] full j H; try reflexivity.
  rewrite assign_cons, IH; [|intros Hin; apply H; right; exact Hin].
  apply nth_error_set_nth_neq. intros ->. apply H. left; reflexivity.
Qed.

Lemma assign_in {A} : forall (vals : list A) idxs full k i v, NoDup idxs ->
  nth_error idxs k = Some i -> nth_error vals k = Some v -> i < List.length full ->
  nth_error (assign full vals idxs) i = Some (Some v).
Proof.
  induction vals as [|v0 r IH]; intros idxs full k i v Hnd Hi Hv Hlt; [destruct k; discriminate|].
  destruct idxs as [|i0 idxs]; [destruct k; discriminate|].
  rewrite assign_cons. inversion Hnd as [|? ? Hni Hnd']; subst.
  destruct k as [|k]; simpl in Hi, Hv.
  - inversion Hi; inversion Hv; subst. rewrite assign_notin by exact Hni.
    apply nth_error_set_nth_eq. exact Hlt.
  - eapply IH; eauto. rewrite set_nth_length. exact Hlt.
Qed.

(* positions the zip does not reach (the runner gave too few results) keep their previous content *)
Lemma assign_beyond {A} : forall (vals : list A) idxs full k i, NoDup idxs ->
  nth_error idxs k = Some i -> List.length vals <= k ->
  nth_error (assign full vals idxs) i = nth_error full i.
Proof.
  induction vals as [|v0 r IH]; intros idxs full k i Hnd Hi Hk; [destruct idxs; reflexivity|].
  destruct idxs as [|i0 idxs]; [reflexivity|].
  rewrite assign_cons. inversion Hnd as [|? ? Hni Hnd']; subst.
  destruct k as [|k]; simpl in Hk; [lia|]. simpl in Hi.
  rewrite (IH idxs _ k i Hnd' Hi) by lia.
  apply nth_error_set_nth_neq. intros ->. apply Hni. eapply nth_error_In; eauto.
Qed.

(* ------------------------------------------------------------------ small list facts *)
Lemma nth_error_combine {A B} : forall (l1 : list A) (l2 : list B) j a b,
  nth_error l1 j = Some a -> nth_error l2 j = Some b -> nth_error (combine l1 l2) j = Some (a, b).
Proof.
  induction l1 as [|x r IH]; intros l2 j a b H1 H2; [destruct j; discriminate|].
  destruct l2 as [|y r2]; [destruct j; discriminate|].
  destruct j as [|j]; simpl in *; [congruence|]. apply IH; assumption.
Qed.
Lemma nth_error_repeat_some {A} (x : A) : forall n i, i < n -> nth_error (repeat x n) i = Some x.
Proof. induction n as [|n IH]; intros [|i] H; simpl; try lia; [reflexivity|]. apply IH. lia. Qed.

Lemma validate_shots_ok : forall l ns, validate_shots l = Ok ns ->
  l = map Some ns /\ Forall (fun n => (0 < n)%Z) ns.
Proof.
  induction l as [|[n|] r IH]; intros ns H; simpl in H.
  - inversion H; subst. split; [reflexivity|constructor].
  - destruct (Z.leb n 0) eqn:Hn; [discriminate|].
    destruct (validate_shots r) as [ns'|e]; [|discriminate]. inversion H; subst.
    destruct (IH ns' eq_refl) as [H1 H2]. split; [simpl; congruence|].
    constructor; [apply Z.leb_gt; exact Hn|exact H2].
  - discriminate.
Qed.
Lemma validate_shots_all_ok : forall l, (forall s, In s l -> exists n, s = Some n /\ (0 < n)%Z) ->
  exists ns, validate_shots l = Ok ns.
Proof.
  induction l as [|s r IH]; intros H; simpl; [eexists; reflexivity|].
  destruct (H s (or_introl eq_refl)) as [n [-> Hn]].
  destruct (Z.leb n 0) eqn:Hl; [apply Z.leb_le in Hl; lia|].
  destruct IH as [ns Hns]; [intros s Hs; apply H; right; exact Hs|]. rewrite Hns. eexists; reflexivity.
Qed.

(* ------------------------------------------------------------------ estimate *)
Section Estimate.
Context {C : Type}.
Variable run : list (C * Z) -> list meas.
Implicit Types (ts : list (task C)) (t : task C).

Definition expected_non_measured t : ev :=
  match kind_of t with KConst => const_ev (constant_value (top t)) | _ => const_ev 0 end.

Lemma non_measured_of_class : forall t, not_measured t = true ->
  non_measured_one t = Ok (expected_non_measured t) /\ kind_of t <> KMeasure.
Proof.
  intros t H. unfold non_measured_one, expected_non_measured, kind_of, not_measured in *.
  destruct (is_constant (top t)); [split; [reflexivity|discriminate]|].
  simpl in H. rewrite H. split; [|discriminate].
  destruct (tshots t) as [n|]; simpl in H; [|discriminate].
  apply Z.eqb_eq in H. subst. reflexivity.
Qed.
Lemma kind_of_measured : forall t, not_measured t = false <-> kind_of t = KMeasure.
Proof.
  intros t. unfold kind_of, not_measured. destruct (is_constant (top t)); simpl; [split; discriminate|].
  destruct (shots_is_zero (tshots t)); split; congruence.
Qed.

Definition batch_ns ts : result (list Z) := validate_shots (map tshots (filter measuredb ts)).
Definition batch_for ts (ns : list Z) : list (C * Z) := combine (map tcirc (filter measuredb ts)) ns.

Definition measured_stage ts : result (list ev) :=
  match filter measuredb ts with
  | [] => Ok []
  | _ => rbind (batch_ns ts) (fun ns =>
           mapM (fun om => get_expectation_values (fst om) (snd om))
                (combine (map top (filter measuredb ts)) (run (batch_for ts ns))))
  end.

Lemma estimate_eq : forall ts, estimate run ts =
  rbind (evaluate_non_measured (filter not_measured ts)) (fun nonm =>
  rbind (measured_stage ts) (fun measured =>
  Ok (assign (assign (repeat None (List.length (filter not_measured ts) + List.length (filter measuredb ts)))
                     nonm (inm_from 0 ts)) measured (im_from 0 ts)))).
Proof.
  intros ts. unfold estimate, split, measured_stage, batch_ns, batch_for. rewrite split_from_spec. reflexivity.
Qed.

Lemma batch_of_eq : forall ts, batch_of ts =
  match filter measuredb ts with
  | [] => None
  | _ => Some (rbind (batch_ns ts) (fun ns => Ok (batch_for ts ns)))
  end.
Proof. intros ts. unfold batch_of, split, batch_ns, batch_for. rewrite split_from_spec. reflexivity. Qed.

Lemma estimate_inv : forall ts res, estimate run ts = Ok res ->
  exists nonm measured,
    evaluate_non_measured (filter not_measured ts) = Ok nonm /\ measured_stage ts = Ok measured /\
    res = assign (assign (repeat None (List.length ts)) nonm (inm_from 0 ts)) measured (im_from 0 ts).
Proof.
  intros ts res H. rewrite estimate_eq in H.
  destruct (evaluate_non_measured (filter not_measured ts)) as [nonm|e]; [|discriminate]. simpl in H.
  destruct (measured_stage ts) as [measured|e]; [|discriminate]. simpl in H.
  inversion H; subst. exists nonm, measured. rewrite filter_partition_length. auto.
Qed.

Lemma estimate_length_lem : forall ts res, estimate run ts = Ok res -> List.length res = List.length ts.
Proof.
  intros ts res H. destruct (estimate_inv _ _ H) as [nonm [measured [_ [_ ->]]]].
  rewrite !assign_length, repeat_length. reflexivity.
Qed.

Lemma not_in_im : forall ts i t, nth_error ts i = Some t -> not_measured t = true -> ~ In i (im_from 0 ts).
Proof.
  intros ts i t Hi Hm Hin. destruct (im_from_class _ _ _ Hin) as [t' [H1 H2]].
  rewrite Nat.sub_0_r in H1. congruence.
Qed.
Lemma not_in_inm : forall ts i t, nth_error ts i = Some t -> not_measured t = false -> ~ In i (inm_from 0 ts).
Proof.
  intros ts i t Hi Hm Hin. destruct (inm_from_class _ _ _ Hin) as [t' [H1 H2]].
  rewrite Nat.sub_0_r in H1. congruence.
Qed.

(* constant and zero-shot tasks: no assumption about the runner at all *)
Lemma estimate_non_measured_at : forall ts res i t, estimate run ts = Ok res ->
  nth_error ts i = Some t -> not_measured t = true ->
  nth_error res i = Some (Some (expected_non_measured t)).
Proof.
  intros ts res i t H Hi Hm. destruct (estimate_inv _ _ H) as [nonm [measured [Hn [_ ->]]]].
  rewrite assign_notin by (eapply not_in_im; eauto).
  destruct (rank_not_measured ts 0 i t Hi Hm) as [H1 H2]. simpl in H1.
  destruct (mapM_ok _ _ _ Hn) as [_ Hp]. destruct (Hp _ _ H2) as [y [Hy1 Hy2]].
  rewrite (proj1 (non_measured_of_class t Hm)) in Hy2. inversion Hy2; subst.
  eapply assign_in; eauto.
  - apply sorted_lt_nodup, inm_from_sorted.
  - rewrite repeat_length. apply nth_error_Some. congruence.
Qed.

(* measured tasks *)
Lemma estimate_measured_at : forall ts res i t, estimate run ts = Ok res ->
  nth_error ts i = Some t -> not_measured t = false ->
  exists ns n, batch_ns ts = Ok ns /\ tshots t = Some n /\ (0 < n)%Z /\
    nth_error (batch_for ts ns) (rank i ts) = Some (tcirc t, n) /\
    List.length (batch_for ts ns) = List.length (filter measuredb ts) /\
    (forall m, nth_error (run (batch_for ts ns)) (rank i ts) = Some m ->
       exists e, get_expectation_values (top t) m = Ok e /\ nth_error res i = Some (Some e)) /\
    (nth_error (run (batch_for ts ns)) (rank i ts) = None -> nth_error res i = Some None).
Proof.
  intros ts res i t H Hi Hm. destruct (estimate_inv _ _ H) as [nonm [measured [Hn [Hms ->]]]].
  destruct (rank_measured ts 0 i t Hi Hm) as [H1 H2]. simpl in H1.
  unfold measured_stage in Hms.
  destruct (filter measuredb ts) as [|t0 tm'] eqn:Htm; [destruct (rank i ts); discriminate|].
  rewrite <- Htm in *. clear Htm t0 tm'.
  destruct (batch_ns ts) as [ns|e] eqn:Hns; [|discriminate]. simpl in Hms.
  unfold batch_ns in Hns. destruct (validate_shots_ok _ _ Hns) as [Hmap Hpos].
  assert (Hlen : List.length ns = List.length (filter measuredb ts)).
  { rewrite <- (map_length Some ns), <- Hmap, map_length. reflexivity. }
  assert (Hn_t : exists n, tshots t = Some n /\ nth_error ns (rank i ts) = Some n).
  { pose proof (map_nth_error tshots _ _ H2) as Hs. rewrite Hmap in Hs.
    destruct (nth_error ns (rank i ts)) as [n|] eqn:Hnn.
    - rewrite (map_nth_error Some _ _ Hnn) in Hs. inversion Hs. exists n. auto.
    - apply nth_error_None in Hnn. assert (rank i ts < List.length (filter measuredb ts)) by (apply nth_error_Some; congruence). lia. }
  destruct Hn_t as [n [Hsn Hnn]].
  exists ns, n. split; [reflexivity|]. split; [exact Hsn|].
  split; [rewrite Forall_forall in Hpos; apply Hpos; eapply nth_error_In; eauto|].
  split; [unfold batch_for; apply nth_error_combine; [apply map_nth_error; exact H2|exact Hnn]|].
  split; [unfold batch_for; rewrite combine_length, map_length; lia|].
  destruct (mapM_ok _ _ _ Hms) as [Hml Hmp].
  pose proof (sorted_lt_nodup _ (im_from_sorted ts 0)) as Hnd.
  split.
  - intros m Hm'.
    destruct (Hmp (rank i ts) (top t, m)) as [e [He1 He2]];
      [apply nth_error_combine; [apply map_nth_error; exact H2|exact Hm']|].
    exists e. split; [exact He2|]. eapply assign_in; eauto.
    rewrite assign_length, repeat_length. apply nth_error_Some. congruence.
  - intros Hnone. apply nth_error_None in Hnone.
    rewrite (assign_beyond measured (im_from 0 ts) _ (rank i ts) i Hnd H1);
      [|rewrite Hml, combine_length; lia].
    rewrite assign_notin by (eapply not_in_inm; eauto).
    apply nth_error_repeat_some. apply nth_error_Some. congruence.
Qed.

(* nothing else can go wrong: valid tasks and a runner whose results fit the operators give a result *)
Lemma estimate_succeeds : forall ts,
  (forall t, In t ts -> not_measured t = false ->
     (exists n, tshots t = Some n /\ (0 < n)%Z) /\ is_ising (top t) = true) ->
  (forall ns, batch_ns ts = Ok ns ->
     forall om, In om (combine (map top (filter measuredb ts)) (run (batch_for ts ns))) -> in_range (fst om) (snd om) = true) ->
  exists res, estimate run ts = Ok res.
Proof.
  intros ts Hv Hr. rewrite estimate_eq.
  destruct (mapM_all_ok non_measured_one (filter not_measured ts)) as [nonm Hn].
  { intros t Ht. apply filter_In in Ht. destruct Ht as [_ Ht].
    eexists. apply (proj1 (non_measured_of_class t Ht)). }
  unfold evaluate_non_measured. rewrite Hn. simpl.
  assert (exists measured, measured_stage ts = Ok measured) as [measured Hm].
  { unfold measured_stage. destruct (filter measuredb ts) as [|t0 tm'] eqn:Htm; [eexists; reflexivity|].
    rewrite <- Htm in *.
    destruct (validate_shots_all_ok (map tshots (filter measuredb ts))) as [ns Hns].
    { intros s Hs. apply in_map_iff in Hs. destruct Hs as [t [<- Ht]]. apply filter_In in Ht.
      destruct Ht as [Ht1 Ht2]. unfold measuredb in Ht2. apply negb_true_iff in Ht2.
      apply (Hv t Ht1 Ht2). }
    fold (batch_ns ts) in Hns. rewrite Hns. simpl.
    apply mapM_all_ok. intros om Hom. pose proof (Hr ns Hns om Hom) as Hrange.
    unfold get_expectation_values. rewrite Hrange.
    destruct om as [o m]. simpl in *. apply in_combine_l in Hom. apply in_map_iff in Hom.
    destruct Hom as [t [<- Ht]]. apply filter_In in Ht. destruct Ht as [Ht1 Ht2].
    unfold measuredb in Ht2. apply negb_true_iff in Ht2.
    rewrite (proj2 (Hv t Ht1 Ht2)). simpl. eexists; reflexivity. }
  rewrite Hm. simpl. eexists; reflexivity.
Qed.

End Estimate.

(* ------------------------------------------------------------------ eigenvalues *)
Lemma sgn_pm : forall b q, sgn b q = 1%Z \/ sgn b q = (-1)%Z.
Proof. intros b q. unfold sgn. destruct (nth q b false); auto. Qed.
Lemma zprod_app : forall l1 l2, zprod (l1 ++ l2) = (zprod l1 * zprod l2)%Z.
Proof.
  induction l1 as [|x r IH]; intros l2; simpl; [destruct (zprod l2); reflexivity|].
  fold (zprod (r ++ l2)). fold (zprod r). rewrite IH. ring.
Qed.
Lemma eps_pm : forall S b, eps S b = 1%Z \/ eps S b = (-1)%Z.
Proof.
  induction S as [|q r IH]; intros b; [left; reflexivity|].
  unfold eps in *. simpl. fold (zprod (map (sgn b) r)).
  destruct (sgn_pm b q) as [-> | ->], (IH b) as [-> | ->]; auto.
Qed.
Lemma eps_sq : forall S b, (eps S b * eps S b = 1)%Z.
Proof. intros S b. destruct (eps_pm S b) as [-> | ->]; reflexivity. Qed.

Lemma eps_perm : forall S T b, Permutation S T -> eps S b = eps T b.
Proof.
  intros S T b H. unfold eps.
  induction H as [|x l l' Hp IH|x y l|l l' l'' H1 IH1 H2 IH2]; simpl; try congruence.
  ring.
Qed.
Lemma eps_filter_split : forall (p : nat -> bool) S b,
  eps S b = (eps (filter p S) b * eps (filter (fun x => negb (p x)) S) b)%Z.
Proof.
  intros p S b. unfold eps. induction S as [|q r IH]; [reflexivity|].
  simpl. fold (zprod (map (sgn b) r)). rewrite IH. destruct (p q); simpl.
  - fold (zprod (map (sgn b) (filter p r))). ring.
  - fold (zprod (map (sgn b) (filter (fun x => negb (p x)) r))). ring.
Qed.
Lemma mem_In : forall x l, mem x l = true <-> In x l.
Proof.
  intros x l. unfold mem. rewrite existsb_exists. split.
  - intros [y [Hy He]]. apply Nat.eqb_eq in He. subst. exact Hy.
  - intros H. exists x. split; [exact H|apply Nat.eqb_refl].
Qed.
Lemma filter_ext_in' {A} (f g : A -> bool) l : (forall x, In x l -> f x = g x) -> filter f l = filter g l.
Proof.
  induction l as [|x r IH]; intros H; [reflexivity|]. simpl.
  rewrite (H x (or_introl eq_refl)), IH; [reflexivity|]. intros y Hy. apply H. right; exact Hy.
Qed.

(* Z_S Z_T = Z_(S symmetric difference T): the eigenvalue is multiplicative *)
Lemma eps_symdiff : forall S T b, NoDup S -> NoDup T ->
  eps (symdiff S T) b = (eps S b * eps T b)%Z.
Proof.
  intros S T b HS HT. unfold symdiff, eps. rewrite map_app, zprod_app. fold (eps (filter (fun x => negb (mem x T)) S) b).
  fold (eps (filter (fun x => negb (mem x S)) T) b). fold (eps S b). fold (eps T b).
  rewrite (eps_filter_split (fun x => mem x T) S b), (eps_filter_split (fun x => mem x S) T b).
  assert (Hp : Permutation (filter (fun x => mem x T) S) (filter (fun x => mem x S) T)).
  { apply NoDup_Permutation; try (apply NoDup_filter; assumption).
    intros x. rewrite !filter_In, !mem_In. tauto. }
  rewrite (eps_perm _ _ b Hp).
  set (c := eps (filter (fun x => mem x S) T) b).
  assert (Hc : (c * c = 1)%Z) by apply eps_sq.
  set (u := eps (filter (fun x => negb (mem x T)) S) b). set (v := eps (filter (fun x => negb (mem x S)) T) b).
  replace (c * u * (c * v))%Z with ((c * c) * (u * v))%Z by ring. rewrite Hc. ring.
Qed.

(* ------------------------------------------------------------------ basis-state exactness *)
Lemma zsum_repeat : forall (x : Z) n, zsum (repeat x n) = (Z.of_nat n * x)%Z.
Proof.
  induction n as [|n IH]; [reflexivity|]. simpl repeat. simpl zsum. fold (zsum (repeat x n)).
  rewrite IH. lia.
Qed.

Definition qmat_eq := Forall2 (Forall2 Qeq).

Lemma Forall2_map_in {A B} (R : B -> B -> Prop) (f g : A -> B) : forall l,
  (forall x, In x l -> R (f x) (g x)) -> Forall2 R (map f l) (map g l).
Proof.
  induction l as [|x r IH]; intros H; simpl; constructor.
  - apply H; left; reflexivity.
  - apply IH. intros y Hy. apply H; right; exact Hy.
Qed.

Lemma enum_in {A} : forall (l : list A) a, In a (enum l) -> nth_error l (fst a) = Some (snd a).
Proof.
  intros l a H. unfold enum in H. destruct a as [i x]. simpl.
  apply In_nth_error in H. destruct H as [k Hk].
  assert (Hk' : k < List.length (combine (seq 0 (List.length l)) l)) by (apply nth_error_Some; congruence).
  rewrite combine_length, seq_length, Nat.min_id in Hk'.
  destruct (nth_error l k) as [y|] eqn:Hy; [|apply nth_error_None in Hy; lia].
  assert (Hs : nth_error (seq 0 (List.length l)) k = Some k).
  { rewrite (nth_error_nth' _ 0%nat) by (rewrite seq_length; exact Hk'). rewrite seq_nth by exact Hk'. reflexivity. }
  rewrite (nth_error_combine _ _ _ _ _ Hs Hy) in Hk. inversion Hk; subst. exact Hy.
Qed.
Lemma enum_snd {A} : forall (l : list A), map snd (enum l) = l.
Proof.
  intros l. unfold enum. generalize 0%nat. induction l as [|x r IH]; intros k; [reflexivity|].
  simpl. rewrite IH. reflexivity.
Qed.
Lemma enum_map {A B} (g : A -> B) (l : list A) : map (fun a => g (snd a)) (enum l) = map g l.
Proof. rewrite <- (enum_snd l) at 2. rewrite map_map. reflexivity. Qed.

Local Open Scope Q_scope.

Lemma map_repeat' {A B} (f : A -> B) x : forall n, map f (repeat x n) = repeat (f x) n.
Proof. induction n as [|n IH]; simpl; [reflexivity|rewrite IH; reflexivity]. Qed.

Lemma mean_eps_repeat : forall S b n, (0 < n)%nat -> mean_eps S (repeat b n) == inject_Z (eps S b).
Proof.
  intros S b n Hn. unfold mean_eps. rewrite map_repeat', zsum_repeat, repeat_length, inject_Z_mult.
  field. intros H. assert (Hz : inject_Z (Z.of_nat n) == inject_Z 0) by exact H.
  rewrite inject_Z_injective in Hz. lia.
Qed.

(* values, correlations and covariances of the estimate when every shot equals b *)
Definition basis_values (o : operator) (b : bits) : list Q :=
  map (fun t => coef t * inject_Z (eps (qubits t) b)) o.
Definition basis_corr (o : operator) (b : bits) : list (list Q) :=
  map (fun ta => map (fun tb => (coef ta * inject_Z (eps (qubits ta) b)) * (coef tb * inject_Z (eps (qubits tb) b))) o) o.
Definition zero_matrix (o : operator) : list (list Q) := map (fun _ => map (fun _ => 0) o) o.

Lemma inject_sq : forall z, (z * z = 1)%Z -> inject_Z z * inject_Z z == 1.
Proof. intros z H. rewrite <- inject_Z_mult, H. reflexivity. Qed.

Lemma corr_entry_basis : forall o b n a c, (0 < n)%nat ->
  Forall (fun t => NoDup (qubits t)) o -> In a (enum o) -> In c (enum o) ->
  corr_entry (repeat b n) a c ==
  (coef (snd a) * inject_Z (eps (qubits (snd a)) b)) * (coef (snd c) * inject_Z (eps (qubits (snd c)) b)).
Proof.
  intros o b n a c Hn Hnd Ha Hc. unfold corr_entry.
  pose proof (enum_in _ _ Ha) as Ha'. pose proof (enum_in _ _ Hc) as Hc'.
  rewrite Forall_forall in Hnd.
  assert (Hda : NoDup (qubits (snd a))) by (apply Hnd; eapply nth_error_In; eauto).
  assert (Hdc : NoDup (qubits (snd c))) by (apply Hnd; eapply nth_error_In; eauto).
  destruct (Nat.eqb (fst a) (fst c)) eqn:He.
  - apply Nat.eqb_eq in He. rewrite He in Ha'. assert (snd a = snd c) as Hs by congruence. rewrite <- Hs.
    pose proof (inject_sq _ (eps_sq (qubits (snd a)) b)) as Hq.
    transitivity (coef (snd a) * coef (snd a) * (inject_Z (eps (qubits (snd a)) b) * inject_Z (eps (qubits (snd a)) b))); [rewrite Hq; ring|ring].
  - destruct (Nat.ltb (fst c) (fst a)); rewrite mean_eps_repeat by exact Hn;
      rewrite eps_symdiff by assumption; rewrite inject_Z_mult; ring.
Qed.

Lemma get_expectation_values_basis : forall o b n e, (0 < n)%nat ->
  Forall (fun t => NoDup (qubits t)) o ->
  get_expectation_values o (repeat b n) = Ok e ->
  Forall2 Qeq (ev_values e) (basis_values o b) /\
  qmat_eq (ev_corr e) (basis_corr o b) /\
  qmat_eq (ev_cov e) (zero_matrix o).
Proof.
  intros o b n e Hn Hnd H. unfold get_expectation_values in H.
  destruct (negb (is_ising o)); [discriminate|]. destruct (negb (in_range o (repeat b n))); [discriminate|].
  inversion H; subst; clear H. simpl.
  split; [|split].
  - unfold basis_values. apply Forall2_map_in. intros t _. rewrite mean_eps_repeat by exact Hn. reflexivity.
  - unfold basis_corr, qmat_eq.
    rewrite <- (enum_map (fun ta => map (fun tb => coef ta * inject_Z (eps (qubits ta) b) * (coef tb * inject_Z (eps (qubits tb) b))) o) o).
    apply Forall2_map_in. intros a Ha.
    rewrite <- (enum_map (fun tb => coef (snd a) * inject_Z (eps (qubits (snd a)) b) * (coef tb * inject_Z (eps (qubits tb) b))) o).
    apply Forall2_map_in. intros c Hc. apply (corr_entry_basis o); assumption.
  - unfold zero_matrix, qmat_eq.
    rewrite <- (enum_map (fun _ => map (fun _ => 0) o) o).
    apply Forall2_map_in. intros a Ha.
    rewrite <- (enum_map (fun _ => 0) o).
    apply Forall2_map_in. intros c Hc.
    rewrite (corr_entry_basis o b n a c Hn Hnd Ha Hc), !mean_eps_repeat by exact Hn.
    repeat rewrite repeat_length.
    field. intros Hz. assert (Hz' : inject_Z (Z.of_nat n) == inject_Z 0) by exact Hz.
    rewrite inject_Z_injective in Hz'. lia.
Qed.

(* exact expectation value on the basis state = sum of the estimated values *)
Lemma fold_qplus_compat : forall l1 l2, Forall2 Qeq l1 l2 -> forall a b, a == b ->
  fold_left Qplus l1 a == fold_left Qplus l2 b.
Proof.
  intros l1 l2 H. induction H as [|x y r1 r2 Hxy _ IH]; intros a b Hab; simpl; [exact Hab|].
  apply IH. rewrite Hab, Hxy. reflexivity.
Qed.
Lemma qsum_basis_values : forall o b vals, Forall2 Qeq vals (basis_values o b) -> qsum vals == exact_on_basis o b.
Proof. intros o b vals H. unfold qsum, exact_on_basis, qsum. apply fold_qplus_compat; [exact H|reflexivity]. Qed.

Local Close Scope Q_scope.

(* ------------------------------------------------------------------ estimation on a basis-state runner *)
Lemma basis_runner_length {C} (state : C -> bits) : forall batch, List.length (basis_runner state batch) = List.length batch.
Proof. intros. unfold basis_runner. apply map_length. Qed.

Lemma estimate_basis_at {C} (state : C -> bits) : forall (ts : list (task C)) res i t,
  estimate (basis_runner state) ts = Ok res -> nth_error ts i = Some t -> kind_of t = KMeasure ->
  Forall (fun tm => NoDup (qubits tm)) (top t) ->
  exists e, nth_error res i = Some (Some e) /\
    Forall2 Qeq (ev_values e) (basis_values (top t) (state (tcirc t))) /\
    qmat_eq (ev_corr e) (basis_corr (top t) (state (tcirc t))) /\
    qmat_eq (ev_cov e) (zero_matrix (top t)).
Proof.
  intros ts res i t H Hi Hk Hnd. apply kind_of_measured in Hk.
  destruct (estimate_measured_at _ _ _ _ _ H Hi Hk) as [ns [n [_ [_ [Hn [Hb [_ [Hsome _]]]]]]]].
  assert (Hm : nth_error (basis_runner state (batch_for ts ns)) (rank i ts) = Some (repeat (state (tcirc t)) (Z.to_nat n))).
  { unfold basis_runner. rewrite (map_nth_error _ _ _ Hb). reflexivity. }
  destruct (Hsome _ Hm) as [e [He1 He2]].
  exists e. split; [exact He2|].
  apply (get_expectation_values_basis _ _ (Z.to_nat n)); [lia|exact Hnd|exact He1].
Qed.

(* ------------------------------------------------------------------ binding symbol maps *)
Lemma bind_tasks_length_lem {C M} (bind : C -> M -> C) : forall ts maps,
  List.length (bind_tasks bind ts maps) = Nat.min (List.length ts) (List.length maps).
Proof. intros. unfold bind_tasks. rewrite map_length, combine_length. reflexivity. Qed.

Lemma nth_error_combine_inv {A B} : forall (l1 : list A) (l2 : list B) j p,
  nth_error (combine l1 l2) j = Some p -> nth_error l1 j = Some (fst p) /\ nth_error l2 j = Some (snd p).
Proof.
  induction l1 as [|x r IH]; intros l2 j p H; [destruct j; discriminate|].
  destruct l2 as [|y r2]; [destruct j; discriminate|].
  destruct j as [|j]; simpl in *; [inversion H; auto|]. apply IH; exact H.
Qed.

Lemma bind_tasks_at {C M} (bind : C -> M -> C) : forall ts maps i t',
  nth_error (bind_tasks bind ts maps) i = Some t' <->
  exists t m, nth_error ts i = Some t /\ nth_error maps i = Some m /\
              t' = mkTask (top t) (bind (tcirc t) m) (tshots t).
Proof.
  intros ts maps i t'. unfold bind_tasks. split.
  - intros H. destruct (nth_error (combine ts maps) i) as [[t m]|] eqn:Hc.
    + rewrite (map_nth_error _ _ _ Hc) in H. inversion H; subst.
      apply nth_error_combine_inv in Hc. destruct Hc as [H1 H2]. exists t, m. auto.
    + apply nth_error_None in Hc. assert (i < List.length (map (fun tm => mkTask (top (fst tm)) (bind (tcirc (fst tm)) (snd tm)) (tshots (fst tm))) (combine ts maps))) by (apply nth_error_Some; congruence).
      rewrite map_length in *. lia.
  - intros [t [m [H1 [H2 ->]]]]. rewrite (map_nth_error _ _ _ (nth_error_combine _ _ _ _ _ H1 H2)). reflexivity.
Qed.

(* ------------------------------------------------------------------ statements in the form used by Props/C15.v *)
Section Final.
Context {C : Type}.
Variable run : list (C * Z) -> list meas.
Implicit Types (ts : list (task C)) (t : task C).

Lemma kind_const_class : forall t, kind_of t = KConst -> not_measured t = true /\ expected_non_measured t = const_ev (constant_value (top t)).
Proof.
  intros t H. unfold expected_non_measured. rewrite H. split; [|reflexivity].
  unfold kind_of, not_measured in *. destruct (is_constant (top t)); [reflexivity|].
  destruct (shots_is_zero (tshots t)); discriminate.
Qed.
Lemma kind_zero_class : forall t, kind_of t = KZeroShot -> not_measured t = true /\ expected_non_measured t = const_ev 0.
Proof.
  intros t H. unfold expected_non_measured. rewrite H. split; [|reflexivity].
  unfold kind_of, not_measured in *. destruct (is_constant (top t)); [reflexivity|].
  destruct (shots_is_zero (tshots t)); [reflexivity|discriminate].
Qed.

Lemma estimate_const_at : forall ts res i t, estimate run ts = Ok res -> nth_error ts i = Some t ->
  kind_of t = KConst -> nth_error res i = Some (Some (const_ev (constant_value (top t)))).
Proof.
  intros ts res i t H Hi Hk. destruct (kind_const_class t Hk) as [Hm <-].
  eapply estimate_non_measured_at; eauto.
Qed.
Lemma estimate_zeroshot_at : forall ts res i t, estimate run ts = Ok res -> nth_error ts i = Some t ->
  kind_of t = KZeroShot -> nth_error res i = Some (Some (const_ev 0)).
Proof.
  intros ts res i t H Hi Hk. destruct (kind_zero_class t Hk) as [Hm <-].
  eapply estimate_non_measured_at; eauto.
Qed.

Lemma batch_of_measured : forall ts ns t i, nth_error ts i = Some t -> not_measured t = false ->
  batch_ns ts = Ok ns -> batch_of ts = Some (Ok (batch_for ts ns)).
Proof.
  intros ts ns t i Hi Hm Hns. rewrite batch_of_eq.
  destruct (rank_measured ts 0 i t Hi Hm) as [_ H2].
  destruct (filter measuredb ts) as [|t0 r] eqn:Hf; [destruct (rank i ts); discriminate|].
  rewrite Hns. reflexivity.
Qed.

Lemma estimate_measured_full : forall ts res i t,
  (forall b, List.length (run b) = List.length b) ->
  estimate run ts = Ok res -> nth_error ts i = Some t -> kind_of t = KMeasure ->
  exists b n m e, batch_of ts = Some (Ok b) /\ tshots t = Some n /\ (0 < n)%Z /\
    nth_error b (rank i ts) = Some (tcirc t, n) /\
    nth_error (run b) (rank i ts) = Some m /\
    get_expectation_values (top t) m = Ok e /\ nth_error res i = Some (Some e).
Proof.
  intros ts res i t Hrun H Hi Hk. apply kind_of_measured in Hk.
  destruct (estimate_measured_at run _ _ _ _ H Hi Hk) as [ns [n [Hns [Hsn [Hn [Hb [Hl [Hsome _]]]]]]]].
  destruct (nth_error (run (batch_for ts ns)) (rank i ts)) as [m|] eqn:Hm.
  - destruct (Hsome m eq_refl) as [e [He1 He2]].
    exists (batch_for ts ns), n, m, e. repeat split; auto. eapply batch_of_measured; eauto.
  - apply nth_error_None in Hm. rewrite Hrun in Hm.
    assert (rank i ts < List.length (batch_for ts ns)) by (apply nth_error_Some; congruence). lia.
Qed.

Lemma estimate_missing_result : forall ts res i t,
  estimate run ts = Ok res -> nth_error ts i = Some t -> kind_of t = KMeasure ->
  exists b, batch_of ts = Some (Ok b) /\
    (nth_error (run b) (rank i ts) = None -> nth_error res i = Some None).
Proof.
  intros ts res i t H Hi Hk. apply kind_of_measured in Hk.
  destruct (estimate_measured_at run _ _ _ _ H Hi Hk) as [ns [n [Hns [_ [_ [_ [_ [_ Hnone]]]]]]]].
  exists (batch_for ts ns). split; [eapply batch_of_measured; eauto|exact Hnone].
Qed.

End Final.

(* one value per term: coefficient times the sample mean of the term's eigenvalue *)
Lemma values_weighted : forall o m e, get_expectation_values o m = Ok e ->
  ev_values e = map (fun t => (coef t * mean_eps (qubits t) m)%Q) o /\
  List.length (ev_corr e) = List.length o /\ List.length (ev_cov e) = List.length o.
Proof.
  intros o m e H. unfold get_expectation_values in H.
  destruct (negb (is_ising o)); [discriminate|]. destruct (negb (in_range o m)); [discriminate|].
  inversion H; subst. simpl. unfold enum. rewrite !map_length, combine_length, seq_length, Nat.min_id. auto.
Qed.

(* failure modes of a single measured result *)
Lemma get_expectation_values_errors : forall o m,
  (is_ising o = false -> get_expectation_values o m = Err EType) /\
  (is_ising o = true -> in_range o m = false -> get_expectation_values o m = Err EIndex) /\
  (is_ising o = true -> in_range o m = true -> exists e, get_expectation_values o m = Ok e).
Proof.
  intros o m. unfold get_expectation_values. repeat split.
  - intros ->. reflexivity.
  - intros -> ->. reflexivity.
  - intros -> ->. simpl. eexists; reflexivity.
Qed.

(* ------------------------------------------------------------------ grouping equal shots into counts is exact *)
Lemma bits_eqb_eq : forall a b, bits_eqb a b = true -> a = b.
Proof.
  induction a as [|x r IH]; intros [|y s] H; simpl in H; try discriminate; [reflexivity|].
  apply andb_true_iff in H. destruct H as [H1 H2]. apply eqb_prop in H1. apply IH in H2. congruence.
Qed.

Definition wsum (f : bits -> Z) (d : list (bits * Z)) : Z := zsum (map (fun kc => (snd kc * f (fst kc))%Z) d).

Lemma zsum_cons : forall x l, zsum (x :: l) = (x + zsum l)%Z.
Proof. reflexivity. Qed.
Lemma wsum_cons : forall f kc d, wsum f (kc :: d) = (snd kc * f (fst kc) + wsum f d)%Z.
Proof. reflexivity. Qed.
Lemma wsum_add_count : forall f b d, wsum f (add_count b d) = (wsum f d + f b)%Z.
Proof.
  intros f b d. induction d as [|kc r IH].
  - cbn [add_count]. rewrite wsum_cons. cbn [fst snd]. lia.
  - cbn [add_count]. destruct (bits_eqb b (fst kc)) eqn:He.
    + apply bits_eqb_eq in He. subst. rewrite !wsum_cons. cbn [fst snd]. lia.
    + rewrite !wsum_cons, IH. lia.
Qed.
Lemma wsum_fold : forall f m d0,
  wsum f (fold_left (fun d b => add_count b d) m d0) = (wsum f d0 + zsum (map f m))%Z.
Proof.
  intros f m. induction m as [|b r IH]; intros d0.
  - cbn [fold_left map]. unfold zsum. cbn [fold_right]. lia.
  - cbn [fold_left map]. rewrite zsum_cons, IH, wsum_add_count. lia.
Qed.
Lemma wsum_counts : forall f m, wsum f (counts_of m) = zsum (map f m).
Proof. intros. unfold counts_of. rewrite wsum_fold. reflexivity. Qed.
Lemma counts_total : forall m, zsum (map snd (counts_of m)) = Z.of_nat (List.length m).
Proof.
  intros m. transitivity (wsum (fun _ => 1%Z) (counts_of m)).
  - unfold wsum. f_equal. apply map_ext. intros kc. lia.
  - rewrite wsum_counts. induction m as [|b r IH]; [reflexivity|].
    cbn [map]. rewrite zsum_cons, IH. cbn [List.length]. lia.
Qed.

Lemma qsum_div : forall (g : bits * Z -> Z) (n : Q) d (a : Q),
  (fold_left Qplus (map (fun kc => inject_Z (g kc) / n) d) a == a + inject_Z (zsum (map g d)) / n)%Q.
Proof.
  intros g n d. induction d as [|kc r IH]; intros a; cbn [map fold_left].
  - unfold zsum. cbn [fold_right]. unfold Qdiv. change (inject_Z 0) with 0%Q. ring.
  - rewrite IH. rewrite zsum_cons, inject_Z_plus. unfold Qdiv. ring.
Qed.

Lemma mean_eps_counts_eq : forall S m, (mean_eps_counts S m == mean_eps S m)%Q.
Proof.
  intros S m. unfold mean_eps_counts, mean_eps, qsum.
  rewrite (qsum_div (fun kc => (snd kc * eps S (fst kc))%Z)).
  fold (wsum (eps S) (counts_of m)). rewrite wsum_counts, counts_total. ring.
Qed.

(* ------------------------------------------------------------------ exact expectation values = quadratic form *)
(* built on property C09 (Pauli/MatrixOpsProofs.expectation_form); from here on the Pauli modules are imported and the
   names of Stats/Estimation.v that they shadow are written qualified *)
Require Import OQ.Base.Ring OQ.Base.Sums OQ.Base.Bits OQ.Base.Mat OQ.Pauli.Algebra OQ.Pauli.Den OQ.Pauli.Matrix
               OQ.Pauli.DenProofs OQ.Pauli.MatrixOpsProofs.

Section ExactProofs.
  Variable K : cring.
  Add Ring Kexact : (c_ring K).
  Local Open Scope cr_scope.
  Variables nzb is_zero : K -> bool.
  Hypothesis nzb_exact : forall x, nzb x = false -> x = c0.
  Hypothesis nzb_zero : nzb c0 = false.
  Variable re : K -> K.
  Variable C : Type.
  Variable wavefunction : C -> nat * Vec K.

  (* <v| den(s) |v> on n qubits *)
  Definition quadratic_form (n : nat) (s : psum K) (v : Vec K) : K :=
    rsum (2 ^ n) (fun i => cconj (v i) * rsum (2 ^ n) (fun k => sden n s i k * v k)).

  Definition exact_value (t : Estimation.xtask K C) : K :=
    re (quadratic_form (fst (wavefunction (Estimation.xcirc t))) (Estimation.xop t) (snd (wavefunction (Estimation.xcirc t)))).

  Lemma get_exact_form : forall c (o : psum K), sum_ok (fst (wavefunction c)) o ->
    Estimation.get_exact_expectation_values nzb is_zero re wavefunction c o
    = Some (re (quadratic_form (fst (wavefunction c)) o (snd (wavefunction c)))).
  Proof.
    intros c o Hok. unfold Estimation.get_exact_expectation_values.
    rewrite (expectation_form K is_zero nzb nzb_exact nzb_zero _ _ _ Hok). reflexivity.
  Qed.

  Lemma calculate_exact_form : forall ts : list (Estimation.xtask K C),
    (forall t, In t ts -> sum_ok (fst (wavefunction (Estimation.xcirc t))) (Estimation.xop t)) ->
    Estimation.calculate_exact nzb is_zero re wavefunction ts = Some (map (fun t => [exact_value t]) ts).
  Proof.
    induction ts as [|t r IH]; intros H; [reflexivity|].
    cbn [Estimation.calculate_exact map].
    rewrite get_exact_form by (apply H; left; reflexivity).
    rewrite IH by (intros t' Ht'; apply H; right; exact Ht'). reflexivity.
  Qed.

  Lemma calculate_exact_rejects : forall (ts : list (Estimation.xtask K C)) t, In t ts ->
    fst (wavefunction (Estimation.xcirc t)) < sum_width (Estimation.xop t) ->
    Estimation.calculate_exact nzb is_zero re wavefunction ts = None.
  Proof.
    induction ts as [|t0 r IH]; intros t Hin Hw; [contradiction|].
    cbn [Estimation.calculate_exact]. destruct Hin as [->|Hin].
    - unfold Estimation.get_exact_expectation_values. rewrite expectation_rejects by exact Hw. reflexivity.
    - destruct (Estimation.get_exact_expectation_values nzb is_zero re wavefunction (Estimation.xcirc t0) (Estimation.xop t0)); [|reflexivity].
      rewrite (IH t Hin Hw). reflexivity.
  Qed.

  (* ---- computational basis states, Ising operators *)
  Definition basis_vec (x : nat) : Vec K := fun i => if Nat.eqb i x then c1 else c0.
  Definition ising_term (t : term K) : Prop := forall it, In it (tops t) -> snd it = PZ.

  Lemma quadratic_form_basis : forall n (s : psum K) x, x < 2 ^ n ->
    quadratic_form n s (basis_vec x) = sden n s x x.
  Proof.
    intros n s x Hx. unfold quadratic_form, basis_vec.
    assert (Hin : forall i, rsum (2 ^ n) (fun k => sden n s i k * (if Nat.eqb k x then c1 else c0)) = sden n s i x).
    { intros i. rewrite (rsum_ext K (2 ^ n) _ (fun k => if Nat.eqb k x then sden n s i k else c0)).
      - apply (rsum_delta K (2 ^ n) x (fun k => sden n s i k) Hx).
      - intros k _. destruct (Nat.eqb k x); ring. }
    rewrite (rsum_ext K (2 ^ n) _ (fun i => if Nat.eqb i x then sden n s i x else c0)).
    - apply (rsum_delta K (2 ^ n) x (fun i => sden n s i x) Hx).
    - intros i _. rewrite Hin. destruct (Nat.eqb i x); [rewrite conj_1; ring|rewrite conj_0; ring].
  Qed.

  Lemma of_Z_opp : forall z, @of_Z K (- z)%Z = - @of_Z K z.
  Proof. intros [|p|p]; cbn [Z.opp of_Z]; ring. Qed.

  Lemma of_Z_eps : forall (l : ops) (bs : list bool),
    @of_Z K (Estimation.eps (keys l) bs)
    = lprod l (fun it => if nth (fst it) bs false then - c1 else c1).
  Proof.
    intros l bs. unfold Estimation.eps, keys. induction l as [|[q a] r IH]; [reflexivity|].
    cbn [map fst lprod]. change (Estimation.zprod (Estimation.sgn bs q :: map (Estimation.sgn bs) (map fst r)))
      with (Estimation.sgn bs q * Estimation.zprod (map (Estimation.sgn bs) (map fst r)))%Z.
    unfold Estimation.sgn at 1. destruct (nth q bs false).
    - rewrite <- IH. replace (-1 * Estimation.zprod (map (Estimation.sgn bs) (map fst r)))%Z
        with (- Estimation.zprod (map (Estimation.sgn bs) (map fst r)))%Z by lia.
      rewrite of_Z_opp. ring.
    - rewrite <- IH. rewrite Z.mul_1_l. ring.
  Qed.

  Lemma den_basis_ising : forall n (t : term K) x, term_ok n t -> ising_term t ->
    den n t x x = coef t * @of_Z K (Estimation.eps (keys (tops t)) (bits n x)).
  Proof.
    intros n t x [Hs Hf] Hz. unfold den, pprod. f_equal.
    rewrite of_Z_eps.
    rewrite <- (lprod_items K n (tops t) (fun q o => sigma o (bitq n q x) (bitq n q x))).
    - apply lprod_ext. intros [q a] Hin. rewrite (Hz _ Hin). cbn [fst snd sigma]. unfold bitq.
      rewrite Bool.eqb_reflx. reflexivity.
    - intros q. cbn [sigma]. rewrite Bool.eqb_reflx. reflexivity.
    - apply ops_sorted_nodup. exact Hs.
    - exact Hf.
  Qed.

  Lemma quadratic_form_basis_ising : forall n (s : psum K) x, x < 2 ^ n -> sum_ok n s -> Forall ising_term s ->
    quadratic_form n s (basis_vec x)
    = lsum s (fun t => coef t * @of_Z K (Estimation.eps (keys (tops t)) (bits n x))).
  Proof.
    intros n s x Hx Hok Hz. rewrite quadratic_form_basis by exact Hx. unfold sden.
    apply lsum_ext. intros t Ht. unfold sum_ok in Hok. rewrite Forall_forall in Hok, Hz. apply den_basis_ising; auto.
  Qed.
End ExactProofs.
