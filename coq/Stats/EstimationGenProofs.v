(* C15: the definitions GENERATED from estimation/_estimation.py (Gen/EstimationGen.v, translator tr/tr_estimation.py)
   agree with the hand-written model of Stats/Estimation.v that the C15 theorems are about, for all inputs.
   Re-checked against the freshly generated text on every run: a semantic edit of the Python source either is
   rejected by the translator or changes the generated definitions, and then a proof below fails.

   The generated definitions are stated over an arbitrary [pyworld] (operators, circuits, runners, ... abstract).
   [model_world] is the world of the model: operators are lists of terms with rational coefficients, is_constant /
   terms / coefficient are the model's, the runner is the model's front door (shot validation, then an arbitrary
   function [run]), get_expectation_values is the model's, expectation_values_to_real is any function that fixes the
   model's (real) expectation values.  The embeddings [py_of_task], [py_of_ev], [res_of_model]
   are injective, so each equation determines the generated function's result from the model's and vice versa.

     evaluate_estimation_circuits_gen_eq            = bind_tasks
     split_estimation_tasks_to_measure_gen_eq       = split            (indices as ints)
     evaluate_non_measured_estimation_tasks_gen_eq  = evaluate_non_measured
     estimate_expectation_values_by_averaging_gen_eq = estimate         (any runner function, any task list)
     calculate_exact_expectation_values_gen_eq      = calculate_exact  (any commutative ring, any simulator)

   The proofs refer to the generated definitions by names derived from the FUNCTION names only (state constructors
   ..._S<k>_mk, bodies ..._L<k>_body, fields by position); the names of Python locals do not occur. *)
Require Import Coq.ZArith.ZArith Coq.QArith.QArith Coq.Lists.List Coq.Bool.Bool Coq.Arith.PeanoNat Coq.micromega.Lia.
Require Import OQ.Base.Ring.
Require OQ.Base.Mat OQ.Pauli.Algebra OQ.Pauli.Matrix.
Require Import OQ.Stats.Estimation OQ.Stats.EstimationProofs.
Require Import OQ.Stats.EstimationTrSupport OQ.Gen.EstimationGen.
Import ListNotations.
Local Close Scope Q_scope.
Local Open Scope list_scope.

(* ------------------------------------------------------------------ the model's values as Python values *)
Definition exn_of_err (e : err) : pyexn :=
  match e with EValue => ValueError | EType => TypeError | EIndex => IndexError | ERuntime => RuntimeError end.

(* a result of the model as an outcome of the Python evaluation; [f] embeds the value *)
Definition res_of_model {A B} (f : A -> B) (r : result A) : pyres B :=
  match r with Ok a => Val (f a) | Err e => Raise (exn_of_err e) end.

(* the model's ExpectationValues (one frame): the correlation / covariance matrix is the single element of the list *)
Definition py_of_ev (e : ev) : py_ev Q := mk_py_ev (ev_values e) (Some [ev_corr e]) (Some [ev_cov e]).

Definition py_of_task {C} (t : task C) : py_task operator C := mk_py_task (top t) (tcirc t) (tshots t).

(* exact rationals, as in the model: an int is injected, a float literal is its decimal value *)
Definition num_Q : pynum := mk_pynum Q inject_Z (fun q => q) Qplus.

Lemma py_of_ev_inj : forall a b, py_of_ev a = py_of_ev b -> a = b.
Proof. intros [v c k] [v' c' k'] H. unfold py_of_ev in H. cbn in H. congruence. Qed.

Lemma py_of_task_inj {C} : forall a b : task C, py_of_task a = py_of_task b -> a = b.
Proof. intros [o c s] [o' c' s'] H. unfold py_of_task in H. cbn in H. congruence. Qed.

Lemma res_of_model_inj {A B} (f : A -> B) : (forall a b, f a = f b -> a = b) ->
  forall r s, res_of_model f r = res_of_model f s -> r = s.
Proof.
  intros Hf [a|e] [b|e'] H; cbn in H; try discriminate.
  - f_equal. apply Hf. congruence.
  - destruct e, e'; cbn in H; congruence.
Qed.

(* ------------------------------------------------------------------ the support constants, characterised *)
Lemma py_comp_mapM {A B B'} (h : B -> B') (g : A -> result B) (f : A -> pyres B') :
  (forall a, f a = res_of_model h (g a)) -> forall l, py_comp f l = res_of_model (map h) (mapM g l).
Proof.
  intros Hf. induction l as [|a r IH]; [reflexivity|].
  cbn [py_comp mapM]. rewrite Hf. destruct (g a) as [b|e]; cbn [res_of_model bind]; [|reflexivity].
  rewrite IH. destruct (mapM g r) as [bs|e]; reflexivity.
Qed.

Lemma map_const_seq {X} (c : X) n : forall a, map (fun _ : Z => c) (map Z.of_nat (seq a n)) = repeat c n.
Proof. induction n as [|n IH]; intros a; cbn [seq map repeat]; [reflexivity | now rewrite IH]. Qed.

Lemma range_const {X} (c : X) n : map (fun _ : Z => c) (py_range (Z.of_nat n)) = repeat c n.
Proof. unfold py_range. rewrite Nat2Z.id. apply map_const_seq. Qed.

Lemma py_setitem_in {A} (l : list A) i x : i < List.length l -> py_setitem l (Z.of_nat i) x = Val (py_set_nth i x l).
Proof.
  intros Hi. unfold py_setitem, py_len. cbv zeta.
  destruct (Z.ltb_spec (Z.of_nat i) 0) as [Hneg|_]; [lia|].
  destruct (Z.ltb_spec (Z.of_nat i) 0) as [Hneg|_]; [lia|].
  destruct (Z.leb_spec (Z.of_nat (List.length l)) (Z.of_nat i)) as [Hge|_]; [lia|].
  cbn [orb]. rewrite Nat2Z.id. reflexivity.
Qed.

Lemma py_set_nth_map {A B} (f : A -> B) : forall (l : list A) i x, py_set_nth i (f x) (map f l) = map f (set_nth i x l).
Proof.
  induction l as [|y r IH]; intros [|i] x; cbn [map py_set_nth set_nth]; try reflexivity. now rewrite IH.
Qed.

Section ModelWorld.
  Variables (C M : Type).
  Variable cbind : C -> M -> C.                       (* Circuit.bind, abstract in the model *)
  Variable run : list (C * Z) -> list meas.           (* the runner behind the validation, abstract in the model *)
  (* expectation_values_to_real: an arbitrary function that leaves the (real) expectation values of the model unchanged.
     The model has no counterpart of it - its coefficients are real - so this hypothesis is what the model assumes;
     only the agreement theorem for estimate_expectation_values_by_averaging uses it. *)
  Variable toreal : py_ev Q -> py_ev Q.
  Hypothesis toreal_real : forall e : ev, toreal (py_of_ev e) = py_of_ev e.
  (* not used by the averaging path; arbitrary *)
  Variable Sim : Type.
  Variable exact : Sim -> C -> operator -> pyres Q.

  (* runner.run_batch_and_measure of the model: BaseCircuitRunner's validation of the shot counts, then [run] *)
  Definition model_runner (cs : list C) (shots : list (option Z)) : pyres (list meas) :=
    res_of_model (fun x => x) (rbind (validate_shots shots) (fun ns => Ok (run (combine cs ns)))).

  Definition model_world : pyworld :=
    mk_pyworld num_Q operator term C M meas unit Sim
               is_constant (fun o => o) coef cbind (fun _ => model_runner)
               (fun m o => res_of_model py_of_ev (get_expectation_values o m)) toreal exact.
  Notation MW := model_world.

  (* ---------------------------------------------------------------- evaluate_estimation_circuits *)
  Theorem evaluate_estimation_circuits_gen_eq : forall (ts : list (task C)) (maps : list M),
    evaluate_estimation_circuits_gen MW (map py_of_task ts) maps = Val (map py_of_task (bind_tasks cbind ts maps)).
  Proof.
    intros ts maps. unfold evaluate_estimation_circuits_gen, bind_tasks, py_zip. f_equal.
    revert maps. induction ts as [|t r IH]; intros [|m ms]; cbn [map combine]; try reflexivity.
    rewrite IH. reflexivity.
  Qed.

  (* ---------------------------------------------------------------- split_estimation_tasks_to_measure *)
  Ltac split_st := cbv beta iota delta
    [split_estimation_tasks_to_measure_S1_set_c0 split_estimation_tasks_to_measure_S1_set_c1
     split_estimation_tasks_to_measure_S1_set_c2 split_estimation_tasks_to_measure_S1_set_c3
     split_estimation_tasks_to_measure_S1_c0 split_estimation_tasks_to_measure_S1_c1
     split_estimation_tasks_to_measure_S1_c2 split_estimation_tasks_to_measure_S1_c3].

  Lemma split_loop : forall (ts : list (task C)) k a b c d,
    py_for (py_enumerate_from (Z.of_nat k) (map py_of_task ts))
           (split_estimation_tasks_to_measure_S1_mk MW a b c d)
           (py_unpack2 (split_estimation_tasks_to_measure_L1_body MW))
    = Val (split_estimation_tasks_to_measure_S1_mk MW
             (a ++ map Z.of_nat (inm_from k ts)) (b ++ map py_of_task (filter not_measured ts))
             (c ++ map Z.of_nat (im_from k ts)) (d ++ map py_of_task (filter measuredb ts))).
  Proof.
    induction ts as [|t r IH]; intros k a b c d.
    - cbn. rewrite !app_nil_r. reflexivity.
    - cbn [map py_enumerate_from py_for]. unfold py_unpack2 at 1, split_estimation_tasks_to_measure_L1_body at 1.
      cbn [fst snd].
      change (orb _ _) with (not_measured t).
      replace (Z.of_nat k + 1)%Z with (Z.of_nat (S k)) by lia.
      assert (Hm : measuredb t = negb (not_measured t)) by reflexivity.
      cbn [filter im_from inm_from]. rewrite Hm.
      destruct (not_measured t); cbn [bind negb]; split_st; rewrite IH; unfold py_append; cbn [map];
        rewrite <- !app_assoc; reflexivity.
  Qed.

  Definition py_of_split (s : list (task C) * list (task C) * list nat * list nat) :=
    let '(tm, tn, im, inm) := s in (map py_of_task tm, map py_of_task tn, map Z.of_nat im, map Z.of_nat inm).

  Theorem split_estimation_tasks_to_measure_gen_eq : forall ts : list (task C),
    split_estimation_tasks_to_measure_gen MW (map py_of_task ts) = Val (py_of_split (split ts)).
  Proof.
    intros ts. unfold split_estimation_tasks_to_measure_gen, py_enumerate, split. cbv zeta.
    rewrite (split_loop ts 0). rewrite split_from_spec. reflexivity.
  Qed.
  (* ---------------------------------------------------------------- evaluate_non_measured_estimation_tasks *)
  Ltac nonm_st := cbv beta iota delta
    [evaluate_non_measured_estimation_tasks_S1_set_c0 evaluate_non_measured_estimation_tasks_S1_set_c1
     evaluate_non_measured_estimation_tasks_S1_c0 evaluate_non_measured_estimation_tasks_S1_c1].

  (* one pass of the loop body: the model's non_measured_one, appended; the local holding the coefficient ends up bound *)
  Lemma non_measured_body : forall (t : task C) c acc,
    evaluate_non_measured_estimation_tasks_L1_body MW (py_of_task t)
      (evaluate_non_measured_estimation_tasks_S1_mk MW c acc)
    = match non_measured_one t with
      | Ok e => Val (evaluate_non_measured_estimation_tasks_S1_mk MW (Some (hd 0%Q (ev_values e))) (acc ++ [py_of_ev e]))
      | Err e => Raise (exn_of_err e)
      end.
  Proof.
    intros t c acc. unfold evaluate_non_measured_estimation_tasks_L1_body, non_measured_one.
    change (w_is_constant MW (t_operator (py_of_task t))) with (is_constant (top t)).
    change (t_number_of_shots (py_of_task t)) with (tshots t).
    destruct (is_constant (top t)).
    - cbn [bind]. nonm_st. cbn [py_local bind]. reflexivity.
    - destruct (tshots t) as [n|]; cbn [py_is_not_none py_is_none negb py_optint_gt py_optint_cmp bind].
      + rewrite Z.gtb_ltb. destruct (Z.ltb 0 n); cbn [bind exn_of_err]; [reflexivity|].
        nonm_st. cbn [py_local bind]. reflexivity.
      + nonm_st. cbn [py_local bind]. reflexivity.
  Qed.

  Lemma non_measured_loop : forall (ts : list (task C)) c acc,
    bind (py_for (map py_of_task ts) (evaluate_non_measured_estimation_tasks_S1_mk MW c acc)
                 (evaluate_non_measured_estimation_tasks_L1_body MW))
         (fun st => Val (evaluate_non_measured_estimation_tasks_S1_c1 MW st))
    = res_of_model (fun evs => acc ++ map py_of_ev evs) (evaluate_non_measured ts).
  Proof.
    unfold evaluate_non_measured.
    induction ts as [|t r IH]; intros c acc.
    - cbn. rewrite app_nil_r. reflexivity.
    - cbn [map py_for mapM]. rewrite non_measured_body.
      destruct (non_measured_one t) as [e|e]; cbn [bind res_of_model]; [|reflexivity].
      rewrite IH. destruct (mapM non_measured_one r) as [es|e']; cbn [res_of_model map]; [|reflexivity].
      rewrite <- app_assoc. reflexivity.
  Qed.

  Theorem evaluate_non_measured_estimation_tasks_gen_eq : forall ts : list (task C),
    evaluate_non_measured_estimation_tasks_gen MW (map py_of_task ts)
    = res_of_model (map py_of_ev) (evaluate_non_measured ts).
  Proof.
    intros ts. unfold evaluate_non_measured_estimation_tasks_gen. cbv zeta.
    exact (non_measured_loop ts None []).
  Qed.
  (* ---------------------------------------------------------------- estimate_expectation_values_by_averaging *)
  Ltac est_st := cbv beta iota delta
    [estimate_expectation_values_by_averaging_S1_set_c0 estimate_expectation_values_by_averaging_S1_set_c1
     estimate_expectation_values_by_averaging_S1_set_c2 estimate_expectation_values_by_averaging_S1_set_c3
     estimate_expectation_values_by_averaging_S1_set_c4
     estimate_expectation_values_by_averaging_S1_c0 estimate_expectation_values_by_averaging_S1_c1
     estimate_expectation_values_by_averaging_S1_c2 estimate_expectation_values_by_averaging_S1_c3
     estimate_expectation_values_by_averaging_S1_c4
     estimate_expectation_values_by_averaging_S2_set_c0 estimate_expectation_values_by_averaging_S2_c0
     estimate_expectation_values_by_averaging_S3_set_c0 estimate_expectation_values_by_averaging_S3_c0].

  Definition py_of_slots (l : list (option ev)) : list (option (py_ev Q)) := map (option_map py_of_ev) l.

  (* the two write-back loops: item assignment by index never fails on indices below the length, and is the model's assign *)
  Lemma writeback_loop1 : forall (vals : list ev) (idxs : list nat) (full : list (option ev)),
    (forall i, In i idxs -> i < List.length full) ->
    py_for (py_zip (map py_of_ev vals) (map Z.of_nat idxs))
           (estimate_expectation_values_by_averaging_S2_mk MW (py_of_slots full))
           (py_unpack2 (estimate_expectation_values_by_averaging_L1_body MW))
    = Val (estimate_expectation_values_by_averaging_S2_mk MW (py_of_slots (assign full vals idxs))).
  Proof.
    unfold py_zip, py_of_slots.
    induction vals as [|v vs IH]; intros [|i is] full Hin; try reflexivity.
    cbn [map combine py_for]. unfold py_unpack2 at 1, estimate_expectation_values_by_averaging_L1_body at 1.
    cbn [fst snd]. est_st.
    rewrite py_setitem_in by (rewrite map_length; apply Hin; left; reflexivity).
    cbn [bind]. change (Some (py_of_ev v)) with (option_map py_of_ev (Some v)). rewrite py_set_nth_map.
    rewrite IH; [rewrite assign_cons; reflexivity|].
    intros j Hj. rewrite set_nth_length. apply Hin. right. exact Hj.
  Qed.

  Lemma writeback_loop2 : forall (vals : list ev) (idxs : list nat) (full : list (option ev)),
    (forall i, In i idxs -> i < List.length full) ->
    py_for (py_zip (map py_of_ev vals) (map Z.of_nat idxs))
           (estimate_expectation_values_by_averaging_S3_mk MW (py_of_slots full))
           (py_unpack2 (estimate_expectation_values_by_averaging_L2_body MW))
    = Val (estimate_expectation_values_by_averaging_S3_mk MW (py_of_slots (assign full vals idxs))).
  Proof.
    unfold py_zip, py_of_slots.
    induction vals as [|v vs IH]; intros [|i is] full Hin; try reflexivity.
    cbn [map combine py_for]. unfold py_unpack2 at 1, estimate_expectation_values_by_averaging_L2_body at 1.
    cbn [fst snd]. est_st.
    rewrite py_setitem_in by (rewrite map_length; apply Hin; left; reflexivity).
    cbn [bind]. change (Some (py_of_ev v)) with (option_map py_of_ev (Some v)). rewrite py_set_nth_map.
    rewrite IH; [rewrite assign_cons; reflexivity|].
    intros j Hj. rewrite set_nth_length. apply Hin. right. exact Hj.
  Qed.

  (* the comprehension over zip(operators, measurements_list) *)
  Lemma measured_comp : forall (ops : list operator) (ms : list meas),
    py_comp (fun '(o, m) => bind (w_get_expectation_values MW m o) (fun x => Val (w_expectation_values_to_real MW x)))
            (py_zip ops ms)
    = res_of_model (map py_of_ev) (mapM (fun om => get_expectation_values (fst om) (snd om)) (combine ops ms)).
  Proof.
    intros ops ms. unfold py_zip. apply py_comp_mapM. intros [o m]. cbn [fst snd w_get_expectation_values MW].
    change (w_expectation_values_to_real MW) with toreal.
    destruct (get_expectation_values o m) as [e|e]; cbn [res_of_model bind]; [rewrite toreal_real|]; reflexivity.
  Qed.

  Theorem estimate_expectation_values_by_averaging_gen_eq : forall (r : unit) (ts : list (task C)),
    estimate_expectation_values_by_averaging_gen MW r (map py_of_task ts)
    = res_of_model py_of_slots (estimate run ts).
  Proof.
    intros r ts. unfold estimate_expectation_values_by_averaging_gen.
    rewrite split_estimation_tasks_to_measure_gen_eq. unfold split. rewrite split_from_spec.
    cbn [bind py_of_split]. cbv zeta.
    rewrite evaluate_non_measured_estimation_tasks_gen_eq.
    rewrite estimate_eq. unfold measured_stage, batch_ns, batch_for.
    destruct (evaluate_non_measured (filter not_measured ts)) as [nonm|e]; cbn [res_of_model bind rbind]; [|reflexivity].
    assert (Hlen : List.length (filter not_measured ts) + List.length (filter measuredb ts) = List.length ts)
      by apply filter_partition_length.
    assert (Hfull : map (fun _ : Z => @None (py_ev Q))
                        (py_range (Z.add (py_len (map py_of_task (filter not_measured ts)))
                                         (py_len (map py_of_task (filter measuredb ts)))))
                    = py_of_slots (repeat None (List.length (filter not_measured ts) + List.length (filter measuredb ts)))).
    { unfold py_len, py_of_slots. rewrite !map_length, <- Nat2Z.inj_add, range_const, map_repeat'. reflexivity. }
    assert (Hinm : forall i, In i (inm_from 0 ts) ->
                   i < List.length (repeat (@None ev) (List.length (filter not_measured ts) + List.length (filter measuredb ts)))).
    { intros i Hi. rewrite repeat_length, Hlen. apply inm_from_bounds in Hi. lia. }
    assert (Him : forall nonm i, In i (im_from 0 ts) ->
                  i < List.length (assign (repeat (@None ev) (List.length (filter not_measured ts) + List.length (filter measuredb ts)))
                                          nonm (inm_from 0 ts))).
    { intros nm i Hi. rewrite assign_length, repeat_length, Hlen. apply im_from_bounds in Hi. lia. }
    change (w_N MW) with num_Q in *. change (num num_Q) with Q in *.
    change (w_circ MW) with C in *. change (w_op MW) with operator in *.
    destruct (filter measuredb ts) as [|t0 r0] eqn:Htm.
    - (* nothing to measure: the runner is not called *)
      cbn [map] in Hfull.
      cbn [map py_not_list]. est_st. cbn [bind py_local].
      rewrite Hfull, writeback_loop1 by exact Hinm. cbn [bind]. est_st.
      change (@nil (py_ev Q)) with (map py_of_ev []).
      rewrite writeback_loop2 by apply Him. reflexivity.
    - (* the batch goes to the runner *)
      rewrite <- Htm in *. set (tm := filter measuredb ts) in *.
      assert (Hne : py_not_list (map py_of_task tm) = false) by (rewrite Htm; reflexivity).
      rewrite Hne.
      assert (Hunzip : py_unzip3 (map (fun v_e : py_task operator C => (t_circuit v_e, t_operator v_e, t_number_of_shots v_e))
                                      (map py_of_task tm))
                       = Val (map tcirc tm, map top tm, map tshots tm)).
      { rewrite Htm. unfold py_unzip3. cbn [map]. rewrite !map_map. reflexivity. }
      rewrite Hunzip. cbn [bind]. est_st. cbn [bind py_local].
      change (w_run_batch_and_measure MW r) with model_runner. unfold model_runner.
      destruct (validate_shots (map tshots tm)) as [ns|e]; cbn [rbind res_of_model bind];
        [|destruct tm; [discriminate Htm|reflexivity]].
      est_st. cbn [bind py_local]. rewrite measured_comp.
      replace (match tm with [] => Ok [] | _ :: _ => mapM (fun om => get_expectation_values (fst om) (snd om))
                                                       (combine (map top tm) (run (combine (map tcirc tm) ns))) end)
        with (mapM (fun om => get_expectation_values (fst om) (snd om)) (combine (map top tm) (run (combine (map tcirc tm) ns))))
        by (destruct tm; [discriminate Htm|reflexivity]).
      destruct (mapM _ _) as [measured|e]; cbn [res_of_model bind rbind]; [|reflexivity].
      est_st. cbn [bind py_local].
      rewrite Hfull, writeback_loop1 by exact Hinm. cbn [bind]. est_st.
      rewrite writeback_loop2 by apply Him. reflexivity.
  Qed.
End ModelWorld.

(* ------------------------------------------------------------------ calculate_exact_expectation_values *)
(* The world of the exact-value model (Estimation.v, Section Exact): operators are Pauli sums over any commutative
   ring K with conjugation, the simulator's get_exact_expectation_values is the model's (C09's get_expectation on the
   wavefunction of the circuit, then .real); an operator wider than the state makes it raise [exn] (the model does
   not record which exception).  Everything the function does not use is arbitrary. *)
Section ExactWorld.
  Variable K : cring.
  Variables nzb is_zero : K -> bool.
  Variable re : K -> K.
  Variable C : Type.
  Variable wavefunction : C -> nat * Mat.Vec K.
  Variable exn : pyexn.
  (* not used by calculate_exact_expectation_values; arbitrary *)
  Variables (nint : Z -> K) (nlit : Q -> K) (nadd : K -> K -> K).
  Variables Term M Meas Runner : Type.
  Variable isconst : Algebra.psum K -> bool.
  Variable terms : Algebra.psum K -> list Term.
  Variable coefficient : Term -> K.
  Variable cbind : C -> M -> C.
  Variable runb : Runner -> list C -> list (option Z) -> pyres (list Meas).
  Variable getev : Meas -> Algebra.psum K -> pyres (py_ev K).
  Variable toreal : py_ev K -> py_ev K.

  Definition exact_method (_ : unit) (c : C) (o : Algebra.psum K) : pyres K :=
    match get_exact_expectation_values nzb is_zero re wavefunction c o with Some v => Val v | None => Raise exn end.

  Definition exact_world : pyworld :=
    mk_pyworld (mk_pynum K nint nlit nadd) (Algebra.psum K) Term C M Meas Runner unit
               isconst terms coefficient cbind runb getev toreal exact_method.

  (* an EstimationTask for the exact path: the model's task has no shot count, any is allowed *)
  Definition py_of_xtask (shots : xtask K C -> option Z) (t : xtask K C) : py_task (Algebra.psum K) C :=
    mk_py_task (xop t) (xcirc t) (shots t).

  Definition py_of_exact (o : option (list (list K))) : pyres (list (py_ev K)) :=
    match o with Some vs => Val (map (fun v => mk_py_ev v None None) vs) | None => Raise exn end.

  Theorem calculate_exact_expectation_values_gen_eq : forall (sim : unit) shots (ts : list (xtask K C)),
    calculate_exact_expectation_values_gen exact_world sim (map (py_of_xtask shots) ts)
    = py_of_exact (calculate_exact nzb is_zero re wavefunction ts).
  Proof.
    intros sim shots ts. unfold calculate_exact_expectation_values_gen. cbv zeta.
    induction ts as [|t r IH]; [reflexivity|].
    cbn [map py_comp calculate_exact].
    change (w_get_exact_expectation_values exact_world sim (t_circuit (py_of_xtask shots t)) (t_operator (py_of_xtask shots t)))
      with (exact_method sim (xcirc t) (xop t)).
    unfold exact_method at 1.
    destruct (get_exact_expectation_values nzb is_zero re wavefunction (xcirc t) (xop t)) as [v|]; cbn [bind]; [|reflexivity].
    match goal with |- context [py_comp ?f (map (py_of_xtask shots) r)] => destruct (py_comp f (map (py_of_xtask shots) r)) as [bs|e] end;
      cbn [bind] in IH |- *;
      destruct (calculate_exact nzb is_zero re wavefunction r) as [vs|]; cbn [py_of_exact] in IH |- *; try discriminate IH.
    - injection IH as IH. cbn [map]. unfold np_asarray in *. f_equal. f_equal. exact IH.
    - exact IH.
  Qed.
End ExactWorld.
