(* Comparison helpers for the C10 correspondence cases.  Shots and dictionary keys are written as
   "0110"-strings in the case files; [tol] is 0 where the Python float arithmetic is exact (the
   comparison is then equality of rationals) and 1e-9 otherwise. *)
Require Import Coq.ZArith.ZArith Coq.QArith.QArith Coq.QArith.Qabs Coq.Lists.List Coq.Strings.String
  Coq.Strings.Ascii Coq.Bool.Bool.
Require Import OQ.Base.CaseEq OQ.Stats.Measure.
Import ListNotations.

Fixpoint bits_of_string (s : string) : bits :=
  match s with
  | EmptyString => []
  | String c r => Ascii.eqb c "1"%char :: bits_of_string r
  end.
Definition shots_of (l : list string) : list bits := map bits_of_string l.
Definition counts_of (l : list (string * Z)) : counts := map (fun kc => (bits_of_string (fst kc), snd kc)) l.

Definition qclose (tol a b : Q) : bool := Qle_bool (Qabs (a - b)) tol.
Definition lqclose (tol : Q) := leqb (qclose tol).
Definition llqclose (tol : Q) := leqb (lqclose tol).

Definition err_eqb (a b : err) : bool :=
  match a, b with
  | TypeError, TypeError | IndexError, IndexError | ValueError, ValueError | RuntimeError, RuntimeError => true
  | _, _ => false
  end.
Definition res_eqb {A B} (e : A -> B -> bool) (a : res A) (b : res B) : bool :=
  match a, b with
  | Ok x, Ok y => e x y
  | Err x, Err y => err_eqb x y
  | _, _ => false
  end.

Definition counts_eqb (a b : counts) : bool := leqb (peqb bits_eqb Z.eqb) a b.
Definition shots_eqb (a b : list bits) : bool := leqb bits_eqb a b.

(* Measurements(shots).get_counts() *)
Definition get_counts_eqb (shots : list string) (out : list (string * Z)) : bool :=
  counts_eqb (get_counts (shots_of shots)) (counts_of out).
(* Measurements.from_counts(d).bitstrings, and add_counts on a non-empty object *)
Definition from_counts_eqb (d : list (string * Z)) (out : list string) : bool :=
  shots_eqb (from_counts (counts_of d)) (shots_of out).
Definition add_counts_eqb (shots : list string) (d : list (string * Z)) (out : list string) : bool :=
  shots_eqb (add_counts (shots_of shots) (counts_of d)) (shots_of out).
(* Measurements(shots).get_distribution().distribution_dict *)
Definition distribution_eqb (tol : Q) (shots : list string) (out : res (list (string * Q))) : bool :=
  res_eqb (fun m p => leqb (peqb bits_eqb (qclose tol)) m (map (fun kp => (bits_of_string (fst kp), snd kp)) p))
          (get_distribution (shots_of shots)) out.

(* check_parity / check_parity_of_vector *)
Definition check_parity_eqb (r : string) (marked : list nat) (out : bool) : bool :=
  Bool.eqb (check_parity (bits_of_string r) marked) out.
Definition cpv_eqb (rows : list string) (marked : list nat) (out : list Z) : bool :=
  lzeqb (check_parity_of_vector (shots_of rows) marked) out.

(* get_expectation_value_from_frequencies(marked, freq) *)
Definition efreq_eqb (tol : Q) (marked : list nat) (freq : list (string * Z)) (out : res Q) : bool :=
  res_eqb (qclose tol) (efreq marked (counts_of freq)) out.

(* Measurements(shots).get_expectation_values(op, bessel): values, correlations[0], estimator_covariances[0]
   (None when an entry is not finite) *)
Definition ev_eqb (tol : Q) (m : evs) (p : list Q * list (list Q) * option (list (list Q))) : bool :=
  let '(v, c, k) := p in
  lqclose tol (ev_values m) v && llqclose tol (ev_corr m) c && oeqb (llqclose tol) (ev_cov m) k.
Definition expval_eqb (tol : Q) (shots : list string) (op : list gterm) (bessel : bool)
    (out : res (list Q * list (list Q) * option (list (list Q)))) : bool :=
  res_eqb (ev_eqb tol) (get_expectation_values (shots_of shots) op bessel) out.

(* get_parities_from_measurements(shots, op): values and correlations[0] *)
Definition pz_eqb := peqb Z.eqb Z.eqb.
Definition par_eqb (m : pars) (p : list (Z * Z) * list (list (Z * Z))) : bool :=
  leqb pz_eqb (par_values m) (fst p) && leqb (leqb pz_eqb) (par_corr m) (snd p).
Definition parities_eqb (shots : list string) (op : list gterm) (out : res (list (Z * Z) * list (list (Z * Z)))) : bool :=
  res_eqb par_eqb (get_parities (shots_of shots) op) out.
