(* Model of the measurement statistics (property C10):
   measurements/measurements.py (Measurements.get_counts, add_counts/from_counts, get_distribution,
   get_expectation_value_from_frequencies, Measurements.get_expectation_values) and
   measurements/parities.py (check_parity, check_parity_of_vector, get_parities_from_measurements).
   Shots are lists of bits, counts are integers, every reported statistic is an exact rational.
   Bitstrings of one Measurements object are assumed to have equal length (numpy re-chunks ragged
   input; that path is outside the model). *)
Require Import Coq.ZArith.ZArith Coq.QArith.QArith Coq.Lists.List Coq.Bool.Bool.
Import ListNotations.

Definition bits := list bool.
Fixpoint bits_eqb (a b : bits) : bool :=
  match a, b with
  | [], [] => true
  | x :: a', y :: b' => Bool.eqb x y && bits_eqb a' b'
  | _, _ => false
  end.

(* outcomes of the Python calls: a value or the class of the exception raised *)
Inductive err := TypeError | IndexError | ValueError | RuntimeError.
Inductive res (A : Type) := Ok (a : A) | Err (e : err).
Arguments Ok {A} a.
Arguments Err {A} e.

Definition msum (l : list Z) : Z := fold_right Z.add 0%Z l.
Definition qsum (l : list Q) : Q := fold_right Qplus 0 l.

(* ---- counts: dict(Counter(bitstrings)), keys in order of first appearance *)
Definition counts := list (bits * Z).
Fixpoint add_count (k : bits) (c : Z) (d : counts) : counts :=
  match d with
  | [] => [(k, c)]
  | (k', c') :: r => if bits_eqb k k' then (k', (c' + c)%Z) :: r else (k', c') :: add_count k c r
  end.
Definition get_counts (shots : list bits) : counts :=
  fold_left (fun d s => add_count s 1%Z d) shots [].
Definition count_of (k : bits) (d : counts) : Z :=
  msum (map snd (filter (fun kc => bits_eqb k (fst kc)) d)).
Definition total (d : counts) : Z := msum (map snd d).

(* Measurements.add_counts / from_counts: each key repeated count times, in key order
   ([t] * c is empty for c <= 0) *)
Definition add_counts (shots : list bits) (d : counts) : list bits :=
  shots ++ flat_map (fun kc => repeat (fst kc) (Z.to_nat (snd kc))) d.
Definition from_counts (d : counts) : list bits := add_counts [] d.

(* Measurements.get_distribution: counts / number of shots; the distribution constructor rejects {} *)
Definition get_distribution (shots : list bits) : res (list (bits * Q)) :=
  match shots with
  | [] => Err RuntimeError
  | _ => Ok (map (fun kc => (fst kc, inject_Z (snd kc) / inject_Z (Z.of_nat (List.length shots))))
                 (get_counts shots))
  end.

(* ---- parities *)
Definition b2z (b : bool) : Z := if b then 1%Z else 0%Z.
Definition bit (r : bits) (q : nat) : bool := nth q r false.

(* check_parity: flip a flag once per marked qubit that reads 1 *)
Definition check_parity (r : bits) (marked : list nat) : bool :=
  fold_left (fun acc q => if bit r q then negb acc else acc) marked true.

(* check_parity_of_vector: ones if nothing is marked, else (sum of the marked columns + 1) mod 2 *)
Definition check_parity_of_vector (rows : list bits) (marked : list nat) : list Z :=
  match marked with
  | [] => map (fun _ => 1%Z) rows
  | _ => map (fun r => ((msum (map (fun q => b2z (bit r q)) marked) + 1) mod 2)%Z) rows
  end.
Definition marked_ok (width : nat) (marked : list nat) : bool :=
  forallb (fun q => Nat.ltb q width) marked.

(* ---- get_expectation_value_from_frequencies(marked, freq) *)
Definition efreq_chk (marked : list nat) (freq : counts) : option err :=
  match freq with
  | [] => Some IndexError                                    (* [*keys][0] *)
  | (k0, _) :: _ =>
      if Nat.eqb (List.length k0) 0 then Some ValueError     (* reshape(-1, 0) *)
      else if marked_ok (List.length k0) marked then None
      else Some IndexError                                   (* column out of range *)
  end.
Definition efreq_val (marked : list nat) (freq : counts) : Q :=
  let parity := map (fun p => (p * 2 - 1)%Z) (check_parity_of_vector (map fst freq) marked) in
  let n := msum (map snd freq) in
  qsum (map (fun cp => inject_Z (fst cp * snd cp) / inject_Z n) (combine (map snd freq) parity)).
Definition efreq (marked : list nat) (freq : counts) : res Q :=
  match efreq_chk marked freq with
  | Some e => Err e
  | None => Ok (efreq_val marked freq)
  end.

(* ---- operators.  An Ising operator is a list of (coefficient, set of qubits carrying Z);
   a general Pauli sum carries a letter per qubit (identity factors are dropped by PauliTerm). *)
Inductive pauli := PX | PY | PZ.
Definition term := (Q * list nat)%type.
Definition gterm := (Q * list (nat * pauli))%type.
Definition is_z (p : pauli) : bool := match p with PZ => true | _ => false end.
Definition term_is_ising (t : gterm) : bool := forallb (fun qp => is_z (snd qp)) (snd t).
Definition is_ising (op : list gterm) : bool := forallb term_is_ising op.
Definition to_ising (op : list gterm) : list term := map (fun t => (fst t, map fst (snd t))) op.

(* set.symmetric_difference *)
Definition mem (q : nat) (s : list nat) : bool := existsb (Nat.eqb q) s.
Definition symdiff (s t : list nat) : list nat :=
  filter (fun q => negb (mem q t)) s ++ filter (fun q => negb (mem q s)) t.

Fixpoint first_err (l : list (option err)) : option err :=
  match l with
  | [] => None
  | Some e :: _ => Some e
  | None :: r => first_err r
  end.

Definition mat {A} (n : nat) (f : nat -> nat -> A) : list (list A) :=
  map (fun i => map (fun j => f i j) (seq 0 n)) (seq 0 n).

Record evs := mk_evs {
  ev_values : list Q;
  ev_corr : list (list Q);
  ev_cov : option (list (list Q))     (* None: division by a zero denominator (nan/inf entries) *)
}.

Definition coef (op : list term) (i : nat) : Q := fst (nth i op (0, [])).
Definition supp (op : list term) (i : nat) : list nat := snd (nth i op (0, [])).

(* correlations[i][i] = c_i^2 ; for j < i: correlations[i][j] = correlations[j][i]
   = c_i * c_j * <Z on (S_i symmetric-difference S_j)> *)
Definition corr_entry (op : list term) (freq : counts) (i j : nat) : Q :=
  if Nat.eqb i j then coef op i * coef op i
  else let a := Nat.max i j in let b := Nat.min i j in
       coef op a * coef op b * efreq_val (symdiff (supp op a) (supp op b)) freq.

Definition expectation_values_ising (shots : list bits) (op : list term) (bessel : bool) : res evs :=
  let freq := get_counts shots in
  let n := Z.of_nat (List.length shots) in
  match first_err (map (fun t => efreq_chk (snd t) freq) op) with
  | Some e => Err e
  | None =>
      let vals := map (fun t => fst t * efreq_val (snd t) freq) op in
      let m := List.length op in
      let corr := mat m (corr_entry op freq) in
      let denom := if bessel then (n - 1)%Z else n in
      let cov := mat m (fun i j => (corr_entry op freq i j - nth i vals 0 * nth j vals 0) / inject_Z denom) in
      Ok (mk_evs vals corr
            (if Z.eqb denom 0 && negb (Nat.eqb m 0) then None else Some cov))
  end.

Definition get_expectation_values (shots : list bits) (op : list gterm) (bessel : bool) : res evs :=
  if is_ising op then expectation_values_ising shots (to_ising op) bessel
  else Err TypeError.

(* ---- get_parities_from_measurements: even/odd tallies per term and per ordered pair of terms *)
Definition width (freq : counts) : nat :=
  match freq with [] => 0 | (k0, _) :: _ => List.length k0 end.
Definition wsum (ws cs : list Z) : Z := msum (map (fun wc => (fst wc * snd wc)%Z) (combine ws cs)).

Record pars := mk_pars {
  par_values : list (Z * Z);
  par_corr : list (list (Z * Z))
}.

Definition parities_ising (shots : list bits) (op : list term) : res pars :=
  let freq := get_counts shots in
  let rows := map fst freq in
  let cs := map snd freq in
  if forallb (fun t => marked_ok (width freq) (snd t)) op then
    let par i := check_parity_of_vector rows (supp op i) in
    Ok (mk_pars
          (map (fun t => let p := check_parity_of_vector rows (snd t) in
                         (wsum p cs, wsum (map (fun x => (1 - x)%Z) p) cs)) op)
          (mat (List.length op) (fun i j =>
             let d := map (fun pq => Z.abs (fst pq - snd pq)) (combine (par i) (par j)) in
             (wsum (map (fun x => (1 - x)%Z) d) cs, wsum d cs))))
  else Err IndexError.

Definition get_parities (shots : list bits) (op : list gterm) : res pars :=
  if is_ising op then parities_ising shots (to_ising op) else Err TypeError.
