(* Model of estimation by averaging (property C15):
     estimation/_estimation.py   split_estimation_tasks_to_measure, evaluate_non_measured_estimation_tasks,
                                 estimate_expectation_values_by_averaging, evaluate_estimation_circuits
     api/circuit_runner.py       BaseCircuitRunner.run_batch_and_measure (validation of the shot counts only)
     measurements/measurements.py Measurements.get_expectation_values (+ expectation_values_to_real)
   Self-contained on purpose (does not use Stats/Measure.v).  Coefficients are real rationals.
   The last section (calculate_exact_expectation_values) is built on the model of get_expectation_value of
   property C09 (Pauli/Matrix.v, over any commutative ring with conjugation); those modules are required but not
   imported, their names are written qualified (Algebra.term, Matrix.get_expectation, ...). *)
Require Import Coq.ZArith.ZArith Coq.QArith.QArith Coq.Lists.List Coq.Bool.Bool Coq.Arith.PeanoNat.
Require Import OQ.Base.Ring.
Require OQ.Base.Mat OQ.Pauli.Algebra OQ.Pauli.Matrix.
Import ListNotations.

(* ------------------------------------------------------------------ errors *)
Inductive err := EValue | EType | EIndex | ERuntime.
Inductive result (A : Type) := Ok (a : A) | Err (e : err).
Arguments Ok {A} a.
Arguments Err {A} e.

Definition rbind {A B} (r : result A) (f : A -> result B) : result B :=
  match r with Ok a => f a | Err e => Err e end.

(* a list comprehension whose body may raise: the first failure (in order) wins *)
Fixpoint mapM {A B} (f : A -> result B) (l : list A) : result (list B) :=
  match l with
  | [] => Ok []
  | x :: r => match f x with
              | Err e => Err e
              | Ok y => match mapM f r with Err e => Err e | Ok ys => Ok (y :: ys) end
              end
  end.

(* ------------------------------------------------------------------ operators *)
Inductive pauli := PX | PY | PZ.
Definition pauli_is_z (p : pauli) : bool := match p with PZ => true | _ => false end.

(* PauliTerm: coefficient and the dict qubit -> letter (keys distinct); a constant term has no entries *)
Record term := mkTerm { coef : Q; tops : list (nat * pauli) }.
(* PauliSum = its list of terms (possibly empty); a PauliTerm t is the one-element list [t] (its .terms) *)
Definition operator := list term.

Definition qubits (t : term) : list nat := map fst (tops t).
Definition term_is_constant (t : term) : bool := match tops t with [] => true | _ => false end.
(* set(values) == {"Z"} or is_constant *)
Definition term_is_ising (t : term) : bool := forallb (fun qp => pauli_is_z (snd qp)) (tops t).
(* len(terms) == 0 or all(term.is_constant) *)
Definition is_constant (o : operator) : bool := forallb term_is_constant o.
Definition is_ising (o : operator) : bool := forallb term_is_ising o.

Definition qsum (l : list Q) : Q := fold_left Qplus l 0.
(* sum(term.coefficient for term in operator.terms) *)
Definition constant_value (o : operator) : Q := qsum (map coef o).

(* ------------------------------------------------------------------ tasks *)
Record task (C : Type) := mkTask { top : operator; tcirc : C; tshots : option Z }.
Arguments mkTask {C} _ _ _.
Arguments top {C} _.
Arguments tcirc {C} _.
Arguments tshots {C} _.

(* number_of_shots == 0   (None == 0 is False) *)
Definition shots_is_zero (s : option Z) : bool := match s with Some n => Z.eqb n 0 | None => false end.
(* the test of split_estimation_tasks_to_measure *)
Definition not_measured {C} (t : task C) : bool := is_constant (top t) || shots_is_zero (tshots t).

Inductive kind := KMeasure | KConst | KZeroShot.
Definition kind_of {C} (t : task C) : kind :=
  if is_constant (top t) then KConst else if shots_is_zero (tshots t) then KZeroShot else KMeasure.

(* split_estimation_tasks_to_measure: (to measure, not to measure, indices to measure, indices not to measure) *)
Fixpoint split_from {C} (i : nat) (ts : list (task C))
  : list (task C) * list (task C) * list nat * list nat :=
  match ts with
  | [] => ([], [], [], [])
  | t :: r =>
      let '(tm, tn, im, inm) := split_from (S i) r in
      if not_measured t then (tm, t :: tn, im, i :: inm) else (t :: tm, tn, i :: im, inm)
  end.
Definition split {C} (ts : list (task C)) := split_from 0 ts.

(* ------------------------------------------------------------------ expectation values *)
(* ExpectationValues(values, [correlations], [estimator_covariances]) *)
Record ev := mkEv { ev_values : list Q; ev_corr : list (list Q); ev_cov : list (list Q) }.

Definition const_ev (c : Q) : ev := mkEv [c] [[0]] [[0]].

(* evaluate_non_measured_estimation_tasks *)
Definition non_measured_one {C} (t : task C) : result ev :=
  if is_constant (top t) then Ok (const_ev (constant_value (top t)))
  else match tshots t with
       | Some n => if Z.ltb 0 n then Err ERuntime else Ok (const_ev 0)
       | None => Ok (const_ev 0)
       end.
Definition evaluate_non_measured {C} (ts : list (task C)) : result (list ev) := mapM non_measured_one ts.

(* bitstrings: one list of bits per shot *)
Definition bits := list bool.
Definition meas := list bits.

(* +1/-1 eigenvalue of the product of Z on the qubits S for the bitstring b *)
Definition sgn (b : bits) (q : nat) : Z := if nth q b false then (-1)%Z else 1%Z.
Definition zprod (l : list Z) : Z := fold_right Z.mul 1%Z l.
Definition eps (S : list nat) (b : bits) : Z := zprod (map (sgn b) S).
Definition zsum (l : list Z) : Z := fold_right Z.add 0%Z l.

(* get_expectation_value_from_frequencies: sum over outcomes of count * parity / total; written per shot
   (the grouping of equal shots into counts does not change the exact sum) *)
Definition mean_eps (S : list nat) (m : meas) : Q :=
  inject_Z (zsum (map (eps S) m)) / inject_Z (Z.of_nat (List.length m)).

(* the same quantity exactly as the code computes it: Measurements.get_counts (a Counter, first-occurrence order),
   then sum over distinct outcomes of count * parity / total.  EstimationProofs.mean_eps_counts_eq shows that the
   grouping changes nothing, which is why the rest of the model uses [mean_eps]. *)
Fixpoint bits_eqb (a b : bits) : bool :=
  match a, b with
  | [], [] => true
  | x :: r, y :: s => Bool.eqb x y && bits_eqb r s
  | _, _ => false
  end.
Fixpoint add_count (b : bits) (d : list (bits * Z)) : list (bits * Z) :=
  match d with
  | [] => [(b, 1%Z)]
  | kc :: r => if bits_eqb b (fst kc) then (fst kc, (snd kc + 1)%Z) :: r else kc :: add_count b r
  end.
Definition counts_of (m : meas) : list (bits * Z) := fold_left (fun d b => add_count b d) m [].
Definition mean_eps_counts (S : list nat) (m : meas) : Q :=
  let d := counts_of m in
  let num := zsum (map snd d) in
  qsum (map (fun kc => inject_Z (snd kc * eps S (fst kc)) / inject_Z num) d).

Definition mem (x : nat) (l : list nat) : bool := existsb (Nat.eqb x) l.
(* set.symmetric_difference *)
Definition symdiff (S T : list nat) : list nat :=
  filter (fun x => negb (mem x T)) S ++ filter (fun x => negb (mem x S)) T.

Definition in_range (o : operator) (m : meas) : bool :=
  forallb (fun b => forallb (fun t => forallb (fun q => Nat.ltb q (List.length b)) (qubits t)) o) m.

Definition corr_entry (m : meas) (a b : nat * term) : Q :=
  if Nat.eqb (fst a) (fst b) then coef (snd a) * coef (snd a)
  else let '(first, second) := if Nat.ltb (fst b) (fst a) then (snd a, snd b) else (snd b, snd a) in
       coef first * coef second * mean_eps (symdiff (qubits first) (qubits second)) m.

Definition enum {A} (l : list A) : list (nat * A) := combine (seq 0 (List.length l)) l.

(* Measurements.get_expectation_values (no Bessel correction) followed by expectation_values_to_real *)
Definition get_expectation_values (o : operator) (m : meas) : result ev :=
  if negb (is_ising o) then Err EType
  else if negb (in_range o m) then Err EIndex
  else
    let vals := map (fun t => coef t * mean_eps (qubits t) m) o in
    let corr := map (fun a => map (fun b => corr_entry m a b) (enum o)) (enum o) in
    let n := inject_Z (Z.of_nat (List.length m)) in
    let cov := map (fun a => map (fun b => (corr_entry m a b
                       - (coef (snd a) * mean_eps (qubits (snd a)) m) * (coef (snd b) * mean_eps (qubits (snd b)) m)) / n)
                                 (enum o)) (enum o) in
    Ok (mkEv vals corr cov).

(* ------------------------------------------------------------------ the runner's front door *)
(* BaseCircuitRunner.run_batch_and_measure: any(n <= 0 for n in samples) -> ValueError; None <= 0 -> TypeError *)
Fixpoint validate_shots (l : list (option Z)) : result (list Z) :=
  match l with
  | [] => Ok []
  | None :: _ => Err EType
  | Some n :: r => if Z.leb n 0 then Err EValue
                   else match validate_shots r with Err e => Err e | Ok ns => Ok (n :: ns) end
  end.

(* ------------------------------------------------------------------ write-back *)
(* full[i] = x *)
Fixpoint set_nth {A} (i : nat) (x : A) (l : list A) : list A :=
  match l, i with
  | [], _ => []
  | _ :: r, O => x :: r
  | y :: r, S j => y :: set_nth j x r
  end.
(* for ex_val, final_index in zip(vals, idxs): full[final_index] = ex_val *)
Definition assign {A} (full : list (option A)) (vals : list A) (idxs : list nat) : list (option A) :=
  fold_left (fun acc vi => set_nth (snd vi) (Some (fst vi)) acc) (combine vals idxs) full.

(* what the runner is asked: None when nothing is to be measured (the runner is not called) *)
Definition batch_of {C} (ts : list (task C)) : option (result (list (C * Z))) :=
  let '(tm, _, _, _) := split ts in
  match tm with
  | [] => None
  | _ => Some (rbind (validate_shots (map tshots tm)) (fun ns => Ok (combine (map tcirc tm) ns)))
  end.

(* estimate_expectation_values_by_averaging; [run] is the runner behind the validation *)
Definition estimate {C} (run : list (C * Z) -> list meas) (ts : list (task C)) : result (list (option ev)) :=
  let '(tm, tn, im, inm) := split ts in
  rbind (evaluate_non_measured tn) (fun nonm =>
  rbind (match tm with
         | [] => Ok []
         | _ => rbind (validate_shots (map tshots tm)) (fun ns =>
                  mapM (fun om => get_expectation_values (fst om) (snd om))
                       (combine (map top tm) (run (combine (map tcirc tm) ns))))
         end) (fun measured =>
  Ok (assign (assign (repeat None (List.length tn + List.length tm)) nonm inm) measured im))).

(* evaluate_estimation_circuits: zip(tasks, maps); operator and shots copied, circuit bound with its own map *)
Definition bind_tasks {C M} (bind : C -> M -> C) (ts : list (task C)) (maps : list M) : list (task C) :=
  map (fun tm => mkTask (top (fst tm)) (bind (tcirc (fst tm)) (snd tm)) (tshots (fst tm))) (combine ts maps).

(* ------------------------------------------------------------------ basis-state circuits and simulators *)
(* a circuit of X gates on the listed qubits (repetitions allowed) over n qubits, started in |0..0> *)
Definition xcircuit := (nat * list nat)%type.
Definition basis_of (c : xcircuit) : bits :=
  map (fun q => Nat.odd (count_occ Nat.eq_dec (snd c) q)) (seq 0 (fst c)).
(* a runner that returns exactly the requested number of shots of the state's bitstring *)
Definition basis_runner {C} (state : C -> bits) (batch : list (C * Z)) : list meas :=
  map (fun cn => repeat (state (fst cn)) (Z.to_nat (snd cn))) batch.

(* calculate_exact_expectation_values on a computational basis state, Ising operator: sum of c * eigenvalue *)
Definition exact_on_basis (o : operator) (b : bits) : Q :=
  qsum (map (fun t => coef t * inject_Z (eps (qubits t) b)) o).

(* ------------------------------------------------------------------ exact expectation values *)
(* calculate_exact_expectation_values(runner, tasks):
     [ExpectationValues(np.asarray([runner.get_exact_expectation_values(t.circuit, t.operator)])) for t in tasks]
   BaseWavefunctionSimulator.get_exact_expectation_values(circuit, operator)
     = get_expectation_value(operator, self.get_wavefunction(circuit)).real
   One number per task (not per term).  [wavefunction] is the simulator (number of qubits and amplitudes of the
   state a circuit prepares), [re] is ".real"; get_expectation_value is C09's Matrix.get_expectation (sparse
   matrix of the operator on the state's width, then conj(state) . (matrix * state)); None = an exception
   (operator wider than the state). *)
Section Exact.
  Variable K : cring.
  Variables nzb is_zero : K -> bool.
  Variable re : K -> K.
  Variable C : Type.
  Variable wavefunction : C -> nat * Mat.Vec K.

  Record xtask := mkX { xop : Algebra.psum K; xcirc : C }.

  Definition get_exact_expectation_values (c : C) (o : Algebra.psum K) : option K :=
    match Matrix.get_expectation nzb is_zero (fst (wavefunction c)) o (snd (wavefunction c)) false with
    | Some x => Some (re x)
    | None => None
    end.

  Fixpoint calculate_exact (ts : list xtask) : option (list (list K)) :=
    match ts with
    | [] => Some []
    | t :: r => match get_exact_expectation_values (xcirc t) (xop t) with
                | None => None
                | Some v => match calculate_exact r with None => None | Some vs => Some ([v] :: vs) end
                end
    end.
End Exact.
Arguments mkX {K C} _ _.
Arguments xop {K C} _.
Arguments xcirc {K C} _.
Arguments get_exact_expectation_values {K} nzb is_zero re {C} wavefunction c o.
Arguments calculate_exact {K} nzb is_zero re {C} wavefunction ts.
