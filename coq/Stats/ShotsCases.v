(* Comparison helpers for the C13 correspondence cases. *)
Require Import Coq.ZArith.ZArith Coq.Lists.List Coq.Strings.String Coq.Bool.Bool.
Require Import OQ.Base.CaseEq OQ.Gen.ExpandGen OQ.Stats.Shots.
Import ListNotations.
Open Scope Z_scope.

Definition expand_eqb (cs ns : list Z) (m : Z) (out_c out_n out_m : list Z) : bool :=
  let '(c, n, mm) := expand_sample_sizes cs ns m in lzeqb c out_c && lzeqb n out_n && lzeqb mm out_m.
Definition combine_bs_eqb (all : list (list Z)) (mults : list Z) (out : option (list (list Z))) : bool :=
  oeqb llzeqb (combine_bitstrings all mults) out.
Definition counts_eqb (a b : counts) : bool := leqb (peqb String.eqb Z.eqb) a b.
Definition combine_mc_eqb (all : list counts) (mults : list Z) (out : option (list counts)) : bool :=
  oeqb (leqb counts_eqb) (combine_measurement_counts all mults) out.
Definition batches_eqb (cs ns : list Z) (k : Z) (out : option (list (list Z * Z))) : bool :=
  oeqb (leqb (peqb lzeqb Z.eqb)) (split_into_batches cs ns k) out.
Definition scale_eqb (ws : list Z) (T : Z) (order : list nat) (out : list Z) : bool :=
  lzeqb (scale_and_discretize ws T order) out.
(* the top-up order the implementation used is sorted by remainder, largest first, on the entries that matter *)
Fixpoint sorted_desc (l : list Z) : bool :=
  match l with
  | x :: ((y :: _) as r) => Z.leb y x && sorted_desc r
  | _ => true
  end.
Definition order_sorted (ws : list Z) (T : Z) (order : list nat) : bool :=
  sorted_desc (map (fun i => nth i (remainders ws T) 0) order).

(* get_measurements_representing_distribution: per-outcome shot counts of the result, given the sampler's recorded
   results; the recorded draws must satisfy what the theorems assume of the sampler *)
Require Import OQ.Stats.Represent OQ.Stats.RepresentProofs.
Definition represent_eqb (ws : list Z) (N : Z) (draws : list (list (nat * Z))) (out : list Z) : bool :=
  oeqb lzeqb (represent ws N draws) (Some out) && run_okb ws N draws.
