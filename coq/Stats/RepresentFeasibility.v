(* The capacity argument for get_measurements_representing_distribution (C13, last clause), and the loop theorems of
   RepresentTermination.v instantiated to the rounding of Represent.v.

   With x_k = w_k * N, S = sum w, r_k = round_half_even x_k S, R = sum r_k and a surplus D = R - N > 0:
   a key rounded up contributes S*r_k - x_k = S - (x_k mod S) <= S/2 to S*D, a key rounded down contributes <= 0,
   hence at least 2 D keys are rounded up; each of them has positive leftover weight and r_k >= 1.  So the shots
   present on keys of positive leftover weight are at least 2 D > D, and the elimination loop, which still has D shots
   to place, cannot have zeroed all of them. *)
Require Import Coq.ZArith.ZArith Coq.Lists.List Coq.Bool.Bool Coq.Arith.Arith Coq.micromega.Lia.
Require Import OQ.Stats.Shots OQ.Stats.ShotsProofs OQ.Stats.Represent OQ.Stats.RepresentProofs OQ.Stats.RepresentTermination.
Import ListNotations.
Open Scope Z_scope.

(* ------------------------------------------------------------------ rounding, one key *)
Definition upb (x S : Z) : bool := round_half_even x S =? x / S + 1.

Lemma round_cases x S :
  (round_half_even x S = x / S /\ 2 * (x mod S) <= S) \/ (round_half_even x S = x / S + 1 /\ S <= 2 * (x mod S)).
Proof.
  unfold round_half_even. destruct (Z.ltb_spec (2 * (x mod S)) S); [left; lia|].
  destruct (Z.ltb_spec S (2 * (x mod S))); [right; lia|]. destruct (Z.even (x / S)); [left|right]; lia.
Qed.

Lemma round_elem x S : 0 < S -> 0 <= x ->
  2 * (S * round_half_even x S - x) <= (if upb x S then S else 0) /\
  (upb x S = true -> 0 < leftover x S /\ 1 <= round_half_even x S).
Proof.
  intros HS Hx. pose proof (Z.div_mod x S ltac:(lia)) as Hdm. pose proof (Z.mod_pos_bound x S HS) as Hb.
  pose proof (Z.div_pos x S Hx HS) as Hq. unfold upb, leftover.
  destruct (round_cases x S) as [[E H]|[E H]]; rewrite E.
  - destruct (Z.eqb_spec (x / S) (x / S + 1)) as [E1|_]; [lia|]. split; [lia|discriminate].
  - rewrite Z.eqb_refl. split; [lia|]. intros _. lia.
Qed.

Lemma exact_elem x S : 0 < S -> leftover x S <= 0 -> S * round_half_even x S = x.
Proof.
  intros HS Hl. pose proof (Z.div_mod x S ltac:(lia)) as Hdm. pose proof (Z.mod_pos_bound x S HS) as Hb.
  unfold leftover in Hl. assert (E : x mod S = 0) by lia. unfold round_half_even. rewrite E in *.
  destruct (Z.ltb_spec (2 * 0) S); lia.
Qed.

(* ------------------------------------------------------------------ rounding, summed over the distribution *)
(* number of keys rounded up, and number of shots present on keys of positive leftover weight *)
Definition nup (ws : list Z) (N : Z) : Z := zsum (map (fun w => if upb (w * N) (zsum ws) then 1 else 0) ws).
Definition cap (ws : list Z) (N : Z) : Z :=
  zsum (map (fun w => if 0 <? leftover (w * N) (zsum ws) then round_half_even (w * N) (zsum ws) else 0) ws).

Lemma surplus_gen S N ws : 0 < S -> 0 <= N -> Forall (fun w => 0 <= w) ws ->
  2 * (S * zsum (map (fun w => round_half_even (w * N) S) ws) - zsum ws * N)
  <= S * zsum (map (fun w => if upb (w * N) S then 1 else 0) ws).
Proof.
  intros HS HN. induction 1 as [|w ws Hw Hws IH]; cbn [map]; [change (zsum []) with 0; lia|]. rewrite !zsum_cons.
  destruct (round_elem (w * N) S HS ltac:(apply Z.mul_nonneg_nonneg; assumption)) as [H1 _].
  set (A := zsum (map (fun w0 => round_half_even (w0 * N) S) ws)) in *.
  set (U := zsum (map (fun w0 => if upb (w0 * N) S then 1 else 0) ws)) in *.
  set (a := round_half_even (w * N) S) in *. clearbody A U a.
  destruct (upb (w * N) S); lia.
Qed.

(* a rounding surplus D needs at least 2 D keys that are rounded up *)
Theorem surplus_capacity ws N : weights_ok ws -> 0 <= N -> 2 * (zsum (rounded ws N) - N) <= nup ws N.
Proof.
  intros [Hw HS] HN. pose proof (surplus_gen (zsum ws) N ws HS HN Hw) as H. unfold rounded, nup.
  set (R := zsum (map (fun w => round_half_even (w * N) (zsum ws)) ws)) in *.
  set (U := zsum (map (fun w => if upb (w * N) (zsum ws) then 1 else 0) ws)) in *.
  clearbody R U. apply (Z.mul_le_mono_pos_l _ _ (zsum ws) HS). lia.
Qed.

(* every key that is rounded up has positive leftover weight and holds at least one shot *)
Lemma nup_le_cap ws N : weights_ok ws -> 0 <= N -> nup ws N <= cap ws N.
Proof.
  intros [Hw HS] HN. unfold nup, cap. apply zsum_map_le. intros w Hin. rewrite Forall_forall in Hw. specialize (Hw w Hin).
  assert (Hx : 0 <= w * N) by (apply Z.mul_nonneg_nonneg; assumption).
  destruct (round_elem (w * N) (zsum ws) HS Hx) as [_ H2]. pose proof (round_nonneg (w * N) (zsum ws) HS Hx) as H0.
  destruct (upb (w * N) (zsum ws)).
  - destruct (H2 eq_refl) as [Hl Hr]. destruct (Z.ltb_spec 0 (leftover (w * N) (zsum ws))); lia.
  - destruct (0 <? leftover (w * N) (zsum ws)); lia.
Qed.

Theorem surplus_lt_cap ws N : weights_ok ws -> 0 <= N -> N < zsum (rounded ws N) -> zsum (rounded ws N) - N < cap ws N.
Proof.
  intros Hw HN Hgt. pose proof (surplus_capacity ws N Hw HN). pose proof (nup_le_cap ws N Hw HN). lia.
Qed.

Lemma exact_sum S N ws : 0 < S -> (forall w, In w ws -> leftover (w * N) S <= 0) ->
  S * zsum (map (fun w => round_half_even (w * N) S) ws) = zsum ws * N.
Proof.
  intros HS. induction ws as [|w ws IH]; intro H; cbn [map]; [change (zsum []) with 0; lia|]. rewrite !zsum_cons.
  pose proof (exact_elem (w * N) S HS (H w (or_introl eq_refl))) as E.
  assert (IH' : S * zsum (map (fun w0 => round_half_even (w0 * N) S) ws) = zsum ws * N) by (apply IH; intros y Hy; apply H; right; exact Hy).
  lia.
Qed.

(* ------------------------------------------------------------------ the instance of the loop for this rounding *)
Definition lwt (ws : list Z) (N : Z) (j : nat) : Z := leftover (nth j ws 0 * N) (zsum ws).
Definition cnt (ws : list Z) (N : Z) (k : nat) : Z := nth k (rounded ws N) 0.

Lemma cnt_nonneg ws N : weights_ok ws -> 0 <= N -> forall k, 0 <= cnt ws N k.
Proof.
  intros [Hw HS] HN k. unfold cnt. destruct (Nat.lt_ge_cases k (List.length ws)) as [Hk|Hk].
  - rewrite rounded_nth by exact Hk. apply round_nonneg; [exact HS|]. apply Z.mul_nonneg_nonneg; [|exact HN].
    rewrite Forall_forall in Hw. apply Hw. apply nth_In. exact Hk.
  - rewrite nth_overflow; [lia|]. unfold rounded. rewrite map_length. exact Hk.
Qed.

Lemma capacity_cap ws N : capacity (List.length ws) (lwt ws N) (cnt ws N) = cap ws N.
Proof.
  unfold capacity, cap.
  rewrite <- (map_nth_seq (fun w => if 0 <? leftover (w * N) (zsum ws) then round_half_even (w * N) (zsum ws) else 0) ws).
  f_equal. apply map_ext_in. intros j Hin. apply in_seq in Hin. unfold lwt, cnt. rewrite rounded_nth by lia. reflexivity.
Qed.

(* what the very first sampler result (drawn from the leftover distribution itself) looks like *)
Definition first_ok (ws : list Z) (N : Z) (d : counter) : Prop := Forall (fun kv => 0 < snd kv -> 0 < lwt ws N (fst kv)) d.
Definition first_okb (ws : list Z) (N : Z) (d : counter) : bool :=
  forallb (fun kv => negb (0 <? snd kv) || (0 <? lwt ws N (fst kv))) d.

Lemma first_okb_sound ws N d : first_okb ws N d = true -> first_ok ws N d.
Proof.
  unfold first_okb, first_ok. rewrite forallb_forall, Forall_forall. intros H kv Hin Hv. specialize (H kv Hin).
  destruct (Z.ltb_spec 0 (snd kv)) as [_|Hle]; [|lia]. apply Z.ltb_lt. exact H.
Qed.

Lemma inv_init ws N D d : ctotal d = D -> cnonneg d -> NoDup (ckeys d) -> in_range (List.length ws) d -> first_ok ws N d ->
  inv (List.length ws) (lwt ws N) (cnt ws N) D [] d.
Proof.
  intros Ht Hn Hnd Hr Hf. constructor; try assumption.
  - intros z [].
  - intros j Hj. destruct (cget_pos_in j d Hj) as [v [Hin Hv]]. unfold first_ok in Hf. rewrite Forall_forall in Hf.
    apply (Hf (j, v) Hin Hv).
  - constructor.
  - intros z [].
Qed.

(* ------------------------------------------------------------------ hypotheses about a recorded run that do NOT presuppose termination *)
(* run_ok of RepresentProofs.v with "the loop ends within the fuel" taken out: every consumed draw has the requested size *)
Definition run_req (ws : list Z) (N : Z) (draws : list counter) : Prop :=
  match draws with
  | [] => True
  | d :: ds =>
    let r := rounded ws N in
    (zsum r < N -> ctotal d = N - zsum r /\ NoDup (ckeys d) /\ in_range (List.length ws) d /\ cnonneg d /\ first_ok ws N d) /\
    (N < zsum r -> ctotal d = zsum r - N /\ cnonneg d /\ NoDup (ckeys d) /\ in_range (List.length ws) d /\
                   draws_req (List.length ws) (cnt ws N) d ds)
  end.

(* the zeroing: the first result only has keys of positive leftover weight, a later one only such keys that have not
   been zeroed in an earlier round *)
Definition run_avoid (ws : list Z) (N : Z) (draws : list counter) : Prop :=
  match draws with
  | [] => True
  | d :: ds => N < zsum (rounded ws N) -> first_ok ws N d /\ draws_avoid (lwt ws N) (cnt ws N) [] d ds
  end.

Definition run_avoidb (ws : list Z) (N : Z) (draws : list counter) : bool :=
  match draws with
  | [] => true
  | d :: ds => if N <? zsum (rounded ws N) then first_okb ws N d && draws_avoidb (lwt ws N) (cnt ws N) [] d ds else true
  end.

Lemma run_avoidb_sound ws N draws : run_avoidb ws N draws = true -> run_avoid ws N draws.
Proof.
  unfold run_avoidb, run_avoid. destruct draws as [|d ds]; [intros; exact I|]. intros H Hgt.
  destruct (Z.ltb_spec N (zsum (rounded ws N))); [|lia]. apply andb_prop in H. destruct H as [H1 H2].
  split; [apply first_okb_sound; exact H1|apply draws_avoidb_sound; exact H2].
Qed.

Lemma run_ok_req ws N draws : run_ok ws N draws -> run_req ws N draws.
Proof.
  unfold run_ok, run_req. destruct draws as [|d ds]; [intros; exact I|]. cbv zeta. intros [Ha Hr]. split.
  - exact Ha.
  - intro Hgt. destruct (Hr Hgt) as (H1 & H2 & H3 & H4 & H5). repeat split; try assumption.
    apply (draws_fit_range_req _ _ _ _ _ H5).
Qed.

(* every recorded run that passes both boolean checks meets the termination-free hypotheses *)
Theorem recorded_run_sound ws N draws : run_okb ws N draws && run_avoidb ws N draws = true ->
  run_req ws N draws /\ run_avoid ws N draws.
Proof.
  intro H. apply andb_prop in H. destruct H as [H1 H2].
  split; [apply run_ok_req; apply run_okb_sound; exact H1|apply run_avoidb_sound; exact H2].
Qed.

(* ------------------------------------------------------------------ termination *)
(* the elimination loop ends within (number of keys of positive leftover weight) rounds *)
Theorem eliminate_terminates ws N d ds fuel : weights_ok ws -> 0 <= N -> N < zsum (rounded ws N) ->
  run_req ws N (d :: ds) -> run_avoid ws N (d :: ds) ->
  (List.length (pos_keys (List.length ws) (lwt ws N)) <= fuel)%nat ->
  (List.length (pos_keys (List.length ws) (lwt ws N)) <= List.length ds)%nat ->
  (exists e, eliminate fuel (cnt ws N) d ds = Some e /\ ctotal e = zsum (rounded ws N) - N /\
             forall k, 0 <= cget k e <= cnt ws N k) /\
  draws_fit_range (List.length ws) fuel (cnt ws N) d ds.
Proof.
  intros Hw HN Hgt Hreq Hav Hfuel Hlen. cbn [run_req run_avoid] in Hreq, Hav. cbv zeta in Hreq.
  destruct Hreq as [_ Hreq]. destruct (Hreq Hgt) as (Ht & Hn & Hnd & Hr & Hdr). destruct (Hav Hgt) as [Hf Hda].
  apply (eliminate_terminates_gen (List.length ws) (lwt ws N) (cnt ws N) (cnt_nonneg ws N Hw HN) _ fuel [] d ds
           (inv_init ws N _ d Ht Hn Hnd Hr Hf) Hdr Hda); cbn [List.length]; lia.
Qed.

(* hence the fuel of Represent.v (= number of outcomes) never runs out, [run_ok] holds and [represent] returns a result *)
Theorem represent_terminates ws N draws : weights_ok ws -> 0 <= N -> run_req ws N draws -> run_avoid ws N draws ->
  (List.length (pos_keys (List.length ws) (lwt ws N)) < List.length draws)%nat ->
  run_ok ws N draws /\ exists res, represent ws N draws = Some res.
Proof.
  intros Hw HN Hreq Hav Hlen. destruct draws as [|d ds]; [cbn [List.length] in Hlen; lia|]. cbn [List.length] in Hlen.
  pose proof (pos_keys_le_n (List.length ws) (lwt ws N)) as Hpn.
  assert (Hterm : N < zsum (rounded ws N) ->
            (exists e, eliminate (List.length ws) (cnt ws N) d ds = Some e /\ ctotal e = zsum (rounded ws N) - N /\
                       forall k, 0 <= cget k e <= cnt ws N k) /\
            draws_fit_range (List.length ws) (List.length ws) (cnt ws N) d ds).
  { intro Hgt. apply (eliminate_terminates ws N d ds (List.length ws) Hw HN Hgt Hreq Hav); lia. }
  split.
  - unfold run_ok. unfold run_req in Hreq. cbv zeta in *. destruct Hreq as [Ha Hr]. split; [exact Ha|].
    intro Hgt. destruct (Hr Hgt) as (H1 & H2 & H3 & H4 & _). repeat split; try assumption. apply (Hterm Hgt).
  - unfold represent. destruct (Z.eqb_spec (zsum (rounded ws N)) N) as [E|Hne]; [eexists; reflexivity|].
    destruct (Z.ltb_spec (zsum (rounded ws N)) N) as [Hlt|Hge]; [eexists; reflexivity|].
    destruct (Hterm ltac:(lia)) as [[e [He _]] _]. change (fun k => nth k (rounded ws N) 0) with (cnt ws N).
    rewrite He. eexists; reflexivity.
Qed.

Corollary represent_terminates_n ws N draws : weights_ok ws -> 0 <= N -> run_req ws N draws -> run_avoid ws N draws ->
  (List.length ws < List.length draws)%nat ->
  run_ok ws N draws /\ exists res, represent ws N draws = Some res.
Proof.
  intros Hw HN Hreq Hav Hlen. apply represent_terminates; try assumption.
  pose proof (pos_keys_le_n (List.length ws) (lwt ws N)). lia.
Qed.

(* total correctness of the model: with enough sampler results that each have the requested size and respect the
   zeroing, the function returns exactly N shots, all on the support, never removing an absent shot *)
Theorem represent_total ws N draws : weights_ok ws -> 0 <= N -> run_req ws N draws -> run_avoid ws N draws ->
  (List.length ws < List.length draws)%nat ->
  exists res, represent ws N draws = Some res /\ zsum res = N /\ (forall k, 0 < nth k res 0 -> 0 < nth k ws 0) /\
              Forall (fun c => 0 <= c) res.
Proof.
  intros Hw HN Hreq Hav Hlen. destruct (represent_terminates_n ws N draws Hw HN Hreq Hav Hlen) as [Hok [res Hres]].
  exists res. split; [exact Hres|]. split; [apply (represent_count_ok ws N draws res Hw HN Hok Hres)|].
  split; [apply (represent_support ws N draws res Hw HN Hok Hres)|apply (represent_nonnegative ws N draws res Hw HN Hok Hres)].
Qed.

(* ------------------------------------------------------------------ feasibility *)
(* whenever the counts do not add up, the leftover distribution the first sample is drawn from is not all zero *)
Theorem initial_sampling_possible ws N : weights_ok ws -> zsum (rounded ws N) <> N ->
  exists j, (j < List.length ws)%nat /\ 0 < lwt ws N j.
Proof.
  intros [Hw HS] Hne. destruct (existsb (fun j => 0 <? lwt ws N j) (seq 0 (List.length ws))) eqn:E.
  - apply existsb_exists in E. destruct E as [j [Hin Hj]]. exists j. apply in_seq in Hin. split; [lia|apply Z.ltb_lt; exact Hj].
  - exfalso. apply Hne. pose proof (existsb_false_all _ _ E) as Hall.
    assert (H : zsum ws * zsum (rounded ws N) = zsum ws * N).
    { unfold rounded. rewrite (exact_sum (zsum ws) N ws HS); [lia|]. intros w Hin.
      destruct (In_nth ws w 0 Hin) as [j [Hj <-]]. specialize (Hall j ltac:(apply in_seq; lia)). apply Z.ltb_ge in Hall. exact Hall. }
    apply (Z.mul_reg_l _ _ (zsum ws)); [lia|exact H].
Qed.

(* in every round of the elimination loop that resamples, a key of positive leftover weight is still not zeroed:
   the re-normalisation in the loop never sees an all-zero distribution *)
Theorem resampling_always_possible ws N d ds : weights_ok ws -> 0 <= N -> N < zsum (rounded ws N) ->
  run_req ws N (d :: ds) -> run_avoid ws N (d :: ds) ->
  feasible_run (List.length ws) (lwt ws N) (cnt ws N) [] d ds.
Proof.
  intros Hw HN Hgt Hreq Hav. cbn [run_req run_avoid] in Hreq, Hav. cbv zeta in Hreq.
  destruct Hreq as [_ Hreq]. destruct (Hreq Hgt) as (Ht & Hn & Hnd & Hr & Hdr). destruct (Hav Hgt) as [Hf Hda].
  apply (feasible_run_gen (List.length ws) (lwt ws N) (cnt ws N) (cnt_nonneg ws N Hw HN) (zsum (rounded ws N) - N)).
  - rewrite capacity_cap. apply surplus_lt_cap; assumption.
  - apply inv_init; assumption.
  - exact Hdr.
  - exact Hda.
Qed.

(* the same for one state: any state the loop can be in (invariant [inv]) that has an offender *)
Theorem resampling_possible_in_state ws N zs c k v : weights_ok ws -> 0 <= N -> N < zsum (rounded ws N) ->
  inv (List.length ws) (lwt ws N) (cnt ws N) (zsum (rounded ws N) - N) zs c ->
  first_offender (cnt ws N) c = Some (k, v) ->
  exists j, (j < List.length ws)%nat /\ avail (lwt ws N) (k :: zs) j = true.
Proof.
  intros Hw HN Hgt Hinv Eo.
  apply (feasible_step (List.length ws) (lwt ws N) (cnt ws N) (cnt_nonneg ws N Hw HN) _ zs c k v Hinv); [|exact Eo].
  rewrite capacity_cap. apply surplus_lt_cap; assumption.
Qed.

(* ------------------------------------------------------------------ the loop against any sampler that meets its contract *)
(* The sampler is only required to work when it can (some key still has positive probability).  Then the loop of
   _check_sample_elimination, started on the first sample, ends within (number of outcomes) rounds with D shots to
   remove, none more often than present; the run agrees with [eliminate] on the trace of sampler results. *)
Theorem elimination_loop_total ws N (sampler : list nat -> Z -> counter) d :
  weights_ok ws -> 0 <= N -> N < zsum (rounded ws N) ->
  (forall zs amount, 0 < amount -> (exists j, (j < List.length ws)%nat /\ avail (lwt ws N) zs j = true) ->
     ctotal (sampler zs amount) = amount /\ cnonneg (sampler zs amount) /\ in_range (List.length ws) (sampler zs amount) /\
     draw_avoid (lwt ws N) zs (sampler zs amount)) ->
  ctotal d = zsum (rounded ws N) - N -> cnonneg d -> NoDup (ckeys d) -> in_range (List.length ws) d -> first_ok ws N d ->
  exists e, run_loop (cnt ws N) sampler (List.length ws) [] d = Some e /\
            eliminate (List.length ws) (cnt ws N) d (run_trace (cnt ws N) sampler (List.length ws) [] d) = Some e /\
            ctotal e = zsum (rounded ws N) - N /\ forall k, 0 <= cget k e <= cnt ws N k.
Proof.
  intros Hw HN Hgt Hs Ht Hn Hnd Hr Hf.
  destruct (run_loop_terminates (List.length ws) (lwt ws N) (cnt ws N) (cnt_nonneg ws N Hw HN) sampler Hs
              (zsum (rounded ws N) - N) ltac:(rewrite capacity_cap; apply surplus_lt_cap; assumption)
              (List.length ws) [] d (inv_init ws N _ d Ht Hn Hnd Hr Hf)) as [e [He Hspec]].
  { pose proof (pos_keys_le_n (List.length ws) (lwt ws N)). cbn [List.length]. lia. }
  exists e. split; [exact He|]. split; [rewrite <- run_loop_trace; exact He|exact Hspec].
Qed.

(* ------------------------------------------------------------------ non-vacuity *)
(* 7 equal weights, 4 shots: every key is rounded up (4/7 -> 1), surplus 3; the first sample asks key 0 three times,
   the resample (key 0 zeroed) asks key 1 twice, the next one (keys 0, 1 zeroed) key 2 once: a two-round run *)
Example two_round_run :
  let ws := [1; 1; 1; 1; 1; 1; 1] in
  let draws := [[(0%nat, 3)]; [(1%nat, 2)]; [(2%nat, 1)]] in
  represent ws 4 draws = Some [0; 0; 0; 1; 1; 1; 1] /\ run_okb ws 4 draws = true /\ run_avoidb ws 4 draws = true /\
  zsum (rounded ws 4) - 4 = 3 /\ nup ws 4 = 7 /\ cap ws 4 = 7 /\
  eliminate_z (lwt ws 4) (cnt ws 4) 7 [] [(0%nat, 3)] [[(1%nat, 2)]; [(2%nat, 1)]] = Some [(0%nat, 1); (1%nat, 1); (2%nat, 1)].
Proof. vm_compute. repeat split; reflexivity. Qed.

(* the zeroing matters: a sampler that keeps returning the zeroed key 0 (with the requested total every time) makes the
   loop of the model run for ever; [run_avoidb] rejects such a run, and [eliminate_z] rejects its first resample *)
Example zeroing_needed :
  let ws := [1; 1; 1; 1; 1; 1; 1] in
  let bad := [(0%nat, 2)] in
  let draws := [[(0%nat, 3)]; bad; bad; bad; bad; bad; bad; bad; bad] in
  represent ws 4 draws = None /\ run_avoidb ws 4 draws = false /\
  eliminate_z (lwt ws 4) (cnt ws 4) 7 [] [(0%nat, 3)] [bad] = None.
Proof. vm_compute. repeat split; reflexivity. Qed.

(* 5 equal weights, 3 shots: surplus 2, five keys rounded up, capacity 5 *)
Example five_equal_weights :
  let ws := [1; 1; 1; 1; 1] in
  zsum (rounded ws 3) - 3 = 2 /\ nup ws 3 = 5 /\ cap ws 3 = 5 /\
  represent ws 3 [[(0%nat, 2)]; [(4%nat, 1)]] = Some [0; 1; 1; 1; 0] /\
  run_okb ws 3 [[(0%nat, 2)]; [(4%nat, 1)]] && run_avoidb ws 3 [[(0%nat, 2)]; [(4%nat, 1)]] = true.
Proof. vm_compute. repeat split; reflexivity. Qed.

(* a tie: weights 1,1 and 1 shot: both keys sit at 1/2; half-even rounds both down (surplus -1, nothing is rounded up);
   weights 1,1,2 with 6 shots round exactly; weights 3,3,2 with 4 shots: 1.5 -> 2 twice, 1 -> 1, surplus 1, two keys up *)
Example ties :
  nup [1; 1] 1 = 0 /\ zsum (rounded [1; 1] 1) = 0 /\
  nup [3; 3; 2] 4 = 2 /\ zsum (rounded [3; 3; 2] 4) - 4 = 1 /\ cap [3; 3; 2] 4 = 4.
Proof. vm_compute. repeat split; reflexivity. Qed.

(* the hypotheses of [represent_total] are satisfiable: the two-round run, padded with unused sampler results *)
Example total_premises_met :
  let ws := [1; 1; 1; 1; 1; 1; 1] in
  let draws := [[(0%nat, 3)]; [(1%nat, 2)]; [(2%nat, 1)]; []; []; []; []; []] in
  run_okb ws 4 draws && run_avoidb ws 4 draws = true /\ (List.length ws < List.length draws)%nat.
Proof. vm_compute. split; [reflexivity|]. repeat constructor. Qed.
