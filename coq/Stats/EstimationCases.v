(* Comparison helpers for the C15 correspondence cases. *)
Require Import Coq.ZArith.ZArith Coq.QArith.QArith Coq.Lists.List Coq.Bool.Bool Coq.Arith.PeanoNat.
Require Import OQ.Base.CaseEq OQ.Stats.Estimation.
Import ListNotations.

Definition err_eqb (a b : err) : bool :=
  match a, b with
  | EValue, EValue | EType, EType | EIndex, EIndex | ERuntime, ERuntime => true
  | _, _ => false
  end.
Definition res_eqb {A} (e : A -> A -> bool) (a b : result A) : bool :=
  match a, b with Ok x, Ok y => e x y | Err x, Err y => err_eqb x y | _, _ => false end.

Definition mqeqb := leqb lqeqb.
Definition ev_eqb (a b : ev) : bool :=
  lqeqb (ev_values a) (ev_values b) && mqeqb (ev_corr a) (ev_corr b) && mqeqb (ev_cov a) (ev_cov b).
Definition evs_eqb := leqb (oeqb ev_eqb).

Definition zz_eqb (a b : Z * Z) : bool := peqb Z.eqb Z.eqb a b.
Definition xc_eqb (a b : xcircuit) : bool := peqb Nat.eqb lneqb a b.

(* the batch the runner received (None = runner not reached, whether skipped or rejected before) *)
Definition batch_eqb {C} (e : C -> C -> bool) (model : option (result (list (C * Z)))) (seen : option (list (C * Z))) : bool :=
  match model, seen with
  | Some (Ok b), Some s => leqb (peqb e Z.eqb) b s
  | Some (Err _), None => true
  | None, None => true
  | _, _ => false
  end.

(* estimation with a scripted runner: [outs] is what the runner returned, [seen] what it was given *)
Definition mock_eqb (ts : list (task Z)) (outs : list meas) (seen : option (list (Z * Z)))
           (out : result (list (option ev))) : bool :=
  batch_eqb Z.eqb (batch_of ts) seen && res_eqb evs_eqb (estimate (fun _ => outs) ts) out.

(* estimation with the symbolic simulator on X-gate circuits *)
Definition sim_eqb (ts : list (task xcircuit)) (out : result (list (option ev))) : bool :=
  res_eqb evs_eqb (estimate (basis_runner basis_of) ts) out.

Definition split_eqb (ts : list (task Z)) (im inm : list nat) (cm cn : list Z) : bool :=
  let '(tm, tn, i1, i2) := split ts in
  lneqb i1 im && lneqb i2 inm && lzeqb (map tcirc tm) cm && lzeqb (map tcirc tn) cn.

Definition nonmeasured_eqb (ts : list (task Z)) (out : result (list ev)) : bool :=
  res_eqb (leqb ev_eqb) (evaluate_non_measured ts) out.

Definition gev_eqb (o : operator) (m : meas) (out : result ev) : bool :=
  res_eqb ev_eqb (get_expectation_values o m) out.

(* bound tasks: circuits are (circuit id, map id); an unbound circuit has map id -1 *)
Definition pauli_eqb (a b : pauli) : bool :=
  match a, b with PX, PX | PY, PY | PZ, PZ => true | _, _ => false end.
Definition term_eqb (a b : term) : bool :=
  qeqb (coef a) (coef b) && leqb (peqb Nat.eqb pauli_eqb) (tops a) (tops b).
Definition task_eqb {C} (e : C -> C -> bool) (a b : task C) : bool :=
  leqb term_eqb (top a) (top b) && e (tcirc a) (tcirc b) && oeqb Z.eqb (tshots a) (tshots b).
Definition bind_eqb (ts : list (task (Z * Z))) (maps : list Z) (out : list (task (Z * Z))) : bool :=
  leqb (task_eqb zz_eqb) (bind_tasks (fun c m => (fst c, m)) ts maps) out.

Definition exact_eqb (o : operator) (c : xcircuit) (out : Q) : bool :=
  qeqb (exact_on_basis o (basis_of c)) out.

(* get_counts and get_expectation_value_from_frequencies as the code computes them *)
Definition counts_eqb (m : meas) (out : list (bits * Z)) : bool :=
  leqb (peqb (leqb Bool.eqb) Z.eqb) (counts_of m) out.
Definition freq_eqb (S : list nat) (m : meas) (out : Q) : bool :=
  qeqb (mean_eps_counts S m) out && qeqb (mean_eps S m) out.

(* ------------------------------------------------------------------ exact expectation values on the C09 model *)
(* Gaussian-rational instance; literals: [xnum re im e] = (re + i im)/2^e, terms with this file's Pauli letters *)
Require Import OQ.Base.Ring.
Require OQ.Base.Mat OQ.Pauli.Algebra OQ.Pauli.Matrix OQ.Pauli.MatrixCases.
Definition conv_letter (p : pauli) : Algebra.letter :=
  match p with PX => Algebra.PX | PY => Algebra.PY | PZ => Algebra.PZ end.
Definition xnum (re im : Z) (e : nat) : GQ := MatrixCases.dy re im e.
Definition xterm (re im : Z) (e : nat) (l : list (nat * pauli)) : Algebra.term GQring :=
  MatrixCases.tm re im e (map (fun qp => (fst qp, conv_letter (snd qp))) l).
(* .real *)
Definition gq_re (z : GQ) : GQ := (fst z, snd gq0).
(* states: per circuit id the number of qubits and the amplitudes the simulator returned; tasks: (operator, circuit id) *)
Definition exactm_eqb (states : list (nat * list GQ)) (ts : list (list (Algebra.term GQring) * nat))
           (out : option (list (list GQ))) : bool :=
  oeqb (leqb (leqb gq_eqb))
       (@calculate_exact GQring MatrixCases.gq_nonzero Algebra.gq_is_zero gq_re nat
          (fun c => let s := nth c states (0%nat, []) in (fst s, @Mat.vof_list GQring (snd s)))
          (map (fun t => mkX (fst t) (snd t)) ts)) out.
