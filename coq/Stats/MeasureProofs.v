(* Proofs about the measurement-statistics model (property C10). *)
Require Import Coq.ZArith.ZArith Coq.QArith.QArith Coq.Lists.List Coq.Bool.Bool Coq.micromega.Lia
  Coq.Sorting.Permutation Coq.setoid_ring.Ring Coq.setoid_ring.Field.
Require Import OQ.Stats.Measure.
Import ListNotations.

(* ------------------------------------------------------------------ specification side *)
(* eigenvalue of the product of Z on the qubits S for the basis state r *)
Definition eigenvalue (S : list nat) (r : bits) : Z :=
  fold_right (fun q acc => ((if bit r q then -1 else 1) * acc)%Z) 1%Z S.
Definition even_parity (S : list nat) (r : bits) : bool := Z.eqb (eigenvalue S r) 1.
Definition zlen {A} (l : list A) : Z := Z.of_nat (List.length l).
(* sum of f over the shots, and the sample mean *)
Definition shot_sum (f : bits -> Z) (shots : list bits) : Z := msum (map f shots).
Definition mean (f : bits -> Z) (shots : list bits) : Q := inject_Z (shot_sum f shots) / inject_Z (zlen shots).
Definition count_if (p : bits -> bool) (shots : list bits) : Z := zlen (filter p shots).

(* ------------------------------------------------------------------ basics *)
Lemma bits_eqb_eq a b : bits_eqb a b = true <-> a = b.
Proof.
  revert b. induction a as [|x a IH]; intros [|y b]; simpl; split; intro H; try reflexivity; try discriminate.
  - apply andb_true_iff in H. destruct H as [H1 H2]. apply eqb_prop in H1. apply IH in H2. congruence.
  - inversion H; subst. rewrite eqb_reflx. simpl. apply IH. reflexivity.
Qed.

Lemma bits_eqb_refl a : bits_eqb a a = true.
Proof. apply bits_eqb_eq. reflexivity. Qed.

Lemma bits_eqb_sym a b : bits_eqb a b = bits_eqb b a.
Proof.
  destruct (bits_eqb a b) eqn:E1, (bits_eqb b a) eqn:E2; try reflexivity.
  - apply bits_eqb_eq in E1. subst. rewrite bits_eqb_refl in E2. discriminate.
  - apply bits_eqb_eq in E2. subst. rewrite bits_eqb_refl in E1. discriminate.
Qed.

Lemma msum_app l1 l2 : msum (l1 ++ l2) = (msum l1 + msum l2)%Z.
Proof. induction l1 as [|x l1 IH]; simpl; lia. Qed.

Lemma msum_const {A} (l : list A) : msum (map (fun _ => 1%Z) l) = zlen l.
Proof. unfold zlen. induction l as [|x l IH]; [reflexivity|]. cbn [map msum fold_right List.length]. unfold msum in IH. lia. Qed.

(* ------------------------------------------------------------------ Counter regrouping *)
Definition gsum (f : bits -> Z) (d : counts) : Z := msum (map (fun kc => (snd kc * f (fst kc))%Z) d).

Lemma gsum_cons f k c d : gsum f ((k, c) :: d) = (c * f k + gsum f d)%Z.
Proof. reflexivity. Qed.

Lemma gsum_add f k c d : gsum f (add_count k c d) = (gsum f d + c * f k)%Z.
Proof.
  induction d as [|[k' c'] d IH]; cbn [add_count].
  - rewrite gsum_cons. unfold gsum. simpl. lia.
  - destruct (bits_eqb k k') eqn:E.
    + apply bits_eqb_eq in E. subst k'. rewrite !gsum_cons. lia.
    + rewrite !gsum_cons, IH. lia.
Qed.

Lemma gsum_fold f shots : forall d,
  gsum f (fold_left (fun d s => add_count s 1%Z d) shots d) = (gsum f d + shot_sum f shots)%Z.
Proof.
  unfold shot_sum. induction shots as [|s shots IH]; intro d; simpl; [lia|].
  rewrite IH, gsum_add. lia.
Qed.

(* summing count * f(key) over the counts dictionary = summing f over the shots *)
Lemma grouped_sum f shots : gsum f (get_counts shots) = shot_sum f shots.
Proof. unfold get_counts. rewrite gsum_fold. reflexivity. Qed.

Lemma total_gsum d : total d = gsum (fun _ => 1%Z) d.
Proof. unfold total, gsum. f_equal. apply map_ext. intro kc. lia. Qed.

Lemma counts_total_lemma shots : total (get_counts shots) = zlen shots.
Proof. rewrite total_gsum, grouped_sum. unfold shot_sum. apply msum_const. Qed.

(* ------------------------------------------------------------------ parity = eigenvalue *)
Definition par01 (S : list nat) (r : bits) : Z := ((msum (map (fun q => b2z (bit r q)) S) + 1) mod 2)%Z.

Lemma cpv_map rows S : check_parity_of_vector rows S = map (par01 S) rows.
Proof. destruct S as [|q S]; [|reflexivity]. reflexivity. Qed.

Lemma eigenvalue_cons q S r : eigenvalue (q :: S) r = ((if bit r q then -1 else 1) * eigenvalue S r)%Z.
Proof. reflexivity. Qed.

Lemma eigenvalue_pm S r : eigenvalue S r = 1%Z \/ eigenvalue S r = (-1)%Z.
Proof. induction S as [|q S IH]; simpl; [left; reflexivity|]. destruct (bit r q); lia. Qed.

Lemma pm_step (b : bool) k :
  ((b2z b + k + 1) mod 2 * 2 - 1)%Z = ((if b then -1 else 1) * ((k + 1) mod 2 * 2 - 1))%Z.
Proof.
  pose proof (Z.div_mod (b2z b + k + 1) 2 ltac:(lia)). pose proof (Z.div_mod (k + 1) 2 ltac:(lia)).
  pose proof (Z.mod_pos_bound (b2z b + k + 1) 2 ltac:(lia)). pose proof (Z.mod_pos_bound (k + 1) 2 ltac:(lia)).
  destruct b; unfold b2z in *; lia.
Qed.

Lemma par01_eigenvalue S r : (par01 S r * 2 - 1)%Z = eigenvalue S r.
Proof.
  unfold par01. induction S as [|q S IH]; [reflexivity|].
  cbn [map msum fold_right eigenvalue]. fold (msum (map (fun q => b2z (bit r q)) S)). fold (eigenvalue S r).
  rewrite <- IH. apply pm_step.
Qed.

Lemma par01_even S r : par01 S r = if even_parity S r then 1%Z else 0%Z.
Proof.
  unfold even_parity. pose proof (par01_eigenvalue S r) as H. destruct (eigenvalue_pm S r) as [E|E]; rewrite E in *; simpl; lia.
Qed.

(* the scalar check_parity of parities.py computes the same predicate *)
Lemma check_parity_fold r S : forall acc,
  fold_left (fun acc q => if bit r q then negb acc else acc) S acc = (if even_parity S r then acc else negb acc).
Proof.
  unfold even_parity. induction S as [|q S IH]; intro acc; [reflexivity|].
  cbn [fold_left]. rewrite IH, eigenvalue_cons.
  destruct (eigenvalue_pm S r) as [E|E]; rewrite E; destruct (bit r q); simpl; try reflexivity; apply negb_involutive.
Qed.

Lemma check_parity_even r S : check_parity r S = even_parity S r.
Proof. unfold check_parity. rewrite check_parity_fold. destruct (even_parity S r); reflexivity. Qed.

(* ------------------------------------------------------------------ expectation value from frequencies *)
Lemma combine_map {A B C} (f : A -> B) (g : A -> C) l : combine (map f l) (map g l) = map (fun x => (f x, g x)) l.
Proof. induction l as [|x l IH]; simpl; [reflexivity|]. rewrite IH. reflexivity. Qed.

Lemma qsum_div {A} (h : A -> Z) (d : Q) l :
  qsum (map (fun x => inject_Z (h x) / d) l) == inject_Z (msum (map h l)) / d.
Proof.
  induction l as [|x l IH]; simpl.
  - unfold Qdiv. ring.
  - fold (qsum (map (fun x => inject_Z (h x) / d) l)). fold (msum (map h l)).
    rewrite IH, inject_Z_plus. unfold Qdiv. ring.
Qed.

Lemma efreq_val_gsum S freq :
  efreq_val S freq == inject_Z (gsum (eigenvalue S) freq) / inject_Z (total freq).
Proof.
  unfold efreq_val. rewrite cpv_map, !map_map.
  rewrite (combine_map snd (fun kc => (par01 S (fst kc) * 2 - 1)%Z)), map_map.
  cbn [fst snd]. rewrite (qsum_div (fun kc : bits * Z => (snd kc * (par01 S (fst kc) * 2 - 1))%Z)).
  unfold gsum, total.
  rewrite (map_ext (fun kc : bits * Z => (snd kc * (par01 S (fst kc) * 2 - 1))%Z)
                   (fun kc => (snd kc * eigenvalue S (fst kc))%Z))
    by (intro kc; rewrite par01_eigenvalue; reflexivity).
  reflexivity.
Qed.

(* the frequency-weighted average equals the per-shot sample mean of the eigenvalue *)
Lemma efreq_val_mean S shots : efreq_val S (get_counts shots) == mean (eigenvalue S) shots.
Proof. rewrite efreq_val_gsum, grouped_sum, counts_total_lemma. reflexivity. Qed.

(* ------------------------------------------------------------------ get_expectation_values *)
Lemma nth_map_in {A B} (f : A -> B) l i da db : (i < List.length l)%nat -> nth i (map f l) db = f (nth i l da).
Proof. intro H. rewrite (nth_indep _ db (f da)) by (rewrite map_length; exact H). apply map_nth. Qed.

Lemma first_err_none l : first_err l = None -> forall x, In x l -> x = None.
Proof.
  induction l as [|[e|] l IH]; simpl; intros H x Hin; [contradiction|discriminate|].
  destruct Hin as [E|Hin]; [congruence|apply IH; assumption].
Qed.

(* if a call succeeded on a non-empty operator there is at least one shot *)
Lemma ev_ok_shots shots op b r : expectation_values_ising shots op b = Ok r -> op <> [] -> shots <> [].
Proof.
  unfold expectation_values_ising. intros H Hop Hs. subst shots. cbn [get_counts fold_left] in H.
  destruct op as [|t op]; [congruence|]. cbn [map first_err efreq_chk] in H. discriminate.
Qed.

Lemma ev_values_eq shots op b r : expectation_values_ising shots op b = Ok r ->
  ev_values r = map (fun t => fst t * efreq_val (snd t) (get_counts shots)) op.
Proof.
  unfold expectation_values_ising. destruct (first_err _); [discriminate|]. intro H. inversion H. reflexivity.
Qed.

Lemma expval_mean_lemma shots op b r i : expectation_values_ising shots op b = Ok r -> (i < List.length op)%nat ->
  nth i (ev_values r) 0 == coef op i * mean (eigenvalue (supp op i)) shots.
Proof.
  intros H Hi. rewrite (ev_values_eq _ _ _ _ H).
  rewrite (nth_map_in _ op i (0, []) 0 Hi). unfold coef, supp. rewrite efreq_val_mean. reflexivity.
Qed.

Lemma zlen_pos {A} (l : list A) : l <> [] -> (0 < zlen l)%Z.
Proof. unfold zlen. destruct l; [congruence|]. intros _. simpl. lia. Qed.

Lemma mean_const shots : shots <> [] -> mean (fun _ => 1%Z) shots == 1.
Proof.
  intro H. unfold mean, shot_sum. rewrite msum_const. apply zlen_pos in H.
  unfold Qdiv. apply Qmult_inv_r. unfold Qeq. simpl. lia.
Qed.

Lemma constant_term_lemma shots op b r i : expectation_values_ising shots op b = Ok r -> (i < List.length op)%nat ->
  supp op i = [] -> nth i (ev_values r) 0 == coef op i.
Proof.
  intros H Hi Hs. rewrite (expval_mean_lemma _ _ _ _ _ H Hi), Hs.
  assert (Hop : op <> []) by (destruct op; [simpl in Hi; lia|congruence]).
  change (eigenvalue []) with (fun _ : bits => 1%Z). rewrite (mean_const shots (ev_ok_shots _ _ _ _ H Hop)). ring.
Qed.

(* ------------------------------------------------------------------ symmetric difference *)
Lemma eigenvalue_app A B r : eigenvalue (A ++ B) r = (eigenvalue A r * eigenvalue B r)%Z.
Proof. induction A as [|q A IH]; [cbn [app]; change (eigenvalue [] r) with 1%Z; lia|]. cbn [app]. rewrite !eigenvalue_cons, IH. lia. Qed.

Lemma eigenvalue_split (p : nat -> bool) S r :
  eigenvalue S r = (eigenvalue (filter p S) r * eigenvalue (filter (fun q => negb (p q)) S) r)%Z.
Proof.
  induction S as [|q S IH]; [reflexivity|]. cbn [filter]. rewrite eigenvalue_cons, IH.
  destruct (p q); cbn [negb]; rewrite eigenvalue_cons; lia.
Qed.

Lemma eigenvalue_perm A B r : Permutation A B -> eigenvalue A r = eigenvalue B r.
Proof. induction 1; rewrite ?eigenvalue_cons; lia. Qed.

Lemma eigenvalue_sq A r : (eigenvalue A r * eigenvalue A r)%Z = 1%Z.
Proof. destruct (eigenvalue_pm A r) as [E|E]; rewrite E; reflexivity. Qed.

Lemma mem_In q s : mem q s = true <-> In q s.
Proof.
  unfold mem. rewrite existsb_exists. split.
  - intros [x [Hx E]]. apply Nat.eqb_eq in E. subst. exact Hx.
  - intro H. exists q. split; [exact H|apply Nat.eqb_refl].
Qed.

Lemma inter_perm S T : NoDup S -> NoDup T ->
  Permutation (filter (fun q => mem q T) S) (filter (fun q => mem q S) T).
Proof.
  intros HS HT. apply NoDup_Permutation; try (apply NoDup_filter; assumption).
  intro x. rewrite !filter_In, !mem_In. tauto.
Qed.

(* Z on S times Z on T is Z on the symmetric difference *)
Lemma eigenvalue_symdiff S T r : NoDup S -> NoDup T ->
  eigenvalue (symdiff S T) r = (eigenvalue S r * eigenvalue T r)%Z.
Proof.
  intros HS HT. unfold symdiff. rewrite eigenvalue_app.
  rewrite (eigenvalue_split (fun q => mem q T) S r), (eigenvalue_split (fun q => mem q S) T r).
  rewrite (eigenvalue_perm _ _ r (inter_perm S T HS HT)).
  pose proof (eigenvalue_sq (filter (fun q => mem q S) T) r) as Hsq.
  set (x := eigenvalue (filter (fun q => mem q S) T) r) in *.
  set (a := eigenvalue (filter (fun q => negb (mem q T)) S) r).
  set (b := eigenvalue (filter (fun q => negb (mem q S)) T) r).
  clearbody x a b. replace (x * a * (x * b))%Z with ((x * x) * (a * b))%Z by ring. rewrite Hsq. ring.
Qed.

(* ------------------------------------------------------------------ correlations and covariances *)
Definition qmean (f : bits -> Q) (shots : list bits) : Q := qsum (map f shots) / inject_Z (zlen shots).
(* the value of term i of the operator on one shot *)
Definition term_value (op : list term) (i : nat) (s : bits) : Q := coef op i * inject_Z (eigenvalue (supp op i) s).

Lemma qsum_ext {A} (f g : A -> Q) l : (forall x, f x == g x) -> qsum (map f l) == qsum (map g l).
Proof. intro H. induction l as [|x l IH]; simpl; [reflexivity|]. fold (qsum (map f l)). fold (qsum (map g l)). rewrite IH, H. reflexivity. Qed.

Lemma qsum_scale {A} (a : Q) (g : A -> Z) l : qsum (map (fun x => a * inject_Z (g x)) l) == a * inject_Z (msum (map g l)).
Proof.
  induction l as [|x l IH]; simpl; [ring|].
  fold (qsum (map (fun x => a * inject_Z (g x)) l)). fold (msum (map g l)). rewrite IH, inject_Z_plus. ring.
Qed.

Lemma qmean_products ca cb (g h : bits -> Z) shots :
  qmean (fun s => (ca * inject_Z (g s)) * (cb * inject_Z (h s))) shots
  == ca * cb * mean (fun s => (g s * h s)%Z) shots.
Proof.
  unfold qmean, mean, shot_sum.
  rewrite (qsum_ext _ (fun s => (ca * cb) * inject_Z (g s * h s))) by (intro s; rewrite inject_Z_mult; ring).
  rewrite qsum_scale. unfold Qdiv. ring.
Qed.

Lemma qmean_single c (g : bits -> Z) shots :
  qmean (fun s => c * inject_Z (g s)) shots == c * mean g shots.
Proof. unfold qmean, mean, shot_sum. rewrite qsum_scale. unfold Qdiv. ring. Qed.

Lemma mat_nth {A} n (f : nat -> nat -> A) i j (d : A) : (i < n)%nat -> (j < n)%nat ->
  nth j (nth i (mat n f) []) d = f i j.
Proof.
  intros Hi Hj. unfold mat.
  rewrite (nth_map_in (fun i => map (fun j => f i j) (seq 0 n)) (seq 0 n) i 0%nat []) by (rewrite seq_length; exact Hi).
  rewrite (nth_map_in (fun j => f (nth i (seq 0 n) 0%nat) j) (seq 0 n) j 0%nat d) by (rewrite seq_length; exact Hj).
  rewrite !seq_nth by assumption. reflexivity.
Qed.

Lemma mat_length {A} n (f : nat -> nat -> A) : List.length (mat n f) = n.
Proof. unfold mat. rewrite map_length, seq_length. reflexivity. Qed.

Lemma ev_corr_eq shots op b r : expectation_values_ising shots op b = Ok r ->
  ev_corr r = mat (List.length op) (corr_entry op (get_counts shots)).
Proof.
  unfold expectation_values_ising. destruct (first_err _); [discriminate|]. intro H. inversion H. reflexivity.
Qed.

Definition nodup_supports (op : list term) : Prop := Forall (fun t => NoDup (snd t)) op.

Lemma supp_nodup op i : nodup_supports op -> NoDup (supp op i).
Proof.
  intro H. unfold supp. destruct (Nat.lt_ge_cases i (List.length op)) as [Hi|Hi].
  - eapply Forall_forall in H; [exact H|]. apply nth_In. exact Hi.
  - rewrite nth_overflow by exact Hi. constructor.
Qed.

Lemma pair_mean op shots a b : nodup_supports op ->
  coef op a * coef op b * efreq_val (symdiff (supp op a) (supp op b)) (get_counts shots)
  == qmean (fun s => term_value op a s * term_value op b s) shots.
Proof.
  intro H. unfold term_value. rewrite qmean_products, efreq_val_mean.
  unfold mean, shot_sum.
  rewrite (map_ext (eigenvalue (symdiff (supp op a) (supp op b)))
                   (fun s => (eigenvalue (supp op a) s * eigenvalue (supp op b) s)%Z))
    by (intro s; apply eigenvalue_symdiff; apply supp_nodup; exact H).
  reflexivity.
Qed.

Lemma qmean_comm (f g : bits -> Q) shots : qmean (fun s => f s * g s) shots == qmean (fun s => g s * f s) shots.
Proof. unfold qmean. rewrite (qsum_ext (fun s => f s * g s) (fun s => g s * f s)) by (intro; ring). reflexivity. Qed.

Lemma diag_mean op shots i : shots <> [] ->
  coef op i * coef op i == qmean (fun s => term_value op i s * term_value op i s) shots.
Proof.
  intro Hs. unfold term_value. rewrite qmean_products.
  rewrite <- (Qmult_1_r (coef op i * coef op i)) at 1.
  apply Qmult_comp; [reflexivity|]. symmetry.
  unfold mean, shot_sum.
  rewrite (map_ext (fun s => (eigenvalue (supp op i) s * eigenvalue (supp op i) s)%Z) (fun _ => 1%Z))
    by (intro s; apply eigenvalue_sq).
  apply (mean_const shots Hs).
Qed.

(* reported correlation of terms i and j = sample mean of the product of their values *)
Lemma corr_mean_lemma shots op b r i j : expectation_values_ising shots op b = Ok r -> nodup_supports op ->
  (i < List.length op)%nat -> (j < List.length op)%nat ->
  nth j (nth i (ev_corr r) []) 0 == qmean (fun s => term_value op i s * term_value op j s) shots.
Proof.
  intros H Hnd Hi Hj. rewrite (ev_corr_eq _ _ _ _ H), mat_nth by assumption.
  unfold corr_entry. destruct (Nat.eqb_spec i j) as [E|E].
  - subst j. apply diag_mean. apply (ev_ok_shots _ _ _ _ H). destruct op; [simpl in Hi; lia|congruence].
  - destruct (Nat.lt_ge_cases i j) as [L|L].
    + rewrite Nat.max_r, Nat.min_l by lia. rewrite pair_mean by exact Hnd. apply qmean_comm.
    + rewrite Nat.max_l, Nat.min_r by lia. apply pair_mean. exact Hnd.
Qed.

Lemma ev_cov_eq shots op b r : expectation_values_ising shots op b = Ok r ->
  let denom := (if b then zlen shots - 1 else zlen shots)%Z in
  ev_cov r = if Z.eqb denom 0 && negb (Nat.eqb (List.length op) 0) then None
             else Some (mat (List.length op) (fun i j =>
               (corr_entry op (get_counts shots) i j - nth i (ev_values r) 0 * nth j (ev_values r) 0) / inject_Z denom)).
Proof.
  unfold expectation_values_ising. destruct (first_err _); [discriminate|]. intro H. inversion H. reflexivity.
Qed.

(* estimator covariance = (correlation - product of the two reported values) / denominator *)
Lemma cov_lemma shots op b r : expectation_values_ising shots op b = Ok r ->
  let denom := (if b then zlen shots - 1 else zlen shots)%Z in
  denom <> 0%Z ->
  exists cov, ev_cov r = Some cov /\ List.length cov = List.length op /\
    forall i j, (i < List.length op)%nat -> (j < List.length op)%nat ->
      nth j (nth i cov []) 0 ==
      (nth j (nth i (ev_corr r) []) 0 - nth i (ev_values r) 0 * nth j (ev_values r) 0) / inject_Z denom.
Proof.
  intros H denom Hd. pose proof (ev_cov_eq _ _ _ _ H) as Hc. cbv zeta in Hc. fold denom in Hc.
  destruct (Z.eqb_spec denom 0) as [E|_]; [contradiction|]. cbn [andb] in Hc.
  eexists. split; [exact Hc|]. split; [apply mat_length|].
  intros i j Hi Hj. rewrite (ev_corr_eq _ _ _ _ H), !mat_nth by assumption. reflexivity.
Qed.

Lemma cov_none_lemma shots op r : expectation_values_ising shots op true = Ok r ->
  List.length shots = 1%nat -> op <> [] -> ev_cov r = None.
Proof.
  intros H Hn Hop. rewrite (ev_cov_eq _ _ _ _ H). unfold zlen. rewrite Hn. cbn [Z.of_nat Z.sub Z.eqb andb].
  destruct op; [congruence|reflexivity].
Qed.

(* the same statement in terms of the shots only *)
Lemma cov_sample_lemma shots op b r : expectation_values_ising shots op b = Ok r -> nodup_supports op ->
  let denom := (if b then zlen shots - 1 else zlen shots)%Z in
  denom <> 0%Z ->
  exists cov, ev_cov r = Some cov /\
    forall i j, (i < List.length op)%nat -> (j < List.length op)%nat ->
      nth j (nth i cov []) 0 ==
      (qmean (fun s => term_value op i s * term_value op j s) shots
       - qmean (term_value op i) shots * qmean (term_value op j) shots) / inject_Z denom.
Proof.
  intros H Hnd denom Hd. destruct (cov_lemma _ _ _ _ H Hd) as [cov [Hc [_ Hf]]]. fold denom in Hf.
  exists cov. split; [exact Hc|]. intros i j Hi Hj. rewrite (Hf i j Hi Hj).
  rewrite (corr_mean_lemma _ _ _ _ i j H Hnd Hi Hj).
  rewrite (expval_mean_lemma _ _ _ _ i H Hi), (expval_mean_lemma _ _ _ _ j H Hj).
  unfold term_value. rewrite !qmean_single. reflexivity.
Qed.

(* ------------------------------------------------------------------ parity tallies *)
Lemma zlen_cons {A} (x : A) l : zlen (x :: l) = (1 + zlen l)%Z.
Proof. unfold zlen. cbn [List.length]. lia. Qed.

Lemma shot_sum_indicator (p : bits -> bool) shots :
  shot_sum (fun s => if p s then 1%Z else 0%Z) shots = count_if p shots.
Proof.
  unfold shot_sum, count_if. induction shots as [|s shots IH]; [reflexivity|].
  cbn [map filter]. change (msum (?x :: ?l)) with (x + msum l)%Z. rewrite IH.
  destruct (p s); [rewrite zlen_cons|]; lia.
Qed.

Lemma count_if_compl (p : bits -> bool) shots :
  (count_if p shots + count_if (fun s => negb (p s)) shots)%Z = zlen shots.
Proof.
  unfold count_if. induction shots as [|s shots IH]; [reflexivity|].
  cbn [filter]. destruct (p s); cbn [negb]; rewrite !zlen_cons; lia.
Qed.

Lemma wsum_gsum (f : bits -> Z) (freq : counts) : wsum (map f (map fst freq)) (map snd freq) = gsum f freq.
Proof.
  unfold wsum, gsum. rewrite map_map, (combine_map (fun kc => f (fst kc)) snd), map_map. f_equal.
  apply map_ext. intro kc. cbn [fst snd]. lia.
Qed.

Lemma wsum_shots (f : bits -> Z) shots :
  wsum (map f (map fst (get_counts shots))) (map snd (get_counts shots)) = shot_sum f shots.
Proof. rewrite wsum_gsum. apply grouped_sum. Qed.

Lemma par_values_eq shots op p : parities_ising shots op = Ok p ->
  par_values p = map (fun t => (count_if (even_parity (snd t)) shots,
                                count_if (fun s => negb (even_parity (snd t) s)) shots)) op.
Proof.
  unfold parities_ising. destruct (forallb (fun t => marked_ok (width (get_counts shots)) (snd t)) op); [|discriminate]. intro H. inversion H. cbn [par_values].
  apply map_ext. intro t. rewrite cpv_map.
  rewrite (wsum_shots (par01 (snd t))).
  rewrite (map_map (par01 (snd t)) (fun x => (1 - x)%Z)), (wsum_shots (fun r => (1 - par01 (snd t) r)%Z)).
  rewrite <- !shot_sum_indicator. unfold shot_sum. f_equal; f_equal; apply map_ext; intro s; rewrite par01_even;
    destruct (even_parity (snd t) s); reflexivity.
Qed.

(* even/odd tallies of term i are the numbers of shots with even/odd parity on its qubits *)
Lemma parity_values_lemma shots op p i : parities_ising shots op = Ok p -> (i < List.length op)%nat ->
  nth i (par_values p) (0, 0)%Z = (count_if (even_parity (supp op i)) shots,
                                   count_if (fun s => negb (even_parity (supp op i) s)) shots)
  /\ (fst (nth i (par_values p) (0, 0)) + snd (nth i (par_values p) (0, 0)))%Z = zlen shots.
Proof.
  intros H Hi. rewrite (par_values_eq _ _ _ H).
  rewrite (nth_map_in _ op i (0, []) (0, 0)%Z Hi). split; [reflexivity|]. cbn [fst snd]. apply count_if_compl.
Qed.

Lemma par_corr_eq shots op p : parities_ising shots op = Ok p ->
  par_corr p = mat (List.length op) (fun i j =>
    (count_if (fun s => Bool.eqb (even_parity (supp op i) s) (even_parity (supp op j) s)) shots,
     count_if (fun s => negb (Bool.eqb (even_parity (supp op i) s) (even_parity (supp op j) s))) shots)).
Proof.
  unfold parities_ising. destruct (forallb (fun t => marked_ok (width (get_counts shots)) (snd t)) op); [|discriminate]. intro H. inversion H. cbn [par_corr].
  unfold mat. apply map_ext. intro i. apply map_ext. intro j.
  rewrite !cpv_map, (combine_map (par01 (supp op i)) (par01 (supp op j))).
  rewrite (map_map (fun x => (par01 (supp op i) x, par01 (supp op j) x)) (fun pq : Z * Z => Z.abs (fst pq - snd pq))).
  rewrite (map_map (fun x => Z.abs (fst (par01 (supp op i) x, par01 (supp op j) x) - snd (par01 (supp op i) x, par01 (supp op j) x))) (fun x => (1 - x)%Z)).
  rewrite !wsum_shots, <- !shot_sum_indicator. unfold shot_sum. cbn [fst snd].
  f_equal; f_equal; apply map_ext; intro s; rewrite !par01_even;
    destruct (even_parity (supp op i) s), (even_parity (supp op j) s); reflexivity.
Qed.

(* pair tallies: numbers of shots on which the two terms' parities agree / disagree *)
Lemma parity_pairs_lemma shots op p i j : parities_ising shots op = Ok p ->
  (i < List.length op)%nat -> (j < List.length op)%nat ->
  nth j (nth i (par_corr p) []) (0, 0)%Z =
    (count_if (fun s => Bool.eqb (even_parity (supp op i) s) (even_parity (supp op j) s)) shots,
     count_if (fun s => negb (Bool.eqb (even_parity (supp op i) s) (even_parity (supp op j) s))) shots).
Proof. intros H Hi Hj. rewrite (par_corr_eq _ _ _ H), mat_nth by assumption. reflexivity. Qed.

(* ------------------------------------------------------------------ counts: per-key counts, keys, round trips *)
Lemma count_of_gsum k d : count_of k d = gsum (fun k' => if bits_eqb k k' then 1%Z else 0%Z) d.
Proof.
  unfold count_of. induction d as [|[k' c] d IH]; [reflexivity|].
  cbn [filter fst]. rewrite gsum_cons. destruct (bits_eqb k k'); cbn [map snd]; [change (msum (?x :: ?l)) with (x + msum l)%Z|]; rewrite IH; lia.
Qed.

(* the count recorded for a bitstring is its number of occurrences among the shots *)
Lemma count_of_counts k shots : count_of k (get_counts shots) = count_if (bits_eqb k) shots.
Proof. rewrite count_of_gsum, grouped_sum. apply shot_sum_indicator. Qed.

Definition keys (d : counts) : list bits := map fst d.
Definition kmem (k : bits) (l : list bits) : bool := existsb (bits_eqb k) l.

Lemma kmem_In k l : kmem k l = true <-> In k l.
Proof.
  unfold kmem. rewrite existsb_exists. split.
  - intros [x [Hx E]]. apply bits_eqb_eq in E. subst. exact Hx.
  - intro H. exists k. split; [exact H|apply bits_eqb_refl].
Qed.

Lemma keys_add k c d : keys (add_count k c d) = if kmem k (keys d) then keys d else keys d ++ [k].
Proof.
  unfold keys. induction d as [|[k' c'] d IH]; [reflexivity|]. cbn [add_count map fst kmem existsb].
  destruct (bits_eqb k k') eqn:E; cbn [orb map fst]; [reflexivity|]. rewrite IH.
  fold (kmem k (map fst d)). destruct (kmem k (map fst d)); reflexivity.
Qed.

Lemma NoDup_snoc {A} (l : list A) x : NoDup l -> ~ In x l -> NoDup (l ++ [x]).
Proof.
  intros Hl Hx. apply (Permutation_NoDup (Permutation_cons_append l x)). constructor; assumption.
Qed.

Lemma keys_add_nodup k c d : NoDup (keys d) -> NoDup (keys (add_count k c d)).
Proof.
  intro H. rewrite keys_add. destruct (kmem k (keys d)) eqn:E; [exact H|].
  apply NoDup_snoc; [exact H|]. intro Hin. apply kmem_In in Hin. congruence.
Qed.

Definition pos_counts (d : counts) : Prop := Forall (fun kc => (0 < snd kc)%Z) d.

Lemma add_count_pos k c d : (0 < c)%Z -> pos_counts d -> pos_counts (add_count k c d).
Proof.
  intros Hc H. induction H as [|[k' c'] d Hkc Hd IH]; cbn [add_count]; [constructor; [exact Hc|constructor]|].
  cbn [snd] in Hkc. destruct (bits_eqb k k'); constructor; cbn [snd]; try lia; assumption.
Qed.

Lemma fold_counts_inv shots : forall d, NoDup (keys d) -> pos_counts d ->
  NoDup (keys (fold_left (fun d s => add_count s 1%Z d) shots d)) /\
  pos_counts (fold_left (fun d s => add_count s 1%Z d) shots d).
Proof.
  induction shots as [|s shots IH]; intros d H1 H2; cbn [fold_left]; [split; assumption|].
  apply IH; [apply keys_add_nodup; exact H1|apply add_count_pos; [lia|exact H2]].
Qed.

(* the counts dictionary has distinct keys and strictly positive counts *)
Lemma counts_wf shots : NoDup (keys (get_counts shots)) /\ pos_counts (get_counts shots).
Proof. unfold get_counts. apply fold_counts_inv; constructor. Qed.

Lemma count_of_absent k d : ~ In k (keys d) -> count_of k d = 0%Z.
Proof.
  unfold count_of, keys. induction d as [|[k' c] d IH]; intro H; [reflexivity|]. cbn [filter fst map] in *.
  destruct (bits_eqb k k') eqn:E; [apply bits_eqb_eq in E; subst; exfalso; apply H; left; reflexivity|].
  apply IH. intro Hin. apply H. right. exact Hin.
Qed.

Lemma count_of_entry k c d : NoDup (keys d) -> In (k, c) d -> count_of k d = c.
Proof.
  unfold keys. induction d as [|[k' c'] d IH]; intros Hnd Hin; [contradiction|].
  cbn [map fst] in Hnd. inversion Hnd as [|? ? Hni Hnd']; subst.
  unfold count_of. cbn [filter fst]. destruct Hin as [E|Hin].
  - inversion E; subst. rewrite bits_eqb_refl. cbn [map snd]. change (msum (?x :: ?l)) with (x + msum l)%Z.
    fold (count_of k d). rewrite count_of_absent by exact Hni. lia.
  - destruct (bits_eqb k k') eqn:E.
    + apply bits_eqb_eq in E. subst k'. exfalso. apply Hni. change k with (fst (k, c)). apply in_map. exact Hin.
    + apply IH; assumption.
Qed.

(* every entry (k, c) of the counts has c = number of occurrences of k, and the keys are exactly the shots seen *)
Lemma counts_entries shots k c : In (k, c) (get_counts shots) -> c = count_if (bits_eqb k) shots.
Proof. intro H. rewrite <- count_of_counts. symmetry. apply count_of_entry; [apply counts_wf|exact H]. Qed.

Lemma count_if_pos_In k shots : (0 < count_if (bits_eqb k) shots)%Z <-> In k shots.
Proof.
  unfold count_if. split.
  - intro H. destruct (filter (bits_eqb k) shots) as [|x l] eqn:E; [unfold zlen in H; simpl in H; lia|].
    assert (Hx : In x (filter (bits_eqb k) shots)) by (rewrite E; left; reflexivity).
    apply filter_In in Hx. destruct Hx as [Hx Hk]. apply bits_eqb_eq in Hk. subst. exact Hx.
  - intro H. assert (Hx : In k (filter (bits_eqb k) shots)) by (apply filter_In; split; [exact H|apply bits_eqb_refl]).
    destruct (filter (bits_eqb k) shots); [contradiction|]. rewrite zlen_cons. unfold zlen. lia.
Qed.

Lemma counts_keys shots k : In k (keys (get_counts shots)) <-> In k shots.
Proof.
  transitivity (0 < count_of k (get_counts shots))%Z; [|rewrite count_of_counts; apply count_if_pos_In]. split.
  - intro H. unfold keys in H. apply in_map_iff in H. destruct H as [[k' c] [E Hin]]. cbn [fst] in E. subst k'.
    rewrite (count_of_entry k c _ (proj1 (counts_wf shots)) Hin).
    destruct (counts_wf shots) as [_ Hp]. eapply Forall_forall in Hp; [|exact Hin]. exact Hp.
  - intro H. destruct (in_dec (list_eq_dec bool_dec) k (keys (get_counts shots))) as [Hin|Hni]; [exact Hin|].
    rewrite count_of_absent in H by exact Hni. lia.
Qed.

(* from_counts(get_counts(shots)) is the same multiset of shots *)
Lemma from_counts_add s d : pos_counts d ->
  Permutation (from_counts (add_count s 1%Z d)) (s :: from_counts d).
Proof.
  unfold from_counts, add_counts. cbn [app]. intro H.
  induction H as [|[k c] d Hkc Hd IH]; cbn [add_count flat_map fst snd]; [reflexivity|].
  cbn [snd] in Hkc. destruct (bits_eqb s k) eqn:E.
  - apply bits_eqb_eq in E. subst k. cbn [flat_map fst snd].
    replace (Z.to_nat (c + 1)) with (S (Z.to_nat c)) by lia. reflexivity.
  - cbn [flat_map fst snd]. rewrite IH. symmetry. apply Permutation_middle.
Qed.

Lemma from_counts_fold shots : forall d, pos_counts d ->
  Permutation (from_counts (fold_left (fun d s => add_count s 1%Z d) shots d)) (shots ++ from_counts d).
Proof.
  induction shots as [|s shots IH]; intros d H; cbn [fold_left app]; [reflexivity|].
  rewrite IH by (apply add_count_pos; [lia|exact H]). rewrite from_counts_add by exact H.
  symmetry. apply Permutation_middle.
Qed.

Lemma from_counts_counts_lemma shots : Permutation (from_counts (get_counts shots)) shots.
Proof. unfold get_counts. rewrite from_counts_fold by constructor. cbn. rewrite app_nil_r. reflexivity. Qed.

(* get_counts(from_counts(d)) = d for a dictionary with distinct keys and positive counts *)
Lemma add_count_absent k c d : ~ In k (keys d) -> add_count k c d = d ++ [(k, c)].
Proof.
  unfold keys. induction d as [|[k' c'] d IH]; intro H; [reflexivity|]. cbn [add_count map fst app] in *.
  destruct (bits_eqb k k') eqn:E; [apply bits_eqb_eq in E; subst; exfalso; apply H; left; reflexivity|].
  rewrite IH; [reflexivity|]. intro Hin. apply H. right. exact Hin.
Qed.

Lemma add_count_last k c c' d : ~ In k (keys d) -> add_count k c (d ++ [(k, c')]) = d ++ [(k, (c' + c)%Z)].
Proof.
  unfold keys. induction d as [|[k2 c2] d IH]; intro H; cbn [add_count map fst app] in *.
  - rewrite bits_eqb_refl. reflexivity.
  - destruct (bits_eqb k k2) eqn:E; [apply bits_eqb_eq in E; subst; exfalso; apply H; left; reflexivity|].
    rewrite IH; [reflexivity|]. intro Hin. apply H. right. exact Hin.
Qed.

Lemma fold_repeat_last k n : forall c d, ~ In k (keys d) ->
  fold_left (fun d s => add_count s 1%Z d) (repeat k n) (d ++ [(k, c)]) = d ++ [(k, (c + Z.of_nat n)%Z)].
Proof.
  induction n as [|n IH]; intros c d H; cbn [repeat fold_left].
  - f_equal. f_equal. f_equal. lia.
  - rewrite add_count_last by exact H. rewrite IH by exact H. f_equal. f_equal. f_equal. lia.
Qed.

Lemma fold_repeat_new k c d : ~ In k (keys d) -> (0 < c)%Z ->
  fold_left (fun d s => add_count s 1%Z d) (repeat k (Z.to_nat c)) d = d ++ [(k, c)].
Proof.
  intros H Hc. destruct (Z.to_nat c) as [|n] eqn:E; [lia|]. cbn [repeat fold_left].
  rewrite add_count_absent by exact H. rewrite fold_repeat_last by exact H. f_equal. f_equal. f_equal. lia.
Qed.

Lemma counts_from_counts_gen d2 : forall d1, NoDup (keys (d1 ++ d2)) -> pos_counts d2 ->
  fold_left (fun d s => add_count s 1%Z d) (from_counts d2) d1 = d1 ++ d2.
Proof.
  unfold from_counts, add_counts. cbn [app].
  induction d2 as [|[k c] d2 IH]; intros d1 Hnd Hp; cbn [flat_map fst snd]; [rewrite app_nil_r; reflexivity|].
  inversion Hp as [|? ? Hc Hp']; subst. cbn [snd] in Hc.
  rewrite fold_left_app, fold_repeat_new; [| |exact Hc].
  - rewrite IH; [rewrite <- app_assoc; reflexivity| |exact Hp'].
    rewrite <- app_assoc. exact Hnd.
  - unfold keys in *. rewrite map_app in Hnd. cbn [map fst] in Hnd. apply NoDup_remove_2 in Hnd.
    intro Hin. apply Hnd. apply in_or_app. left. exact Hin.
Qed.

Lemma counts_from_counts_lemma d : NoDup (keys d) -> pos_counts d -> get_counts (from_counts d) = d.
Proof. intros H1 H2. unfold get_counts. apply (counts_from_counts_gen d [] H1 H2). Qed.

(* ------------------------------------------------------------------ distribution *)
Lemma distribution_lemma shots : shots <> [] ->
  exists dist, get_distribution shots = Ok dist /\
    map fst dist = keys (get_counts shots) /\
    (forall k p, In (k, p) dist -> p == inject_Z (count_if (bits_eqb k) shots) / inject_Z (zlen shots)) /\
    qsum (map snd dist) == 1.
Proof.
  intro Hs. unfold get_distribution. destruct shots as [|s0 shots']; [congruence|]. set (shots := s0 :: shots') in *.
  eexists. split; [reflexivity|]. split; [|split].
  - rewrite map_map. reflexivity.
  - intros k p Hin. apply in_map_iff in Hin. destruct Hin as [[k' c] [E Hin]]. cbn [fst snd] in E.
    inversion E; subst. rewrite (counts_entries _ _ _ Hin). reflexivity.
  - rewrite map_map. cbn [snd]. rewrite (qsum_div (fun kc : bits * Z => snd kc)).
    change (msum (map (fun kc : bits * Z => snd kc) (get_counts shots))) with (total (get_counts shots)).
    rewrite counts_total_lemma. fold (zlen shots).
    unfold Qdiv. apply Qmult_inv_r. pose proof (zlen_pos shots Hs). unfold Qeq. simpl. lia.
Qed.

Lemma distribution_empty_lemma : get_distribution [] = Err RuntimeError.
Proof. reflexivity. Qed.

(* ------------------------------------------------------------------ rejection of non-Ising operators *)
Lemma non_ising_rejected shots op b : is_ising op = false ->
  get_expectation_values shots op b = Err TypeError /\ get_parities shots op = Err TypeError.
Proof. intro H. unfold get_expectation_values, get_parities. rewrite H. split; reflexivity. Qed.

Lemma is_ising_spec op : is_ising op = true <-> Forall (fun t => Forall (fun qp => snd qp = PZ) (snd t)) op.
Proof.
  unfold is_ising, term_is_ising. rewrite forallb_forall, Forall_forall. split; intros H t Ht; specialize (H t Ht).
  - rewrite forallb_forall in H. apply Forall_forall. intros qp Hqp. specialize (H qp Hqp). destruct (snd qp); try discriminate; reflexivity.
  - rewrite forallb_forall. intros qp Hqp. eapply Forall_forall in H; [|exact Hqp]. rewrite H. reflexivity.
Qed.

(* when the value calls succeed, no correlation call can fail (so checking the terms is enough) *)
Lemma symdiff_ok w s t : marked_ok w s = true -> marked_ok w t = true -> marked_ok w (symdiff s t) = true.
Proof.
  unfold marked_ok, symdiff. rewrite !forallb_forall. intros Hs Ht q Hq.
  apply in_app_or in Hq. destruct Hq as [Hq|Hq]; apply filter_In in Hq; [apply Hs|apply Ht]; tauto.
Qed.

Lemma efreq_chk_symdiff s t freq : efreq_chk s freq = None -> efreq_chk t freq = None ->
  efreq_chk (symdiff s t) freq = None.
Proof.
  unfold efreq_chk. destruct freq as [|[k0 c0] freq]; [discriminate|].
  destruct (Nat.eqb (List.length k0) 0); [discriminate|].
  destruct (marked_ok (List.length k0) s) eqn:Es; [|discriminate].
  destruct (marked_ok (List.length k0) t) eqn:Et; [|discriminate].
  intros _ _. rewrite symdiff_ok by assumption. reflexivity.
Qed.

(* successful calls: exactly the inputs with a shot of positive width covering every marked qubit *)
Lemma ev_ok_iff shots op b : op <> [] ->
  ((exists r, expectation_values_ising shots op b = Ok r) <->
   (exists s0 rest, shots = s0 :: rest /\ (0 < List.length s0)%nat /\
      Forall (fun t => Forall (fun q => (q < List.length s0)%nat) (snd t)) op)).
Proof.
  intro Hop. unfold expectation_values_ising. cbv zeta.
  destruct shots as [|s0 rest].
  - split.
    + intros [r H]. destruct op as [|t op]; [congruence|]. cbn in H. discriminate.
    + intros [s [rest [E _]]]. discriminate.
  - assert (Hw : exists c0 fr, get_counts (s0 :: rest) = (s0, c0) :: fr).
    { unfold get_counts. cbn [fold_left add_count].
      assert (G : forall l k c d, exists c' d', fold_left (fun d s => add_count s 1%Z d) l ((k, c) :: d) = (k, c') :: d').
      { induction l as [|x l IHl]; intros k c d; cbn [fold_left]; [eauto|]. cbn [add_count].
        destruct (bits_eqb x k); apply IHl. }
      apply G. }
    destruct Hw as [c0 [fr Hw]]. rewrite Hw. clear Hw.
    assert (Hall : forall ts, first_err (map (fun t : Q * list nat => efreq_chk (snd t) ((s0, c0) :: fr)) ts) = None <->
              (ts = [] \/ ((0 < List.length s0)%nat /\ Forall (fun t : Q * list nat => Forall (fun q => (q < List.length s0)%nat) (snd t)) ts))).
    { induction ts as [|t ts IHt]; cbn [map first_err]; [split; [left; reflexivity|reflexivity]|].
      unfold efreq_chk at 1. destruct (Nat.eqb_spec (List.length s0) 0) as [E0|E0].
      - split; [discriminate|]. intros [E|[Hl _]]; [discriminate|lia].
      - destruct (marked_ok (List.length s0) (snd t)) eqn:Em.
        + rewrite IHt. unfold marked_ok in Em. rewrite forallb_forall in Em. split.
          * intro H. right. split; [lia|]. constructor.
            -- apply Forall_forall. intros q Hq. apply Nat.ltb_lt. apply Em. exact Hq.
            -- destruct H as [E|[_ H]]; [subst; constructor|exact H].
          * intros [E|[Hl H]]; [discriminate|]. inversion H; subst. right. split; assumption.
        + split; [discriminate|]. intros [E|[Hl H]]; [discriminate|]. inversion H as [|? ? Ht Hts]; subst.
          exfalso. assert (marked_ok (List.length s0) (snd t) = true); [|congruence].
          unfold marked_ok. apply forallb_forall. intros q Hq. apply Nat.ltb_lt. eapply Forall_forall in Ht; eauto. }
    split.
    + intros [r H]. exists s0, rest. destruct (first_err _) eqn:E; [discriminate|].
      apply Hall in E. destruct E as [E|[Hl Hf]]; [exfalso; exact (Hop E)|]. repeat split; assumption.
    + intros [s [rest' [E [Hl Hf]]]]. inversion E; subst s rest'.
      assert (E1 : first_err (map (fun t : Q * list nat => efreq_chk (snd t) ((s0, c0) :: fr)) op) = None) by (apply Hall; right; split; assumption).
      rewrite E1. eexists. reflexivity.
Qed.

Lemma ising_accepted shots op b : is_ising op = true ->
  get_expectation_values shots op b = expectation_values_ising shots (to_ising op) b /\
  get_parities shots op = parities_ising shots (to_ising op).
Proof. intro H. unfold get_expectation_values, get_parities. rewrite H. split; reflexivity. Qed.
