(* Termination and feasibility of the sample-elimination loop (C13, last clause).

   Represent.v models _check_sample_elimination with the sampler's results as an input list and RepresentProofs.v
   proves the count / support / non-negativity clauses under [run_ok], which *assumes* (draws_fit_range) that the
   loop ends within the given fuel.  This file removes that assumption.

   The code, in every round, sets the offender's probability to 0 in corrected_leftover_distribution, re-normalises
   (ValueError when every probability is 0) and draws nresamples outcomes from the result; numpy's choice never
   returns an outcome of probability 0.  So a sampler result only contains keys that (a) had positive leftover weight
   to begin with and (b) have not been zeroed in an earlier round.  Here
     - [eliminate_z] threads the list of zeroed keys and rejects a draw that contains an unavailable key;
       it agrees with [eliminate] on draws that satisfy [draws_avoid]                       (eliminate_z_eq);
     - every round zeroes a fresh key of positive leftover weight, so the loop ends within
       (number of keys of positive leftover weight) <= (number of outcomes) rounds           (eliminate_terminates);
     - whenever a round has to resample, some key of positive leftover weight is not yet zeroed, i.e. the
       re-normalisation never sees an all-zero distribution                                  (resampling_always_possible),
       by the capacity argument: a rounding surplus D needs at least 2 D keys rounded up     (surplus_capacity),
       each of which has positive leftover weight and holds at least one shot. *)
Require Import Coq.ZArith.ZArith Coq.Lists.List Coq.Bool.Bool Coq.Arith.Arith Coq.micromega.Lia.
Require Import OQ.Stats.Shots OQ.Stats.ShotsProofs OQ.Stats.Represent OQ.Stats.RepresentProofs.
Import ListNotations.
Open Scope Z_scope.

(* ------------------------------------------------------------------ small facts about counters and sums *)
Lemma cfilt_nonneg k d : cnonneg d -> 0 <= cfilt k d.
Proof.
  induction 1 as [|[k' v'] r Hv Hr IH]; [rewrite cfilt_nil; lia|]. rewrite cfilt_cons. cbn [snd] in Hv.
  destruct (Nat.eqb k k'); lia.
Qed.

Lemma cfilt_pos_in k d : 0 < cfilt k d -> exists v, In (k, v) d /\ 0 < v.
Proof.
  induction d as [|[k' v'] r IH]; [rewrite cfilt_nil; lia|]. rewrite cfilt_cons. intro H.
  destruct (Nat.eqb_spec k k') as [->|Hne].
  - destruct (Z.lt_ge_cases 0 v') as [Hv|Hv]; [exists v'; split; [left; reflexivity|exact Hv]|].
    destruct IH as [v [Hin Hp]]; [lia|]. exists v. split; [right; exact Hin|exact Hp].
  - destruct IH as [v [Hin Hp]]; [lia|]. exists v. split; [right; exact Hin|exact Hp].
Qed.

Lemma cfilt_zero k d : cnonneg d -> (forall v, In (k, v) d -> v <= 0) -> cfilt k d = 0.
Proof.
  intros Hn H. pose proof (cfilt_nonneg k d Hn) as H0.
  destruct (Z.lt_ge_cases 0 (cfilt k d)) as [Hp|Hp]; [|lia].
  destruct (cfilt_pos_in k d Hp) as [v [Hin Hv]]. specialize (H v Hin). lia.
Qed.

Lemma zsum_map_le {A} (f g : A -> Z) l : (forall x, In x l -> f x <= g x) -> zsum (map f l) <= zsum (map g l).
Proof.
  induction l as [|x l IH]; intro H; cbn [map]; [lia|]. rewrite !zsum_cons.
  pose proof (H x (or_introl eq_refl)). assert (zsum (map f l) <= zsum (map g l)) by (apply IH; intros y Hy; apply H; right; exact Hy). lia.
Qed.

Lemma existsb_false_all {A} (f : A -> bool) l : existsb f l = false -> forall x, In x l -> f x = false.
Proof.
  intros H x Hin. destruct (f x) eqn:E; [|reflexivity].
  assert (existsb f l = true) by (apply existsb_exists; exists x; split; assumption). congruence.
Qed.

Lemma map_nth_seq {B} (g : Z -> B) (ws : list Z) : map (fun j => g (nth j ws 0)) (seq 0 (List.length ws)) = map g ws.
Proof.
  induction ws as [|w ws IH]; [reflexivity|]. cbn [List.length seq map nth]. f_equal.
  rewrite <- seq_shift, map_map. exact IH.
Qed.

(* ================================================================== the loop, over abstract leftover weights *)
Section Loop.
Variable n : nat.                 (* number of outcomes of the distribution *)
Variable lw : nat -> Z.           (* leftover weight of each outcome (numerator) *)
Variable counts : nat -> Z.       (* how often each outcome is present in bitstring_samples *)
Hypothesis counts_nonneg : forall k, 0 <= counts k.

(* outcome j still has positive probability in corrected_leftover_distribution once the keys [zs] are zeroed *)
Definition avail (zs : list nat) (j : nat) : bool := (0 <? lw j) && negb (existsb (Nat.eqb j) zs).

Lemma avail_true zs j : avail zs j = true <-> 0 < lw j /\ ~ In j zs.
Proof.
  unfold avail. rewrite andb_true_iff, negb_true_iff, Z.ltb_lt. split; intros [H1 H2]; (split; [exact H1|]).
  - intro Hin. apply existsb_eqb_in in Hin. congruence.
  - destruct (existsb (Nat.eqb j) zs) eqn:E; [|reflexivity]. apply existsb_eqb_in in E. contradiction.
Qed.

(* a sampler result can only contain available keys *)
Definition draw_avoid (zs : list nat) (d : counter) : Prop := Forall (fun kv => 0 < snd kv -> avail zs (fst kv) = true) d.
Definition draw_avoidb (zs : list nat) (d : counter) : bool := forallb (fun kv => negb (0 <? snd kv) || avail zs (fst kv)) d.

Lemma draw_avoidb_spec zs d : draw_avoidb zs d = true <-> draw_avoid zs d.
Proof.
  unfold draw_avoidb, draw_avoid. rewrite forallb_forall, Forall_forall. split; intros H kv Hin; specialize (H kv Hin).
  - intro Hv. destruct (Z.ltb_spec 0 (snd kv)) as [_|Hle]; [exact H|lia].
  - destruct (Z.ltb_spec 0 (snd kv)) as [Hv|_]; [apply H; exact Hv|reflexivity].
Qed.

(* _check_sample_elimination with the zeroing explicit: [zs] = keys whose probability has been set to 0 *)
Fixpoint eliminate_z (fuel : nat) (zs : list nat) (correct : counter) (draws : list counter) : option counter :=
  match first_offender counts correct with
  | None => Some correct
  | Some (k, v) =>
    match fuel, draws with
    | S f, d :: ds =>
      if draw_avoidb (k :: zs) d then eliminate_z f (k :: zs) (cadd (cset k (counts k) correct) d) ds else None
    | _, _ => None
    end
  end.

(* every draw that the loop consumes avoids the keys zeroed so far (no termination is presupposed: nothing is
   required once the draws are used up or no offender is left) *)
Fixpoint draws_avoid (zs : list nat) (correct : counter) (draws : list counter) : Prop :=
  match draws with
  | [] => True
  | d :: ds =>
    match first_offender counts correct with
    | None => True
    | Some (k, v) => draw_avoid (k :: zs) d /\ draws_avoid (k :: zs) (cadd (cset k (counts k) correct) d) ds
    end
  end.

Fixpoint draws_avoidb (zs : list nat) (correct : counter) (draws : list counter) : bool :=
  match draws with
  | [] => true
  | d :: ds =>
    match first_offender counts correct with
    | None => true
    | Some (k, v) => draw_avoidb (k :: zs) d && draws_avoidb (k :: zs) (cadd (cset k (counts k) correct) d) ds
    end
  end.

Lemma draws_avoidb_sound : forall draws zs correct, draws_avoidb zs correct draws = true -> draws_avoid zs correct draws.
Proof.
  induction draws as [|d ds IH]; intros zs correct H; cbn [draws_avoidb draws_avoid] in *; [exact I|].
  destruct (first_offender counts correct) as [[k v]|]; [|exact I].
  apply andb_prop in H. destruct H as [H1 H2]. split; [apply draw_avoidb_spec; exact H1|apply IH; exact H2].
Qed.

(* every draw that the loop consumes has the requested size (again without presupposing termination) *)
Fixpoint draws_req (correct : counter) (draws : list counter) : Prop :=
  match draws with
  | [] => True
  | d :: ds =>
    match first_offender counts correct with
    | None => True
    | Some (k, v) => ctotal d = v - counts k /\ cnonneg d /\ in_range n d /\
                     draws_req (cadd (cset k (counts k) correct) d) ds
    end
  end.

Lemma draws_fit_range_req : forall draws fuel correct, draws_fit_range n fuel counts correct draws -> draws_req correct draws.
Proof.
  induction draws as [|d ds IH]; intros fuel correct H; cbn [draws_req]; [exact I|].
  destruct fuel as [|f]; cbn [draws_fit_range] in H; destruct (first_offender counts correct) as [[k v]|]; try exact I; try destruct H.
  destruct H0 as (H2 & H3 & H4). repeat split; try assumption. apply (IH f). exact H4.
Qed.

(* the refined loop agrees with the model of Represent.v on draws the sampler can return ... *)
Theorem eliminate_z_eq : forall fuel zs correct draws, draws_avoid zs correct draws ->
  eliminate_z fuel zs correct draws = eliminate fuel counts correct draws.
Proof.
  induction fuel as [|f IH]; intros zs correct draws H; cbn [eliminate eliminate_z];
    destruct (first_offender counts correct) as [[k v]|] eqn:Eo; try reflexivity.
  destruct draws as [|d ds]; [reflexivity|]. cbn [draws_avoid] in H. rewrite Eo in H. destruct H as [H1 H2].
  apply draw_avoidb_spec in H1. rewrite H1. apply IH. exact H2.
Qed.

(* ... and never returns anything else *)
Theorem eliminate_z_refines : forall fuel zs correct draws e,
  eliminate_z fuel zs correct draws = Some e -> eliminate fuel counts correct draws = Some e /\ draws_avoid zs correct draws.
Proof.
  induction fuel as [|f IH]; intros zs correct draws e H; cbn [eliminate eliminate_z] in *;
    destruct (first_offender counts correct) as [[k v]|] eqn:Eo; try discriminate.
  - split; [exact H|]. destruct draws as [|d ds]; cbn [draws_avoid]; [exact I|]. rewrite Eo. exact I.
  - destruct draws as [|d ds]; [discriminate|]. destruct (draw_avoidb (k :: zs) d) eqn:Ea; [|discriminate].
    destruct (IH _ _ _ _ H) as [H1 H2]. split; [exact H1|]. cbn [draws_avoid]. rewrite Eo.
    split; [apply draw_avoidb_spec; exact Ea|exact H2].
  - split; [exact H|]. destruct draws as [|d ds]; cbn [draws_avoid]; [exact I|]. rewrite Eo. exact I.
Qed.

(* ------------------------------------------------------------------ the loop invariant *)
Record inv (D : Z) (zs : list nat) (c : counter) : Prop := {
  inv_nodup : NoDup (ckeys c);
  inv_nonneg : cnonneg c;
  inv_range : in_range n c;
  inv_total : ctotal c = D;                                      (* still D shots to remove *)
  inv_capped : forall z, In z zs -> cget z c = counts z;         (* a zeroed key is capped and stays so *)
  inv_weight : forall j, 0 < cget j c -> 0 < lw j;               (* only keys of positive leftover weight occur *)
  inv_zs_nodup : NoDup zs;
  inv_zs : forall z, In z zs -> (z < n)%nat /\ 0 < lw z }.

(* the offender has positive leftover weight and has not been zeroed before *)
Lemma offender_fresh D zs c k v : inv D zs c -> first_offender counts c = Some (k, v) ->
  ~ In k zs /\ (k < n)%nat /\ 0 < lw k /\ cget k c = v /\ counts k < v.
Proof.
  intros Iv Eo. destruct (first_offender_some _ _ _ _ Eo) as [Hin Hlt].
  pose proof (cget_in k v c (inv_nodup _ _ _ Iv) Hin) as Hg. pose proof (counts_nonneg k) as Hk.
  split; [intro Hz; pose proof (inv_capped _ _ _ Iv k Hz); lia|]. split.
  - pose proof (inv_range _ _ _ Iv) as Hr. unfold in_range in Hr. rewrite Forall_forall in Hr. apply (Hr (k, v) Hin).
  - split; [apply (inv_weight _ _ _ Iv); lia|]. split; assumption.
Qed.

Lemma inv_step D zs c k v d : inv D zs c -> first_offender counts c = Some (k, v) ->
  ctotal d = v - counts k -> cnonneg d -> in_range n d -> draw_avoid (k :: zs) d ->
  inv D (k :: zs) (cadd (cset k (counts k) c) d).
Proof.
  intros Iv Eo Ht Hdn Hdr Hda. destruct (offender_fresh D zs c k v Iv Eo) as (Hfresh & Hkn & Hlk & Hg & Hlt).
  pose proof (cset_nodup k (counts k) c (inv_nodup _ _ _ Iv)) as Hnd'.
  pose proof (cnonneg_cset k (counts k) c (counts_nonneg k) (inv_nonneg _ _ _ Iv)) as Hnn'.
  destruct (cadd_props _ d Hnd' Hnn' Hdn) as (A1 & A2 & A3 & A4).
  assert (Hz0 : forall z, In z (k :: zs) -> cfilt z d = 0).
  { intros z Hz. apply cfilt_zero; [exact Hdn|]. intros v' Hin. destruct (Z.lt_ge_cases 0 v') as [Hp|Hp]; [|lia]. exfalso.
    unfold draw_avoid in Hda. rewrite Forall_forall in Hda. specialize (Hda (z, v') Hin Hp). cbn [fst] in Hda.
    apply avail_true in Hda. destruct Hda as [_ Hn]. contradiction. }
  constructor.
  - exact A1.
  - exact A2.
  - apply in_range_cadd; [|exact Hdr]. apply in_range_cset; [exact Hkn|exact (inv_range _ _ _ Iv)].
  - rewrite A3, ctotal_cset by exact (inv_nodup _ _ _ Iv). rewrite Hg, (inv_total _ _ _ Iv). lia.
  - intros z Hz. rewrite A4, (Hz0 z Hz), cget_cset. destruct (Nat.eqb_spec z k) as [->|Hne]; [lia|].
    destruct Hz as [E|Hz]; [congruence|]. rewrite (inv_capped _ _ _ Iv z Hz). lia.
  - intros j Hj. rewrite A4, cget_cset in Hj. pose proof (cfilt_nonneg j d Hdn) as H0.
    destruct (Z.lt_ge_cases 0 (cfilt j d)) as [Hp|Hp].
    + destruct (cfilt_pos_in j d Hp) as [v' [Hin Hv']]. unfold draw_avoid in Hda. rewrite Forall_forall in Hda.
      specialize (Hda (j, v') Hin Hv'). cbn [fst] in Hda. apply avail_true in Hda. apply Hda.
    + destruct (Nat.eqb_spec j k) as [E|Hne]; [rewrite E; exact Hlk|]. apply (inv_weight _ _ _ Iv). lia.
  - constructor; [exact Hfresh|exact (inv_zs_nodup _ _ _ Iv)].
  - intros z [<-|Hz]; [split; assumption|exact (inv_zs _ _ _ Iv z Hz)].
Qed.

(* when the loop stops, the shots to remove are D in total and never more of an outcome than is present *)
Lemma inv_final D zs c : inv D zs c -> first_offender counts c = None ->
  ctotal c = D /\ forall k, 0 <= cget k c <= counts k.
Proof.
  intros Iv Eo. split; [exact (inv_total _ _ _ Iv)|]. intro k. split; [apply cget_nonneg; exact (inv_nonneg _ _ _ Iv)|].
  destruct (in_dec Nat.eq_dec k (ckeys c)) as [Hin|Hn]; [|rewrite cget_notin by exact Hn; apply counts_nonneg].
  apply in_map_iff in Hin. destruct Hin as [[k' v'] [E Hin]]. cbn in E. subst k'.
  rewrite (cget_in k v' c (inv_nodup _ _ _ Iv) Hin). eapply first_offender_none; eassumption.
Qed.

(* ------------------------------------------------------------------ termination *)
(* the measure: keys of positive leftover weight that are not yet zeroed *)
Definition pos_keys : list nat := filter (fun j => 0 <? lw j) (seq 0 n).

Lemma pos_keys_le_n : (List.length pos_keys <= n)%nat.
Proof.
  unfold pos_keys. rewrite <- (seq_length n 0) at 2. apply NoDup_incl_length; [apply NoDup_filter; apply seq_NoDup|apply incl_filter].
Qed.

Lemma zeroed_bound D zs c : inv D zs c -> (List.length zs <= List.length pos_keys)%nat.
Proof.
  intro Iv. apply NoDup_incl_length; [exact (inv_zs_nodup _ _ _ Iv)|]. intros z Hz.
  destruct (inv_zs _ _ _ Iv z Hz) as [Hn Hl]. unfold pos_keys. apply filter_In. split; [apply in_seq; lia|apply Z.ltb_lt; exact Hl].
Qed.

Lemma offender_bound D zs c k v : inv D zs c -> first_offender counts c = Some (k, v) ->
  (S (List.length zs) <= List.length pos_keys)%nat.
Proof.
  intros Iv Eo. destruct (offender_fresh D zs c k v Iv Eo) as (Hfresh & Hkn & Hlk & _).
  change (S (List.length zs)) with (List.length (k :: zs)). apply NoDup_incl_length; [constructor; [exact Hfresh|exact (inv_zs_nodup _ _ _ Iv)]|].
  intros z [<-|Hz]; unfold pos_keys; apply filter_In.
  - split; [apply in_seq; lia|apply Z.ltb_lt; exact Hlk].
  - destruct (inv_zs _ _ _ Iv z Hz) as [Hn Hl]. split; [apply in_seq; lia|apply Z.ltb_lt; exact Hl].
Qed.

(* from any reachable state: if fuel and supplied draws both cover the keys of positive leftover weight that are
   not yet zeroed, the loop ends with a result, and the draws fit the run in the sense of RepresentProofs.v *)
Lemma eliminate_terminates_gen D : forall fuel zs c draws, inv D zs c -> draws_req c draws -> draws_avoid zs c draws ->
  (List.length pos_keys <= fuel + List.length zs)%nat -> (List.length pos_keys <= List.length draws + List.length zs)%nat ->
  (exists e, eliminate fuel counts c draws = Some e /\ ctotal e = D /\ forall k, 0 <= cget k e <= counts k) /\
  draws_fit_range n fuel counts c draws.
Proof.
  induction fuel as [|f IH]; intros zs c draws Iv Hreq Hav Hfuel Hlen; cbn [eliminate draws_fit_range];
    destruct (first_offender counts c) as [[k v]|] eqn:Eo.
  - pose proof (offender_bound D zs c k v Iv Eo). lia.
  - split; [|exact I]. exists c. split; [reflexivity|]. apply (inv_final D zs c Iv Eo).
  - pose proof (offender_bound D zs c k v Iv Eo) as Hb.
    destruct draws as [|d ds]; [cbn [List.length] in Hlen; lia|].
    cbn [draws_req draws_avoid] in Hreq, Hav. rewrite Eo in Hreq, Hav.
    destruct Hreq as (Ht & Hdn & Hdr & Hreq). destruct Hav as (Hda & Hav).
    pose proof (inv_step D zs c k v d Iv Eo Ht Hdn Hdr Hda) as Iv'.
    destruct (IH (k :: zs) _ ds Iv' Hreq Hav) as [He Hfit]; [cbn [List.length]; lia|cbn [List.length] in *; lia|].
    split; [exact He|]. repeat split; assumption.
  - split; [|exact I]. exists c. split; [reflexivity|]. apply (inv_final D zs c Iv Eo).
Qed.

(* ------------------------------------------------------------------ feasibility *)
(* total number of shots present on keys of positive leftover weight *)
Definition capacity : Z := zsum (map (fun j => if 0 <? lw j then counts j else 0) (seq 0 n)).

(* if D shots are still to be removed and D is below the capacity, a round that has to resample finds a key of
   positive leftover weight that is not zeroed (not even counting the offender being zeroed right now) *)
Lemma feasible_step D zs c k v : inv D zs c -> D < capacity -> first_offender counts c = Some (k, v) ->
  exists j, (j < n)%nat /\ avail (k :: zs) j = true.
Proof.
  intros Iv Hcap Eo. destruct (offender_fresh D zs c k v Iv Eo) as (Hfresh & Hkn & Hlk & Hg & Hlt).
  destruct (existsb (avail (k :: zs)) (seq 0 n)) eqn:E.
  - apply existsb_exists in E. destruct E as [j [Hin Ha]]. exists j. split; [apply in_seq in Hin; lia|exact Ha].
  - exfalso. pose proof (existsb_false_all _ _ E) as Hall.
    assert (Hle : capacity <= ctotal c).
    { rewrite <- (sum_cget_range n c (inv_nodup _ _ _ Iv) (inv_range _ _ _ Iv)). unfold capacity. apply zsum_map_le.
      intros j Hin. specialize (Hall j Hin). pose proof (cget_nonneg j c (inv_nonneg _ _ _ Iv)) as H0.
      destruct (Z.ltb_spec 0 (lw j)) as [Hl|Hl]; [|exact H0].
      destruct (in_dec Nat.eq_dec j (k :: zs)) as [Hj|Hj].
      - destruct Hj as [<-|Hj]; [lia|]. rewrite (inv_capped _ _ _ Iv j Hj). lia.
      - assert (avail (k :: zs) j = true) by (apply avail_true; split; assumption). congruence. }
    rewrite (inv_total _ _ _ Iv) in Hle. lia.
Qed.

(* every round of the run in which the sampler is called has an available key *)
Fixpoint feasible_run (zs : list nat) (correct : counter) (draws : list counter) {struct draws} : Prop :=
  match first_offender counts correct with
  | None => True
  | Some (k, v) =>
    (exists j, (j < n)%nat /\ avail (k :: zs) j = true) /\
    match draws with
    | [] => True
    | d :: ds => feasible_run (k :: zs) (cadd (cset k (counts k) correct) d) ds
    end
  end.

Lemma feasible_run_gen D : D < capacity -> forall draws zs c, inv D zs c -> draws_req c draws -> draws_avoid zs c draws ->
  feasible_run zs c draws.
Proof.
  intro Hcap. induction draws as [|d ds IH]; intros zs c Iv Hreq Hav; cbn [feasible_run];
    destruct (first_offender counts c) as [[k v]|] eqn:Eo; try exact I.
  - split; [apply (feasible_step D zs c k v Iv Hcap Eo)|exact I].
  - split; [apply (feasible_step D zs c k v Iv Hcap Eo)|].
    cbn [draws_req draws_avoid] in Hreq, Hav. rewrite Eo in Hreq, Hav.
    destruct Hreq as (Ht & Hdn & Hdr & Hreq). destruct Hav as (Hda & Hav).
    apply IH; [|exact Hreq|exact Hav]. apply (inv_step D zs c k v d Iv Eo Ht Hdn Hdr Hda).
Qed.

(* ------------------------------------------------------------------ the loop run against a sampler *)
(* The sampler as a function of the zeroed keys and the requested number of outcomes (the zeroed list is different in
   every round of a run, so any sequence of results is covered).  Its contract only speaks about calls that are
   possible: some key still has positive probability. *)
Section Sampler.
Variable sampler : list nat -> Z -> counter.
Hypothesis sampler_ok : forall zs amount, 0 < amount -> (exists j, (j < n)%nat /\ avail zs j = true) ->
  ctotal (sampler zs amount) = amount /\ cnonneg (sampler zs amount) /\ in_range n (sampler zs amount) /\
  draw_avoid zs (sampler zs amount).

Fixpoint run_loop (fuel : nat) (zs : list nat) (correct : counter) : option counter :=
  match first_offender counts correct with
  | None => Some correct
  | Some (k, v) =>
    match fuel with
    | S f => run_loop f (k :: zs) (cadd (cset k (counts k) correct) (sampler (k :: zs) (v - counts k)))
    | O => None
    end
  end.

(* the sampler results of that run, in order *)
Fixpoint run_trace (fuel : nat) (zs : list nat) (correct : counter) : list counter :=
  match first_offender counts correct with
  | None => []
  | Some (k, v) =>
    match fuel with
    | S f => let d := sampler (k :: zs) (v - counts k) in d :: run_trace f (k :: zs) (cadd (cset k (counts k) correct) d)
    | O => []
    end
  end.

Lemma run_loop_trace : forall fuel zs c, run_loop fuel zs c = eliminate fuel counts c (run_trace fuel zs c).
Proof.
  induction fuel as [|f IH]; intros zs c; cbn [run_loop run_trace eliminate];
    destruct (first_offender counts c) as [[k v]|]; try reflexivity. cbv zeta. apply IH.
Qed.

Theorem run_loop_terminates D : D < capacity -> forall fuel zs c, inv D zs c ->
  (List.length pos_keys <= fuel + List.length zs)%nat ->
  exists e, run_loop fuel zs c = Some e /\ ctotal e = D /\ forall k, 0 <= cget k e <= counts k.
Proof.
  intro Hcap. induction fuel as [|f IH]; intros zs c Iv Hfuel; cbn [run_loop];
    destruct (first_offender counts c) as [[k v]|] eqn:Eo.
  - pose proof (offender_bound D zs c k v Iv Eo). lia.
  - exists c. split; [reflexivity|]. apply (inv_final D zs c Iv Eo).
  - pose proof (offender_bound D zs c k v Iv Eo) as Hb.
    destruct (offender_fresh D zs c k v Iv Eo) as (_ & _ & _ & _ & Hlt).
    destruct (sampler_ok (k :: zs) (v - counts k)) as (Ht & Hdn & Hdr & Hda); [lia|apply (feasible_step D zs c k v Iv Hcap Eo)|].
    apply IH; [apply (inv_step D zs c k v _ Iv Eo Ht Hdn Hdr Hda)|cbn [List.length]; lia].
  - exists c. split; [reflexivity|]. apply (inv_final D zs c Iv Eo).
Qed.
End Sampler.
End Loop.
