(* Model of the shot bookkeeping (property C13): circuits/_itertools.py, utils.scale_and_discretize.
   [expand_sample_size] itself is generated from the source (Gen/ExpandGen.v). *)
Require Import Coq.ZArith.ZArith Coq.Lists.List Coq.Strings.String Coq.Bool.Bool.
Require Import OQ.Gen.ExpandGen.
Import ListNotations.
Open Scope Z_scope.

Definition zsum (l : list Z) : Z := fold_right Z.add 0 l.

(* expand_sample_sizes: per-circuit (chunks, multiplicity); zip truncates like Python's *)
Definition expand_sample_sizes {A} (circuits : list A) (ns : list Z) (m : Z)
  : list A * list Z * list Z :=
  let nm := map (fun n => expand_sample_size n m) ns in
  let new_n := flat_map fst nm in
  let mults := map snd nm in
  let new_c := flat_map (fun cm => repeat (fst cm) (Z.to_nat (snd cm))) (combine circuits mults) in
  (new_c, new_n, mults).

(* the shared islice iterator of combine_bitstrings / combine_measurement_counts *)
Fixpoint regroup {A} (xs : list A) (mults : list nat) : list (list A) :=
  match mults with
  | [] => []
  | k :: ms => firstn k xs :: regroup (skipn k xs) ms
  end.

Definition combine_bitstrings {A} (all : list (list A)) (mults : list Z) : option (list (list A)) :=
  if Z.eqb (Z.of_nat (List.length all)) (zsum mults)
  then if forallb (fun k => 0 <=? k) mults
       then Some (map (@List.concat A) (regroup all (map Z.to_nat mults)))
       else None                               (* islice(it, k) with k < 0: ValueError *)
  else None.                                   (* ValueError *)

(* counts dictionaries in insertion order *)
Definition counts := list (string * Z).
Fixpoint add_count (k : string) (c : Z) (d : counts) : counts :=
  match d with
  | [] => [(k, c)]
  | (k', c') :: r => if String.eqb k k' then (k', c' + c) :: r else (k', c') :: add_count k c r
  end.
Definition combine2 (a b : counts) : counts :=
  fold_left (fun acc kc => add_count (fst kc) (snd kc) acc) b a.
Definition combine_group (g : list counts) : option counts :=
  match g with
  | [] => None                                 (* reduce() of an empty sequence: TypeError *)
  | m :: ms => Some (fold_left combine2 ms m)
  end.
Fixpoint all_some {A} (l : list (option A)) : option (list A) :=
  match l with
  | [] => Some []
  | None :: _ => None
  | Some x :: r => match all_some r with Some xs => Some (x :: xs) | None => None end
  end.
Definition combine_measurement_counts (all : list counts) (mults : list Z) : option (list counts) :=
  if Z.eqb (Z.of_nat (List.length all)) (zsum mults)
  then all_some (map combine_group (regroup all (map Z.to_nat mults)))
  else None.
Definition count_of (k : string) (d : counts) : Z :=
  zsum (map snd (filter (fun kc => String.eqb k (fst kc)) d)).
Definition total (d : counts) : Z := zsum (map snd d).

(* _iterate_in_batches / split_into_batches *)
Fixpoint chunks {A} (fuel : nat) (k : nat) (xs : list A) : list (list A) :=
  match fuel with
  | O => []
  | S f => match xs with
           | [] => []
           | _ => firstn k xs :: chunks f k (skipn k xs)
           end
  end.
Definition zmax_list (l : list Z) : Z :=
  match l with [] => 0 | x :: r => fold_left Z.max r x end.
Definition split_into_batches {A} (circuits : list A) (ns : list Z) (k : Z)
  : option (list (list A * Z)) :=
  if negb (Nat.eqb (List.length circuits) (List.length ns)) then None
  else if Z.leb k 0 then None
  else Some (combine (chunks (List.length circuits) (Z.to_nat k) circuits)
                     (map zmax_list (chunks (List.length ns) (Z.to_nat k) ns))).

(* scale_and_discretize with integer weights ws (sum S > 0) and integer total T:
   floor(w*T/S), then +1 on the first (T - sum floors) indices of [order]
   ([order] = np.argsort(remainders)[::-1], any duplicate-free index list in the theorems). *)
Definition bump (order : list nat) (k : nat) (i : nat) : Z :=
  if existsb (Nat.eqb i) (firstn k order) then 1 else 0.
Definition scale_and_discretize (ws : list Z) (T : Z) (order : list nat) : list Z :=
  let S := zsum ws in
  let floors := map (fun w => (w * T) / S) ws in
  let k := Z.to_nat (T - zsum floors) in
  map (fun iw => snd iw + bump order k (fst iw)) (combine (seq 0 (List.length ws)) floors).
Definition remainders (ws : list Z) (T : Z) : list Z :=
  let S := zsum ws in map (fun w => (w * T) mod S) ws.
