(* C17: the definitions GENERATED from distributions/_measurement_outcome_distribution.py (Gen/DistributionsGen.v,
   translator tr/tr_distributions.py) agree with the hand-written model Stats/Dist.v that the C17 theorems are
   about.  Re-checked on every run against the freshly generated text.

   The model's values are embedded into the Python values of Stats/DistTrSupport.v:
     ekey / pkey      a key (list of naturals)   ->  the tuple of those ints
     edist            a dist                     ->  the dict with those tuple keys, same order, same values
     eraw             a raw dictionary           ->  the dict with str / tuple keys
     eres             Ok d / Err e               ->  Ret (edist d) / Raise <the exception of that name>
   Numbers are Q on both sides.  Where the Python code adds the values up in another order than the model
   (sum() starts from the left) the results agree up to == on the values: [req].

     preprocess_gen_eq                  preprocess_distibution_dict      = preprocess               (all raw dicts)
     preprocess_gen_other_key           ... a key that is neither str nor tuple: RuntimeError
     is_non_negative_gen_eq, is_key_length_fixed_gen_eq, are_keys_gen_eq, are_keys_gen_tuples
     is_mod_gen_eq                      is_measurement_outcome_distribution = valid
     is_mod_gen_bad_entry               ... a negative / non-int tuple entry: False (outside the model)
     is_normalized_gen_eq               is_normalized                    = close1 o mass
     normalize_gen_eq                   normalize_measurement_outcome_distribution ~ normalize_dict   (distinct keys)
     init_gen_eq / init_gen_make_eq     __init__ ~ make_raw / make       (all raw dicts / distinct keys)
     save_gen_eq                        change_tuple_dict_keys_to_comma_separated_integers = save  (distinct keys)
     sub_gen_eq                         subdistribution ~ fst o subdistribution  (keys of one length: the class invariant)

   The proofs refer to the generated definitions only by the names derived from the FUNCTION names; names of
   Python locals do not occur. *)
Require Import Coq.ZArith.ZArith Coq.QArith.QArith Coq.QArith.Qabs Coq.micromega.Lia Coq.micromega.Lqa.
Require Import Coq.Lists.List Coq.Strings.String Coq.Strings.Ascii Coq.Bool.Bool Coq.Setoids.Setoid.
Require Import Coq.Init.Decimal Coq.Numbers.DecimalString Coq.Numbers.DecimalNat.
Require Import OQ.Stats.Dist OQ.Stats.DistProofs OQ.Stats.DistTrSupport OQ.Gen.DistributionsGen.
Import ListNotations.
Open Scope Q_scope.

(* ------------------------------------------------------------------ embeddings *)
Definition eelt (n : nat) : pyelt := PEInt (Z.of_nat n).
Definition ekey (k : key) : list pyelt := map eelt k.
Definition pkey (k : key) : pykey := PKTup (ekey k).
Definition edist (d : dist) : pydict num_Q := map (fun kv => (pkey (fst kv), snd kv)) d.
Definition erawkey (k : rawkey) : pykey := match k with KStr s => PKStr s | KTup k => pkey k end.
Definition eraw (r : raw) : pydict num_Q := map (fun kv => (erawkey (fst kv), snd kv)) r.
Definition eerr (e : err) : pyexn :=
  match e with RuntimeErr => RuntimeError | ValueErr => ValueError | IndexErr => IndexError end.
Definition eres (r : res dist) : result (pydict num_Q) :=
  match r with Ok d => Ret (edist d) | Err e => Raise (eerr e) end.

(* equality up to == on the values *)
Definition deq (a b : pydict num_Q) : Prop := Forall2 (fun x y => fst x = fst y /\ snd x == snd y) a b.
Definition req (a b : result (pydict num_Q)) : Prop :=
  match a, b with
  | Ret x, Ret y => deq x y
  | Raise e, Raise f => e = f
  | _, _ => False
  end.

Lemma deq_refl a : deq a a.
Proof. induction a as [|x r IH]; constructor; [split; reflexivity|exact IH]. Qed.
Lemma req_refl a : req a a.
Proof. destruct a; cbn; [apply deq_refl|reflexivity]. Qed.
Lemma req_of_eq a b : a = b -> req a b.
Proof. intros ->. apply req_refl. Qed.

(* sys.float_info.min as read by the translator's support file is the model's constant *)
Lemma float_min_eq : py_float_min = float_min.
Proof. reflexivity. Qed.

(* ------------------------------------------------------------------ booleans over Q respect == *)
Lemma Qle_bool_wd a b c d : a == b -> c == d -> Qle_bool a c = Qle_bool b d.
Proof.
  intros H1 H2. apply eq_true_iff_eq. rewrite !Qle_bool_iff. rewrite H1, H2. reflexivity.
Qed.
Lemma Qeq_bool_wd a b c d : a == b -> c == d -> Qeq_bool a c = Qeq_bool b d.
Proof.
  intros H1 H2. apply eq_true_iff_eq. rewrite !Qeq_bool_iff. rewrite H1, H2. reflexivity.
Qed.

(* ------------------------------------------------------------------ keys *)
Lemma pytup_eqb_ekey a b : pytup_eqb (ekey a) (ekey b) = key_eqb a b.
Proof.
  revert b. induction a as [|x a IH]; intros [|y b]; cbn; try reflexivity.
  rewrite IH. f_equal. destruct (Nat.eqb_spec x y) as [->|Hne].
  - apply Z.eqb_refl.
  - apply Z.eqb_neq. lia.
Qed.
Lemma pykey_eqb_pkey a b : pykey_eqb (pkey a) (pkey b) = key_eqb a b.
Proof. apply pytup_eqb_ekey. Qed.

Lemma pyelt_eqb_eq a b : pyelt_eqb a b = true <-> a = b.
Proof.
  destruct a, b; cbn; try (split; [discriminate|intro H; discriminate H]).
  - rewrite Z.eqb_eq. split; [intros ->; reflexivity|intro H; injection H; auto].
  - rewrite String.eqb_eq. split; [intros ->; reflexivity|intro H; injection H; auto].
Qed.
Lemma pytup_eqb_eq a b : pytup_eqb a b = true <-> a = b.
Proof.
  revert b. induction a as [|x a IH]; intros [|y b]; cbn; try (split; [discriminate|intro H; discriminate H]).
  - split; reflexivity.
  - rewrite andb_true_iff, pyelt_eqb_eq, IH. split; [intros [-> ->]; reflexivity|intro H; injection H; auto].
Qed.
Lemma pykey_eqb_eq a b : pykey_eqb a b = true <-> a = b.
Proof.
  destruct a, b; cbn; try (split; [discriminate|intro H; discriminate H]).
  - rewrite String.eqb_eq. split; [intros ->; reflexivity|intro H; injection H; auto].
  - rewrite pytup_eqb_eq. split; [intros ->; reflexivity|intro H; injection H; auto].
  - rewrite Z.eqb_eq. split; [intros ->; reflexivity|intro H; injection H; auto].
Qed.
Lemma pykey_eqb_refl a : pykey_eqb a a = true.
Proof. apply pykey_eqb_eq. reflexivity. Qed.
Lemma pykey_eqb_neq a b : a <> b -> pykey_eqb a b = false.
Proof. intro H. destruct (pykey_eqb a b) eqn:E; [|reflexivity]. apply pykey_eqb_eq in E. contradiction. Qed.

(* ------------------------------------------------------------------ dictionaries *)
Lemma set_edist d k v : py_dict_set (N:=num_Q) (edist d) (pkey k) v = edist (dset k v d).
Proof.
  induction d as [|[k1 v1] r IH]; [reflexivity|].
  cbn [edist map fst snd py_dict_set dset]. rewrite pykey_eqb_pkey, key_eqb_sym.
  destruct (key_eqb k k1); [reflexivity|]. cbn [map fst snd]. f_equal. exact IH.
Qed.

Lemma lookup_edist d k : py_dict_lookup (N:=num_Q) (edist d) (pkey k) = dget k d.
Proof.
  induction d as [|[k1 v1] r IH]; [reflexivity|].
  cbn [edist map fst snd py_dict_lookup dget]. rewrite pykey_eqb_pkey, key_eqb_sym.
  destruct (key_eqb k k1); [reflexivity|]. exact IH.
Qed.

Lemma keys_edist d : py_keys (edist d) = map pkey (map fst d).
Proof. unfold py_keys, edist. rewrite !map_map. reflexivity. Qed.
Lemma values_edist d : py_values (edist d) = map snd d.
Proof. unfold py_values, edist. rewrite map_map. reflexivity. Qed.

Lemma edist_app a b : edist (a ++ b) = edist a ++ edist b.
Proof. apply map_app. Qed.

(* ------------------------------------------------------------------ strings *)
Lemma chars_eq s : py_str_chars s = chars s.
Proof. induction s as [|c r IH]; cbn; [reflexivity|rewrite IH; reflexivity]. Qed.
Lemma contains_comma s : py_str_contains s ","%char = has_comma s.
Proof. induction s as [|c r IH]; cbn; [reflexivity|rewrite IH; reflexivity]. Qed.
Lemma split_comma s : py_split s ","%char = split s.
Proof.
  induction s as [|c r IH]; [reflexivity|]. cbn [py_split split]. rewrite IH. reflexivity.
Qed.

Lemma int_of_str_read s :
  py_int_of_str s = match read_nat s with Some n => Ret (Z.of_nat n) | None => Raise ValueError end.
Proof.
  unfold py_int_of_str, read_nat. destruct s as [|c r]; [reflexivity|].
  destruct (NilEmpty.uint_of_string (String c r)); reflexivity.
Qed.

Lemma map_res_int l :
  py_map_res py_int_of_str l =
  match all_some (map read_nat l) with Some k => Ret (map Z.of_nat k) | None => Raise ValueError end.
Proof.
  induction l as [|s r IH]; [reflexivity|].
  cbn [py_map_res map all_some]. rewrite int_of_str_read. destruct (read_nat s) as [n|]; [|reflexivity].
  cbn [bind]. rewrite IH. destruct (all_some (map read_nat r)); reflexivity.
Qed.

Lemma tuple_of_ints_ekey k : py_tuple_of_ints (map Z.of_nat k) = ekey k.
Proof. unfold py_tuple_of_ints, ekey, eelt. rewrite map_map. reflexivity. Qed.

(* ------------------------------------------------------------------ preprocess_distibution_dict *)
Lemma for_raise {A S} (xs : list A) (st : S) (body : A -> S -> result S) x e :
  body x st = Raise e -> py_for (x :: xs) st body = Raise e.
Proof. intro H. cbn [py_for]. rewrite H. reflexivity. Qed.

Theorem preprocess_gen_eq r : preprocess_distibution_dict_gen num_Q (eraw r) = eres (preprocess r).
Proof.
  unfold preprocess_distibution_dict_gen, preprocess, py_items, py_dict_empty. cbv zeta.
  change (@nil (pykey * num num_Q)) with (edist []).
  generalize (@nil (key * Q)) as acc. induction r as [|[k v] r IH]; intro acc.
  - cbn. reflexivity.
  - cbn [eraw map fst snd py_for fold_left]. fold (eraw r).
    destruct k as [s|k]; cbn [erawkey pre_step fst snd rawkey_read].
    + unfold key_read. rewrite map_res_int, contains_comma, chars_eq, split_comma.
      replace (if negb (has_comma s) then chars s else split s) with (if has_comma s then split s else chars s)
        by (destruct (has_comma s); reflexivity).
      destruct (all_some (map read_nat (if has_comma s then split s else chars s))) as [k|]; cbn [bind].
      * rewrite tuple_of_ints_ekey. change (PKTup (ekey k)) with (pkey k). rewrite (set_edist acc k v). apply IH.
      * rewrite pre_step_err. reflexivity.
    + unfold pkey. cbn [bind]. change (PKTup (ekey k)) with (pkey k).
      rewrite (set_edist acc k v). apply IH.
Qed.

Lemma for_app {A S} (xs ys : list A) (st : S) (body : A -> S -> result S) :
  py_for (xs ++ ys) st body = bind (py_for xs st body) (fun st' => py_for ys st' body).
Proof.
  revert st. induction xs as [|x xs IH]; intro st; [reflexivity|].
  simpl. destruct (body x st) as [st1|e]; simpl; [apply IH|reflexivity].
Qed.
Lemma bind_ret {A} (x : result A) : bind x (fun a => Ret a) = x.
Proof. destruct x; reflexivity. Qed.

(* a key that is neither a str nor a tuple (represented by an int key), after a readable prefix *)
Theorem preprocess_gen_other_key r z v rest :
  preprocess_distibution_dict_gen num_Q (eraw r ++ (PKInt z, v) :: rest) =
  match preprocess r with Ok _ => Raise RuntimeError | Err e => Raise (eerr e) end.
Proof.
  pose proof (preprocess_gen_eq r) as H. revert H.
  unfold preprocess_distibution_dict_gen, py_items, py_dict_empty. cbv zeta.
  rewrite for_app, !bind_ret. intros ->.
  destruct (preprocess r); reflexivity.
Qed.

(* ------------------------------------------------------------------ the predicates *)
Lemma forallb_map {A B} (f : B -> bool) (g : A -> B) l : forallb f (map g l) = forallb (fun a => f (g a)) l.
Proof. induction l as [|a r IH]; cbn; [reflexivity|rewrite IH; reflexivity]. Qed.
Lemma forallb_ext' {A} (f g : A -> bool) l : (forall a, f a = g a) -> forallb f l = forallb g l.
Proof. intro H. induction l as [|a r IH]; cbn; [reflexivity|rewrite H, IH; reflexivity]. Qed.
Lemma Z_eqb_of_nat a b : Z.eqb (Z.of_nat a) (Z.of_nat b) = Nat.eqb a b.
Proof.
  destruct (Nat.eqb_spec a b) as [->|H]; [apply Z.eqb_refl|apply Z.eqb_neq; lia].
Qed.

(* dicts all of whose keys are tuples (of arbitrary elements) *)
Definition tupdict (ts : list (list pyelt * Q)) : pydict num_Q := map (fun tv => (PKTup (fst tv), snd tv)) ts.
Definition elt_ok (e : pyelt) : bool := match e with PEInt z => Z.leb 0 z | PEStr _ => false end.

Lemma edist_tupdict d : edist d = tupdict (map (fun kv => (ekey (fst kv), snd kv)) d).
Proof. unfold edist, tupdict, pkey. rewrite map_map. reflexivity. Qed.

Theorem is_non_negative_gen_eq d :
  is_non_negative_gen num_Q (edist d) = Ret (forallb (fun kv => Qle_bool 0 (snd kv)) d).
Proof. unfold is_non_negative_gen. rewrite values_edist, forallb_map. reflexivity. Qed.

Lemma is_non_negative_gen_total D : exists b, is_non_negative_gen num_Q D = Ret b.
Proof. unfold is_non_negative_gen. eexists. reflexivity. Qed.

Lemma all_len_tuples (ts : list (list pyelt)) L :
  py_all_res (fun k => bind (py_len_key k) (fun x => Ret (Z.eqb x L))) (map PKTup ts) =
  Ret (forallb (fun t => Z.eqb (py_len t) L) ts).
Proof.
  induction ts as [|t r IH]; [reflexivity|].
  cbn [map py_all_res py_len_key bind forallb]. destruct (Z.eqb (py_len t) L); [exact IH|reflexivity].
Qed.

Lemma is_key_length_fixed_gen_tuples ts :
  is_key_length_fixed_gen num_Q (tupdict ts) =
  match ts with
  | [] => Raise IndexError
  | (t0, _) :: _ => Ret (forallb (fun tv => Z.eqb (py_len (fst tv)) (py_len t0)) ts)
  end.
Proof.
  unfold is_key_length_fixed_gen.
  replace (py_keys (tupdict ts)) with (map PKTup (map fst ts))
    by (unfold py_keys, tupdict; rewrite !map_map; reflexivity).
  destruct ts as [|[t0 v0] r]; [reflexivity|].
  cbn [map fst]. unfold py_index at 1. cbn [py_len List.length Z.ltb Z.of_nat Z.compare Z.to_nat nth_error bind py_len_key].
  cbv zeta. change (PKTup t0 :: map PKTup (map fst r)) with (map PKTup (t0 :: map fst r)).
  rewrite all_len_tuples. cbn [bind]. f_equal. cbn [forallb fst]. f_equal. apply forallb_map.
Qed.

Theorem is_key_length_fixed_gen_eq d :
  is_key_length_fixed_gen num_Q (edist d) =
  match d with
  | [] => Raise IndexError
  | (k0, _) :: _ => Ret (forallb (fun kv => Nat.eqb (List.length (fst kv)) (List.length k0)) d)
  end.
Proof.
  rewrite edist_tupdict, is_key_length_fixed_gen_tuples. destruct d as [|[k0 v0] r]; [reflexivity|].
  cbn [map fst snd]. f_equal.
  change ((ekey k0, v0) :: map (fun kv => (ekey (fst kv), snd kv)) r)
    with (map (fun kv : key * Q => (ekey (fst kv), snd kv)) ((k0, v0) :: r)).
  rewrite forallb_map. apply forallb_ext'. intros [k v]. cbn [fst snd]. unfold py_len, ekey.
  rewrite !map_length. apply Z_eqb_of_nat.
Qed.

Lemma all_iter_tuples (ts : list (list pyelt)) :
  py_all_res (fun k => bind (py_iter_key k) (fun x => Ret (forallb elt_ok x))) (map PKTup ts) =
  Ret (forallb (forallb elt_ok) ts).
Proof.
  induction ts as [|t r IH]; [reflexivity|].
  cbn [map py_all_res py_iter_key bind forallb]. destruct (forallb elt_ok t); [exact IH|reflexivity].
Qed.

(* on tuple keys with arbitrary entries: every entry an int >= 0 *)
Theorem are_keys_gen_tuples ts :
  are_keys_non_negative_integer_tuples_gen num_Q (tupdict ts) = Ret (forallb (fun tv => forallb elt_ok (fst tv)) ts).
Proof.
  unfold are_keys_non_negative_integer_tuples_gen.
  replace (py_keys (tupdict ts)) with (map PKTup (map fst ts))
    by (unfold py_keys, tupdict; rewrite !map_map; reflexivity).
  change (fun v_sub : pyelt => match v_sub with PEInt v_sub0 => Z.leb 0 v_sub0 | _ => false end) with elt_ok.
  rewrite all_iter_tuples. cbn [bind]. rewrite forallb_map. reflexivity.
Qed.

Lemma ekey_ok k : forallb elt_ok (ekey k) = true.
Proof.
  unfold ekey. induction k as [|n r IH]; [reflexivity|]. cbn [map forallb]. rewrite IH.
  destruct n; reflexivity.
Qed.

Theorem are_keys_gen_eq d : are_keys_non_negative_integer_tuples_gen num_Q (edist d) = Ret true.
Proof.
  rewrite edist_tupdict, are_keys_gen_tuples, forallb_map. f_equal.
  induction d as [|[k v] r IH]; [reflexivity|]. cbn [forallb fst]. rewrite ekey_ok. exact IH.
Qed.

Theorem is_mod_gen_eq d : is_measurement_outcome_distribution_gen num_Q (edist d) = Ret (valid d).
Proof.
  unfold is_measurement_outcome_distribution_gen.
  rewrite is_non_negative_gen_eq, is_key_length_fixed_gen_eq, are_keys_gen_eq.
  destruct d as [|[k0 v0] r]; [reflexivity|].
  unfold valid. cbn [edist map py_dict_is_empty negb bind].
  destruct (forallb (fun kv => Qle_bool 0 (snd kv)) ((k0, v0) :: r)); [|reflexivity].
  cbn [bind andb].
  destruct (forallb (fun kv => Nat.eqb (List.length (fst kv)) (List.length k0)) ((k0, v0) :: r)); reflexivity.
Qed.

(* outside the model: a tuple key with a negative or non-int entry makes the predicate False (never an exception) *)
Theorem is_mod_gen_bad_entry ts :
  forallb (fun tv => forallb elt_ok (fst tv)) ts = false ->
  is_measurement_outcome_distribution_gen num_Q (tupdict ts) = Ret false.
Proof.
  intro H. unfold is_measurement_outcome_distribution_gen.
  rewrite is_key_length_fixed_gen_tuples, are_keys_gen_tuples, H.
  destruct (is_non_negative_gen_total (tupdict ts)) as [b1 ->].
  destruct ts as [|[t0 v0] r]; [reflexivity|].
  cbn [tupdict map py_dict_is_empty negb bind]. destruct b1; [|reflexivity]. cbn [bind].
  destruct (forallb (fun tv => Z.eqb (py_len (fst tv)) (py_len t0)) ((t0, v0) :: r)); reflexivity.
Qed.

(* ------------------------------------------------------------------ is_normalized *)
Lemma sum_fold l a : fold_left Qplus l a == a + qsum l.
Proof.
  revert a. induction l as [|x r IH]; intro a; cbn [fold_left qsum]; [ring|]. rewrite IH. ring.
Qed.
Lemma sum_mass (d : dist) : py_sum num_Q (map snd d) == mass d.
Proof. unfold py_sum, mass. cbn [n_add n_int num_Q]. rewrite sum_fold. apply Qplus_0_l. Qed.

Lemma isclose_close1 s : py_isclose num_Q s (inject_Z 1) = close1 s.
Proof.
  unfold py_isclose, close1. cbn [n_abs n_sub n_eqb n_leb n_mul n_lit num_Q]. cbv zeta.
  change (inject_Z 1) with 1. rewrite (Qabs_Qminus 1 s).
  set (D := Qabs (s - 1)).
  assert (HD : 0 <= D) by apply Qabs_nonneg.
  assert (Hr1 : Qabs (py_rel_tol * 1) == rel_tol) by (unfold py_rel_tol, rel_tol; reflexivity).
  assert (Hrs : Qabs (py_rel_tol * s) == rel_tol * Qabs s)
    by (rewrite Qabs_Qmult; unfold py_rel_tol, rel_tol; reflexivity).
  rewrite (Qle_bool_wd D D _ _ (Qeq_refl D) Hr1), (Qle_bool_wd D D _ _ (Qeq_refl D) Hrs).
  destruct (Qle_bool D rel_tol) eqn:E1.
  - rewrite orb_true_r. reflexivity.
  - destruct (Qle_bool D (rel_tol * Qabs s)) eqn:E2.
    + rewrite orb_true_r. reflexivity.
    + assert (Hnr : ~ D <= rel_tol) by (rewrite <- Qle_bool_iff, E1; discriminate).
      assert (Hd0 : Qle_bool D 0 = false).
      { destruct (Qle_bool D 0) eqn:E; [|reflexivity]. apply Qle_bool_iff in E. exfalso. apply Hnr.
        unfold rel_tol. eapply Qle_trans; [exact E|]. discriminate. }
      assert (Hs1 : Qeq_bool s 1 = false).
      { destruct (Qeq_bool s 1) eqn:E; [|reflexivity]. apply Qeq_bool_iff in E. exfalso. apply Hnr.
        unfold D. rewrite E. unfold rel_tol. cbn. discriminate. }
      rewrite Hs1, Hd0. reflexivity.
Qed.

Theorem is_normalized_gen_eq d : is_normalized_gen num_Q (edist d) = Ret (close1 (mass d)).
Proof.
  unfold is_normalized_gen. cbv zeta. rewrite values_edist. f_equal.
  change (n_int num_Q 1%Z) with (inject_Z 1). rewrite isclose_close1. apply close1_wd. apply sum_mass.
Qed.

(* ------------------------------------------------------------------ dictionaries with pairwise different keys *)
Lemma lookup_app_notin (pre post : pydict num_Q) k :
  ~ In k (map fst pre) -> py_dict_lookup (pre ++ post) k = py_dict_lookup post k.
Proof.
  induction pre as [|[k1 v1] r IH]; intro H; [reflexivity|].
  simpl. simpl in H.
  rewrite pykey_eqb_neq by (intro E; apply H; left; exact E). apply IH. intro Hin. apply H. right. exact Hin.
Qed.
Lemma set_app_notin (pre post : pydict num_Q) k v :
  ~ In k (map fst pre) -> py_dict_set (pre ++ post) k v = pre ++ py_dict_set post k v.
Proof.
  induction pre as [|[k1 v1] r IH]; intro H; [reflexivity|].
  simpl. simpl in H.
  rewrite pykey_eqb_neq by (intro E; apply H; left; exact E). f_equal. apply IH. intro Hin. apply H. right. exact Hin.
Qed.
Lemma set_notin (D : pydict num_Q) k v : ~ In k (map fst D) -> py_dict_set D k v = D ++ [(k, v)].
Proof. intro H. rewrite <- (app_nil_r D) at 1. rewrite set_app_notin by exact H. reflexivity. Qed.

Lemma pkey_inj a b : pkey a = pkey b -> a = b.
Proof.
  intro H. apply key_eqb_eq. rewrite <- pykey_eqb_pkey. apply pykey_eqb_eq. exact H.
Qed.
Lemma NoDup_map_pkey l : NoDup l -> NoDup (map pkey l).
Proof.
  induction 1 as [|x l Hx Hl IH]; [constructor|]. cbn [map]. constructor; [|exact IH].
  intro Hin. apply in_map_iff in Hin. destruct Hin as [y [Hy Hin]]. apply pkey_inj in Hy. subst y. contradiction.
Qed.
Lemma NoDup_keys_edist d : NoDup (map fst d) -> NoDup (map fst (edist d)).
Proof. intro H. change (map fst (edist d)) with (py_keys (edist d)). rewrite keys_edist. apply NoDup_map_pkey. exact H. Qed.

(* ------------------------------------------------------------------ normalize_measurement_outcome_distribution *)
Lemma truediv_Q (norm : Q) : Qeq_bool norm 0 = false -> py_truediv num_Q (n_lit num_Q (1 # 1)) norm = Ret (1 / norm).
Proof. intro H. unfold py_truediv. cbn [n_eqb n_int n_div n_lit num_Q]. change (inject_Z 0) with 0. rewrite H. reflexivity. Qed.

Lemma scale_loop (c : Q) (body : pykey -> pydict num_Q -> result (pydict num_Q)) :
  (forall D key v, py_dict_lookup D key = Some v -> body key D = Ret (py_dict_set D key (v * c))) ->
  forall (post pre : pydict num_Q), NoDup (map fst (pre ++ post)) ->
  py_for (map fst post) (pre ++ post) body = Ret (pre ++ map (fun kv => (fst kv, snd kv * c)) post).
Proof.
  intros Hbody. induction post as [|[k v] post IH]; intros pre Hnd; [reflexivity|].
  assert (Hk : ~ In k (map fst pre)).
  { rewrite map_app in Hnd. cbn [map fst] in Hnd. apply NoDup_remove_2 in Hnd. intro Hin. apply Hnd.
    apply in_or_app. left. exact Hin. }
  cbn [map fst snd py_for]. rewrite (Hbody _ k v).
  2:{ rewrite lookup_app_notin by exact Hk. cbn [py_dict_lookup]. rewrite pykey_eqb_refl. reflexivity. }
  cbn [bind]. rewrite set_app_notin by exact Hk. cbn [py_dict_set]. rewrite pykey_eqb_refl.
  specialize (IH (pre ++ [(k, v * c)])). rewrite <- !app_assoc in IH. cbn [app] in IH. apply IH.
  rewrite map_app in *. exact Hnd.
Qed.

Lemma deq_scale (a b : Q) (d : dist) : a == b ->
  deq (map (fun kv => (fst kv, snd kv * (1 / a))) (edist d)) (edist (scale (1 / b) d)).
Proof.
  intro H. induction d as [|[k v] r IH]; [constructor|].
  cbn [edist scale map fst snd]. constructor; [|exact IH]. cbn [fst snd]. split; [reflexivity|].
  rewrite H. reflexivity.
Qed.

Theorem normalize_gen_eq d : NoDup (map fst d) ->
  req (normalize_measurement_outcome_distribution_gen num_Q (edist d)) (eres (normalize_dict d)).
Proof.
  intros Hnd. unfold normalize_measurement_outcome_distribution_gen, normalize_dict. cbv zeta.
  rewrite values_edist. pose proof (sum_mass d) as Hn. set (norm := py_sum num_Q (map snd d)) in *.
  cbn [n_eqb n_ltb n_int n_lit num_Q]. change (inject_Z 0) with 0. change (inject_Z 1) with 1.
  rewrite (Qeq_bool_wd norm (mass d) 0 0 Hn (Qeq_refl 0)).
  destruct (Qeq_bool (mass d) 0) eqn:E0; [reflexivity|].
  change (negb (Qle_bool norm 0) && negb (Qle_bool py_float_min norm))%bool with (tiny norm).
  rewrite (tiny_wd norm (mass d) Hn). destruct (tiny (mass d)); [reflexivity|].
  rewrite (Qeq_bool_wd norm (mass d) 1 1 Hn (Qeq_refl 1)).
  destruct (Qeq_bool (mass d) 1) eqn:E1; [apply req_refl|].
  assert (Hn0 : Qeq_bool norm 0 = false) by (rewrite (Qeq_bool_wd norm (mass d) 0 0 Hn (Qeq_refl 0)); exact E0).
  unfold py_keys. rewrite (scale_loop (1 / norm) _) with (pre := []) (post := edist d).
  - cbn [bind app eres req]. apply deq_scale. exact Hn.
  - intros D key v Hl. unfold py_dict_getitem. rewrite Hl. cbn [bind].
    pose proof (truediv_Q norm Hn0) as Ht. cbn [n_lit num_Q] in Ht. rewrite Ht. reflexivity.
  - apply NoDup_keys_edist. exact Hnd.
Qed.

(* ------------------------------------------------------------------ MeasurementOutcomeDistribution.__init__ *)
Lemma pre_fold_nodup r : forall acc d,
  fold_left pre_step r (Ok acc) = Ok d -> NoDup (map fst acc) -> NoDup (map fst d).
Proof.
  induction r as [|kv r IH]; intros acc d H Hnd.
  - cbn in H. injection H as <-. exact Hnd.
  - cbn [fold_left pre_step] in H. destruct (rawkey_read (fst kv)) as [k|].
    + eapply IH; [exact H|]. apply dset_nodup. exact Hnd.
    + rewrite pre_step_err in H. discriminate H.
Qed.
Lemma preprocess_nodup r d : preprocess r = Ok d -> NoDup (map fst d).
Proof. intro H. eapply pre_fold_nodup; [exact H|constructor]. Qed.

Lemma init_after_pre input d n :
  preprocess_distibution_dict_gen num_Q input = Ret (edist d) -> NoDup (map fst d) ->
  req (MeasurementOutcomeDistribution_init_gen num_Q input n) (eres (make d n)).
Proof.
  intros Hpre Hnd. unfold MeasurementOutcomeDistribution_init_gen. rewrite Hpre. cbn [bind]. cbv zeta.
  rewrite is_mod_gen_eq. cbn [bind]. unfold make. destruct (valid d); cbn [negb]; [|reflexivity].
  rewrite is_normalized_gen_eq. cbn [bind]. destruct (close1 (mass d)); [apply req_refl|].
  destruct n; [|apply req_refl]. rewrite bind_ret. apply normalize_gen_eq; assumption.
Qed.

Lemma edist_eraw d : edist d = eraw (map (fun kv => (KTup (fst kv), snd kv)) d).
Proof. unfold edist, eraw. rewrite map_map. reflexivity. Qed.

Lemma preprocess_gen_tuples d : NoDup (map fst d) -> preprocess_distibution_dict_gen num_Q (edist d) = Ret (edist d).
Proof. intro H. rewrite edist_eraw, preprocess_gen_eq, preprocess_tuples by exact H. rewrite <- edist_eraw. reflexivity. Qed.

(* the constructor on an already preprocessed dictionary *)
Theorem init_gen_make_eq d n : NoDup (map fst d) ->
  req (MeasurementOutcomeDistribution_init_gen num_Q (edist d) n) (eres (make d n)).
Proof. intros Hnd. apply init_after_pre; [apply preprocess_gen_tuples; exact Hnd|exact Hnd]. Qed.

(* the constructor on a raw dictionary (str and tuple keys) *)
Theorem init_gen_eq r n :
  req (MeasurementOutcomeDistribution_init_gen num_Q (eraw r) n) (eres (make_raw r n)).
Proof.
  unfold make_raw. destruct (preprocess r) as [d|e] eqn:E.
  - apply init_after_pre; [rewrite preprocess_gen_eq, E; reflexivity|eapply preprocess_nodup; exact E].
  - unfold MeasurementOutcomeDistribution_init_gen. rewrite preprocess_gen_eq, E. reflexivity.
Qed.

(* ------------------------------------------------------------------ change_tuple_dict_keys_to_comma_separated_integers *)
Lemma join_eq l : py_join "," l = join l.
Proof.
  induction l as [|x r IH]; [reflexivity|]. cbn [py_join join]. rewrite IH. destruct r; reflexivity.
Qed.
Lemma str_of_eelt n : py_str_of_elt (eelt n) = show_nat n.
Proof.
  unfold eelt, py_str_of_elt, py_str_of_int, py_str_of_nat, show_nat.
  destruct (Z.ltb_spec (Z.of_nat n) 0) as [H|_]; [lia|]. rewrite Nat2Z.id. reflexivity.
Qed.
Lemma join_elts k : py_join "," (map py_str_of_elt (ekey k)) = key_show k.
Proof.
  rewrite join_eq. unfold key_show, ekey. rewrite map_map. f_equal. apply map_ext. exact str_of_eelt.
Qed.

Lemma join_nonempty x r : join (x :: r) = EmptyString -> x = EmptyString.
Proof.
  cbn [join]. destruct r; [auto|]. destruct x; [reflexivity|]. cbn. discriminate.
Qed.

Lemma map_show_inj k k' : map show_nat k = map show_nat k' -> k = k'.
Proof.
  intro H. pose proof (all_some_read_show k) as A. rewrite H, all_some_read_show in A. injection A. auto.
Qed.

Lemma show_no_comma_all k : Forall (fun f => has_comma f = false) (map show_nat k).
Proof. apply Forall_forall. intros f Hin. apply in_map_iff in Hin. destruct Hin as [n [<- _]]. apply show_nat_no_comma. Qed.

(* the text form of a key determines the key *)
Lemma key_show_inj_all k k' : key_show k = key_show k' -> k = k'.
Proof.
  unfold key_show. intro H. destruct k as [|n r], k' as [|n' r']; [reflexivity| | |].
  - symmetry in H. apply join_nonempty in H. exfalso. exact (show_nat_not_empty _ H).
  - apply join_nonempty in H. exfalso. exact (show_nat_not_empty _ H).
  - apply map_show_inj. rewrite <- (split_join (map show_nat (n :: r))), <- (split_join (map show_nat (n' :: r'))).
    + rewrite H. reflexivity.
    + discriminate.
    + apply show_no_comma_all.
    + discriminate.
    + apply show_no_comma_all.
Qed.

Lemma save_loop (body : pykey * Q -> pydict num_Q -> result (pydict num_Q)) :
  (forall k v A, body (pkey k, v) A = Ret (py_dict_set A (PKStr (key_show k)) v)) ->
  forall d acc, NoDup (map fst (acc ++ d)) ->
  py_for (edist d) (eraw (save acc)) body = Ret (eraw (save (acc ++ d))).
Proof.
  intro Hbody. induction d as [|[k v] d IH]; intros acc Hnd.
  - rewrite app_nil_r. reflexivity.
  - cbn [edist map fst snd py_for]. fold (edist d). rewrite Hbody. cbn [bind].
    rewrite set_notin.
    + specialize (IH (acc ++ [(k, v)])). rewrite <- app_assoc in IH. cbn [app] in IH.
      unfold save in IH at 1. unfold eraw in IH at 1. rewrite !map_app in IH. cbn [map fst snd erawkey] in IH.
      apply IH. rewrite map_app in *. exact Hnd.
    + unfold eraw, save. rewrite !map_map. cbn [fst snd erawkey]. intro Hin. apply in_map_iff in Hin.
      destruct Hin as [[k1 v1] [Heq Hin]]. cbn [fst] in Heq. injection Heq as Heq. apply key_show_inj_all in Heq. subst k1.
      rewrite map_app in Hnd. cbn [map fst] in Hnd. apply NoDup_remove_2 in Hnd. apply Hnd. apply in_or_app. left.
      apply in_map_iff. exists (k, v1). split; [reflexivity|exact Hin].
Qed.

Theorem save_gen_eq d : NoDup (map fst d) ->
  change_tuple_dict_keys_to_comma_separated_integers_gen num_Q (edist d) = Ret (eraw (save d)).
Proof.
  intro Hnd. unfold change_tuple_dict_keys_to_comma_separated_integers_gen, py_items, py_dict_empty.
  change (@nil (pykey * num num_Q)) with (eraw (save [])).
  rewrite save_loop with (acc := @nil (key * Q)).
  - reflexivity.
  - intros k v A. unfold pkey. rewrite join_elts. reflexivity.
  - exact Hnd.
Qed.

(* ------------------------------------------------------------------ MeasurementOutcomeDistribution.subdistribution *)
Lemma max_of_nat qr : forall q0,
  fold_left Z.max (map Z.of_nat qr) (Z.of_nat q0) = Z.of_nat (fold_left Nat.max qr q0).
Proof.
  induction qr as [|q r IH]; intro q0; [reflexivity|]. cbn [map fold_left]. rewrite <- Nat2Z.inj_max. apply IH.
Qed.

Lemma existsb_of_nat x r : existsb (Z.eqb (Z.of_nat x)) (map Z.of_nat r) = existsb (Nat.eqb x) r.
Proof. induction r as [|y r IH]; [reflexivity|]. cbn [map existsb]. rewrite Z_eqb_of_nat, IH. reflexivity. Qed.

Lemma set_len_le l : (List.length (py_set l) <= List.length l)%nat.
Proof. induction l as [|x r IH]; [apply le_n|]. cbn [py_set]. destruct (existsb (Z.eqb x) r); cbn [List.length]; lia. Qed.

Lemma has_dup_len qs :
  negb (Z.eqb (py_len (map Z.of_nat qs)) (py_len (py_set (map Z.of_nat qs)))) = has_dup qs.
Proof.
  unfold py_len. rewrite Z_eqb_of_nat. induction qs as [|x r IH]; [reflexivity|].
  cbn [map py_set has_dup]. rewrite existsb_of_nat. pose proof (set_len_le (map Z.of_nat r)) as Hle.
  destruct (existsb (Nat.eqb x) r); cbn [orb].
  - cbn [List.length]. destruct (Nat.eqb_spec (S (List.length (map Z.of_nat r))) (List.length (py_set (map Z.of_nat r)))) as [E|_]; [lia|reflexivity].
  - cbn [List.length Nat.eqb]. exact IH.
Qed.

Lemma index_of_nat {A} (l : list A) (q : nat) (dflt : A) :
  (q < List.length l)%nat -> py_index l (Z.of_nat q) = Ret (nth q l dflt).
Proof.
  intro H. unfold py_index. cbv zeta.
  destruct (Z.ltb_spec (Z.of_nat q) 0) as [Hn|_]; [lia|].
  destruct (Z.ltb_spec (Z.of_nat q) 0) as [Hn|_]; [lia|].
  rewrite Nat2Z.id, (nth_error_nth' l dflt H). reflexivity.
Qed.

Lemma proj_map_res k qs : Forall (fun q => (q < List.length k)%nat) qs ->
  py_map_res (fun i => bind (py_key_index (pkey k) i) (fun x => Ret x)) (map Z.of_nat qs) = Ret (ekey (proj qs k)).
Proof.
  induction 1 as [|q r Hq Hr IH]; [reflexivity|].
  cbn [map py_map_res]. rewrite IH. unfold pkey at 1. cbn [py_key_index].
  rewrite (index_of_nat (ekey k) q (eelt 0)) by (unfold ekey; rewrite map_length; exact Hq).
  cbn [bind]. unfold ekey at 1. rewrite map_nth. reflexivity.
Qed.

Lemma get_edist A k : py_dict_get (N:=num_Q) (edist A) (pkey k) (n_int num_Q 0) = getd k A.
Proof. unfold py_dict_get, getd. rewrite lookup_edist. reflexivity. Qed.

Lemma marg_loop qs (body : pykey * Q -> pydict num_Q -> result (pydict num_Q)) :
  (forall k v A, Forall (fun q => (q < List.length k)%nat) qs ->
     body (pkey k, v) (edist A) = Ret (edist (mstep qs A (k, v)))) ->
  forall d acc, Forall (fun kv => Forall (fun q => (q < List.length (fst kv))%nat) qs) d ->
  py_for (edist d) (edist acc) body = Ret (edist (fold_left (mstep qs) d acc)).
Proof.
  intro Hbody. induction d as [|[k v] d IH]; intros acc Hd; [reflexivity|].
  inversion Hd as [|? ? Hk Hd']; subst. cbn [edist map fst snd py_for fold_left]. fold (edist d).
  change (map (fun kv : key * Q => (pkey (fst kv), snd kv)) acc) with (edist acc).
  rewrite Hbody by exact Hk. cbn [bind]. apply IH. exact Hd'.
Qed.

Lemma py_max_of_nat q0 qr : py_max (map Z.of_nat (q0 :: qr)) = Ret (Z.of_nat (fold_left Nat.max qr q0)).
Proof. cbn [map py_max]. rewrite max_of_nat. reflexivity. Qed.
Lemma index0_keys k0 v0 r : py_index (py_keys (edist ((k0, v0) :: r))) 0 = Ret (pkey k0).
Proof. reflexivity. Qed.
Lemma len_key_pkey k : py_len_key (pkey k) = Ret (Z.of_nat (List.length k)).
Proof. unfold pkey, py_len_key, py_len, ekey. rewrite map_length. reflexivity. Qed.

Theorem sub_gen_eq qs d :
  Forall (fun kv => List.length (fst kv) = nsub d) d ->
  req (MeasurementOutcomeDistribution_subdistribution_gen num_Q (edist d) (map Z.of_nat qs))
      (eres (fst (subdistribution qs d))).
Proof.
  intros Hlen. unfold MeasurementOutcomeDistribution_subdistribution_gen, subdistribution. cbv zeta.
  destruct qs as [|q0 qr]; [reflexivity|].
  rewrite py_max_of_nat. cbn [bind].
  destruct d as [|[k0 v0] r]; [reflexivity|].
  rewrite index0_keys. cbn [bind]. rewrite len_key_pkey. cbn [bind].
  set (M := fold_left Nat.max qr q0). cbn [nsub] in *.
  replace (Z.ltb (Z.of_nat (List.length k0)) (Z.add (Z.of_nat M) 1)) with (Nat.ltb (List.length k0) (M + 1))
    by (destruct (Nat.ltb_spec (List.length k0) (M + 1)); symmetry; [apply Z.ltb_lt|apply Z.ltb_ge]; lia).
  destruct (Nat.ltb_spec (List.length k0) (M + 1)) as [Hbig|Hfit]; [reflexivity|].
  rewrite has_dup_len.
  destruct (has_dup (q0 :: qr)); [reflexivity|]. cbn [fst].
  unfold py_items, py_dict_empty. change (@nil (pykey * num num_Q)) with (edist []).
  rewrite (marg_loop (q0 :: qr)) with (acc := @nil (key * Q)).
  - cbn [bind]. rewrite is_normalized_gen_eq. cbn [bind]. cbv zeta. rewrite bind_ret.
    rewrite marg_counts_fold. apply init_gen_make_eq. apply fold_nodup. constructor.
  - intros k v A Hk. rewrite (proj_map_res k (q0 :: qr) Hk). cbn [bind]. cbv zeta.
    change (PKTup (ekey (proj (q0 :: qr) k))) with (pkey (proj (q0 :: qr) k)).
    rewrite get_edist. cbn [n_add num_Q]. rewrite (set_edist A). reflexivity.
  - apply Forall_forall. intros kv Hin. rewrite Forall_forall in Hlen. rewrite (Hlen kv Hin).
    apply Forall_forall. intros q Hq. pose proof (fold_max_ge qr q0 q Hq) as Hge. fold M in Hge. lia.
Qed.
