(* Real-valued distance measures between outcome distributions (property C17):
   distributions/mmd.py, clipped_negative_log_likelihood.py, jensen_shannon_divergence.py.
   A distribution enters as its probability function on keys (0 off its support); [ks] is the order in
   which the implementation happens to enumerate set(target_keys).union(measured_keys) - the theorems hold
   for every list, and the values do not depend on its order (.._perm). *)
Require Import Coq.Reals.Reals Coq.micromega.Lra Coq.Lists.List Coq.Sorting.Permutation.
Require Import Coq.ZArith.ZArith Coq.QArith.QArith Coq.QArith.Qreals.
Require Import OQ.Stats.Dist.
Import ListNotations.
Open Scope R_scope.

Fixpoint rsum (l : list R) : R := match l with [] => 0 | x :: r => x + rsum r end.

(* diff . (K . diff) *)
Definition quad {A} (kern : A -> A -> R) (ks : list A) (v : A -> R) : R :=
  rsum (map (fun i => v i * rsum (map (fun j => kern i j * v j) ks)) ks).
Definition mmd {A} (kern : A -> A -> R) (ks : list A) (p q : A -> R) : R :=
  quad kern ks (fun k => p k - q k).
Definition nll {A} (eps : R) (ks : list A) (p q : A -> R) : R :=
  - rsum (map (fun k => p k * ln (Rmax eps (q k))) ks).
Definition js {A} (eps : R) (ks : list A) (p q : A -> R) : R :=
  nll eps ks p q / 2 + nll eps ks q p / 2.
Definition entropy {A} (ks : list A) (p : A -> R) : R :=
  - rsum (map (fun k => p k * ln (p k)) ks).
Definition psd {A} (kern : A -> A -> R) (ks : list A) : Prop := forall v, 0 <= quad kern ks v.

(* the concrete kernels of mmd.py on binary outcome tuples *)
Definition basis (k : key) : Z := fold_left (fun acc b => (2 * acc + Z.of_nat b)%Z) k 0%Z.   (* int("".join(..), 2) *)
Definition gauss (sigma : R) (i j : key) : R :=
  exp (- (1 / (2 * sigma)) * (Rabs (IZR (basis i) - IZR (basis j))) ^ 2).
Definition gauss_multi (sigmas : list R) (i j : key) : R :=
  rsum (map (fun s => gauss s i j) sigmas) / INR (List.length sigmas).
Definition prob (d : dist) (k : key) : R := Q2R (getd k d).

(* ---- sums *)
Lemma rsum_ext {A} (f g : A -> R) l : (forall x, In x l -> f x = g x) -> rsum (map f l) = rsum (map g l).
Proof.
  induction l as [|x l IH]; intro H; simpl; [reflexivity|].
  rewrite (H x (or_introl eq_refl)), IH; [reflexivity|]. intros y Hy. apply H. right. exact Hy.
Qed.
Lemma rsum_le {A} (f g : A -> R) l : (forall x, In x l -> f x <= g x) -> rsum (map f l) <= rsum (map g l).
Proof.
  induction l as [|x l IH]; intro H; simpl; [lra|].
  pose proof (H x (or_introl eq_refl)). assert (rsum (map f l) <= rsum (map g l)) by (apply IH; intros y Hy; apply H; right; exact Hy). lra.
Qed.
Lemma rsum_zero {A} (l : list A) : rsum (map (fun _ => 0) l) = 0.
Proof. induction l as [|x l IH]; simpl; [reflexivity|]. rewrite IH. lra. Qed.
Lemma rsum_plus {A} (f g : A -> R) l : rsum (map (fun x => f x + g x) l) = rsum (map f l) + rsum (map g l).
Proof. induction l as [|x l IH]; simpl; [lra|]. rewrite IH. lra. Qed.
Lemma rsum_scal {A} c (f : A -> R) l : rsum (map (fun x => c * f x) l) = c * rsum (map f l).
Proof. induction l as [|x l IH]; simpl; [lra|]. rewrite IH. lra. Qed.
Lemma rsum_const {A} c (l : list A) : rsum (map (fun _ => c) l) = INR (List.length l) * c.
Proof.
  induction l as [|x l IH]; [simpl; lra|]. cbn [map rsum]. rewrite IH.
  change (List.length (x :: l)) with (S (List.length l)). rewrite S_INR. lra.
Qed.
Lemma rsum_lin2 {A} (g h : A -> R) c1 c2 l :
  rsum (map (fun k => c1 * g k + c2 * h k) l) = c1 * rsum (map g l) + c2 * rsum (map h l).
Proof. induction l as [|x l IH]; simpl; [lra|]. rewrite IH. lra. Qed.
Lemma rsum_lin3 {A} (f g h : A -> R) c1 c2 l :
  rsum (map (fun k => f k + c1 * g k + c2 * h k) l) = rsum (map f l) + c1 * rsum (map g l) + c2 * rsum (map h l).
Proof. induction l as [|x l IH]; simpl; [lra|]. rewrite IH. lra. Qed.
Lemma rsum_perm l l' : Permutation l l' -> rsum l = rsum l'.
Proof. induction 1; simpl; lra. Qed.

(* ---- MMD *)
Lemma mmd_sym_lemma {A} (kern : A -> A -> R) ks p q : mmd kern ks p q = mmd kern ks q p.
Proof.
  unfold mmd, quad. apply rsum_ext. intros i _.
  replace (rsum (map (fun j => kern i j * (q j - p j)) ks)) with (- rsum (map (fun j => kern i j * (p j - q j)) ks)).
  - ring.
  - replace (- rsum (map (fun j => kern i j * (p j - q j)) ks)) with ((-1) * rsum (map (fun j => kern i j * (p j - q j)) ks)) by ring.
    rewrite <- rsum_scal. apply rsum_ext. intros j _. ring.
Qed.

Lemma mmd_self_lemma {A} (kern : A -> A -> R) ks p : mmd kern ks p p = 0.
Proof.
  unfold mmd, quad. rewrite <- (rsum_zero ks). apply rsum_ext. intros i _.
  replace (p i - p i) with 0 by ring. ring.
Qed.

Lemma mmd_nonneg_lemma {A} (kern : A -> A -> R) ks p q : psd kern ks -> 0 <= mmd kern ks p q.
Proof. intro H. apply H. Qed.

Lemma mmd_perm_lemma {A} (kern : A -> A -> R) ks ks' p q : Permutation ks ks' -> mmd kern ks p q = mmd kern ks' p q.
Proof.
  intro H. unfold mmd, quad.
  rewrite (rsum_perm _ _ (Permutation_map (fun i => (p i - q i) * rsum (map (fun j => kern i j * (p j - q j)) ks)) H)).
  apply rsum_ext. intros i _. f_equal. apply rsum_perm. apply Permutation_map. exact H.
Qed.

(* the hypothesis of mmd_nonneg is satisfiable: every rank-one kernel f(i) f(j) is positive semidefinite on every
   key list (for the Gaussian kernel positive semidefiniteness is a classical fact that is not proved here) *)
Lemma psd_rank_one {A} (f : A -> R) (ks : list A) : psd (fun i j => f i * f j) ks.
Proof.
  intro v. unfold quad. set (S := rsum (map (fun j => f j * v j) ks)).
  assert (E : rsum (map (fun i => v i * rsum (map (fun j => f i * f j * v j) ks)) ks) = S * S).
  { transitivity (rsum (map (fun i => S * (f i * v i)) ks)).
    - apply rsum_ext. intros i _.
      replace (rsum (map (fun j => f i * f j * v j) ks)) with (f i * S); [ring|].
      unfold S. rewrite <- rsum_scal. apply rsum_ext. intros j _. ring.
    - rewrite rsum_scal. reflexivity. }
  rewrite E. nra.
Qed.

(* ---- clipped negative log-likelihood *)
Lemma ln_le_sub1 x : 0 < x -> ln x <= x - 1.
Proof. intro H. pose proof (exp_ineq1_le (ln x)) as E. rewrite exp_ln in E by exact H. lra. Qed.

Lemma ln_mono x y : 0 < x -> x <= y -> ln x <= ln y.
Proof. intros Hx [H|H]; [left; apply ln_increasing; assumption|subst; lra]. Qed.

Lemma gibbs_term a b z : 0 <= a -> 0 < b -> 0 < z -> a * ln b - a * ln a - a * ln z <= b / z - a.
Proof.
  intros Ha Hb Hz. destruct Ha as [Ha|Ha].
  - assert (Hx : 0 < b / (a * z)) by (apply Rdiv_lt_0_compat; [exact Hb|apply Rmult_lt_0_compat; assumption]).
    pose proof (ln_le_sub1 _ Hx) as H.
    unfold Rdiv in H. rewrite ln_mult in H by (try assumption; apply Rinv_0_lt_compat; apply Rmult_lt_0_compat; assumption).
    rewrite ln_Rinv in H by (apply Rmult_lt_0_compat; assumption).
    rewrite ln_mult in H by assumption.
    assert (E : b / z - a = a * (b * / (a * z) - 1)) by (field; split; lra).
    rewrite E. replace (a * ln b - a * ln a - a * ln z) with (a * (ln b + - (ln a + ln z))) by ring.
    apply Rmult_le_compat_l; lra.
  - subst a. assert (0 < b / z) by (apply Rdiv_lt_0_compat; assumption). lra.
Qed.

Lemma nll_ge_entropy_lemma {A} eps (ks : list A) p q :
  0 < eps ->
  (forall k, In k ks -> 0 <= p k) -> (forall k, In k ks -> 0 <= q k) ->
  rsum (map p ks) = 1 -> rsum (map q ks) <= 1 ->
  entropy ks p - ln (1 + INR (List.length ks) * eps) <= nll eps ks p q.
Proof.
  intros He Hp Hq Sp Sq. unfold nll, entropy.
  set (q' := fun k => Rmax eps (q k)).
  set (z := rsum (map q' ks)).
  assert (Hq' : forall k, 0 < q' k) by (intro k; unfold q'; pose proof (Rmax_l eps (q k)); lra).
  assert (Hne : ks <> []) by (intro E; subst ks; simpl in Sp; lra).
  assert (Hz : 0 < z).
  { unfold z. destruct ks as [|k0 ks']; [congruence|]. cbn [map rsum].
    assert (0 <= rsum (map q' ks')).
    { rewrite <- (rsum_zero ks'). apply rsum_le. intros k _. left. apply Hq'. }
    pose proof (Hq' k0). lra. }
  assert (Hzle : z <= 1 + INR (List.length ks) * eps).
  { unfold z. apply Rle_trans with (rsum (map (fun k => q k + eps) ks)).
    - apply rsum_le. intros k Hk. unfold q'. pose proof (Hq k Hk). apply Rmax_lub; lra.
    - rewrite rsum_plus, rsum_const. lra. }
  assert (Hsum : rsum (map (fun k => p k * ln (q' k) - p k * ln (p k) - p k * ln z) ks)
                 <= rsum (map (fun k => q' k / z - p k) ks)).
  { apply rsum_le. intros k Hk. apply gibbs_term; [apply Hp; exact Hk|apply Hq'|exact Hz]. }
  assert (E1 : rsum (map (fun k => p k * ln (q' k) - p k * ln (p k) - p k * ln z) ks)
               = rsum (map (fun k => p k * ln (q' k)) ks) - rsum (map (fun k => p k * ln (p k)) ks) - ln z * rsum (map p ks)).
  { transitivity (rsum (map (fun k => p k * ln (q' k) + (-1) * (p k * ln (p k)) + (- ln z) * p k) ks)).
    - apply rsum_ext. intros k _. ring.
    - rewrite (rsum_lin3 (fun k => p k * ln (q' k)) (fun k => p k * ln (p k)) p (-1) (- ln z) ks). ring. }
  assert (E2 : rsum (map (fun k => q' k / z - p k) ks) = z / z - rsum (map p ks)).
  { transitivity (rsum (map (fun k => (/ z) * q' k + (-1) * p k) ks)).
    - apply rsum_ext. intros k _. unfold Rdiv. ring.
    - rewrite (rsum_lin2 q' p (/ z) (-1) ks). fold z. unfold Rdiv. ring. }
  rewrite E1, E2, Sp in Hsum. replace (z / z) with 1 in Hsum by (field; lra).
  unfold q' in Hsum. cbv beta in Hsum. pose proof (ln_mono z _ Hz Hzle). lra.
Qed.

Lemma nll_perm_lemma {A} eps (ks ks' : list A) p q : Permutation ks ks' -> nll eps ks p q = nll eps ks' p q.
Proof. intro H. unfold nll. f_equal. apply rsum_perm. apply Permutation_map. exact H. Qed.

Lemma js_sym_lemma {A} eps (ks : list A) p q : js eps ks p q = js eps ks q p.
Proof. unfold js. ring. Qed.

(* ---- evaluation of the measures on literal inputs (used by the generated interval goals) *)
Ltac dist_reduce :=
  cbv [mmd quad nll js entropy gauss_multi gauss prob rsum map List.length INR];
  repeat match goal with |- context [getd ?k ?d] =>
           let v := eval vm_compute in (getd k d) in change (getd k d) with v end;
  repeat match goal with |- context [basis ?k] =>
           let v := eval vm_compute in (basis k) in change (basis k) with v end;
  unfold Q2R; cbn [Qnum Qden];
  repeat (first [rewrite Rmax_left by lra | rewrite Rmax_right by lra]).
