(* The U3 decomposition rule of decompositions/_orquestra_decompositions.py, at the level of matrices:
   U3(theta,phi,lambda) is replaced by RZ(lambda); RY(theta); RZ(phi) (application order), i.e. the product
   RZ(phi).RY(theta).RZ(lambda); with controls, each factor is controlled separately. *)
Require Import Coq.Reals.Reals Coq.Lists.List Coq.nsatz.Nsatz Coq.micromega.Lra.
Require Import OQ.Base.Ring OQ.Base.LMat OQ.Gates.CR OQ.Gates.Trig OQ.Gen.GatesGen OQ.Gates.Builtin.
Import ListNotations.
Open Scope R_scope.

Definition phase_of (x : R) : CR := (cos x, sin x).
Lemma phase_of_unit x : crnorm2 (phase_of x) = 1.
Proof. unfold crnorm2, phase_of. cbn [fst snd]. apply pyth. Qed.

Definition u3_product (theta phi lambda_ : R) : list (list CR) :=
  mm (rz_matrix phi) (mm (ry_matrix theta) (rz_matrix lambda_)).

Lemma half_sum' a b : 1 / 2 * (a + b) = a / 2 + b / 2.
Proof. field. Qed.

(* plain rule: same action up to the global phase exp(-i(phi+lambda)/2) *)
Lemma u3_plain theta phi lambda_ :
  u3_product theta phi lambda_ = lscale (K:=CRring) (phase_of (- ((phi + lambda_) / 2))) (u3_matrix theta phi lambda_).
Proof.
  unfold u3_product, phase_of, u3_matrix, rz_matrix, ry_matrix. mcomp.
  rewrite !half_sum', !half_sum. rewrite !cos_neg, !sin_neg. norm_angles. split_mat; trig_leaf.
Qed.

Definition ctrl1 (M : list (list CR)) : list (list CR) := ldiag_id (K:=CRring) 2 M.

(* controlled rule: the three controlled rotations multiply to the controlled PRODUCT, in which the phase is
   no longer global *)
Lemma u3_controlled_product theta phi lambda_ :
  mm (ctrl1 (rz_matrix phi)) (mm (ctrl1 (ry_matrix theta)) (ctrl1 (rz_matrix lambda_)))
  = ctrl1 (u3_product theta phi lambda_).
Proof.
  unfold ctrl1, u3_product, rz_matrix, ry_matrix. mcomp. split_mat; trig_leaf.
Qed.

(* where the property does hold for the controlled rule: the phase is trivial *)
Lemma u3_controlled_when theta phi lambda_ :
  cos ((phi + lambda_) / 2) = 1 -> sin ((phi + lambda_) / 2) = 0 ->
  mm (ctrl1 (rz_matrix phi)) (mm (ctrl1 (ry_matrix theta)) (ctrl1 (rz_matrix lambda_)))
  = ctrl1 (u3_matrix theta phi lambda_).
Proof.
  intros Hc Hs. rewrite u3_controlled_product, u3_plain. unfold phase_of. rewrite cos_neg, sin_neg, Hc, Hs.
  f_equal. unfold u3_matrix. mcomp. split_mat; ring.
Qed.

(* and where it fails: theta = 0, phi = PI, lambda = 0 gives diag(1,1,1,-1) against diag(1,1,-i,i);
   no scalar z relates them *)
Lemma u3_controlled_refuted :
  exists theta phi lambda_, forall z : CR,
    ctrl1 (u3_matrix theta phi lambda_)
    <> lscale (K:=CRring) z (mm (ctrl1 (rz_matrix phi)) (mm (ctrl1 (ry_matrix theta)) (ctrl1 (rz_matrix lambda_)))).
Proof.
  exists 0, PI, 0. intros z H.
  assert (E0 := f_equal (fun M => lent (K:=CRring) M 0 0) H).
  assert (E2 := f_equal (fun M => lent (K:=CRring) M 2 2) H).
  clear H. revert E0 E2.
  unfold ctrl1, u3_matrix, rz_matrix, ry_matrix. mcomp.
  replace (0 / 2) with 0 by field. replace (1 / 2 * (PI + 0)) with (PI / 2) by field.
  rewrite cos_0, sin_0, cos_PI2, sin_PI2. destruct z as [zr zi]. cbn [fst snd].
  intros E0 E2. injection E0 as E0r E0i. injection E2 as E2r E2i. lra.
Qed.
