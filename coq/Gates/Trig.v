(* Tactics for identities between the generated gate matrices (entries: pairs of real expressions in cos/sin). *)
Require Import Coq.Reals.Reals Coq.Lists.List Coq.nsatz.Nsatz Coq.micromega.Lra.
Require Import OQ.Base.Ring OQ.Base.LMat OQ.Gates.CR.
Import ListNotations.
Open Scope R_scope.

Lemma pyth x : cos x * cos x + sin x * sin x = 1.
Proof. pose proof (sin2_cos2 x) as H. unfold Rsqr in H. lra. Qed.

Lemma sqrt2_sq : sqrt 2 * sqrt 2 = 2.
Proof. apply sqrt_sqrt. lra. Qed.

Lemma sqrt2_pos : 0 < sqrt 2.
Proof. apply sqrt_lt_R0. lra. Qed.

Lemma isq2_sq : 2 * ((1 / sqrt 2) * (1 / sqrt 2)) = 1.
Proof. pose proof sqrt2_pos. pose proof sqrt2_sq as H2. field_simplify; [|lra]. rewrite <- H2 at 1. field. lra. Qed.

Lemma half_sum a b : (a + b) / 2 = a / 2 + b / 2.
Proof. field. Qed.
Lemma half_neg a : (- a) / 2 = - (a / 2).
Proof. field. Qed.

(* compute a product / adjoint of literal list-matrices down to lists of pairs of real expressions *)
Ltac mcomp :=
  cbv [lmmul ladj leye ltransp col ncols dot lscale ladd lkron ldiag_id lent lsquare
       List.map List.seq List.nth List.length List.fold_right List.flat_map List.app List.combine Nat.eqb Nat.ltb Nat.leb Nat.add Nat.sub orb andb
       cadd cmul copp cconj csub c0 c1 ci car CRring cradd crmul cropp crconj crsub cr0 cr1 cri fst snd].

Lemma cons_eq {A} (a b : A) l l' : a = b -> l = l' -> a :: l = b :: l'.
Proof. intros -> ->. reflexivity. Qed.
Lemma pair_eq {A B} (a a' : A) (b b' : B) : a = a' -> b = b' -> (a, b) = (a', b').
Proof. intros -> ->. reflexivity. Qed.

Ltac split_mat :=
  repeat match goal with
         | |- (_ :: _) = (_ :: _) => apply cons_eq
         | |- (_, _) = (_, _) => apply pair_eq
         | |- @nil _ = @nil _ => reflexivity
         end.

(* replace every cos/sin of a syntactic argument by a variable pair with its Pythagorean identity *)
Ltac abstract_trig :=
  repeat match goal with
         | |- context [cos ?x] =>
           let c := fresh "c" in let s := fresh "s" in let H := fresh "Hcs" in
           pose proof (pyth x) as H; set (c := cos x) in *; set (s := sin x) in *; clearbody c s
         | |- context [sin ?x] =>
           let c := fresh "c" in let s := fresh "s" in let H := fresh "Hcs" in
           pose proof (pyth x) as H; set (c := cos x) in *; set (s := sin x) in *; clearbody c s
         end.

Lemma isq2_sq' : 2 * (/ sqrt 2 * / sqrt 2) = 1.
Proof. pose proof isq2_sq as H. unfold Rdiv in H. rewrite !Rmult_1_l in H. exact H. Qed.

Ltac abstract_sqrt2 :=
  try match goal with
      | |- context [sqrt 2] =>
        let h := fresh "h" in let H := fresh "Hh" in
        unfold Rdiv; pose proof isq2_sq' as H; set (h := / sqrt 2) in *; clearbody h
      end.

Ltac trig_leaf := abstract_sqrt2; abstract_trig; first [reflexivity | ring | solve [field] | lra | nsatz].

Ltac norm_angles :=
  repeat rewrite half_sum; repeat rewrite half_neg;
  repeat rewrite cos_plus; repeat rewrite sin_plus; repeat rewrite cos_neg; repeat rewrite sin_neg.
