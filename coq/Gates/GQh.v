(* The executable ring GQ[h]/(2h^2 - 1): Gaussian rationals extended by h = 1/sqrt 2, with its
   evaluation homomorphism into the complex numbers CR.  Entries of H, RX(pi/2), S, T^2 ... live here
   exactly, so identities between parameter-free circuit matrices can be decided by vm_compute and
   transported to CR. *)
Require Import Coq.Reals.Reals Coq.QArith.QArith Coq.QArith.Qcanon Coq.QArith.Qreals Coq.setoid_ring.Ring
        Coq.micromega.Lra Coq.Bool.Bool Coq.nsatz.Nsatz.
Require Import OQ.Base.Ring OQ.Base.Hom OQ.Gates.CR OQ.Gates.Trig.

(* ------------------------------------------------------------------ GQ -> CR *)
Definition qc2r (q : Qc) : R := Q2R (this q).
Lemma qc2r_add a b : qc2r (a + b)%Qc = (qc2r a + qc2r b)%R.
Proof. unfold qc2r, Qcplus, Q2Qc. cbn [this]. rewrite (Qeq_eqR _ _ (Qred_correct _)). apply Q2R_plus. Qed.
Lemma qc2r_mul a b : qc2r (a * b)%Qc = (qc2r a * qc2r b)%R.
Proof. unfold qc2r, Qcmult, Q2Qc. cbn [this]. rewrite (Qeq_eqR _ _ (Qred_correct _)). apply Q2R_mult. Qed.
Lemma qc2r_opp a : qc2r (- a)%Qc = (- qc2r a)%R.
Proof. unfold qc2r, Qcopp, Q2Qc. cbn [this]. rewrite (Qeq_eqR _ _ (Qred_correct _)). apply Q2R_opp. Qed.
Lemma qc2r_sub a b : qc2r (a - b)%Qc = (qc2r a - qc2r b)%R.
Proof. unfold Qcminus. rewrite qc2r_add, qc2r_opp. reflexivity. Qed.
Lemma qc2r_0 : qc2r 0%Qc = 0%R.
Proof. unfold qc2r. cbn. unfold Q2R. cbn. lra. Qed.
Lemma qc2r_1 : qc2r 1%Qc = 1%R.
Proof. unfold qc2r. cbn. unfold Q2R. cbn. lra. Qed.

Definition gq2cr (z : GQ) : CR := (qc2r (fst z), qc2r (snd z)).

Lemma gq2cr_hom : cring_hom GQring CRring gq2cr.
Proof.
  constructor; intros; repeat match goal with x : car GQring |- _ => destruct x end;
    unfold gq2cr;
    cbn [c0 c1 cadd cmul copp csub cconj ci GQring CRring gq0 gq1 gqi gqadd gqmul gqopp gqsub gqconj
         cr0 cr1 cri cradd crmul cropp crsub crconj fst snd];
    rewrite ?qc2r_sub, ?qc2r_add, ?qc2r_mul, ?qc2r_opp, ?qc2r_0, ?qc2r_1; reflexivity.
Qed.

(* ------------------------------------------------------------------ GQ[h], h*h = 1/2 *)
Definition GQh : Type := (GQ * GQ)%type.          (* a + b h *)
Definition half : GQ := gq_lit (1 # 2) 0.
Definition gh0 : GQh := (gq0, gq0).
Definition gh1 : GQh := (gq1, gq0).
Definition ghi : GQh := (gqi, gq0).
Definition ghh : GQh := (gq0, gq1).
Definition ghadd (x y : GQh) : GQh := (gqadd (fst x) (fst y), gqadd (snd x) (snd y)).
Definition ghmul (x y : GQh) : GQh :=
  (gqadd (gqmul (fst x) (fst y)) (gqmul half (gqmul (snd x) (snd y))),
   gqadd (gqmul (fst x) (snd y)) (gqmul (snd x) (fst y))).
Definition ghopp (x : GQh) : GQh := (gqopp (fst x), gqopp (snd x)).
Definition ghsub (x y : GQh) : GQh := (gqsub (fst x) (fst y), gqsub (snd x) (snd y)).
Definition ghconj (x : GQh) : GQh := (gqconj (fst x), gqconj (snd x)).

Lemma gh_ring : ring_theory gh0 gh1 ghadd ghmul ghsub ghopp (@eq GQh).
Proof.
  constructor; intros;
    repeat match goal with x : GQh |- _ => destruct x | x : GQ |- _ => destruct x end;
    unfold ghadd, ghmul, ghsub, ghopp, gh0, gh1, half, gq_lit, gqadd, gqmul, gqsub, gqopp, gq0, gq1; cbn [fst snd];
    repeat apply pair_eq; ring.
Qed.

Definition GQhring : cring.
Proof.
  refine (@mk_cring GQh gh0 gh1 ghadd ghmul ghsub ghopp ghconj ghi gh_ring _ _ _ _ _ _);
    intros;
    repeat match goal with x : GQh |- _ => destruct x | x : GQ |- _ => destruct x end;
    unfold ghadd, ghmul, ghsub, ghopp, ghconj, gh0, gh1, ghi, half, gq_lit, gqadd, gqmul, gqsub, gqopp, gqconj, gq0, gq1, gqi;
    cbn [fst snd]; repeat apply pair_eq; try ring.
Defined.

Definition gh_eqb (x y : GQh) : bool := gq_eqb (fst x) (fst y) && gq_eqb (snd x) (snd y).
Lemma gh_eqb_eq x y : gh_eqb x y = true -> x = y.
Proof.
  destruct x, y. unfold gh_eqb. cbn [fst snd]. intro H. apply andb_prop in H. destruct H as [H1 H2].
  apply gq_eqb_eq in H1, H2. subst. reflexivity.
Qed.

(* evaluation at h = 1/sqrt 2 *)
Open Scope R_scope.
Definition isq2 : CR := (1 / sqrt 2, 0).
Definition gh2cr (x : GQh) : CR := cradd (gq2cr (fst x)) (crmul isq2 (gq2cr (snd x))).

Lemma qc2r_half : qc2r (Q2Qc (1 # 2)) = / 2.
Proof. unfold qc2r. cbn. unfold Q2R. cbn. lra. Qed.

Lemma gh2cr_hom : cring_hom GQhring CRring gh2cr.
Proof.
  pose proof isq2_sq as Hh.
  constructor; intros;
    repeat match goal with x : car GQhring |- _ => destruct x | x : GQ |- _ => destruct x end;
    unfold gh2cr, gq2cr, isq2;
    cbv [c0 c1 cadd cmul copp csub cconj ci GQhring CRring gh0 gh1 ghi ghadd ghmul ghopp ghsub ghconj half gq_lit
         gq0 gq1 gqi gqadd gqmul gqopp gqsub gqconj cr0 cr1 cri cradd crmul cropp crsub crconj fst snd];
    repeat (rewrite qc2r_sub || rewrite qc2r_add || rewrite qc2r_mul || rewrite qc2r_opp
            || rewrite qc2r_half || rewrite qc2r_0 || rewrite qc2r_1);
    apply pair_eq; set (h := 1 / sqrt 2) in *; clearbody h;
    assert (Hk : 2 * / 2 = 1) by lra; set (k := / 2) in *; clearbody k; nsatz.
Qed.
