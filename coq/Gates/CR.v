(* The complex numbers as pairs of reals, as an instance of [cring].  Gate matrices generated from the
   source (Gen/GatesGen.v) have entries of this type. *)
Require Import Coq.Reals.Reals Coq.setoid_ring.Ring Coq.Lists.List.
Require Import OQ.Base.Ring.
Import ListNotations.
Open Scope R_scope.

Definition CR : Type := (R * R)%type.
Definition cr0 : CR := (0, 0).
Definition cr1 : CR := (1, 0).
Definition cri : CR := (0, 1).
Definition cradd (a b : CR) : CR := (fst a + fst b, snd a + snd b).
Definition crmul (a b : CR) : CR := (fst a * fst b - snd a * snd b, fst a * snd b + snd a * fst b).
Definition cropp (a : CR) : CR := (- fst a, - snd a).
Definition crsub (a b : CR) : CR := (fst a - fst b, snd a - snd b).
Definition crconj (a : CR) : CR := (fst a, - snd a).

Lemma cr_ring : ring_theory cr0 cr1 cradd crmul crsub cropp (@eq CR).
Proof.
  constructor; intros; repeat match goal with x : CR |- _ => destruct x end;
    unfold cradd, crmul, crsub, cropp, cr0, cr1; cbn [fst snd]; f_equal; ring.
Qed.

Definition CRring : cring.
Proof.
  refine (@mk_cring CR cr0 cr1 cradd crmul crsub cropp crconj cri cr_ring _ _ _ _ _ _);
    intros; repeat match goal with x : CR |- _ => destruct x end;
    unfold cradd, crmul, crsub, cropp, crconj, cr0, cr1, cri; cbn [fst snd]; f_equal; ring.
Defined.

Lemma cr_eq (a b : CR) : fst a = fst b -> snd a = snd b -> a = b.
Proof. destruct a, b. cbn [fst snd]. intros -> ->. reflexivity. Qed.

(* squared modulus *)
Definition crnorm2 (a : CR) : R := fst a * fst a + snd a * snd a.
