(* Identities of the built-in gate matrices, proved about the definitions GENERATED from
   circuits/_matrices.py and circuits/_builtin_gates.py (Gen/GatesGen.v), for all real parameters. *)
Require Import Coq.Reals.Reals Coq.Lists.List Coq.Strings.String Coq.nsatz.Nsatz Coq.micromega.Lra.
Require Import OQ.Base.Ring OQ.Base.LMat OQ.Gates.CR OQ.Gates.Trig OQ.Gen.GatesGen.
Import ListNotations.
Open Scope R_scope.

Notation mm := (lmmul (K:=CRring)).
Notation dag := (ladj (K:=CRring)).
Notation Id := (leye (K:=CRring)).
Definition unitary (n : nat) (M : list (list CR)) : Prop := mm (dag M) M = Id n.

Ltac pi4 := rewrite ?cos_PI4, ?sin_PI4.
Ltac zero_angle :=
  repeat match goal with
         | |- context [0 / 2] => replace (0 / 2) with 0 by field
         end; rewrite ?cos_0, ?sin_0.
Ltac gate_tac := mcomp; pi4; norm_angles; split_mat; trig_leaf.

(* ---------------------------------------------------------------- unitarity *)
Lemma unitary_x : unitary 2 x_matrix. Proof. unfold unitary, x_matrix. gate_tac. Qed.
Lemma unitary_y : unitary 2 y_matrix. Proof. unfold unitary, y_matrix. gate_tac. Qed.
Lemma unitary_z : unitary 2 z_matrix. Proof. unfold unitary, z_matrix. gate_tac. Qed.
Lemma unitary_h : unitary 2 h_matrix. Proof. unfold unitary, h_matrix. gate_tac. Qed.
Lemma unitary_i : unitary 2 i_matrix. Proof. unfold unitary, i_matrix. gate_tac. Qed.
Lemma unitary_s : unitary 2 s_matrix. Proof. unfold unitary, s_matrix. gate_tac. Qed.
Lemma unitary_sx : unitary 2 sx_matrix. Proof. unfold unitary, sx_matrix. gate_tac. Qed.
Lemma unitary_t : unitary 2 t_matrix. Proof. unfold unitary, t_matrix. gate_tac. Qed.
Lemma unitary_rx a : unitary 2 (rx_matrix a). Proof. unfold unitary, rx_matrix. gate_tac. Qed.
Lemma unitary_ry a : unitary 2 (ry_matrix a). Proof. unfold unitary, ry_matrix. gate_tac. Qed.
Lemma unitary_rz a : unitary 2 (rz_matrix a). Proof. unfold unitary, rz_matrix. gate_tac. Qed.
Lemma unitary_rh a : unitary 2 (rh_matrix a). Proof. unfold unitary, rh_matrix. gate_tac. Qed.
Lemma unitary_phase a : unitary 2 (phase_matrix a). Proof. unfold unitary, phase_matrix. gate_tac. Qed.
Lemma unitary_u3 a b c : unitary 2 (u3_matrix a b c). Proof. unfold unitary, u3_matrix. gate_tac. Qed.
Lemma unitary_gpi a : unitary 2 (gpi_matrix a). Proof. unfold unitary, gpi_matrix. gate_tac. Qed.
Lemma unitary_gpi2 a : unitary 2 (gpi2_matrix a). Proof. unfold unitary, gpi2_matrix. gate_tac. Qed.
Lemma unitary_cnot : unitary 4 cnot_matrix. Proof. unfold unitary, cnot_matrix. gate_tac. Qed.
Lemma unitary_cz : unitary 4 cz_matrix. Proof. unfold unitary, cz_matrix. gate_tac. Qed.
Lemma unitary_swap : unitary 4 swap_matrix. Proof. unfold unitary, swap_matrix. gate_tac. Qed.
Lemma unitary_iswap : unitary 4 iswap_matrix. Proof. unfold unitary, iswap_matrix. gate_tac. Qed.
Lemma unitary_cphase a : unitary 4 (cphase_matrix a). Proof. unfold unitary, cphase_matrix. gate_tac. Qed.
Lemma unitary_xx a : unitary 4 (xx_matrix a). Proof. unfold unitary, xx_matrix. gate_tac. Qed.
Lemma unitary_yy a : unitary 4 (yy_matrix a). Proof. unfold unitary, yy_matrix. gate_tac. Qed.
Lemma unitary_zz a : unitary 4 (zz_matrix a). Proof. unfold unitary, zz_matrix. gate_tac. Qed.
Lemma unitary_xy a : unitary 4 (xy_matrix a). Proof. unfold unitary, xy_matrix. gate_tac. Qed.
Lemma unitary_ms a b : unitary 4 (ms_matrix a b). Proof. unfold unitary, ms_matrix. gate_tac. Qed.
Lemma unitary_delay d : unitary 2 (delay_matrix d). Proof. unfold unitary, delay_matrix. gate_tac. Qed.

(* ---------------------------------------------------------------- self-adjoint flags *)
Lemma herm_x : dag x_matrix = x_matrix. Proof. unfold x_matrix. gate_tac. Qed.
Lemma herm_y : dag y_matrix = y_matrix. Proof. unfold y_matrix. gate_tac. Qed.
Lemma herm_z : dag z_matrix = z_matrix. Proof. unfold z_matrix. gate_tac. Qed.
Lemma herm_h : dag h_matrix = h_matrix. Proof. unfold h_matrix. gate_tac. Qed.
Lemma herm_i : dag i_matrix = i_matrix. Proof. unfold i_matrix. gate_tac. Qed.
Lemma herm_gpi a : dag (gpi_matrix a) = gpi_matrix a. Proof. unfold gpi_matrix. gate_tac. Qed.
Lemma herm_cnot : dag cnot_matrix = cnot_matrix. Proof. unfold cnot_matrix. gate_tac. Qed.
Lemma herm_cz : dag cz_matrix = cz_matrix. Proof. unfold cz_matrix. gate_tac. Qed.
Lemma herm_swap : dag swap_matrix = swap_matrix. Proof. unfold swap_matrix. gate_tac. Qed.
Lemma herm_delay d : dag (delay_matrix d) = delay_matrix d. Proof. unfold delay_matrix. gate_tac. Qed.

(* ---------------------------------------------------------------- one-parameter groups *)
Lemma group_rx a b : mm (rx_matrix a) (rx_matrix b) = rx_matrix (a + b). Proof. unfold rx_matrix. gate_tac. Qed.
Lemma group_ry a b : mm (ry_matrix a) (ry_matrix b) = ry_matrix (a + b). Proof. unfold ry_matrix. gate_tac. Qed.
Lemma group_rz a b : mm (rz_matrix a) (rz_matrix b) = rz_matrix (a + b). Proof. unfold rz_matrix. gate_tac. Qed.
Lemma group_rh a b : mm (rh_matrix a) (rh_matrix b) = rh_matrix (a + b). Proof. unfold rh_matrix. gate_tac. Qed.
Lemma group_phase a b : mm (phase_matrix a) (phase_matrix b) = phase_matrix (a + b). Proof. unfold phase_matrix. gate_tac. Qed.
Lemma group_cphase a b : mm (cphase_matrix a) (cphase_matrix b) = cphase_matrix (a + b). Proof. unfold cphase_matrix. gate_tac. Qed.
Lemma group_xx a b : mm (xx_matrix a) (xx_matrix b) = xx_matrix (a + b). Proof. unfold xx_matrix. gate_tac. Qed.
Lemma group_yy a b : mm (yy_matrix a) (yy_matrix b) = yy_matrix (a + b). Proof. unfold yy_matrix. gate_tac. Qed.
Lemma group_zz a b : mm (zz_matrix a) (zz_matrix b) = zz_matrix (a + b). Proof. unfold zz_matrix. gate_tac. Qed.
Lemma group_xy a b : mm (xy_matrix a) (xy_matrix b) = xy_matrix (a + b). Proof. unfold xy_matrix. gate_tac. Qed.

Ltac zero_tac := mcomp; zero_angle; split_mat; trig_leaf.
Lemma zero_rx : rx_matrix 0 = Id 2. Proof. unfold rx_matrix. zero_tac. Qed.
Lemma zero_ry : ry_matrix 0 = Id 2. Proof. unfold ry_matrix. zero_tac. Qed.
Lemma zero_rz : rz_matrix 0 = Id 2. Proof. unfold rz_matrix. zero_tac. Qed.
Lemma zero_rh : rh_matrix 0 = Id 2. Proof. unfold rh_matrix. zero_tac. Qed.
Lemma zero_phase : phase_matrix 0 = Id 2. Proof. unfold phase_matrix. zero_tac. Qed.
Lemma zero_cphase : cphase_matrix 0 = Id 4. Proof. unfold cphase_matrix. zero_tac. Qed.
Lemma zero_xx : xx_matrix 0 = Id 4. Proof. unfold xx_matrix. zero_tac. Qed.
Lemma zero_yy : yy_matrix 0 = Id 4. Proof. unfold yy_matrix. zero_tac. Qed.
Lemma zero_zz : zz_matrix 0 = Id 4. Proof. unfold zz_matrix. zero_tac. Qed.
Lemma zero_xy : xy_matrix 0 = Id 4. Proof. unfold xy_matrix. zero_tac. Qed.

(* ---------------------------------------------------------------- defining relations of the fixed gates *)
Lemma s_s_z : mm s_matrix s_matrix = z_matrix. Proof. unfold s_matrix, z_matrix. gate_tac. Qed.
Lemma t_t_s : mm t_matrix t_matrix = s_matrix. Proof. unfold t_matrix, s_matrix. gate_tac. Qed.
Lemma sx_sx_x : mm sx_matrix sx_matrix = x_matrix. Proof. unfold sx_matrix, x_matrix. gate_tac. Qed.
Lemma h_z_h_x : mm h_matrix (mm z_matrix h_matrix) = x_matrix. Proof. unfold h_matrix, z_matrix, x_matrix. gate_tac. Qed.
Lemma cnot_controlled_x : cnot_matrix = ldiag_id (K:=CRring) 2 x_matrix. Proof. unfold cnot_matrix, x_matrix. gate_tac. Qed.
Lemma cz_controlled_z : cz_matrix = ldiag_id (K:=CRring) 2 z_matrix. Proof. unfold cz_matrix, z_matrix. gate_tac. Qed.
(* SWAP exchanges the two qubits: entry (2a+b, 2c+d) is 1 iff a = d and b = c *)
Lemma swap_exchanges : forall a b c d : bool,
  lent (K:=CRring) swap_matrix (2 * (if a then 1 else 0) + (if b then 1 else 0)) (2 * (if c then 1 else 0) + (if d then 1 else 0))
  = if andb (Bool.eqb a d) (Bool.eqb b c) then cr1 else cr0.
Proof. intros [] [] [] []; reflexivity. Qed.
Lemma delay_identity d : delay_matrix d = Id 2. Proof. unfold delay_matrix, i_matrix. gate_tac. Qed.

(* ---------------------------------------------------------------- the gate table *)
Definition builtin_names : list string :=
  ["X"; "Y"; "Z"; "H"; "I"; "S"; "SX"; "T"; "RX"; "RY"; "RZ"; "RH"; "PHASE"; "U3"; "GPi"; "GPi2";
   "CNOT"; "CZ"; "SWAP"; "ISWAP"; "CPHASE"; "XX"; "YY"; "ZZ"; "XY"; "MS"; "Delay"]%string.

Lemma table_names : map g_name gate_table = builtin_names.
Proof. reflexivity. Qed.

Ltac table_cases H :=
  cbv [gate_table] in H;
  repeat (destruct H as [H|H]; [subst|]); [..|destruct H].

Ltac by_gate_unitary :=
  match goal with
  | |- unitary _ x_matrix => apply unitary_x | |- unitary _ y_matrix => apply unitary_y
  | |- unitary _ z_matrix => apply unitary_z | |- unitary _ h_matrix => apply unitary_h
  | |- unitary _ i_matrix => apply unitary_i | |- unitary _ s_matrix => apply unitary_s
  | |- unitary _ sx_matrix => apply unitary_sx | |- unitary _ t_matrix => apply unitary_t
  | |- unitary _ (rx_matrix _) => apply unitary_rx | |- unitary _ (ry_matrix _) => apply unitary_ry
  | |- unitary _ (rz_matrix _) => apply unitary_rz | |- unitary _ (rh_matrix _) => apply unitary_rh
  | |- unitary _ (phase_matrix _) => apply unitary_phase | |- unitary _ (u3_matrix _ _ _) => apply unitary_u3
  | |- unitary _ (gpi_matrix _) => apply unitary_gpi | |- unitary _ (gpi2_matrix _) => apply unitary_gpi2
  | |- unitary _ cnot_matrix => apply unitary_cnot | |- unitary _ cz_matrix => apply unitary_cz
  | |- unitary _ swap_matrix => apply unitary_swap | |- unitary _ iswap_matrix => apply unitary_iswap
  | |- unitary _ (cphase_matrix _) => apply unitary_cphase | |- unitary _ (xx_matrix _) => apply unitary_xx
  | |- unitary _ (yy_matrix _) => apply unitary_yy | |- unitary _ (zz_matrix _) => apply unitary_zz
  | |- unitary _ (xy_matrix _) => apply unitary_xy | |- unitary _ (ms_matrix _ _) => apply unitary_ms
  | |- unitary _ (delay_matrix _) => apply unitary_delay
  end.

Ltac by_gate_herm :=
  match goal with
  | |- dag x_matrix = _ => apply herm_x | |- dag y_matrix = _ => apply herm_y
  | |- dag z_matrix = _ => apply herm_z | |- dag h_matrix = _ => apply herm_h
  | |- dag i_matrix = _ => apply herm_i | |- dag (gpi_matrix _) = _ => apply herm_gpi
  | |- dag cnot_matrix = _ => apply herm_cnot | |- dag cz_matrix = _ => apply herm_cz
  | |- dag swap_matrix = _ => apply herm_swap | |- dag (delay_matrix _) = _ => apply herm_delay
  end.

Lemma table_unitary : forall e ps, In e gate_table -> List.length ps = g_nparams e ->
  exists M, gate_matrix (g_name e) ps = Some M /\ lsquare (K:=CRring) (2 ^ g_qubits e) M = true /\ unitary (2 ^ g_qubits e) M.
Proof.
  intros e ps H Hl. table_cases H; cbn [g_nparams g_name g_qubits] in *;
    repeat (destruct ps as [|? ps]; try discriminate Hl); cbn [gate_matrix String.eqb Ascii.eqb Bool.eqb];
    eexists; (split; [reflexivity|split; [reflexivity|]]); cbn [Nat.pow Nat.mul Nat.add]; by_gate_unitary.
Qed.

Lemma table_hermitian : forall e ps M, In e gate_table -> g_hermitian e = true ->
  gate_matrix (g_name e) ps = Some M -> dag M = M.
Proof.
  intros e ps M H Hh HM. table_cases H; cbn [g_hermitian g_name] in *; try discriminate Hh;
    repeat (destruct ps as [|? ps]; cbn [gate_matrix String.eqb Ascii.eqb Bool.eqb] in HM; try discriminate HM);
    inversion HM; subst M; by_gate_herm.
Qed.
