(* Helpers for the C02 correspondence cases. *)
Require Import Coq.Reals.Reals Coq.Lists.List Coq.Strings.String Coq.Bool.Bool Coq.Arith.Arith.
Require Import OQ.Gen.GatesGen.
Import ListNotations.

(* the generated table entry for a gate name equals what the running library object reports *)
Definition table_entry_eqb (name : string) (nparams qubits : nat) (herm : bool) : bool :=
  match find (fun e => String.eqb (g_name e) name) gate_table with
  | Some e => Nat.eqb (g_nparams e) nparams && Nat.eqb (g_qubits e) qubits && Bool.eqb (g_hermitian e) herm
  | None => false
  end.
Definition names_eqb (names : list string) : bool :=
  (fix eq (a b : list string) := match a, b with
     | [], [] => true | x :: a', y :: b' => String.eqb x y && eq a' b' | _, _ => false end)
  (map g_name gate_table) names.
