(* Proofs about the circuit-level constructions (property C08).  Part 1: shape (what operations and which width
   each construction returns).  Part 2: meaning (unitaries), on top of Circ/CircuitProofs.v (program order,
   widening, concatenation), Circ/LiftAlgebra.v (lifting is a *-homomorphism) and the block-diagonal algebra of
   Circ/GateAstSemProofs.v. *)
Require Import Coq.Arith.Arith Coq.Lists.List Coq.Strings.String Coq.Bool.Bool Coq.micromega.Lia
  Coq.Sorting.Permutation Coq.setoid_ring.Ring.
Require Import OQ.Base.Ring OQ.Base.Sums OQ.Base.Bits OQ.Base.Mat.
Require Import OQ.Circ.Lift OQ.Circ.LiftProofs OQ.Circ.LiftAlgebra OQ.Circ.Circuit OQ.Circ.CircuitProofs.
Require Import OQ.Circ.GateAst OQ.Circ.GateAstProofs OQ.Circ.GateAstSemProofs OQ.Circ.Constructions.
Import ListNotations.

(* ------------------------------------------------------------------------------------------- lists *)
Lemma all_some_spec {A} (l : list (option A)) xs : all_some l = Some xs <-> l = map Some xs.
Proof.
  revert xs. induction l as [|[x|] r IH]; intro xs; cbn [all_some].
  - split; [intro H; inversion H; reflexivity|]. destruct xs; [reflexivity|discriminate].
  - destruct (all_some r) as [ys|] eqn:E.
    + split.
      * intro H. inversion H; subst. cbn [map]. f_equal. apply IH. reflexivity.
      * destruct xs as [|y ys']; cbn [map]; [discriminate|]. intro H. inversion H; subst.
        assert (E2 : Some ys = Some ys') by (apply IH; reflexivity). inversion E2. reflexivity.
    + split; [discriminate|]. destruct xs as [|y ys']; cbn [map]; [discriminate|]. intro H. inversion H; subst.
      assert (E2 : None = Some ys') by (apply IH; reflexivity). discriminate.
  - split; [discriminate|]. destruct xs; cbn [map]; discriminate.
Qed.

Lemma all_some_map_F2 {A B} (f : A -> option B) (l : list A) ys :
  all_some (map f l) = Some ys -> Forall2 (fun y x => f x = Some y) ys l.
Proof.
  intro H. apply all_some_spec in H. revert ys H. induction l as [|x r IH]; intros [|y ys] H; cbn [map] in H; try discriminate.
  - constructor.
  - inversion H. constructor; [assumption|]. apply IH. assumption.
Qed.

Lemma F2_impl {A B} (R S : A -> B -> Prop) l1 l2 : (forall a b, R a b -> S a b) -> Forall2 R l1 l2 -> Forall2 S l1 l2.
Proof. intros H F. induction F; constructor; auto. Qed.

Lemma all_some_total {A B} (f : A -> option B) (l : list A) :
  (forall x, In x l -> exists y, f x = Some y) -> exists ys, all_some (map f l) = Some ys.
Proof.
  induction l as [|x r IH]; intro H; cbn [map all_some]; [eauto|].
  destruct (H x (or_introl eq_refl)) as [y Hy]. rewrite Hy.
  destruct IH as [ys Hys]; [intros z Hz; apply H; right; exact Hz|]. rewrite Hys. eauto.
Qed.

Lemma list_max_app a b : list_max (a ++ b) = Nat.max (list_max a) (list_max b).
Proof. unfold list_max. induction a as [|x a IH]; cbn [app fold_right]; [reflexivity|]. rewrite IH. lia. Qed.

Lemma list_max_lt qs n : qs <> [] -> Forall (fun q => q < n) qs -> list_max qs < n.
Proof.
  intros Hne H. pose proof (list_max_in qs Hne) as Hin. rewrite Forall_forall in H. apply H. exact Hin.
Qed.

Lemma nodupb_spec l : nodupb l = true <-> NoDup l.
Proof.
  induction l as [|x r IH]; cbn [nodupb]; [split; [constructor|reflexivity]|].
  rewrite andb_true_iff, negb_true_iff, mem_false, IH. split.
  - intros [H1 H2]. constructor; assumption.
  - intro H. inversion H; subst. split; assumption.
Qed.

Lemma set_order_ok_spec qs order :
  set_order_ok qs order = true <-> NoDup order /\ forall q, In q order <-> In q qs.
Proof.
  unfold set_order_ok. rewrite !andb_true_iff, nodupb_spec, !forallb_forall. split.
  - intros [[H1 H2] H3]. split; [exact H1|]. intro q. split; intro Hq.
    + apply mem_In. apply H3. exact Hq.
    + apply mem_In. apply H2. exact Hq.
  - intros [H1 H2]. repeat split; [exact H1| |]; intros q Hq; apply mem_In; apply H2; exact Hq.
Qed.

(* the set order lists exactly the distinct elements: a permutation of the de-duplicated collection *)
Lemma set_order_perm qs order : set_order_ok qs order = true -> Permutation order (nodup Nat.eq_dec qs).
Proof.
  intro H. apply set_order_ok_spec in H. destruct H as [Hnd Hin].
  apply NoDup_Permutation; [exact Hnd|apply NoDup_nodup|].
  intro q. rewrite nodup_In. apply Hin.
Qed.

Lemma combine_seq_map {A B} (f : A -> B) (rows : list A) (d : A) s :
  combine (seq s (List.length rows)) (map f rows) = map (fun i => (i, f (nth (i - s) rows d))) (seq s (List.length rows)).
Proof.
  revert s. induction rows as [|r rows IH]; intro s; cbn [List.length seq map combine]; [reflexivity|].
  rewrite Nat.sub_diag. cbn [nth]. f_equal. rewrite IH. apply map_ext_in. intros i Hi. apply in_seq in Hi.
  replace (i - s) with (S (i - S s)) by lia. reflexivity.
Qed.

(* =========================================================================================== Part 1: shape *)
Section Shape.
  Variable P : Type.
  Variable pfree : P -> bool.
  Notation gop := (gop P).
  Notation gcirc := (gcirc P).
  Notation dagger := (dagger pfree).
  Notation controlled := (controlled pfree).
  Notation inverse := (inverse pfree).
  Notation controlled_circuit := (controlled_circuit pfree).

  Lemma mk_gcirc_pos (ops : list gop) n : 0 < n -> mk_gcirc ops n = mk_gc (P:=P) n ops.
  Proof. destruct n; [lia|reflexivity]. Qed.

  Lemma wf_ops_nil n (ops : list gop) : Forall (op_wf n) ops -> n = 0 -> ops = [].
  Proof.
    intros H ->. destruct ops as [|op r]; [reflexivity|]. inversion H as [|? ? [_ [Hne [_ Hlt]]] _]; subst.
    destruct (snd op) as [|q qs]; [congruence|]. inversion Hlt; subst. lia.
  Qed.

  (* Circuit(ops, n_qubits=n) keeps n whenever the operations fit n qubits (n = 0 only for no operations) *)
  Lemma mk_gcirc_wf (ops : list gop) n : Forall (op_wf n) ops -> mk_gcirc ops n = mk_gc n ops.
  Proof.
    intro H. destruct n as [|n]; [|reflexivity]. rewrite (wf_ops_nil 0 ops H eq_refl). reflexivity.
  Qed.

  Lemma gc_append_shape (c : gcirc) (op : gop) :
    gc_n (gc_append c op) = Nat.max (gc_n c) (S (list_max (snd op))) /\ gc_ops (gc_append c op) = gc_ops c ++ [op].
  Proof. unfold gc_append. rewrite mk_gcirc_pos by lia. split; reflexivity. Qed.

  Lemma gc_add_shape (c1 c2 : gcirc) : gc_wf c1 -> gc_wf c2 ->
    gc_n (gc_add c1 c2) = Nat.max (gc_n c1) (gc_n c2) /\ gc_ops (gc_add c1 c2) = gc_ops c1 ++ gc_ops c2.
  Proof.
    intros H1 H2. unfold gc_add. destruct (Nat.max (gc_n c1) (gc_n c2)) as [|m] eqn:E.
    - rewrite (wf_ops_nil _ _ H1) by lia. rewrite (wf_ops_nil _ _ H2) by lia. split; reflexivity.
    - split; reflexivity.
  Qed.

  (* ---------------------------------------------------------------- inverse *)
  (* the operations of the inverse: the original ones in reverse order, each on its own qubit tuple, each gate
     the one .dagger returned *)
  Theorem inverse_structure (c c' : gcirc) : inverse c = Some c' ->
    Forall2 (fun op' op => snd op' = snd op /\ dagger (fst op) = Some (fst op')) (gc_ops c') (rev (gc_ops c)) /\
    (gc_wf c -> gc_n c' = gc_n c).
  Proof.
    unfold Constructions.inverse. destruct (all_some (map (dagger_op pfree) (rev (gc_ops c)))) as [ops|] eqn:E; [|discriminate].
    intro H. inversion H; subst c'. clear H.
    assert (F : Forall2 (fun op' op => snd op' = snd op /\ dagger (fst op) = Some (fst op')) ops (rev (gc_ops c))).
    { apply all_some_map_F2 in E. eapply F2_impl; [|exact E]. intros op' op Hd. unfold dagger_op in Hd.
      destruct (dagger (fst op)) as [g|]; [|discriminate]. inversion Hd. cbn [fst snd]. split; reflexivity. }
    split.
    - destruct (gc_n c); cbn [mk_gcirc gc_ops]; exact F.
    - intro Hwf. destruct (gc_n c) as [|n] eqn:En; [|reflexivity].
      unfold gc_wf in Hwf. rewrite En in Hwf. apply wf_ops_nil in Hwf; [|reflexivity].
      rewrite Hwf in F. cbn [rev] in F. inversion F; subst. reflexivity.
  Qed.

  Lemma Forall2_length_eq {A B} (R : A -> B -> Prop) l1 l2 : Forall2 R l1 l2 -> List.length l1 = List.length l2.
  Proof. induction 1; cbn [List.length]; congruence. Qed.

  Theorem inverse_length (c c' : gcirc) : inverse c = Some c' -> List.length (gc_ops c') = List.length (gc_ops c).
  Proof.
    intro H. destruct (inverse_structure _ _ H) as [F _]. apply Forall2_length_eq in F. rewrite rev_length in F. exact F.
  Qed.

  (* .dagger never raises on an object that passed the constructors' checks, so inverse() returns a circuit *)
  Lemma power_total e (g : gate P) : wf pfree g = true -> has_free pfree g = false -> exists r, power pfree e g = Some r.
  Proof.
    induction g as [n ps q h|w IH k|w IH|w IH|w IH e']; intros Hw Hf; cbn [power];
      try (unfold mk_pow; rewrite Hf; eauto).
    cbn [wf] in Hw. apply andb_true_iff in Hw. destruct Hw as [Hk Hw].
    destruct (IH Hw Hf) as [r Hr]. rewrite Hr. cbn [obind]. unfold mk_ctrl.
    apply Nat.leb_le in Hk. destruct (Nat.ltb_spec k 1); [lia|]. eauto.
  Qed.

  Lemma dagger_total (g : gate P) : wf pfree g = true -> exists r, dagger g = Some r.
  Proof.
    induction g as [n ps q h|w IH k|w IH|w IH|w IH e]; intro Hw; cbn [GateAst.dagger]; eauto.
    - cbn [wf] in Hw. apply andb_true_iff in Hw. destruct Hw as [Hk Hw]. destruct (IH Hw) as [r Hr]. rewrite Hr. cbn [obind].
      unfold mk_ctrl. apply Nat.leb_le in Hk. destruct (Nat.ltb_spec k 1); [lia|]. eauto.
    - cbn [wf] in Hw. apply andb_true_iff in Hw. destruct Hw as [Hf Hw]. apply negb_true_iff in Hf.
      destruct (IH Hw) as [r Hr]. rewrite Hr. cbn [obind]. unfold mk_exp.
      destruct (dagger_shape _ _ _ _ Hr) as [_ Hp]. rewrite (has_free_params _ _ _ _ Hp), Hf. eauto.
    - cbn [wf] in Hw. apply andb_true_iff in Hw. destruct Hw as [Hf Hw]. apply negb_true_iff in Hf.
      destruct (IH Hw) as [r Hr]. rewrite Hr. cbn [obind]. apply power_total.
      + exact (wf_dagger _ _ _ _ Hw Hr).
      + destruct (dagger_shape _ _ _ _ Hr) as [_ Hp]. rewrite (has_free_params _ _ _ _ Hp). exact Hf.
  Qed.

  Theorem inverse_total (c : gcirc) : Forall (fun op => wf pfree (fst op) = true) (gc_ops c) -> exists c', inverse c = Some c'.
  Proof.
    intro H. unfold Constructions.inverse.
    destruct (all_some_total (dagger_op pfree) (rev (gc_ops c))) as [ops Hops].
    - intros op Hin. apply in_rev in Hin. rewrite Forall_forall in H. destruct (dagger_total (fst op) (H op Hin)) as [r Hr].
      unfold dagger_op. rewrite Hr. eauto.
    - rewrite Hops. eauto.
  Qed.

  (* ---------------------------------------------------------------- controlled *)
  Theorem controlled_structure k (c c' : gcirc) : controlled_circuit k c = Some c' ->
    gc_n c' = S (Nat.max (gc_n c) k) /\
    Forall2 (fun op' op => snd op' = k :: map (shift_idx k) (snd op) /\ controlled 1 (fst op) = Some (fst op'))
            (gc_ops c') (gc_ops c).
  Proof.
    unfold Constructions.controlled_circuit.
    destruct (all_some (map (controlled_op pfree k) (gc_ops c))) as [ops|] eqn:E; [|discriminate].
    intro H. inversion H; subst c'. clear H. cbn [mk_gcirc gc_n gc_ops]. split; [reflexivity|].
    apply all_some_map_F2 in E. eapply F2_impl; [|exact E]. intros op' op Hd. unfold controlled_op in Hd.
    destruct (controlled 1 (fst op)) as [g|]; [|discriminate]. inversion Hd. cbn [fst snd]. split; reflexivity.
  Qed.

  (* the new qubit tuples are duplicate free and inside the new register, one longer than before *)
  Lemma shift_idx_inj k i j : shift_idx k i = shift_idx k j -> i = j.
  Proof. unfold shift_idx. destruct (Nat.leb_spec k i), (Nat.leb_spec k j); lia. Qed.
  Lemma shift_idx_ne k i : shift_idx k i <> k.
  Proof. unfold shift_idx. destruct (Nat.leb_spec k i); lia. Qed.
  Lemma shift_idx_lt k i n : i < n -> shift_idx k i < S n.
  Proof. unfold shift_idx. destruct (Nat.leb_spec k i); lia. Qed.

  Lemma controlled_tuple_wf k n qs : NoDup qs -> Forall (fun q => q < n) qs -> k <= n ->
    NoDup (k :: map (shift_idx k) qs) /\ Forall (fun q => q < S n) (k :: map (shift_idx k) qs).
  Proof.
    intros Hnd Hlt Hk. split.
    - constructor.
      + intro Hin. apply in_map_iff in Hin. destruct Hin as [i [Hi _]]. exact (shift_idx_ne _ _ Hi).
      + apply FinFun.Injective_map_NoDup; [intros i j; apply shift_idx_inj|exact Hnd].
    - constructor; [lia|]. apply Forall_forall. intros q Hin. apply in_map_iff in Hin. destruct Hin as [i [<- Hi]].
      apply shift_idx_lt. rewrite Forall_forall in Hlt. apply Hlt. exact Hi.
  Qed.

  (* ---------------------------------------------------------------- apply_gate_to_qubits / create_layer *)
  Lemma place_shape (pairs : list (nat * gate P)) : forall c : gcirc,
    gc_ops (place c pairs) = gc_ops c ++ map (fun qg => (snd qg, [fst qg])) pairs /\
    gc_n (place c pairs) = Nat.max (gc_n c) (list_max (map S (map fst pairs))).
  Proof.
    induction pairs as [|[q g] r IH]; intro c.
    - cbn [place fold_left map]. rewrite app_nil_r. cbn [list_max fold_right]. split; [reflexivity|lia].
    - change (place c ((q, g) :: r)) with (place (gc_append c (g, [q])) r).
      destruct (IH (gc_append c (g, [q]))) as [H1 H2].
      destruct (gc_append_shape c (g, [q])) as [Hn Ho]. cbn [fst snd] in *.
      rewrite H1, H2, Hn, Ho, <- app_assoc. cbn [app map fst snd]. split; [reflexivity|].
      unfold list_max. cbn [fold_right]. lia.
  Qed.

  Lemma combine_fst {A B} (l : list A) (m : list B) : List.length l = List.length m -> map fst (combine l m) = l.
  Proof. revert m. induction l as [|x l IH]; intros [|y m] H; cbn in *; try discriminate; [reflexivity|]. f_equal. apply IH. lia. Qed.
  Lemma combine_snd {A B} (l : list A) (m : list B) : List.length l = List.length m -> map snd (combine l m) = m.
  Proof. revert m. induction l as [|x l IH]; intros [|y m] H; cbn in *; try discriminate; [reflexivity|]. f_equal. apply IH. lia. Qed.

  (* apply_gate_to_qubits: the existing operations stay in place as a prefix; exactly one single-qubit operation
     is added per element of the set order (a permutation of the distinct listed qubits), on that qubit; with
     parameter rows the added gates are the factory applied to the rows, in order, each row once; without, the
     given gate every time; the register grows to hold the largest listed qubit *)
  Theorem apply_shape (c c' : gcirc) qs order fac rows :
    set_order_ok qs order = true -> apply_gate_to_qubits c order fac rows = Some c' ->
    exists new,
      gc_ops c' = gc_ops c ++ new /\
      map snd new = map (fun q => [q]) order /\
      Permutation order (nodup Nat.eq_dec qs) /\
      List.length new = List.length (nodup Nat.eq_dec qs) /\
      map fst new = match rows with Some rs => map fac rs | None => map (fun _ => fac []) order end /\
      gc_n c' = Nat.max (gc_n c) (list_max (map S order)).
  Proof.
    intros Hok H. pose proof (set_order_perm _ _ Hok) as Hperm. unfold apply_gate_to_qubits in H.
    destruct rows as [rs|].
    - destruct (Nat.eqb_spec (List.length rs) (List.length order)) as [El|]; [|discriminate]. inversion H; subst c'. clear H.
      destruct (place_shape (combine order (map fac rs)) c) as [H1 H2].
      assert (El' : List.length order = List.length (map fac rs)) by (rewrite map_length; lia).
      exists (map (fun qg => (snd qg, [fst qg])) (combine order (map fac rs))). repeat split.
      + exact H1.
      + rewrite map_map. cbn [snd]. rewrite <- (map_map fst (fun q => [q])). rewrite combine_fst by exact El'. reflexivity.
      + exact Hperm.
      + rewrite map_length, combine_length, <- El', Nat.min_id. apply Permutation_length. exact Hperm.
      + rewrite map_map. cbn [fst]. apply combine_snd. exact El'.
      + rewrite H2, combine_fst by exact El'. reflexivity.
    - inversion H; subst c'. clear H.
      destruct (place_shape (map (fun q => (q, fac [])) order) c) as [H1 H2].
      exists (map (fun qg => (snd qg, [fst qg])) (map (fun q => (q, fac [])) order)). repeat split.
      + exact H1.
      + rewrite !map_map. reflexivity.
      + exact Hperm.
      + rewrite !map_length. apply Permutation_length. exact Hperm.
      + rewrite !map_map. reflexivity.
      + rewrite H2. replace (map fst (map (fun q => (q, fac [])) order)) with order; [reflexivity|].
        rewrite map_map. cbn [fst]. symmetry. apply map_id.
  Qed.

  (* the length check *)
  Theorem apply_rejects (c : gcirc) order fac rs :
    List.length rs <> List.length order -> apply_gate_to_qubits c order fac (Some rs) = None.
  Proof. intro H. unfold apply_gate_to_qubits. destruct (Nat.eqb_spec (List.length rs) (List.length order)); [contradiction|reflexivity]. Qed.

  Lemma list_max_S_seq n : list_max (map S (seq 0 n)) = n.
  Proof.
    induction n as [|n IH]; [reflexivity|]. rewrite seq_S, map_app, list_max_app, IH. cbn [map list_max fold_right Nat.add]. lia.
  Qed.

  (* a layer: exactly the gate for row i on qubit i, for i = 0 .. n-1, on n qubits *)
  Theorem layer_shape n fac rows (c : gcirc) : create_layer n fac (Some rows) = Some c ->
    List.length rows = n /\ gc_n c = n /\ gc_ops c = map (fun i => (fac (nth i rows []), [i])) (seq 0 n).
  Proof.
    unfold create_layer, apply_gate_to_qubits. rewrite seq_length.
    destruct (Nat.eqb_spec (List.length rows) n) as [El|]; [|discriminate]. intro H. inversion H; subst c. clear H.
    change (mk_gcirc (P:=P) [] 0) with (mk_gc (P:=P) 0 []) in *.
    destruct (place_shape (combine (seq 0 n) (map fac rows)) (mk_gc 0 [])) as [H1 H2]. split; [exact El|]. split.
    - rewrite H2. cbn [gc_n]. rewrite combine_fst by (rewrite seq_length, map_length; lia).
      rewrite list_max_S_seq. lia.
    - rewrite H1. cbn [gc_ops app]. subst n. rewrite (combine_seq_map fac rows [] 0), map_map. cbn [fst snd].
      apply map_ext. intro i. rewrite Nat.sub_0_r. reflexivity.
  Qed.

  Theorem layer_shape_noparams n fac (c : gcirc) : create_layer n fac None = Some c ->
    gc_n c = n /\ gc_ops c = map (fun i => (fac [], [i])) (seq 0 n).
  Proof.
    unfold create_layer, apply_gate_to_qubits. intro H. inversion H; subst c. clear H.
    change (mk_gcirc (P:=P) [] 0) with (mk_gc (P:=P) 0 []) in *.
    destruct (place_shape (map (fun q => (q, fac [])) (seq 0 n)) (mk_gc 0 [])) as [H1 H2]. split.
    - rewrite H2. cbn [gc_n]. replace (map fst (map (fun q => (q, fac [])) (seq 0 n))) with (seq 0 n).
      + rewrite list_max_S_seq. lia.
      + rewrite map_map. cbn [fst]. symmetry. apply map_id.
    - rewrite H1. cbn [gc_ops app]. rewrite map_map. reflexivity.
  Qed.

  Theorem layer_rejects n (fac : list P -> gate P) rows : List.length rows <> n -> create_layer n fac (Some rows) = None.
  Proof. intro H. unfold create_layer. apply apply_rejects. rewrite seq_length. exact H. Qed.

  (* ---------------------------------------------------------------- add_ancilla_register *)
  Lemma ancilla_fold n0 a : forall s (acc : gcirc), gc_n acc = n0 + s \/ (a = 0) ->
    let r := fold_left (fun acc i => gc_append acc (igate, [n0 + i])) (seq s a) acc in
    gc_ops r = gc_ops acc ++ map (fun i => (igate, [n0 + i])) (seq s a) /\ (0 < a -> gc_n r = n0 + s + a).
  Proof.
    induction a as [|a IH]; intros s acc Hacc; cbn [seq fold_left map].
    - rewrite app_nil_r. split; [reflexivity|lia].
    - destruct Hacc as [Hacc|Hacc]; [|discriminate].
      destruct (gc_append_shape acc (igate, [n0 + s])) as [Hn Ho]. cbn [snd] in Hn.
      assert (Hn' : gc_n (gc_append acc (igate, [n0 + s])) = n0 + S s).
      { rewrite Hn, Hacc. unfold list_max. cbn [fold_right]. lia. }
      destruct (IH (S s) (gc_append acc (igate, [n0 + s])) (or_introl Hn')) as [H1 H2]. cbv zeta in H1, H2. split.
      + rewrite H1, Ho, <- app_assoc. reflexivity.
      + intros _. destruct a as [|a']; [cbn [seq fold_left]; lia|]. rewrite H2 by lia. lia.
  Qed.

  Theorem ancilla_shape (c : gcirc) a :
    gc_n (add_ancilla c a) = gc_n c + a /\
    gc_ops (add_ancilla c a) = gc_ops c ++ map (fun i => (igate, [gc_n c + i])) (seq 0 a).
  Proof.
    unfold add_ancilla. destruct (ancilla_fold (gc_n c) a 0 c (or_introl (eq_sym (Nat.add_0_r _)))) as [H1 H2]. cbv zeta in H1, H2.
    split; [|exact H1]. destruct a as [|a]; [cbn [seq fold_left]; lia|]. rewrite H2 by lia. lia.
  Qed.
End Shape.

(* =========================================================================================== Part 2: meaning *)
Lemma F2_map2 {A B C D} (R : A -> B -> Prop) (S : C -> D -> Prop) (f : A -> C) (g : B -> D) l1 l2 :
  (forall a b, R a b -> S (f a) (g b)) -> Forall2 R l1 l2 -> Forall2 S (map f l1) (map g l2).
Proof. intros H F. induction F; cbn [map]; constructor; auto. Qed.

Lemma F2_and_r {A B} (R : A -> B -> Prop) (Q : B -> Prop) l1 l2 :
  Forall2 R l1 l2 -> Forall Q l2 -> Forall2 (fun a b => R a b /\ Q b) l1 l2.
Proof. intros F. induction F as [|a b r1 r2 Hab _ IH]; intro HQ; inversion HQ; subst; constructor; auto. Qed.

Lemma Forall_rev' {A} (Q : A -> Prop) l : Forall Q l -> Forall Q (rev l).
Proof. rewrite !Forall_forall. intros H x Hx. apply H. apply in_rev. exact Hx. Qed.

Section Matrices.
  Variable K : cring.
  Add Ring Kring2 : (c_ring K).
  Local Open Scope cr_scope.

  Definition unitary (d : nat) (M : Mat K) : Prop := mat_eq d (mmul d (adj M) M) eye.

  Lemma mm_assoc d (A B C : Mat K) : mat_eq d (mmul d (mmul d A B) C) (mmul d A (mmul d B C)).
  Proof. intros i j _ _. apply mmul_assoc. Qed.
  Lemma mm_eye_l d (A : Mat K) : mat_eq d (mmul d eye A) A.
  Proof. intros i j Hi _. apply mmul_eye_l. exact Hi. Qed.
  Lemma mm_eye_r d (A : Mat K) : mat_eq d (mmul d A eye) A.
  Proof. intros i j _ Hj. apply mmul_eye_r. exact Hj. Qed.
  Lemma adj_mm d (A B : Mat K) : mat_eq d (adj (mmul d A B)) (mmul d (adj B) (adj A)).
  Proof. intros i j _ _. apply adj_mmul. Qed.

  (* (M_m ... M_1)^dagger = M_1^dagger ... M_m^dagger: the adjoints in reverse program order *)
  Lemma adj_prog_prod d (Ms : list (Mat K)) :
    mat_eq d (adj (prog_prod d Ms)) (prog_prod d (rev (map adj Ms))).
  Proof.
    induction Ms as [|M r IH]; cbn [prog_prod map rev].
    - intros i j _ _. apply adj_eye.
    - eapply mat_eq_trans; [apply adj_mm|]. apply mat_eq_sym.
      eapply mat_eq_trans; [apply prog_prod_app|]. cbn [prog_prod].
      apply mmul_compat; [apply mm_eye_l|apply mat_eq_sym, IH].
  Qed.

  Lemma prog_prod_unitary d (Ms : list (Mat K)) : Forall (unitary d) Ms -> unitary d (prog_prod d Ms).
  Proof.
    induction 1 as [|M r HM Hr IH]; unfold unitary in *; cbn [prog_prod].
    - eapply mat_eq_trans; [apply mm_eye_r|]. intros i j _ _. apply adj_eye.
    - eapply mat_eq_trans; [apply mmul_compat; [apply adj_mm|apply mat_eq_refl]|].
      eapply mat_eq_trans; [apply mm_assoc|].
      eapply mat_eq_trans; [apply mmul_compat; [apply mat_eq_refl|apply mat_eq_sym, mm_assoc]|].
      eapply mat_eq_trans; [apply mmul_compat; [apply mat_eq_refl|apply mmul_compat; [exact IH|apply mat_eq_refl]]|].
      eapply mat_eq_trans; [apply mmul_compat; [apply mat_eq_refl|apply mm_eye_l]|]. exact HM.
  Qed.

  Lemma prog_prod_eyes d (Ms : list (Mat K)) : Forall (fun M => mat_eq d M eye) Ms -> mat_eq d (prog_prod d Ms) eye.
  Proof.
    induction 1 as [|M r HM Hr IH]; cbn [prog_prod]; [apply mat_eq_refl|].
    eapply mat_eq_trans; [apply mmul_compat; [exact IH|exact HM]|]. apply mm_eye_l.
  Qed.

  (* a unitary gate lifted to a register is unitary *)
  Lemma lift_unitary (G : Mat K) qs n : NoDup qs -> Forall (fun q => q < n) qs ->
    unitary (2 ^ List.length qs) G -> unitary (2 ^ n) (lift_spec G qs n).
  Proof.
    intros Hnd Hlt HG. unfold unitary in *.
    eapply mat_eq_trans; [apply mmul_compat; [|apply mat_eq_refl]|].
    { intros i j _ _. symmetry. apply lift_adj. }
    eapply mat_eq_trans; [apply lift_mul; assumption|].
    eapply mat_eq_trans; [apply lift_compat, HG|]. apply lift_eye.
  Qed.
End Matrices.

Arguments unitary {K}.

Section Meaning.
  Variable K : cring.
  Variable P : Type.
  Variable pfree : P -> bool.
  Variable o : oracles K P.
  Notation gop := (gop P).
  Notation gcirc := (gcirc P).
  Notation sem := (sem o).
  Notation denote := (denote o).
  Notation U := (gc_unitary o).
  Notation inverse := (inverse pfree).
  Notation controlled_circuit := (controlled_circuit pfree).

  Lemma denote_wf n (op : gop) : op_wf n op -> wf_gate n (denote op).
  Proof. intros [_ H]. exact H. Qed.
  Lemma denote_wf_all n (ops : list gop) : Forall (op_wf n) ops -> Forall (wf_gate n) (map denote ops).
  Proof. intro H. apply Forall_map. eapply Forall_impl; [|exact H]. intros op. apply denote_wf. Qed.

  Lemma U_program_order (c : gcirc) : gc_wf c ->
    mat_eq (2 ^ gc_n c) (U c) (prog_prod (2 ^ gc_n c) (map (fun op => lift_spec (sem (fst op)) (snd op) (gc_n c)) (gc_ops c))).
  Proof.
    intro H. unfold gc_unitary. eapply mat_eq_trans; [apply to_unitary_program_order, denote_wf_all, H|].
    rewrite map_map. apply mat_eq_refl.
  Qed.

  (* ---------------------------------------------------------------- inverse *)
  (* what the inverse theorems need from a gate: the object .dagger returns has the adjoint matrix *)
  Definition dag_ok (op : gop) : Prop :=
    forall g', dagger pfree (fst op) = Some g' -> mat_eq (2 ^ List.length (snd op)) (sem g') (adj (sem (fst op))).

  Lemma inverse_wf (c c' : gcirc) : gc_wf c -> inverse c = Some c' -> gc_wf c'.
  Proof.
    intros Hwf H. destruct (inverse_structure _ _ _ _ H) as [F Hn]. unfold gc_wf. rewrite (Hn Hwf).
    unfold gc_wf in Hwf. apply Forall_rev' in Hwf. apply (F2_and_r _ _ _ _ F) in Hwf. clear F Hn.
    set (n := gc_n c) in *. clearbody n. remember (rev (gc_ops c)) as l eqn:El. clear El.
    induction Hwf as [|op' op r' r [[Hq Hd] [H1 H2]] _ IH]; constructor; [|exact IH].
    destruct (dagger_shape _ _ _ _ Hd) as [Hnq _]. split; [rewrite Hq, Hnq; exact H1|rewrite Hq; exact H2].
  Qed.

  Theorem inverse_adjoint (c c' : gcirc) : gc_wf c -> Forall dag_ok (gc_ops c) -> inverse c = Some c' ->
    mat_eq (2 ^ gc_n c) (U c') (adj (U c)).
  Proof.
    intros Hwf Hd H. pose proof (inverse_wf _ _ Hwf H) as Hwf'. destruct (inverse_structure _ _ _ _ H) as [F Hn].
    specialize (Hn Hwf). pose proof (U_program_order c' Hwf') as E1. rewrite Hn in E1.
    eapply mat_eq_trans; [exact E1|]. clear E1.
    eapply mat_eq_trans; [|apply mat_eq_sym; eapply mat_eq_trans; [apply adj_compat, U_program_order, Hwf|apply adj_prog_prod]].
    rewrite map_map, <- map_rev. apply prog_prod_compat.
    assert (Hd' : Forall dag_ok (rev (gc_ops c))) by (apply Forall_rev'; exact Hd).
    apply (F2_and_r _ _ _ _ F) in Hd'. clear F. eapply F2_map2; [|exact Hd'].
    intros op' op [[Hq Hdg] Hok]. cbv beta.
    rewrite Hq. eapply mat_eq_trans; [apply lift_compat, (Hok _ Hdg)|].
    intros i j _ _. apply lift_adj.
  Qed.

  Definition unitary_op (op : gop) : Prop := unitary (2 ^ List.length (snd op)) (sem (fst op)).

  Lemma U_unitary (c : gcirc) : gc_wf c -> Forall unitary_op (gc_ops c) -> unitary (2 ^ gc_n c) (U c).
  Proof.
    intros Hwf Hu. pose proof (U_program_order c Hwf) as E. unfold unitary.
    eapply mat_eq_trans; [apply mmul_compat; [apply adj_compat, E|exact E]|].
    apply prog_prod_unitary. apply Forall_map. unfold gc_wf in Hwf. rewrite Forall_forall in *. intros op Hin.
    destruct (Hwf op Hin) as [_ [_ [Hnd Hlt]]]. apply lift_unitary; [exact Hnd|exact Hlt|]. apply Hu. exact Hin.
  Qed.

  (* the circuit followed by its inverse is the identity on the whole register *)
  Theorem inverse_cancels (c c' : gcirc) : gc_wf c -> Forall dag_ok (gc_ops c) -> Forall unitary_op (gc_ops c) ->
    inverse c = Some c' ->
    gc_n (gc_add c c') = gc_n c /\ mat_eq (2 ^ gc_n c) (U (gc_add c c')) eye.
  Proof.
    intros Hwf Hd Hu H. pose proof (inverse_wf _ _ Hwf H) as Hwf'. destruct (inverse_structure _ _ _ _ H) as [_ Hn].
    specialize (Hn Hwf). destruct (gc_add_shape _ c c' Hwf Hwf') as [Hn2 Ho2]. rewrite Hn, Nat.max_id in Hn2.
    split; [exact Hn2|]. unfold gc_unitary at 1. rewrite Hn2, Ho2, map_app.
    eapply mat_eq_trans; [apply concat_composes|].
    eapply mat_eq_trans; [apply mmul_compat; [|apply mat_eq_refl]|].
    { pose proof (inverse_adjoint _ _ Hwf Hd H) as E. unfold gc_unitary at 1 in E. rewrite Hn in E. exact E. }
    apply (U_unitary c Hwf Hu).
  Qed.

  (* inverting twice gives a circuit with the original action *)
  Theorem inverse_twice_action (c c' c'' : gcirc) : gc_wf c -> Forall dag_ok (gc_ops c) -> Forall dag_ok (gc_ops c') ->
    inverse c = Some c' -> inverse c' = Some c'' ->
    gc_n c'' = gc_n c /\ mat_eq (2 ^ gc_n c) (U c'') (U c).
  Proof.
    intros Hwf Hd Hd' H H'. pose proof (inverse_wf _ _ Hwf H) as Hwf'.
    destruct (inverse_structure _ _ _ _ H) as [_ Hn]. specialize (Hn Hwf).
    destruct (inverse_structure _ _ _ _ H') as [_ Hn']. specialize (Hn' Hwf'). split; [congruence|].
    pose proof (inverse_adjoint _ _ Hwf' Hd' H') as E. rewrite Hn in E.
    eapply mat_eq_trans; [exact E|]. eapply mat_eq_trans; [apply adj_compat, (inverse_adjoint _ _ Hwf Hd H)|].
    intros i j _ _. apply adj_adj.
  Qed.

  (* with the gate-level theorem of C07 (GateAstSemProofs.dagger_sem): integer powers only (finding F8), sound
     is_hermitian flags, and the laws of sympy's exp / inv *)
  Definition dagger_safe (op : gop) : Prop := herm_flags_sound o (fst op) /\ int_powers_only (fst op) = true.

  Lemma dag_ok_of_safe n (op : gop) : exp_laws o -> inv_laws o -> op_wf n op -> dagger_safe op -> dag_ok op.
  Proof.
    intros LE LI [Hl _] [Hh Hi] g' Hd. rewrite Hl. eapply dagger_sem; eassumption.
  Qed.

  Lemma dag_ok_all (c : gcirc) : exp_laws o -> inv_laws o -> gc_wf c -> Forall dagger_safe (gc_ops c) -> Forall dag_ok (gc_ops c).
  Proof.
    intros LE LI Hwf Hs. unfold gc_wf in Hwf. rewrite Forall_forall in *. intros op Hin.
    eapply dag_ok_of_safe; [exact LE|exact LI|apply Hwf; exact Hin|apply Hs; exact Hin].
  Qed.

  Lemma inverse_safe (c c' : gcirc) : inverse c = Some c' -> Forall dagger_safe (gc_ops c) -> Forall dagger_safe (gc_ops c').
  Proof.
    intros H Hs. destruct (inverse_structure _ _ _ _ H) as [F _]. apply Forall_rev' in Hs.
    apply (F2_and_r _ _ _ _ F) in Hs. clear F. remember (rev (gc_ops c)) as l eqn:El. clear El.
    induction Hs as [|op' op r' r [[_ Hd] [Hh Hi]] _ IH]; constructor; [|exact IH]. split.
    - eapply hfs_dagger; eassumption.
    - eapply ipo_dagger; eassumption.
  Qed.

  Theorem inverse_adjoint_safe (c c' : gcirc) : exp_laws o -> inv_laws o -> gc_wf c -> Forall dagger_safe (gc_ops c) ->
    inverse c = Some c' -> mat_eq (2 ^ gc_n c) (U c') (adj (U c)).
  Proof. intros LE LI Hwf Hs. apply inverse_adjoint; [exact Hwf|apply dag_ok_all; assumption]. Qed.

  Theorem inverse_cancels_safe (c c' : gcirc) : exp_laws o -> inv_laws o -> gc_wf c -> Forall dagger_safe (gc_ops c) ->
    Forall unitary_op (gc_ops c) -> inverse c = Some c' ->
    gc_n (gc_add c c') = gc_n c /\ mat_eq (2 ^ gc_n c) (U (gc_add c c')) eye.
  Proof. intros LE LI Hwf Hs. apply inverse_cancels; [exact Hwf|apply dag_ok_all; assumption]. Qed.

  Theorem inverse_twice_safe (c c' c'' : gcirc) : exp_laws o -> inv_laws o -> gc_wf c -> Forall dagger_safe (gc_ops c) ->
    inverse c = Some c' -> inverse c' = Some c'' -> gc_n c'' = gc_n c /\ mat_eq (2 ^ gc_n c) (U c'') (U c).
  Proof.
    intros LE LI Hwf Hs H H'. apply (inverse_twice_action c c' c''); try assumption.
    - apply dag_ok_all; assumption.
    - apply dag_ok_all; try assumption; [exact (inverse_wf _ _ Hwf H)|exact (inverse_safe _ _ H Hs)].
  Qed.

  (* ---------------------------------------------------------------- ancillas *)
  Theorem ancilla_sem (c : gcirc) a : gc_wf c -> mat_eq 2 (sem igate) eye ->
    gc_n (add_ancilla c a) = gc_n c + a /\
    mat_eq (2 ^ (gc_n c + a)) (U (add_ancilla c a)) (kron (2 ^ a) (U c) eye).
  Proof.
    intros Hwf HI. destruct (ancilla_shape _ c a) as [Hn Ho]. split; [exact Hn|].
    unfold gc_unitary at 1. rewrite Hn, Ho, map_app.
    eapply mat_eq_trans; [apply concat_composes|].
    eapply mat_eq_trans; [apply mmul_compat; [|apply to_unitary_widen, denote_wf_all, Hwf]|].
    - eapply mat_eq_trans; [apply to_unitary_program_order|].
      + rewrite map_map. apply Forall_map. apply Forall_forall. intros i Hi. apply in_seq in Hi.
        unfold Constructions.denote, wf_gate. cbn [g_qs snd]. split; [discriminate|]. split.
        * constructor; [intros []|constructor].
        * constructor; [lia|constructor].
      + apply prog_prod_eyes. rewrite !map_map. apply Forall_map. apply Forall_forall. intros i _.
        unfold gate_spec, Constructions.denote. cbn [g_mat g_qs fst snd].
        eapply mat_eq_trans; [apply (lift_compat K _ eye [gc_n c + i]); exact HI|]. apply lift_eye.
    - apply mm_eye_l.
  Qed.
End Meaning.

(* ------------------------------------------------------------------------------------------- controlled *)
(* bit strings with one position removed *)
Lemma del_at_nth {A} k : forall (l : list A) d i, nth i (del_at k l) d = nth (shift_idx k i) l d.
Proof.
  unfold del_at. induction k as [|k IH]; intros [|x l] d i.
  - cbn. destruct i; reflexivity.
  - cbn [firstn skipn app]. unfold shift_idx. cbn [Nat.leb]. reflexivity.
  - cbn. destruct (shift_idx (S k) i); destruct i; reflexivity.
  - cbn [firstn skipn app]. destruct i as [|i].
    + reflexivity.
    + cbn [nth]. rewrite IH. unfold shift_idx. cbn [Nat.leb]. destruct (k <=? i); reflexivity.
Qed.

Lemma del_at_length {A} k : forall (l : list A), k < List.length l -> S (List.length (del_at k l)) = List.length l.
Proof.
  unfold del_at. induction k as [|k IH]; intros [|x l] H; cbn [List.length] in H; try lia.
  - reflexivity.
  - cbn [firstn skipn app List.length]. rewrite IH by lia. reflexivity.
Qed.

Lemma select_cons q qs x : select (q :: qs) x = nth q x false :: select qs x.
Proof. reflexivity. Qed.

Lemma select_shift_del k qs b : select (map (shift_idx k) qs) b = select qs (del_at k b).
Proof. unfold select. rewrite map_map. apply map_ext. intro q. symmetry. apply del_at_nth. Qed.

Lemma shift_idx_surj k j n : j <> k -> j < S n -> k <= n -> exists i, shift_idx k i = j /\ i < n.
Proof.
  intros Hne Hj Hk. destruct (Nat.lt_ge_cases j k) as [H|H].
  - exists j. unfold shift_idx. destruct (Nat.leb_spec k j); lia.
  - exists (j - 1). unfold shift_idx. destruct (Nat.leb_spec k (j - 1)); lia.
Qed.

Lemma agree_ctrl k qs (bx by' : list bool) n : List.length bx = S n -> List.length by' = S n -> k <= n ->
  agree_off (k :: map (shift_idx k) qs) bx by' = agree_off qs (del_at k bx) (del_at k by').
Proof.
  intros Lx Ly Hk. apply eq_true_iff_eq. rewrite !agree_off_spec.
  assert (Dx : List.length (del_at k bx) = n) by (pose proof (del_at_length k bx ltac:(lia)); lia).
  assert (Dy : List.length (del_at k by') = n) by (pose proof (del_at_length k by' ltac:(lia)); lia).
  split; intros [_ H]; (split; [lia|]).
  - intros i Hi Hn. rewrite Dx in Hi. rewrite !del_at_nth. apply H.
    + rewrite Lx. apply shift_idx_lt. exact Hi.
    + intros [E|Hin]; [exact (shift_idx_ne _ _ (eq_sym E))|]. apply in_map_iff in Hin. destruct Hin as [i' [E Hi']].
      apply shift_idx_inj in E. subst i'. contradiction.
  - intros j Hj Hn. rewrite Lx in Hj.
    destruct (shift_idx_surj k j n) as [i [E Hi]]; [intro E; apply Hn; left; symmetry; exact E|exact Hj|exact Hk|].
    subst j. rewrite <- !del_at_nth. apply H; [rewrite Dx; exact Hi|].
    intro Hin. apply Hn. right. apply in_map. exact Hin.
Qed.

Lemma del_at_eq k (a b : list bool) n : List.length a = S n -> List.length b = S n -> k <= n ->
  nth k a false = nth k b false -> del_at k a = del_at k b -> a = b.
Proof.
  intros La Lb Hk Hkk Hd. apply (nth_ext _ _ false false); [lia|]. intros j Hj. rewrite La in Hj.
  destruct (Nat.eq_dec j k) as [->|Hne]; [exact Hkk|].
  destruct (shift_idx_surj k j n Hne Hj Hk) as [i [<- _]]. rewrite <- !del_at_nth, Hd. reflexivity.
Qed.

Lemma select_seq_all (b : list bool) : select (seq 0 (List.length b)) b = b.
Proof.
  apply (nth_ext _ _ false false); [rewrite select_length, seq_length; reflexivity|].
  intros i Hi. rewrite select_length, seq_length in Hi. rewrite select_nth by (rewrite seq_length; exact Hi).
  rewrite seq_nth by exact Hi. reflexivity.
Qed.

Lemma pow_split n : 2 ^ S n = (2 ^ S n - 2 ^ n) + 2 ^ n.
Proof. assert (H : 2 ^ n <= 2 ^ S n) by (apply Nat.pow_le_mono_r; lia). lia. Qed.

Lemma xdel_lt k n x : k <= n -> xdel k n x < 2 ^ n.
Proof.
  intro Hk. unfold xdel. pose proof (val_lt (del_at k (bits (S n) x))) as H.
  pose proof (del_at_length k (bits (S n) x)) as L. rewrite bits_length in L. specialize (L ltac:(lia)).
  replace (List.length (del_at k (bits (S n) x))) with n in H by lia. exact H.
Qed.

Section ControlledForm.
  Variable K : cring.
  Add Ring Kring3 : (c_ring K).
  Notation ind := (@ind K).

  Lemma diag_ctrl1 m (G : Mat K) b r b' r' : r < 2 ^ m -> r' < 2 ^ m ->
    diag_id (2 ^ S m - 2 ^ m) G (b2n b * 2 ^ m + r) (b2n b' * 2 ^ m + r') =
    if b && b' then G r r' else eye (b2n b * 2 ^ m + r) (b2n b' * 2 ^ m + r').
  Proof.
    intros Hr Hr'. replace (2 ^ S m - 2 ^ m) with (2 ^ m) by (rewrite Nat.pow_succ_r'; lia).
    set (d := 2 ^ m) in *. clearbody d. unfold diag_id.
    destruct b, b'; cbn [b2n andb].
    - destruct (Nat.ltb_spec (1 * d + r) d); [lia|]. destruct (Nat.ltb_spec (1 * d + r') d); [lia|]. cbn [orb].
      f_equal; lia.
    - destruct (Nat.ltb_spec (0 * d + r') d); [|lia]. rewrite orb_true_r. reflexivity.
    - destruct (Nat.ltb_spec (0 * d + r) d); [|lia]. reflexivity.
    - destruct (Nat.ltb_spec (0 * d + r) d); [|lia]. reflexivity.
  Qed.

  (* equal control bits and equal remaining bits: the same index *)
  Lemma ctrl_eye_collapse k n qs x y : k <= n -> x < 2 ^ S n -> y < 2 ^ S n ->
    let bx := bits (S n) x in let by' := bits (S n) y in
    let dx := del_at k bx in let dy := del_at k by' in
    cmul (@eye K (b2n (nth k bx false) * 2 ^ List.length qs + val (select qs dx))
                 (b2n (nth k by' false) * 2 ^ List.length qs + val (select qs dy))) (ind (agree_off qs dx dy))
    = @eye K x y.
  Proof.
    intros Hk Hx Hy bx by' dx dy. rewrite !eye_ind, <- ind_andb. apply ind_iff.
    assert (Lx : List.length bx = S n) by apply bits_length. assert (Ly : List.length by' = S n) by apply bits_length.
    rewrite andb_true_iff, !Nat.eqb_eq. split.
    - intros [E Ha].
      pose proof (val_lt (select qs dx)) as Rx. pose proof (val_lt (select qs dy)) as Ry. rewrite select_length in Rx, Ry.
      set (d := 2 ^ List.length qs) in *. clearbody d.
      assert (E1 : nth k bx false = nth k by' false /\ val (select qs dx) = val (select qs dy)).
      { destruct (nth k bx false), (nth k by' false); cbn [b2n] in E; split; try reflexivity; lia. }
      destruct E1 as [Eb Es]. apply val_inj in Es; [|rewrite !select_length; reflexivity].
      pose proof (agree_select_eq qs dx dy Ha Es) as Ed.
      apply (bits_inj (S n)); try assumption. apply (del_at_eq k _ _ n); assumption.
    - intros ->. split; [reflexivity|]. apply agree_off_refl.
  Qed.

  (* the controlled gate (control first in its tuple) lifted to n+1 qubits is the controlled form of the gate
     lifted to n qubits *)
  Lemma lift_ctrl_cform k n (G : Mat K) qs : k <= n ->
    mat_eq (2 ^ S n)
      (lift_spec (diag_id (2 ^ S (List.length qs) - 2 ^ List.length qs) G) (k :: map (shift_idx k) qs) (S n))
      (cform k n (lift_spec G qs n)).
  Proof.
    intros Hk x y Hx Hy. unfold lift_spec at 1. cbv zeta. unfold cform, xbit, xdel.
    set (bx := bits (S n) x). set (by' := bits (S n) y).
    assert (Lx : List.length bx = S n) by apply bits_length. assert (Ly : List.length by' = S n) by apply bits_length.
    rewrite !select_cons, !select_shift_del. cbn [val]. rewrite !select_length.
    rewrite (agree_ctrl k qs bx by' n Lx Ly Hk).
    rewrite diag_ctrl1;
      [|rewrite <- (select_length qs (del_at k bx)); apply val_lt|rewrite <- (select_length qs (del_at k by')); apply val_lt].
    pose proof (ctrl_eye_collapse k n qs x y Hk Hx Hy) as C. cbv zeta in C. fold bx by' in C.
    destruct (nth k bx false), (nth k by' false); cbn [andb]; try exact C.
    unfold lift_spec. cbv zeta.
      assert (Dx : List.length (del_at k bx) = n) by (pose proof (del_at_length k bx ltac:(lia)); lia).
      assert (Dy : List.length (del_at k by') = n) by (pose proof (del_at_length k by' ltac:(lia)); lia).
      assert (Bx : bits n (val (del_at k bx)) = del_at k bx) by (rewrite <- Dx at 1; apply bits_val).
      assert (By : bits n (val (del_at k by')) = del_at k by') by (rewrite <- Dy at 1; apply bits_val).
      rewrite Bx, By. reflexivity.
  Qed.

  (* lifting on the whole register in its own order does nothing *)
  Lemma lift_full n (A : Mat K) : mat_eq (2 ^ n) (lift_spec A (seq 0 n) n) A.
  Proof.
    intros i j Hi Hj. unfold lift_spec. cbv zeta.
    pose proof (select_seq_all (bits n i)) as Si. pose proof (select_seq_all (bits n j)) as Sj.
    rewrite bits_length in Si, Sj. rewrite Si, Sj, !val_bits_lt by assumption.
    replace (agree_off (seq 0 n) (bits n i) (bits n j)) with true; [cbn [Lift.ind]; ring|].
    symmetry. apply agree_off_spec. rewrite !bits_length. split; [reflexivity|].
    intros q Hq Hn. exfalso. apply Hn. apply in_seq. lia.
  Qed.

  Lemma cform_compat k n (A A' : Mat K) : k <= n -> mat_eq (2 ^ n) A A' -> mat_eq (2 ^ S n) (cform k n A) (cform k n A').
  Proof.
    intros Hk H x y _ _. unfold cform. destruct (xbit k n x && xbit k n y); [|reflexivity].
    apply H; apply xdel_lt; exact Hk.
  Qed.

  Definition full_ctrl (k n : nat) : list nat := k :: map (shift_idx k) (seq 0 n).

  Lemma full_ctrl_wf k n : k <= n -> NoDup (full_ctrl k n) /\ Forall (fun q => q < S n) (full_ctrl k n) /\ List.length (full_ctrl k n) = S n.
  Proof.
    intro Hk. destruct (controlled_tuple_wf k n (seq 0 n)) as [H1 H2]; [apply seq_NoDup| |exact Hk|].
    - apply Forall_forall. intros q Hq. apply in_seq in Hq. lia.
    - split; [exact H1|]. split; [exact H2|]. unfold full_ctrl. cbn [List.length]. rewrite map_length, seq_length. reflexivity.
  Qed.

  Lemma cform_as_lift k n (A : Mat K) : k <= n ->
    mat_eq (2 ^ S n) (cform k n A) (lift_spec (diag_id (2 ^ S n - 2 ^ n) A) (full_ctrl k n) (S n)).
  Proof.
    intro Hk. apply mat_eq_sym. pose proof (lift_ctrl_cform k n A (seq 0 n) Hk) as E. rewrite seq_length in E.
    eapply mat_eq_trans; [exact E|]. apply cform_compat; [exact Hk|apply lift_full].
  Qed.

  Lemma cform_mmul k n (A B : Mat K) : k <= n ->
    mat_eq (2 ^ S n) (mmul (2 ^ S n) (cform k n A) (cform k n B)) (cform k n (mmul (2 ^ n) A B)).
  Proof.
    intro Hk. destruct (full_ctrl_wf k n Hk) as [Hnd [Hlt Hlen]].
    eapply mat_eq_trans; [apply mmul_compat; apply cform_as_lift; exact Hk|].
    pose proof (lift_mul K (diag_id (2 ^ S n - 2 ^ n) A) (diag_id (2 ^ S n - 2 ^ n) B) (full_ctrl k n) (S n) Hnd Hlt) as E.
    rewrite Hlen in E. eapply mat_eq_trans; [exact E|].
    eapply mat_eq_trans; [|apply mat_eq_sym, cform_as_lift; exact Hk].
    apply lift_compat. rewrite Hlen.
    pose proof (diag_id_mmul K (2 ^ S n - 2 ^ n) (2 ^ n) A B) as D. rewrite <- pow_split in D. exact D.
  Qed.

  Lemma cform_eye k n : k <= n -> mat_eq (2 ^ S n) (cform k n (@eye K)) eye.
  Proof.
    intro Hk. destruct (full_ctrl_wf k n Hk) as [_ [_ Hlen]].
    eapply mat_eq_trans; [apply cform_as_lift; exact Hk|].
    eapply mat_eq_trans; [apply (lift_compat K _ eye)|apply lift_eye].
    intros i j _ _. apply diag_id_eye.
  Qed.

  Lemma prog_prod_cform k n (Ms' Ms : list (Mat K)) : k <= n ->
    Forall2 (fun M' M => mat_eq (2 ^ S n) M' (cform k n M)) Ms' Ms ->
    mat_eq (2 ^ S n) (prog_prod (2 ^ S n) Ms') (cform k n (prog_prod (2 ^ n) Ms)).
  Proof.
    intros Hk F. induction F as [|M' M r' r HM _ IH]; cbn [prog_prod].
    - apply mat_eq_sym, cform_eye. exact Hk.
    - eapply mat_eq_trans; [apply mmul_compat; [exact IH|exact HM]|]. apply cform_mmul. exact Hk.
  Qed.
End ControlledForm.

Section ControlledMeaning.
  Variable K : cring.
  Variable P : Type.
  Variable pfree : P -> bool.
  Variable o : oracles K P.
  Notation gop := (gop P).
  Notation gcirc := (gcirc P).
  Notation sem := (sem o).
  Notation denote := (denote o).
  Notation U := (gc_unitary o).
  Notation controlled_circuit := (controlled_circuit pfree).

  (* what the theorem needs from a gate: the object .controlled(1) returns has the matrix diag(I, U) *)
  Definition ctl_ok (op : gop) : Prop :=
    forall g', controlled pfree 1 (fst op) = Some g' ->
      mat_eq (2 ^ S (List.length (snd op))) (sem g')
             (diag_id (2 ^ S (List.length (snd op)) - 2 ^ List.length (snd op)) (sem (fst op))).

  Lemma op_wf_mono n n' (op : gop) : n <= n' -> op_wf n op -> op_wf n' op.
  Proof.
    intros Hn [H1 [H2 [H3 H4]]]. repeat split; try assumption. eapply Forall_impl; [|exact H4]. intros q Hq. cbv beta in *. lia.
  Qed.

  Lemma controlled_wf k (c c' : gcirc) : gc_wf c -> controlled_circuit k c = Some c' -> gc_wf c'.
  Proof.
    intros Hwf H. destruct (controlled_structure _ _ _ _ _ H) as [Hn F]. unfold gc_wf in *. rewrite Hn.
    apply (F2_and_r _ _ _ _ F) in Hwf. clear F Hn H. set (n := gc_n c) in *. clearbody n.
    remember (gc_ops c) as l eqn:El. clear El.
    induction Hwf as [|op' op r' r [[Hq Hc] Hop] _ IH]; constructor; [|exact IH].
    apply (op_wf_mono n (Nat.max n k)) in Hop; [|lia]. destruct Hop as [H1 [H2 [H3 H4]]].
    destruct (controlled_shape _ _ _ _ _ Hc) as [Hnq _].
    destruct (controlled_tuple_wf k (Nat.max n k) (snd op) H3 H4 ltac:(lia)) as [T1 T2].
    rewrite <- Hq in T1, T2. repeat split; try assumption.
    - rewrite Hq, Hnq. cbn [List.length]. rewrite map_length. lia.
    - rewrite Hq. discriminate.
  Qed.

  (* Circuit.controlled(k): on the register of max(n, k) + 1 qubits, the identity unless qubit k is 1 on both
     sides, and then the original circuit (widened to max(n, k) qubits) on the remaining qubits, original
     qubits at or above k moved up by one *)
  Theorem controlled_circuit_sem_gen k (c c' : gcirc) : gc_wf c -> Forall ctl_ok (gc_ops c) ->
    controlled_circuit k c = Some c' ->
    let n' := Nat.max (gc_n c) k in
    gc_n c' = S n' /\
    mat_eq (2 ^ S n') (U c') (cform k n' (to_unitary n' (map denote (gc_ops c)))).
  Proof.
    intros Hwf Hok H n'. pose proof (controlled_wf _ _ _ Hwf H) as Hwf'.
    destruct (controlled_structure _ _ _ _ _ H) as [Hn F]. fold n' in Hn. split; [exact Hn|].
    assert (Hk : k <= n') by (unfold n'; lia).
    assert (Hwfn : Forall (op_wf n') (gc_ops c)).
    { eapply Forall_impl; [|exact Hwf]. intro op. apply op_wf_mono. unfold n'. lia. }
    pose proof (U_program_order K P o c' Hwf') as E1. rewrite Hn in E1. eapply mat_eq_trans; [exact E1|]. clear E1.
    eapply mat_eq_trans; [|apply cform_compat; [exact Hk|apply mat_eq_sym, to_unitary_program_order, denote_wf_all, Hwfn]].
    rewrite map_map. apply prog_prod_cform; [exact Hk|].
    assert (Hboth : Forall (fun op => ctl_ok op /\ op_wf n' op) (gc_ops c)).
    { rewrite Forall_forall in *. intros op Hin. split; [apply Hok|apply Hwfn]; exact Hin. }
    apply (F2_and_r _ _ _ _ F) in Hboth. eapply F2_map2; [|exact Hboth].
    intros op' op [[Hq Hc] [Hctl _]]. cbv beta. unfold gate_spec, Constructions.denote. cbn [g_mat g_qs].
    rewrite Hq. eapply mat_eq_trans; [|apply lift_ctrl_cform; exact Hk].
    apply lift_compat. cbn [List.length]. rewrite map_length. apply Hctl. exact Hc.
  Qed.

  (* for a control position inside or just above the register, entry by entry *)
  Theorem controlled_circuit_sem k (c c' : gcirc) : gc_wf c -> Forall ctl_ok (gc_ops c) -> k <= gc_n c ->
    controlled_circuit k c = Some c' ->
    gc_n c' = S (gc_n c) /\
    forall x y, x < 2 ^ S (gc_n c) -> y < 2 ^ S (gc_n c) ->
      U c' x y = if xbit k (gc_n c) x && xbit k (gc_n c) y
                 then U c (xdel k (gc_n c) x) (xdel k (gc_n c) y)
                 else eye x y.
  Proof.
    intros Hwf Hok Hk H. destruct (controlled_circuit_sem_gen k c c' Hwf Hok H) as [Hn E]. cbv zeta in Hn, E.
    rewrite Nat.max_l in Hn, E by exact Hk. split; [exact Hn|]. intros x y Hx Hy. exact (E x y Hx Hy).
  Qed.

  (* gates reachable by method calls from base gates (GateAstProofs.reachable_nf): no assumption about sympy *)
  Lemma ctl_ok_nf n (op : gop) : op_wf n op -> nf pfree (fst op) = true -> ctl_ok op.
  Proof.
    intros [Hl _] Hnf g' Hc. pose proof (controlled_sem_nf K P pfree o 1 _ _ Hnf Hc) as E.
    rewrite <- Hl, Nat.add_1_r in E. exact E.
  Qed.

  (* every gate expression, under the sympy laws and GateAst.ctrl_ok (where .controlled has to call .dagger the
     gate under it has integer powers only and sound flags) *)
  Lemma ctl_ok_laws n (op : gop) : exp_laws o -> inv_laws o -> frac_laws o -> op_wf n op -> ctrl_ok o (fst op) -> ctl_ok op.
  Proof.
    intros LE LI LF [Hl _] Hok g' Hc. pose proof (controlled_sem K P pfree o 1 _ _ LE LI LF Hc Hok) as E.
    rewrite <- Hl, Nat.add_1_r in E. exact E.
  Qed.

  Theorem controlled_circuit_sem_nf k (c c' : gcirc) : gc_wf c -> Forall (fun op => nf pfree (fst op) = true) (gc_ops c) ->
    k <= gc_n c -> controlled_circuit k c = Some c' ->
    gc_n c' = S (gc_n c) /\
    forall x y, x < 2 ^ S (gc_n c) -> y < 2 ^ S (gc_n c) ->
      U c' x y = if xbit k (gc_n c) x && xbit k (gc_n c) y
                 then U c (xdel k (gc_n c) x) (xdel k (gc_n c) y)
                 else eye x y.
  Proof.
    intros Hwf Hnf. apply controlled_circuit_sem; [exact Hwf|].
    unfold gc_wf in Hwf. rewrite Forall_forall in *. intros op Hin. eapply ctl_ok_nf; [apply Hwf|apply Hnf]; exact Hin.
  Qed.
End ControlledMeaning.

(* ------------------------------------------------------------------------------------------- order independence *)
Lemma list_max_perm l l' : Permutation l l' -> list_max l = list_max l'.
Proof. unfold list_max. induction 1; cbn [fold_right]; lia. Qed.

Lemma nodup_fst_functional {A} (l : list (nat * A)) q g g' :
  NoDup (map fst l) -> In (q, g) l -> In (q, g') l -> g = g'.
Proof.
  induction l as [|[q0 g0] r IH]; intros Hnd H1 H2; [contradiction|]. cbn [map fst] in Hnd. inversion Hnd; subst.
  destruct H1 as [E1|H1], H2 as [E2|H2].
  - congruence.
  - inversion E1; subst. exfalso. apply H3. apply (in_map fst) in H2. exact H2.
  - inversion E2; subst. exfalso. apply H3. apply (in_map fst) in H1. exact H1.
  - apply IH; assumption.
Qed.

Section Commute.
  Variable K : cring.
  Add Ring Kring4 : (c_ring K).
  Local Open Scope cr_scope.
  Notation ind := (@ind K).

  Lemma agree_off_swap p q x y : agree_off [p; q] x y = agree_off [q; p] x y.
  Proof.
    apply eq_true_iff_eq. rewrite !agree_off_spec.
    split; intros [Hl H]; (split; [exact Hl|]); intros k Hk Hn; apply H; try exact Hk; intro Hin; apply Hn;
      destruct Hin as [E|[E|[]]]; subst; cbn; auto.
  Qed.

  (* the product of two gates lifted to different single qubits, entry by entry *)
  Lemma lift1_mul n (G H : Mat K) p q : p <> q -> p < n -> q < n ->
    mat_eq (2 ^ n) (mmul (2 ^ n) (lift_spec G [p] n) (lift_spec H [q] n))
      (fun i j => let x := bits n i in let y := bits n j in
                  G (val (select [p] x)) (val (select [p] y)) * H (val (select [q] x)) (val (select [q] y))
                  * ind (agree_off [p; q] x y)).
  Proof.
    intros Hpq Hp Hq i j Hi Hj. cbv zeta. unfold mmul, lift_spec. cbv zeta.
    set (x := bits n i). set (y := bits n j).
    assert (Lx : List.length x = n) by apply bits_length. assert (Ly : List.length y = n) by apply bits_length.
    rewrite (rsum_ext K _ _ (fun m =>
       (G (val (select [p] x)) (val (select [p] (bits n m)))
        * (H (val (select [q] (bits n m))) (val (select [q] y)) * ind (agree_off [q] (bits n m) y)))
       * ind (agree_off [p] x (bits n m)))) by (intros m _; ring).
    rewrite (rsum_agree K n [p] x (fun bm => G (val (select [p] x)) (val (select [p] bm))
                                             * (H (val (select [q] bm)) (val (select [q] y)) * ind (agree_off [q] bm y))));
      [|exact Lx|constructor; [intros []|constructor]|constructor; [exact Hp|constructor]].
    assert (Sel : forall t, select [q] (merge [p] t x) = select [q] x).
    { intro t. unfold select. cbn [map]. f_equal. rewrite merge_nth by (rewrite Lx; exact Hq). cbn [index_of].
      destruct (Nat.eqb_spec q p); [congruence|]. reflexivity. }
    assert (Selp : forall t, List.length t = 1 -> select [p] (merge [p] t x) = t).
    { intros t Ht. apply select_merge; [constructor; [intros []|constructor]|constructor; [rewrite Lx; exact Hp|constructor]|exact Ht]. }
    assert (Ag : forall t, agree_off [q] (merge [p] t x) y
                           = Bool.eqb (nth 0 t false) (nth p y false) && agree_off [p; q] x y).
    { intro t. apply eq_true_iff_eq. rewrite andb_true_iff, eqb_true_iff, !agree_off_spec, merge_length. split.
      - intros [Hl Ha]. split; [|split; [exact Hl|]].
        + rewrite <- (Ha p); [|rewrite Lx; exact Hp|intros [E|[]]; congruence].
          rewrite merge_nth by (rewrite Lx; exact Hp). cbn [index_of]. rewrite Nat.eqb_refl. reflexivity.
        + intros k Hk Hn. rewrite <- (Ha k Hk); [|intros [E|[]]; apply Hn; right; left; exact E].
          rewrite merge_nth by exact Hk. cbn [index_of]. destruct (Nat.eqb_spec k p) as [Ekp|_]; [exfalso; apply Hn; left; symmetry; exact Ekp|reflexivity].
      - intros [Et [Hl Ha]]. split; [exact Hl|]. intros k Hk Hn. rewrite merge_nth by exact Hk. cbn [index_of].
        destruct (Nat.eqb_spec k p) as [Ekp|Hne]; [rewrite Ekp; exact Et|]. cbn [option_map]. apply Ha; [exact Hk|].
        intros [E|[E|[]]]; [congruence|]. apply Hn. left. exact E. }
    cbn [List.length Nat.pow Nat.mul Nat.add rsum].
    rewrite !Sel, !Ag, !Selp by apply bits_length.
    change (bits 1 0) with [false]. change (bits 1 1) with [true]. cbn [nth val b2n List.length Nat.pow Nat.mul Nat.add select map].
    destruct (nth p y false), (agree_off [p; q] x y); cbn [Bool.eqb andb Lift.ind b2n Nat.mul Nat.add]; ring.
  Qed.

  (* gates on different qubits commute *)
  Lemma lift1_commute n (G H : Mat K) p q : p <> q -> p < n -> q < n ->
    mat_eq (2 ^ n) (mmul (2 ^ n) (lift_spec G [p] n) (lift_spec H [q] n))
                   (mmul (2 ^ n) (lift_spec H [q] n) (lift_spec G [p] n)).
  Proof.
    intros Hpq Hp Hq. eapply mat_eq_trans; [apply lift1_mul; assumption|].
    eapply mat_eq_trans; [|apply mat_eq_sym, lift1_mul; auto].
    intros i j _ _. cbv zeta. rewrite (agree_off_swap q p). ring.
  Qed.

  (* a product of pairwise commuting matrices does not depend on the order of the factors *)
  Lemma prog_prod_perm d (Ms Ms' : list (Mat K)) : Permutation Ms Ms' ->
    (forall A B, In A Ms -> In B Ms -> mat_eq d (mmul d A B) (mmul d B A)) ->
    mat_eq d (prog_prod d Ms) (prog_prod d Ms').
  Proof.
    induction 1 as [|X l l' Hp IH|X Y l|l l' l'' Hp1 IH1 Hp2 IH2]; intro Hc; cbn [prog_prod].
    - apply mat_eq_refl.
    - apply mmul_compat; [|apply mat_eq_refl]. apply IH. intros A B HA HB. apply Hc; right; assumption.
    - eapply mat_eq_trans; [apply mm_assoc|]. eapply mat_eq_trans; [|apply mat_eq_sym, mm_assoc].
      apply mmul_compat; [apply mat_eq_refl|]. apply Hc; cbn; auto.
    - eapply mat_eq_trans; [apply IH1, Hc|]. apply IH2. intros A B HA HB.
      apply Hc; eapply Permutation_in; try eassumption; apply Permutation_sym; exact Hp1.
  Qed.
End Commute.

Section OrderIndependence.
  Variable K : cring.
  Variable P : Type.
  Variable o : oracles K P.
  Notation gcirc := (gcirc P).
  Notation sem := (sem o).
  Notation denote := (denote o).
  Notation U := (gc_unitary o).

  (* appending one gate per qubit to distinct qubits: width and action depend only on which gate goes to which
     qubit, not on the order in which the pairs are appended *)
  Theorem place_order_independent (c : gcirc) (pairs1 pairs2 : list (nat * gate P)) :
    Permutation pairs1 pairs2 -> NoDup (map fst pairs1) ->
    gc_n (place c pairs1) = gc_n (place c pairs2) /\
    mat_eq (2 ^ gc_n (place c pairs1)) (U (place c pairs1)) (U (place c pairs2)).
  Proof.
    intros Hp Hnd. destruct (place_shape P pairs1 c) as [O1 N1]. destruct (place_shape P pairs2 c) as [O2 N2].
    assert (EN : gc_n (place c pairs1) = gc_n (place c pairs2)).
    { rewrite N1, N2. f_equal. apply list_max_perm. apply Permutation_map, Permutation_map. exact Hp. }
    split; [exact EN|]. unfold gc_unitary. rewrite <- EN, O1, O2, !map_app. set (N := gc_n (place c pairs1)) in *.
    eapply mat_eq_trans; [apply concat_composes|]. eapply mat_eq_trans; [|apply mat_eq_sym, concat_composes].
    apply mmul_compat; [|apply mat_eq_refl].
    assert (Hlt : forall pairs, Permutation pairs1 pairs -> forall q g, In (q, g) pairs -> q < N).
    { intros pairs Hpp q g Hin. apply (Permutation_in _ (Permutation_sym Hpp)) in Hin.
      assert (Hm : S q <= list_max (map S (map fst pairs1))).
      { apply list_max_ge. apply in_map. apply (in_map fst) in Hin. exact Hin. }
      rewrite N1. lia. }
    assert (Hwf : forall pairs, Permutation pairs1 pairs ->
                  Forall (wf_gate N) (map denote (map (fun qg : nat * gate P => (snd qg, [fst qg])) pairs))).
    { intros pairs Hpp. rewrite map_map. apply Forall_map. apply Forall_forall. intros [q g] Hin.
      unfold Constructions.denote, wf_gate. cbn [g_qs fst snd]. split; [discriminate|]. split.
      - constructor; [intros []|constructor].
      - constructor; [exact (Hlt pairs Hpp q g Hin)|constructor]. }
    eapply mat_eq_trans; [apply to_unitary_program_order, Hwf, Permutation_refl|].
    eapply mat_eq_trans; [|apply mat_eq_sym, to_unitary_program_order, Hwf, Hp].
    rewrite !map_map. apply prog_prod_perm.
    - apply Permutation_map. exact Hp.
    - intros A B HA HB. apply in_map_iff in HA, HB. destruct HA as [[p g] [<- HA]]. destruct HB as [[q h] [<- HB]].
      unfold gate_spec, Constructions.denote. cbn [g_mat g_qs fst snd].
      destruct (Nat.eq_dec p q) as [->|Hne].
      + rewrite (nodup_fst_functional pairs1 q g h Hnd HA HB). apply mat_eq_refl.
      + apply lift1_commute; [exact Hne|exact (Hlt pairs1 (Permutation_refl _) p g HA)|exact (Hlt pairs1 (Permutation_refl _) q h HB)].
  Qed.

  (* apply_gate_to_qubits without parameter rows: whatever order the set is iterated in, the same action *)
  Theorem apply_order_independent (c c1 c2 : gcirc) qs order1 order2 fac :
    set_order_ok qs order1 = true -> set_order_ok qs order2 = true ->
    apply_gate_to_qubits c order1 fac None = Some c1 -> apply_gate_to_qubits c order2 fac None = Some c2 ->
    gc_n c1 = gc_n c2 /\ mat_eq (2 ^ gc_n c1) (U c1) (U c2).
  Proof.
    intros H1 H2 E1 E2. cbn [apply_gate_to_qubits] in E1, E2. inversion E1; inversion E2; subst c1 c2.
    apply place_order_independent.
    - apply Permutation_map. eapply Permutation_trans; [apply (set_order_perm _ _ H1)|apply Permutation_sym, (set_order_perm _ _ H2)].
    - rewrite map_map. cbn [fst]. rewrite map_id. apply set_order_ok_spec in H1. apply H1.
  Qed.
End OrderIndependence.

(* ------------------------------------------------------------------------------------------- instances *)
(* A concrete model over the Gaussian rationals showing that the premises of the theorems hold together on a
   non-trivial circuit, and the circuit-level form of finding F8. *)
Require Import Coq.PArith.PArith.
Require Import OQ.Base.CaseEq OQ.Circ.GateAstCases OQ.Circ.GateAstInstProofs.
Close Scope Qc_scope.
Close Scope Q_scope.
Open Scope nat_scope.

Lemma gq_mat_eq_dec d (A B : Mat GQring) :
  leqb (leqb gq_eqb) (to_list d A) (to_list d B) = true -> mat_eq d A B.
Proof.
  intro H. apply (leqb_true (leqb gq_eqb)) in H; [|apply leqb_true; apply gq_eqb_eq].
  eapply mat_eq_trans; [apply mat_eq_sym, of_to_list|]. rewrite H. apply of_to_list.
Qed.

Definition smat2 : Mat GQring := mat2 c1 c0 c0 ci.                (* S = diag(1, i) *)
(* base matrices by name (I, S, anything else = X); exp M := I + M, inv and fractional powers inert (as the toy
   instance of C07) *)
Definition demo_oracles : oracles GQring unit :=
  mk_oracles GQring unit
    (fun n _ => if String.eqb n "I" then eye else if String.eqb n "S" then smat2 else xmat)
    (fun _ M => madd eye M) (fun _ M => M) (fun _ _ M => M) (fun _ _ M => M).

Lemma demo_exp_laws : exp_laws demo_oracles.
Proof.
  constructor; cbn [o_exp demo_oracles].
  - intros d A B H i j Hi Hj. unfold madd. rewrite (H i j Hi Hj). reflexivity.
  - intros d A i j _ _. unfold adj, madd. rewrite conj_add. f_equal. symmetry. apply (adj_eye GQring).
Qed.
Lemma demo_inv_laws : inv_laws demo_oracles.
Proof. constructor; cbn [o_inv demo_oracles]; intros; try assumption; apply mat_eq_refl. Qed.

Definition xg : gate unit := Base "X" [] 1 true.
Definition sg : gate unit := Base "S" [] 1 false.
(* S(1), controlled-X with control 2 and target 0, X(0) on three qubits *)
Definition demo_circuit : gcirc unit := mk_gc 3 [(sg, [1]); (Ctrl xg 1, [2; 0]); (xg, [0])].
Definition nofree (_ : unit) : bool := false.

Lemma demo_wf : gc_wf demo_circuit.
Proof.
  unfold gc_wf, demo_circuit. cbn [gc_n gc_ops].
  repeat constructor; cbn; try discriminate; try lia; intros H; repeat (destruct H as [H|H]; try discriminate); exact H.
Qed.

Lemma demo_dagger_safe : Forall (dagger_safe GQring unit demo_oracles) (gc_ops demo_circuit).
Proof.
  unfold demo_circuit. cbn [gc_ops]. repeat constructor; cbn [fst herm_flags_sound xg sg]; try discriminate;
    intros _; apply gq_mat_eq_dec; vm_compute; reflexivity.
Qed.

Lemma demo_unitary : Forall (unitary_op GQring unit demo_oracles) (gc_ops demo_circuit).
Proof.
  unfold demo_circuit. cbn [gc_ops]. repeat constructor; unfold unitary_op, unitary; cbn [fst snd List.length];
    apply gq_mat_eq_dec; vm_compute; reflexivity.
Qed.

Lemma demo_nf : Forall (fun op => nf nofree (fst op) = true) (gc_ops demo_circuit).
Proof. unfold demo_circuit. cbn [gc_ops]. repeat constructor. Qed.

Lemma demo_inverse :
  inverse nofree demo_circuit = Some (mk_gc 3 [(xg, [0]); (Ctrl xg 1, [2; 0]); (Dag sg, [1])]).
Proof. vm_compute. reflexivity. Qed.

Lemma demo_controlled :
  controlled_circuit nofree 1 demo_circuit
  = Some (mk_gc 4 [(Ctrl sg 1, [1; 2]); (Ctrl xg 2, [1; 3; 0]); (Ctrl xg 1, [1; 0])]).
Proof. vm_compute. reflexivity. Qed.

Lemma demo_identity : mat_eq 2 (sem demo_oracles (@igate unit)) eye.
Proof. apply gq_mat_eq_dec. vm_compute. reflexivity. Qed.

(* F8 at the level of circuits: with sympy's value diag(1, i) for Z ** 0.5, Circuit([Z.power(0.5)(0)]).inverse()
   is the same circuit, whose matrix is not the conjugate transpose *)
Definition f8_circuit : gcirc unit := mk_gc 1 [(Pow zgate (ERoot 2%positive), [0])].

Theorem inverse_fractional_refuted_gen :
  gc_wf f8_circuit /\ Forall (unitary_op GQring unit f8_oracles) (gc_ops f8_circuit) /\
  exists c', inverse nofree f8_circuit = Some c' /\
             ~ mat_eq (2 ^ gc_n f8_circuit) (gc_unitary f8_oracles c') (adj (gc_unitary f8_oracles f8_circuit)).
Proof.
  split; [|split].
  - unfold gc_wf, f8_circuit. cbn [gc_n gc_ops]. repeat constructor; cbn; try discriminate; try lia; try (intros []).
  - unfold f8_circuit. cbn [gc_ops]. repeat constructor. unfold unitary_op, unitary. cbn [fst snd List.length].
    apply gq_mat_eq_dec. vm_compute. reflexivity.
  - exists f8_circuit. split; [vm_compute; reflexivity|]. intro H.
    specialize (H 1 1 ltac:(cbn; lia) ltac:(cbn; lia)).
    assert (E : gq_eqb (gc_unitary f8_oracles f8_circuit 1 1) (adj (gc_unitary f8_oracles f8_circuit) 1 1) = false)
      by (vm_compute; reflexivity).
    rewrite H in E. vm_compute in E. discriminate.
Qed.
