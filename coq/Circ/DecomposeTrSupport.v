(* Hand-written support for the GENERATED file Gen/DecomposeGen.v (translator tr/tr_decompose.py, property C18).

   The translator maps every Python construct of decompose_operation / decompose_operations
   (decompositions/_decomposition.py), of U3GateToRotation.predicate / .production and decompose_orquestra_circuit
   (decompositions/_orquestra_decompositions.py) and of the bindings of RZ, RY, U3 (circuits/_builtin_gates.py) to a
   piece of Gallina built from the definitions below; the Python fact each definition stands for is written next to
   it.  This file is the trusted reading of Python and of the attributes of the gate classes of circuits/_gates.py;
   it does not mention the model (Circ/Decompose.v, Circ/U3Rule.v): the agreement with the model is PROVED about the
   generated text in Circ/DecomposeGenProofs.v.

   Conventions of the translation
     - lists, tuples and every other finite iterable are the list of their elements in iteration order; the
       translator separately makes sure that a value typed Iterable (possibly a one-shot iterator such as
       reversed(...)) is iterated at most once and never asked for its truth value, length or reverse;
     - evaluating something gives [result A]: a value, or a raised exception; sub-expressions are evaluated left to
       right and the first exception propagates ([bind]);
     - gate parameters are values of an arbitrary type P (the translated code only moves them around). *)
Require Import Coq.Lists.List Coq.Strings.String Coq.Bool.Bool Coq.Arith.Arith.
Import ListNotations.

(* ------------------------------------------------------------------ exceptions and sequencing *)
(* NotModelled is not a Python exception: it marks a call whose behaviour this file does not describe (see
   gate_controlled); a theorem stating that a result is [Ok _] also states that no such call was made. *)
Inductive pyexn := ValueError | AttributeError | NotModelled.

Inductive result (A : Type) : Type :=
| Ok (a : A)
| Raise (e : pyexn).
Arguments Ok {A}. Arguments Raise {A}.

(* evaluate r, then continue with its value; an exception propagates *)
Definition bind {A B} (r : result A) (f : A -> result B) : result B :=
  match r with Ok a => f a | Raise e => Raise e end.

(* ------------------------------------------------------------------ sequences *)
(* truth value of a list / tuple (`if xs`, `not xs`): true iff it has an element *)
Definition py_truth_seq {A} (l : list A) : bool := match l with [] => false | _ => true end.

(* one `for x in xs` clause of a list comprehension: the rest of the comprehension (further clauses, finally the
   element expression, which contributes a one-element list) is evaluated for each x in order and the lists it
   produces are concatenated; the first exception aborts the whole comprehension.
   Unpacking assignments `a, b, c = e` / `a, *r = e` are emitted as a [match] on the list with the default branch
   [Raise ValueError] (too few or too many values to unpack). *)
Fixpoint py_comp {A B} (xs : list A) (body : A -> result (list B)) : result (list B) :=
  match xs with
  | [] => Ok []
  | x :: r => bind (body x) (fun ys => bind (py_comp r body) (fun zs => Ok (ys ++ zs)))
  end.

(* reversed(xs) of a list / tuple: an iterator over the elements, last first *)
Definition py_reversed {A} (l : list A) : list A := rev l.

(* ------------------------------------------------------------------ gate objects (circuits/_gates.py) *)
(* MatrixFactoryGate(name, matrix_factory, params, num_qubits, is_hermitian): the dataclass fields; the matrix factory
     is recorded by the name of the function of circuits/_matrices.py it is
   ControlledGate(wrapped_gate, num_control_qubits): the dataclass fields
   OtherGate: an instance of any other class implementing Gate (Dagger, Power, Exponential, ...): not an instance of
     ControlledGate; [name], [params] are the values of its properties of these names, [wrapped] the value of its
     attribute wrapped_gate if it has one, [id] whatever else distinguishes it *)
Inductive pygate (P : Type) : Type :=
| MatrixFactoryGate (name : string) (matrix_factory : string) (params : list P) (num_qubits : nat) (is_hermitian : bool)
| ControlledGate (wrapped_gate : pygate P) (num_control_qubits : nat)
| OtherGate (name : string) (params : list P) (wrapped : option (pygate P)) (id : nat).
Arguments MatrixFactoryGate {P}. Arguments ControlledGate {P}. Arguments OtherGate {P}.

(* GateOperation(gate, qubit_indices): the dataclass fields *)
Record pyop (P : Type) : Type := GateOperation { op_gate : pygate P; op_qubit_indices : list nat }.
Arguments GateOperation {P}. Arguments op_gate {P}. Arguments op_qubit_indices {P}.

(* gate.name: the field of a MatrixFactoryGate; CONTROLLED_GATE_NAME = "Control" for a ControlledGate *)
Definition gate_name {P} (g : pygate P) : string :=
  match g with
  | MatrixFactoryGate name _ _ _ _ => name
  | ControlledGate _ _ => "Control"
  | OtherGate name _ _ _ => name
  end.

(* gate.params: the field of a MatrixFactoryGate; ControlledGate.params returns self.wrapped_gate.params *)
Fixpoint gate_params {P} (g : pygate P) : list P :=
  match g with
  | MatrixFactoryGate _ _ params _ _ => params
  | ControlledGate w _ => gate_params w
  | OtherGate _ params _ _ => params
  end.

(* gate.wrapped_gate: a MatrixFactoryGate has no such attribute *)
Definition gate_wrapped_gate {P} (g : pygate P) : result (pygate P) :=
  match g with
  | MatrixFactoryGate _ _ _ _ _ => Raise AttributeError
  | ControlledGate w _ => Ok w
  | OtherGate _ _ (Some w) _ => Ok w
  | OtherGate _ _ None _ => Raise AttributeError
  end.

(* gate.num_control_qubits: a field of ControlledGate only *)
Definition gate_num_control_qubits {P} (g : pygate P) : result nat :=
  match g with
  | ControlledGate _ k => Ok k
  | _ => Raise AttributeError
  end.

(* isinstance(gate, ControlledGate) *)
Definition isinstance_ControlledGate {P} (g : pygate P) : bool :=
  match g with ControlledGate _ _ => true | _ => false end.

(* ControlledGate(w, k): __post_init__ raises ValueError when k < 1 *)
Definition new_ControlledGate {P} (w : pygate P) (k : nat) : result (pygate P) :=
  if Nat.ltb k 1 then Raise ValueError else Ok (ControlledGate w k).

(* gate.controlled(k):  MatrixFactoryGate: ControlledGate(self, k);
   ControlledGate: ControlledGate(self.wrapped_gate, self.num_control_qubits + k);
   other classes go through .dagger / .power / .exp, which are not described here *)
Definition gate_controlled {P} (g : pygate P) (k : nat) : result (pygate P) :=
  match g with
  | MatrixFactoryGate _ _ _ _ _ => new_ControlledGate g k
  | ControlledGate w k0 => new_ControlledGate w (k0 + k)
  | OtherGate _ _ _ _ => Raise NotModelled
  end.

(* gate( *qubit_indices), a call with the unpacked tuple: Gate.__call__ returns GateOperation(self, qubit_indices) *)
Definition gate_call {P} (g : pygate P) (qs : list nat) : pyop P := GateOperation g qs.

(* operation.params: the property returns self.gate.params *)
Definition op_params {P} (o : pyop P) : list P := gate_params (op_gate o).

(* make_parametric_gate_prototype(name, matrix_factory, num_qubits, is_hermitian=False) returns the function
   ( *gate_parameters) -> MatrixFactoryGate(name, matrix_factory, gate_parameters, num_qubits, is_hermitian) *)
Definition make_parametric_gate_prototype {P} (name factory : string) (num_qubits : nat) (is_hermitian : bool)
  (gate_parameters : list P) : pygate P :=
  MatrixFactoryGate name factory gate_parameters num_qubits is_hermitian.

(* ------------------------------------------------------------------ circuits (circuits/_circuit.py) *)
(* a Circuit object: its properties operations and n_qubits *)
Record pycircuit (P : Type) : Type := mk_pycircuit { c_operations : list (pyop P); c_n_qubits : nat }.
Arguments mk_pycircuit {P}. Arguments c_operations {P}. Arguments c_n_qubits {P}.

(* _circuit_size_by_operations(ops): 0 if not ops, else max over all qubit indices of all operations + 1
   (max() of no values at all is a ValueError) *)
Definition circuit_size_by_operations {P} (ops : list (pyop P)) : result nat :=
  match ops with
  | [] => Ok 0
  | _ => match flat_map op_qubit_indices ops with
         | [] => Raise ValueError
         | q :: r => Ok (S (fold_left Nat.max r q))
         end
  end.

(* Circuit(operations, n_qubits=n) / Circuit(operations) for a natural number n: operations = list(operations);
   `if n_qubits:` - a positive int is stored as the width; None and 0 are false, then the width is computed *)
Definition py_Circuit {P} (ops : list (pyop P)) (n : option nat) : result (pycircuit P) :=
  match n with
  | Some (S m) => Ok (mk_pycircuit ops (S m))
  | _ => bind (circuit_size_by_operations ops) (fun s => Ok (mk_pycircuit ops s))
  end.
