(* Concrete instances over the Gaussian rationals (property C07): the refutation of Power.dagger for
   fractional exponents (finding F8), a toy instance showing that the law records and the premises of the
   power theorems are satisfiable together, and soundness of the memoised evaluation used by the cases. *)
Require Import Coq.setoid_ring.Ring Coq.Arith.Arith Coq.ZArith.ZArith Coq.QArith.QArith Coq.QArith.Qcanon Coq.Lists.List
  Coq.Strings.String Coq.Bool.Bool Coq.micromega.Lia.
Require Import OQ.Base.Ring OQ.Base.Sums OQ.Base.Mat OQ.Circ.GateAst OQ.Circ.GateAstProofs OQ.Circ.GateAstSemProofs
  OQ.Circ.GateAstCases.
Import ListNotations.
Close Scope Qc_scope.
Close Scope Q_scope.
Open Scope nat_scope.

Definition GQ0 : GQring := c0.
Definition GQ1 : GQring := c1.

Definition mat2 (a b c d : GQring) : Mat GQring :=
  fun i j => match i, j with
             | 0, 0 => a | 0, 1 => b | 1, 0 => c | 1, 1 => d
             | _, _ => GQ0
             end.

Definition zmat : Mat GQring := mat2 c1 c0 c0 (copp c1).          (* Z = diag(1, -1) *)
Definition sqrt_zmat : Mat GQring := mat2 c1 c0 c0 ci.            (* what sympy returns for Z ** 0.5: diag(1, i) *)
Definition xmat : Mat GQring := mat2 c0 c1 c1 c0.

Lemma gq_decide (a b : GQring) : gq_eqb a b = true -> a = b.
Proof. apply gq_eqb_eq. Qed.

Lemma mat_eq2 (A B : Mat GQring) :
  A 0 0 = B 0 0 -> A 0 1 = B 0 1 -> A 1 0 = B 1 0 -> A 1 1 = B 1 1 -> mat_eq 2 A B.
Proof.
  intros H00 H01 H10 H11 i j Hi Hj.
  destruct i as [|[|i]]; destruct j as [|[|j]]; try lia; assumption.
Qed.

Lemma ci_ne_opp : @ci GQring <> @copp GQring (@ci GQring).
Proof.
  intro H. assert (E : gq_eqb (@ci GQring) (@copp GQring (@ci GQring)) = false) by (vm_compute; reflexivity).
  rewrite <- H in E. vm_compute in E. discriminate.
Qed.

Definition zgate {P} : gate P := Base "Z" [] 1 true.

(* F8.  Z is flagged self-adjoint, so Z.power(0.5).dagger = Z.dagger.power(0.5) = Z.power(0.5): the same
   object.  With sympy's value diag(1, i) for Z ** 0.5 (a genuine square root) the matrix of the "dagger" is
   not the adjoint. *)
Theorem power_dagger_refuted_gen (P : Type) (pfree : P -> bool) (o : oracles GQring P) :
  mat_eq 2 (o_factory o "Z" []) zmat ->
  mat_eq 2 (o_root o 2 2 (o_factory o "Z" [])) sqrt_zmat ->
  exists g1 g2 : gate P,
    power pfree (ERoot 2) zgate = Some g1 /\ dagger pfree g1 = Some g2 /\
    herm_flags_sound o g1 /\
    mat_eq (dim g1) (mpow (dim g1) (sem o g1) 2) (sem o zgate) /\
    ~ mat_eq (dim g1) (sem o g2) (adj (sem o g1)).
Proof.
  intros HZ HR. exists (Pow zgate (ERoot 2)), (Pow zgate (ERoot 2)).
  assert (Hadj : mat_eq 2 (adj zmat) zmat).
  { apply mat_eq2; unfold adj, zmat, mat2; apply gq_decide; vm_compute; reflexivity. }
  split; [reflexivity|]. split; [reflexivity|]. split; [|split].
  - cbn [herm_flags_sound zgate]. intros _. change (2 ^ 1) with 2.
    eapply mat_eq_trans; [apply adj_compat, HZ|]. eapply mat_eq_trans; [exact Hadj|]. apply mat_eq_sym, HZ.
  - change (dim (Pow (@zgate P) (ERoot 2))) with 2. cbn [sem zgate mpowz]. change (dim (Base "Z" [] 1 true)) with 2.
    eapply mat_eq_trans; [apply mpow_compat, HR|]. eapply mat_eq_trans; [|apply mat_eq_sym, HZ].
    apply mat_eq2; apply gq_decide; vm_compute; reflexivity.
  - change (dim (Pow (@zgate P) (ERoot 2))) with 2. cbn [sem zgate mpowz]. change (dim (Base "Z" [] 1 true)) with 2.
    intro H. specialize (H 1 1 ltac:(lia) ltac:(lia)). unfold adj in H.
    change (dim (@zgate P)) with 2 in H. rewrite (HR 1 1 ltac:(lia) ltac:(lia)) in H. apply ci_ne_opp. rewrite H at 1.
    apply gq_decide. vm_compute. reflexivity.
Qed.

(* the oracle values used above exist: an instance *)
Definition f8_oracles : oracles GQring unit :=
  mk_oracles GQring unit (fun _ _ => zmat) (fun _ M => M) (fun _ M => M) (fun _ _ _ => sqrt_zmat) (fun _ _ M => M).

Lemma f8_oracles_premises :
  mat_eq 2 (o_factory f8_oracles "Z" []) zmat /\
  mat_eq 2 (o_root f8_oracles 2 2 (o_factory f8_oracles "Z" [])) sqrt_zmat.
Proof. split; apply mat_eq_refl. Qed.

(* ------------------------------------------------------------------------------------ a toy instance
   exp M := I + M, inv M := M, fractional powers := M.  All law records hold; inv is right on involutions
   (X X = I) and a root is right on idempotents. *)
Definition toy_oracles : oracles GQring unit :=
  mk_oracles GQring unit (fun _ _ => xmat) (fun _ M => madd eye M) (fun _ M => M) (fun _ _ M => M) (fun _ _ M => M).

Lemma toy_exp_laws : exp_laws toy_oracles.
Proof.
  constructor; cbn [o_exp toy_oracles].
  - intros d A B H i j Hi Hj. unfold madd. rewrite (H i j Hi Hj). reflexivity.
  - intros d A i j _ _. unfold adj, madd. rewrite conj_add. f_equal. symmetry. apply (adj_eye GQring).
Qed.
Lemma toy_inv_laws : inv_laws toy_oracles.
Proof.
  constructor; cbn [o_inv toy_oracles]; intros.
  - assumption.
  - apply mat_eq_refl.
  - apply mat_eq_refl.
Qed.
Lemma toy_frac_laws : frac_laws toy_oracles.
Proof. constructor; cbn [o_root o_other toy_oracles]; intros; try assumption; apply mat_eq_refl. Qed.

Lemma toy_inv_premise :
  let s : gate unit := strip_ctrl (Ctrl (Base "X" [] 1 true) 1) in
  mat_eq (dim s) (mmul (dim s) (o_inv toy_oracles (dim s) (sem toy_oracles s)) (sem toy_oracles s)) eye.
Proof.
  cbn [strip_ctrl]. change (dim (Base "X" [] 1 true)) with 2. cbn [sem o_inv o_factory toy_oracles].
  apply mat_eq2; apply gq_decide; vm_compute; reflexivity.
Qed.

(* ------------------------------------------------------------------------------------ memoised evaluation *)
Lemma sem_memo_eq (o : oracles GQring cparam) (g : gate cparam) :
  oracle_free g = true -> mat_eq (dim g) (sem_memo o g) (sem o g).
Proof.
  induction g as [n ps q h|w IH k|w IH|w IH|w IH e]; intro H; cbn [sem_memo sem oracle_free] in *;
    (eapply mat_eq_trans; [apply memo_eq|]).
  - apply mat_eq_refl.
  - specialize (IH H). unfold dim in *. cbn [num_qubits].
    set (D := 2 ^ (num_qubits w + k) - 2 ^ num_qubits w).
    assert (E : 2 ^ (num_qubits w + k) = D + 2 ^ num_qubits w) by apply ctrl_dim.
    clearbody D. rewrite E. apply diag_id_compat, IH.
  - apply adj_compat, (IH H).
  - discriminate.
  - apply andb_true_iff in H. destruct H as [He H]. destruct e as [z| |]; try discriminate.
    change (dim (Pow w (EInt z))) with (dim w). unfold mpowz. rewrite He. apply mpow_compat, (IH H).
Qed.
