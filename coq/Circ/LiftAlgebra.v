(* Algebra of lifted matrices (Circ/Lift.v's [lift_spec]): lifting on a fixed tuple of qubits is a
   unital *-algebra homomorphism:  lift(G1.G2) = lift(G1).lift(G2),  lift(c.G) = c.lift(G),
   lift(G^dagger) = lift(G)^dagger,  lift(I) = I.  Used by C08 (inverse), C16 (evolution), C18 (decomposition). *)
Require Import Coq.Arith.Arith Coq.Lists.List Coq.Bool.Bool Coq.micromega.Lia Coq.setoid_ring.Ring.
Require Import OQ.Base.Ring OQ.Base.Sums OQ.Base.Bits OQ.Base.Mat OQ.Circ.Lift OQ.Circ.LiftProofs.
Import ListNotations.

(* position of k in qs *)
Fixpoint index_of (k : nat) (qs : list nat) : option nat :=
  match qs with
  | [] => None
  | q :: r => if Nat.eqb k q then Some 0 else option_map S (index_of k r)
  end.

(* x with the bits at the positions qs replaced by the bits t *)
Definition merge (qs : list nat) (t x : list bool) : list bool :=
  map (fun k => match index_of k qs with Some i => nth i t false | None => nth k x false end) (seq 0 (length x)).

Lemma index_of_none k qs : index_of k qs = None <-> ~ In k qs.
Proof.
  induction qs as [|q r IH]; cbn [index_of In]; [tauto|].
  destruct (Nat.eqb_spec k q) as [->|Hne].
  - split; [discriminate|intro H; exfalso; apply H; left; reflexivity].
  - destruct (index_of k r) eqn:E; cbn [option_map].
    + split; [discriminate|]. intro H. exfalso. apply H. right.
      destruct (in_dec Nat.eq_dec k r) as [Hin|Hn]; [exact Hin|]. apply IH in Hn. discriminate.
    + split; [|reflexivity]. intros _ [H|H]; [congruence|]. apply (proj1 IH eq_refl). exact H.
Qed.

Lemma index_of_nth qs i : NoDup qs -> i < length qs -> index_of (nth i qs 0) qs = Some i.
Proof.
  intro Hnd. revert i. induction Hnd as [|q r Hq Hr IH]; intros i Hi; cbn [length] in Hi; [lia|].
  destruct i as [|i]; cbn [nth index_of].
  - rewrite Nat.eqb_refl. reflexivity.
  - destruct (Nat.eqb_spec (nth i r 0) q) as [E|_].
    + exfalso. apply Hq. rewrite <- E. apply nth_In. lia.
    + rewrite IH by lia. reflexivity.
Qed.

Lemma index_of_some k qs i : index_of k qs = Some i -> i < length qs /\ nth i qs 0 = k.
Proof.
  revert i. induction qs as [|q r IH]; intros i H; cbn [index_of] in H; [discriminate|].
  destruct (Nat.eqb_spec k q) as [->|Hne].
  - inversion H; subst. cbn. split; [lia|reflexivity].
  - destruct (index_of k r) as [j|] eqn:E; cbn [option_map] in H; [|discriminate].
    inversion H; subst. destruct (IH j eq_refl) as [H1 H2]. cbn [length nth]. split; [lia|exact H2].
Qed.

Lemma merge_length qs t x : length (merge qs t x) = length x.
Proof. unfold merge. rewrite map_length, seq_length. reflexivity. Qed.

Lemma merge_nth qs t x k : k < length x ->
  nth k (merge qs t x) false = match index_of k qs with Some i => nth i t false | None => nth k x false end.
Proof.
  intro Hk. unfold merge.
  set (f := fun k => match index_of k qs with Some i => nth i t false | None => nth k x false end).
  rewrite (nth_indep _ false (f 0)) by (rewrite map_length, seq_length; exact Hk).
  rewrite map_nth, seq_nth by exact Hk. reflexivity.
Qed.

Lemma select_nth qs x i : i < length qs -> nth i (select qs x) false = nth (nth i qs 0) x false.
Proof.
  intro Hi. unfold select. set (f := fun q => nth q x false).
  rewrite (nth_indep (map f qs) false (f 0)) by (rewrite map_length; exact Hi).
  rewrite map_nth. reflexivity.
Qed.

Lemma agree_off_merge qs t x : agree_off qs x (merge qs t x) = true.
Proof.
  apply agree_off_spec. split; [symmetry; apply merge_length|].
  intros k Hk Hn. rewrite merge_nth by exact Hk. apply index_of_none in Hn. rewrite Hn. reflexivity.
Qed.

Lemma select_merge qs t x : NoDup qs -> Forall (fun q => q < length x) qs -> length t = length qs ->
  select qs (merge qs t x) = t.
Proof.
  intros Hnd Hr Hl. apply (nth_ext _ _ false false); [rewrite select_length; symmetry; exact Hl|].
  intros i Hi. rewrite select_length in Hi. rewrite select_nth by exact Hi.
  assert (Hq : nth i qs 0 < length x).
  { rewrite Forall_forall in Hr. apply Hr. apply nth_In. exact Hi. }
  rewrite merge_nth by exact Hq. rewrite index_of_nth by assumption. reflexivity.
Qed.

Lemma merge_unique qs t x m : NoDup qs -> Forall (fun q => q < length x) qs ->
  agree_off qs x m = true -> select qs m = t -> m = merge qs t x.
Proof.
  intros Hnd Hr Ha Hs. apply agree_off_spec in Ha. destruct Ha as [Hl Ha].
  apply (nth_ext _ _ false false); [rewrite merge_length; symmetry; exact Hl|].
  intros k Hk. rewrite <- Hl in Hk. rewrite merge_nth by exact Hk.
  destruct (index_of k qs) as [i|] eqn:E.
  - destruct (index_of_some _ _ _ E) as [Hi Hq]. subst t. rewrite select_nth by exact Hi. rewrite Hq. reflexivity.
  - apply index_of_none in E. symmetry. apply Ha; assumption.
Qed.

Lemma agree_off_merge_l qs t x y : agree_off qs (merge qs t x) y = agree_off qs x y.
Proof.
  apply eq_true_iff_eq. rewrite !agree_off_spec, merge_length.
  split; intros [Hl H]; (split; [exact Hl|]); intros k Hk Hn.
  - rewrite <- (H k Hk Hn). rewrite merge_nth by exact Hk. apply index_of_none in Hn. rewrite Hn. reflexivity.
  - rewrite merge_nth by exact Hk. pose proof Hn as Hn'. apply index_of_none in Hn'. rewrite Hn'. apply H; assumption.
Qed.

Lemma agree_off_sym qs x y : agree_off qs x y = agree_off qs y x.
Proof.
  assert (G : forall a b, agree_off qs a b = true -> agree_off qs b a = true).
  { intros a b H. apply agree_off_spec in H. destruct H as [Hl H]. apply agree_off_spec.
    split; [symmetry; exact Hl|]. intros k Hk Hn. symmetry. apply H; [rewrite Hl; exact Hk|exact Hn]. }
  destruct (agree_off qs x y) eqn:E1, (agree_off qs y x) eqn:E2; try reflexivity.
  - apply G in E1. congruence.
  - apply G in E2. congruence.
Qed.

Lemma agree_select_eq qs x y : agree_off qs x y = true -> select qs x = select qs y -> x = y.
Proof.
  intros Ha Hs. apply agree_off_spec in Ha. destruct Ha as [Hl Ha].
  apply (nth_ext _ _ false false); [exact Hl|]. intros k Hk.
  destruct (in_dec Nat.eq_dec k qs) as [Hin|Hn]; [|apply Ha; assumption].
  destruct (In_nth _ _ 0 Hin) as [i [Hi Hq]]. subst k.
  assert (E := f_equal (fun l => nth i l false) Hs). cbv beta in E. rewrite !select_nth in E by exact Hi. exact E.
Qed.

Lemma agree_off_refl qs x : agree_off qs x x = true.
Proof. apply agree_off_spec. split; [reflexivity|]. intros; reflexivity. Qed.

Section LiftAlgebra.
  Variable K : cring.
  Add Ring Kring : (c_ring K).
  Local Open Scope cr_scope.

  Lemma ind_and a b : ind (K:=K) (a && b) = ind (K:=K) a * ind (K:=K) b.
  Proof. destruct a, b; cbn [andb ind]; ring. Qed.

  (* reindexing a sum restricted to the indices that agree with x off qs by the 2^|qs| values of the qs-bits *)
  Lemma rsum_agree n qs (x : list bool) (F : list bool -> K) :
    length x = n -> NoDup qs -> Forall (fun q => q < n) qs ->
    rsum (2 ^ n) (fun m => F (bits n m) * ind (K:=K) (agree_off qs x (bits n m)))
    = rsum (2 ^ length qs) (fun t => F (merge qs (bits (length qs) t) x)).
  Proof.
    intros Hx Hnd Hr. set (k := length qs).
    set (s := fun m => val (select qs (bits n m))).
    assert (Hs : forall m, s m < 2 ^ k).
    { intro m. unfold s, k. rewrite <- (select_length qs (bits n m)). apply val_lt. }
    transitivity (rsum (2 ^ n) (fun m => rsum (2 ^ k) (fun t =>
                   if Nat.eqb t (s m) then F (bits n m) * ind (K:=K) (agree_off qs x (bits n m)) else c0))).
    { apply rsum_ext. intros m _. symmetry.
      apply (rsum_delta K (2 ^ k) (s m) (fun _ => F (bits n m) * ind (K:=K) (agree_off qs x (bits n m))) (Hs m)). }
    rewrite rsum_swap. apply rsum_ext. intros t Ht.
    set (mt := merge qs (bits k t) x).
    assert (Hlen : length mt = n) by (unfold mt; rewrite merge_length; exact Hx).
    assert (Hr' : Forall (fun q => q < length x) qs) by (rewrite Hx; exact Hr).
    assert (Hbits : bits n (val mt) = mt) by (rewrite <- Hlen; apply bits_val).
    rewrite (rsum_single K (2 ^ n) (val mt)).
    - rewrite Hbits. unfold s. rewrite Hbits. unfold mt at 1.
      rewrite select_merge by (try assumption; apply bits_length). rewrite val_bits_lt by exact Ht.
      rewrite Nat.eqb_refl. unfold mt at 2. rewrite agree_off_merge. cbn [ind]. ring.
    - rewrite <- Hlen. apply val_lt.
    - intros m Hm Hne. destruct (Nat.eqb_spec t (s m)) as [E|_]; [|reflexivity].
      destruct (agree_off qs x (bits n m)) eqn:Ea; [|cbn [ind]; ring]. exfalso. apply Hne.
      assert (Hb : bits n m = mt).
      { apply merge_unique; try assumption. apply (val_inj); [rewrite select_length, bits_length; reflexivity|].
        rewrite val_bits_lt by exact Ht. symmetry. exact E. }
      rewrite <- Hb. symmetry. apply val_bits_lt. exact Hm.
  Qed.

  Lemma lift_mul (G1 G2 : Mat K) qs n : NoDup qs -> Forall (fun q => q < n) qs ->
    mat_eq (2 ^ n) (mmul (2 ^ n) (lift_spec (K:=K) G1 qs n) (lift_spec (K:=K) G2 qs n))
           (lift_spec (K:=K) (mmul (2 ^ length qs) G1 G2) qs n).
  Proof.
    intros Hnd Hr i j Hi Hj. unfold mmul at 1. unfold lift_spec. cbv zeta.
    set (x := bits n i). set (y := bits n j).
    rewrite (rsum_ext K _ _ (fun m =>
       (G1 (val (select qs x)) (val (select qs (bits n m))) * G2 (val (select qs (bits n m))) (val (select qs y))
        * ind (K:=K) (agree_off qs (bits n m) y)) * ind (K:=K) (agree_off qs x (bits n m)))) by (intros m _; ring).
    rewrite (rsum_agree n qs x (fun bm => G1 (val (select qs x)) (val (select qs bm)) * G2 (val (select qs bm)) (val (select qs y))
                                          * ind (K:=K) (agree_off qs bm y))) by (try assumption; apply bits_length).
    unfold mmul. rewrite <- rsum_scale_r. apply rsum_ext. intros t Ht.
    rewrite select_merge; try assumption; try apply bits_length; [|subst x; rewrite bits_length; exact Hr].
    rewrite val_bits_lt by exact Ht. rewrite agree_off_merge_l. reflexivity.
  Qed.

  Lemma lift_scale c (G : Mat K) qs n i j : lift_spec (K:=K) (mscale c G) qs n i j = mscale c (lift_spec (K:=K) G qs n) i j.
  Proof. unfold lift_spec, mscale. ring. Qed.

  Lemma lift_adj (G : Mat K) qs n i j : lift_spec (K:=K) (adj G) qs n i j = adj (lift_spec (K:=K) G qs n) i j.
  Proof.
    unfold lift_spec, adj. cbv zeta. rewrite conj_mul, (agree_off_sym qs (bits n j) (bits n i)). f_equal.
    destruct (agree_off qs (bits n i) (bits n j)); cbn [ind]; [symmetry; apply conj_1|symmetry; apply conj_0].
  Qed.

  Lemma lift_compat (G G' : Mat K) qs n : mat_eq (2 ^ length qs) G G' ->
    mat_eq (2 ^ n) (lift_spec (K:=K) G qs n) (lift_spec (K:=K) G' qs n).
  Proof.
    intros H i j _ _. unfold lift_spec. cbv zeta. rewrite H; [reflexivity| |].
    - rewrite <- (select_length qs (bits n i)). apply val_lt.
    - rewrite <- (select_length qs (bits n j)). apply val_lt.
  Qed.

  Lemma lift_eye qs n : mat_eq (2 ^ n) (lift_spec (K:=K) eye qs n) eye.
  Proof.
    intros i j Hi Hj. unfold lift_spec, eye. cbv zeta.
    destruct (Nat.eqb_spec i j) as [->|Hne].
    - rewrite Nat.eqb_refl, agree_off_refl. cbn [ind]. ring.
    - destruct (agree_off qs (bits n i) (bits n j)) eqn:Ea; [|cbn [ind]; ring].
      destruct (Nat.eqb_spec (val (select qs (bits n i))) (val (select qs (bits n j)))) as [E|_]; [|cbn [ind]; ring].
      exfalso. apply Hne. apply (bits_inj n); try assumption. apply (agree_select_eq qs); [exact Ea|].
      apply val_inj; [rewrite !select_length; reflexivity|exact E].
  Qed.
End LiftAlgebra.
